#!/usr/bin/env python3
"""tools/coverage.py – which lines of /repo/src does the correspondence check actually execute?

Builds a copy of harness/ with `-C instrument-coverage` (nightly toolchain: its llvm-tools provide llvm-profdata / llvm-cov), runs every
generator profile registered in checks_config.py at its largest quick budget through `harness run` (the implementation side of the
differential check), merges the profiles and writes
   coverage/summary.txt    per-file line coverage of /repo/src
   coverage/uncovered.txt  the uncovered line ranges with their source text
This is NOT a check and decides nothing; it measures the tie between model and code: a behavioural line of the crate that no script
executes cannot be caught by the correspondence.  Scratch build goes to /tmp/verif-cov and is removed afterwards."""
import os, shutil, subprocess, sys, glob
ROOT = os.path.dirname(os.path.dirname(os.path.abspath(__file__)))
sys.path.insert(0, ROOT)
from checks_config import PROPS
W = "/tmp/verif-cov"
TB = os.path.expanduser("~/.rustup/toolchains/nightly-x86_64-unknown-linux-gnu/lib/rustlib/x86_64-unknown-linux-gnu/bin")


def main():
    tier = sys.argv[1] if len(sys.argv) > 1 else "quick"
    shutil.rmtree(W, ignore_errors=True)
    os.makedirs(W + "/raw")
    shutil.copytree(os.path.join(ROOT, "harness"), W + "/h", ignore=shutil.ignore_patterns("target", ".build.lock"))
    env = dict(os.environ, RUSTFLAGS="-C instrument-coverage", CARGO_NET_OFFLINE="true", LLVM_PROFILE_FILE=f"{W}/buildraw/b-%p.profraw")  # instrumented build scripts / proc macros must not drop .profraw files into /repo
    r = subprocess.run(["cargo", "+nightly", "build", "--release", "--offline"], cwd=W + "/h", env=env, stdout=subprocess.PIPE, stderr=subprocess.STDOUT)
    if r.returncode != 0:
        print(r.stdout.decode()[-2000:]); sys.exit(1)
    H = W + "/h/target/release/harness"
    profs = {}
    for c in PROPS.values():
        for pr in c["profiles"]:
            if not pr.get("corpus"):
                profs[pr["name"]] = max(profs.get(pr["name"], 0), pr[tier])
    lines = 0
    for name, n in sorted(profs.items()):
        if n <= 0:
            continue
        e = dict(os.environ, LLVM_PROFILE_FILE=f"{W}/raw/{name}-%p.profraw")
        g = subprocess.run([H, "gen", name, "1", str(n)], stdout=subprocess.PIPE, env=e)
        subprocess.run([H, "run"], input=g.stdout, stdout=subprocess.DEVNULL, env=e)
        lines += len(g.stdout.splitlines())
    for wfile in glob.glob(os.path.join(ROOT, "witness", "*.txt")) + glob.glob(os.path.join(ROOT, "corpus", "*.txt")):
        e = dict(os.environ, LLVM_PROFILE_FILE=f"{W}/raw/w-%p.profraw")
        subprocess.run([H, "run"], input=open(wfile, "rb").read(), stdout=subprocess.DEVNULL, env=e)
    subprocess.check_call([TB + "/llvm-profdata", "merge", "-sparse"] + glob.glob(W + "/raw/*.profraw") + ["-o", W + "/all.profdata"])
    ign = r"(\.cargo|rustc|/h/src|rustup)"
    rep = subprocess.run([TB + "/llvm-cov", "report", H, f"-instr-profile={W}/all.profdata", f"--ignore-filename-regex={ign}"], stdout=subprocess.PIPE).stdout.decode()
    lcov = subprocess.run([TB + "/llvm-cov", "export", H, f"-instr-profile={W}/all.profdata", f"--ignore-filename-regex={ign}", "-format=lcov"], stdout=subprocess.PIPE).stdout.decode()
    os.makedirs(os.path.join(ROOT, "coverage"), exist_ok=True)
    with open(os.path.join(ROOT, "coverage", "summary.txt"), "w") as f:
        f.write(f"# tier={tier}: {len(profs)} profiles, {lines} script lines through the instrumented harness (implementation side only)\n")
        f.write("# file  lines  missed-lines  line-coverage\n")
        for l in rep.split("\n"):
            t = l.split()
            if len(t) >= 10 and (t[0].endswith(".rs") or t[0] == "TOTAL"):
                f.write(f"{t[0]}  {t[7]}  {t[8]}  {t[9]}\n")
    cur, unc = None, {}
    for l in lcov.split("\n"):
        if l.startswith("SF:"):
            cur = l[3:]
        elif l.startswith("DA:"):
            n, c = l[3:].split(",")[:2]
            if int(c) == 0:
                unc.setdefault(cur, []).append(int(n))
    with open(os.path.join(ROOT, "coverage", "uncovered.txt"), "w") as f:
        for fn, ls in sorted(unc.items()):
            src = open(fn).read().split("\n")
            f.write(f"== {fn}\n")
            for n in ls:
                f.write(f"{n:5d}  {src[n-1]}\n")
    shutil.rmtree(W, ignore_errors=True)
    print(open(os.path.join(ROOT, "coverage", "summary.txt")).read())


if __name__ == "__main__":
    main()
