import CrdtModel.Model.Codec
/-! `P` / `PO`: model of `serde_json::to_string` + `serde_json::from_str` through the codecs of Model/Codec.lean.
The text is the rendering of the JSON tree (compared byte for byte with the real crate's – canonicalised – text);
the restored value is decoded from the TREE (parsing the text back is trusted to serde_json). -/
namespace Driver
open Crdt

def persistWith {σ : Type} (c : Codec σ) (s : σ) : (Except String String) × Option σ :=
  match c.enc s with
  | .ok j => (.ok j.render, c.dec j)
  | .error e => (.error e, none)

abbrev natS : Scalar Nat := Scalar.nat
abbrev natK : KeyCodec Nat := KeyCodec.nat
abbrev natC : Codec Nat := Codec.nat

end Driver
