import CrdtModel.Model.Json
/-! JSON text → tree, for the `serde_vectors` corpus only (`F serde.<kind> <text>`): the pinned test vectors of
/repo/test/serialization are TEXT, so the driver has to read them.  Not part of the verified model (the theorems are
about trees; `serde_json::from_str` is trusted on the implementation side).  Compact JSON without whitespace, integer
numbers, strings with `\"` and `\\` escapes only.  Fuel = input length (every call consumes a character). -/
namespace Driver
open Crdt

def parseDigits : List Char → Nat → Option (Nat × List Char)
  | c :: t, acc => if c.isDigit then
      match parseDigits t (acc * 10 + (c.toNat - '0'.toNat)) with
      | some r => some r
      | none => some (acc * 10 + (c.toNat - '0'.toNat), t)
    else none
  | [], _ => none

def parseStr : List Char → List Char → Option (String × List Char)
  | '"' :: t, acc => some (String.ofList acc.reverse, t)
  | '\\' :: c :: t, acc => parseStr t (c :: acc)
  | c :: t, acc => parseStr t (c :: acc)
  | [], _ => none

mutual
def parseValue : Nat → List Char → Option (Json × List Char)
  | 0, _ => none
  | fuel + 1, cs =>
    match cs with
    | '"' :: t => (parseStr t []).map (fun (s, r) => (.str s, r))
    | '[' :: ']' :: t => some (.arr [], t)
    | '[' :: t => (parseElems fuel t).map (fun (l, r) => (.arr l, r))
    | '{' :: '}' :: t => some (.obj [], t)
    | '{' :: t => (parseFields fuel t).map (fun (l, r) => (.obj l, r))
    | 't' :: 'r' :: 'u' :: 'e' :: t => some (.bool true, t)
    | 'f' :: 'a' :: 'l' :: 's' :: 'e' :: t => some (.bool false, t)
    | 'n' :: 'u' :: 'l' :: 'l' :: t => some (.null, t)
    | '-' :: t => (parseDigits t 0).map (fun (n, r) => (.num (-(n : Int)), r))
    | t => (parseDigits t 0).map (fun (n, r) => (.num n, r))
def parseElems : Nat → List Char → Option (List Json × List Char)
  | 0, _ => none
  | fuel + 1, cs =>
    match parseValue fuel cs with
    | some (v, ',' :: t) => (parseElems fuel t).map (fun (l, r) => (v :: l, r))
    | some (v, ']' :: t) => some ([v], t)
    | _ => none
def parseFields : Nat → List Char → Option (List (String × Json) × List Char)
  | 0, _ => none
  | fuel + 1, cs =>
    match cs with
    | '"' :: t =>
      match parseStr t [] with
      | some (k, ':' :: t') =>
        match parseValue fuel t' with
        | some (v, ',' :: r) => (parseFields fuel r).map (fun (l, r') => ((k, v) :: l, r'))
        | some (v, '}' :: r) => some ([(k, v)], r)
        | _ => none
      | _ => none
    | _ => none
end

def parseJson (s : String) : Option Json :=
  let cs := s.toList
  match parseValue (cs.length + 1) cs with
  | some (j, []) => some j
  | _ => none

/-- insertion of a field into a list sorted by key (string order) -/
def insField (k : String) (v : Json) : List (String × Json) → List (String × Json)
  | [] => [(k, v)]
  | (k', v') :: t => if k < k' then (k, v) :: (k', v') :: t else (k', v') :: insField k v t

mutual
/-- what `serde_json::to_value` + `to_string` print: every object's keys sorted (serde_json's `Map` is a `BTreeMap`) -/
def sortKeys : Json → Json
  | .arr l => .arr (sortKeysList l)
  | .obj l => .obj (sortKeysFields l)
  | j => j
def sortKeysList : List Json → List Json
  | [] => []
  | x :: t => sortKeys x :: sortKeysList t
def sortKeysFields : List (String × Json) → List (String × Json)
  | [] => []
  | (k, v) :: t => insField k (sortKeys v) (sortKeysFields t)
end

end Driver
