import Driver.Machine
import Driver.Sut.RR
import Driver.Sut.VClock
import Driver.Sut.Lattice
import Driver.Sut.Orswot
import Driver.Sut.MVReg
import Driver.Sut.Ident
import Driver.Sut.GList
import Driver.Sut.Map
import Driver.Sut.Merkle
import Driver.Sut.Serde
/-! Line-protocol driver: reads a command script on stdin, prints the model's canonical observation
(and, after ` | `, the value of the specification functions) for every command. -/
open Driver

def newCase (ty : String) (n : Nat) : Option Machine :=
  -- records extended with the C16/C17/C18 specification fields take precedence
  match rrCase ty n with
  | some m => some m
  | none =>
  match ty with
  | "vclock" => some (Machine.mk' vclockOps n)
  | "orswot" => some (Machine.mk' orswotOps n)
  | "mvreg" => some (Machine.mk' (mvregOps true) n)
  | "mvreg_raw" => some (Machine.mk' (mvregOps false) n)
  | "glist" => some (Machine.mk' glistOps n)
  | "list" => some (Machine.mk' listOps n)
  | "list_raw" => some (Machine.mk' listRawOps n)
  | "map_mvreg" => some (Machine.mk' mapMVOps n)
  | "map_orswot" => some (Machine.mk' mapOROps n)
  | "map_map_mvreg" => some (Machine.mk' mapMapMVOps n)
  | "merkle" => some (Machine.mk' merkleOps n)
  | "gcounter" => some (Machine.mk' gcounterOps n)
  | "pncounter" => some (Machine.mk' pncounterOps n)
  | "gset" => some (Machine.mk' gsetOps n)
  | "lwwreg" => some (Machine.mk' lwwOps n)
  | "maxreg" => some (Machine.mk' maxregOps n)
  | "minreg" => some (Machine.mk' minregOps n)
  | _ => none

def pureCmd (f : String) (args : List String) : String :=
  match pureVClock f args with
  | some r =>
    match specVClock f args with
    | some sp => "r=" ++ r ++ " | r=" ++ sp
    | none => "r=" ++ r
  | none =>
    match pureIdent f args with
    | some r => "r=" ++ r
    | none =>
      match pureList f args with
      | some r => "r=" ++ r
      | none =>
        match pureSerde f args with
        -- C19 oracle: re-encoding a pinned vector reproduces the pinned text
        | some r => "r=" ++ r ++ " | pinned=true"
        | none => "badcmd"

def step (cur : Option Machine) (line : String) : Option Machine × String :=
  let toks := (line.trimAscii.toString.splitOn " ").filter (· ≠ "")
  match toks with
  | [] => (cur, "#")
  | t :: rest =>
    if t.startsWith "#" then (cur, "#") else
    match t with
    | "T" =>
      match rest with
      | ty :: ns :: _ =>
        let n := ns.toNat?.getD 0
        match newCase ty n with
        | some m => (some m, "T " ++ ty ++ " " ++ toString n)
        | none => (none, "badtype")
      | _ => (none, "badtype")
    | "F" =>
      match rest with
      | f :: args => (cur, pureCmd f args)
      | [] => (cur, "badcmd")
    | _ =>
      match cur with
      | none => (cur, "nocase")
      | some m =>
        let (m', out) := m.exec toks
        (some m', out)

partial def loop (h : IO.FS.Stream) (out : IO.FS.Stream) (cur : Option Machine) : IO Unit := do
  let line ← h.getLine
  if line.isEmpty then return ()
  let (cur', o) := step cur line
  -- bound the line length (same rule as the harness); observations are ASCII so bytes = characters
  if o.utf8ByteSize > 20000 then
    out.putStrLn ((o.take 20000).toString ++ " ...TRUNCATED len=" ++ toString o.utf8ByteSize)
  else
    out.putStrLn o
  loop h out cur'

def main : IO Unit := do
  let stdin ← IO.getStdin
  let stdout ← IO.getStdout
  loop stdin stdout none
