import Driver.Canon
import CrdtModel.Model.Identifier
/-! `Identifier`: canonical syntax `[n/d:m;n/d:m]` and the pure functions `F id.*` / `F idd.*`
(mirror of harness/src/sut/ident.rs). -/
namespace Driver
open Crdt

/-- `OrdDot` (src/dot.rs:98-106, `derive(Ord)`: actor first) is modelled as the pair (actor, counter) -/
abbrev OrdDotN := Nat × Nat

structure MarkerIO (τ : Type) where
  parse : String → Option τ
  shw : τ → String

def natMarker : MarkerIO Nat := ⟨String.toNat?, toString⟩
def dotMarker : MarkerIO OrdDotN := ⟨parsePair ".", fun p => toString p.1 ++ "." ++ toString p.2⟩

def parseRat (s : String) : Option Rat :=
  match s.splitOn "/" with
  | [n] => n.toInt?.map (fun (i : Int) => (i : Rat))
  | [n, d] => match n.toInt?, d.toInt? with
    | some (a : Int), some (b : Int) => if b = 0 then none else some ((a : Rat) / (b : Rat))
    | _, _ => none
  | _ => none

def showRat (r : Rat) : String := toString r.num ++ "/" ++ toString r.den

def parseNode {τ : Type} (M : MarkerIO τ) (s : String) : Option (Rat × τ) :=
  match s.splitOn ":" with
  | [r, m] => match parseRat r, M.parse m with
    | some a, some b => some (a, b)
    | _, _ => none
  | _ => none

def parseIdent {τ : Type} (M : MarkerIO τ) (s : String) : Option (Identifier τ) :=
  match strip s "[" "]" with
  | none => none
  | some inner =>
    if inner = "" then some ⟨[]⟩ else
    (allSome ((inner.splitOn ";").map (parseNode M))).map (fun p => ⟨p⟩)

def showIdent {τ : Type} (M : MarkerIO τ) (i : Identifier τ) : String :=
  "[" ++ joinWith ";" (i.path.map (fun n => showRat n.1 ++ ":" ++ M.shw n.2)) ++ "]"

def parseOptIdent {τ : Type} (M : MarkerIO τ) (s : String) : Option (Option (Identifier τ)) :=
  if s = "-" then some none else (parseIdent M s).map some

def showOrdering : Ordering → String
  | .lt => "lt" | .eq => "eq" | .gt => "gt"

def showValue {τ : Type} [LinOrd τ] (M : MarkerIO τ) (i : Identifier τ) : String :=
  match i.value with
  | some m => M.shw m
  | none => "panic"

/-- model result and, after ` | `, the values predicted by the C14 theorems -/
def pureIdentT {τ : Type} [LinOrd τ] (M : MarkerIO τ) (f : String) (args : List String) : Option String :=
  match f, args with
  | "cmp", [a, b] =>
    match parseIdent M a, parseIdent M b with
    | some x, some y =>
      let o := Identifier.cmp x y
      -- spec (C14.cmp_eq_iff, lt_iff_cmp, cmp_gt_iff_lt_swap): consistent with structural equality and with the swapped call
      let sp := " | eq=" ++ showBool (decide (x = y)) ++ " gt=" ++ showBool (decide (Identifier.cmp y x = .lt))
      some (showOrdering o ++ " eq=" ++ showBool (o == .eq) ++ " lt=" ++ showBool (o == .lt) ++ " gt=" ++ showBool (o == .gt) ++ sp)
    | _, _ => none
  | "between", [a, b, ms] =>
    match parseOptIdent M a, parseOptIdent M b, M.parse ms with
    | some lo, some hi, some m =>
      let r := Identifier.between lo hi m
      let below := match lo with | some l => showOrdering (Identifier.cmp l r) | none => "-"
      let above := match hi with | some h => showOrdering (Identifier.cmp r h) | none => "-"
      -- spec from C14: between_strict / between_comm / between_self / between_after(_empty) / between_before / between_value
      let sp := match lo, hi with
        | some l, some h =>
          match Identifier.cmp l h with
          | .lt => "lo=lt hi=lt last=" ++ M.shw m
          | .gt => "lo=gt hi=gt last=" ++ M.shw m
          | .eq => "lo=eq hi=eq last=" ++ showValue M h
        | some l, none => (if l.path.isEmpty then "lo=gt" else "lo=lt") ++ " last=" ++ M.shw m
        | none, some _ => "hi=lt last=" ++ M.shw m
        | none, none => "last=" ++ M.shw m
      some (showIdent M r ++ " lo=" ++ below ++ " hi=" ++ above ++ " last=" ++ showValue M r ++ " | " ++ sp)
    | _, _, _ => none
  | "value", [a] => (parseIdent M a).map (showValue M)
  | "into_value", [a] => (parseIdent M a).map (fun i => match i.intoValue with | some m => M.shw m | none => "panic")
  | "roundtrip", [a] => (parseIdent M a).map (showIdent M)
  | _, _ => none

def pureIdent (f : String) (args : List String) : Option String :=
  if f.startsWith "id." then pureIdentT natMarker (f.drop 3).toString args
  else if f.startsWith "idd." then pureIdentT dotMarker (f.drop 4).toString args
  else none

end Driver
