import Driver.Machine
import Driver.Sut.MVReg
import Driver.Sut.Orswot
import CrdtModel.Model.MapInst
import CrdtModel.Proofs.MapNestedOrswot
/-! Driver records for `Map<u64, V, u64>` with V = MVReg, Orswot, Map<_, MVReg> – mirror of harness/src/sut/map.rs. -/
namespace Driver
open Crdt

/-- what the map driver needs from a nested value type -/
structure NestedSut (V VOp : Type) where
  ops : ValOps V VOp Nat
  gen : V → AddCtx Nat → List String → Option VOp
  parseOp : List String → Option VOp
  showOp : VOp → String
  state : V → String
  read : V → String
  /-- serde representation of the nested value and of its op (C19) -/
  codec : Codec V
  opCodec : Codec VOp
  /-- extra top-level observation of the nested value under a key (`none` = key absent); "" = nothing printed.
  Orswot: the members with their remove contexts (what the nested-read theorem of C05 speaks about) -/
  members : Option V → String := fun _ => ""
  /-- specification of those fields from the log and the knowledge set, inside the second region ("" = no claim) -/
  spec2 : List (MapOp Nat VOp Nat) → List (MapOp Nat VOp Nat) → String := fun _ _ => ""
  /-- the extra delivery premise of the second region -/
  ok2 : List (MapOp Nat VOp Nat) → List (MapOp Nat VOp Nat) → MapOp Nat VOp Nat → Bool := fun _ _ _ => true

def commas (s : String) : String := s.replace " " ","

def showCtx' {β : Type} (r : ReadCtx β Nat) : String := showClock r.addClock ++ "/" ++ showClock r.rmClock

def nestedMV : NestedSut (MVReg Nat Nat) (MVOp Nat Nat) where
  ops := MVReg.valOps
  gen := fun v ctx args => match args with
    | ["write", x] => x.toNat?.map (fun x => v.write x ctx)
    | _ => none
  parseOp := fun args => match args with
    | ["put", c, v] => match parseClock c, v.toNat? with
      | some c, some v => some ⟨c, v⟩
      | _, _ => none
    | _ => none
  showOp := showMVOp
  state := fun v => showMVVals v.vals
  read := fun v => let r := v.read; showSortedNats r.val ++ "@" ++ showCtx' r
  codec := mvregCodec natK natC
  opCodec := mvOpCodec natK natC

def isOk {ε α : Type} : Except ε α → Bool
  | .ok _ => true
  | .error _ => false


/-- members of a nested set with their remove contexts, `[m:clock;…]` over the member domain {0,1,2} -/
def showMembers (v : Option OS) : String :=
  let o := v.getD Orswot.init
  "[" ++ joinWith ";" (([0, 1, 2] : List Nat).filterMap (fun m =>
    let c := o.contains m
    if c.val then some (toString m ++ ":" ++ showClock c.rmClock) else none)) ++ "]"

/-- computable `NLogWF` (Proofs/MapNestedOrswot.lean): key-level LogWF, nested adds carry the dot of their Map op, positive counters,
a dot names one update -/
def nlogWF (U : List (MapOp Nat OOp Nat)) : Bool :=
  orswotWF (U.map CMap.keyOp) &&
  U.all (fun o => match o with
    | .up d _ (.add d' _) => decide (d' = d) && decide (0 < d.counter)
    | .up d _ (.rm _ _) => decide (0 < d.counter)
    | .rm _ _ => true) &&
  U.all (fun o => match o with
    | .up d k x => U.all (fun o' => match o' with
        | .up d' k' x' => !(decide (d' = d)) || (decide (k' = k) && decide (x' = x))
        | .rm _ _ => true)
    | .rm _ _ => true)

/-- the causal premise on contexts (`CMap.CtxOk`): the context of a key remove / nested remove is below the receiver's clock -/
def ctxOk (K : List (MapOp Nat OOp Nat)) (op : MapOp Nat OOp Nat) : Bool :=
  let below (c : VClock Nat) : Bool := c.dots.l.all (fun p => decide (p.2 ≤ OrswotSpec.clk (K.map CMap.keyOp) p.1))
  match op with
  | .rm c _ => below c
  | .up _ _ (.rm c _) => below c
  | .up _ _ (.add _ _) => true

/-- nested-read specification (C05.nested_orswot_witnesses): per key, the members whose witness table `E2` is not all zero, with it -/
def specNestedOrswot (U K : List (MapOp Nat OOp Nat)) : String :=
  if nlogWF U && addClosed (U.map CMap.keyOp) (K.map CMap.keyOp) then
    let actors : List Nat := (K.filterMap (fun o => match o with | .up d _ _ => some d.actor | .rm _ _ => none)).eraseDups
    String.join (([0, 1, 2] : List Nat).map (fun k =>
      " nm" ++ toString k ++ "=[" ++ joinWith ";" (([0, 1, 2] : List Nat).filterMap (fun m =>
        let c : VClock Nat := actors.foldl (fun acc a =>
          let n := CMap.E2 K k m a
          if n = 0 then acc else acc.apply ⟨a, n⟩) ∅
        if c.isEmpty then none else some (toString m ++ ":" ++ showClock c))) ++ "]")) |>.trimAsciiStart.toString
  else ""

def nestedOR : NestedSut OS OOp where
  ops := Orswot.valOps
  gen := fun v ctx args => match args with
    | ["add", m] => m.toNat?.map (fun m => Orswot.add m ctx)
    | ["addall", ms] => (parseNats ms).map (fun ms => Orswot.addAll ms ctx)
    | ["rm", m] => m.toNat?.map (fun m => Orswot.rm m (v.contains m).deriveRmCtx)
    | ["rmread", m] => m.toNat?.map (fun m => Orswot.rm m v.read.deriveRmCtx)
    | _ => none
  parseOp := parseOrswotOp
  showOp := showOrswotOp
  state := fun v => "<" ++ commas (showOrswotState v) ++ ">"
  read := fun v => let r := v.read; showNats r.val ++ "@" ++ showCtx' r
  codec := orswotCodec natS natS
  opCodec := orswotOpCodec natS natS
  members := showMembers
  spec2 := specNestedOrswot
  ok2 := fun _ K op => ctxOk K op

section
variable {V VOp : Type}

abbrev MapT (V : Type) := CMap Nat V Nat
abbrev MapOpT (VOp : Type) := MapOp Nat VOp Nat

def mapKeys : List Nat := [0, 1, 2]

def mapGen (N : NestedSut V VOp) (m : MapT V) (ctx : Option (AddCtx Nat)) (actor : Nat) (args : List String) :
    Option (MapOpT VOp) :=
  match args with
  | "up" :: k :: rest =>
    match k.toNat? with
    | none => none
    | some key =>
      let cur := ((m.entries.get? key).map (·.val)).getD N.ops.default
      let c := ctx.getD (m.readCtx.deriveAddCtx actor)
      -- (the harness probes with a throw-away context first; a failing probe yields `nogen` there as well)
      (N.gen cur c rest).map (fun op => MapOp.up c.dot key op)
  | ["rm", k] => k.toNat?.map (fun key => CMap.rm key (m.get key).deriveRmCtx)
  | ["rmread", k] => k.toNat?.map (fun key => CMap.rm key m.readCtx.deriveRmCtx)
  | ["rmctx", k, c] => match k.toNat?, parseClock c with
    | some key, some c => some (CMap.rm key ⟨c⟩)
    | _, _ => none
  | _ => none

def mapParseOp (N : NestedSut V VOp) (args : List String) : Option (MapOpT VOp) :=
  match args with
  | "up" :: d :: k :: rest => match parseDot d, k.toNat?, N.parseOp rest with
    | some d, some k, some op => some (.up d k op)
    | _, _, _ => none
  | ["rm", c, ks] => match parseClock c, parseNats ks with
    | some c, some ks => some (.rm c (sortDedupNat ks))
    | _, _ => none
  | _ => none

def mapShowOp (N : NestedSut V VOp) : MapOpT VOp → String
  | .up d k op => "up:" ++ showDot d ++ ":" ++ toString k ++ ":(" ++ N.showOp op ++ ")"
  | .rm c ks => "rm:" ++ showClock c ++ ":" ++ showNats ks

def mapState (N : NestedSut V VOp) (m : MapT V) : String :=
  "clock=" ++ showClock m.clock ++ " entries=[" ++
    joinWith ";" (m.entries.l.map (fun p => toString p.1 ++ ":" ++ showClock p.2.clock ++ ":" ++ N.state p.2.val)) ++
    "] deferred=" ++ showDeferred m.deferred

def mapReads (N : NestedSut V VOp) (m : MapT V) : String :=
  let l := m.len
  let e := m.isEmpty
  "len=" ++ toString l.val ++ ":" ++ showCtx' l ++ " isempty=" ++ showBool e.val ++ ":" ++ showCtx' e ++
  " rctx=" ++ showCtx' m.readCtx ++
  String.join (mapKeys.map (fun k =>
    let g := m.get k
    " g" ++ toString k ++ "=" ++ (match g.val with | some v => "some:" ++ N.read v | none => "none") ++ ":" ++ showCtx' g ++
    " gk" ++ toString k ++ "=" ++ showBool g.val.isSome ++ ":" ++ showCtx' g)) ++
  " keys=[" ++ joinWith ";" (m.keys.map (fun c => toString c.val ++ ":" ++ showCtx' c)) ++ "]" ++
  " values=[" ++ joinWith ";" (m.values.map (fun c => N.read c.val ++ ":" ++ showCtx' c)) ++ "]" ++
  " iter=[" ++ joinWith ";" (m.iter.map (fun c => toString c.val.1 ++ ":" ++ N.read c.val.2 ++ ":" ++ showCtx' c)) ++ "]"

def mapValOps (N : NestedSut V VOp) : ValOps (MapT V) (MapOpT VOp) Nat := CMap.valOps N.ops id

def nestedMap (N : NestedSut V VOp) : NestedSut (MapT V) (MapOpT VOp) where
  ops := mapValOps N
  gen := fun v ctx args => mapGen N v (some ctx) 0 args
  parseOp := mapParseOp N
  showOp := mapShowOp N
  state := fun v => "<" ++ commas (mapState N v) ++ ">"
  read := fun v => commas (mapReads N v)
  codec := mapCodec natS natS N.codec
  opCodec := mapOpCodec natS natS N.opCodec

def showMapV : Except MapOpValidation Unit → String
  | .ok _ => "ok"
  | .error (.sourceOrder a s e) => "so:" ++ toString a ++ ":" ++ toString s ++ ":" ++ toString e
  | .error .value => "value"

def showMapMV : Except MapMergeValidation Unit → String
  | .ok _ => "ok"
  | .error .doubleSpentDot => "dsd"
  | .error .value => "value"

/-- key-level specification: the Orswot-of-keys spec state for the key-level reading of the knowledge set -/
def specMapKeys (U K : List (MapOpT VOp)) : String :=
  let U' := U.map CMap.keyOp
  let K' := K.map CMap.keyOp
  if orswotWF U' && addClosed U' K' then
    let s := specOrswotState K'
    let ctx := showClock s.clock ++ "/" ++ showClock s.clock
    "clock=" ++ showClock s.clock ++ " deferred=" ++ showDeferred s.deferred ++
    " len=" ++ toString s.entries.size ++ ":" ++ ctx ++ " isempty=" ++ showBool s.entries.isEmpty ++ ":" ++ ctx ++
    " rctx=" ++ ctx ++
    String.join (mapKeys.map (fun k =>
      " gk" ++ toString k ++ "=" ++ showBool (s.entries.get? k).isSome ++ ":" ++ showClock s.clock ++ "/" ++
        showClock ((s.entries.get? k).getD ∅))) ++
    " keys=[" ++ joinWith ";" (s.entries.l.map (fun p => toString p.1 ++ ":" ++ showClock s.clock ++ "/" ++ showClock p.2)) ++ "]"
  else ""

def mapOps (N : NestedSut V VOp) : CrdtOps (MapT V) (MapOpT VOp) where
  init := CMap.init
  gen := fun s a args => mapGen N s none a args
  parseOp := mapParseOp N
  showOp := mapShowOp N
  apply := CMap.apply N.ops
  merge := some (CMap.merge N.ops)
  obs := fun s => mapState N s ++ " " ++ mapReads N s ++
    String.join (mapKeys.map (fun k =>
      let x := N.members ((s.entries.get? k).map (·.val))
      if x = "" then "" else " nm" ++ toString k ++ "=" ++ x))
  spec2 := N.spec2
  ok2 := N.ok2
  validateOp := fun s op => showMapV (CMap.validateOp N.ops id s op)
  validateMerge := fun s o => showMapMV (CMap.validateMerge N.ops s o)
  resetRemove := some (CMap.resetRemove N.ops)
  eq := some (CMap.eq N.ops)
  persist := some (persistWith (mapCodec natS natS N.codec))
  persistOp := some (persistWith (mapOpCodec natS natS N.opCodec))
  opDot := fun op => match op with
    | .up d _ _ => some (showDot d)
    | .rm _ _ => none
  spec := specMapKeys
  sharedDot := some (fun a b => sharedDotTables (a.entries.l.map (fun p => (p.1, p.2.clock))) (b.entries.l.map (fun p => (p.1, p.2.clock))))
  ok := fun U K op => match op with
    | .up d _ _ => U.all (fun o' => match o' with
        | .up d' k' op' => !(d'.actor = d.actor && d'.counter < d.counter) ||
            K.any (fun x => match x with | .up d'' _ _ => d'' = d' | _ => false)
        | _ => true)
    | .rm _ _ => true

end

def mapMVOps := mapOps nestedMV
def mapOROps := mapOps nestedOR
def mapMapMVOps := mapOps (nestedMap nestedMV)

end Driver
