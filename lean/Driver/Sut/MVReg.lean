import Driver.Machine
import Driver.Persist
import CrdtModel.Model.MVReg
import CrdtModel.Spec.MVRegSpec
/-! Driver record for `MVReg<u64, u64>` – mirror of harness/src/sut/mvreg.rs. -/
namespace Driver
open Crdt

/-- insertion sort (stable) with a strict order given as a Bool function -/
def insertBy {β : Type} (lt : β → β → Bool) (x : β) : List β → List β
  | [] => [x]
  | y :: t => if lt x y then x :: y :: t else y :: insertBy lt x t

def sortBy {β : Type} (lt : β → β → Bool) (l : List β) : List β := l.foldr (insertBy lt) []

/-- canonical order of register entries: clock entry list (lexicographic, prefix first), then value -/
def mvKeyLt (a b : VClock Nat × Nat) : Bool :=
  @decide _ (LinOrd.decLt (a.1.dots.l, a.2) (b.1.dots.l, b.2))

def showMVVals (l : List (VClock Nat × Nat)) : String :=
  "[" ++ joinWith "," ((sortBy mvKeyLt l).map (fun p => showClock p.1 ++ ":" ++ toString p.2)) ++ "]"

def showSortedNats (l : List Nat) : String := showNats (sortBy (fun a b => decide (a < b)) l)

def showMVOp (op : MVOp Nat Nat) : String := "put:" ++ showClock op.clock ++ ":" ++ toString op.val

/-- serde_json text of a clock: `{"0":1,"2":1}` (integer keys are written as strings) -/
def jsonClock (c : VClock Nat) : String :=
  "{" ++ joinWith "," (c.dots.l.map (fun p => "\"" ++ toString p.1 ++ "\":" ++ toString p.2)) ++ "}"

/-- serde_json text of the register: the `Vec` in arrival order, entries as 2-element arrays -/
def jsonMVReg (s : MVReg Nat Nat) : String :=
  "[" ++ joinWith "," (s.vals.map (fun p => "[" ++ jsonClock p.1 ++ "," ++ toString p.2 ++ "]")) ++ "]"

def jsonMVOp (op : MVOp Nat Nat) : String :=
  "{\"Put\":{\"clock\":" ++ jsonClock op.clock ++ ",\"val\":" ++ toString op.val ++ "}}"

def mvObs (s : MVReg Nat Nat) : String :=
  let r := s.read
  "vals=" ++ showMVVals s.vals ++ " read=" ++ showSortedNats r.val ++ " rc=" ++ showClock r.addClock ++ "/" ++ showClock r.rmClock

/-- specification fields from the knowledge list; printed only for well-formed logs (C06's premise) -/
def mvSpec (K : List (MVOp Nat Nat)) : String :=
  if MVSpec.wfB K then
    let m := MVSpec.maxPuts K
    let c := MVSpec.readClock K
    "vals=" ++ showMVVals m ++ " read=" ++ showSortedNats (m.map (·.2)) ++ " rc=" ++ showClock c ++ "/" ++ showClock c
  else ""

def mvregOps (withSpec : Bool) : CrdtOps (MVReg Nat Nat) (MVOp Nat Nat) where
  init := MVReg.init
  gen := fun s a args => match args with
    | ["write", v] => v.toNat?.map (fun v => s.write v (s.readCtx.deriveAddCtx a))
    | _ => none
  parseOp := fun args => match args with
    | ["put", c, v] => match parseClock c, v.toNat? with
      | some c, some v => some ⟨c, v⟩
      | _, _ => none
    | _ => none
  showOp := showMVOp
  apply := MVReg.apply
  merge := some MVReg.merge
  obs := mvObs
  validateOp := fun _ _ => "ok"
  validateMerge := fun _ _ => "ok"
  resetRemove := some MVReg.resetRemove
  eq := some MVReg.eq
  persist := some (persistWith (mvregCodec natK natC))
  persistOp := some (persistWith (mvOpCodec natK natC))
  spec := if withSpec then (fun _ K => mvSpec K) else fun _ _ => ""

end Driver
