import Driver.Machine
import Driver.Persist
import CrdtModel.Spec.VClock
namespace Driver
open Crdt

def showValidation : Except (DotRange Nat) Unit → String
  | .ok _ => "ok"
  | .error r => "range:" ++ toString r.actor ++ ":" ++ toString r.start ++ ":" ++ toString r.stop

def vclockOps : CrdtOps (VClock Nat) (Dot Nat) where
  init := ∅
  gen := fun s a args => match args with
    | ["inc"] => some (s.inc a)
    | _ => none
  parseOp := fun args => match args with
    | d :: _ => parseDot d
    | _ => none
  showOp := showDot
  apply := VClock.apply
  merge := some VClock.merge
  obs := fun s => "clock=" ++ showClock s ++ " empty=" ++ showBool s.isEmpty
  validateOp := fun s d => showValidation (s.validateOp d)
  validateMerge := fun _ _ => "ok"
  resetRemove := some VClock.resetRemove
  eq := some (fun a b => some (decide (a = b)))
  persist := some (persistWith (clockCodec natK))
  persistOp := some (persistWith (dotCodec natC))
  spec := fun _ K => "clock=" ++ showClock (VClockSpec.ofFun (K.map (·.actor)) (fun a => K.foldl (fun m d => if d.actor = a then max m d.counter else m) 0))

/-- Rust `<=` on clocks (`PartialOrd::le`) -/
def vcLe (a b : VClock Nat) : Bool :=
  match a.partialCmp b with
  | some .lt | some .eq => true
  | _ => false

def pureVClock (f : String) (args : List String) : Option String :=
  let c2 (k : VClock Nat → VClock Nat → String) : Option String :=
    match args with
    | [a, b] => match parseClock a, parseClock b with
      | some x, some y => some (k x y)
      | _, _ => none
    | _ => none
  let cn (k : VClock Nat → Nat → String) : Option String :=
    match args with
    | [a, b] => match parseClock a, b.toNat? with
      | some x, some y => some (k x y)
      | _, _ => none
    | _ => none
  let cd (k : VClock Nat → Dot Nat → String) : Option String :=
    match args with
    | [a, b] => match parseClock a, parseDot b with
      | some x, some y => some (k x y)
      | _, _ => none
    | _ => none
  match f with
  | "vc.cmp" => c2 fun a b => showOrd (a.partialCmp b)
  | "vc.ge" => c2 fun a b => showBool (a.ge b)
  | "vc.gt" => c2 fun a b => showBool (a.gt b)
  | "vc.lt" => c2 fun a b => showBool (a.lt b)
  | "vc.le" => c2 fun a b => showBool (vcLe a b)
  | "vc.eq" => c2 fun a b => showBool (decide (a = b))
  | "vc.concurrent" => c2 fun a b => showBool (a.concurrent b)
  | "vc.merge" => c2 fun a b => showClock (a.merge b)
  | "vc.glb" => c2 fun a b => showClock (a.glb b)
  | "vc.rr" => c2 fun a b => showClock (a.resetRemove b)
  | "vc.clone_without" => c2 fun a b => showClock (a.cloneWithout b)
  | "vc.inter" => c2 fun a b => showClock (VClock.intersection a b)
  | "vc.apply" => cd fun a d => showClock (a.apply d)
  | "vc.validate" => cd fun a d => showValidation (a.validateOp d)
  | "vc.inc" => cn fun a x => showDot (a.inc x)
  | "vc.dot" => cn fun a x => showDot (a.dot x)
  | "vc.get" => cn fun a x => toString (a.get x)
  | "vc.is_empty" => match args with
    | [a] => (parseClock a).map fun c => showBool c.isEmpty
    | _ => none
  | "vc.iter" => match args with
    | [a] => (parseClock a).map fun c => "[" ++ joinWith "," (c.iter.map showDot) ++ "]"
    | _ => none
  | "vc.from_iter" => (allSome (args.map parseDot)).map fun ds => showClock (VClock.fromIter ds)
  | "vc.from_dot" => match args with
    | [d] => (parseDot d).map fun d => showClock (VClock.ofDot d)
    | _ => none
  | "dot.cmp" => match args with
    | [a, b] => match parseDot a, parseDot b with
      | some x, some y => some (showOrd (x.partialCmp y))
      | _, _ => none
    | _ => none
  | "dot.inc" => match args with
    | [a] => (parseDot a).map fun d => showDot d.inc
    | _ => none
  | "dot.eq" => match args with
    | [a, b] => match parseDot a, parseDot b with
      | some x, some y =>
        let e := decide (x = y)
        some (showBool e ++ ":" ++ (if e then "true" else "na") ++ ":" ++ showDot x.inc ++ ":" ++ showDot y)
      | _, _ => none
    | _ => none
  | _ => none

end Driver

namespace Driver
open Crdt

/-- specification value for a pure vector-clock call (only inside C10's claimed region: no stored zeros) -/
def specVClock (f : String) (args : List String) : Option String :=
  let c2 (k : VClock Nat → VClock Nat → String) : Option String :=
    match args with
    | [a, b] => match parseClock a, parseClock b with
      | some x, some y => if VClockSpec.noZero x && VClockSpec.noZero y then some (k x y) else none
      | _, _ => none
    | _ => none
  let cd (k : VClock Nat → Dot Nat → String) : Option String :=
    match args with
    | [a, b] => match parseClock a, parseDot b with
      | some x, some y => if VClockSpec.noZero x then some (k x y) else none
      | _, _ => none
    | _ => none
  match f with
  | "vc.cmp" => c2 fun a b => showOrd (VClockSpec.cmp a b)
  | "vc.ge" => c2 fun a b => showBool (VClockSpec.le b a)
  | "vc.le" => c2 fun a b => showBool (VClockSpec.le a b)
  | "vc.gt" => c2 fun a b => showBool (VClockSpec.le b a && !VClockSpec.le a b)
  | "vc.lt" => c2 fun a b => showBool (VClockSpec.le a b && !VClockSpec.le b a)
  | "vc.eq" => c2 fun a b => showBool (VClockSpec.le a b && VClockSpec.le b a)
  | "vc.concurrent" => c2 fun a b => showBool (!VClockSpec.le a b && !VClockSpec.le b a)
  | "vc.merge" => c2 fun a b => showClock (VClockSpec.merge a b)
  | "vc.glb" => c2 fun a b => showClock (VClockSpec.glb a b)
  | "vc.rr" => c2 fun a b => showClock (VClockSpec.resetRemove a b)
  | "vc.clone_without" => c2 fun a b => showClock (VClockSpec.resetRemove a b)
  | "vc.inter" => c2 fun a b => showClock (VClockSpec.intersection a b)
  | "vc.apply" => cd fun a d => showClock (VClockSpec.apply a d)
  | "vc.validate" => cd fun a d =>
      if VClockSpec.validateOk a d then "ok"
      else "range:" ++ toString d.actor ++ ":" ++ toString (a.get d.actor + 1) ++ ":" ++ toString d.counter
  | _ => none

end Driver
