import Driver.Machine
import Driver.Persist
import CrdtModel.Spec.MerkleReg
/-! `merkle`: `MerkleReg` over abstract hashes.  The abstract hash of a node is its script NAME (as the list of
its character codes, ordered like Rust strings); the model's value type is `value × own name` and the hash
function handed to the model is "read the name off the node".  `admit` keeps names and nodes in bijection exactly
like harness/src/sut/merkle.rs: a name can be defined once, and a node equal (same value, same children) to an
already defined one is rejected. -/
namespace Driver
open Crdt

abbrev MH := List Nat
abbrev MV := Nat × MH
abbrev MNode := Node MH MV
abbrev MReg := MerkleReg MH MV

def mhOf (name : String) : MH := name.toList.map Char.toNat
def mhName (h : MH) : String := String.ofList (h.map Char.ofNat)
def mhash (n : MNode) : MH := n.value.2

def showMNode (h : MH) (n : MNode) : String :=
  mhName h ++ ":" ++ toString n.value.1 ++ ":" ++ joinWith "+" (n.children.l.map (fun c => mhName c.1))

def showMNodes (m : FMap MH MNode) : String := "[" ++ joinWith "," (m.l.map (fun p => showMNode p.1 p.2)) ++ "]"

def mkSet (l : List MH) : FSet MH := l.foldl (fun s h => s.insert h ()) ∅
def mkMap (l : List MNode) : FMap MH MNode := l.foldl (fun m n => m.insert (mhash n) n) ∅

/-- mirror of the `api=` flag of the harness: `node` finds every held node under its hash, `hashes` / `all_nodes` / sizes agree -/
def apiOk (s : MReg) : Bool :=
  let rd := s.read
  (MerkleReg.hashes rd).size == rd.size && s.allNodes.length == s.numNodes &&
  (s.dag.l ++ s.orphans.l).all (fun p => match s.node p.1 with
    | some n => decide (mhash n = p.1)
    | none => false)

def showNameSet (h : MH) (m : FMap MH MNode) : String :=
  mhName h ++ ":" ++ joinWith "+" ((MerkleReg.hashes m).l.map (fun c => mhName c.1))

/-- `children(h)` / `parents(h)` for every held hash (dag or orphan), sorted by name -/
def showRel (s : MReg) (f : MReg → MH → FMap MH MNode) : String :=
  let held : FSet MH := mkSet ((s.dag.l ++ s.orphans.l).map (·.1))
  "[" ++ joinWith "," (held.l.map (fun p => showNameSet p.1 (f s p.1))) ++ "]"

def merkleObs (s : MReg) : String :=
  "roots=[" ++ joinWith "," (s.roots.l.map (fun p => mhName p.1)) ++ "] dag=" ++ showMNodes s.dag ++
  " orphans=" ++ showMNodes s.orphans ++ " read=" ++ showMNodes s.read ++
  " nn=" ++ toString s.numNodes ++ " no=" ++ toString s.numOrphans ++
  " kids=" ++ showRel s MerkleReg.children ++ " par=" ++ showRel s MerkleReg.parents ++
  " api=" ++ (if apiOk s then "ok" else "BAD")

def merkleValidate (s : MReg) (op : MNode) : String :=
  let missing := (op.children.l.map (·.1)).filter (fun c => !s.dag.contains c)
  let names := "[" ++ joinWith "," (missing.map mhName) ++ "]"
  match s.validateOp op with
  | .ok _ => if missing.isEmpty then "ok" else "ok-BUT-missing:" ++ names
  | .error (.missingChild h) => "missing:" ++ names ++ " first=" ++ (if missing.head? = some h then "ok" else "BAD")

/-- C19: hashes are abstract, so a hash is written as `"#<name>"` and the model's value (`u64` value × own name) as
`[value,"#<name>"]`; the harness rewrites the real text the same way (harness/src/sut/merkle.rs `canon_reg`) -/
def mhCodec : Codec MH :=
  ⟨fun h => .ok (.str ("#" ++ mhName h)),
   fun j => match j with
     | .str s => if s.startsWith "#" then some (mhOf (s.drop 1).toString) else none
     | _ => none⟩
def mvCodec : Codec MV := Codec.pair Codec.nat mhCodec

def merkleOps : CrdtOps MReg MNode where
  init := MerkleReg.init
  gen := fun s _ args => match args with
    | ["write", v] => v.toNat?.map (fun v => s.write (v, []) (MerkleReg.hashes s.read))
    | _ => none
  parseOp := fun args => match args with
    | "node" :: v :: kids => v.toNat?.map (fun v => ⟨mkSet (kids.map mhOf), (v, [])⟩)
    | _ => none
  admit := fun ops name op =>
    let defined := fun (c : MH) => ops.any (fun p => mhOf p.1 = c)
    if defined (mhOf name) then none
    else if !(op.children.l.all (fun c => defined c.1)) then none
    else if ops.any (fun p => p.2.value.1 = op.value.1 && p.2.children.l.map (·.1) = op.children.l.map (·.1)) then none
    else some ⟨op.children, (op.value.1, mhOf name)⟩
  showOp := fun op => showMNode (mhash op) op
  apply := MerkleReg.apply mhash
  merge := some (MerkleReg.merge mhash)
  obs := merkleObs
  validateOp := merkleValidate
  validateMerge := fun _ _ => "ok"
  eq := some (fun a b => some (decide (a = b)))
  persist := some (persistWith (merkleCodec mhCodec mvCodec))
  persistOp := some (persistWith (nodeCodec mhCodec mvCodec))
  -- C16 for MerkleReg: Ok iff every child is the hash of a VISIBLE received node (C15.validate_op_ok_iff_spec)
  vSpec := fun _ K op =>
    let vis := (MerkleSpec.visibleList mhash K).map mhash
    let missing := (op.children.l.map (·.1)).filter (fun c => !vis.contains c)
    "v=" ++ (if missing.isEmpty then "ok" else "missing:[" ++ joinWith "," (missing.map mhName) ++ "]")
  spec := fun _ K =>
    "dag=" ++ showMNodes (mkMap (MerkleSpec.visibleList mhash K)) ++
    " orphans=" ++ showMNodes (mkMap (MerkleSpec.orphanList mhash K)) ++
    " read=" ++ showMNodes (mkMap (MerkleSpec.headList mhash K))

end Driver
