import Driver.Machine
import Driver.Sut.VClock
import Driver.Sut.Lattice
import Driver.Sut.Orswot
import Driver.Sut.MVReg
/-! C16 / C17 / C18 additions to the driver records (kept in one file so that the per-type records stay untouched):
`ownClock` (`RRS`), `rrSpec` / `rrWF` (specification of `reset_remove` as stated by `Props/C18.lean`, evaluated
pointwise with `VClockSpec`, NOT with the model's `resetRemove`), `vSpec` (C16: verdict of `validate_op` predicted from
the replica's knowledge), `vmSpec` (C17: verdict of `validate_merge` predicted from the two knowledge lists). -/
namespace Driver
open Crdt OrswotSpec

/-! ### reset_remove specifications (C18) -/

def sumNats (l : List Nat) : Nat := l.foldl (· + ·) 0

def vcRRSpec (s c : VClock Nat) : String :=
  if VClockSpec.noZero s then
    let r := VClockSpec.resetRemove s c
    "clock=" ++ showClock r ++ " empty=" ++ showBool (r.dots.l.isEmpty)
  else ""

/-- C18.gcounter_get / gcounter_read -/
def gcRRSpec (s : GCounter Nat) (c : VClock Nat) : String :=
  if VClockSpec.noZero s.inner then
    "state=" ++ showClock (VClockSpec.resetRemove s.inner c) ++ " read=" ++
      toString (sumNats ((s.inner.dots.l.filter (fun p => p.2 > c.get p.1)).map (·.2)))
  else ""

def pnRRSpec (s : PNCounter Nat) (c : VClock Nat) : String :=
  if VClockSpec.noZero s.p.inner && VClockSpec.noZero s.n.inner then
    let keep (x : VClock Nat) : Nat := sumNats ((x.dots.l.filter (fun p => p.2 > c.get p.1)).map (·.2))
    "p=" ++ showClock (VClockSpec.resetRemove s.p.inner c) ++ " n=" ++ showClock (VClockSpec.resetRemove s.n.inner c) ++
      " read=" ++ toString ((keep s.p.inner : Int) - (keep s.n.inner : Int))
  else ""

def mvWF (s : MVReg Nat Nat) : Bool := s.vals.all (fun p => VClockSpec.noZero p.1 && !p.1.dots.l.isEmpty)

/-- C18.mvreg_survivors / mvreg_read: entries whose clock is not `≤ c`, with `clock − c` -/
def mvRRSpec (s : MVReg Nat Nat) (c : VClock Nat) : String :=
  if mvWF s then
    let surv := (s.vals.filter (fun p => !VClockSpec.le p.1 c)).map (fun p => (VClockSpec.resetRemove p.1 c, p.2))
    "vals=" ++ showMVVals surv ++ " read=" ++ showSortedNats (surv.map (·.2))
  else ""

def orswotStateWF (s : OS) : Bool :=
  VClockSpec.noZero s.clock &&
  s.entries.l.all (fun p => VClockSpec.noZero p.2 && !p.2.dots.l.isEmpty) &&
  s.deferred.l.all (fun p => VClockSpec.noZero p.1 && !p.1.dots.l.isEmpty)

/-- C18.orswot_clock / orswot_witness / orswot_deferred_contexts / orswot_deferred_members as a state:
witnesses and clock subtracted pointwise; pending removes grouped by `context − c`, member sets united -/
def orswotRRState (s : OS) (c : VClock Nat) : OS :=
  let entries : FMap Nat (VClock Nat) := s.entries.l.foldl (fun e p =>
    let k := VClockSpec.resetRemove p.2 c
    if k.dots.l.isEmpty then e else e.insert p.1 k) ∅
  let pairs := (s.deferred.l.map (fun p => (VClockSpec.resetRemove p.1 c, p.2))).filter (fun p => !p.1.dots.l.isEmpty)
  let deferred : FMap (VClock Nat) (FSet Nat) := pairs.foldl (fun d p =>
    d.insert p.1 (Orswot.setOfList ((pairs.filter (fun q => q.1 = p.1)).flatMap (fun q => q.2.l.map (·.1))))) ∅
  ⟨VClockSpec.resetRemove s.clock c, entries, deferred⟩

def orswotRRSpec (s : OS) (c : VClock Nat) : String :=
  if orswotStateWF s then
    let r := orswotRRState s c
    showOrswotState r ++ " " ++ showOrswotReads r
  else ""

/-! ### validate_op / validate_merge verdicts from knowledge (C16, C17) -/

/-- C16.Contiguous -/
def orswotContiguous (U : List OOp) : Bool :=
  U.all (fun o => match o with
    | .add d _ => decide (1 ≤ d.counter) &&
        (decide (d.counter ≤ 1) || U.any (fun o' => match o' with
          | .add d' _ => d'.actor = d.actor && d'.counter + 1 = d.counter
          | _ => false))
    | .rm _ _ => true)

def orswotPredsIn (U K : List OOp) (d : Dot Nat) : Bool :=
  U.all (fun o' => match o' with
    | .add d' ms' => !(d'.actor = d.actor && d'.counter < d.counter) || K.contains (.add d' ms')
    | _ => true)

/-- C16.orswot_reach_ok_iff / orswot_reach_gap / orswot_rm_ok -/
def orswotVSpec (U K : List OOp) (op : OOp) : String :=
  if orswotWF U && orswotContiguous U && addClosed U K && K.all (fun o => U.contains o) then
    match op with
    | .rm _ _ => "v=ok"
    | .add d _ =>
      if !U.contains op then "" else
      if orswotPredsIn U K d then "v=ok"
      else "v=range:" ++ toString d.actor ++ ":" ++ toString (clk K d.actor + 1) ++ ":" ++ toString d.counter
  else ""

/-- C17.SingleAdds -/
def orswotSingleAdds (U : List OOp) : Bool :=
  U.all (fun o => match o with | .add _ ms => decide (ms.length ≤ 1) | .rm _ _ => true)

/-- C17.orswot_ok_reachable -/
def orswotVMSpec (U K K' : List OOp) : String :=
  if orswotWF U && orswotSingleAdds U && addClosed U K && addClosed U K' then "vm=ok" else ""

/-- C16.vclock_ok_iff on the clock a replica knowing `K` holds (C11: per actor the largest counter) -/
def vclockVSpec (K : List (Dot Nat)) (d : Dot Nat) : String :=
  let cur := listMax (ctrOf d.actor) K
  if d.counter ≤ cur + 1 then "v=ok" else "v=range:" ++ toString d.actor ++ ":" ++ toString (cur + 1) ++ ":" ++ toString d.counter

def lwwUnique (U : List (LWWReg Nat Nat)) : Bool :=
  let all := lwwInit :: U
  all.all (fun a => all.all (fun b => a.marker != b.marker || a == b))

/-! ### the extended records -/

def vclockOpsRR : CrdtOps (VClock Nat) (Dot Nat) :=
  { vclockOps with
    ownClock := some id
    rrSpec := vcRRSpec
    rrWF := VClockSpec.noZero
    vSpec := fun _ K d => vclockVSpec K d
    vmSpec := fun _ _ _ => "vm=ok" }

def gcounterOpsRR : CrdtOps (GCounter Nat) (Dot Nat) :=
  { gcounterOps with
    ownClock := some (·.inner)
    rrSpec := gcRRSpec
    rrWF := fun s => VClockSpec.noZero s.inner
    vSpec := fun _ _ _ => "v=ok"
    vmSpec := fun _ _ _ => "vm=ok" }

def pncounterOpsRR : CrdtOps (PNCounter Nat) (PNOp Nat) :=
  { pncounterOps with
    ownClock := some (fun s => s.p.inner.merge s.n.inner)
    rrSpec := pnRRSpec
    rrWF := fun s => VClockSpec.noZero s.p.inner && VClockSpec.noZero s.n.inner
    vSpec := fun _ _ _ => "v=ok"
    vmSpec := fun _ _ _ => "vm=ok" }

def mvregOpsRR (withSpec : Bool) : CrdtOps (MVReg Nat Nat) (MVOp Nat Nat) :=
  { mvregOps withSpec with
    ownClock := some (fun s => s.read.addClock)
    rrSpec := mvRRSpec
    rrWF := mvWF
    vSpec := fun _ _ _ => "v=ok"
    vmSpec := fun _ _ _ => "vm=ok" }

def orswotOpsRR : CrdtOps OS OOp :=
  { orswotOps with
    ownClock := some (fun s => s.read.addClock)
    rrSpec := orswotRRSpec
    rrWF := orswotStateWF
    vSpec := orswotVSpec
    vmSpec := orswotVMSpec }

def lwwOpsRR : CrdtOps (LWWReg Nat Nat) (LWWReg Nat Nat) :=
  { lwwOps with
    vSpec := fun U _ op => if lwwUnique U && U.contains op then "v=ok" else ""
    vmSpec := fun U _ _ => if lwwUnique U then "vm=ok" else "" }

/-- cases served by the extended records (consulted first by `Driver/Main.lean`) -/
def rrCase (ty : String) (n : Nat) : Option Machine :=
  match ty with
  | "vclock" => some (Machine.mk' vclockOpsRR n)
  | "gcounter" => some (Machine.mk' gcounterOpsRR n)
  | "pncounter" => some (Machine.mk' pncounterOpsRR n)
  | "mvreg" => some (Machine.mk' (mvregOpsRR true) n)
  | "mvreg_raw" => some (Machine.mk' (mvregOpsRR false) n)
  | "orswot" => some (Machine.mk' orswotOpsRR n)
  | "lwwreg" => some (Machine.mk' lwwOpsRR n)
  | _ => none

end Driver
