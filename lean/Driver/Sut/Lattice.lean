import Driver.Machine
import Driver.Persist
import CrdtModel.Spec.Lattice
import CrdtModel.Spec.VClock
namespace Driver
open Crdt

def dedupNat (l : List Nat) : List Nat := l.foldl (fun acc x => if acc.contains x then acc else acc ++ [x]) []

def insertSortedNat (x : Nat) : List Nat → List Nat
  | [] => [x]
  | y :: t => if x < y then x :: y :: t else if x = y then y :: t else y :: insertSortedNat x t

def sortDedupNat (l : List Nat) : List Nat := l.foldl (fun acc x => insertSortedNat x acc) []

/-- spec: the clock holding, per actor, the largest counter among the known dots -/
def specClockOf (K : List (Dot Nat)) : VClock Nat :=
  VClockSpec.ofFun (K.map (·.actor)) (fun a => listMax (ctrOf a) K)

def specSum (K : List (Dot Nat)) : Nat :=
  ((dedupNat (K.map (·.actor))).map (fun a => listMax (ctrOf a) K)).sum

def showOk {ε : Type} : Except ε Unit → String
  | .ok _ => "ok"
  | .error _ => "err"

def gcounterOps : CrdtOps (GCounter Nat) (Dot Nat) where
  init := GCounter.init
  gen := fun s a args => match args with
    | ["inc"] => some (s.inc a)
    | ["incmany", k] => k.toNat?.map (s.incMany a)
    | _ => none
  parseOp := fun args => match args with
    | d :: _ => parseDot d
    | _ => none
  showOp := showDot
  apply := GCounter.apply
  merge := some GCounter.merge
  obs := fun s => "state=" ++ showClock s.inner ++ " read=" ++ toString s.read
  validateOp := fun _ _ => "ok"
  validateMerge := fun _ _ => "ok"
  resetRemove := some GCounter.resetRemove
  eq := some (fun a b => some (decide (a = b)))
  persist := some (persistWith (gcounterCodec natK))
  persistOp := some (persistWith (dotCodec natC))
  spec := fun _ K => "state=" ++ showClock (specClockOf K) ++ " read=" ++ toString (specSum K)

def showPNOp (op : PNOp Nat) : String := (match op.dir with | .pos => "+" | .neg => "-") ++ showDot op.dot

def pncounterOps : CrdtOps (PNCounter Nat) (PNOp Nat) where
  init := PNCounter.init
  gen := fun s a args => match args with
    | ["inc"] => some (s.inc a)
    | ["dec"] => some (s.dec a)
    | ["incmany", k] => k.toNat?.map (s.incMany a)
    | ["decmany", k] => k.toNat?.map (s.decMany a)
    | _ => none
  parseOp := fun args => match args with
    | t :: _ =>
      if t.startsWith "+" then (parseDot (t.drop 1).toString).map (fun d => ⟨d, .pos⟩)
      else if t.startsWith "-" then (parseDot (t.drop 1).toString).map (fun d => ⟨d, .neg⟩)
      else none
    | _ => none
  showOp := showPNOp
  apply := PNCounter.apply
  merge := some PNCounter.merge
  obs := fun s => "p=" ++ showClock s.p.inner ++ " n=" ++ showClock s.n.inner ++ " read=" ++ toString s.read
  validateOp := fun _ _ => "ok"
  validateMerge := fun _ _ => "ok"
  resetRemove := some PNCounter.resetRemove
  eq := some (fun a b => some (decide (a = b)))
  persist := some (persistWith (pncounterCodec natK))
  persistOp := some (persistWith (pnOpCodec natC))
  spec := fun _ K =>
    let P := (K.filter (fun o => o.dir == .pos)).map (·.dot)
    let N := (K.filter (fun o => o.dir == .neg)).map (·.dot)
    "p=" ++ showClock (specClockOf P) ++ " n=" ++ showClock (specClockOf N) ++ " read=" ++
      toString ((specSum P : Int) - (specSum N : Int))

def gsetOps : CrdtOps (GSet Nat) Nat where
  init := GSet.init
  gen := fun _ _ args => match args with
    | ["ins", x] => x.toNat?
    | _ => none
  parseOp := fun args => match args with
    | x :: _ => x.toNat?
    | _ => none
  showOp := toString
  apply := GSet.apply
  merge := some GSet.merge
  obs := fun s => "read=" ++ showNats s.read ++ " has1=" ++ showBool (s.contains 1)
  validateOp := fun _ _ => "ok"
  validateMerge := fun _ _ => "ok"
  eq := some (fun a b => some (decide (a = b)))
  persist := some (persistWith (gsetCodec natC))
  persistOp := some (persistWith natC)
  spec := fun _ K => "read=" ++ showNats (sortDedupNat K) ++ " has1=" ++ showBool (K.contains 1)

def showLWWV : Except LWWValidation Unit → String
  | .ok _ => "ok"
  | .error _ => "conflict"

def lwwInit : LWWReg Nat Nat := ⟨0, 0⟩

/-- spec: the write with the greatest marker among the initial register and the known writes
(printed only when markers are unique – the property's premise) -/
def specLWW (K : List (LWWReg Nat Nat)) : String :=
  let all := dedupLWW (lwwInit :: K)
  let markers := all.map (·.marker)
  if (dedupNat markers).length ≠ markers.length then "" else
  let best := all.foldl (fun b o => if b.marker < o.marker then o else b) lwwInit
  "val=" ++ toString best.val ++ " marker=" ++ toString best.marker
where
  dedupLWW (l : List (LWWReg Nat Nat)) : List (LWWReg Nat Nat) :=
    l.foldl (fun acc x => if acc.contains x then acc else acc ++ [x]) []

def lwwOps : CrdtOps (LWWReg Nat Nat) (LWWReg Nat Nat) where
  init := lwwInit
  gen := fun _ _ args => match args with
    | ["write", v, m] => match v.toNat?, m.toNat? with
      | some v, some m => some ⟨v, m⟩
      | _, _ => none
    | _ => none
  parseOp := fun args => match args with
    | [v, m] => match v.toNat?, m.toNat? with
      | some v, some m => some ⟨v, m⟩
      | _, _ => none
    | _ => none
  showOp := fun op => toString op.val ++ "@" ++ toString op.marker
  apply := LWWReg.apply
  merge := some LWWReg.merge
  obs := fun s => "val=" ++ toString s.val ++ " marker=" ++ toString s.marker
  validateOp := fun s op => showLWWV (s.validateOp op)
  validateMerge := fun s o => showLWWV (s.validateMerge o)
  eq := some (fun a b => some (decide (a = b)))
  persist := some (persistWith (lwwCodec natC natC))
  persistOp := some (persistWith (lwwCodec natC natC))
  spec := fun _ K => specLWW K

def maxregOps : CrdtOps (MaxReg Nat) Nat where
  init := ⟨0⟩
  gen := fun _ _ args => match args with
    | ["write", v] => v.toNat?
    | _ => none
  parseOp := fun args => match args with
    | v :: _ => v.toNat?
    | _ => none
  showOp := toString
  apply := MaxReg.apply
  merge := some MaxReg.merge
  obs := fun s => "read=" ++ toString s.read
  validateOp := fun _ _ => "ok"
  validateMerge := fun _ _ => "ok"
  eq := some (fun a b => some (decide (a = b)))
  persist := some (persistWith (maxregCodec natC))
  persistOp := some (persistWith natC)
  spec := fun _ K => "read=" ++ toString (K.foldl max 0)

def minregOps : CrdtOps (MinReg Nat) Nat where
  init := ⟨1000⟩
  gen := fun _ _ args => match args with
    | ["write", v] => v.toNat?
    | _ => none
  parseOp := fun args => match args with
    | v :: _ => v.toNat?
    | _ => none
  showOp := toString
  apply := MinReg.apply
  merge := some MinReg.merge
  obs := fun s => "read=" ++ toString s.read
  validateOp := fun _ _ => "ok"
  validateMerge := fun _ _ => "ok"
  eq := some (fun a b => some (decide (a = b)))
  persist := some (persistWith (minregCodec natC))
  persistOp := some (persistWith natC)
  spec := fun _ K => "read=" ++ toString (K.foldl min 1000)

end Driver
