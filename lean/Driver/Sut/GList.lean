import Driver.Machine
import Driver.Persist
import Driver.Sut.Ident
import Driver.Sut.VClock
import CrdtModel.Model.GList
import CrdtModel.Model.List
import CrdtModel.Spec.List
/-! `GList<u64>` and `List<u64, u64>` (mirror of harness/src/sut/glist.rs). -/
namespace Driver
open Crdt

def showOptIdent {τ : Type} (M : MarkerIO τ) : Option (Identifier τ) → String
  | some i => showIdent M i
  | none => "-"

def showOptNat : Option Nat → String
  | some n => toString n
  | none => "-"

def glistObs (g : GList Nat) : String :=
  "ids=[" ++ joinWith "," (g.ids.map (showIdent natMarker)) ++ "]" ++
  " read=" ++ (match g.read with | some l => showNats l | none => "panic") ++
  " len=" ++ toString g.len ++ " empty=" ++ showBool g.isEmpty ++
  " first=" ++ showOptIdent natMarker g.first ++ " last=" ++ showOptIdent natMarker g.last ++
  " gets=[" ++ joinWith "," ((List.range (min g.len 12 + 1)).map (fun i => showOptIdent natMarker (g.get i))) ++ "]"

/-- C13 (GList part): the read after a local edit is the old read with the element inserted at the position -/
def glistGenSpec (g : GList Nat) (_ : Nat) (args : List String) : String :=
  match g.read with
  | none => ""
  | some vs =>
    match args with
    | ["ins", i, e] => match i.toNat?, e.toNat? with
      | some idx, some x => if idx ≤ g.len then "read=" ++ showNats (vs.insertIdx idx x) ++ " len=" ++ toString (g.len + 1) else ""
      | _, _ => ""
    | ["after", k, e] => match k.toNat?, e.toNat? with
      | some k, some x => if k < g.len then "read=" ++ showNats (vs.insertIdx (k + 1) x) ++ " len=" ++ toString (g.len + 1) else ""
      | _, _ => ""
    | ["before", k, e] => match k.toNat?, e.toNat? with
      | some k, some x => if k < g.len then "read=" ++ showNats (vs.insertIdx k x) ++ " len=" ++ toString (g.len + 1) else ""
      | _, _ => ""
    | _ => ""

def glistOps : CrdtOps (GList Nat) (GListOp Nat) where
  init := GList.new
  gen := fun g _ args => match args with
    | ["ins", i, e] => match i.toNat?, e.toNat? with
      | some idx, some x => g.insert idx x
      | _, _ => none
    | ["after", k, e] => match k.toNat?, e.toNat? with
      | some k, some x => some (g.insertAfter (g.get k) x)
      | _, _ => none
    | ["before", k, e] => match k.toNat?, e.toNat? with
      | some k, some x => some (g.insertBefore (g.get k) x)
      | _, _ => none
    | ["afternone", e] => e.toNat?.map (g.insertAfter none)
    | ["beforenone", e] => e.toNat?.map (g.insertBefore none)
    -- insert relative to an arbitrary identifier (not necessarily a member)
    | ["afterid", i, e] => match parseIdent natMarker i, e.toNat? with
      | some id, some x => some (g.insertAfter (some id) x)
      | _, _ => none
    | ["beforeid", i, e] => match parseIdent natMarker i, e.toNat? with
      | some id, some x => some (g.insertBefore (some id) x)
      | _, _ => none
    | _ => none
  genPanics := fun g _ args => match args with
    | ["ins", i, e] => match i.toNat?, e.toNat? with
      | some idx, some x => (g.insert idx x).isNone
      | _, _ => false
    | _ => false
  parseOp := fun args => match args with
    | i :: _ => (parseIdent natMarker i).map GListOp.insert
    | _ => none
  showOp := fun op => showIdent natMarker op.id
  apply := GList.apply
  merge := some GList.merge
  obs := glistObs
  validateOp := fun _ _ => "ok"
  validateMerge := fun _ _ => "ok"
  eq := some (fun a b => some (decide (a = b)))
  persist := some (persistWith (glistCodec natC))
  persistOp := some (persistWith (glistOpCodec natC))
  genSpec := glistGenSpec

/-! ## List -/

def showListOp (op : ListOp Nat Nat) : String :=
  match op with
  | .insert id v => "I" ++ showIdent dotMarker id ++ "=" ++ toString v
  | .delete id d => "D" ++ showIdent dotMarker id ++ "@" ++ showDot d

def parseListOp (s : String) : Option (ListOp Nat Nat) :=
  if s.startsWith "I" then
    match (s.drop 1).toString.splitOn "=" with
    | [i, v] => match parseIdent dotMarker i, v.toNat? with
      | some id, some x => some (.insert id x)
      | _, _ => none
    | _ => none
  else if s.startsWith "D" then
    match (s.drop 1).toString.splitOn "@" with
    | [i, d] => match parseIdent dotMarker i, parseDot d with
      | some id, some x => some (.delete id x)
      | _, _ => none
    | _ => none
  else none

def listObs (s : ListCrdt Nat Nat) : String :=
  "seq=[" ++ joinWith "," (s.iterEntries.map (fun p => showIdent dotMarker p.1 ++ "=" ++ toString p.2)) ++ "]" ++
  " clock=" ++ showClock s.clock ++ " read=" ++ showNats s.read ++ " len=" ++ toString s.len ++
  " empty=" ++ showBool s.isEmpty ++ " first=" ++ showOptNat s.first ++ " last=" ++ showOptNat s.last ++
  " pos1=" ++ showOptNat (s.position 1) ++
  " fe=" ++ (match s.firstEntry with | some p => showIdent dotMarker p.1 | none => "-") ++
  " le=" ++ (match s.lastEntry with | some p => showIdent dotMarker p.1 | none => "-") ++
  " pe=" ++ showOptNat (s.lastEntry.bind (fun p => s.positionEntry p.1)) ++
  " ge=" ++ showOptNat (s.firstEntry.bind (fun p => s.get p.1)) ++
  (let cap := min s.len 12
   " posall=[" ++ joinWith "," ((List.range (cap + 1)).map (fun i => showOptNat (s.position i))) ++ "]" ++
   " peall=[" ++ joinWith "," ((s.iterEntries.take cap).map (fun p => showOptNat (s.positionEntry p.1))) ++ "]" ++
   " geall=[" ++ joinWith "," ((s.iterEntries.take cap).map (fun p => showOptNat (s.get p.1))) ++ "]")

/-- C13 (List part): sequential-list reading of a local edit; claimed when every identifier is non-empty -/
def listGenSpec (s : ListCrdt Nat Nat) (_ : Nat) (args : List String) : String :=
  if s.keys.all (fun i => !i.path.isEmpty) then
    match args with
    | ["ins", i, v] => match i.toNat?, v.toNat? with
      | some ix, some x => "read=" ++ showNats (s.read.insertIdx (min ix s.len) x) ++ " len=" ++ toString (s.len + 1)
      | _, _ => ""
    | ["append", v] => match v.toNat? with
      | some x => "read=" ++ showNats (s.read ++ [x]) ++ " len=" ++ toString (s.len + 1)
      | none => ""
    | ["del", i] => match i.toNat? with
      | some ix => if ix < s.len then "read=" ++ showNats (s.read.eraseIdx ix) ++ " len=" ++ toString (s.len - 1) else ""
      | none => ""
    | _ => ""
  else ""

/-- `List` without specification / freshness fields: raw, possibly ill-formed ops (type `list_raw`) -/
def listRawOps : CrdtOps (ListCrdt Nat Nat) (ListOp Nat Nat) where
  init := ListCrdt.new
  gen := fun s a args => match args with
    | ["ins", i, v] => match i.toNat?, v.toNat? with
      | some ix, some x => some (s.insertIndex ix x a)
      | _, _ => none
    | ["append", v] => v.toNat?.map (fun x => s.append x a)
    | ["del", i] => i.toNat?.bind (fun ix => s.deleteIndex ix a)
    | _ => none
  parseOp := fun args => match args with
    | t :: _ => parseListOp t
    | _ => none
  showOp := showListOp
  apply := ListCrdt.apply
  applyPanics := fun s op => (s.apply? op).isNone
  obs := listObs
  validateOp := fun s op =>
    (match s.validateOp op with
     | none => "panic"
     | some r => showValidation r) ++
    -- the accessors on the op's identifier (live, deleted or not yet inserted): `position_entry`, `get`
    " pid=" ++ showOptNat (s.positionEntry op.id) ++ " gid=" ++ showOptNat (s.get op.id)
  eq := some (fun a b => some (decide (a = b)))
  persist := some (persistWith (listCodec natS natC))
  persistOp := some (persistWith (listOpCodec natS natC))
  genSpec := listGenSpec

/-- C12: the knowledge `K` is inside the claimed region – the log is well-formed (`ListSpec.LogWF`, decided by `wfB`),
`K ⊆ U` and `K` is closed under the delivery discipline (`ListSpec.Inv`, decided through `okB`) -/
def listInvB (U K : List (ListOp Nat Nat)) : Bool :=
  ListSpec.wfB U && K.all (fun o => U.contains o && ListSpec.okB U K o)

/-- C12 (`state_eq_spec`, `read_eq_sorted_live`): the state – hence every read – computed from the knowledge list alone:
the live inserts of `K` sorted by identifier, the per-actor largest delivered counter -/
def listSpec (U K : List (ListOp Nat Nat)) : String :=
  if listInvB U K then listObs (ListSpec.specState K) else ""

/-- `List<u64,u64>` with the C12 specification (type `list`) -/
def listOps : CrdtOps (ListCrdt Nat Nat) (ListOp Nat Nat) :=
  { listRawOps with
    spec := listSpec
    ok := ListSpec.okB
    -- C16 for List on derivable states: the clock is the per-actor newest known dot (C12.state_eq_spec), so validate_op
    -- accepts iff the op's dot does not skip a counter of its author w.r.t. the knowledge set
    vSpec := fun U K op =>
      if ListSpec.wfB U then
        match op.dot with
        | some d =>
          -- … and the accessors on the op's identifier are those of the specification state of the knowledge set (C12.state_eq_spec)
          let sp := ListSpec.specState K
          "v=" ++ showValidation ((ListSpec.specClock K).validateOp d) ++
          " pid=" ++ showOptNat (sp.positionEntry op.id) ++ " gid=" ++ showOptNat (sp.get op.id)
        | none => ""
      else ""
    opDot := fun op => op.dot.map showDot
    elements := some (fun s => s.keys.map (showIdent dotMarker)) }

/-- a `List` state from literals (model of deserialising `{"seq": [...], "clock": ...}`: later duplicates win) -/
def parseListState (seq clock : String) : Option (ListCrdt Nat Nat) :=
  match strip seq "[" "]", parseClock clock with
  | some inner, some c =>
    if inner = "" then some ⟨∅, c⟩ else
    let parseEntry (t : String) : Option (Identifier OrdDotN × Nat) :=
      match t.splitOn "=" with
      | [i, v] => match parseIdent dotMarker i, v.toNat? with
        | some id, some x => some (id, x)
        | _, _ => none
      | _ => none
    (allSome ((inner.splitOn ",").map parseEntry)).map (fun es => ⟨es.foldl (fun m e => m.insert e.1 e.2) ∅, c⟩)
  | _, _ => none

def pureList (f : String) (args : List String) : Option String :=
  match args with
  | seq :: clock :: rest =>
    match parseListState seq clock with
    | none => none
    | some s =>
      let fin (op : Option (ListOp Nat Nat)) (spec : String) : String :=
        match op with
        | none => "nogen"
        | some op =>
          let v := listRawOps.validateOp s op
          match s.apply? op with
          | some s' => "ok op=" ++ showListOp op ++ " v=" ++ v ++ " " ++ listObs s' ++ (if spec = "" then "" else " | " ++ spec)
          | none => "panic op=" ++ showListOp op ++ " v=" ++ v
      match f, rest with
      | "list.ins", [i, v, a] => match i.toNat?, v.toNat?, a.toNat? with
        | some ix, some x, some a => some (fin (some (s.insertIndex ix x a)) (listGenSpec s a ["ins", i, v]))
        | _, _, _ => none
      | "list.del", [i, a] => match i.toNat?, a.toNat? with
        | some ix, some a => some (fin (s.deleteIndex ix a) (listGenSpec s a ["del", i]))
        | _, _ => none
      | "list.apply", [o] => (parseListOp o).map (fun op => fin (some op) "")
      | _, _ => none
  | _ => none

end Driver
