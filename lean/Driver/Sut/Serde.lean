import Driver.Persist
import Driver.JsonParse
/-! `F serde.<kind> <json text>` – the pinned serde_json test vectors of /repo/test/serialization (profile `serde_vectors`).
The vectors use `String` actors/values and `char` elements: strings are modelled as the list of their code points
(`List Nat`, ordered like Rust strings), a `char` as its code point.  The model decodes the tree, encodes the value
again and prints the text (`r=`); `pinned=true` iff the key-sorted rendering (what `serde_json::to_value` prints – the
form in which the vectors are stored) is the input text itself.  Mirror of harness/src/sut/serde_vec.rs. -/
namespace Driver
open Crdt

abbrev Str := List Nat
def strOf (s : String) : Str := s.toList.map Char.toNat
def strTo (l : Str) : String := String.ofList (l.map Char.ofNat)
def strC : Codec Str := ⟨fun l => .ok (.str (strTo l)), fun j => match j with | .str s => some (strOf s) | _ => none⟩
def strK : KeyCodec Str := ⟨strTo, fun s => some (strOf s)⟩
def strS : Scalar Str := ⟨strC, strK⟩
def charC : Codec Nat :=
  ⟨fun c => .ok (.str (String.singleton (Char.ofNat c))),
   fun j => match j with
     | .str s => match s.toList with
       | [c] => some c.toNat
       | _ => none
     | _ => none⟩
/-- `Hash = [u8; 32]`: concrete bytes here (no hashing is involved in a round trip) -/
def hashC : Codec (List Nat) :=
  ⟨fun h => .ok (.arr (h.map (fun (b : Nat) => Json.num b))),
   fun j => (j.arr?.bind (Codec.decAll Json.nat?)).bind (fun l => if l.length = 32 ∧ l.all (· < 256) then some l else none)⟩

def reencode {τ : Type} (c : Codec τ) (j : Json) : Option Json :=
  (c.dec j).bind (fun x => match c.enc x with | .ok j' => some j' | .error _ => none)

def pureSerde (f : String) (args : List String) : Option String :=
  if !f.startsWith "serde." then none else
  match args with
  | [text] =>
    match parseJson text with
    | none => some "noparse"
    | some j =>
      let r : Option (Option Json) := match (f.drop 6).toString with
        | "dot" => some (reencode (dotCodec strC) j)
        | "gcounter" => some (reencode (gcounterCodec strK) j)
        | "glist" => some (reencode (glistCodec charC) j)
        | "gset" => some (reencode (gsetCodec charC) j)
        | "list" => some (reencode (listCodec strS charC) j)
        | "lwwreg" => some (reencode (lwwCodec strC natC) j)
        | "map" => some (reencode (mapCodec strS strS (mvregCodec strK natC)) j)
        | "merklereg" => some (reencode (merkleCodec hashC strC) j)
        | "mvreg" => some (reencode (mvregCodec strK natC) j)
        | "orswot" => some (reencode (orswotCodec natS strS) j)
        | "pncounter" => some (reencode (pncounterCodec strK) j)
        | "vclock" => some (reencode (clockCodec strK) j)
        | _ => none
      match r with
      | none => none
      | some none => some "undecodable"
      | some (some j') => some (j'.render ++ " pinned=" ++ (if (sortKeys j').render = text then "true" else "false"))
  | _ => none

end Driver
