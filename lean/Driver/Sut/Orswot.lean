import Driver.Machine
import Driver.Sut.Lattice
import Driver.Sut.VClock
import CrdtModel.Spec.Orswot
import CrdtModel.Spec.OrswotExec
import CrdtModel.Spec.VClock
namespace Driver
open Crdt OrswotSpec

abbrev OOp := OrswotOp Nat Nat
abbrev OS := Orswot Nat Nat

def showOrswotOp : OOp → String
  | .add d ms => "add:" ++ showDot d ++ ":" ++ showNats ms
  | .rm c ms => "rm:" ++ showClock c ++ ":" ++ showNats ms

def parseOrswotOp (args : List String) : Option OOp :=
  match args with
  | ["add", d, ms] => match parseDot d, parseNats ms with
    | some d, some ms => some (.add d ms)
    | _, _ => none
  | ["rm", c, ms] => match parseClock c, parseNats ms with
    | some c, some ms => some (.rm c ms)
    | _, _ => none
  | _ => none

def showEntries (e : FMap Nat (VClock Nat)) : String :=
  "[" ++ joinWith ";" (e.l.map (fun p => toString p.1 ++ ":" ++ showClock p.2)) ++ "]"

def showDeferred (d : FMap (VClock Nat) (FSet Nat)) : String :=
  "[" ++ joinWith ";" (d.l.map (fun p => showClock p.1 ++ ":" ++ showNats (p.2.l.map (·.1)))) ++ "]"

def showOrswotState (s : OS) : String :=
  "clock=" ++ showClock s.clock ++ " entries=" ++ showEntries s.entries ++ " deferred=" ++ showDeferred s.deferred

def showCtx {β : Type} (r : ReadCtx β Nat) : String := showClock r.addClock ++ "/" ++ showClock r.rmClock

def orswotDomain : List Nat := [0, 1, 2, 3]

def showOrswotReads (s : OS) : String :=
  let r := s.read
  "read=" ++ showNats r.val ++ " rc=" ++ showCtx r ++ " rctx=" ++ showCtx s.readCtx ++
  String.join (orswotDomain.map (fun m =>
    let c := s.contains m
    " c" ++ toString m ++ "=" ++ showBool c.val ++ ":" ++ showCtx c)) ++
  " iter=[" ++ joinWith ";" (s.iter.map (fun c => toString c.val ++ ":" ++ showCtx c)) ++ "]" ++
  -- `ReadCtx::split` (src/ctx.rs:58-67) keeps both clocks of the read; `Orswot::clock()` (src/orswot.rs:237-239) is the set clock
  " split=" ++ showCtx r ++ " split0=" ++ showCtx (s.contains 0) ++ " clk=" ++ showClock s.clock

def genOrswot (s : OS) (a : Nat) (args : List String) : Option OOp :=
  match args with
  | ["add", m] => m.toNat?.map (fun m => Orswot.add m (s.readCtx.deriveAddCtx a))
  | ["addr", m] => m.toNat?.map (fun m => Orswot.add m (s.read.deriveAddCtx a))
  | ["addall", ms] => (parseNats ms).map (fun ms => Orswot.addAll ms (s.readCtx.deriveAddCtx a))
  | ["rm", m] => m.toNat?.map (fun m => Orswot.rm m (s.contains m).deriveRmCtx)
  | ["rmread", m] => m.toNat?.map (fun m => Orswot.rm m s.read.deriveRmCtx)
  | ["rmall", ms] => (parseNats ms).map (fun ms => Orswot.rmAll ms s.readCtx.deriveRmCtx)
  | ["rmctx", m, c] => match m.toNat?, parseClock c with
    | some m, some c => some (Orswot.rm m ⟨c⟩)
    | _, _ => none
  | _ => none

/-! ### executable specification (the formal statement of the Rep theorem, evaluated on a history) -/

def isAdd : OOp → Bool | .add _ _ => true | .rm _ _ => false

/-- log well-formedness: adds with the same dot are the same op; remove contexts store no zero -/
def orswotWF (U : List OOp) : Bool :=
  U.all (fun o => match o with
    | .add d ms => U.all (fun o' => match o' with
        | .add d' ms' => !(d = d') || ms = ms'
        | _ => true)
    | .rm c _ => VClockSpec.noZero c)

/-- `K` is closed under each actor's add order (per-actor FIFO on adds) -/
def addClosed (U K : List OOp) : Bool :=
  K.all (fun o => match o with
    | .add d _ => U.all (fun o' => match o' with
        | .add d' ms' => !(d'.actor = d.actor && d'.counter < d.counter) || K.contains (.add d' ms')
        | _ => true)
    | .rm _ _ => true)

/-- the executable specification proved sound in Proofs/OrswotExec.lean (`rep_specState`, `eq_specState`) -/
def specOrswotState (K : List OOp) : OS := OrswotSpec.specState K

def specOrswot (U K : List OOp) : String :=
  if orswotWF U && addClosed U K then
    let s := specOrswotState K
    -- the read entry points, computed from the specification state
    showOrswotState s ++ " " ++ showOrswotReads s
  else ""

def showDsd {ε : Type} : Except ε Unit → String
  | .ok _ => "ok"
  | .error _ => "dsd"

/-- shared live dot between different keys of two entry tables (keys with their clocks) -/
def sharedDotTables (ea eb : List (Nat × VClock Nat)) : Bool :=
  ea.any (fun (m, ca) => eb.any (fun (m', cb) =>
    m != m' && ca.dots.l.any (fun (a, n) => n != 0 && cb.dots.l.any (fun (a', n') => a' == a && n' == n))))

def orswotOps : CrdtOps OS OOp where
  init := Orswot.init
  gen := genOrswot
  parseOp := parseOrswotOp
  showOp := showOrswotOp
  apply := Orswot.apply
  merge := some Orswot.merge
  obs := fun s => showOrswotState s ++ " " ++ showOrswotReads s
  validateOp := fun s op => showValidation (s.validateOp op)
  validateMerge := fun s o => showDsd (s.validateMerge o)
  resetRemove := some Orswot.resetRemove
  eq := some (fun a b => some (decide (a = b)))
  persist := some (persistWith (orswotCodec natS natS))
  persistOp := some (persistWith (orswotOpCodec natS natS))
  spec := specOrswot
  sharedDot := some (fun a b => sharedDotTables a.entries.l b.entries.l)
  opDot := fun op => match op with
    | .add d _ => some (showDot d)
    | .rm _ _ => none
  ok := fun U K op => match op with
    | .add d _ => U.all (fun o' => match o' with
        | .add d' ms' => !(d'.actor = d.actor && d'.counter < d.counter) || K.contains (.add d' ms')
        | _ => true)
    | .rm _ _ => true

end Driver
