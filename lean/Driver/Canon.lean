import CrdtModel.Model.VClock
/-! Canonical text syntax shared with the Rust harness (see harness/src/canon.rs). -/
namespace Driver
open Crdt

def joinWith (sep : String) : List String → String
  | [] => ""
  | [x] => x
  | x :: xs => x ++ sep ++ joinWith sep xs

def showClock (c : VClock Nat) : String :=
  "{" ++ joinWith "," (c.dots.l.map (fun p => toString p.1 ++ ":" ++ toString p.2)) ++ "}"

def showDot (d : Dot Nat) : String := toString d.actor ++ "." ++ toString d.counter

def showNats (l : List Nat) : String := "[" ++ joinWith "," (l.map toString) ++ "]"

def showBool (b : Bool) : String := if b then "true" else "false"

def showOrd : Option Ordering → String
  | some .lt => "lt" | some .gt => "gt" | some .eq => "eq" | none => "none"

def strip (s : String) (pre post : String) : Option String :=
  if s.startsWith pre && s.endsWith post && s.length ≥ pre.length + post.length then
    some ((s.drop pre.length).toString.dropEnd post.length).toString
  else none

def allSome {α : Type} : List (Option α) → Option (List α)
  | [] => some []
  | none :: _ => none
  | some x :: xs => (allSome xs).map (x :: ·)

def parsePair (sep : String) (s : String) : Option (Nat × Nat) :=
  match s.splitOn sep with
  | [a, b] => match a.toNat?, b.toNat? with
    | some x, some y => some (x, y)
    | _, _ => none
  | _ => none

/-- `{1:2,3:4}`; zeros and unsorted input accepted (later pair for the same actor wins, like BTreeMap::insert) -/
def parseClock (s : String) : Option (VClock Nat) :=
  match strip s "{" "}" with
  | none => none
  | some inner =>
    if inner = "" then some ∅ else
    match allSome ((inner.splitOn ",").map (parsePair ":")) with
    | none => none
    | some ps => some ⟨ps.foldl (fun m p => m.insert p.1 p.2) ∅⟩

def parseDot (s : String) : Option (Dot Nat) := (parsePair "." s).map (fun p => ⟨p.1, p.2⟩)

def parseNats (s : String) : Option (List Nat) :=
  match strip s "[" "]" with
  | none => none
  | some inner => if inner = "" then some [] else allSome ((inner.splitOn ",").map String.toNat?)

end Driver
