import Driver.Canon
/-! Generic replicated machine, mirror of harness/src/machine.rs, over the Lean model. -/
namespace Driver
open Crdt

/-- what the generic machine needs from a model type -/
structure CrdtOps (σ ω : Type) where
  init : σ
  gen : σ → Nat → List String → Option ω
  parseOp : List String → Option ω
  showOp : ω → String
  apply : σ → ω → σ
  merge : Option (σ → σ → σ) := none
  obs : σ → String
  validateOp : σ → ω → String := fun _ _ => "na"
  validateMerge : σ → σ → String := fun _ _ => "na"
  resetRemove : Option (σ → VClock Nat → σ) := none
  eq : Option (σ → σ → Option Bool) := none      -- inner `none` = the Rust `==` panics
  /-- model of `serde_json::to_string` + `from_str`: text (or error) and restored value -/
  persist : Option (σ → (Except String String) × Option σ) := none
  persistOp : Option (ω → (Except String String) × Option ω) := none
  /-- specification fields evaluated on the whole log `U` (every op defined so far) and the replica's knowledge `K` -/
  spec : List ω → List ω → String := fun _ _ => ""
  /-- delivery discipline under which `spec` is claimed: may `op` be applied by a replica knowing `K` (log `U`)? -/
  ok : List ω → List ω → ω → Bool := fun _ _ _ => true
  /-- second claimed region (a stronger discipline than `ok`, and no merges): specification fields printed only while the replica's
  history stayed inside it.  Map<_,Orswot>: causal op-only delivery, nested reads (C05.nested_orswot_witnesses) -/
  spec2 : List ω → List ω → String := fun _ _ => ""
  /-- the extra delivery premise of the second region (on top of `ok`) -/
  ok2 : List ω → List ω → ω → Bool := fun _ _ _ => true
  /-- the public API call behind `G` panics (e.g. `GList::insert` asserts `idx <= len`) -/
  genPanics : σ → Nat → List String → Bool := fun _ _ _ => false
  /-- `apply` panics on this op (before mutating anything) -/
  applyPanics : σ → ω → Bool := fun _ _ => false
  /-- specification fields for the observation printed by `G` (state BEFORE the call, actor, api args):
  the sequential reading of a local edit (C13) -/
  genSpec : σ → Nat → List String → String := fun _ _ _ => ""
  /-- hook (mirror of `Crdt::admit` in harness/src/machine.rs): `op` is about to be stored under `name` by
  `G`/`GA`/`O`, `ops` = the definitions so far; `none` rejects the definition (`nogen` / `badop`) -/
  admit : List (String × ω) → String → ω → Option ω := fun _ _ op => some op
  /-- C17 oracle on the two states (independent of `validateMerge`): is some dot the current witness of one member/key
  in the first state and of a different one in the second? -/
  sharedDot : Option (σ → σ → Bool) := none
  /-- the dot an op carries, if any (freshness oracle of C07) -/
  opDot : ω → Option String := fun _ => none
  /-- `RRS`: the clock of the type's own read (what "the replica's own full clock" means for `reset_remove`) -/
  ownClock : Option (σ → VClock Nat) := none
  /-- C18: specification of `reset_remove(c)` evaluated on the state BEFORE the call ("" = state outside the claimed region) -/
  rrSpec : σ → VClock Nat → String := fun _ _ => ""
  /-- C18: is the state inside the region where the `reset_remove` laws (`RRL`) are claimed? -/
  rrWF : σ → Bool := fun _ => false
  /-- C16: predicted `validate_op` verdict from the log `U`, the replica's knowledge `K` and the op ("" = no claim) -/
  vSpec : List ω → List ω → ω → String := fun _ _ _ => ""
  /-- C17: predicted `validate_merge` verdict from the log and the two knowledge lists ("" = no claim) -/
  vmSpec : List ω → List ω → List ω → String := fun _ _ _ => ""
  /-- C12 (`RO`): the sequence of element identities a state shows (`none` = the type is not a sequence) -/
  elements : Option (σ → List String) := none

structure MState (σ ω : Type) where
  reps : List σ
  know : List (List String)
  ops : List (String × ω)
  snaps : List (String × σ × List String)
  /-- replicas whose history left the claimed region (out-of-discipline delivery, reset_remove): no spec printed -/
  taint : List Bool
  snapTaint : List (String × Bool)
  /-- replicas that executed reset_remove or merged from one: excluded from the equal-knowledge oracle -/
  forgot : List Bool
  snapForgot : List (String × Bool)
  /-- replicas whose history left the second region (a delivery violating `ok`/`ok2`, any merge, reset_remove, foreign actor) -/
  taint2 : List Bool := []
  /-- the replica at which each actor first generated an op (an actor later used elsewhere = the misuse the properties exclude) -/
  actorHome : List (Nat × Nat) := []

def lookup {β : Type} (k : String) : List (String × β) → Option β
  | [] => none
  | (k', v) :: t => if k = k' then some v else lookup k t

def setKey {β : Type} (k : String) (v : β) : List (String × β) → List (String × β)
  | [] => [(k, v)]
  | (k', v') :: t => if k = k' then (k, v) :: t else (k', v') :: setKey k v t

def insSorted (k : String) : List String → List String
  | [] => [k]
  | x :: t => if k < x then k :: x :: t else if k = x then x :: t else x :: insSorted k t

def unionSorted (a b : List String) : List String := b.foldl (fun acc k => insSorted k acc) a

def showErr (e : Except String String) : String :=
  match e with
  | .ok t => t
  | .error e => "ERR:" ++ e.replace " " "_"

/-- `line | spec`, or just `line` when there is no claim -/
def withSpec (line spec : String) : String := if spec = "" then line else line ++ " | " ++ spec

namespace MState
variable {σ ω : Type}

def new (T : CrdtOps σ ω) (n : Nat) : MState σ ω :=
  ⟨List.replicate n T.init, List.replicate n [], [], [], List.replicate n false, [], List.replicate n false, [], List.replicate n false, []⟩

def rep (m : MState σ ω) (t : String) : Option Nat :=
  match t.toNat? with
  | some r => if r < m.reps.length then some r else none
  | none => none

def setRep (m : MState σ ω) (r : Nat) (s : σ) : MState σ ω := { m with reps := m.reps.set r s }
def learn (m : MState σ ω) (r : Nat) (names : List String) : MState σ ω :=
  { m with know := m.know.set r (unionSorted (m.know.getD r []) names) }

def setTaint (m : MState σ ω) (r : Nat) (b : Bool) : MState σ ω :=
  { m with taint := m.taint.set r (m.taint.getD r false || b) }

def setForgot (m : MState σ ω) (r : Nat) (b : Bool) : MState σ ω :=
  { m with forgot := m.forgot.set r (m.forgot.getD r false || b) }

def setTaint2 (m : MState σ ω) (r : Nat) (b : Bool) : MState σ ω :=
  { m with taint2 := m.taint2.set r (m.taint2.getD r true || b) }

def knownOps (m : MState σ ω) (r : Nat) : List ω :=
  (m.know.getD r []).filterMap (fun n => lookup n m.ops)

/-- observation of replica `r` plus the spec fields for its knowledge set -/
def obsRep (T : CrdtOps σ ω) (m : MState σ ω) (r : Nat) : String :=
  match m.reps[r]? with
  | none => "badrep"
  | some s =>
    let sp := if m.taint.getD r false then "" else T.spec (m.ops.map (·.2)) (m.knownOps r)
    let sp2 := if m.taint.getD r false || m.taint2.getD r true then "" else T.spec2 (m.ops.map (·.2)) (m.knownOps r)
    let sp := if sp = "" then sp2 else if sp2 = "" then sp else sp ++ " " ++ sp2
    if sp = "" then T.obs s else T.obs s ++ " | " ++ sp

def exec (T : CrdtOps σ ω) (m : MState σ ω) (toks : List String) : MState σ ω × String :=
  let bad := (m, "badcmd")
  match toks with
  | "G" :: rs :: name :: args =>
    match m.rep rs with
    | none => bad
    | some r => genApply r r name args
  | "GA" :: rs :: as :: name :: args =>
    match m.rep rs, as.toNat? with
    | some r, some a =>
      let (m', out) := genApply r a name args
      (if a = r then m' else m'.setTaint2 r true, out)
    | _, _ => bad
  | "O" :: name :: args =>
    match (T.parseOp args).bind (T.admit m.ops name) with
    | none => (m, "badop")
    | some op => ({ m with ops := setKey name op m.ops }, "op=" ++ T.showOp op)
  | ["D", rs, name] =>
    match m.rep rs with
    | none => bad
    | some r =>
      match lookup name m.ops, m.reps[r]? with
      | some op, some s =>
        if T.applyPanics s op then (m, "panic") else
        let okd := T.ok (m.ops.map (·.2)) (m.knownOps r) op
        let okd2 := T.ok2 (m.ops.map (·.2)) (m.knownOps r) op
        let m' := (((m.setRep r (T.apply s op)).learn r [name]).setTaint r (!okd)).setTaint2 r (!(okd && okd2))
        (m', obsRep T m' r)
      | _, _ => (m, "skip")
  | ["M", rs, rs2] =>
    match m.rep rs, m.rep rs2 with
    | some r, some r2 =>
      match T.merge, m.reps[r]?, m.reps[r2]? with
      | some mg, some s, some s2 =>
        let m' := ((m.setRep r (mg s s2)).learn r (m.know.getD r2 [])).setTaint r (m.taint.getD r2 false) |>.setForgot r (m.forgot.getD r2 false) |>.setTaint2 r true
        (m', obsRep T m' r)
      | _, _, _ => (m, "nomerge")
    | _, _ => bad
  | ["S", rs, name] =>
    match m.rep rs with
    | none => bad
    | some r =>
      match m.reps[r]? with
      | some s => ({ m with snaps := setKey name (s, m.know.getD r []) m.snaps,
                             snapTaint := setKey name (m.taint.getD r false) m.snapTaint,
                             snapForgot := setKey name (m.forgot.getD r false) m.snapForgot }, "ok")
      | none => bad
  | ["MS", rs, name] =>
    match m.rep rs with
    | none => bad
    | some r =>
      match lookup name m.snaps with
      | none => (m, "skip")
      | some (s2, k2) =>
        match T.merge, m.reps[r]? with
        | some mg, some s =>
          let m' := ((m.setRep r (mg s s2)).learn r k2).setTaint r ((lookup name m.snapTaint).getD false) |>.setForgot r ((lookup name m.snapForgot).getD false) |>.setTaint2 r true
          (m', obsRep T m' r)
        | _, _ => (m, "nomerge")
  | ["V", rs, name] =>
    match m.rep rs with
    | none => bad
    | some r =>
      match lookup name m.ops, m.reps[r]? with
      | some op, some s =>
        let sp := if m.taint.getD r false then "" else T.vSpec (m.ops.map (·.2)) (m.knownOps r) op
        (m, withSpec ("v=" ++ T.validateOp s op) sp)
      | _, _ => (m, "skip")
  | ["VM", rs, rs2] =>
    match m.rep rs, m.rep rs2 with
    | some r, some r2 =>
      match m.reps[r]?, m.reps[r2]? with
      | some s, some s2 =>
        let sp := if m.taint.getD r false || m.taint.getD r2 false then ""
          else T.vmSpec (m.ops.map (·.2)) (m.knownOps r) (m.knownOps r2)
        let verdict := T.validateMerge s s2
        let chk := match T.sharedDot with
          | some f =>
            let shared := f s s2
            if (shared && verdict != "ok") || (!shared && verdict != "dsd") then " vmchk=ok" else " vmchk=FAIL"
          | none => ""
        (m, withSpec ("vm=" ++ verdict ++ chk) sp)
      | _, _ => bad
    | _, _ => bad
  | ["VS", rs, name] =>
    match m.rep rs with
    | none => bad
    | some r =>
      match lookup name m.snaps, m.reps[r]? with
      | some (s2, k2), some s =>
        let U := m.ops.map (·.2)
        let K2 := k2.filterMap (fun n => lookup n m.ops)
        let sp := if m.taint.getD r false || (lookup name m.snapTaint).getD false then "" else
          let a := T.vmSpec U (m.knownOps r) K2
          let b := T.vmSpec U K2 (m.knownOps r)
          if a = "" || b = "" then "" else a ++ " " ++ b.replace "vm=" "vmr="
        (m, withSpec ("vm=" ++ T.validateMerge s s2 ++ " vmr=" ++ T.validateMerge s2 s) sp)
      | _, _ => (m, "skip")
  | ["RR", rs, cs] =>
    match m.rep rs, parseClock cs with
    | some r, some c =>
      match T.resetRemove, m.reps[r]? with
      | some rr, some s =>
        let m' := (((m.setRep r (rr s c)).setTaint r true).setForgot r true).setTaint2 r true
        (m', withSpec (T.obs (rr s c)) (T.rrSpec s c))
      | _, _ => (m, "norr")
    | _, _ => bad
  | ["RRS", rs] =>
    -- reset_remove with the replica's own read clock
    match m.rep rs with
    | none => bad
    | some r =>
      match T.resetRemove, T.ownClock, m.reps[r]? with
      | some rr, some oc, some s =>
        let c := oc s
        let m' := (((m.setRep r (rr s c)).setTaint r true).setForgot r true).setTaint2 r true
        (m', withSpec ("c=" ++ showClock c ++ " " ++ T.obs (rr s c)) (T.rrSpec s c))
      | _, _, _ => (m, "norr")
  | ["RRL", rs, cs1, cs2] =>
    -- reset_remove laws (C18) on a copy of the replica's state: c1 then c2 = join; twice = once; empty = id; order irrelevant
    match m.rep rs, parseClock cs1, parseClock cs2 with
    | some r, some c1, some c2 =>
      match T.resetRemove, m.reps[r]? with
      | some rr, some s =>
        let f (b : Bool) : String := if b then "ok" else "FAIL"
        let same (x y : σ) : Bool := T.obs x == T.obs y
        let line := "comp=" ++ f (same (rr (rr s c1) c2) (rr s (c1.merge c2))) ++
          " idem=" ++ f (same (rr (rr s c1) c1) (rr s c1)) ++
          " noop=" ++ f (same (rr s ∅) s) ++
          " comm=" ++ f (same (rr (rr s c1) c2) (rr (rr s c2) c1))
        (m, withSpec line (if T.rrWF s then "comp=ok idem=ok noop=ok comm=ok" else ""))
      | _, _ => (m, "norr")
    | _, _, _ => bad
  | ["EQ", rs, rs2] =>
    match m.rep rs, m.rep rs2 with
    | some r, some r2 =>
      match T.eq, m.reps[r]?, m.reps[r2]? with
      | some e, some s, some s2 =>
        match e s s2 with
        | some b => (m, "eq=" ++ showBool b)
        | none => (m, "panic")
      | _, _, _ => (m, "noeq")
    | _, _ => bad
  | ["EQS", rs, name] =>
    match m.rep rs with
    | none => bad
    | some r =>
      match lookup name m.snaps with
      | none => (m, "skip")
      | some (s2, _) =>
        match T.eq, m.reps[r]? with
        | some e, some s =>
          match e s s2 with
          | some b => (m, "eq=" ++ showBool b)
          | none => (m, "panic")
        | _, _ => (m, "noeq")
  | ["P", rs] =>
    match m.rep rs with
    | none => bad
    | some r =>
      match T.persist, m.reps[r]? with
      | some p, some s =>
        match p s with
        | (text, some s') =>
          let same := match T.eq with
            | some e => (match e s s' with | some b => showBool b | none => "panic")
            | none => "na"
          -- a panicking `==` aborts the whole command in the harness (state unchanged)
          if same = "panic" then (m, "panic") else
          let m' := m.setRep r s'
          -- C19 (`*_roundtrip`): the restored value equals the original
          (m', withSpec ("json=" ++ showErr text ++ " restore=ok same=" ++ same ++ " " ++ T.obs s') "restore=ok same=true")
        | (text, none) => (m, "json=" ++ showErr text ++ " restore=fail norestore")
      | _, _ => (m, "nopersist")
  | ["PO", name] =>
    match lookup name m.ops with
    | none => (m, "skip")
    | some op =>
      match T.persistOp with
      | none => (m, "nopersist")
      | some p =>
        match p op with
        | (text, some op') =>
          -- C19: the restored op is the original op
          ({ m with ops := setKey name op' m.ops }, withSpec ("json=" ++ showErr text ++ " restore=ok op=" ++ T.showOp op') ("restore=ok op=" ++ T.showOp op))
        | (text, none) => (m, "json=" ++ showErr text ++ " restore=fail norestore")
  | ["ML", r1, r2, r3] =>
    match m.rep r1, m.rep r2, m.rep r3, T.merge with
    | some i, some j, some k, some mg =>
      match m.reps[i]?, m.reps[j]?, m.reps[k]? with
      | some a, some b, some c =>
        -- `none` = the Rust `==` panics (the harness then prints `panic` for the whole command);
        -- like Rust's `&&`, `==` is only evaluated when the observations agree
        let same (x y : σ) : Option Bool :=
          if T.obs x != T.obs y then some false else
          match T.eq with
          | some e => e x y
          | none => some true
        let f (b : Bool) : String := if b then "ok" else "FAIL"
        match same (mg a b) (mg b a), same (mg (mg a b) c) (mg a (mg b c)), same (mg a a) a with
        | some x, some y, some z => (m, "comm=" ++ f x ++ " assoc=" ++ f y ++ " idem=" ++ f z)
        | _, _, _ => (m, "panic")
      | _, _, _ => bad
    | _, _, _, _ => bad
  | ["MU", rs, rs2] =>
    match m.rep rs, m.rep rs2, T.merge with
    | some r, some r2, some mg =>
      if m.forgot.getD r false || m.forgot.getD r2 false then (m, "mu=na") else
      match m.reps[r]?, m.reps[r2]? with
      | some a, some b =>
        let merged := mg a b
        let k1 := m.know.getD r []
        let k2 := m.know.getD r2 []
        let delivered := m.ops.foldl (fun acc (n, op) => if k2.contains n && !k1.contains n then T.apply acc op else acc) a
        let same : Option Bool :=
          if T.obs merged != T.obs delivered then some false else
          match T.eq with
          | some e => e merged delivered
          | none => some true
        match same with
        | some b => (m, "mu=" ++ (if b then "ok" else "FAIL"))
        | none => (m, "panic")
      | _, _ => bad
    | _, _, _ => bad
  | ["AB", rs] =>
    match m.rep rs with
    | none => bad
    | some r =>
      if m.forgot.getD r false then (m, "absorb=na") else
      match m.reps[r]? with
      | none => bad
      | some s0 =>
        let before := T.obs s0
        let k1 := m.know.getD r []
        -- phase 1: duplicates, in definition order
        let dupPhase := m.ops.foldl (fun (acc : σ × Nat × Option String) (n, op) =>
          match acc.2.2 with
          | some _ => acc
          | none =>
            if k1.contains n then
              let s' := T.apply acc.1 op
              if T.obs s' != before then (s', acc.2.1 + 1, some ("absorb=FAIL:dup:" ++ n)) else (s', acc.2.1 + 1, none)
            else acc) (s0, 0, none)
        match dupPhase.2.2 with
        | some f => (m, f)
        | none =>
          match T.merge with
          | none => (m, "absorb=ok n=" ++ toString dupPhase.2.1)
          | some mg =>
            let s1 := mg dupPhase.1 dupPhase.1
            if T.obs s1 != before then (m, "absorb=FAIL:self") else
            let subset (a b : List String) : Bool := a.all (fun x => b.contains x)
            let snaps := m.snaps.mergeSort (fun a b => a.1 ≤ b.1)
            let ph2 := snaps.foldl (fun (acc : σ × Nat × Option String) (sn, st, k) =>
              match acc.2.2 with
              | some _ => acc
              | none =>
                if subset k k1 && !((lookup sn m.snapForgot).getD false) then
                  let s' := mg acc.1 st
                  if T.obs s' != before then (s', acc.2.1 + 1, some ("absorb=FAIL:snap:" ++ sn)) else (s', acc.2.1 + 1, none)
                else acc) (s1, dupPhase.2.1, none)
            match ph2.2.2 with
            | some f => (m, f)
            | none =>
              let ph3 := (List.range m.reps.length).foldl (fun (acc : σ × Nat × Option String) i =>
                match acc.2.2 with
                | some _ => acc
                | none =>
                  if i != r && subset (m.know.getD i []) k1 && !(m.forgot.getD i false) then
                    match m.reps[i]? with
                    | some st =>
                      let s' := mg acc.1 st
                      if T.obs s' != before then (s', acc.2.1 + 1, some ("absorb=FAIL:peer:" ++ toString i)) else (s', acc.2.1 + 1, none)
                    | none => acc
                  else acc) ph2
              match ph3.2.2 with
              | some f => (m, f)
              | none => (m, "absorb=ok n=" ++ toString ph3.2.1)
  | ["RO"] =>
    -- relative-order oracle (C12): over all pairs of replicas / snapshots the common elements appear in the same
    -- relative order, and no element occurs twice in one state
    match T.elements with
    | none => (m, "noro")
    | some el =>
      let reps := (List.range m.reps.length).filterMap (fun i => (m.reps[i]?).map (fun s => ("r" ++ toString i, el s)))
      let snaps := (m.snaps.mergeSort (fun a b => a.1 ≤ b.1)).map (fun (n, s, _) => ("s" ++ n, el s))
      let all := reps ++ snaps
      let claim := if m.taint.any id || m.snapTaint.any (·.2) then "" else "ro=ok"
      match all.find? (fun x => x.2.eraseDups.length != x.2.length) with
      | some x => (m, withSpec ("ro=FAIL:dup:" ++ x.1) claim)
      | none =>
        let rec goRO (l : List (String × List String)) (pairs : Nat) : String :=
          match l with
          | [] => "ro=ok pairs=" ++ toString pairs
          | x :: t =>
            match t.find? (fun y => x.2.filter (fun e => y.2.contains e) != y.2.filter (fun e => x.2.contains e)) with
            | some y => "ro=FAIL:" ++ x.1 ++ ":" ++ y.1
            | none => goRO t (pairs + t.length)
        (m, withSpec (goRO all 0) claim)
  | ["E"] =>
    -- convergence oracle evaluated on the model (always `ok` where the theorems apply)
    let reps := (List.range m.reps.length).filterMap (fun i =>
      match m.reps[i]? with
      | some s => if m.forgot.getD i false then none else some ("r" ++ toString i, T.obs s, m.know.getD i [], s)
      | none => none)
    let snaps := (m.snaps.mergeSort (fun a b => a.1 ≤ b.1)).filterMap (fun (n, s, k) =>
      if (lookup n m.snapForgot).getD false then none else some ("s" ++ n, T.obs s, k, s))
    let all := reps ++ snaps
    let neq (x y : σ) : Bool := match T.eq with
      | some e => e x y == some false
      | none => false
    let rec go (l : List (String × String × List String × σ)) (pairs : Nat) : String :=
      match l with
      | [] => "conv=ok pairs=" ++ toString pairs
      | x :: t =>
        let same := t.filter (fun y => y.2.2.1 = x.2.2.1)
        -- first offending partner in order: observation differs, or `==` says false
        match same.find? (fun y => y.2.1 ≠ x.2.1 || neq x.2.2.2 y.2.2.2) with
        | some y => if y.2.1 ≠ x.2.1 then "conv=FAIL:" ++ x.1 ++ ":" ++ y.1 else "conv=FAIL:eq:" ++ x.1 ++ ":" ++ y.1
        | none => go t (pairs + same.length)
    (m, go all 0)
  | _ => bad
where
  genApply (r a : Nat) (name : String) (args : List String) : MState σ ω × String :=
    match m.reps[r]? with
    | none => (m, "badcmd")
    | some s =>
      if T.genPanics s a args then (m, "panic") else
      match (T.gen s a args).bind (T.admit m.ops name) with
      | none => (m, "nogen")
      | some op =>
        let home := ((m.actorHome.find? (fun p => p.1 == a)).map (·.2)).getD r
        let m := if (m.actorHome.any (fun p => p.1 == a)) then m else { m with actorHome := (a, r) :: m.actorHome }
        let fresh := match T.opDot op with
          | some d =>
            if m.forgot.getD r false then " fresh=na"
            else if a != r || home != r then " fresh=na"  -- an actor used away from its own / first replica: the misuse the property excludes
            else if m.ops.any (fun (n, o) => n != name && T.opDot o == some d) then " fresh=FAIL" else " fresh=ok"
          | none => ""
        let m' := ({ m with ops := setKey name op m.ops }.setRep r (T.apply s op)).learn r [name]
        let gs := T.genSpec s a args
        let line := "op=" ++ T.showOp op ++ fresh ++ " " ++ obsRep T m' r
        (m', if gs = "" then line else if (line.splitOn " | ").length > 1 then line ++ " " ++ gs else line ++ " | " ++ gs)

end MState

/-- a running case with its type erased -/
structure Machine where
  σ : Type
  ω : Type
  T : CrdtOps σ ω
  st : MState σ ω

def Machine.exec (M : Machine) (toks : List String) : Machine × String :=
  let (st', out) := M.st.exec M.T toks
  ({ M with st := st' }, out)

def Machine.mk' {σ ω : Type} (T : CrdtOps σ ω) (n : Nat) : Machine := ⟨σ, ω, T, MState.new T n⟩

end Driver
