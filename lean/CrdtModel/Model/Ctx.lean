import CrdtModel.Model.VClock
/-! Model of `src/ctx.rs`. -/
namespace Crdt
open LinOrd

structure ReadCtx (β α : Type) [LinOrd α] where
  addClock : VClock α
  rmClock : VClock α
  val : β

structure AddCtx (α : Type) [LinOrd α] where
  clock : VClock α
  dot : Dot α

structure RmCtx (α : Type) [LinOrd α] where
  clock : VClock α

namespace ReadCtx
variable {β α : Type} [LinOrd α]
/-- src/ctx.rs:40-45 -/
def deriveAddCtx (r : ReadCtx β α) (actor : α) : AddCtx α :=
  let dot := r.addClock.inc actor
  ⟨r.addClock.apply dot, dot⟩
/-- src/ctx.rs:48-52 -/
def deriveRmCtx (r : ReadCtx β α) : RmCtx α := ⟨r.rmClock⟩
end ReadCtx
end Crdt
