import CrdtModel.Model.Ctx
/-! Model of `src/orswot.rs`.  `HashMap`/`HashSet` are modelled by sorted maps (`FMap`); iteration is in key order
(the results are proved order-independent in Proofs/Orswot*.lean; the two order-dependent places are noted). -/
namespace Crdt
open LinOrd

/-- src/orswot.rs:27-41 -/
inductive OrswotOp (M A : Type) [LinOrd A] where
  | add (dot : Dot A) (members : List M)
  | rm (clock : VClock A) (members : List M)

instance {M A : Type} [DecidableEq M] [LinOrd A] : DecidableEq (OrswotOp M A) := fun a b =>
  match a, b with
  | .add d ms, .add d' ms' => if h : d = d' ∧ ms = ms' then isTrue (by rw [h.1, h.2]) else isFalse (by intro e; cases e; exact h ⟨rfl, rfl⟩)
  | .rm c ms, .rm c' ms' => if h : c = c' ∧ ms = ms' then isTrue (by rw [h.1, h.2]) else isFalse (by intro e; cases e; exact h ⟨rfl, rfl⟩)
  | .add _ _, .rm _ _ => isFalse (by intro e; cases e)
  | .rm _ _, .add _ _ => isFalse (by intro e; cases e)

/-- src/orswot.rs:19-24 -/
structure Orswot (M A : Type) [LinOrd M] [LinOrd A] where
  clock : VClock A
  entries : FMap M (VClock A)
  deferred : FMap (VClock A) (FSet M)

/-- src/orswot.rs:88-95 (payload is iteration-order dependent in Rust; only the kind is compared) -/
structure DoubleSpentDot (M A : Type) where
  dot : Dot A
  ourMember : M
  theirMember : M

namespace Orswot
variable {M A : Type} [LinOrd M] [LinOrd A]

instance : DecidableEq (Orswot M A) := fun a b =>
  if h : a.clock = b.clock ∧ a.entries = b.entries ∧ a.deferred = b.deferred then
    isTrue (by cases a; cases b; simp at h; obtain ⟨h1, h2, h3⟩ := h; subst h1; subst h2; subst h3; rfl)
  else isFalse (fun e => h (by subst e; exact ⟨rfl, rfl, rfl⟩))

/-- src/orswot.rs:43-51 -/
def init : Orswot M A := ⟨∅, ∅, ∅⟩

def setOfList (l : List M) : FSet M := l.foldl (fun acc m => acc.insert m ()) ∅
def unionSet (a b : FSet M) : FSet M := b.l.foldl (fun acc p => acc.insert p.1 ()) a

/-- `deferred.entry(c).or_default().extend(ms)` -/
def deferInsert (d : FMap (VClock A) (FSet M)) (c : VClock A) (ms : FSet M) : FMap (VClock A) (FSet M) :=
  match d.get? c with
  | some ex => d.insert c (unionSet ex ms)
  | none => d.insert c ms

/-- one member of the loop src/orswot.rs:276-283 -/
def rmMember (c : VClock A) (e : FMap M (VClock A)) (m : M) : FMap M (VClock A) :=
  match e.get? m with
  | some mc =>
    let mc' := mc.resetRemove c
    if mc'.isEmpty then e.erase m else e.insert m mc'
  | none => e

/-- src/orswot.rs:275-295 `apply_rm` -/
def applyRm (s : Orswot M A) (members : FSet M) (c : VClock A) : Orswot M A :=
  let entries := members.l.foldl (fun e p => rmMember c e p.1) s.entries
  let deferred :=
    match c.partialCmp s.clock with
    | none | some .gt =>
      match s.deferred.get? c with
      | some ex => s.deferred.insert c (unionSet ex members)
      | none => s.deferred.insert c members
    | _ => s.deferred
  { s with entries := entries, deferred := deferred }

/-- src/orswot.rs:360-365 `apply_deferred` -/
def applyDeferred (s : Orswot M A) : Orswot M A :=
  s.deferred.l.foldl (fun acc p => applyRm acc p.2 p.1) { s with deferred := ∅ }

/-- src/orswot.rs:65-85 `CmRDT::apply` -/
def apply (s : Orswot M A) : OrswotOp M A → Orswot M A
  | .add dot members =>
    if s.clock.get dot.actor ≥ dot.counter then s
    else
      let entries := members.foldl
        (fun e m => e.insert m (VClock.apply ((e.get? m).getD ∅) dot)) s.entries
      applyDeferred { s with entries := entries, clock := s.clock.apply dot }
  | .rm c members => applyRm s (setOfList members) c

/-- src/orswot.rs:57-62 -/
def validateOp (s : Orswot M A) : OrswotOp M A → Except (DotRange A) Unit
  | .add dot _ => s.clock.validateOp dot
  | .rm _ _ => .ok ()

/-- src/orswot.rs:114-130 -/
def validateMerge (s o : Orswot M A) : Except (DoubleSpentDot M A) Unit :=
  let hit := s.entries.l.findSome? (fun (m, c) =>
    o.entries.l.findSome? (fun (m', c') =>
      c.dots.l.findSome? (fun (a, n) =>
        if m' ≠ m ∧ c'.get a = n then some (DoubleSpentDot.mk ⟨a, n⟩ m m') else none)))
  match hit with
  | some e => .error e
  | none => .ok ()

/-- first loop of `merge`, src/orswot.rs:133-156 -/
def mergeKeep (s o : Orswot M A) : FMap M (VClock A) :=
  s.entries.filterMap (fun m c =>
    if o.entries.contains m then some c
    else if o.clock.ge c then none
    else some (c.resetRemove o.clock))

/-- body of the second loop of `merge`, src/orswot.rs:158-188 -/
def mergeStep (s o : Orswot M A) (e : FMap M (VClock A)) (m : M) (c : VClock A) : FMap M (VClock A) :=
  match e.get? m with
  | some ours =>
    let common := ((VClock.intersection c ours).merge (c.cloneWithout s.clock)).merge (ours.cloneWithout o.clock)
    if common.isEmpty then e.erase m else e.insert m common
  | none =>
    if s.clock.ge c then e else e.insert m (c.resetRemove s.clock)

/-- src/orswot.rs:132-199 `CvRDT::merge` -/
def merge (s o : Orswot M A) : Orswot M A :=
  let e2 := o.entries.l.foldl (fun e p => mergeStep s o e p.1 p.2) (mergeKeep s o)
  let s1 : Orswot M A := { s with entries := e2 }
  let s2 := o.deferred.l.foldl (fun acc p => applyRm acc p.2 p.1) s1
  applyDeferred { s2 with clock := s2.clock.merge o.clock }

/-- src/orswot.rs:202-229 `reset_remove` (after the fix c462df9: deferred removes whose clocks collide after
subtraction are united) -/
def resetRemove (s : Orswot M A) (c : VClock A) : Orswot M A :=
  { clock := s.clock.resetRemove c
    entries := s.entries.filterMap (fun _ vc =>
      let vc' := vc.resetRemove c
      if vc'.isEmpty then none else some vc')
    deferred := s.deferred.l.foldl (fun acc p =>
      let k := p.1.resetRemove c
      if k.isEmpty then acc else deferInsert acc k p.2) ∅ }

/-- src/orswot.rs:298-306 -/
def contains (s : Orswot M A) (m : M) : ReadCtx Bool A :=
  ⟨s.clock, (s.entries.get? m).getD ∅, (s.entries.get? m).isSome⟩

/-- src/orswot.rs:309-315 -/
def iter (s : Orswot M A) : List (ReadCtx M A) :=
  s.entries.l.map (fun p => ⟨s.clock, p.2, p.1⟩)

/-- src/orswot.rs:318-324 (member set as sorted list) -/
def read (s : Orswot M A) : ReadCtx (List M) A := ⟨s.clock, s.clock, s.entries.l.map (·.1)⟩

/-- src/orswot.rs:327-333 -/
def readCtx (s : Orswot M A) : ReadCtx Unit A := ⟨s.clock, s.clock, ()⟩

/-- src/orswot.rs:243-249 -/
def add (member : M) (ctx : AddCtx A) : OrswotOp M A := .add ctx.dot [member]
/-- src/orswot.rs:252-257 -/
def addAll (members : List M) (ctx : AddCtx A) : OrswotOp M A := .add ctx.dot members
/-- src/orswot.rs:260-265 -/
def rm (member : M) (ctx : RmCtx A) : OrswotOp M A := .rm ctx.clock [member]
/-- src/orswot.rs:268-273 -/
def rmAll (members : List M) (ctx : RmCtx A) : OrswotOp M A := .rm ctx.clock members

end Orswot
end Crdt
