import CrdtModel.Model.Ctx
/-! Model of `src/mvreg.rs` (multi-value register).  Core Lean only (the driver links against this).
The state is the `Vec<(VClock<A>, V)>` in arrival order, exactly as in the Rust. -/
namespace Crdt
open LinOrd

/-- src/mvreg.rs:32-36 -/
structure MVReg (ν α : Type) [LinOrd α] where
  vals : List (VClock α × ν)

/-- src/mvreg.rs:39-48 `Op::Put { clock, val }` -/
structure MVOp (ν α : Type) [LinOrd α] where
  clock : VClock α
  val : ν

namespace MVOp
variable {ν α : Type} [LinOrd α]
instance [DecidableEq ν] : DecidableEq (MVOp ν α) := fun a b =>
  if h : a.clock = b.clock ∧ a.val = b.val then isTrue (by cases a; cases b; simp at h; simp [h])
  else isFalse (fun e => h (by subst e; exact ⟨rfl, rfl⟩))
end MVOp

namespace MVReg
variable {ν α : Type} [LinOrd α]

/-- src/mvreg.rs:105-109, 181-183 `new` / `default` -/
def init : MVReg ν α := ⟨[]⟩

/-- the `retain` predicate of src/mvreg.rs:150-155:
`matches!(val_clock.partial_cmp(&clock), None | Some(Ordering::Greater))` (an EQUAL clock is dropped) -/
def retained (clock valClock : VClock α) : Bool :=
  match valClock.partialCmp clock with
  | none => true
  | some .gt => true
  | _ => false

/-- src/mvreg.rs:143-176 `apply` -/
def apply (s : MVReg ν α) (op : MVOp ν α) : MVReg ν α :=
  if op.clock.isEmpty then s
  else
    -- first filter out all values that are dominated by the Op clock
    let kept := s.vals.filter (fun p => retained op.clock p.1)
    -- `should_add = false` as soon as one remaining clock is `>` the op's clock
    let shouldAdd := !(kept.any (fun p => p.1.gt op.clock))
    if shouldAdd then ⟨kept ++ [(op.clock, op.val)]⟩ else ⟨kept⟩

/-- the first `filter` of `merge` (src/mvreg.rs:119-122): keep the entries of `self` with no strictly greater
clock in `other` (`filter(|(c, _)| clock < c).count() == 0`) -/
def mergeKeep (self other : List (VClock α × ν)) : List (VClock α × ν) :=
  self.filter (fun p => (other.filter (fun q => p.1.lt q.1)).length == 0)

/-- src/mvreg.rs:118-132 `merge` -/
def merge (s o : MVReg ν α) : MVReg ν α :=
  let kept := mergeKeep s.vals o.vals
  let add := (o.vals.filter (fun p => (kept.filter (fun q => p.1.lt q.1)).length == 0)).filter
      (fun p => kept.all (fun q => p.1 != q.1))
  ⟨kept ++ add⟩

/-- src/mvreg.rs:90-102 `reset_remove` -/
def resetRemove (s : MVReg ν α) (c : VClock α) : MVReg ν α :=
  ⟨s.vals.filterMap (fun p =>
    let valClock := p.1.resetRemove c
    if valClock.isEmpty then none else some (valClock, p.2))⟩

/-- src/mvreg.rs:219-226 `clock`: fold of `merge` over the stored clocks, starting from the empty clock -/
def clock (s : MVReg ν α) : VClock α := s.vals.foldl (fun acc p => acc.merge p.1) ∅

/-- src/mvreg.rs:194-206 `read`: values in `Vec` order, both clocks = `self.clock()` -/
def read (s : MVReg ν α) : ReadCtx (List ν) α :=
  let c := s.clock
  ⟨c, c, s.vals.map (·.2)⟩

/-- src/mvreg.rs:209-216 `read_ctx` -/
def readCtx (s : MVReg ν α) : ReadCtx Unit α :=
  let c := s.clock
  ⟨c, c, ()⟩

/-- src/mvreg.rs:186-191 `write`: `Op::Put { clock: ctx.clock, val }` (the register itself is not consulted) -/
def write (_s : MVReg ν α) (val : ν) (ctx : AddCtx α) : MVOp ν α := ⟨ctx.clock, val⟩

/-- the usual way to write: `reg.write(val, reg.read_ctx().derive_add_ctx(actor))` -/
def writeBy (s : MVReg ν α) (actor : α) (val : ν) : MVOp ν α := s.write val (s.readCtx.deriveAddCtx actor)

/-- one `for dot in xs` loop of the hand-written `PartialEq` (src/mvreg.rs:65-73): `some false` = `return false`,
`none` = `assert_eq!(num_found, 1)` panics, `some true` = the loop ran to completion -/
def eqScan [DecidableEq ν] (xs ys : List (VClock α × ν)) : Option Bool :=
  match xs with
  | [] => some true
  | d :: t =>
    let numFound := (ys.filter (fun e => e == d)).length
    if numFound = 0 then some false
    else if numFound ≠ 1 then none
    else eqScan t ys

/-- src/mvreg.rs:63-85 `PartialEq::eq`; `none` = panic -/
def eq [DecidableEq ν] (a b : MVReg ν α) : Option Bool :=
  match eqScan a.vals b.vals with
  | some true => eqScan b.vals a.vals
  | r => r

end MVReg
end Crdt
