/-! JSON trees and the compact text `serde_json::to_string` prints for them.  Core Lean only.

`obj` keeps its fields in SERIALISATION ORDER (serde_json writes struct fields in declaration order and map entries in
the map's iteration order), so the text is determined by the tree.  Numbers are integers (the crate's data has no floats).
The text parser is *not* modelled: `serde_json::from_str` is trusted to build the tree that `to_string` printed
(the driver decodes from the tree; the text is compared with the real crate's text byte for byte). -/
namespace Crdt

inductive Json where
  | null
  | bool (b : Bool)
  | num (n : Int)
  | str (s : String)
  | arr (elems : List Json)
  | obj (fields : List (String × Json))
deriving Inhabited

namespace Json

/-- serde_json escapes `"` and `\` (and control characters, which never occur in our data) -/
def escape (s : String) : String :=
  s.foldl (fun acc c => if c = '"' then acc ++ "\\\"" else if c = '\\' then acc ++ "\\\\" else acc.push c) ""

mutual
/-- the compact text of `serde_json::to_string` (no spaces, fields in the order of the tree) -/
def render : Json → String
  | .null => "null"
  | .bool true => "true"
  | .bool false => "false"
  | .num n => toString n
  | .str s => "\"" ++ escape s ++ "\""
  | .arr l => "[" ++ renderElems l ++ "]"
  | .obj l => "{" ++ renderFields l ++ "}"
def renderElems : List Json → String
  | [] => ""
  | x :: t => match t with
    | [] => render x
    | _ :: _ => render x ++ "," ++ renderElems t
def renderFields : List (String × Json) → String
  | [] => ""
  | (k, v) :: t => match t with
    | [] => "\"" ++ escape k ++ "\":" ++ render v
    | _ :: _ => "\"" ++ escape k ++ "\":" ++ render v ++ "," ++ renderFields t
end

/-- first field with the given name (serde's derived `Deserialize` finds struct fields by name, in any order) -/
def lookup (name : String) : List (String × Json) → Option Json
  | [] => none
  | (k, v) :: t => if k = name then some v else lookup name t

/-- field of an object; `none` for a missing field or a non-object -/
def field? (name : String) : Json → Option Json
  | .obj l => lookup name l
  | _ => none

/-- the body of an externally tagged enum variant `{"Tag": body}` (exactly one field) -/
def variant? : Json → Option (String × Json)
  | .obj [(tag, body)] => some (tag, body)
  | _ => none

/-- natural number (`u64`, `u32`, `u8`: serde rejects negatives; the upper bounds are outside the model) -/
def nat? : Json → Option Nat
  | .num (.ofNat n) => some n
  | _ => none

def int? : Json → Option Int
  | .num n => some n
  | _ => none

def arr? : Json → Option (List Json)
  | .arr l => some l
  | _ => none

def obj? : Json → Option (List (String × Json))
  | .obj l => some l
  | _ => none

end Json
end Crdt
