import CrdtModel.Base.LinOrd
/-! Model of `src/identifier.rs` (dense identifiers).  Core Lean only (`Rat` is core; Rust uses `BigRational`).

`Identifier τ` is a *structure* around the path (not an `abbrev` of `List _`) so that its order instance
(`Ord for Identifier`: a proper prefix is GREATER than its extensions) does not clash with the generic
lexicographic `LinOrd (List α)` instance (prefix first).

No `LinOrd Rat` instance is declared on purpose: `LinOrd` installs a generic `LT α` instance and a second,
syntactically different `<` on `Rat` would hide the rational arithmetic from `grind`.  Nodes `(BigRational, T)`
are compared by `nodeCmp` with the native `<` of `Rat` and the `LinOrd` order of the markers. -/
namespace Crdt
open LinOrd

/-- src/identifier.rs:28-30 `pub struct Identifier<T>(Vec<(BigRational, T)>)` -/
structure Identifier (τ : Type) where
  path : List (Rat × τ)
deriving Repr

namespace Identifier
variable {τ : Type} [LinOrd τ]

instance : DecidableEq (Identifier τ) := fun a b =>
  if h : a.path = b.path then isTrue (by cases a; cases b; simp at h; subst h; rfl)
  else isFalse (fun e => h (by subst e; rfl))

/-- src/identifier.rs:16-23 -/
def rationalBetween : Option Rat → Option Rat → Rat
  | none, none => 0
  | some low, none => low + 1
  | none, some high => high - 1
  | some low, some high => (low + high) / 2

/-- `Ord for (BigRational, T)` (tuples compare lexicographically), used at src/identifier.rs:44 -/
def nodeCmp (a b : Rat × τ) : Ordering :=
  if a.1 < b.1 then .lt else if b.1 < a.1 then .gt
  else if a.2 < b.2 then .lt else if b.2 < a.2 then .gt else .eq

/-- src/identifier.rs:38-53 the loop of `Ord::cmp`: node-wise; an exhausted path is GREATER than a longer one -/
def cmpPath : List (Rat × τ) → List (Rat × τ) → Ordering
  | [], [] => .eq
  | [], _ :: _ => .gt
  | _ :: _, [] => .lt
  | a :: as, b :: bs =>
    match nodeCmp a b with
    | .eq => cmpPath as bs
    | o => o

/-- src/identifier.rs:38-53 `Ord::cmp` -/
def cmp (a b : Identifier τ) : Ordering := cmpPath a.path b.path

/-- src/identifier.rs:64-66 `value` (`None` = the Rust `unwrap` panics: empty identifier) -/
def value (i : Identifier τ) : Option τ := i.path.getLast?.map (·.2)

/-- src/identifier.rs:69-71 `into_value` (same panic) -/
def intoValue (i : Identifier τ) : Option τ := i.value

/-- src/identifier.rs:90-118 the loop of `between`; the first list is `low_path` (it becomes `[]` when the
code replaces it by `std::iter::empty()`), the second `high_path`. Returns the pushed `path`. -/
def betweenLoop (m : τ) : List (Rat × τ) → List (Rat × τ) → List (Rat × τ)
  | (lr, lm) :: ls, (hr, hm) :: hs =>
    if lr = hr then
      if lm < m ∧ m < hm then [(hr, m)]                         -- marker fits, break
      else if lm = hm then (hr, hm) :: betweenLoop m ls hs       -- common prefix
      else (hr, hm) :: betweenLoop m [] hs                       -- diverged: clear the low path
    else [(rationalBetween (some lr) (some hr), m)]
  | [], (hr, _) :: _ => [(rationalBetween none (some hr), m)]
  | (lr, _) :: _, [] => [(rationalBetween (some lr) none, m)]
  | [], [] => [(rationalBetween none none, m)]

/-- first rational of the path (`entry.0.first().map(|(r, _)| r)`, `None` for the empty identifier) -/
def firstRat (i : Identifier τ) : Option Rat := i.path.head?.map (·.1)

/-- src/identifier.rs:74-131 `between`.  In the `Greater` case the Rust calls itself with the arguments
swapped; by antisymmetry of `cmp` (`Identifier.cmpPath_swap`) that call takes the `Less` branch, which is
what is written here. -/
def between (low high : Option (Identifier τ)) (marker : τ) : Identifier τ :=
  match low, high with
  | some lo, some hi =>
    match cmp lo hi with
    | .gt => ⟨betweenLoop marker hi.path lo.path⟩
    | .eq => hi
    | .lt => ⟨betweenLoop marker lo.path hi.path⟩
  | lo, hi => ⟨[(rationalBetween (lo.bind firstRat) (hi.bind firstRat), marker)]⟩

end Identifier
end Crdt

/-! ## `cmp` is a lawful total order (needed here: identifiers are `BTreeSet`/`BTreeMap` keys, i.e. `FMap` keys) -/
namespace Crdt
open LinOrd
namespace Identifier
variable {τ : Type} [LinOrd τ]

/-- strict order on nodes -/
def nodeLt (a b : Rat × τ) : Prop := a.1 < b.1 ∨ (a.1 = b.1 ∧ a.2 < b.2)

theorem nodeCmp_lt {a b : Rat × τ} : nodeCmp a b = .lt ↔ nodeLt a b := by
  obtain ⟨a1, a2⟩ := a; obtain ⟨b1, b2⟩ := b
  simp only [nodeCmp, nodeLt]
  by_cases h1 : a1 < b1
  · simp [h1]
  · by_cases h2 : b1 < a1
    · have : a1 ≠ b1 := by grind
      simp [h1, h2, this]
    · have e : a1 = b1 := by grind
      subst e
      by_cases h3 : a2 < b2
      · simp [h1, h3]
      · by_cases h4 : b2 < a2 <;> simp [h1, h3, h4]

theorem nodeCmp_gt {a b : Rat × τ} : nodeCmp a b = .gt ↔ nodeLt b a := by
  obtain ⟨a1, a2⟩ := a; obtain ⟨b1, b2⟩ := b
  simp only [nodeCmp, nodeLt]
  by_cases h1 : a1 < b1
  · have : ¬ b1 < a1 := by grind
    have : b1 ≠ a1 := by grind
    simp [h1, *]
  · by_cases h2 : b1 < a1
    · simp [h1, h2]
    · have e : a1 = b1 := by grind
      subst e
      by_cases h3 : a2 < b2
      · have : ¬ b2 < a2 := lt_asymm h3
        simp [h1, h3, this]
      · by_cases h4 : b2 < a2 <;> simp [h1, h3, h4]

theorem nodeCmp_eq {a b : Rat × τ} : nodeCmp a b = .eq ↔ a = b := by
  obtain ⟨a1, a2⟩ := a; obtain ⟨b1, b2⟩ := b
  simp only [nodeCmp]
  by_cases h1 : a1 < b1
  · have : a1 ≠ b1 := by grind
    simp [h1, this]
  · by_cases h2 : b1 < a1
    · have : a1 ≠ b1 := by grind
      simp [h1, h2, this]
    · have e : a1 = b1 := by grind
      subst e
      by_cases h3 : a2 < b2
      · have : a2 ≠ b2 := ne_of_lt h3
        simp [h1, h3, this]
      · by_cases h4 : b2 < a2
        · have : a2 ≠ b2 := fun e => ne_of_lt h4 e.symm
          simp [h1, h3, h4, this]
        · have : a2 = b2 := by
            rcases lt_tri a2 b2 with h | h | h
            · exact absurd h h3
            · exact h
            · exact absurd h h4
          subst this
          simp [h1, h3]

theorem nodeLt_irrefl (a : Rat × τ) : ¬ nodeLt a a := by
  rintro (h | ⟨_, h⟩)
  · exact Rat.lt_irrefl h
  · exact lt_irrefl _ h

theorem nodeLt_trans {a b c : Rat × τ} (h1 : nodeLt a b) (h2 : nodeLt b c) : nodeLt a c := by
  obtain ⟨a1, a2⟩ := a; obtain ⟨b1, b2⟩ := b; obtain ⟨c1, c2⟩ := c
  simp only [nodeLt] at *
  rcases h1 with h1 | ⟨e1, h1⟩ <;> rcases h2 with h2 | ⟨e2, h2⟩
  · exact Or.inl (by grind)
  · subst e2; exact Or.inl h1
  · subst e1; exact Or.inl h2
  · subst e1; subst e2; exact Or.inr ⟨rfl, lt_trans h1 h2⟩

theorem nodeLt_tri (a b : Rat × τ) : nodeLt a b ∨ a = b ∨ nodeLt b a := by
  cases h : nodeCmp a b
  · exact Or.inl (nodeCmp_lt.mp h)
  · exact Or.inr (Or.inl (nodeCmp_eq.mp h))
  · exact Or.inr (Or.inr (nodeCmp_gt.mp h))

theorem cmpPath_cons_lt {a b : Rat × τ} {as bs : List (Rat × τ)} :
    cmpPath (a :: as) (b :: bs) = .lt ↔ (nodeLt a b ∨ (a = b ∧ cmpPath as bs = .lt)) := by
  simp only [cmpPath]
  cases h : nodeCmp a b
  · simp [nodeCmp_lt.mp h]
  · have e := nodeCmp_eq.mp h; subst e; simp [nodeLt_irrefl]
  · have g := nodeCmp_gt.mp h
    have : ¬ nodeLt a b := fun l => nodeLt_irrefl _ (nodeLt_trans l g)
    have : a ≠ b := fun e => by subst e; exact nodeLt_irrefl _ g
    simp [*]

theorem cmpPath_cons_gt {a b : Rat × τ} {as bs : List (Rat × τ)} :
    cmpPath (a :: as) (b :: bs) = .gt ↔ (nodeLt b a ∨ (a = b ∧ cmpPath as bs = .gt)) := by
  simp only [cmpPath]
  cases h : nodeCmp a b
  · have l := nodeCmp_lt.mp h
    have : ¬ nodeLt b a := fun g => nodeLt_irrefl _ (nodeLt_trans l g)
    have : a ≠ b := fun e => by subst e; exact nodeLt_irrefl _ l
    simp [*]
  · have e := nodeCmp_eq.mp h; subst e; simp [nodeLt_irrefl]
  · simp [nodeCmp_gt.mp h]

theorem cmpPath_cons_eq {a b : Rat × τ} {as bs : List (Rat × τ)} :
    cmpPath (a :: as) (b :: bs) = .eq ↔ (a = b ∧ cmpPath as bs = .eq) := by
  simp only [cmpPath]
  cases h : nodeCmp a b
  · have l := nodeCmp_lt.mp h
    have : a ≠ b := fun e => by subst e; exact nodeLt_irrefl _ l
    simp [*]
  · have e := nodeCmp_eq.mp h; subst e; simp
  · have g := nodeCmp_gt.mp h
    have : a ≠ b := fun e => by subst e; exact nodeLt_irrefl _ g
    simp [*]

/-- comparison is consistent with equality -/
theorem cmpPath_eq_iff : ∀ {p q : List (Rat × τ)}, cmpPath p q = .eq ↔ p = q
  | [], [] => by simp [cmpPath]
  | [], _ :: _ => by simp [cmpPath]
  | _ :: _, [] => by simp [cmpPath]
  | a :: as, b :: bs => by
    rw [cmpPath_cons_eq, cmpPath_eq_iff (p := as) (q := bs)]; simp

/-- antisymmetry: swapping the arguments swaps the result -/
theorem cmpPath_swap : ∀ (p q : List (Rat × τ)), cmpPath p q = .gt ↔ cmpPath q p = .lt
  | [], [] => by simp [cmpPath]
  | [], _ :: _ => by simp [cmpPath]
  | _ :: _, [] => by simp [cmpPath]
  | a :: as, b :: bs => by
    rw [cmpPath_cons_gt, cmpPath_cons_lt, cmpPath_swap as bs]
    constructor
    · rintro (h | ⟨e, h⟩)
      · exact Or.inl h
      · exact Or.inr ⟨e.symm, h⟩
    · rintro (h | ⟨e, h⟩)
      · exact Or.inl h
      · exact Or.inr ⟨e.symm, h⟩

theorem cmpPath_lt_trans : ∀ {p q r : List (Rat × τ)}, cmpPath p q = .lt → cmpPath q r = .lt → cmpPath p r = .lt
  | [], q, _, h, _ => absurd h (by cases q <;> simp [cmpPath])
  | _ :: _, [], r, _, h => absurd h (by cases r <;> simp [cmpPath])
  | _ :: _, _ :: _, [], _, _ => by simp [cmpPath]
  | a :: as, b :: bs, c :: cs, h1, h2 => by
    rw [cmpPath_cons_lt] at *
    rcases h1 with h1 | ⟨e1, h1⟩ <;> rcases h2 with h2 | ⟨e2, h2⟩
    · exact Or.inl (nodeLt_trans h1 h2)
    · subst e2; exact Or.inl h1
    · subst e1; exact Or.inl h2
    · subst e1; subst e2; exact Or.inr ⟨rfl, cmpPath_lt_trans h1 h2⟩

theorem cmpPath_refl (p : List (Rat × τ)) : cmpPath p p = .eq := cmpPath_eq_iff.mpr rfl

/-- the empty identifier is the greatest element: nothing is above it -/
theorem cmpPath_nil_ne_lt (q : List (Rat × τ)) : cmpPath [] q ≠ .lt := by
  cases q <;> simp [cmpPath]

omit [LinOrd τ] in
theorem ext {a b : Identifier τ} (h : a.path = b.path) : a = b := by
  cases a; cases b; simp at h; subst h; rfl

/-- `Ord for Identifier` as a lawful strict total order -/
instance : LinOrd (Identifier τ) where
  lt := fun a b => cmp a b = .lt
  decLt := fun _ _ => inferInstanceAs (Decidable (_ = _))
  decEq := inferInstance
  irrefl := fun a h => by simp [cmp, cmpPath_refl] at h
  trans := fun h1 h2 => cmpPath_lt_trans h1 h2
  tri := fun a b => by
    have : cmp a b = .lt ∨ cmp a b = .eq ∨ cmp a b = .gt := by cases cmp a b <;> simp
    rcases this with h | h | h
    · exact Or.inl h
    · exact Or.inr (Or.inl (ext (cmpPath_eq_iff.mp h)))
    · exact Or.inr (Or.inr ((cmpPath_swap _ _).mp h))

theorem lt_iff {a b : Identifier τ} : a < b ↔ cmp a b = .lt := Iff.rfl

end Identifier
end Crdt
