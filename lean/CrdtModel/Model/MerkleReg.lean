import CrdtModel.Base.FMap
/-!
Model of `src/merkle_reg.rs`.  Core Lean only (the driver links against this).

Hashes are an abstract ordered type `H`; sha3 is *not* modelled: every function that hashes takes the hash
function `hash : Node H τ → H` as a parameter.  `BTreeSet<Hash>` = `FSet H`, `BTreeMap<Hash, Node<T>>` = `FMap H (Node H τ)`.

`apply` (src/merkle_reg.rs:209-254) is recursive: after a node has entered the dag, every orphan whose children
are now all in the dag is taken out of `orphans` and `apply`d in turn.  The model runs that recursion on an
explicit call stack (`applyAll`, a work list: "nodes still to be applied, innermost loop first"), which Lean
accepts with a *proved* termination measure, and `MerkleReg.apply_unfold` shows that the function so defined
satisfies exactly the recursive equation of the Rust code.
-/
namespace Crdt
open LinOrd

/-! ### small additions to `FMap` needed by the model (sizes for the termination proof, `BTreeMap::remove` loop) -/
namespace AL
variable {κ : Type} [LinOrd κ] {ν : Type}

theorem length_insert_le (k : κ) (v : ν) (l : List (κ × ν)) : (insert k v l).length ≤ l.length + 1 := by
  induction l with
  | nil => simp [insert]
  | cons hd t ih =>
    obtain ⟨k', v'⟩ := hd
    simp only [insert]
    split
    · simp
    · split
      · simp
      · simp only [List.length_cons]; omega

theorem length_erase_of_get? {k : κ} {v : ν} {l : List (κ × ν)} (h : get? l k = some v) :
    (erase k l).length + 1 = l.length := by
  induction l with
  | nil => simp [get?] at h
  | cons hd t ih =>
    obtain ⟨k', v'⟩ := hd
    simp only [get?] at h
    simp only [erase]
    split
    · simp
    · next ne =>
      simp only [ne, if_false] at h
      simp only [List.length_cons]
      have := ih h
      omega

end AL

namespace FMap
variable {κ : Type} [LinOrd κ] {ν : Type}

theorem size_insert_le (m : FMap κ ν) (k : κ) (v : ν) : (m.insert k v).size ≤ m.size + 1 :=
  AL.length_insert_le k v m.l

theorem size_erase_of_get? {m : FMap κ ν} {k : κ} {v : ν} (h : m.get? k = some v) : (m.erase k).size + 1 = m.size :=
  AL.length_erase_of_get? h

/-- `for k in ks { if let Some(v) = m.remove(&k) { out.push(v) } }` (src/merkle_reg.rs:238-246) -/
def removeAll : List κ → FMap κ ν → FMap κ ν × List ν
  | [], m => (m, [])
  | k :: ks, m =>
    match m.get? k with
    | some v => let r := removeAll ks (m.erase k); (r.1, v :: r.2)
    | none => removeAll ks m

theorem removeAll_size (ks : List κ) (m : FMap κ ν) : (removeAll ks m).1.size + (removeAll ks m).2.length = m.size := by
  induction ks generalizing m with
  | nil => simp [removeAll]
  | cons k ks ih =>
    simp only [removeAll]
    split
    · next v hv =>
      simp only [List.length_cons]
      have := ih (m.erase k)
      have := size_erase_of_get? hv
      omega
    · exact ih m

end FMap

/-- src/merkle_reg.rs:15-21 `Node<T>` (the op type) -/
structure Node (H : Type) [LinOrd H] (τ : Type) where
  children : FSet H
  value : τ

instance {H : Type} [LinOrd H] {τ : Type} [DecidableEq τ] : DecidableEq (Node H τ) := fun a b =>
  if h : a.children = b.children ∧ a.value = b.value then
    isTrue (by cases a; cases b; simp at h; obtain ⟨h1, h2⟩ := h; subst h1; subst h2; rfl)
  else isFalse (fun e => h (by subst e; exact ⟨rfl, rfl⟩))

/-- src/merkle_reg.rs:78-85 -/
structure MerkleReg (H : Type) [LinOrd H] (τ : Type) where
  roots : FSet H
  dag : FMap H (Node H τ)
  orphans : FMap H (Node H τ)

/-- src/merkle_reg.rs:181-186 -/
inductive MerkleValidationError (H : Type) where
  | missingChild : H → MerkleValidationError H
deriving DecidableEq

namespace MerkleReg
variable {H : Type} [LinOrd H] {τ : Type}

instance [DecidableEq τ] : DecidableEq (MerkleReg H τ) := fun a b =>
  if h : a.roots = b.roots ∧ a.dag = b.dag ∧ a.orphans = b.orphans then
    isTrue (by cases a; cases b; simp at h; obtain ⟨h1, h2, h3⟩ := h; subst h1; subst h2; subst h3; rfl)
  else isFalse (fun e => h (by subst e; exact ⟨rfl, rfl, rfl⟩))

/-- src/merkle_reg.rs:87-101 `Default` / `new` -/
def init : MerkleReg H τ := ⟨∅, ∅, ∅⟩
instance : EmptyCollection (MerkleReg H τ) := ⟨init⟩
instance : Inhabited (MerkleReg H τ) := ⟨init⟩

/-- src/merkle_reg.rs:104-113: the roots that are in the dag, as `Content.nodes : BTreeMap<Hash, &Node>` -/
def read (s : MerkleReg H τ) : FMap H (Node H τ) := s.roots.filterMap (fun h _ => s.dag.get? h)

/-- src/merkle_reg.rs:65-67 `Content::hashes` -/
def hashes (c : FMap H (Node H τ)) : FSet H := c.filterMap (fun _ _ => some ())

/-- src/merkle_reg.rs:116-118 -/
def write (_s : MerkleReg H τ) (value : τ) (children : FSet H) : Node H τ := ⟨children, value⟩

/-- src/merkle_reg.rs:124-126 -/
def node (s : MerkleReg H τ) (h : H) : Option (Node H τ) := (s.dag.get? h).orElse (fun _ => s.orphans.get? h)

/-- src/merkle_reg.rs:129-131 -/
def allNodes (s : MerkleReg H τ) : List (Node H τ) := s.dag.l.map (·.2)

/-- src/merkle_reg.rs:134-146 -/
def children (s : MerkleReg H τ) (h : H) : FMap H (Node H τ) :=
  match s.dag.get? h with
  | some nd => nd.children.filterMap (fun c _ => s.dag.get? c)
  | none => ∅

/-- src/merkle_reg.rs:149-163 -/
def parents (s : MerkleReg H τ) (h : H) : FMap H (Node H τ) :=
  s.dag.filterMap (fun _ nd => if nd.children.contains h then some nd else none)

/-- src/merkle_reg.rs:166-168 -/
def numNodes (s : MerkleReg H τ) : Nat := s.dag.size
/-- src/merkle_reg.rs:171-173 -/
def numOrphans (s : MerkleReg H τ) : Nat := s.orphans.size

/-- src/merkle_reg.rs:175-177 -/
def allHashesSeen (s : MerkleReg H τ) (hs : FSet H) : Bool := hs.l.all (fun p => s.dag.contains p.1)

/-- src/merkle_reg.rs:200-207: error for the first child (in set order) that is not in the dag -/
def validateOp (s : MerkleReg H τ) (op : Node H τ) : Except (MerkleValidationError H) Unit :=
  match op.children.l.find? (fun p => !s.dag.contains p.1) with
  | some p => .error (.missingChild p.1)
  | none => .ok ()

/-- src/merkle_reg.rs:260-262 -/
def validateMerge (_s _o : MerkleReg H τ) : Except Empty Unit := .ok ()

/-- src/merkle_reg.rs:215-246, the branch "all children seen", up to (not including) the recursive calls:
children leave `roots`, the node's hash enters `roots` and `dag`; the orphans whose children are now all in the
dag are collected (in key order), removed from `orphans`, and returned as `nodes_to_apply`. -/
def insertVisible (s : MerkleReg H τ) (h : H) (nd : Node H τ) : MerkleReg H τ × List (Node H τ) :=
  let roots := nd.children.l.foldl (fun r c => r.erase c.1) s.roots
  let roots := roots.insert h ()
  let s1 : MerkleReg H τ := ⟨roots, s.dag.insert h nd, s.orphans⟩
  let ready : List H := (s1.orphans.l.filter (fun p => s1.allHashesSeen p.2.children)).map (·.1)
  let r := FMap.removeAll ready s1.orphans
  (⟨s1.roots, s1.dag, r.1⟩, r.2)

theorem insertVisible_size (s : MerkleReg H τ) (h : H) (nd : Node H τ) :
    (s.insertVisible h nd).1.orphans.size + (s.insertVisible h nd).2.length = s.orphans.size := by
  simp only [insertVisible]
  exact FMap.removeAll_size _ _

variable (hash : Node H τ → H)

/-- src/merkle_reg.rs:209-254 run on an explicit stack: `applyAll s [n₁, …, nₖ]` = `for n in [n₁…nₖ] { s.apply(n) }`.
The head of the list is the call being executed; the `nodes_to_apply` of a call are pushed in front of the
callers' remaining work, which is the order in which the recursive Rust code executes them.
Termination: `(orphans.len() + pending, pending)` decreases lexicographically. -/
def applyAll (s : MerkleReg H τ) (pending : List (Node H τ)) : MerkleReg H τ :=
  match pending with
  | [] => s
  | nd :: rest =>
    let h := hash nd
    if s.dag.contains h || s.orphans.contains h then
      applyAll s rest
    else if s.allHashesSeen nd.children then
      let r := s.insertVisible h nd
      applyAll r.1 (r.2 ++ rest)
    else
      applyAll ⟨s.roots, s.dag, s.orphans.insert h nd⟩ rest
termination_by (s.orphans.size + pending.length, pending.length)
decreasing_by
  · apply Prod.Lex.left; simp only [List.length_cons]; omega
  · apply Prod.Lex.left
    have := s.insertVisible_size (hash nd) nd
    simp only [List.length_append, List.length_cons]; omega
  · have := s.orphans.size_insert_le (hash nd) nd
    simp only [List.length_cons]
    rcases Nat.lt_or_ge ((s.orphans.insert (hash nd) nd).size + rest.length) (s.orphans.size + (rest.length + 1)) with lt | ge
    · exact Prod.Lex.left _ _ lt
    · have e : (s.orphans.insert (hash nd) nd).size + rest.length = s.orphans.size + (rest.length + 1) := by omega
      rw [e]; exact Prod.Lex.right _ (by omega)

/-- src/merkle_reg.rs:209-254 `CmRDT::apply` -/
def apply (s : MerkleReg H τ) (nd : Node H τ) : MerkleReg H τ := applyAll hash s [nd]

/-- src/merkle_reg.rs:264-272 `CvRDT::merge`: apply every dag node, then every orphan, of the other (key order) -/
def merge (s other : MerkleReg H τ) : MerkleReg H τ :=
  let s1 := other.dag.l.foldl (fun acc p => apply hash acc p.2) s
  other.orphans.l.foldl (fun acc p => apply hash acc p.2) s1

end MerkleReg
end Crdt
