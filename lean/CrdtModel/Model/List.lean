import CrdtModel.Base.FMap
import CrdtModel.Model.Identifier
import CrdtModel.Model.VClock
/-! Model of `src/list.rs` (LSEQ/Logoot-style list keyed by dense identifiers).  The Lean type is called `ListCrdt`
(`Crdt.List` would shadow the core `List` inside the namespace). -/
namespace Crdt
open LinOrd

/-- src/dot.rs:98-106 `OrdDot` – `derive(Ord)` on `{actor, counter}`: actor first, i.e. the lexicographic pair -/
abbrev OrdDot (α : Type) := α × Nat

namespace OrdDot
variable {α : Type}
/-- src/dot.rs:108-112 -/
def toDot (o : OrdDot α) : Dot α := ⟨o.1, o.2⟩
/-- src/dot.rs:114-118 -/
def ofDot (d : Dot α) : OrdDot α := (d.actor, d.counter)
end OrdDot

/-- src/list.rs:59-64 -/
structure ListCrdt (τ α : Type) [LinOrd α] where
  seq : FMap (Identifier (OrdDot α)) τ
  clock : VClock α

/-- src/list.rs:67-84 -/
inductive ListOp (τ α : Type) where
  | insert (id : Identifier (OrdDot α)) (val : τ)
  | delete (id : Identifier (OrdDot α)) (dot : Dot α)

namespace ListOp
variable {τ α : Type} [LinOrd α]

/-- src/list.rs:88-92 -/
def id : ListOp τ α → Identifier (OrdDot α)
  | .insert i _ => i
  | .delete i _ => i

/-- src/list.rs:95-100 (`none` = `id.value()` panics: insert op with an empty identifier) -/
def dot : ListOp τ α → Option (Dot α)
  | .insert i _ => i.value.map OrdDot.toDot
  | .delete _ d => some d

end ListOp

namespace ListCrdt
variable {τ α : Type} [LinOrd α]

instance [DecidableEq τ] : DecidableEq (ListCrdt τ α) := fun a b =>
  if h : a.seq = b.seq ∧ a.clock = b.clock then isTrue (by cases a; cases b; simp at h; obtain ⟨h1, h2⟩ := h; subst h1; subst h2; rfl)
  else isFalse (fun e => h (by subst e; exact ⟨rfl, rfl⟩))

/-- src/list.rs:113-115 -/
def new : ListCrdt τ α := ⟨∅, ∅⟩
instance : Inhabited (ListCrdt τ α) := ⟨new⟩

/-- `self.seq.keys()` -/
def keys (s : ListCrdt τ α) : List (Identifier (OrdDot α)) := s.seq.l.map (·.1)

/-- src/list.rs:153-155 -/
def len (s : ListCrdt τ α) : Nat := s.seq.size

/-- src/list.rs:158-160 -/
def isEmpty (s : ListCrdt τ α) : Bool := s.seq.isEmpty

/-- src/list.rs:119-140 `insert_index`.  `keys().skip(k)` then `next(), next()` = `keys[k]?`, `keys[k+1]?`. -/
def insertIndex (s : ListCrdt τ α) (ix : Nat) (val : τ) (actor : α) : ListOp τ α :=
  let ix := min ix s.len
  let pn : Option (Identifier (OrdDot α)) × Option (Identifier (OrdDot α)) :=
    match ix with                                   -- ix.checked_sub(1)
    | k + 1 => (s.keys[k]?, s.keys[k + 1]?)
    | 0 => (none, s.keys[0]?)                       -- inserting at the front
  let dot := s.clock.inc actor
  .insert (Identifier.between pn.1 pn.2 (OrdDot.ofDot dot)) val

/-- src/list.rs:143-146 -/
def append (s : ListCrdt τ α) (c : τ) (actor : α) : ListOp τ α := s.insertIndex s.len c actor

/-- src/list.rs:151-156 -/
def deleteIndex (s : ListCrdt τ α) (ix : Nat) (actor : α) : Option (ListOp τ α) :=
  s.keys[ix]?.map (fun id => .delete id (s.clock.inc actor))

/-- src/list.rs:177-179 `read` / `read_into` / `iter` -/
def read (s : ListCrdt τ α) : List τ := s.seq.l.map (·.2)

/-- src/list.rs:202-204 -/
def iterEntries (s : ListCrdt τ α) : List (Identifier (OrdDot α) × τ) := s.seq.l

/-- src/list.rs:207-209 -/
def position (s : ListCrdt τ α) (ix : Nat) : Option τ := s.read[ix]?

/-- src/list.rs:212-216 -/
def positionEntry (s : ListCrdt τ α) (id : Identifier (OrdDot α)) : Option Nat :=
  let i := s.keys.findIdx (· = id)
  if i < s.keys.length then some i else none

/-- src/list.rs:219-221 -/
def get (s : ListCrdt τ α) (id : Identifier (OrdDot α)) : Option τ := s.seq.get? id

/-- src/list.rs:229-231 -/
def firstEntry (s : ListCrdt τ α) : Option (Identifier (OrdDot α) × τ) := s.seq.l.head?
/-- src/list.rs:224-226 -/
def first (s : ListCrdt τ α) : Option τ := s.firstEntry.map (·.2)
/-- src/list.rs:239-241 -/
def lastEntry (s : ListCrdt τ α) : Option (Identifier (OrdDot α) × τ) := s.seq.l.getLast?
/-- src/list.rs:234-236 -/
def last (s : ListCrdt τ α) : Option τ := s.lastEntry.map (·.2)

/-- src/list.rs:244-247 private `insert`: `entry(id).or_insert(val)` – only if the identifier is absent -/
def insertEntry (seq : FMap (Identifier (OrdDot α)) τ) (id : Identifier (OrdDot α)) (val : τ) :
    FMap (Identifier (OrdDot α)) τ :=
  if seq.contains id then seq else seq.insert id val

/-- src/list.rs:261-263 -/
def validateOp (s : ListCrdt τ α) (op : ListOp τ α) : Option (Except (DotRange α) Unit) :=
  op.dot.map s.clock.validateOp

/-- src/list.rs:272-285 `apply` (`none` = `op.dot()` panics; nothing has been mutated at that point) -/
def apply? (s : ListCrdt τ α) (op : ListOp τ α) : Option (ListCrdt τ α) :=
  match op.dot with
  | none => none
  | some opDot =>
    if opDot.counter ≤ s.clock.get opDot.actor then some s
    else
      let clock := s.clock.apply opDot
      match op with
      | .insert id val => some ⟨insertEntry s.seq id val, clock⟩
      | .delete id _ => some ⟨s.seq.erase id, clock⟩

/-- total version used where the panic is excluded -/
def apply (s : ListCrdt τ α) (op : ListOp τ α) : ListCrdt τ α := (s.apply? op).getD s

end ListCrdt
end Crdt
