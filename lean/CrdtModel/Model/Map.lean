import CrdtModel.Model.Orswot
/-! Model of `src/map.rs`, generic over the value type through a record of its operations (`Val<A>` =
`Clone + Default + ResetRemove<A> + CmRDT`, plus `CvRDT` for merge). -/
namespace Crdt
open LinOrd

/-- what `Map` needs from its value type -/
structure ValOps (V VOp A : Type) [LinOrd A] where
  default : V
  apply : V → VOp → V
  merge : V → V → V
  resetRemove : V → VClock A → V
  /-- `validate_op(..).is_ok()` -/
  validateOp : V → VOp → Bool
  /-- `validate_merge(..).is_ok()` -/
  validateMerge : V → V → Bool
  /-- `==` (`none` = it panics) -/
  eq : V → V → Option Bool

/-- src/map.rs:42-49 -/
structure MapEntry (V A : Type) [LinOrd A] where
  clock : VClock A
  val : V

/-- src/map.rs:52-64 -/
inductive MapOp (K VOp A : Type) [LinOrd A] where
  | rm (clock : VClock A) (keyset : List K)
  | up (dot : Dot A) (key : K) (op : VOp)

/-- src/map.rs:32-39 -/
structure CMap (K V A : Type) [LinOrd K] [LinOrd A] where
  clock : VClock A
  entries : FMap K (MapEntry V A)
  deferred : FMap (VClock A) (FSet K)

/-- src/map.rs:122-127 (payloads abstracted to the kind) -/
inductive MapOpValidation where
  | sourceOrder (actor start stop : Nat)
  | value
deriving DecidableEq

inductive MapMergeValidation where
  | doubleSpentDot
  | value
deriving DecidableEq

namespace CMap
variable {K V VOp A : Type} [LinOrd K] [LinOrd A]

/-- src/map.rs:77-85 -/
def init : CMap K V A := ⟨∅, ∅, ∅⟩

/-- the key-level reading of a Map op: an update is an add of its key, a key remove is a remove -/
def keyOp : MapOp K VOp A → OrswotOp K A
  | .rm c ks => .rm c ks
  | .up d k _ => .add d [k]

/-- one key of the loop src/map.rs:411-424 -/
def rmKey (ops : ValOps V VOp A) (c : VClock A) (e : FMap K (MapEntry V A)) (k : K) : FMap K (MapEntry V A) :=
  match e.get? k with
  | some en =>
    let ec := en.clock.resetRemove c
    if ec.isEmpty then e.erase k else e.insert k ⟨ec, ops.resetRemove en.val c⟩
  | none => e

/-- src/map.rs:410-440 `apply_keyset_rm` -/
def applyKeysetRm (ops : ValOps V VOp A) (s : CMap K V A) (keyset : FSet K) (c : VClock A) : CMap K V A :=
  let entries := keyset.l.foldl (fun e p => rmKey ops c e p.1) s.entries
  let deferred :=
    match s.clock.partialCmp c with
    | none | some .lt => Orswot.deferInsert s.deferred c keyset
    | _ => s.deferred
  { s with entries := entries, deferred := deferred }

/-- src/map.rs:402-407 `apply_deferred` -/
def applyDeferred (ops : ValOps V VOp A) (s : CMap K V A) : CMap K V A :=
  s.deferred.l.foldl (fun acc p => applyKeysetRm ops acc p.2 p.1) { s with deferred := ∅ }

/-- src/map.rs:184-203 `CmRDT::apply` -/
def apply (ops : ValOps V VOp A) (s : CMap K V A) : MapOp K VOp A → CMap K V A
  | .rm c keyset => applyKeysetRm ops s (Orswot.setOfList keyset) c
  | .up dot key op =>
    if s.clock.get dot.actor ≥ dot.counter then s
    else
      let en : MapEntry V A := (s.entries.get? key).getD ⟨∅, ops.default⟩
      let en' : MapEntry V A := ⟨en.clock.apply dot, ops.apply en.val op⟩
      applyDeferred ops { s with entries := s.entries.insert key en', clock := s.clock.apply dot }

def showRange {A : Type} (r : DotRange A) (f : A → Nat) : MapOpValidation := .sourceOrder (f r.actor) r.start r.stop

/-- src/map.rs:166-182 `CmRDT::validate_op` -/
def validateOp (ops : ValOps V VOp A) (toNat : A → Nat) (s : CMap K V A) : MapOp K VOp A → Except MapOpValidation Unit
  | .rm _ _ => .ok ()
  | .up dot key op =>
    match s.clock.validateOp dot with
    | .error r => .error (showRange r toNat)
    | .ok _ =>
      let en : MapEntry V A := (s.entries.get? key).getD ⟨∅, ops.default⟩
      match en.clock.validateOp dot with
      | .error r => .error (showRange r toNat)
      | .ok _ => if ops.validateOp en.val op then .ok () else .error .value

/-- src/map.rs:211-236 `CvRDT::validate_merge`: for each pair (our entry, their entry): first the dot check over our
entry's dots, then – for the same key with concurrent entry clocks – the nested check; first failure wins -/
def validateMerge (ops : ValOps V VOp A) (s o : CMap K V A) : Except MapMergeValidation Unit :=
  let hit := s.entries.l.findSome? (fun (k, en) =>
    o.entries.l.findSome? (fun (k', en') =>
      if en.clock.dots.l.any (fun (a, n) => decide (k' ≠ k) && decide (en'.clock.get a = n)) then
        some MapMergeValidation.doubleSpentDot
      else if decide (k = k') && en.clock.concurrent en'.clock && !ops.validateMerge en.val en'.val then
        some MapMergeValidation.value
      else none))
  match hit with
  | some e => .error e
  | none => .ok ()

/-- first loop of `merge`, src/map.rs:239-265 -/
def mergeKeep (ops : ValOps V VOp A) (s o : CMap K V A) : FMap K (MapEntry V A) :=
  s.entries.filterMap (fun k en =>
    if o.entries.contains k then some en
    else if o.clock.ge en.clock then none
    else
      let ec := en.clock.resetRemove o.clock
      let removedInformation := o.clock.resetRemove ec
      some ⟨ec, ops.resetRemove en.val removedInformation⟩)

/-- body of the second loop of `merge`, src/map.rs:267-309 -/
def mergeStep (ops : ValOps V VOp A) (s o : CMap K V A) (e : FMap K (MapEntry V A)) (k : K) (en : MapEntry V A) :
    FMap K (MapEntry V A) :=
  match e.get? k with
  | some ours =>
    let common := ((VClock.intersection en.clock ours.clock).merge (en.clock.cloneWithout s.clock)).merge
      (ours.clock.cloneWithout o.clock)
    if common.isEmpty then e.erase k
    else
      let v := ops.merge ours.val en.val
      let deleted := ((en.clock.merge ours.clock)).resetRemove common
      e.insert k ⟨common, ops.resetRemove v deleted⟩
  | none =>
    if s.clock.ge en.clock then e
    else
      let ec := en.clock.resetRemove s.clock
      let weDeleted := s.clock.resetRemove ec
      e.insert k ⟨ec, ops.resetRemove en.val weDeleted⟩

/-- src/map.rs:238-320 `CvRDT::merge` -/
def merge (ops : ValOps V VOp A) (s o : CMap K V A) : CMap K V A :=
  let e2 := o.entries.l.foldl (fun e p => mergeStep ops s o e p.1 p.2) (mergeKeep ops s o)
  let s1 : CMap K V A := { s with entries := e2 }
  let s2 := o.deferred.l.foldl (fun acc p => applyKeysetRm ops acc p.2 p.1) s1
  applyDeferred ops { s2 with clock := s2.clock.merge o.clock }

/-- src/map.rs:87-117 `reset_remove` (after the fix c462df9) -/
def resetRemove (ops : ValOps V VOp A) (s : CMap K V A) (c : VClock A) : CMap K V A :=
  { entries := s.entries.filterMap (fun _ en =>
      let ec := en.clock.resetRemove c
      if ec.isEmpty then none else some ⟨ec, ops.resetRemove en.val c⟩)
    deferred := s.deferred.l.foldl (fun acc p =>
      let k := p.1.resetRemove c
      if k.isEmpty then acc else Orswot.deferInsert acc k p.2) ∅
    clock := s.clock.resetRemove c }

/-- src/map.rs:329-335 -/
def isEmpty (s : CMap K V A) : ReadCtx Bool A := ⟨s.clock, s.clock, s.entries.isEmpty⟩
/-- src/map.rs:338-344 -/
def len (s : CMap K V A) : ReadCtx Nat A := ⟨s.clock, s.clock, s.entries.size⟩
/-- src/map.rs:347-357 -/
def get (s : CMap K V A) (k : K) : ReadCtx (Option V) A :=
  ⟨s.clock, ((s.entries.get? k).map (·.clock)).getD ∅, (s.entries.get? k).map (·.val)⟩
/-- src/map.rs:389-395 -/
def readCtx (s : CMap K V A) : ReadCtx Unit A := ⟨s.clock, s.clock, ()⟩
/-- src/map.rs:470-476 -/
def keys (s : CMap K V A) : List (ReadCtx K A) := s.entries.l.map (fun p => ⟨s.clock, p.2.clock, p.1⟩)
/-- src/map.rs:505-511 -/
def values (s : CMap K V A) : List (ReadCtx V A) := s.entries.l.map (fun p => ⟨s.clock, p.2.clock, p.2.val⟩)
/-- src/map.rs:548-554 -/
def iter (s : CMap K V A) : List (ReadCtx (K × V) A) := s.entries.l.map (fun p => ⟨s.clock, p.2.clock, (p.1, p.2.val)⟩)

/-- src/map.rs:364-376 `update`: the closure receives the current value (or the default) and the add context -/
def update (ops : ValOps V VOp A) (s : CMap K V A) (key : K) (ctx : AddCtx A) (f : V → AddCtx A → VOp) : MapOp K VOp A :=
  .up ctx.dot key (f (((s.entries.get? key).map (·.val)).getD ops.default) ctx)

/-- src/map.rs:379-386 -/
def rm (key : K) (ctx : RmCtx A) : MapOp K VOp A := .rm ctx.clock [key]

/-- derived `PartialEq` (clock, entries key-wise with the value's own `==`, deferred) -/
def eq (ops : ValOps V VOp A) (a b : CMap K V A) : Option Bool :=
  if a.clock ≠ b.clock then some false
  else
    let rec go : List (K × MapEntry V A) → List (K × MapEntry V A) → Option Bool
      | [], [] => some true
      | (k, e) :: t, (k', e') :: t' =>
        if k ≠ k' then some false
        else if e.clock ≠ e'.clock then some false
        else match ops.eq e.val e'.val with
          | none => none
          | some false => some false
          | some true => go t t'
      | _, _ => some false
    if a.entries.size ≠ b.entries.size then some false
    else match go a.entries.l b.entries.l with
      | some true => some (decide (a.deferred = b.deferred))
      | r => r

end CMap
end Crdt
