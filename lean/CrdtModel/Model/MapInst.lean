import CrdtModel.Model.Map
import CrdtModel.Model.MVReg
/-! The value-type records (`Val<A>` implementations) with which `Map` is instantiated: `MVReg`, `Orswot`, and `Map` itself
(any nesting depth).  The driver (Driver/Sut/Map.lean) and the theorems use these same records. -/
namespace Crdt
open LinOrd

/-- `result.is_ok()` -/
def exceptOk {ε α : Type} : Except ε α → Bool
  | .ok _ => true
  | .error _ => false

/-- `MVReg` as a Map value (src/mvreg.rs: `validate_op` / `validate_merge` always succeed) -/
def MVReg.valOps {ν α : Type} [DecidableEq ν] [LinOrd α] : ValOps (MVReg ν α) (MVOp ν α) α where
  default := MVReg.init
  apply := MVReg.apply
  merge := MVReg.merge
  resetRemove := MVReg.resetRemove
  validateOp := fun _ _ => true
  validateMerge := fun _ _ => true
  eq := MVReg.eq

/-- `Orswot` as a Map value -/
def Orswot.valOps {M A : Type} [LinOrd M] [LinOrd A] : ValOps (Orswot M A) (OrswotOp M A) A where
  default := Orswot.init
  apply := Orswot.apply
  merge := Orswot.merge
  resetRemove := Orswot.resetRemove
  validateOp := fun s op => exceptOk (s.validateOp op)
  validateMerge := fun s o => exceptOk (s.validateMerge o)
  eq := fun a b => some (decide (a = b))

/-- `Map` as a Map value (`toNat` only renders the actor in the error payload) -/
def CMap.valOps {K V VOp A : Type} [LinOrd K] [LinOrd A] (ops : ValOps V VOp A) (toNat : A → Nat) :
    ValOps (CMap K V A) (MapOp K VOp A) A where
  default := CMap.init
  apply := CMap.apply ops
  merge := CMap.merge ops
  resetRemove := CMap.resetRemove ops
  validateOp := fun s op => exceptOk (CMap.validateOp ops toNat s op)
  validateMerge := fun s o => exceptOk (CMap.validateMerge ops s o)
  eq := CMap.eq ops

end Crdt
