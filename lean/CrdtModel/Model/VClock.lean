import CrdtModel.Base.FMap
/-! Model of `src/dot.rs` and `src/vclock.rs`.  Core Lean only (the driver links against this). -/
namespace Crdt
open LinOrd

/-- src/dot.rs:9-15 `Dot` -/
structure Dot (α : Type) where
  actor : α
  counter : Nat
deriving DecidableEq, Repr

namespace Dot
variable {α : Type}
/-- src/dot.rs:31-37 -/
def inc (d : Dot α) : Dot α := ⟨d.actor, d.counter + 1⟩

/-- src/dot.rs:57-65 `PartialOrd for Dot`: comparable only for the same actor -/
def partialCmp [DecidableEq α] (a b : Dot α) : Option Ordering :=
  if a.actor = b.actor then some (compare a.counter b.counter) else none
end Dot

/-- src/dot.rs:158-161 `DotRange` (`counter_range = start..stop`) -/
structure DotRange (α : Type) where
  actor : α
  start : Nat
  stop : Nat
deriving DecidableEq, Repr

/-- src/vclock.rs:27-31 -/
structure VClock (α : Type) [LinOrd α] where
  dots : FMap α Nat

namespace VClock
variable {α : Type} [LinOrd α]

instance : DecidableEq (VClock α) := fun a b =>
  if h : a.dots = b.dots then isTrue (by cases a; cases b; simp at h; subst h; rfl)
  else isFalse (fun e => h (by subst e; rfl))

instance : EmptyCollection (VClock α) := ⟨⟨∅⟩⟩
instance : Inhabited (VClock α) := ⟨∅⟩

/-- src/vclock.rs:194-196 -/
def get (c : VClock α) (a : α) : Nat := (c.dots.get? a).getD 0

/-- src/vclock.rs:199-202 -/
def dot (c : VClock α) (a : α) : Dot α := ⟨a, c.get a⟩

/-- src/vclock.rs:186-191 -/
def inc (c : VClock α) (a : α) : Dot α := (c.dot a).inc

/-- src/vclock.rs:125-129 -/
def apply (c : VClock α) (d : Dot α) : VClock α :=
  if c.get d.actor < d.counter then ⟨c.dots.insert d.actor d.counter⟩ else c

/-- src/vclock.rs:139-143 (fold of `apply` over the other clock's dots, in key order) -/
def merge (c o : VClock α) : VClock α :=
  o.dots.l.foldl (fun acc p => acc.apply ⟨p.1, p.2⟩) c

/-- src/vclock.rs:85-91 -/
def resetRemove (c o : VClock α) : VClock α :=
  o.dots.l.foldl (fun acc p => if p.2 ≥ acc.get p.1 then ⟨acc.dots.erase p.1⟩ else acc) c

/-- src/vclock.rs:175-183 -/
def cloneWithout (c base : VClock α) : VClock α := c.resetRemove base

/-- src/vclock.rs:211-213 -/
def isEmpty (c : VClock α) : Bool := c.dots.isEmpty

/-- src/vclock.rs:38-55 `partial_cmp`, same case order as the Rust -/
def partialCmp (a b : VClock α) : Option Ordering :=
  if a = b then some .eq
  else if b.dots.l.all (fun p => a.get p.1 ≥ p.2) then some .gt
  else if a.dots.l.all (fun p => b.get p.1 ≥ p.2) then some .lt
  else none

/-- src/vclock.rs:205-207 -/
def concurrent (a b : VClock α) : Bool := (a.partialCmp b).isNone

/-- `self >= other` as used by `if other.clock >= clock` (derived `PartialOrd::ge`) -/
def ge (a b : VClock α) : Bool :=
  match a.partialCmp b with
  | some .gt | some .eq => true
  | _ => false

/-- `a < b` (derived `PartialOrd::lt`) -/
def lt (a b : VClock α) : Bool := a.partialCmp b == some .lt
/-- `a > b` -/
def gt (a b : VClock α) : Bool := a.partialCmp b == some .gt

/-- src/vclock.rs:216-229 -/
def intersection (l r : VClock α) : VClock α :=
  ⟨l.dots.l.foldl (fun acc p => if r.get p.1 = p.2 then acc.insert p.1 p.2 else acc) ∅⟩

/-- src/vclock.rs:232-246 -/
def glb (c o : VClock α) : VClock α :=
  ⟨c.dots.filterMap (fun a n => let m := min n (o.get a); if m = 0 then none else some m)⟩

/-- src/vclock.rs:108-123 -/
def validateOp (c : VClock α) (d : Dot α) : Except (DotRange α) Unit :=
  let next := c.get d.actor + 1
  if d.counter > next then .error ⟨d.actor, next, d.counter⟩ else .ok ()

/-- src/vclock.rs:249-254 -/
def iter (c : VClock α) : List (Dot α) := c.dots.l.map (fun p => ⟨p.1, p.2⟩)

/-- src/vclock.rs:285-296 `FromIterator<Dot>` -/
def fromIter (ds : List (Dot α)) : VClock α := ds.foldl apply ∅

/-- src/vclock.rs:298-304 `From<Dot>` -/
def ofDot (d : Dot α) : VClock α := (∅ : VClock α).apply d

/-- no stored counter is zero (what every API call maintains; `dots` is `pub` so it is not a type invariant) -/
def NoZero (c : VClock α) : Prop := ∀ a, c.dots.get? a ≠ some 0

/-- pointwise order -/
def le (a b : VClock α) : Prop := ∀ x, a.get x ≤ b.get x

end VClock
end Crdt

namespace Crdt
/-- clocks are ordered through their entry lists (needed where a clock is a map key: `deferred`) -/
instance {α : Type} [LinOrd α] : LinOrd (VClock α) where
  lt := fun a b => LinOrd.lt a.dots b.dots
  decLt := fun a b => LinOrd.decLt a.dots b.dots
  decEq := inferInstance
  irrefl := fun a => LinOrd.irrefl a.dots
  trans := fun h1 h2 => LinOrd.trans h1 h2
  tri := fun a b => by
    rcases LinOrd.tri a.dots b.dots with h | h | h
    · exact Or.inl h
    · refine Or.inr (Or.inl ?_); cases a; cases b; simp at h; subst h; rfl
    · exact Or.inr (Or.inr h)
end Crdt
