import CrdtModel.Base.FMap
import CrdtModel.Model.Identifier
/-! Model of `src/glist.rs` (grow-only list: a `BTreeSet` of identifiers whose last marker is the element). -/
namespace Crdt
open LinOrd

/-- src/glist.rs:28-32 `GList { list: BTreeSet<Identifier<T>> }` -/
structure GList (τ : Type) [LinOrd τ] where
  list : FSet (Identifier τ)

/-- src/glist.rs:13-20 `Op::Insert { id }` -/
inductive GListOp (τ : Type) where
  | insert (id : Identifier τ)

namespace GListOp
variable {τ : Type}
def id : GListOp τ → Identifier τ
  | .insert i => i
instance [LinOrd τ] : DecidableEq (GListOp τ) := fun a b =>
  match a, b with
  | .insert i, .insert j => if h : i = j then isTrue (by rw [h]) else isFalse (fun e => h (by cases e; rfl))
end GListOp

/-- `iter().map(value).collect()`: `none` as soon as one `value()` panics -/
def valuesOf {τ : Type} [LinOrd τ] : List (Identifier τ) → Option (List τ)
  | [] => some []
  | i :: t =>
    match i.value, valuesOf t with
    | some v, some vs => some (v :: vs)
    | _, _ => none

namespace GList
variable {τ : Type} [LinOrd τ]

instance : DecidableEq (GList τ) := fun a b =>
  if h : a.list = b.list then isTrue (by cases a; cases b; simp at h; subst h; rfl)
  else isFalse (fun e => h (by subst e; rfl))

/-- src/glist.rs:56-58 -/
def new : GList τ := ⟨∅⟩
instance : Inhabited (GList τ) := ⟨new⟩

/-- src/glist.rs:72-74 `iter`: the identifiers in set order -/
def ids (g : GList τ) : List (Identifier τ) := g.list.l.map (·.1)

/-- src/glist.rs:61-63 `read` (`none` = `Identifier::value` panics on an empty identifier in the set) -/
def read (g : GList τ) : Option (List τ) := valuesOf g.ids

/-- src/glist.rs:66-68 `read_into` (same) -/
def readInto (g : GList τ) : Option (List τ) := valuesOf g.ids

/-- src/glist.rs:77-79 -/
def get (g : GList τ) (idx : Nat) : Option (Identifier τ) := g.ids[idx]?

/-- src/glist.rs:117-119 -/
def len (g : GList τ) : Nat := g.list.size

/-- src/glist.rs:122-124 -/
def isEmpty (g : GList τ) : Bool := g.list.isEmpty

/-- src/glist.rs:127-129 -/
def first (g : GList τ) : Option (Identifier τ) := g.ids.head?

/-- src/glist.rs:132-134 -/
def last (g : GList τ) : Option (Identifier τ) := g.ids.getLast?

/-- src/glist.rs:94-99 `range((Unbounded, Excluded(high))).rev().find(|id| id < &high)`: greatest member below `high` -/
def pred (g : GList τ) (high : Identifier τ) : Option (Identifier τ) := (g.ids.filter (fun i => i < high)).getLast?

/-- src/glist.rs:106-110 `range((Excluded(low), Unbounded)).find(|id| id > &low)`: least member above `low` -/
def succ (g : GList τ) (low : Identifier τ) : Option (Identifier τ) := g.ids.find? (fun i => low < i)

/-- src/glist.rs:93-102 -/
def insertBefore (g : GList τ) (high : Option (Identifier τ)) (elem : τ) : GListOp τ :=
  .insert (Identifier.between (high.bind g.pred) high elem)

/-- src/glist.rs:105-114 -/
def insertAfter (g : GList τ) (low : Option (Identifier τ)) (elem : τ) : GListOp τ :=
  .insert (Identifier.between low (low.bind g.succ) elem)

/-- src/glist.rs:82-90 `insert` (`none` = `assert!(idx <= self.len())` panics) -/
def insert (g : GList τ) (idx : Nat) (elem : τ) : Option (GListOp τ) :=
  if idx ≤ g.len then
    some (match (match idx with | 0 => none | k + 1 => g.get k) with    -- idx.checked_sub(1).and_then(|i| self.get(i))
      | some prev => g.insertAfter (some prev) elem
      | none => g.insertBefore (g.get idx) elem)
  else none

/-- src/glist.rs:145-149 -/
def apply (g : GList τ) : GListOp τ → GList τ
  | .insert id => ⟨g.list.insert id ()⟩

/-- src/glist.rs:159-161 `self.list.extend(other.list)` -/
def merge (g o : GList τ) : GList τ := ⟨o.list.l.foldl (fun acc p => acc.insert p.1 ()) g.list⟩

end GList
end Crdt
