import CrdtModel.Model.VClock
/-! Models of `src/gcounter.rs`, `src/pncounter.rs`, `src/gset.rs`, `src/lwwreg.rs`, `src/maxreg.rs`, `src/minreg.rs`. -/
namespace Crdt
open LinOrd

/-! ## GCounter (src/gcounter.rs) -/
structure GCounter (α : Type) [LinOrd α] where
  inner : VClock α

namespace GCounter
variable {α : Type} [LinOrd α]
instance : DecidableEq (GCounter α) := fun a b =>
  if h : a.inner = b.inner then isTrue (by cases a; cases b; simp at h; subst h; rfl)
  else isFalse (fun e => h (by subst e; rfl))
def init : GCounter α := ⟨∅⟩
/-- src/gcounter.rs:49-51 -/
def apply (s : GCounter α) (d : Dot α) : GCounter α := ⟨s.inner.apply d⟩
/-- src/gcounter.rs:61-63 -/
def merge (s o : GCounter α) : GCounter α := ⟨s.inner.merge o.inner⟩
/-- src/gcounter.rs:67-69 -/
def resetRemove (s : GCounter α) (c : VClock α) : GCounter α := ⟨s.inner.resetRemove c⟩
/-- src/gcounter.rs:80-82 -/
def inc (s : GCounter α) (a : α) : Dot α := s.inner.inc a
/-- src/gcounter.rs:85-88 -/
def incMany (s : GCounter α) (a : α) (steps : Nat) : Dot α := ⟨a, steps + s.inner.get a⟩
/-- src/gcounter.rs:91-93 -/
def read (s : GCounter α) : Nat := (s.inner.iter.map (·.counter)).sum
end GCounter

/-! ## PNCounter (src/pncounter.rs) -/
inductive Dir where
  | pos | neg
deriving DecidableEq, Repr

structure PNOp (α : Type) where
  dot : Dot α
  dir : Dir
deriving DecidableEq

structure PNCounter (α : Type) [LinOrd α] where
  p : GCounter α
  n : GCounter α

namespace PNCounter
variable {α : Type} [LinOrd α]
instance : DecidableEq (PNCounter α) := fun a b =>
  if h : a.p = b.p ∧ a.n = b.n then isTrue (by cases a; cases b; simp at h; obtain ⟨h1, h2⟩ := h; subst h1; subst h2; rfl)
  else isFalse (fun e => h (by subst e; exact ⟨rfl, rfl⟩))
def init : PNCounter α := ⟨GCounter.init, GCounter.init⟩
/-- src/pncounter.rs:60-65 -/
def apply (s : PNCounter α) (op : PNOp α) : PNCounter α :=
  match op.dir with
  | .pos => { s with p := s.p.apply op.dot }
  | .neg => { s with n := s.n.apply op.dot }
/-- src/pncounter.rs:76-79 -/
def merge (s o : PNCounter α) : PNCounter α := ⟨s.p.merge o.p, s.n.merge o.n⟩
/-- src/pncounter.rs:83-86 -/
def resetRemove (s : PNCounter α) (c : VClock α) : PNCounter α := ⟨s.p.resetRemove c, s.n.resetRemove c⟩
def inc (s : PNCounter α) (a : α) : PNOp α := ⟨s.p.inc a, .pos⟩
def dec (s : PNCounter α) (a : α) : PNOp α := ⟨s.n.inc a, .neg⟩
def incMany (s : PNCounter α) (a : α) (k : Nat) : PNOp α := ⟨s.p.incMany a k, .pos⟩
def decMany (s : PNCounter α) (a : α) (k : Nat) : PNOp α := ⟨s.n.incMany a k, .neg⟩
/-- src/pncounter.rs:129-133 -/
def read (s : PNCounter α) : Int := (s.p.read : Int) - (s.n.read : Int)
end PNCounter

/-! ## GSet (src/gset.rs) -/
structure GSet (τ : Type) [LinOrd τ] where
  value : FSet τ

namespace GSet
variable {τ : Type} [LinOrd τ]
instance : DecidableEq (GSet τ) := fun a b =>
  if h : a.value = b.value then isTrue (by cases a; cases b; simp at h; subst h; rfl)
  else isFalse (fun e => h (by subst e; rfl))
def init : GSet τ := ⟨∅⟩
/-- src/gset.rs:81-83 -/
def insert (s : GSet τ) (x : τ) : GSet τ := ⟨s.value.insert x ()⟩
/-- src/gset.rs:52-54 -/
def apply (s : GSet τ) (x : τ) : GSet τ := s.insert x
/-- src/gset.rs:39-41 -/
def merge (s o : GSet τ) : GSet τ := o.value.l.foldl (fun acc p => acc.insert p.1) s
def contains (s : GSet τ) (x : τ) : Bool := s.value.contains x
def read (s : GSet τ) : List τ := s.value.l.map (·.1)
end GSet

/-! ## LWWReg (src/lwwreg.rs) -/
structure LWWReg (ν μ : Type) where
  val : ν
  marker : μ
deriving DecidableEq

inductive LWWValidation where
  | conflictingMarker
deriving DecidableEq

namespace LWWReg
variable {ν μ : Type} [DecidableEq ν] [LinOrd μ]
/-- src/lwwreg.rs:97-102 -/
def update (s : LWWReg ν μ) (val : ν) (marker : μ) : LWWReg ν μ :=
  if s.marker < marker then ⟨val, marker⟩ else s
/-- src/lwwreg.rs:108-114 -/
def validateUpdate (s : LWWReg ν μ) (val : ν) (marker : μ) : Except LWWValidation Unit :=
  if s.marker = marker ∧ val ≠ s.val then .error .conflictingMarker else .ok ()
/-- src/lwwreg.rs:67-69 -/
def merge (s o : LWWReg ν μ) : LWWReg ν μ := s.update o.val o.marker
/-- src/lwwreg.rs:83-85 (the op is a whole register) -/
def apply (s : LWWReg ν μ) (op : LWWReg ν μ) : LWWReg ν μ := s.merge op
def validateOp (s op : LWWReg ν μ) : Except LWWValidation Unit := s.validateUpdate op.val op.marker
def validateMerge (s o : LWWReg ν μ) : Except LWWValidation Unit := s.validateUpdate o.val o.marker
end LWWReg

/-! ## MaxReg / MinReg (src/maxreg.rs, src/minreg.rs) -/
structure MaxReg (ν : Type) where
  val : ν
deriving DecidableEq

namespace MaxReg
variable {ν : Type} [LinOrd ν]
/-- src/maxreg.rs:66-70 -/
def update (s : MaxReg ν) (v : ν) : MaxReg ν := if s.val < v then ⟨v⟩ else s
def apply (s : MaxReg ν) (v : ν) : MaxReg ν := s.update v
def merge (s o : MaxReg ν) : MaxReg ν := s.update o.val
def read (s : MaxReg ν) : ν := s.val
end MaxReg

structure MinReg (ν : Type) where
  val : ν
deriving DecidableEq

namespace MinReg
variable {ν : Type} [LinOrd ν]
/-- src/minreg.rs:66-70 -/
def update (s : MinReg ν) (v : ν) : MinReg ν := if v < s.val then ⟨v⟩ else s
def apply (s : MinReg ν) (v : ν) : MinReg ν := s.update v
def merge (s o : MinReg ν) : MinReg ν := s.update o.val
def read (s : MinReg ν) : ν := s.val
end MinReg

end Crdt
