import CrdtModel.Model.Json
import CrdtModel.Model.Lattice
import CrdtModel.Model.MVReg
import CrdtModel.Model.Map
import CrdtModel.Model.GList
import CrdtModel.Model.List
import CrdtModel.Model.MerkleReg
/-!
Model of the serde representation of every state and op type of the crate (`#[derive(Serialize, Deserialize)]` in
/repo/src, format = serde_json).  Core Lean only.

A `Codec τ` is the pair `enc : τ → Except String Json` (model of `serde_json::to_value`/`to_string`; the only error
serde_json can raise on the crate's types is `key must be a string`, for a map whose keys are not strings/integers:
the `deferred` tables `HashMap<VClock<A>, _>` of `Orswot` and `Map`) and `dec : Json → Option τ` (model of the derived
`Deserialize` applied to the tree; `none` = a deserialisation error).  Codecs compose exactly like serde impls do:

* `serde(transparent)` newtypes (`VClock`, `GCounter`, `GSet`, `MVReg`, `Identifier`, `GList`) = `Codec.map`;
* structs = objects whose fields are written in declaration order and read back BY NAME (any order);
* externally tagged enum variants `{"Add":{"dot":…,"members":[…]}}`, unit variants as strings (`"Pos"`);
* tuples and `Vec` = arrays; `BTreeMap<u64,_>`/`HashMap<u64,_>` = objects whose keys are the DECIMAL STRINGS of the
  integers (`{"1":2}`), read back by inserting the entries one by one (a later duplicate wins, as `FromIterator` does);
* `#[serde(with = "serde_helper::btreemap_as_vec")]` (src/serde_helper.rs) = array of `[key, value]` pairs, collected
  back into a map; `BTreeSet` = array, collected back into a set;
* `BigRational` = `[numer, denom]`, `BigInt` = `[sign, [u32 digits, little endian]]` (num-bigint's serde impl).

`HashMap` iteration order is not modelled: maps are printed in key order (the harness canonicalises the real text).
-/
namespace Crdt
open LinOrd

/-- the error text of serde_json's `MapKeySerializer` for a key that is not a string or an integer -/
def keyMustBeString : String := "key must be a string"

structure Codec (τ : Type) where
  enc : τ → Except String Json
  dec : Json → Option τ

/-- how a type is written when it is a MAP KEY (serde_json turns integer keys into strings) -/
structure KeyCodec (κ : Type) where
  toKey : κ → String
  ofKey : String → Option κ

/-- a type used both as a value and as a map key (actors, set members, map keys: `u64` in the driver) -/
structure Scalar (τ : Type) where
  val : Codec τ
  key : KeyCodec τ

/-- `BTreeMap`/`HashMap`/`BTreeSet` `FromIterator`: insert one by one, a later entry with the same key replaces the earlier -/
def FMap.ofList {κ ν : Type} [LinOrd κ] (l : List (κ × ν)) : FMap κ ν := l.foldl (fun m p => m.insert p.1 p.2) ∅

/-- the elements of a set in iteration order -/
def FSet.elems {κ : Type} [LinOrd κ] (s : FSet κ) : List κ := s.l.map (·.1)
def FSet.ofElems {κ : Type} [LinOrd κ] (l : List κ) : FSet κ := FMap.ofList (l.map (fun k => (k, ())))

namespace Codec
variable {τ σ α β κ ν : Type}

/-- serialise the elements of a sequence in order; the first error aborts -/
def encAll (f : τ → Except String Json) : List τ → Except String (List Json)
  | [] => .ok []
  | x :: t => do let j ← f x; let js ← encAll f t; pure (j :: js)

def decAll (g : Json → Option τ) : List Json → Option (List τ)
  | [] => some []
  | j :: t => do let x ← g j; let xs ← decAll g t; pure (x :: xs)

/-- map entries with keys turned into strings -/
def encFields (k : KeyCodec κ) (c : Codec ν) : List (κ × ν) → Except String (List (String × Json))
  | [] => .ok []
  | (a, v) :: t => do let j ← c.enc v; let js ← encFields k c t; pure ((k.toKey a, j) :: js)

def decFields (k : KeyCodec κ) (c : Codec ν) : List (String × Json) → Option (List (κ × ν))
  | [] => some []
  | (s, j) :: t => do let a ← k.ofKey s; let v ← c.dec j; let xs ← decFields k c t; pure ((a, v) :: xs)

/-- `u64` / `u32` / `u8` -/
def nat : Codec Nat := ⟨fun n => .ok (.num n), Json.nat?⟩

/-- `serde(transparent)` newtype / conversion on the way in and out -/
def map (f : τ → σ) (g : σ → τ) (c : Codec τ) : Codec σ := ⟨fun s => c.enc (g s), fun j => (c.dec j).map f⟩

/-- `Vec<T>` -/
def list (c : Codec τ) : Codec (List τ) :=
  ⟨fun l => do let js ← encAll c.enc l; pure (.arr js), fun j => j.arr?.bind (decAll c.dec)⟩

/-- 2-tuple = 2-element array -/
def pair (a : Codec α) (b : Codec β) : Codec (α × β) :=
  ⟨fun p => do let x ← a.enc p.1; let y ← b.enc p.2; pure (.arr [x, y]),
   fun j => match j with
     | .arr [x, y] => do let u ← a.dec x; let v ← b.dec y; pure (u, v)
     | _ => none⟩

/-- `BTreeMap<K,V>` / `HashMap<K,V>` with integer-like keys: a JSON object -/
def fmapObj [LinOrd κ] (k : KeyCodec κ) (c : Codec ν) : Codec (FMap κ ν) :=
  ⟨fun m => do let fs ← encFields k c m.l; pure (.obj fs),
   fun j => j.obj?.bind (fun l => (decFields k c l).map FMap.ofList)⟩

/-- `#[serde(with = "serde_helper::btreemap_as_vec")]` (src/serde_helper.rs:6-29): `Vec<(K, V)>`, collected back -/
def fmapVec [LinOrd κ] (a : Codec κ) (c : Codec ν) : Codec (FMap κ ν) := map FMap.ofList (·.l) (list (pair a c))

/-- `BTreeSet<T>`: array of the elements in order, collected back -/
def fset [LinOrd κ] (a : Codec κ) : Codec (FSet κ) := map FSet.ofElems FSet.elems (list a)

end Codec

/-- `u64` as a map key: decimal string -/
def KeyCodec.nat : KeyCodec Nat := ⟨toString, String.toNat?⟩
def Scalar.nat : Scalar Nat := ⟨Codec.nat, KeyCodec.nat⟩

/-! ## dot.rs, vclock.rs -/
section
variable {α : Type}

/-- src/dot.rs:8-15 `Dot { actor, counter }` -/
def dotCodec (a : Codec α) : Codec (Dot α) :=
  ⟨fun d => do let x ← a.enc d.actor; pure (.obj [("actor", x), ("counter", .num d.counter)]),
   fun j => do
     let x ← (j.field? "actor").bind a.dec
     let n ← (j.field? "counter").bind Json.nat?
     pure ⟨x, n⟩⟩

/-- src/dot.rs:100-106 `OrdDot { actor, counter }` (modelled as the pair) -/
def ordDotCodec (a : Codec α) : Codec (OrdDot α) :=
  ⟨fun d => do let x ← a.enc d.1; pure (.obj [("actor", x), ("counter", .num d.2)]),
   fun j => do
     let x ← (j.field? "actor").bind a.dec
     let n ← (j.field? "counter").bind Json.nat?
     pure (x, n)⟩

variable [LinOrd α]

/-- src/vclock.rs:34-39 `#[serde(transparent)] VClock { dots: BTreeMap<A, u64> }` -/
def clockCodec (k : KeyCodec α) : Codec (VClock α) := Codec.map VClock.mk (·.dots) (Codec.fmapObj k Codec.nat)

/-! ## gcounter.rs, pncounter.rs, gset.rs, lwwreg.rs, maxreg.rs, minreg.rs -/

/-- src/gcounter.rs:27-31 `#[serde(transparent)]` -/
def gcounterCodec (k : KeyCodec α) : Codec (GCounter α) := Codec.map GCounter.mk (·.inner) (clockCodec k)

/-- src/pncounter.rs:28-33 `PNCounter { p, n }` -/
def pncounterCodec (k : KeyCodec α) : Codec (PNCounter α) :=
  ⟨fun s => do
     let p ← (gcounterCodec k).enc s.p
     let n ← (gcounterCodec k).enc s.n
     pure (.obj [("p", p), ("n", n)]),
   fun j => do
     let p ← (j.field? "p").bind (gcounterCodec k).dec
     let n ← (j.field? "n").bind (gcounterCodec k).dec
     pure ⟨p, n⟩⟩
end

/-- src/pncounter.rs:35-42 `Dir::{Pos, Neg}`: unit variants are strings -/
def dirCodec : Codec Dir :=
  ⟨fun d => .ok (.str (match d with | .pos => "Pos" | .neg => "Neg")),
   fun j => match j with
     | .str s => if s = "Pos" then some .pos else if s = "Neg" then some .neg else none
     | _ => none⟩

/-- src/pncounter.rs:45-52 `Op { dot, dir }` -/
def pnOpCodec {α : Type} (a : Codec α) : Codec (PNOp α) :=
  ⟨fun o => do
     let d ← (dotCodec a).enc o.dot
     let r ← dirCodec.enc o.dir
     pure (.obj [("dot", d), ("dir", r)]),
   fun j => do
     let d ← (j.field? "dot").bind (dotCodec a).dec
     let r ← (j.field? "dir").bind dirCodec.dec
     pure ⟨d, r⟩⟩

/-- src/gset.rs:9-13 `#[serde(transparent)] GSet { value: BTreeSet<T> }` -/
def gsetCodec {τ : Type} [LinOrd τ] (m : Codec τ) : Codec (GSet τ) := Codec.map GSet.mk (·.value) (Codec.fset m)

/-- src/lwwreg.rs:14-22 `LWWReg { val, marker }` -/
def lwwCodec {ν μ : Type} (v : Codec ν) (m : Codec μ) : Codec (LWWReg ν μ) :=
  ⟨fun s => do
     let x ← v.enc s.val
     let y ← m.enc s.marker
     pure (.obj [("val", x), ("marker", y)]),
   fun j => do
     let x ← (j.field? "val").bind v.dec
     let y ← (j.field? "marker").bind m.dec
     pure ⟨x, y⟩⟩

/-- src/maxreg.rs:24-29 `MaxReg { val }` -/
def maxregCodec {ν : Type} (v : Codec ν) : Codec (MaxReg ν) :=
  ⟨fun s => do let x ← v.enc s.val; pure (.obj [("val", x)]),
   fun j => do let x ← (j.field? "val").bind v.dec; pure ⟨x⟩⟩

/-- src/minreg.rs:24-29 `MinReg { val }` -/
def minregCodec {ν : Type} (v : Codec ν) : Codec (MinReg ν) :=
  ⟨fun s => do let x ← v.enc s.val; pure (.obj [("val", x)]),
   fun j => do let x ← (j.field? "val").bind v.dec; pure ⟨x⟩⟩

/-! ## mvreg.rs -/
section
variable {ν α : Type} [LinOrd α]

/-- src/mvreg.rs:32-36 `#[serde(transparent)] MVReg { vals: Vec<(VClock<A>, V)> }` -/
def mvregCodec (k : KeyCodec α) (v : Codec ν) : Codec (MVReg ν α) :=
  Codec.map MVReg.mk (·.vals) (Codec.list (Codec.pair (clockCodec k) v))

/-- src/mvreg.rs:39-48 `Op::Put { clock, val }` -/
def mvOpCodec (k : KeyCodec α) (v : Codec ν) : Codec (MVOp ν α) :=
  ⟨fun o => do
     let c ← (clockCodec k).enc o.clock
     let x ← v.enc o.val
     pure (.obj [("Put", .obj [("clock", c), ("val", x)])]),
   fun j => match j.variant? with
     | some (tag, b) =>
       if tag = "Put" then do
         let c ← (b.field? "clock").bind (clockCodec k).dec
         let x ← (b.field? "val").bind v.dec
         pure ⟨c, x⟩
       else none
     | none => none⟩
end

/-! ## orswot.rs, map.rs -/
section
variable {M K V VOp A : Type} [LinOrd M] [LinOrd K] [LinOrd A]

/-- the `deferred` tables `HashMap<VClock<A>, HashSet<M>>` (src/orswot.rs:23) / `HashMap<VClock<A>, BTreeSet<K>>`
(src/map.rs:38): serde_json cannot write a map keyed by clocks – the first entry fails with `key must be a string`;
the empty table is `{}`.  Reading back: only `{}` can be a table (a string key is not a clock). -/
def deferredCodec : Codec (FMap (VClock A) (FSet M)) :=
  ⟨fun d => if d.isEmpty then .ok (.obj []) else .error keyMustBeString,
   fun j => match j with
     | .obj [] => some ∅
     | _ => none⟩

/-- src/orswot.rs:15-24 `Orswot { clock, entries, deferred }` -/
def orswotCodec (m : Scalar M) (a : Scalar A) : Codec (Orswot M A) :=
  ⟨fun s => do
     let c ← (clockCodec a.key).enc s.clock
     let e ← (Codec.fmapObj m.key (clockCodec a.key)).enc s.entries
     let d ← deferredCodec.enc s.deferred
     pure (.obj [("clock", c), ("entries", e), ("deferred", d)]),
   fun j => do
     let c ← (j.field? "clock").bind (clockCodec a.key).dec
     let e ← (j.field? "entries").bind (Codec.fmapObj m.key (clockCodec a.key)).dec
     let d ← (j.field? "deferred").bind deferredCodec.dec
     pure ⟨c, e, d⟩⟩

/-- src/orswot.rs:26-41 `Op::Add { dot, members }` / `Op::Rm { clock, members }` -/
def orswotOpCodec (m : Scalar M) (a : Scalar A) : Codec (OrswotOp M A) :=
  ⟨fun o => match o with
     | .add d ms => do
       let x ← (dotCodec a.val).enc d
       let y ← (Codec.list m.val).enc ms
       pure (.obj [("Add", .obj [("dot", x), ("members", y)])])
     | .rm c ms => do
       let x ← (clockCodec a.key).enc c
       let y ← (Codec.list m.val).enc ms
       pure (.obj [("Rm", .obj [("clock", x), ("members", y)])]),
   fun j => match j.variant? with
     | some (tag, b) =>
       if tag = "Add" then do
         let d ← (b.field? "dot").bind (dotCodec a.val).dec
         let ms ← (b.field? "members").bind (Codec.list m.val).dec
         pure (.add d ms)
       else if tag = "Rm" then do
         let c ← (b.field? "clock").bind (clockCodec a.key).dec
         let ms ← (b.field? "members").bind (Codec.list m.val).dec
         pure (.rm c ms)
       else none
     | none => none⟩

/-- src/map.rs:41-49 `Entry { clock, val }` -/
def mapEntryCodec (a : Scalar A) (v : Codec V) : Codec (MapEntry V A) :=
  ⟨fun e => do
     let c ← (clockCodec a.key).enc e.clock
     let x ← v.enc e.val
     pure (.obj [("clock", c), ("val", x)]),
   fun j => do
     let c ← (j.field? "clock").bind (clockCodec a.key).dec
     let x ← (j.field? "val").bind v.dec
     pure ⟨c, x⟩⟩

/-- src/map.rs:32-39 `Map { clock, entries, deferred }` -/
def mapCodec (k : Scalar K) (a : Scalar A) (v : Codec V) : Codec (CMap K V A) :=
  ⟨fun s => do
     let c ← (clockCodec a.key).enc s.clock
     let e ← (Codec.fmapObj k.key (mapEntryCodec a v)).enc s.entries
     let d ← deferredCodec.enc s.deferred
     pure (.obj [("clock", c), ("entries", e), ("deferred", d)]),
   fun j => do
     let c ← (j.field? "clock").bind (clockCodec a.key).dec
     let e ← (j.field? "entries").bind (Codec.fmapObj k.key (mapEntryCodec a v)).dec
     let d ← (j.field? "deferred").bind deferredCodec.dec
     pure ⟨c, e, d⟩⟩

/-- the `keyset: BTreeSet<K>` of `Op::Rm` is held by the model as the list of its elements in set order:
written as that list, read back by collecting into a set -/
def keysetCodec (k : Codec K) : Codec (List K) :=
  ⟨(Codec.list k).enc, fun j => ((Codec.fset k).dec j).map FSet.elems⟩

/-- src/map.rs:51-64 `Op::Rm { clock, keyset }` / `Op::Up { dot, key, op }` -/
def mapOpCodec (k : Scalar K) (a : Scalar A) (o : Codec VOp) : Codec (MapOp K VOp A) :=
  ⟨fun op => match op with
     | .rm c ks => do
       let x ← (clockCodec a.key).enc c
       let y ← (keysetCodec k.val).enc ks
       pure (.obj [("Rm", .obj [("clock", x), ("keyset", y)])])
     | .up d key vop => do
       let x ← (dotCodec a.val).enc d
       let y ← k.val.enc key
       let z ← o.enc vop
       pure (.obj [("Up", .obj [("dot", x), ("key", y), ("op", z)])]),
   fun j => match j.variant? with
     | some (tag, b) =>
       if tag = "Rm" then do
         let c ← (b.field? "clock").bind (clockCodec a.key).dec
         let ks ← (b.field? "keyset").bind (keysetCodec k.val).dec
         pure (.rm c ks)
       else if tag = "Up" then do
         let d ← (b.field? "dot").bind (dotCodec a.val).dec
         let key ← (b.field? "key").bind k.val.dec
         let vop ← (b.field? "op").bind o.dec
         pure (.up d key vop)
       else none
     | none => none⟩
end

/-! ## identifier.rs (`BigRational`), glist.rs, list.rs -/

/-- the digits of num-bigint are `u32` -/
def base32 : Nat := 4294967296

/-- magnitude as `u32` digits, least significant first, no trailing zero digit (zero = no digit) -/
def digits32 (n : Nat) : List Nat :=
  if n = 0 then [] else n % base32 :: digits32 (n / base32)
termination_by n
decreasing_by exact Nat.div_lt_self (Nat.pos_of_ne_zero (by assumption)) (by decide)

def ofDigits32 : List Nat → Nat
  | [] => 0
  | d :: t => d + base32 * ofDigits32 t

/-- num-bigint `impl Serialize for BigInt`: the tuple `(sign, magnitude)`, `Sign` as `-1 | 0 | 1`, `BigUint` as the
sequence of its `u32` digits.  Reading back (`BigInt::from_biguint(sign, data)`): the value is `sign * magnitude`. -/
def bigIntCodec : Codec Int :=
  ⟨fun z => .ok (.arr [.num z.sign, .arr ((digits32 z.natAbs).map (fun (d : Nat) => Json.num d))]),
   fun j => match j with
     | .arr [.num s, .arr ds] =>
       if s = -1 ∨ s = 0 ∨ s = 1 then
         (Codec.decAll Json.nat? ds).bind (fun ds => if ds.all (· < base32) then some (s * (ofDigits32 ds : Int)) else none)
       else none
     | _ => none⟩

/-- num-rational `impl Serialize for Ratio<T>`: the tuple `(numer, denom)`; `Deserialize` rejects a zero denominator
and keeps the pair as it is (`new_raw`) – the model's `Rat` is the VALUE of that pair. -/
def ratCodec : Codec Rat :=
  ⟨fun r => do
     let n ← bigIntCodec.enc r.num
     let d ← bigIntCodec.enc r.den
     pure (.arr [n, d]),
   fun j => match j with
     | .arr [n, d] => do
       let a ← bigIntCodec.dec n
       let b ← bigIntCodec.dec d
       if b = 0 then none else pure (Rat.divInt a b)
     | _ => none⟩

section
variable {τ α : Type}

/-- src/identifier.rs:28-30 `#[serde(transparent)] Identifier(Vec<(BigRational, T)>)` -/
def identCodec (m : Codec τ) : Codec (Identifier τ) := Codec.map Identifier.mk (·.path) (Codec.list (Codec.pair ratCodec m))

/-- src/glist.rs:27-32 `#[serde(transparent)] GList { list: BTreeSet<Identifier<T>> }` -/
def glistCodec [LinOrd τ] (m : Codec τ) : Codec (GList τ) := Codec.map GList.mk (·.list) (Codec.fset (identCodec m))

/-- src/glist.rs:14-20 `Op::Insert { id }` -/
def glistOpCodec (m : Codec τ) : Codec (GListOp τ) :=
  ⟨fun o => do let i ← (identCodec m).enc o.id; pure (.obj [("Insert", .obj [("id", i)])]),
   fun j => match j.variant? with
     | some (tag, b) =>
       if tag = "Insert" then do let i ← (b.field? "id").bind (identCodec m).dec; pure (.insert i) else none
     | none => none⟩

variable [LinOrd α]

/-- src/list.rs:59-64 `List { #[serde(with = btreemap_as_vec)] seq, clock }` -/
def listCodec (a : Scalar α) (v : Codec τ) : Codec (ListCrdt τ α) :=
  ⟨fun s => do
     let q ← (Codec.fmapVec (identCodec (ordDotCodec a.val)) v).enc s.seq
     let c ← (clockCodec a.key).enc s.clock
     pure (.obj [("seq", q), ("clock", c)]),
   fun j => do
     let q ← (j.field? "seq").bind (Codec.fmapVec (identCodec (ordDotCodec a.val)) v).dec
     let c ← (j.field? "clock").bind (clockCodec a.key).dec
     pure ⟨q, c⟩⟩

/-- src/list.rs:67-84 `Op::Insert { id, val }` / `Op::Delete { id, dot }` -/
def listOpCodec (a : Scalar α) (v : Codec τ) : Codec (ListOp τ α) :=
  ⟨fun o => match o with
     | .insert i x => do
       let p ← (identCodec (ordDotCodec a.val)).enc i
       let q ← v.enc x
       pure (.obj [("Insert", .obj [("id", p), ("val", q)])])
     | .delete i d => do
       let p ← (identCodec (ordDotCodec a.val)).enc i
       let q ← (dotCodec a.val).enc d
       pure (.obj [("Delete", .obj [("id", p), ("dot", q)])]),
   fun j => match j.variant? with
     | some (tag, b) =>
       if tag = "Insert" then do
         let i ← (b.field? "id").bind (identCodec (ordDotCodec a.val)).dec
         let x ← (b.field? "val").bind v.dec
         pure (.insert i x)
       else if tag = "Delete" then do
         let i ← (b.field? "id").bind (identCodec (ordDotCodec a.val)).dec
         let d ← (b.field? "dot").bind (dotCodec a.val).dec
         pure (.delete i d)
       else none
     | none => none⟩
end

/-! ## merkle_reg.rs (hashes abstract: the codec of `Hash = [u8; 32]` is a parameter) -/
section
variable {H τ : Type} [LinOrd H]

/-- src/merkle_reg.rs:15-21 `Node { children: BTreeSet<Hash>, value }` -/
def nodeCodec (h : Codec H) (v : Codec τ) : Codec (Node H τ) :=
  ⟨fun n => do
     let c ← (Codec.fset h).enc n.children
     let x ← v.enc n.value
     pure (.obj [("children", c), ("value", x)]),
   fun j => do
     let c ← (j.field? "children").bind (Codec.fset h).dec
     let x ← (j.field? "value").bind v.dec
     pure ⟨c, x⟩⟩

/-- src/merkle_reg.rs:78-85 `MerkleReg { roots, #[serde(with = btreemap_as_vec)] dag, #[serde(with = …)] orphans }` -/
def merkleCodec (h : Codec H) (v : Codec τ) : Codec (MerkleReg H τ) :=
  ⟨fun s => do
     let r ← (Codec.fset h).enc s.roots
     let d ← (Codec.fmapVec h (nodeCodec h v)).enc s.dag
     let o ← (Codec.fmapVec h (nodeCodec h v)).enc s.orphans
     pure (.obj [("roots", r), ("dag", d), ("orphans", o)]),
   fun j => do
     let r ← (j.field? "roots").bind (Codec.fset h).dec
     let d ← (j.field? "dag").bind (Codec.fmapVec h (nodeCodec h v)).dec
     let o ← (j.field? "orphans").bind (Codec.fmapVec h (nodeCodec h v)).dec
     pure ⟨r, d, o⟩⟩
end

/-! ## the instantiations used by the driver (`u64` actors, members, keys, values) -/
abbrev encodeVClock := (clockCodec KeyCodec.nat).enc
abbrev decodeVClock := (clockCodec KeyCodec.nat).dec
abbrev encodeOrswot := (orswotCodec Scalar.nat Scalar.nat).enc
abbrev decodeOrswot := (orswotCodec Scalar.nat Scalar.nat).dec

end Crdt
