import CrdtModel.Proofs.IterOrder
import CrdtModel.Witness.ResetRemoveCollision
set_option linter.unusedSectionVars false
/-!
# The model's results do not depend on hash-map ITERATION ORDER

In Rust `Orswot.entries : HashMap<M, VClock>`, `Orswot.deferred : HashMap<VClock, HashSet<M>>` and
`Map.deferred : HashMap<VClock, BTreeSet<K>>` are hash containers whose iteration order is unspecified (randomised).
The model stores them as sorted association lists and iterates in key order.  Here every loop over such a container is
re-stated with the iterated sequence as an ARGUMENT (`applyRmO`, `applyDeferredO`, `applyO`, `mergeO`, `resetRemoveO`,
`CMap.…O`; same loop bodies, only `x.l` replaced by an arbitrary list), and it is proved that for EVERY permutation of
the container's content – independently chosen for every single iteration, nested ones included – the result is the
model function's result.  So "the Rust result does not depend on the order in which a `HashMap`/`HashSet` happens to
be iterated" is a theorem about the loop bodies, not an assumption.

Method (`Proofs/IterOrder.lean`): `foldl_perm_of_comm` (a left fold whose steps pairwise commute is invariant under
permutation – induction on `List.Perm`), and commutation of the loop bodies: every body that touches one key of a table
is an `alter` at that key (`alter_comm`: different keys, or commuting updates); `rmMember_comm` (two subtractions from a
member clock commute, `resetRemove_comm_raw` – ALL clocks, stored zeros included; emptied entries are erased in both
orders), `deferInsert_comm` (unions), `applyRm_comm`, `mergeStep_comm` (different members), `addStep_comm`.

No well-formedness hypothesis is needed anywhere for `Orswot`: all statements are for ALL states.  For `Map` the value
type's `reset_remove`s must commute (`RRComm`, necessary: `map_needs_rrComm`); it holds for `MVReg`, `Orswot` and nested
`Map` values in all states (`rrComm_instances`).

End results: `orswot_apply_order_free`, `orswot_merge_order_free`, `orswot_resetRemove_order_free`,
`map_apply_order_free`, `map_merge_order_free`, `map_resetRemove_order_free` (+ `orswot_applyRm_order_free`,
`orswot_applyDeferred_order_free`, `map_applyDeferred_order_free`, `orswot_validateMerge_verdict_order_free`).

Order-dependence that remains, and why it is harmless / out of scope:
* the PAYLOAD of `Validation::DoubleSpentDot` returned by `Orswot::validate_merge` is the first hit in `HashMap` order
  (`validateMerge_payload_order_dependent`); only the verdict is order-free (`orswot_validateMerge_verdict_order_free`).
  Nothing in the crate inspects the payload; the correspondence harness compares the kind only.
* read-side iterators (`Orswot::iter`, `read().val : HashSet`) hand out the members in hash order: their result is a
  set/multiset, the model's sorted list is its canonical representative; no state depends on it.
* `Map.entries : BTreeMap`, key sets `BTreeSet`, `VClock.dots : BTreeMap`, `MVReg.vals : Vec`, op member lists `Vec`:
  ordered containers, iteration order is part of the semantics and modelled as is (for `Orswot` `Add` the member vector
  is nevertheless shown permutable, and `HashSet::from_iter(vec)` order-free: `setOfList_perm`).
* the pre-fix `reset_remove` (`collect()`, last one wins) WAS order-dependent: `old_resetRemove_order_dependent`.
-/
namespace Crdt.IterOrder
open Crdt LinOrd Orswot

/-! ## Orswot -/
section orswot
variable {M A : Type} [LinOrd M] [LinOrd A]

/-- the generic lemma, for the record -/
theorem fold_order_free {α β : Type} {f : β → α → β} {l₁ l₂ : List α} (p : l₁.Perm l₂)
    (comm : ∀ x ∈ l₁, ∀ y ∈ l₁, ∀ b, f (f b x) y = f (f b y) x) (b : β) : l₁.foldl f b = l₂.foldl f b :=
  foldl_perm_of_comm p comm b

/-- **`apply_rm`** (src/orswot.rs:275-295): `for member in members.iter()` (:276) and `existing_deferred.extend(members)`
(:288) with the `HashSet` enumerated in any two orders -/
theorem orswot_applyRm_order_free (s : Orswot M A) (members : FSet M) (r : RmOrd M)
    (hloop : r.loop.Perm members.l) (hext : r.ext.Perm members.l) (c : VClock A) :
    applyRmO s members r c = applyRm s members c := applyRmO_eq s ⟨hloop, hext⟩ c

/-- two `apply_rm` commute – all states, all clocks, all member sets (the key fact behind the next theorems) -/
theorem orswot_applyRm_comm (s : Orswot M A) (ms1 ms2 : FSet M) (c1 c2 : VClock A) :
    applyRm (applyRm s ms1 c1) ms2 c2 = applyRm (applyRm s ms2 c2) ms1 c1 := applyRm_comm s ms1 ms2 c1 c2

/-- **`apply_deferred`** (src/orswot.rs:360-365): `for (clock, entries) in deferred.into_iter()` in any order of the
`HashMap`, each inner `apply_rm` with its own orders of the `HashSet` -/
theorem orswot_applyDeferred_order_free (s : Orswot M A) (sch : DSched M A)
    (houter : (sch.map (·.1)).Perm s.deferred.l) (hinner : ∀ p ∈ sch, p.2.loop.Perm p.1.2.l ∧ p.2.ext.Perm p.1.2.l) :
    applyDeferredO s sch = applyDeferred s := applyDeferredO_eq s ⟨houter, hinner⟩

/-- **`CmRDT::apply`** (src/orswot.rs:65-85).
* `Add`: `for member in members` (:73-76) over any permutation of the member vector; then `apply_deferred` (:79) with
  any schedule of `self.deferred` (outer `HashMap` order and, per pending remove, both inner `HashSet` orders);
* `Rm`: `apply_rm` (:82) with the collected `HashSet` enumerated in any two orders (the set itself does not depend on
  the order of the vector: `setOfList_perm`). -/
theorem orswot_apply_order_free (s : Orswot M A) (op : OrswotOp M A) (ord : ApplyOrd M A) (h : ord.Valid s op) :
    applyO s ord op = s.apply op := applyO_eq s op h

/-- **`CvRDT::merge`** (src/orswot.rs:132-199): with ANY enumeration of
* `self.entries` in the first loop `into_iter().filter_map(..).collect()` (:133-156; `mergeKeep` is a `filterMap`, i.e.
  order-free by construction – `collectO_eq` proves that the insert-one-by-one reading agrees for every order),
* `other.entries` in the second loop (:158-188; `mergeStep` for different members touch different keys of the
  accumulator and read only `self.clock`, `other.clock`),
* `other.deferred` in the third loop (:191-193), with any inner orders of each member `HashSet`,
* the `deferred` table of the intermediate state in the final `apply_deferred` (:197), with any inner orders,
the result is the model's `merge`. -/
theorem orswot_merge_order_free (s o : Orswot M A) (ord : MergeOrd M A)
    (hkeep : ord.keep.Perm s.entries.l) (hentries : ord.entries.Perm o.entries.l)
    (hdeferred : ord.deferred.Valid o.deferred) (hfinal : ord.final.Valid (mergeMid s o).deferred) :
    mergeO s o ord = s.merge o := mergeO_eq s o ⟨hkeep, hentries, hdeferred, hfinal⟩

/-- **`reset_remove`** (src/orswot.rs:202-229): with ANY enumeration of `self.entries` (`filter_map(..).collect()`,
:205-216) and of `self.deferred` (:221-227), and for each pending remove any order of `.extend(members)` (:224), the
result is the model's `resetRemove`.  (This is what fix c462df9 repaired, see `old_resetRemove_order_dependent`.) -/
theorem orswot_resetRemove_order_free (s : Orswot M A) (ord : RROrd M A)
    (hentries : ord.entries.Perm s.entries.l) (houter : (ord.deferred.map (·.1)).Perm s.deferred.l)
    (hinner : ∀ p ∈ ord.deferred, p.2.Perm p.1.2.l) (c : VClock A) :
    resetRemoveO s ord c = s.resetRemove c := resetRemoveO_eq s ⟨hentries, houter, hinner⟩ c

/-- the hypotheses are satisfiable: the model's own (key-order) schedule is one of the allowed ones -/
theorem orswot_orders_exist (s o : Orswot M A) :
    (DSched.sorted s.deferred).Valid s.deferred ∧
    (⟨s.entries.l, o.entries.l, DSched.sorted o.deferred, DSched.sorted (mergeMid s o).deferred⟩ : MergeOrd M A).Valid s o :=
  ⟨DSched.sorted_valid _, List.Perm.refl _, List.Perm.refl _, DSched.sorted_valid _, DSched.sorted_valid _⟩

end orswot

/-! ## Orswot `validate_merge`: only the verdict is order-free -/
section validate
variable {M A : Type} [LinOrd M] [LinOrd A]

/-- **`validate_merge`** (src/orswot.rs:114-130) iterates `self.entries` and `other.entries` (both `HashMap`s) and reports
the FIRST double-spent dot it meets: the verdict (`Ok` or not) is the same for all enumerations of the two tables … -/
theorem orswot_validateMerge_verdict_order_free (s o : Orswot M A) (ls lo : List (M × VClock A))
    (hs : ls.Perm s.entries.l) (ho : lo.Perm o.entries.l) :
    validateMergeO ls lo = .ok () ↔ s.validateMerge o = .ok () := by
  rw [validateMerge_eq]; exact validateMergeO_verdict hs ho

/-- … but the PAYLOAD of the error is not (which is why the model's `DoubleSpentDot` payload is excluded from the
comparison with the real crate: only the kind is compared).  Harmless: no function of the crate inspects it. -/
theorem validateMerge_payload_order_dependent :
    let c1 : VClock Nat := (∅ : VClock Nat).apply ⟨0, 1⟩
    let c2 : VClock Nat := (∅ : VClock Nat).apply ⟨0, 2⟩
    let ls : List (Nat × VClock Nat) := [(1, c1), (2, c2)]
    let lo : List (Nat × VClock Nat) := [(3, c1), (4, c2)]
    (vmHit ls lo).map (·.ourMember) = some 1 ∧ (vmHit ls.reverse lo).map (·.ourMember) = some 2 := by decide

end validate

/-! ## Map -/
section map
open CMap
variable {K V VOp A : Type} [LinOrd K] [LinOrd A]

/-- two `apply_keyset_rm` commute, over every value type whose `reset_remove`s commute -/
theorem map_applyKeysetRm_comm {ops : ValOps V VOp A} (H : RRComm ops) (s : CMap K V A) (ks1 ks2 : FSet K)
    (c1 c2 : VClock A) :
    applyKeysetRm ops (applyKeysetRm ops s ks1 c1) ks2 c2 = applyKeysetRm ops (applyKeysetRm ops s ks2 c2) ks1 c1 :=
  applyKeysetRm_comm H s ks1 ks2 c1 c2

/-- **`apply_deferred`** (src/map.rs:402-407): `for (clock, keys) in deferred` in any order of the `HashMap`
(the key sets are `BTreeSet`s and `entries` is a `BTreeMap`: their iteration order is fixed) -/
theorem map_applyDeferred_order_free {ops : ValOps V VOp A} (H : RRComm ops) (s : CMap K V A)
    (ld : List (VClock A × FSet K)) (h : ld.Perm s.deferred.l) :
    mapApplyDeferredO ops s ld = applyDeferred ops s := mapApplyDeferredO_eq H s h

/-- **`CmRDT::apply`** (src/map.rs:184-203): the only hash iteration is the `apply_deferred` of an `Up` (:200) -/
theorem map_apply_order_free {ops : ValOps V VOp A} (H : RRComm ops) (s : CMap K V A) (ld : List (VClock A × FSet K))
    (h : ld.Perm s.deferred.l) (op : MapOp K VOp A) : mapApplyO ops s ld op = CMap.apply ops s op :=
  mapApplyO_eq H s h op

/-- **`CvRDT::merge`** (src/map.rs:238-320): `for (rm_clock, keys) in other.deferred` (:312-314) in any order, then the
final `apply_deferred` (:318) with any enumeration of the intermediate state's `deferred` table.  The two loops over
`entries` (:239-309) iterate `BTreeMap`s. -/
theorem map_merge_order_free {ops : ValOps V VOp A} (H : RRComm ops) (s o : CMap K V A) (ld lf : List (VClock A × FSet K))
    (hd : ld.Perm o.deferred.l) (hf : lf.Perm (mapMergeMid ops s o).deferred.l) :
    mapMergeO ops s o ld lf = CMap.merge ops s o := mapMergeO_eq H s o hd hf

/-- **`reset_remove`** (src/map.rs:87-117): the rebuild of `deferred` (:105-113) in any order – no hypothesis on the
value type (values are not touched by that loop) -/
theorem map_resetRemove_order_free (ops : ValOps V VOp A) (s : CMap K V A) (ld : List (VClock A × FSet K))
    (h : ld.Perm s.deferred.l) (c : VClock A) : mapResetRemoveO ops s ld c = CMap.resetRemove ops s c :=
  mapResetRemoveO_eq ops s h c

/-- the hypothesis `RRComm` holds for `MVReg`, `Orswot` and (recursively) `Map` values – for ALL value states, no
well-formedness needed -/
theorem rrComm_instances {ν M : Type} [DecidableEq ν] [LinOrd M] :
    RRComm (MVReg.valOps : ValOps (MVReg ν A) (MVOp ν A) A) ∧
    RRComm (Orswot.valOps : ValOps (Orswot M A) (OrswotOp M A) A) ∧
    (∀ (ops : ValOps V VOp A) (toNat : A → Nat), RRComm ops → RRComm (CMap.valOps (K := K) ops toNat)) :=
  ⟨rrComm_mvreg, rrComm_orswot, fun _ toNat H => rrComm_map H toNat⟩

/-- `RRComm` cannot be dropped: a (contrived) value type whose `reset_remove`s do not commute makes `apply_deferred`
depend on the order in which two pending removes of the same key are met -/
theorem map_needs_rrComm :
    let ops : ValOps Nat Unit Nat :=
      { default := 0, apply := fun v _ => v, merge := fun v _ => v, resetRemove := fun v c => 2 * v + c.get 0,
        validateOp := fun _ _ => true, validateMerge := fun _ _ => true, eq := fun a b => some (decide (a = b)) }
    let c1 : VClock Nat := (∅ : VClock Nat).apply ⟨0, 1⟩
    let c2 : VClock Nat := (∅ : VClock Nat).apply ⟨0, 2⟩
    let ks : FSet Nat := Orswot.setOfList [7]
    let s : CMap Nat Nat Nat :=
      ⟨∅, (∅ : FMap Nat (MapEntry Nat Nat)).insert 7 ⟨(∅ : VClock Nat).apply ⟨0, 9⟩, 1⟩,
        ((∅ : FMap (VClock Nat) (FSet Nat)).insert c1 ks).insert c2 ks⟩
    (((mapApplyDeferredO ops s s.deferred.l).entries.get? 7).map (·.val) = some 8) ∧
    (((mapApplyDeferredO ops s s.deferred.l.reverse).entries.get? 7).map (·.val) = some 9) := by decide

end map

/-! ## the pre-fix `reset_remove` DID depend on the iteration order -/

/-- with the OLD code (`filter_map(..).collect()`: the last pair with a given key wins, before c462df9) the two
iteration orders of the same two-element `deferred` table give different results -/
theorem old_resetRemove_order_dependent :
    Witness.resetRemoveOld Witness.rrBefore Witness.ctx7 false ≠ Witness.resetRemoveOld Witness.rrBefore Witness.ctx7 true := by
  decide

/-- … while the current code, run on the reversed table (and with reversed `extend` orders), gives the model's result
(an instance of `orswot_resetRemove_order_free`, checked by evaluation) -/
example :
    resetRemoveO Witness.rrBefore
      ⟨Witness.rrBefore.entries.l.reverse, (Witness.rrBefore.deferred.l.map (fun p => (p, p.2.l.reverse))).reverse⟩
      Witness.ctx7 = Witness.rrBefore.resetRemove Witness.ctx7 := by decide

end Crdt.IterOrder
