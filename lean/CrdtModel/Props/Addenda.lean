import CrdtModel.Props.C02
import CrdtModel.Props.C05
import CrdtModel.Props.C06
import CrdtModel.Props.C09
import CrdtModel.Props.C10
import CrdtModel.Props.C11
import CrdtModel.Props.C12
import CrdtModel.Props.C16
import CrdtModel.Props.C17Map
import CrdtModel.Props.C19
import CrdtModel.Spec.MapKeys
set_option linter.unusedSectionVars false
/-!
# Addenda – statements an independent audit of the Props files found MISSING (none was vacuous or circular)

A sceptical second reader (fresh sub-agent, private copy, told to look for vacuity, circularity, weakened statements) compared every
Props file with the English properties.  Everything it found was a coverage gap; the ones that are provable are closed here, each in
the namespace of its property.  The ones that are NOT provable (the model – like the crate – violates them) became kernel-checked
witnesses in `Witness/NestedMore.lean`.
-/

/-! ## C02 / C03 / C09 for `Map`, key level (clock, entry clocks = which keys are present with which contexts, pending key removes) -/
namespace Crdt.C02
open Crdt CMap OrswotSpec
variable {K V VOp A : Type} [LinOrd K] [LinOrd A] {ops : ValOps V VOp A} {U La Lb Lc : List (MapOp K VOp A)} {a b c : CMap K V A}

theorem mem_keyLog_append {L L' : List (MapOp K VOp A)} (o : OrswotOp K A) :
    o ∈ keyLog (L ++ L') ↔ o ∈ keyLog L ∨ o ∈ keyLog L' := by
  simp [keyLog, List.map_append]

/-- merge of Maps is commutative at key level, for every value type, on all derivable states -/
theorem map_keys_merge_comm (wf : LogWF (keyLog U)) (ha : CMap.Reach ops U a La) (hb : CMap.Reach ops U b Lb) :
    (CMap.merge ops a b).keysView = (CMap.merge ops b a).keysView :=
  CMap.keys_converge wf (.merge ha hb) (.merge hb ha) (fun o => by rw [mem_keyLog_append, mem_keyLog_append]; exact Or.comm)

theorem map_keys_merge_assoc (wf : LogWF (keyLog U)) (ha : CMap.Reach ops U a La) (hb : CMap.Reach ops U b Lb)
    (hc : CMap.Reach ops U c Lc) :
    (CMap.merge ops (CMap.merge ops a b) c).keysView = (CMap.merge ops a (CMap.merge ops b c)).keysView :=
  CMap.keys_converge wf (.merge (.merge ha hb) hc) (.merge ha (.merge hb hc))
    (fun o => by simp only [mem_keyLog_append]; exact or_assoc)

theorem map_keys_merge_idem (wf : LogWF (keyLog U)) (ha : CMap.Reach ops U a La) :
    (CMap.merge ops a a).keysView = a.keysView :=
  CMap.keys_converge wf (.merge ha ha) ha (fun o => by simp only [mem_keyLog_append, or_self])
end Crdt.C02

namespace Crdt.C03
open Crdt CMap OrswotSpec
variable {K V VOp A : Type} [LinOrd K] [LinOrd A] {ops : ValOps V VOp A} {U La Lb Lt : List (MapOp K VOp A)} {a b t : CMap K V A}

/-- merging two Maps gives, at key level, the state of ANY replica that learned the union of their updates (by ops, merges, or both) -/
theorem map_keys_merge_is_union (wf : LogWF (keyLog U)) (ha : CMap.Reach ops U a La) (hb : CMap.Reach ops U b Lb)
    (ht : CMap.Reach ops U t Lt) (e : ∀ o, o ∈ keyLog Lt ↔ (o ∈ keyLog La ∨ o ∈ keyLog Lb)) :
    (CMap.merge ops a b).keysView = t.keysView :=
  CMap.keys_converge wf (.merge ha hb) ht (fun o => by rw [C02.mem_keyLog_append]; exact (e o).symm)
end Crdt.C03

namespace Crdt.C09
open Crdt CMap OrswotSpec
variable {K V VOp A : Type} [LinOrd K] [LinOrd A] {ops : ValOps V VOp A} {U La Lb : List (MapOp K VOp A)} {a b : CMap K V A}

/-- a stale Map state (old snapshot, own past, lagging peer) is absorbed at key level -/
theorem map_keys_stale_noop (wf : LogWF (keyLog U)) (ha : CMap.Reach ops U a La) (hb : CMap.Reach ops U b Lb)
    (sub : ∀ o, o ∈ Lb → o ∈ La) : (CMap.merge ops a b).keysView = a.keysView :=
  CMap.keys_converge wf (.merge ha hb) ha (fun o => by
    rw [C02.mem_keyLog_append]
    constructor
    · rintro (h | h)
      · exact h
      · obtain ⟨x, hx, rfl⟩ := List.mem_map.mp h; exact List.mem_map_of_mem (sub x hx)
    · exact Or.inl)

/-- a re-delivered Map op changes nothing at key level -/
theorem map_keys_dup_noop (wf : LogWF (keyLog U)) (ha : CMap.Reach ops U a La) {op : MapOp K VOp A} (hu : op ∈ U) (hk : op ∈ La)
    (ok : OrswotSpec.Ok (keyLog U) (keyLog La) (keyOp op)) : (CMap.apply ops a op).keysView = a.keysView :=
  CMap.keys_converge wf (.apply ha hu ok) ha (fun o => by
    simp only [keyLog, List.map_cons, List.mem_cons]
    constructor
    · rintro (e | e)
      · rw [e]; exact List.mem_map_of_mem hk
      · exact e
    · exact Or.inr)
end Crdt.C09

/-! ## C05: `keys()` lists EXACTLY the present keys (completeness; soundness is `C05.keys_entry`) -/
namespace Crdt.C05
open Crdt CMap
variable {K V A : Type} [LinOrd K] [LinOrd A] {s : CMap K V A}
theorem keys_complete (k : K) (h : (s.get k).val.isSome = true) : ∃ r ∈ s.keys, r.val = k := by
  simp only [CMap.get, Option.isSome_map] at h
  obtain ⟨en, hen⟩ := Option.isSome_iff_exists.mp h
  exact ⟨⟨s.clock, en.clock, k⟩, by
    simp only [CMap.keys, List.mem_map]
    exact ⟨(k, en), AL.mem_of_get? hen, rfl⟩, rfl⟩
end Crdt.C05

/-! ## C10: `Less` is exact on ALL clocks (no `NoZero` needed) -/
namespace Crdt.C10
open Crdt VClock
variable {α : Type} [LinOrd α]
theorem cmp_less_iff_all (a b : VClock α) : a.partialCmp b = some .lt ↔ a.le b ∧ ¬ b.le a := by
  rcases partialCmp_cases a b with ⟨h, e⟩ | ⟨h, ne, l⟩ | ⟨h, ne, n, l⟩ | ⟨h, ne, n, l⟩ <;> rw [h]
  · subst e; simp [VClock.le_refl]
  · simp [l]
  · simp [n, l]
  · simp [l]
end Crdt.C10

/-! ## C17: the WHOLE verdict of `Map::validate_merge` is symmetric (value types with a symmetric nested check) -/
namespace Crdt.C17
open Crdt CMap
variable {K V VOp A : Type} [LinOrd K] [LinOrd A] (ops : ValOps V VOp A)

theorem concurrent_symm (a b : VClock A) : a.concurrent b = b.concurrent a := by
  have h1 := C10.concurrent_iff a b
  have h2 := C10.concurrent_iff b a
  cases ha : a.concurrent b <;> cases hb : b.concurrent a <;> simp_all

theorem nestedHit_symm (hsym : ∀ v v', ops.validateMerge v v' = ops.validateMerge v' v) {s o : CMap K V A}
    (h : CMap.NestedHit ops s o) : CMap.NestedHit ops o s := by
  obtain ⟨k, en, en', h1, h2, hc, hv⟩ := h
  exact ⟨k, en', en, h2, h1, by rw [concurrent_symm]; exact hc, by rw [hsym]; exact hv⟩

theorem map_validateMerge_symmetric (hsym : ∀ v v', ops.validateMerge v v' = ops.validateMerge v' v) {s o : CMap K V A}
    (ws : Orswot.EntriesWF s.keysView.entries) (wo : Orswot.EntriesWF o.keysView.entries) :
    CMap.validateMerge ops s o = .ok () ↔ CMap.validateMerge ops o s = .ok () := by
  rw [CMap.validateMerge_ok_iff, CMap.validateMerge_ok_iff, C17.map_dot_check_symmetric ws wo]
  exact ⟨fun h => ⟨h.1, fun n => h.2 (nestedHit_symm ops hsym n)⟩, fun h => ⟨h.1, fun n => h.2 (nestedHit_symm ops hsym n)⟩⟩
end Crdt.C17

/-! ## C16 for `List` at history level: everything the delivery discipline admits validates; a gap gets the exact range -/
namespace Crdt.C16
open Crdt ListSpec
variable {τ A : Type} [LinOrd A]

/-- per actor the dots of the log are 1,2,3,… (what `insert_index`/`delete_index` give) -/
def ListContiguous (U : List (ListOp τ A)) : Prop :=
  ∀ op ∈ U, ∀ d, op.dot = some d → 1 < d.counter → ∃ o ∈ U, o.dot = some ⟨d.actor, d.counter - 1⟩

theorem list_reach_clock {U K : List (ListOp τ A)} {s : ListCrdt τ A} (wf : LogWF U) (h : listSys.Reach U s K) (a : A) :
    s.clock.get a = clk K a := (OpRepSys.reach_rep (R := listSys) wf h).2.clock a

/-- accept: every op the delivery discipline admits validates -/
theorem list_reach_deliverable_ok {U K : List (ListOp τ A)} {s : ListCrdt τ A} (wf : LogWF U) (cont : ListContiguous U)
    (h : listSys.Reach U s K) {op : ListOp τ A} (hu : op ∈ U) (ok : ListSpec.Ok U K op) :
    s.validateOp op = some (.ok ()) := by
  obtain ⟨d, hd, hpos⟩ := wf.dot_pos op hu
  rw [C16.list_ok_iff s hd, list_reach_clock wf h]
  by_cases h1 : d.counter = 1
  · omega
  · obtain ⟨o, hou, hod⟩ := cont op hu d hd (by omega)
    have hin : o ∈ K := ok.1 o hou d _ hd hod rfl (by simp only; omega)
    have := le_clk hin hod
    simp only at this; omega

/-- reject: an op of the log whose author has an earlier op (in the log) unknown to the replica gets the exact range -/
theorem list_reach_gap {U K : List (ListOp τ A)} {s : ListCrdt τ A} (wf : LogWF U) (cont : ListContiguous U)
    (h : listSys.Reach U s K) {op : ListOp τ A} {d : Dot A} (hd : op.dot = some d)
    (hgap : clk K d.actor + 1 < d.counter) :
    s.validateOp op = some (.error ⟨d.actor, clk K d.actor + 1, d.counter⟩) := by
  have e := C16.list_error s hd (by rw [list_reach_clock wf h]; exact hgap)
  rw [list_reach_clock wf h] at e; exact e
end Crdt.C16

/-! ## C19: persistence steps anywhere in the KNOWLEDGE-INDEXED derivations of Map and List change nothing derivable -/
namespace Crdt.C19
open Crdt CMap
variable {K V VOp A : Type} [LinOrd K] [LinOrd A]

inductive CMap.ReachP (ops : ValOps V VOp A) (c : Codec (CMap K V A)) (U : List (MapOp K VOp A)) :
    CMap K V A → List (MapOp K VOp A) → Prop
  | init : ReachP ops c U CMap.init []
  | apply {s L op} : ReachP ops c U s L → op ∈ U → OrswotSpec.Ok (keyLog U) (keyLog L) (keyOp op) →
      ReachP ops c U (CMap.apply ops s op) (op :: L)
  | merge {s L s' L'} : ReachP ops c U s L → ReachP ops c U s' L' → ReachP ops c U (CMap.merge ops s s') (L ++ L')
  | persist {s L j s'} : ReachP ops c U s L → c.enc s = .ok j → c.dec j = some s' → ReachP ops c U s' L

theorem map_reach_persist_anywhere (ops : ValOps V VOp A) {c : Codec (CMap K V A)} (hc : c.RoundTrip)
    {U L : List (MapOp K VOp A)} {s : CMap K V A} : CMap.ReachP ops c U s L ↔ CMap.Reach ops U s L := by
  constructor
  · intro h
    induction h with
    | init => exact .init
    | apply _ hu hok ih => exact .apply ih hu hok
    | merge _ _ ih1 ih2 => exact .merge ih1 ih2
    | persist _ he hd ih => have := hc _ _ he; rw [this] at hd; cases hd; exact ih
  · intro h
    induction h with
    | init => exact .init
    | apply _ hu hok ih => exact .apply ih hu hok
    | merge _ _ ih1 ih2 => exact .merge ih1 ih2

/-- the same for `List` (`listSys : OpRepSys`) -/
inductive ListReachP {τ α : Type} [LinOrd α] (c : Codec (ListCrdt τ α)) (U : List (ListOp τ α)) :
    ListCrdt τ α → List (ListOp τ α) → Prop
  | init : ListReachP c U listSys.init []
  | apply {s K op} : ListReachP c U s K → op ∈ U → listSys.Ok U K op → ListReachP c U (listSys.apply s op) (op :: K)
  | persist {s K j s'} : ListReachP c U s K → c.enc s = .ok j → c.dec j = some s' → ListReachP c U s' K

theorem list_reach_persist_anywhere {τ α : Type} [LinOrd α] {c : Codec (ListCrdt τ α)} (hc : c.RoundTrip)
    {U K : List (ListOp τ α)} {s : ListCrdt τ α} : ListReachP c U s K ↔ listSys.Reach U s K := by
  constructor
  · intro h
    induction h with
    | init => exact .init
    | apply _ hu hok ih => exact .apply ih hu hok
    | persist _ he hd ih => have := hc _ _ he; rw [this] at hd; cases hd; exact ih
  · intro h
    induction h with
    | init => exact .init
    | apply _ hu hok ih => exact .apply ih hu hok
end Crdt.C19

/-! ## C11: PNCounter read in closed form as a function of the learned ops -/
namespace Crdt.C11
open Crdt LinOrd RepSys
variable {α : Type} [LinOrd α]

theorem sum_of_entries (K : List (PNOp α)) (dir : Dir) (c : VClock α) (h : ∀ a, c.get a = listMax (dirCtr dir a) K) :
    AL.sumVals c.dots.l = ((c.dots.l.map (·.1)).map (fun a => listMax (dirCtr dir a) K)).sum := by
  have key : ∀ (l : List (α × Nat)), (∀ p ∈ l, p.2 = listMax (dirCtr dir p.1) K) →
      AL.sumVals l = ((l.map (·.1)).map (fun a => listMax (dirCtr dir a) K)).sum := by
    intro l
    induction l with
    | nil => intro _; rfl
    | cons hd t ih =>
      intro hp
      obtain ⟨k, v⟩ := hd
      simp only [AL.sumVals, List.map_cons, List.sum_cons]
      rw [ih (fun p hp' => hp p (List.mem_cons_of_mem _ hp'))]
      have := hp (k, v) (by simp)
      simp only at this
      omega
  apply key
  intro p hp
  have hg : c.dots.get? p.1 = some p.2 := AL.get?_of_mem c.dots.sorted hp
  have := h p.1
  simp only [VClock.get, hg, Option.getD_some] at this
  exact this

/-- PNCounter: exact read value as a function of the learned ops -/
theorem pncounter_read_closed {V K : List (PNOp α)} {s : PNCounter α} (h : pncounterSys.Reach V s K) :
    s.read = (((s.p.inner.dots.l.map (·.1)).map (fun a => listMax (dirCtr .pos a) K)).sum : Int) -
             (((s.n.inner.dots.l.map (·.1)).map (fun a => listMax (dirCtr .neg a) K)).sum : Int) := by
  have r := (reach_rep (R := pncounterSys) trivial h).2
  show ((s.p.read : Nat) : Int) - ((s.n.read : Nat) : Int) = _
  rw [GCounter.read_eq, GCounter.read_eq, sum_of_entries K .pos _ r.1.2, sum_of_entries K .neg _ r.2.2]
end Crdt.C11

/-! ## C06: distinct positions of an API-generated log carry distinct clocks (also for equal values) -/
namespace Crdt.C06
open Crdt LinOrd
variable {ν α : Type} [LinOrd α]

/-- what the docstring of `C06.genLog_read` announces but no theorem of Props/C06.lean states:
distinct positions of an API-generated log carry distinct clocks (also for equal values) -/
theorem genLog_clocks_nodup {L : List (α × MVOp ν α)} (g : GenLog L) : (L.map (·.2.clock)).Nodup := by
  induction g with
  | nil => simp
  | @write L s K a v g hr hown ih =>
    have inv := genLog_inv g
    have wf := inv.1
    have fresh := write_clock_fresh wf hr a v (by
      intro o ho
      obtain ⟨e, he, ee⟩ := List.mem_map.mp ho
      subst ee
      refine Nat.le_trans (inv.2.2 e he a) ?_
      apply listMax_le_of_forall
      intro e' he'
      split
      · next ea => exact le_listMax (fun o : MVOp ν α => o.clock.get a) (hown e' he' ea)
      · exact Nat.zero_le _)
    rw [List.map_cons, List.nodup_cons]
    refine ⟨?_, ih⟩
    intro hin
    obtain ⟨e, he, ee⟩ := List.mem_map.mp hin
    exact fresh e.2 (List.mem_map.mpr ⟨e, he, rfl⟩) ee
end Crdt.C06
