import CrdtModel.Proofs.SysPersist
import CrdtModel.Witness.SerdeDeferred
set_option linter.unusedSectionVars false
/-!
# C19 at system level: crash / restart / ship-to-peer steps inside the system models

`Spec/SysPersist.lean` extends the three system-level models (`Sys` = Orswot, `SysMap` = Map over any value type, `SysList`)
by persistence steps – `restart` (a replica is serialised and replaced by the deserialised value), `ship` / `shipSnap` (a
serialised state is deserialised at a peer and the deserialised value is merged), `save` (backup through the codec) and
`shipOp` (the deserialised op is what is delivered) – each of which exists only when serialisation succeeds.
`RunP` = the configurations reachable with such steps at ANY point, any number of times.

For every codec that satisfies the round-trip law (proved for the concrete serde model of `Model/Codec.lean` over lawful
element codecs, in particular `u64`: `orswot_runP_iff_run_u64`, `mvmap_runP_iff_run_u64`, `nested_runP_iff_run_u64`,
`list_runP_iff_run_u64`):

* `runP_iff_run` : `RunP c ↔ Run c` – persistence steps add NO reachable configuration, so every hypothesis-free theorem
  `run_*` of `Props/SysOrswot.lean`, `Props/SysMap.lean`, `Props/SysList.lean` holds verbatim for runs with restarts, shipped
  states and shipped ops (`runP_converge`, `runP_member_iff`, `runP_merge_comm`, `runP_key_present_iff`, `runP_keys_converge`,
  `runP_same_ops_same_sequence`, … are spelled out);
* `restart_is_identity` : a restart step leaves the configuration unchanged; `stepP_cases` : EVERY persistence step is the
  identity or the plain step with the original value – the restored replica / shipped state / shipped op behaves identically
  under every later step;
* **availability** – what the round trip alone does not give:
  - Orswot: `canRestart_iff` – `restart i` is available **iff** replica `i` holds no pending remove (`deferred = ∅`);
    `run_canRestart_iff_no_pending` – in a run: iff `i` knows no remove whose context is ahead of the adds it knows;
    `runC_restart_available` / `runCP_restart_available` – in the CAUSAL sub-system `Sys.RunC` (with state merges and saved
    states; also with persistence steps anywhere) `restart` is available at every replica at every moment, and every
    saved state can be shipped (`runC_snap_encodable`);
    `noncausal_restart_unavailable` – outside it, it is not: a 3-step run of the API after which replica 2 cannot be
    persisted (known defect F9, `Witness/SerdeDeferred.lean`; kept as a finding);
  - Map: `canRestart_iff` (any value type), `mvmap_canRestart_iff` (`Map<_, MVReg>`: iff the key-level `deferred` is empty),
    `nested_canRestart_iff` / `runC_nested_canRestart_iff` (`Map<_, Orswot>`: in the causal op-only system the key-level table
    is always empty, so `restart` is available iff no NESTED set holds a pending remove – and that CAN happen inside the
    causal system: `nested_causal_restart_unavailable`, a 5-step causal run after which replica 0 cannot be persisted);
  - List: `list_restart_available` – always (encoding is total).
* non-vacuity: `exP_runP` – a concrete run with a restart in the middle, a shipped op and a shipped state, with the reads.
-/
namespace Crdt.SysPersist
open Crdt LinOrd

/-! ## Orswot -/
namespace OrswotP
open Crdt.Sys OrswotSpec
variable {M A : Type} [LinOrd M] [LinOrd A] {sc : Codec (Orswot M A)} {oc : Codec (OrswotOp M A)} {c c' : Cfg M A}
  {s s' : Orswot M A} {K K' : List (OrswotOp M A)}

/-- **persistence steps at any point of any run add no reachable configuration** (any codecs with the round-trip law) -/
theorem runP_iff_run (hs : sc.RoundTrip) (ho : oc.RoundTrip) : RunP sc oc c ↔ Run c :=
  ⟨run_of_runP hs ho, runP_of_run⟩

/-- … for the serde model of the crate, over any lawful member / actor codecs -/
theorem orswot_runP_iff_run {m : Scalar M} {a : Scalar A} (hm : m.Lawful) (ha : a.Lawful) :
    RunP (orswotCodec m a) (orswotOpCodec m a) c ↔ Run c :=
  runP_iff_run (orswot_roundTrip hm ha) (orswotOp_roundTrip hm ha)

/-- … `Orswot<u64, u64>`: nothing assumed -/
theorem orswot_runP_iff_run_u64 {c : Cfg Nat Nat} : RunP C19.orC C19.orOpC c ↔ Run c :=
  orswot_runP_iff_run Scalar.nat_lawful Scalar.nat_lawful

/-- the same for the causal sub-system -/
theorem runCP_iff_runC (hs : sc.RoundTrip) (ho : oc.RoundTrip) : RunCP sc oc c ↔ RunC c :=
  ⟨runC_of_runCP hs ho, runCP_of_runC⟩

/-- **a successful restart leaves the configuration unchanged** -/
theorem restart_is_identity (hs : sc.RoundTrip) (i : A) {j : Json} (he : sc.enc (c.rep i) = .ok j) (hd : sc.dec j = some s') :
    setRep c i s' = c := by rw [hs.restored he hd, setRep_self]

/-- **every persistence step is the identity or the plain step taken with the ORIGINAL value**: what was restored / shipped
behaves identically under every later step -/
theorem stepP_cases (hs : sc.RoundTrip) (ho : oc.RoundTrip) (st : StepP sc oc c c') : c' = c ∨ Step c c' := by
  cases st with
  | base st => exact .inr st
  | restart i j s' he hd => exact .inl (restart_is_identity hs i he hd)
  | ship i k j s' he hd => rw [hs.restored he hd]; exact .inr (.merge c i k)
  | save i j s' he hd => rw [hs.restored he hd]; exact .inr (.snapshot c i)
  | shipSnap i n p j s' hp he hd => rw [hs.restored he hd]; exact .inr (.mergeSnap c i n p hp)
  | shipOp i op j op' hu ok he hd => rw [ho.restored he hd]; exact .inr (.deliver c i op hu ok)

/-! ### the hypothesis-free theorems hold for runs with persistence steps (three spelled out; all of them via `runP_iff_run`) -/

theorem runP_converge (hs : sc.RoundTrip) (ho : oc.RoundTrip) (r : RunP sc oc c) (v : c.View s K) (v' : c.View s' K')
    (e : ∀ o, o ∈ K ↔ o ∈ K') : s = s' := run_converge ((runP_iff_run hs ho).mp r) v v' e

theorem runP_member_iff (hs : sc.RoundTrip) (ho : oc.RoundTrip) (r : RunP sc oc c) (v : c.View s K) (m : M) :
    m ∈ s.read.val ↔
      ∃ d ms, OrswotOp.add d ms ∈ K ∧ m ∈ ms ∧
        ∀ cl ms', OrswotOp.rm cl ms' ∈ K → m ∈ ms' → cl.get d.actor < d.counter :=
  run_member_iff' ((runP_iff_run hs ho).mp r) v m

theorem runP_merge_comm (hs : sc.RoundTrip) (ho : oc.RoundTrip) (r : RunP sc oc c) (v : c.View s K) (v' : c.View s' K') :
    s.merge s' = s'.merge s := run_merge_comm ((runP_iff_run hs ho).mp r) v v'

theorem runP_logWF (hs : sc.RoundTrip) (ho : oc.RoundTrip) (r : RunP sc oc c) : LogWF c.log :=
  run_logWF ((runP_iff_run hs ho).mp r)

/-! ### availability -/

/-- with a round-tripping codec, `restart i` is available iff the state of `i` can be ENCODED -/
theorem canRestart_iff_encodable (hs : sc.RoundTrip) (i : A) : CanRestart sc c i ↔ ∃ j, sc.enc (c.rep i) = .ok j := by
  constructor
  · rintro ⟨j, _, he, _⟩; exact ⟨j, he⟩
  · rintro ⟨j, he⟩; exact ⟨j, c.rep i, he, hs _ _ he⟩

/-- availability means: the step exists (and, by `restart_is_identity`, loops) -/
theorem canRestart_iff_step (hs : sc.RoundTrip) (i : A) :
    CanRestart sc c i ↔ ∃ j s', sc.enc (c.rep i) = .ok j ∧ sc.dec j = some s' ∧ StepP sc oc c (setRep c i s') ∧ setRep c i s' = c := by
  constructor
  · rintro ⟨j, s', he, hd⟩; exact ⟨j, s', he, hd, .restart c i j s' he hd, restart_is_identity hs i he hd⟩
  · rintro ⟨j, s', he, hd, _, _⟩; exact ⟨j, s', he, hd⟩

/-- **`restart i` is available iff replica `i` holds no pending remove** – in ANY configuration -/
theorem canRestart_iff {m : Scalar M} {a : Scalar A} (hm : m.Lawful) (ha : a.Lawful) (c : Cfg M A) (i : A) :
    CanRestart (orswotCodec m a) c i ↔ (c.rep i).deferred = ∅ := by
  rw [canRestart_iff_encodable (orswot_roundTrip hm ha), C19.orswot_encode_ok_iff, FMap.eq_empty_iff_isEmpty]

/-- when it is not, serialisation fails with serde_json's `key must be a string` -/
theorem not_canRestart_error {m : Scalar M} {a : Scalar A} (hm : m.Lawful) (ha : a.Lawful) (c : Cfg M A) (i : A)
    (h : ¬ CanRestart (orswotCodec m a) c i) : (orswotCodec m a).enc (c.rep i) = .error "key must be a string" := by
  rw [canRestart_iff_encodable (orswot_roundTrip hm ha)] at h
  cases he : (orswotCodec m a).enc (c.rep i) with
  | ok j => exact absurd ⟨j, he⟩ h
  | error e => rw [C19.orswot_error_text _ e he]

/-- in a run: `restart i` is available iff `i` knows no remove whose context is ahead of the adds `i` knows -/
theorem run_canRestart_iff_no_pending {m : Scalar M} {a : Scalar A} (hm : m.Lawful) (ha : a.Lawful) (r : Run c) (i : A) :
    CanRestart (orswotCodec m a) c i ↔ ∀ cl ms, OrswotOp.rm cl ms ∈ c.know i → ¬ pending (c.know i) cl := by
  rw [canRestart_iff_encodable (orswot_roundTrip hm ha), ← Codec.not_fails_iff]
  unfold Codec.Fails
  rw [C19.orswot_reachable_encode_fails_iff (run_logWF r) (run_reach r i)]
  constructor
  · intro h cl ms hin hp; exact h ⟨cl, ms, hin, hp⟩
  · rintro h ⟨cl, ms, hin, hp⟩; exact h cl ms hin hp

/-- **in the causal sub-system `restart` is available at every replica at every moment** -/
theorem runC_restart_available {m : Scalar M} {a : Scalar A} (hm : m.Lawful) (ha : a.Lawful) (r : RunC c) (i : A) :
    CanRestart (orswotCodec m a) c i := (canRestart_iff hm ha c i).mpr (runC_deferred_empty r (.rep i))

/-- … also when the causal run itself contains restarts, shipped states and shipped ops -/
theorem runCP_restart_available {m : Scalar M} {a : Scalar A} (hm : m.Lawful) (ha : a.Lawful)
    (r : RunCP (orswotCodec m a) (orswotOpCodec m a) c) (i : A) : CanRestart (orswotCodec m a) c i :=
  runC_restart_available hm ha ((runCP_iff_runC (orswot_roundTrip hm ha) (orswotOp_roundTrip hm ha)).mp r) i

/-- … and every state the causal system holds (replicas, saved states) can be serialised: `ship`, `save`, `shipSnap` are
available too -/
theorem runC_view_encodable {m : Scalar M} {a : Scalar A} (r : RunC c) (v : c.View s K) :
    ∃ j, (orswotCodec m a).enc s = .ok j :=
  (C19.orswot_encode_ok_iff s).mpr ((FMap.eq_empty_iff_isEmpty _).mp (runC_deferred_empty r v))

theorem runC_snap_encodable {m : Scalar M} {a : Scalar A} (r : RunC c) {p : Orswot M A × List (OrswotOp M A)}
    (hp : p ∈ c.snaps) : ∃ j, (orswotCodec m a).enc p.1 = .ok j := runC_view_encodable r (.snap hp)

/-- every op can always be shipped (ops carry their clocks as values, not as keys) -/
theorem shipOp_available {m : Scalar M} {a : Scalar A} (hm : m.Lawful) (ha : a.Lawful) (op : OrswotOp M A) :
    ∃ j op', (orswotOpCodec m a).enc op = .ok j ∧ (orswotOpCodec m a).dec j = some op' := by
  obtain ⟨j, hj⟩ := orswotOp_total hm ha op
  exact ⟨j, op, hj, orswotOp_roundTrip hm ha op j hj⟩

/-! ### outside the causal sub-system `restart` is NOT always available (known defect F9)

Actors 1 and 2.  1 adds 7, 1 removes 7 (context read with `contains`), and the REMOVE reaches 2 before the add: it is parked
in 2's `deferred` table, and until the add arrives replica 2 cannot be serialised. -/
section noncausal
def nc0 : Cfg Nat Nat := Cfg.init
def nc1 : Cfg Nat Nat := nc0.gen 1 (Orswot.add 7 ((nc0.rep 1).read.deriveAddCtx 1))
def nc2 : Cfg Nat Nat := nc1.gen 1 (Orswot.rm 7 ((nc1.rep 1).contains 7).deriveRmCtx)
def nc3 : Cfg Nat Nat := nc2.deliver 2 (.rm ((∅ : VClock Nat).apply ⟨1, 1⟩) [7])

theorem nc2_log : nc2.log = [.rm ((∅ : VClock Nat).apply ⟨1, 1⟩) [7], .add ⟨1, 1⟩ [7]] := by decide

theorem nc_run : Run nc3 := by
  have r1 : Run nc1 := .step .init (.add nc0 1 7)
  have r2 : Run nc2 := .step r1 (.rm nc1 1 7)
  refine .step r2 (.deliver nc2 2 _ ?_ trivial)
  rw [nc2_log]; exact List.mem_cons_self

/-- **there is a run and a replica at which `restart` is not available**; the other replica can restart -/
theorem noncausal_restart_unavailable :
    Run nc3 ∧ ¬ CanRestart C19.orC nc3 2 ∧ CanRestart C19.orC nc3 1 ∧
      C19.orC.enc (nc3.rep 2) = .error "key must be a string" := by
  have h2 : ¬ CanRestart C19.orC nc3 2 := by
    rw [canRestart_iff Scalar.nat_lawful Scalar.nat_lawful]; decide
  refine ⟨nc_run, h2, ?_, not_canRestart_error Scalar.nat_lawful Scalar.nat_lawful nc3 2 h2⟩
  rw [canRestart_iff Scalar.nat_lawful Scalar.nat_lawful]; decide

/-- … and that run is not a causal one: the delivery violates `CtxLe` -/
example : ¬ CtxLe (nc2.know 2) (.rm ((∅ : VClock Nat).apply ⟨1, 1⟩) [7] : OrswotOp Nat Nat) := by
  intro h; have := h 1; revert this; decide

/-- the state of `Witness/SerdeDeferred.lean` (finding F9), at `Reach` level: derivable and not serialisable -/
theorem f9_not_persistable :
    orswotSys.Reach [Witness.f9Op] Witness.f9State [Witness.f9Op] ∧ ¬ ∃ j, C19.orC.enc Witness.f9State = .ok j := by
  refine ⟨Witness.f9State_reachable, ?_⟩
  rw [C19.orswot_encode_ok_iff]; decide
end noncausal

end OrswotP

/-! ## Map -/
namespace MapP
open Crdt.SysMap Crdt.Sys CMap OrswotSpec
variable {K V VOp A : Type} [LinOrd K] [LinOrd A] {ops : ValOps V VOp A} {Allowed : (V → AddCtx A → VOp) → Prop}
  {sc : Codec (CMap K V A)} {oc : Codec (MapOp K VOp A)} {Q : VOp → Prop} {c c' : Cfg K V VOp A}
  {s s' : CMap K V A} {L L' : List (MapOp K VOp A)}

/-- **persistence steps at any point of any run add no reachable configuration**: any value type, any closures `Allowed`;
the op codec has to round-trip on well-formed ops (`MapOp.WF Q`: key sets are sets, nested ops satisfy `Q`), which is what
the API builds (`hQ`: the closures produce ops satisfying `Q`) -/
theorem runP_iff_run (hs : sc.RoundTrip) (ho : oc.RoundTripOn (MapOp.WF Q)) (hQ : ∀ f, Allowed f → ∀ v ctx, Q (f v ctx)) :
    RunP ops Allowed sc oc c ↔ Run ops Allowed c := ⟨run_of_runP hs ho hQ, runP_of_run⟩

/-- … for the serde model of `Map` / `map::Op`, over any value codec `vc` and nested-op codec `voc` -/
theorem map_runP_iff_run {k : Scalar K} {a : Scalar A} {vc : Codec V} {voc : Codec VOp} (hk : k.Lawful) (ha : a.Lawful)
    (hv : vc.RoundTrip) (hvo : voc.RoundTripOn Q) (hQ : ∀ f, Allowed f → ∀ v ctx, Q (f v ctx)) :
    RunP ops Allowed (mapCodec k a vc) (mapOpCodec k a voc) c ↔ Run ops Allowed c :=
  runP_iff_run (cmap_roundTrip hk ha hv) (mapOp_roundTripOn hk ha hvo) hQ

/-- `Map<u64, MVReg<u64,u64>, u64>`, every closure: nothing assumed -/
theorem mvmap_runP_iff_run_u64 {c : Cfg Nat (MVReg Nat Nat) (MVOp Nat Nat) Nat} :
    RunP MVReg.valOps (fun _ => True) (mapCodec C19.NS C19.NS C19.mvC) (mapOpCodec C19.NS C19.NS C19.mvOpC) c ↔
      Run MVReg.valOps (fun _ => True) c :=
  map_runP_iff_run (Q := fun _ => True) Scalar.nat_lawful Scalar.nat_lawful
    (mvreg_roundTrip KeyCodec.nat_roundTrip Codec.nat_roundTrip)
    ((mvOp_roundTrip KeyCodec.nat_roundTrip Codec.nat_roundTrip).on _) (fun _ _ _ _ => trivial)

/-- `Map<u64, Orswot<u64,u64>, u64>` with the Orswot API closures: nothing assumed -/
theorem nested_runP_iff_run_u64 {c : NCfg Nat Nat Nat} :
    RunP Orswot.valOps NestedGen (mapCodec C19.NS C19.NS C19.orC) (mapOpCodec C19.NS C19.NS C19.orOpC) c ↔ NRun c :=
  map_runP_iff_run (Q := fun _ => True) Scalar.nat_lawful Scalar.nat_lawful
    (orswot_roundTrip Scalar.nat_lawful Scalar.nat_lawful)
    ((orswotOp_roundTrip Scalar.nat_lawful Scalar.nat_lawful).on _) (fun _ _ _ _ => trivial)

/-- **a successful restart leaves the configuration unchanged** -/
theorem restart_is_identity (hs : sc.RoundTrip) (i : A) {j : Json} (he : sc.enc (c.rep i) = .ok j) (hd : sc.dec j = some s') :
    setRep c i s' = c := by rw [hs.restored he hd, setRep_self]

/-- every persistence step of a run is the identity or the plain step taken with the original value -/
theorem stepP_cases (hs : sc.RoundTrip) (ho : oc.RoundTripOn (MapOp.WF Q)) (hQ : ∀ f, Allowed f → ∀ v ctx, Q (f v ctx))
    (r : Run ops Allowed c) (st : StepP ops Allowed sc oc c c') : c' = c ∨ Step ops Allowed c c' := by
  cases st with
  | base st => exact .inr st
  | restart i j s' he hd => exact .inl (restart_is_identity hs i he hd)
  | ship i k j s' he hd => rw [hs.restored he hd]; exact .inr (.merge c i k)
  | save i j s' he hd => rw [hs.restored he hd]; exact .inr (.snapshot c i)
  | shipSnap i n p j s' hp he hd => rw [hs.restored he hd]; exact .inr (.mergeSnap c i n p hp)
  | shipOp i op j op' hu ok he hd =>
    rw [ho.restored (logOpsWF_run hQ r op hu) he hd]; exact .inr (.deliver c i op hu ok)

/-! ### the hypothesis-free key-level theorems hold for runs with persistence steps -/

theorem runP_key_present_iff (hs : sc.RoundTrip) (ho : oc.RoundTripOn (MapOp.WF Q))
    (hQ : ∀ f, Allowed f → ∀ v ctx, Q (f v ctx)) (r : RunP ops Allowed sc oc c) (v : c.View s L) (k : K) :
    (s.get k).val.isSome = true ↔
      ∃ d o, MapOp.up d k o ∈ L ∧ ∀ cl ks, MapOp.rm cl ks ∈ L → k ∈ ks → cl.get d.actor < d.counter :=
  run_key_present_iff' ((runP_iff_run hs ho hQ).mp r) v k

theorem runP_keys_converge (hs : sc.RoundTrip) (ho : oc.RoundTripOn (MapOp.WF Q))
    (hQ : ∀ f, Allowed f → ∀ v ctx, Q (f v ctx)) (r : RunP ops Allowed sc oc c) (v : c.View s L) (v' : c.View s' L')
    (e : ∀ o, o ∈ L ↔ o ∈ L') :
    s.clock = s'.clock ∧ s.deferred = s'.deferred ∧
      ∀ k, (s.get k).val.isSome = (s'.get k).val.isSome ∧ (s.get k).rmClock = (s'.get k).rmClock :=
  run_keys_converge ((runP_iff_run hs ho hQ).mp r) v v' e

theorem runP_logWF (hs : sc.RoundTrip) (ho : oc.RoundTripOn (MapOp.WF Q)) (hQ : ∀ f, Allowed f → ∀ v ctx, Q (f v ctx))
    (r : RunP ops Allowed sc oc c) : LogWF (keyLog c.log) := run_logWF ((runP_iff_run hs ho hQ).mp r)

/-! ### availability -/

theorem canRestart_iff_encodable (hs : sc.RoundTrip) (i : A) : CanRestart sc c i ↔ ∃ j, sc.enc (c.rep i) = .ok j := by
  constructor
  · rintro ⟨j, _, he, _⟩; exact ⟨j, he⟩
  · rintro ⟨j, he⟩; exact ⟨j, c.rep i, he, hs _ _ he⟩

/-- **Map at any nesting level**: `restart i` is available iff the key-level `deferred` table of `i` is empty and no value
of `i` fails to encode (`HD` = the value type's own "holds a non-empty `deferred` table somewhere") -/
theorem canRestart_iff {k : Scalar K} {a : Scalar A} {vc : Codec V} {HD : V → Prop} (hk : k.Lawful) (ha : a.Lawful)
    (hv : vc.RoundTrip) (hHD : ∀ x, (∃ e, vc.enc x = .error e) ↔ HD x) (c : Cfg K V VOp A) (i : A) :
    CanRestart (mapCodec k a vc) c i ↔
      ((c.rep i).deferred = ∅ ∧ ∀ key en, (c.rep i).entries.get? key = some en → ¬ HD en.val) := by
  rw [canRestart_iff_encodable (cmap_roundTrip hk ha hv), ← Codec.not_fails_iff]
  unfold Codec.Fails
  rw [C19.map_encode_fails_iff hHD, FMap.eq_empty_iff_isEmpty]
  constructor
  · intro h
    refine ⟨?_, fun key en hg hd => h (.inr ⟨key, en, hg, hd⟩)⟩
    cases he : (c.rep i).deferred.isEmpty with
    | true => rfl
    | false => exact absurd (.inl he) h
  · rintro ⟨h1, h2⟩ (h | ⟨key, en, hg, hd⟩)
    · rw [h1] at h; cases h
    · exact h2 key en hg hd

/-- `Map<u64, MVReg, u64>`: `restart i` is available iff `i` holds no pending key remove -/
theorem mvmap_canRestart_iff (c : Cfg Nat (MVReg Nat Nat) (MVOp Nat Nat) Nat) (i : Nat) :
    CanRestart (mapCodec C19.NS C19.NS C19.mvC) c i ↔ (c.rep i).deferred = ∅ := by
  rw [canRestart_iff_encodable (cmap_roundTrip Scalar.nat_lawful Scalar.nat_lawful
      (mvreg_roundTrip KeyCodec.nat_roundTrip Codec.nat_roundTrip)), ← Codec.not_fails_iff]
  unfold Codec.Fails
  rw [C19.map_mvreg_encode_fails_iff, FMap.eq_empty_iff_isEmpty]
  cases (c.rep i).deferred.isEmpty <;> simp

/-- `Map<K, Orswot<M,A>, A>`: iff neither the map nor any of its nested sets holds a pending remove -/
theorem nested_canRestart_iff {M : Type} [LinOrd M] {k : Scalar K} {a : Scalar A} {m : Scalar M} (hk : k.Lawful)
    (ha : a.Lawful) (hm : m.Lawful) (c : NCfg K M A) (i : A) :
    CanRestart (mapCodec k a (orswotCodec m a)) c i ↔
      ((c.rep i).deferred = ∅ ∧ ∀ key en, (c.rep i).entries.get? key = some en → en.val.deferred = ∅) := by
  rw [canRestart_iff (HD := fun x : Orswot M A => x.deferred.isEmpty = false) hk ha (orswot_roundTrip hm ha)
    (fun x => C19.orswot_encode_fails_iff x)]
  constructor
  · rintro ⟨h1, h2⟩
    refine ⟨h1, fun key en hg => ?_⟩
    rw [FMap.eq_empty_iff_isEmpty]
    cases he : en.val.deferred.isEmpty with
    | true => rfl
    | false => exact absurd he (h2 key en hg)
  · rintro ⟨h1, h2⟩
    refine ⟨h1, fun key en hg he => ?_⟩
    rw [(FMap.eq_empty_iff_isEmpty _).mp (h2 key en hg)] at he; cases he

/-- in the causal op-only system of `Map<K, Orswot<M,A>, A>` no key remove is ever parked, so `restart i` is available
**iff no NESTED set of `i` holds a pending remove** (nested residue can exist inside the causal region, see the header of
`Props/C05NestedOrswot.lean`; the intended "always available" is therefore NOT claimed for the nested map) -/
theorem runC_nested_canRestart_iff {M : Type} [LinOrd M] {k : Scalar K} {a : Scalar A} {m : Scalar M} (hk : k.Lawful)
    (ha : a.Lawful) (hm : m.Lawful) {c : NCfg K M A} (r : RunC c) (i : A) :
    CanRestart (mapCodec k a (orswotCodec m a)) c i ↔
      ∀ key en, (c.rep i).entries.get? key = some en → en.val.deferred = ∅ := by
  rw [nested_canRestart_iff hk ha hm]
  exact ⟨fun h => h.2, fun h => ⟨runC_map_deferred_empty r i, h⟩⟩

/-! ### … and inside the causal system of the nested map `restart` is indeed NOT always available

Actors 0 and 1, `Map<u64, Orswot<u64,u64>, u64>`.  0 adds member 0 under key 0 (`o0`); 1 receives it and removes member 0 under
key 0 (`o5`, a nested remove with context `{0:1}`); 0 removes key 0 (`o1`); then `o5` is delivered to 0 – causally (0 has applied
everything the context names).  The key is gone at 0, so `o5` re-creates a default set whose clock is empty, and the nested
remove is parked in ITS `deferred` table: replica 0 cannot be serialised. -/
section nested_noncausal
open C05.NestedOrswotExample
def nm0 : NCfg Nat Nat Nat := Cfg.init
def nm1 : NCfg Nat Nat Nat :=
  nm0.gen SysMap.xops 0 (CMap.update SysMap.xops (nm0.rep 0) 0 ((nm0.rep 0).readCtx.deriveAddCtx 0) (fun _ ctx => Orswot.add 0 ctx))
def nm2 : NCfg Nat Nat Nat := nm1.deliver SysMap.xops 1 o0
def nm3 : NCfg Nat Nat Nat :=
  nm2.gen SysMap.xops 1 (CMap.update SysMap.xops (nm2.rep 1) 0 ((nm2.rep 1).readCtx.deriveAddCtx 1)
    (fun v _ => Orswot.rm 0 (v.contains 0).deriveRmCtx))
def nm4 : NCfg Nat Nat Nat := nm3.gen SysMap.xops 0 (CMap.rm 0 ((nm3.rep 0).get 0).deriveRmCtx)
def nm5 : NCfg Nat Nat Nat := nm4.deliver SysMap.xops 0 o5

theorem nm1_log : nm1.log = [o0] := rfl
theorem nm4_log : nm4.log = [o1, o5, o0] := rfl
theorem nm4_know0 : nm4.know 0 = [o1, o0] := rfl

theorem nm_runC : RunC nm5 := by
  have r1 : RunC nm1 := .step .init (.update nm0 0 0 _ (.add 0))
  have r2 : RunC nm2 := by
    refine .step r1 (.deliver nm1 1 o0 ?_ ?_ trivial)
    · rw [nm1_log]; exact List.mem_cons_self
    · intro d' ms' hu ha hlt
      rw [nm1_log] at hu
      simp only [keyLog, o0, keyOp, List.map_cons, List.map_nil, List.mem_cons, OrswotOp.add.injEq, List.mem_nil_iff,
        or_false] at hu
      rw [hu.1] at hlt; exact absurd hlt (Nat.lt_irrefl _)
  have r3 : RunC nm3 := .step r2 (.update nm2 1 0 _ (.rm 0))
  have r4 : RunC nm4 := .step r3 (.rmKey nm3 0 0)
  refine .step r4 (.deliver nm4 0 o5 ?_ ?_ ?_)
  · rw [nm4_log]; simp
  · intro d' ms' hu ha hlt
    rw [nm4_log] at hu
    simp only [keyLog, o0, o1, o5, keyOp, List.map_cons, List.map_nil, List.mem_cons, OrswotOp.add.injEq, List.mem_nil_iff,
      or_false, reduceCtorEq, false_or] at hu
    rcases hu with ⟨rfl, _⟩ | ⟨rfl, _⟩
    · exact absurd hlt (Nat.lt_irrefl _)
    · simp at ha
  · rw [nm4_know0]
    exact ctx_ofDot _ (by decide)

/-- **a causal run of the nested map and a replica at which `restart` is not available** (the key-level table is empty, a
nested one is not); the intended "always available in the causal sub-system" holds for Orswot (`runC_restart_available`) and
for `Map<_, MVReg>` key level, NOT for `Map<_, Orswot>` -/
theorem nested_causal_restart_unavailable :
    RunC nm5 ∧ ¬ CanRestart (mapCodec C19.NS C19.NS C19.orC) nm5 0 ∧ (nm5.rep 0).deferred = ∅ ∧
      CanRestart (mapCodec C19.NS C19.NS C19.orC) nm5 1 := by
  have h : ((nm5.rep 0).entries.get? 0).map (fun en => en.val.deferred.isEmpty) = some false := by decide
  refine ⟨nm_runC, ?_, runC_map_deferred_empty nm_runC 0, ?_⟩
  · rw [runC_nested_canRestart_iff Scalar.nat_lawful Scalar.nat_lawful Scalar.nat_lawful nm_runC]
    intro hall
    cases hg : (nm5.rep 0).entries.get? 0 with
    | none => rw [hg] at h; cases h
    | some en =>
      rw [hg] at h
      simp only [Option.map_some, Option.some.injEq] at h
      rw [(FMap.eq_empty_iff_isEmpty _).mp (hall 0 en hg)] at h; cases h
  · rw [runC_nested_canRestart_iff Scalar.nat_lawful Scalar.nat_lawful Scalar.nat_lawful nm_runC]
    have h1 : ∀ p ∈ (nm5.rep 1).entries.l, p.2.val.deferred.isEmpty = true := by decide
    intro key en hg
    rw [FMap.eq_empty_iff_isEmpty]
    exact h1 (key, en) ((Orswot.mem_l_iff _ (key, en)).mpr hg)
end nested_noncausal

end MapP

/-! ## List -/
namespace ListP
open Crdt.SysList Crdt.Sys ListSpec
variable {τ A : Type} [LinOrd A] {sc : Codec (ListCrdt τ A)} {oc : Codec (ListOp τ A)} {c c' : Cfg τ A} {s' : ListCrdt τ A}

/-- **persistence steps at any point of any run add no reachable configuration** -/
theorem runP_iff_run (hs : sc.RoundTrip) (ho : oc.RoundTrip) : RunP sc oc c ↔ Run c := ⟨run_of_runP hs ho, runP_of_run⟩

theorem list_runP_iff_run {a : Scalar A} {v : Codec τ} (ha : a.Lawful) (hv : v.RoundTrip) :
    RunP (listCodec a v) (listOpCodec a v) c ↔ Run c :=
  runP_iff_run (Crdt.list_roundTrip ha hv) (listOp_roundTrip ha hv)

/-- `List<u64, u64>`: nothing assumed -/
theorem list_runP_iff_run_u64 {c : SysList.Cfg Nat Nat} :
    RunP (listCodec C19.NS Codec.nat) (listOpCodec C19.NS Codec.nat) c ↔ Run c :=
  list_runP_iff_run Scalar.nat_lawful Codec.nat_roundTrip

theorem restart_is_identity (hs : sc.RoundTrip) (i : A) {j : Json} (he : sc.enc (c.rep i) = .ok j) (hd : sc.dec j = some s') :
    setRep c i s' = c := by rw [hs.restored he hd, setRep_self]

theorem stepP_cases (hs : sc.RoundTrip) (ho : oc.RoundTrip) (st : StepP sc oc c c') : c' = c ∨ Step c c' := by
  cases st with
  | base st => exact .inr st
  | restart i j s' he hd => exact .inl (restart_is_identity hs i he hd)
  | shipOp i op j op' hu ok he hd => rw [ho.restored he hd]; exact .inr (.deliver c i op hu ok)

/-- C12 convergence for runs with restarts and shipped ops -/
theorem runP_same_ops_same_sequence (hs : sc.RoundTrip) (ho : oc.RoundTrip) (r : RunP sc oc c) (i j : A)
    (e : ∀ o, o ∈ c.know i ↔ o ∈ c.know j) :
    c.rep i = c.rep j ∧ (c.rep i).read = (c.rep j).read ∧ (c.rep i).iterEntries = (c.rep j).iterEntries :=
  run_same_ops_same_sequence ((runP_iff_run hs ho).mp r) i j e

theorem runP_state_eq_spec (hs : sc.RoundTrip) (ho : oc.RoundTrip) (r : RunP sc oc c) (i : A) :
    c.rep i = specState (c.know i) := run_state_eq_spec ((runP_iff_run hs ho).mp r) i

theorem runP_logWF (hs : sc.RoundTrip) (ho : oc.RoundTrip) (r : RunP sc oc c) : LogWF c.log :=
  run_logWF ((runP_iff_run hs ho).mp r)

/-- **`restart` is available at every replica of every configuration** (in particular of every run, with or without
persistence steps): encoding a `List` is total -/
theorem list_restart_available {a : Scalar A} {v : Codec τ} (ha : a.Lawful) (hv : v.RoundTrip) (hvt : v.Total) (c : Cfg τ A)
    (i : A) : CanRestart (listCodec a v) c i := by
  obtain ⟨j, hj⟩ := C19.list_encode_total ha hvt (c.rep i)
  exact ⟨j, c.rep i, hj, Crdt.list_roundTrip ha hv _ _ hj⟩

/-- the headline form: every replica of every run with persistence steps -/
theorem runP_restart_available {a : Scalar A} {v : Codec τ} (ha : a.Lawful) (hv : v.RoundTrip) (hvt : v.Total)
    (_r : RunP (listCodec a v) (listOpCodec a v) c) (i : A) :
    ∃ j s', (listCodec a v).enc (c.rep i) = .ok j ∧ (listCodec a v).dec j = some s' ∧
      RunP (listCodec a v) (listOpCodec a v) (setRep c i s') ∧ setRep c i s' = c := by
  obtain ⟨j, s', he, hd⟩ := list_restart_available ha hv hvt c i
  exact ⟨j, s', he, hd, .step _r (.restart c i j s' he hd), restart_is_identity (Crdt.list_roundTrip ha hv) i he hd⟩

/-- every op can be shipped -/
theorem shipOp_available {a : Scalar A} {v : Codec τ} (ha : a.Lawful) (hv : v.RoundTrip) (hvt : v.Total) (op : ListOp τ A) :
    ∃ j op', (listOpCodec a v).enc op = .ok j ∧ (listOpCodec a v).dec j = some op' := by
  obtain ⟨j, hj⟩ := C19.list_op_encode_total ha hvt op
  exact ⟨j, op, hj, listOp_roundTrip ha hv op j hj⟩

/-- non-vacuity: the concrete 10-step run `SysList.ex10` continued by a restart of replica 2 (available, and the identity) -/
example : ∃ j s', (listCodec C19.NS Codec.nat).enc (SysList.ex10.rep 2) = .ok j ∧ (listCodec C19.NS Codec.nat).dec j = some s' ∧
    RunP (listCodec C19.NS Codec.nat) (listOpCodec C19.NS Codec.nat) (setRep SysList.ex10 2 s') ∧
    setRep SysList.ex10 2 s' = SysList.ex10 :=
  runP_restart_available Scalar.nat_lawful Codec.nat_roundTrip Codec.nat_total
    (list_runP_iff_run_u64.mpr SysList.ex_run) 2

end ListP

/-! ## non-vacuity: a concrete Orswot run with a restart in the middle, a shipped op and a shipped state

Actors 1 and 2, `Orswot<u64,u64>` with the serde model of the crate.  1 adds 7; **1 crashes and restarts from its JSON**;
the add is **shipped as JSON** to 2; CONCURRENTLY 2 removes 7 and the restarted 1 adds 7 again; finally 2's state is
**shipped as JSON** to 1 and merged.  Add wins, exactly as in the run without persistence (`Sys.ex5`). -/
namespace OrswotP
section example_
open Crdt.Sys
abbrev addOp : OrswotOp Nat Nat := .add ⟨1, 1⟩ [7]

def exP1 : Cfg Nat Nat := Cfg.init.gen 1 (Orswot.add 7 (((Cfg.init : Cfg Nat Nat).rep 1).read.deriveAddCtx 1))
/-- after the restart: replica 1 holds the deserialised value -/
def exP2 (s' : Orswot Nat Nat) : Cfg Nat Nat := setRep exP1 1 s'
/-- after the shipped op has been delivered at 2 -/
def exP3 (s' : Orswot Nat Nat) (op' : OrswotOp Nat Nat) : Cfg Nat Nat := (exP2 s').deliver 2 op'

theorem exP1_log : exP1.log = [addOp] := by decide

/-- the first three steps with WHATEVER the decoder returns: an `.add`, a `.restart`, a `.shipOp` -/
theorem exP_prefix : ∃ s' op', RunP C19.orC C19.orOpC (exP3 s' op') ∧ s' = exP1.rep 1 ∧ op' = addOp := by
  have hs : C19.orC.RoundTrip := orswot_roundTrip Scalar.nat_lawful Scalar.nat_lawful
  have ho : C19.orOpC.RoundTrip := orswotOp_roundTrip Scalar.nat_lawful Scalar.nat_lawful
  have r1 : RunP C19.orC C19.orOpC exP1 := .step .init (.base (.add Cfg.init 1 7))
  obtain ⟨j, s', he, hd⟩ : CanRestart C19.orC exP1 1 :=
    (canRestart_iff Scalar.nat_lawful Scalar.nat_lawful exP1 1).mpr (by decide)
  have r2 : RunP C19.orC C19.orOpC (exP2 s') := .step r1 (.restart exP1 1 j s' he hd)
  have e2 : s' = exP1.rep 1 := hs.restored he hd
  obtain ⟨jo, op', heo, hdo⟩ := shipOp_available Scalar.nat_lawful Scalar.nat_lawful addOp
  have e3 : op' = addOp := ho.restored heo hdo
  refine ⟨s', op', .step r2 (.shipOp (exP2 s') 2 addOp jo op' ?_ ?_ heo hdo), e2, e3⟩
  · show addOp ∈ exP1.log
    rw [exP1_log]; exact List.mem_cons_self
  · intro d' ms' hu ha hlt
    have hu : OrswotOp.add d' ms' ∈ exP1.log := hu
    rw [exP1_log] at hu
    simp only [List.mem_cons, OrswotOp.add.injEq, List.mem_nil_iff, or_false] at hu
    rw [hu.1] at hlt; exact absurd hlt (Nat.lt_irrefl _)

/-- the configuration those steps lead to (the decoder returned the originals) -/
def exQ3 : Cfg Nat Nat := exP3 (exP1.rep 1) addOp
def exQ4 : Cfg Nat Nat := exQ3.gen 2 (Orswot.rm 7 ((exQ3.rep 2).contains 7).deriveRmCtx)
def exQ5 : Cfg Nat Nat := exQ4.gen 1 (Orswot.add 7 ((exQ4.rep 1).read.deriveAddCtx 1))
/-- after 2's state has been shipped to 1 (`s'` = what the decoder returned) -/
def exQ6 (s' : Orswot Nat Nat) : Cfg Nat Nat := exQ5.mergeIn 1 s' (exQ5.know 2)
def exQ6' : Cfg Nat Nat := exQ6 (exQ5.rep 2)

/-- **a run with a restart in the middle, a shipped op and a shipped state** -/
theorem exP_runP : RunP C19.orC C19.orOpC exQ6' := by
  obtain ⟨s', op', r3, e2, e3⟩ := exP_prefix
  subst e2 e3
  have r4 : RunP C19.orC C19.orOpC exQ4 := .step r3 (.base (.rm exQ3 2 7))
  have r5 : RunP C19.orC C19.orOpC exQ5 := .step r4 (.base (.add exQ4 1 7))
  obtain ⟨j, s', he, hd⟩ : CanRestart C19.orC exQ5 2 :=
    (canRestart_iff Scalar.nat_lawful Scalar.nat_lawful exQ5 2).mpr (by decide)
  have r6 : RunP C19.orC C19.orOpC (exQ6 s') := .step r5 (.ship exQ5 1 2 j s' he hd)
  have e6 : s' = exQ5.rep 2 := (orswot_roundTrip Scalar.nat_lawful Scalar.nat_lawful).restored he hd
  rw [e6] at r6; exact r6

/-- the reads at the end: add wins at 1 (witnessed by the second dot), 2 reads nothing; the restart changed nothing -/
example : (exQ6'.rep 1).read.val = [7] ∧ (exQ6'.rep 2).read.val = [] ∧ ((exQ6'.rep 1).contains 7).rmClock.get 1 = 2 := by
  decide
example : (exQ3.rep 1).read.val = [7] ∧ (exQ3.rep 2).read.val = [7] := by decide
/-- it IS the run without persistence -/
example : exQ6'.log = Sys.ex5.log ∧ (exQ6'.rep 1) = Sys.ex5.rep 1 ∧ (exQ6'.rep 2) = Sys.ex5.rep 2 := by decide
/-- the hypothesis-free theorems apply to it -/
example : Run exQ6' := orswot_runP_iff_run_u64.mp exP_runP
example : (exQ6'.rep 1).merge (exQ6'.rep 2) = (exQ6'.rep 2).merge (exQ6'.rep 1) :=
  runP_merge_comm (orswot_roundTrip Scalar.nat_lawful Scalar.nat_lawful)
    (orswotOp_roundTrip Scalar.nat_lawful Scalar.nat_lawful) exP_runP (.rep 1) (.rep 2)
end example_
end OrswotP

end Crdt.SysPersist
