import CrdtModel.Model.Map
import CrdtModel.Model.MVReg
import CrdtModel.Proofs.VClock
set_option linter.unusedSectionVars false
/-!
# C16 for `Map` (partial) and the witness of the known defect F7

`Map::validate_op` (src/map.rs:166-182) checks the dot against the MAP clock, then against the ENTRY clock of the key
(a default, empty entry if the key is absent), then asks the nested value.  The map-clock part is what the property asks
for; the entry-clock part rejects correct ops (an actor's dot is contiguous in the map clock, not in each entry clock).
-/
namespace Crdt.C16
open Crdt LinOrd CMap
variable {K V VOp A : Type} [LinOrd K] [LinOrd A] (ops : ValOps V VOp A) (toNat : A → Nat)

/-- key removes are always accepted -/
theorem map_rm_ok (s : CMap K V A) (c : VClock A) (ks : List K) : CMap.validateOp ops toNat s (.rm c ks) = .ok () := rfl

/-- a gap in the author's dots at MAP level is always rejected, with the exact range -/
theorem map_gap_rejected_partial (s : CMap K V A) (d : Dot A) (k : K) (o : VOp) (h : s.clock.get d.actor + 1 < d.counter) :
    CMap.validateOp ops toNat s (.up d k o) = .error (.sourceOrder (toNat d.actor) (s.clock.get d.actor + 1) d.counter) := by
  have : s.clock.validateOp d = .error ⟨d.actor, s.clock.get d.actor + 1, d.counter⟩ := by
    unfold VClock.validateOp; simp only; split
    · rfl
    · omega
  simp only [CMap.validateOp, this, CMap.showRange]

/-- acceptance implies no gap at map level (the converse is FALSE: see the witness below) -/
theorem map_ok_no_gap_partial (s : CMap K V A) (d : Dot A) (k : K) (o : VOp)
    (h : CMap.validateOp ops toNat s (.up d k o) = .ok ()) : d.counter ≤ s.clock.get d.actor + 1 := by
  by_cases hg : s.clock.get d.actor + 1 < d.counter
  · rw [map_gap_rejected_partial ops toNat s d k o hg] at h; cases h
  · omega

end Crdt.C16

namespace Crdt.Witness
open Crdt CMap
def errCode : Except MapOpValidation Unit → Option (Nat × Nat × Nat)
  | .error (.sourceOrder a s e) => some (a, s, e)
  | _ => none
def mvOps : ValOps (MVReg Nat Nat) (MVOp Nat Nat) Nat :=
  { default := MVReg.init, apply := MVReg.apply, merge := MVReg.merge, resetRemove := MVReg.resetRemove,
    validateOp := fun _ _ => true, validateMerge := fun _ _ => true, eq := MVReg.eq }
def f7s0 : CMap Nat (MVReg Nat Nat) Nat := CMap.init
def f7op0 : MapOp Nat (MVOp Nat Nat) Nat :=
  CMap.update mvOps f7s0 0 (f7s0.readCtx.deriveAddCtx 0) (fun v ctx => v.write 5 ctx)
def f7s1 := CMap.apply mvOps f7s0 f7op0
def f7op1 : MapOp Nat (MVOp Nat Nat) Nat :=
  CMap.update mvOps f7s1 1 (f7s1.readCtx.deriveAddCtx 0) (fun v ctx => v.write 7 ctx)
/-- **F7 (known defect, C16)**: actor 0 updates key 0 then key 1; a replica that has applied the first op rejects the
second – the very next op of that actor – with `SourceOrder(0.(1..2))`, because key 1's (absent ⇒ empty) entry clock is
asked to validate dot (0,2) -/
theorem map_validate_rejects_in_order_op :
    errCode (CMap.validateOp mvOps id (CMap.apply mvOps CMap.init f7op0) f7op1) = some (0, 1, 2) := by decide
end Crdt.Witness
