import CrdtModel.Model.Map
import CrdtModel.Model.MVReg
import CrdtModel.Proofs.VClock
set_option linter.unusedSectionVars false
/-!
# C16 for `Map` (partial) and the witness of the known defect F7

`Map::validate_op` (src/map.rs:166-182) checks the dot against the MAP clock, then against the ENTRY clock of the key
(a default, empty entry if the key is absent), then asks the nested value.  The map-clock part is what the property asks
for; the entry-clock part rejects correct ops (an actor's dot is contiguous in the map clock, not in each entry clock).
-/
namespace Crdt.C16
open Crdt LinOrd CMap
variable {K V VOp A : Type} [LinOrd K] [LinOrd A] (ops : ValOps V VOp A) (toNat : A → Nat)

/-- key removes are always accepted -/
theorem map_rm_ok (s : CMap K V A) (c : VClock A) (ks : List K) : CMap.validateOp ops toNat s (.rm c ks) = .ok () := rfl

/-- a gap in the author's dots at MAP level is always rejected, with the exact range -/
theorem map_gap_rejected_partial (s : CMap K V A) (d : Dot A) (k : K) (o : VOp) (h : s.clock.get d.actor + 1 < d.counter) :
    CMap.validateOp ops toNat s (.up d k o) = .error (.sourceOrder (toNat d.actor) (s.clock.get d.actor + 1) d.counter) := by
  have : s.clock.validateOp d = .error ⟨d.actor, s.clock.get d.actor + 1, d.counter⟩ := by
    unfold VClock.validateOp; simp only; split
    · rfl
    · omega
  simp only [CMap.validateOp, this, CMap.showRange]

/-- acceptance implies no gap at map level (the converse is FALSE: see the witness below) -/
theorem map_ok_no_gap_partial (s : CMap K V A) (d : Dot A) (k : K) (o : VOp)
    (h : CMap.validateOp ops toNat s (.up d k o) = .ok ()) : d.counter ≤ s.clock.get d.actor + 1 := by
  by_cases hg : s.clock.get d.actor + 1 < d.counter
  · rw [map_gap_rejected_partial ops toNat s d k o hg] at h; cases h
  · omega

/-- **exact verdict, all states, every value type**: an update is accepted iff its dot skips no counter of the MAP clock, skips no
counter of the key's ENTRY clock (the empty clock when the key is absent), and the nested value accepts the nested op.  The middle clause is
the defect F7: on derivable states an entry clock is not contiguous in each actor, so in-order ops are rejected
(`Witness.map_validate_rejects_in_order_op`); the statement shows that it is the ONLY way a gap-free, nested-valid update is rejected. -/
theorem map_ok_iff (s : CMap K V A) (d : Dot A) (k : K) (o : VOp) :
    CMap.validateOp ops toNat s (.up d k o) = .ok () ↔
      d.counter ≤ s.clock.get d.actor + 1 ∧
      d.counter ≤ (((s.entries.get? k).getD ⟨∅, ops.default⟩).clock).get d.actor + 1 ∧
      ops.validateOp ((s.entries.get? k).getD ⟨∅, ops.default⟩).val o = true := by
  have v1 : ∀ c : VClock A, (c.validateOp d = .ok ()) ↔ d.counter ≤ c.get d.actor + 1 := by
    intro c; unfold VClock.validateOp; simp only; split
    · simp only [reduceCtorEq, false_iff]; omega
    · simp only [true_iff]; omega
  simp only [CMap.validateOp]
  cases h1 : s.clock.validateOp d with
  | error r =>
    simp only [reduceCtorEq, false_iff]
    intro ⟨a, _, _⟩
    have := (v1 s.clock).mpr a
    rw [h1] at this; cases this
  | ok u =>
    have a1 := (v1 s.clock).mp (by rw [h1])
    simp only
    cases h2 : (((s.entries.get? k).getD ⟨∅, ops.default⟩).clock).validateOp d with
    | error r =>
      simp only [reduceCtorEq, false_iff]
      intro ⟨_, b, _⟩
      have := (v1 _).mpr b
      rw [h2] at this; cases this
    | ok u2 =>
      have a2 := (v1 _).mp (by rw [h2])
      simp only
      by_cases h3 : ops.validateOp ((s.entries.get? k).getD ⟨∅, ops.default⟩).val o = true
      · simp only [h3, if_true, true_iff]; exact ⟨a1, a2, trivial⟩
      · simp only [h3, if_false, reduceCtorEq, false_iff]
        intro ⟨_, _, c⟩; exact c

/-- in particular: an update of a key the replica does not hold, by an actor whose dot is the next one at MAP level, with a nested op the
default value accepts, is accepted iff the dot's counter is 1 – i.e. only an actor's very FIRST update can create a key (F7 in one line) -/
theorem map_new_key_ok_iff (s : CMap K V A) (d : Dot A) (k : K) (o : VOp) (habs : s.entries.get? k = none)
    (hnext : d.counter = s.clock.get d.actor + 1) (hv : ops.validateOp ops.default o = true) :
    CMap.validateOp ops toNat s (.up d k o) = .ok () ↔ d.counter ≤ 1 := by
  rw [map_ok_iff, habs]
  simp only [Option.getD_none, hv, and_true]
  have : (∅ : VClock A).get d.actor = 0 := by simp
  rw [this]
  constructor
  · intro h; exact h.2
  · intro h; exact ⟨by omega, h⟩

/-- **the defect F7 in general form** (not only a witness): at EVERY Map state, for every actor that has already issued an update
(its entry in the map clock is ≥ 1) and every key the replica does not hold, the update the API itself builds
(`m.update(k, m.read_ctx().derive_add_ctx(a), …)`: dot = the actor's next dot) is REJECTED by `validate_op` – at its own origin, whatever the
value type, although it skips nothing.  (`hv`: the nested value accepts the nested op on the default value – true of every API-built
nested op.) -/
theorem map_second_key_always_rejected (s : CMap K V A) (a : A) (k : K) (o : VOp) (habs : s.entries.get? k = none)
    (hpos : 1 ≤ s.clock.get a) (hv : ops.validateOp ops.default o = true) :
    CMap.validateOp ops toNat s (.up (s.readCtx.deriveAddCtx a).dot k o) ≠ .ok () := by
  have hd : (s.readCtx.deriveAddCtx a).dot = ⟨a, s.clock.get a + 1⟩ := rfl
  rw [hd]
  intro h
  have := (map_new_key_ok_iff ops toNat s ⟨a, s.clock.get a + 1⟩ k o habs rfl hv).mp h
  simp only at this
  omega

/-- … with the exact error: `SourceOrder(a, 1 .. clock[a] + 1)` computed against the EMPTY entry clock -/
theorem map_second_key_error (s : CMap K V A) (a : A) (k : K) (o : VOp) (habs : s.entries.get? k = none)
    (hpos : 1 ≤ s.clock.get a) :
    CMap.validateOp ops toNat s (.up (s.readCtx.deriveAddCtx a).dot k o) =
      .error (.sourceOrder (toNat a) 1 (s.clock.get a + 1)) := by
  have hd : (s.readCtx.deriveAddCtx a).dot = ⟨a, s.clock.get a + 1⟩ := rfl
  rw [hd]
  have h1 : s.clock.validateOp ⟨a, s.clock.get a + 1⟩ = .ok () := by
    unfold VClock.validateOp; simp only; split
    · omega
    · rfl
  have h2 : (∅ : VClock A).validateOp ⟨a, s.clock.get a + 1⟩ = .error ⟨a, 1, s.clock.get a + 1⟩ := by
    unfold VClock.validateOp
    have : (∅ : VClock A).get a = 0 := by simp
    simp only [this]
    split
    · rfl
    · omega
  simp only [CMap.validateOp, h1, habs, Option.getD_none, h2, CMap.showRange]

end Crdt.C16

namespace Crdt.Witness
open Crdt CMap
def errCode : Except MapOpValidation Unit → Option (Nat × Nat × Nat)
  | .error (.sourceOrder a s e) => some (a, s, e)
  | _ => none
def mvOps : ValOps (MVReg Nat Nat) (MVOp Nat Nat) Nat :=
  { default := MVReg.init, apply := MVReg.apply, merge := MVReg.merge, resetRemove := MVReg.resetRemove,
    validateOp := fun _ _ => true, validateMerge := fun _ _ => true, eq := MVReg.eq }
def f7s0 : CMap Nat (MVReg Nat Nat) Nat := CMap.init
def f7op0 : MapOp Nat (MVOp Nat Nat) Nat :=
  CMap.update mvOps f7s0 0 (f7s0.readCtx.deriveAddCtx 0) (fun v ctx => v.write 5 ctx)
def f7s1 := CMap.apply mvOps f7s0 f7op0
def f7op1 : MapOp Nat (MVOp Nat Nat) Nat :=
  CMap.update mvOps f7s1 1 (f7s1.readCtx.deriveAddCtx 0) (fun v ctx => v.write 7 ctx)
/-- **F7 (known defect, C16)**: actor 0 updates key 0 then key 1; a replica that has applied the first op rejects the
second – the very next op of that actor – with `SourceOrder(0.(1..2))`, because key 1's (absent ⇒ empty) entry clock is
asked to validate dot (0,2) -/
theorem map_validate_rejects_in_order_op :
    errCode (CMap.validateOp mvOps id (CMap.apply mvOps CMap.init f7op0) f7op1) = some (0, 1, 2) := by decide
end Crdt.Witness
