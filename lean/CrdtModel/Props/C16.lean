import CrdtModel.Props.C17
import CrdtModel.Proofs.List
set_option linter.unusedSectionVars false
/-!
# C16 — `validate_op` accepts every in-order op and rejects every gap

* **VClock** (src/vclock.rs:108-123): accepted iff the dot's counter is at most the next one (`vclock_ok_iff`), the
  error is exactly `DotRange { actor, next..counter }` (`vclock_error`).
* **Orswot** (src/orswot.rs:57-62): an `Add` is checked against the replica clock, an `Rm` is always accepted – for ALL
  states (`orswot_add_ok_iff`, `orswot_add_error`, `orswot_rm_ok`).  On REACHABLE states of a history whose log is
  well-formed and contiguous per actor (what generation through the API gives): an add of the log is accepted **iff**
  all earlier adds of its author are known to the replica (`orswot_reach_ok_iff`) – in particular every op the delivery
  discipline allows (`orswot_deliverable_ok`), every op at its origin and every re-delivered op (`orswot_known_ok`) –
  and otherwise the verdict is exactly `DotRange actor (clk+1)..counter` (`orswot_reach_gap`).
* **List** (src/list.rs:259-261): the same check on `op.dot()` against the list's clock (all states); it panics on an
  insert op carrying the empty identifier (`list_validate_panics_iff`); ops built by `insert_index` / `delete_index`
  always validate at their origin.
* **LWWReg**: conflict ⇔ equal marker ∧ different value (see also C17); never under unique markers.
* **GCounter / PNCounter / GSet / MaxReg / MinReg / MVReg / GList**: `Validation = Infallible`, `validate_op` is the
  constant `Ok(())` in the Rust source (PNCounter delegates to GCounter's constant): the model has no function for a
  constant; the driver prints `ok` and the correspondence check compares it with the crate.
* Map and MerkleReg are handled elsewhere.
-/
namespace Crdt.C16
open Crdt LinOrd

/-! ## VClock -/
section vclock
variable {α : Type} [LinOrd α]

theorem vclock_ok_iff (c : VClock α) (d : Dot α) : c.validateOp d = .ok () ↔ d.counter ≤ c.get d.actor + 1 := by
  unfold VClock.validateOp; simp only; split
  · simp only [reduceCtorEq, false_iff]; omega
  · simp only [true_iff]; omega

theorem vclock_error (c : VClock α) (d : Dot α) (h : c.get d.actor + 1 < d.counter) :
    c.validateOp d = .error ⟨d.actor, c.get d.actor + 1, d.counter⟩ := by
  unfold VClock.validateOp; simp only; split
  · rfl
  · omega

/-- the verdict is one of the two, decided by the gap test -/
theorem vclock_verdict (c : VClock α) (d : Dot α) :
    (d.counter ≤ c.get d.actor + 1 ∧ c.validateOp d = .ok ()) ∨
    (c.get d.actor + 1 < d.counter ∧ c.validateOp d = .error ⟨d.actor, c.get d.actor + 1, d.counter⟩) := by
  by_cases h : d.counter ≤ c.get d.actor + 1
  · exact Or.inl ⟨h, (vclock_ok_iff c d).mpr h⟩
  · exact Or.inr ⟨by omega, vclock_error c d (by omega)⟩

/-- a clock's own next dot, an already-seen dot and a stale dot are accepted -/
theorem vclock_next_ok (c : VClock α) (a : α) : c.validateOp (c.inc a) = .ok () :=
  (vclock_ok_iff c _).mpr (Nat.le_refl _)
theorem vclock_seen_ok (c : VClock α) (d : Dot α) (h : d.counter ≤ c.get d.actor) : c.validateOp d = .ok () :=
  (vclock_ok_iff c d).mpr (by omega)

end vclock

/-! ## Orswot -/
section orswot
variable {M A : Type} [LinOrd M] [LinOrd A]
open Orswot OrswotSpec

theorem orswot_add_ok_iff (s : Orswot M A) (d : Dot A) (ms : List M) :
    s.validateOp (.add d ms) = .ok () ↔ d.counter ≤ s.clock.get d.actor + 1 := vclock_ok_iff s.clock d

theorem orswot_add_error (s : Orswot M A) (d : Dot A) (ms : List M) (h : s.clock.get d.actor + 1 < d.counter) :
    s.validateOp (.add d ms) = .error ⟨d.actor, s.clock.get d.actor + 1, d.counter⟩ := vclock_error s.clock d h

theorem orswot_rm_ok (s : Orswot M A) (c : VClock A) (ms : List M) : s.validateOp (.rm c ms) = .ok () := rfl

/-- what generation through the API gives: an actor's adds carry the counters 1, 2, 3, … without a gap -/
def Contiguous (U : List (OrswotOp M A)) : Prop :=
  ∀ d ms, OrswotOp.add d ms ∈ U →
    1 ≤ d.counter ∧ (1 < d.counter → ∃ ms', OrswotOp.add ⟨d.actor, d.counter - 1⟩ ms' ∈ U)

variable {U K : List (OrswotOp M A)} {s : Orswot M A}

/-- if an earlier add of the same actor is missing, the replica clock is strictly below it -/
theorem clk_lt_of_missing (wf : LogWF U) (cont : Contiguous U) (inv : Inv U K) {d' : Dot A} {ms' : List M}
    (hu : OrswotOp.add d' ms' ∈ U) (hk : OrswotOp.add d' ms' ∉ K) : clk K d'.actor < d'.counter := by
  have hpos := (cont d' ms' hu).1
  apply Classical.byContradiction
  intro hn
  obtain ⟨d2, ms2, hin2, ha2, hc2⟩ := clk_attained (K := K) (a := d'.actor) (by omega)
  by_cases hlt : d'.counter < d2.counter
  · exact hk (inv.closed d2 ms2 hin2 d' ms' hu ha2.symm hlt)
  · have : d' = d2 := by
      cases d'; cases d2; simp only at ha2 hc2 hlt hn
      simp only [Dot.mk.injEq]; exact ⟨ha2.symm, by omega⟩
    subst this
    have := wf.dot_unique d' ms' ms2 hu (inv.sub _ hin2)
    subst this; exact hk hin2

/-- **accept**: an add all of whose author's earlier adds are known is accepted -/
theorem orswot_reach_ok (wf : LogWF U) (cont : Contiguous U) (h : orswotSys.Reach U s K) {d : Dot A} {ms : List M}
    (hu : OrswotOp.add d ms ∈ U) (preds : PredsIn U K d) : s.validateOp (.add d ms) = .ok () := by
  have r := RepSys.reach_rep (R := orswotSys) wf h
  rw [orswot_add_ok_iff, r.2.clock]
  obtain ⟨hpos, hprev⟩ := cont d ms hu
  by_cases h1 : d.counter = 1
  · omega
  · obtain ⟨ms', hu'⟩ := hprev (by omega)
    have hin := preds ⟨d.actor, d.counter - 1⟩ ms' hu' rfl (by simp only; omega)
    have := le_clk hin
    simp only at this; omega

/-- **reject**: if applying would skip one of the author's adds, the verdict is the exact missing range -/
theorem orswot_reach_gap (wf : LogWF U) (cont : Contiguous U) (h : orswotSys.Reach U s K) {d : Dot A} {ms : List M}
    (hmiss : ∃ d' ms', OrswotOp.add d' ms' ∈ U ∧ d'.actor = d.actor ∧ d'.counter < d.counter ∧ OrswotOp.add d' ms' ∉ K) :
    s.validateOp (.add d ms) = .error ⟨d.actor, clk K d.actor + 1, d.counter⟩ := by
  have r := RepSys.reach_rep (R := orswotSys) wf h
  obtain ⟨d', ms', hu', ha, hlt, hk⟩ := hmiss
  have := clk_lt_of_missing wf cont r.1 hu' hk
  rw [ha] at this
  have e := orswot_add_error s d ms (by rw [r.2.clock]; omega)
  rw [r.2.clock] at e; exact e

/-- **exact**: on reachable states an add of the log is accepted iff none of its author's earlier adds is missing -/
theorem orswot_reach_ok_iff (wf : LogWF U) (cont : Contiguous U) (h : orswotSys.Reach U s K) {d : Dot A} {ms : List M}
    (hu : OrswotOp.add d ms ∈ U) : s.validateOp (.add d ms) = .ok () ↔ PredsIn U K d := by
  constructor
  · intro hok d' ms' hu' ha hlt
    apply Classical.byContradiction
    intro hk
    rw [orswot_reach_gap wf cont h ⟨d', ms', hu', ha, hlt, hk⟩] at hok
    cases hok
  · exact orswot_reach_ok wf cont h hu

/-- every op the delivery discipline allows is accepted (adds in author order, removes always) -/
theorem orswot_deliverable_ok (wf : LogWF U) (cont : Contiguous U) (h : orswotSys.Reach U s K) {op : OrswotOp M A}
    (hu : op ∈ U) (ok : OrswotSpec.Ok U K op) : s.validateOp op = .ok () := by
  cases op with
  | add d ms => exact orswot_reach_ok wf cont h hu ok
  | rm c ms => rfl

/-- an op the replica already knows – at its origin right after generation, or on re-delivery – is accepted -/
theorem orswot_known_ok (wf : LogWF U) (cont : Contiguous U) (h : orswotSys.Reach U s K) {op : OrswotOp M A}
    (hk : op ∈ K) : s.validateOp op = .ok () := by
  have r := RepSys.reach_rep (R := orswotSys) wf h
  exact orswot_deliverable_ok wf cont h (r.1.sub _ hk) (ok_of_mem r.1 hk)

/-- the op generated from the replica's own read context validates against that replica (before it is applied) -/
theorem orswot_own_add_ok (s : Orswot M A) (a : A) (m : M) :
    s.validateOp (Orswot.add m (s.readCtx.deriveAddCtx a)) = .ok () :=
  (orswot_add_ok_iff s _ _).mpr (Nat.le_refl _)

end orswot

/-! ## List -/
section list
variable {τ α : Type} [LinOrd α]
open ListCrdt

theorem list_dot_none_iff (op : ListOp τ α) : op.dot = none ↔ ∃ v, op = .insert ⟨[]⟩ v := by
  rw [← apply?_eq_none_iff (ListCrdt.new : ListCrdt τ α) op]
  cases h : op.dot with
  | none => simp [apply?, h]
  | some d =>
    simp only [reduceCtorEq, false_iff, apply?, h]
    split
    · simp
    · cases op <;> simp

/-- `validate_op` panics (inside `op.dot()`) exactly on an insert op carrying the empty identifier -/
theorem list_validate_panics_iff (s : ListCrdt τ α) (op : ListOp τ α) :
    s.validateOp op = none ↔ ∃ v, op = .insert ⟨[]⟩ v := by
  rw [← list_dot_none_iff]; simp [validateOp]

/-- otherwise it is the clock check on the op's dot -/
theorem list_validate_eq (s : ListCrdt τ α) {op : ListOp τ α} {d : Dot α} (hd : op.dot = some d) :
    s.validateOp op = some (s.clock.validateOp d) := by simp [validateOp, hd]

theorem list_ok_iff (s : ListCrdt τ α) {op : ListOp τ α} {d : Dot α} (hd : op.dot = some d) :
    s.validateOp op = some (.ok ()) ↔ d.counter ≤ s.clock.get d.actor + 1 := by
  rw [list_validate_eq s hd, Option.some.injEq, vclock_ok_iff]

theorem list_error (s : ListCrdt τ α) {op : ListOp τ α} {d : Dot α} (hd : op.dot = some d)
    (h : s.clock.get d.actor + 1 < d.counter) :
    s.validateOp op = some (.error ⟨d.actor, s.clock.get d.actor + 1, d.counter⟩) := by
  rw [list_validate_eq s hd, vclock_error s.clock d h]

/-- ops built through the API validate at their origin (whatever the state) -/
theorem list_own_insert_ok (s : ListCrdt τ α) (ix : Nat) (x : τ) (a : α) :
    s.validateOp (s.insertIndex ix x a) = some (.ok ()) :=
  (list_ok_iff s (insertIndex_dot s ix x a)).mpr (Nat.le_refl _)

theorem list_own_delete_ok (s : ListCrdt τ α) (ix : Nat) (a : α) {op : ListOp τ α} (h : s.deleteIndex ix a = some op) :
    s.validateOp op = some (.ok ()) := by
  simp only [deleteIndex] at h
  cases hk : s.keys[ix]? with
  | none => simp [hk] at h
  | some id =>
    simp only [hk, Option.map_some, Option.some.injEq] at h
    subst h
    exact (list_ok_iff s (d := s.clock.inc a) rfl).mpr (Nat.le_refl _)

/-- an op that `apply` would ignore as already seen is accepted; an op that `apply` would take is accepted iff it is
the author's next one -/
theorem list_seen_ok (s : ListCrdt τ α) {op : ListOp τ α} {d : Dot α} (hd : op.dot = some d)
    (h : d.counter ≤ s.clock.get d.actor) : s.validateOp op = some (.ok ()) := (list_ok_iff s hd).mpr (by omega)

end list

/-! ## LWWReg -/
section lww
variable {ν μ : Type} [DecidableEq ν] [LinOrd μ]

theorem lww_conflict_iff (s op : LWWReg ν μ) :
    s.validateOp op = .error .conflictingMarker ↔ (s.marker = op.marker ∧ op.val ≠ s.val) := C17.lww_op_conflict_iff s op

theorem lww_ok_iff (s op : LWWReg ν μ) : s.validateOp op = .ok () ↔ ¬ (s.marker = op.marker ∧ op.val ≠ s.val) :=
  C17.lww_merge_ok_iff s op

theorem lww_ok_reachable (r0 : LWWReg ν μ) {U K : List (LWWReg ν μ)} {s op : LWWReg ν μ} (wf : UniqueMarkers r0 U)
    (h : (lwwSys r0).Reach U s K) (hop : op ∈ U) : s.validateOp op = .ok () := C17.lww_op_ok_reachable r0 wf h hop

end lww

/-! ## non-vacuity: a contiguous well-formed log, an in-order and an out-of-order delivery -/
section examples
open OrswotSpec
def exU : List (OrswotOp Nat Nat) := [.add ⟨0, 1⟩ [5], .add ⟨0, 2⟩ [6]]
example : LogWF exU ∧ Contiguous exU := by
  refine ⟨⟨?_, ?_⟩, ?_⟩
  · intro d ms ms' h1 h2
    simp only [exU, List.mem_cons, OrswotOp.add.injEq, List.mem_nil_iff, or_false] at h1 h2
    rcases h1 with ⟨rfl, rfl⟩ | ⟨rfl, rfl⟩ <;> rcases h2 with ⟨h, rfl⟩ | ⟨h, rfl⟩ <;> first | rfl | (cases h)
  · intro c ms h; simp [exU] at h
  · intro d ms h
    simp only [exU, List.mem_cons, OrswotOp.add.injEq, List.mem_nil_iff, or_false] at h
    rcases h with ⟨rfl, _⟩ | ⟨rfl, _⟩
    · simp
    · exact ⟨by simp, fun _ => ⟨[5], by simp [exU]⟩⟩
/-- the empty replica accepts the first add and rejects the second with the exact range `0: 1..2` -/
example : (Orswot.init : Orswot Nat Nat).validateOp (.add ⟨0, 1⟩ [5]) = .ok () ∧
    (Orswot.init : Orswot Nat Nat).validateOp (.add ⟨0, 2⟩ [6]) = .error ⟨0, 1, 2⟩ := ⟨rfl, rfl⟩
end examples

end Crdt.C16
