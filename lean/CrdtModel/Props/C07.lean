import CrdtModel.Props.C04
import CrdtModel.Props.C05
set_option linter.unusedSectionVars false
/-!
# C07 — read contexts are exact causal witnesses and derived dots are fresh (top-level Orswot; Map and MVReg below)

Every read entry point of `Orswot` (`read`, `read_ctx`, `contains`, `iter`) is covered: the model functions return
`ReadCtx` records whose clocks are, by definition, the replica clock / the member's entry clock; the theorems say what
those are in terms of the knowledge set `K`.
-/
namespace Crdt.C07
open Crdt LinOrd RepSys OrswotSpec Orswot
variable {M A : Type} [LinOrd M] [LinOrd A] {U K : List (OrswotOp M A)} {s : Orswot M A}

/-- the add context of every read entry point is the replica clock … -/
theorem add_clock_all_entry_points (m : M) :
    s.read.addClock = s.clock ∧ s.readCtx.addClock = s.clock ∧ (s.contains m).addClock = s.clock ∧
    (∀ r ∈ s.iter, r.addClock = s.clock) := by
  refine ⟨rfl, rfl, rfl, ?_⟩
  intro r hr
  simp only [Orswot.iter, List.mem_map] at hr
  obtain ⟨p, _, e⟩ := hr; rw [← e]

/-- … which covers every add the replica has applied -/
theorem add_clock_covers (wf : LogWF U) (h : orswotSys.Reach U s K) {d : Dot A} {ms : List M}
    (hin : OrswotOp.add d ms ∈ K) : d.counter ≤ s.read.addClock.get d.actor := by
  rw [C04.read_add_clock wf h]; exact le_clk hin

/-- whole-structure reads: remove context = add context -/
theorem whole_read_rm_clock : s.read.rmClock = s.read.addClock ∧ s.readCtx.rmClock = s.readCtx.addClock := ⟨rfl, rfl⟩

/-- element-level remove context = exactly that element's surviving witnesses (`contains` and `iter`) -/
theorem element_rm_clock (wf : LogWF U) (h : orswotSys.Reach U s K) (m : M) (a : A) :
    (s.contains m).rmClock.get a = E K m a := by
  have := C04.contains_rm_clock wf h m a; unfold E; exact this

theorem iter_rm_clock (wf : LogWF U) (h : orswotSys.Reach U s K) (r : ReadCtx M A) (hr : r ∈ s.iter) (a : A) :
    r.rmClock.get a = E K r.val a := by
  simp only [Orswot.iter, List.mem_map] at hr
  obtain ⟨p, hp, e⟩ := hr
  have hg : s.entries.get? p.1 = some p.2 := AL.get?_of_mem s.entries.sorted hp
  have := (C04.rep wf h).entries p.1 a
  rw [← e]; simpa [entryGet, hg] using this

/-- empty iff absent -/
theorem rm_clock_empty_iff_absent (wf : LogWF U) (h : orswotSys.Reach U s K) (m : M) :
    (s.contains m).rmClock.isEmpty = true ↔ (s.contains m).val = false := by
  have r := C04.rep wf h
  simp only [Orswot.contains]
  cases hg : s.entries.get? m with
  | none => simp [VClock.isEmpty, FMap.isEmpty, EmptyCollection.emptyCollection, FMap.empty]
  | some mc => simp [(r.ewf m mc hg).2]

/-- never exceeds the add context -/
theorem rm_clock_le_add_clock (wf : LogWF U) (h : orswotSys.Reach U s K) (m : M) :
    (s.contains m).rmClock.le (s.contains m).addClock := by
  intro a
  rw [element_rm_clock wf h]
  show _ ≤ s.clock.get a
  rw [(C04.rep wf h).clock a]; exact E_le_clk K m a

/-- **freshness**: the dot derived for actor `i` is `i`'s next unused one – no op of the whole history by `i` carries it,
provided the replica knows all of `i`'s own adds (each actor edits at one replica and applies its ops as it goes) -/
theorem derived_dot_fresh (wf : LogWF U) (h : orswotSys.Reach U s K) (i : A)
    (own : ∀ d ms, OrswotOp.add d ms ∈ U → d.actor = i → OrswotOp.add d ms ∈ K) :
    (s.read.deriveAddCtx i).dot = ⟨i, clk K i + 1⟩ ∧
    ∀ d ms, OrswotOp.add d ms ∈ U → d.actor = i → d.counter < (s.read.deriveAddCtx i).dot.counter := by
  have hc := C04.read_add_clock wf h i
  have hdot : (s.read.deriveAddCtx i).dot = ⟨i, clk K i + 1⟩ := by
    simp only [ReadCtx.deriveAddCtx, VClock.inc, VClock.dot, Dot.inc]; rw [hc]
  refine ⟨hdot, fun d ms hu ha => ?_⟩
  rw [hdot]
  have := le_clk (own d ms hu ha)
  rw [ha] at this; simp only; omega

/-- the add context's clock covers the new dot (so the op built from it is never mistaken for an earlier one) -/
theorem derived_ctx_clock (i : A) (a : A) :
    (s.read.deriveAddCtx i).clock.get a = if a = i then s.clock.get i + 1 else s.clock.get a := by
  simp only [ReadCtx.deriveAddCtx, Orswot.read, VClock.get_apply, VClock.inc, VClock.dot, Dot.inc]
  by_cases e : a = i
  · subst e; simp only [if_true]; omega
  · simp [e]

/-- **a remove built from a read context cannot affect anything the reader had not seen**: every add of the history
that the context covers is already known to the reader -/
theorem rm_ctx_covers_only_seen (wf : LogWF U) (h : orswotSys.Reach U s K) (c : VClock A)
    (hc : c.le s.clock) {d : Dot A} {ms : List M} (hu : OrswotOp.add d ms ∈ U) (hpos : 0 < d.counter)
    (hcov : d.counter ≤ c.get d.actor) : OrswotOp.add d ms ∈ K := by
  have inv := (reach_rep (R := orswotSys) wf h).1
  have r := C04.rep wf h
  have h1 : d.counter ≤ clk K d.actor := by have := hc d.actor; rw [r.clock] at this; omega
  obtain ⟨d2, ms2, hd2, ha2, hc2⟩ := clk_attained (K := K) (a := d.actor) (by omega)
  by_cases hlt : d.counter < d2.counter
  · exact inv.closed d2 ms2 hd2 d ms hu ha2.symm hlt
  · have : d = d2 := by cases d; cases d2; simp at *; exact ⟨ha2.symm, by omega⟩
    subst this
    have := wf.dot_unique d ms ms2 hu (inv.sub _ hd2)
    subst this; exact hd2

/-- the contexts handed out by `contains`/`read` satisfy that premise -/
theorem read_ctx_le_clock (wf : LogWF U) (h : orswotSys.Reach U s K) (m : M) :
    (s.contains m).deriveRmCtx.clock.le s.clock ∧ s.read.deriveRmCtx.clock.le s.clock :=
  ⟨rm_clock_le_add_clock wf h m, VClock.le_refl _⟩

/-! ## Map (top level; any value type): `get`, `keys`, `values`, `iter`, `len`, `is_empty`, `read_ctx` -/
section map
open CMap
variable {K' V VOp : Type} [LinOrd K'] {ops : ValOps V VOp A} {UM L : List (MapOp K' VOp A)} {m : CMap K' V A}

/-- the add context of every Map read entry point is the map clock, which covers every update the replica applied -/
theorem map_add_clock_covers (wf : LogWF (keyLog UM)) (h : CMap.Reach ops UM m L) {d : Dot A} {k : K'} {o : VOp}
    (hin : MapOp.up d k o ∈ L) : d.counter ≤ m.readCtx.addClock.get d.actor := by
  have r := (keys_rep wf h).2
  show d.counter ≤ m.clock.get d.actor
  rw [show m.clock = m.keysView.clock from rfl, r.clock]
  exact le_clk (C05.add_mem_keyLog_mpr hin).1

/-- element-level remove context (`get`, and `keys` via `C05.keys_entry`) = exactly the key's surviving update witnesses -/
theorem map_get_rm_clock (wf : LogWF (keyLog UM)) (h : CMap.Reach ops UM m L) (k : K') (a : A) :
    (m.get k).rmClock.get a = E (keyLog L) k a := C05.get_rm_clock wf h k a

/-- never exceeds the add context -/
theorem map_rm_clock_le_add_clock (wf : LogWF (keyLog UM)) (h : CMap.Reach ops UM m L) (k : K') :
    (m.get k).rmClock.le (m.get k).addClock := by
  intro a
  rw [map_get_rm_clock wf h]
  show _ ≤ m.clock.get a
  rw [show m.clock = m.keysView.clock from rfl, (keys_rep wf h).2.clock a]
  exact E_le_clk _ k a

/-- whole-structure reads (`len`, `is_empty`, `read_ctx`): remove context = add context -/
theorem map_whole_read_rm_clock : m.len.rmClock = m.len.addClock ∧ m.isEmpty.rmClock = m.isEmpty.addClock ∧
    m.readCtx.rmClock = m.readCtx.addClock := ⟨rfl, rfl, rfl⟩

/-- **freshness** of the dot derived for actor `i` at a replica that knows all of `i`'s own updates -/
theorem map_derived_dot_fresh (wf : LogWF (keyLog UM)) (h : CMap.Reach ops UM m L) (i : A)
    (own : ∀ d k o, MapOp.up d k o ∈ UM → d.actor = i → MapOp.up d k o ∈ L) :
    (m.readCtx.deriveAddCtx i).dot = ⟨i, clk (keyLog L) i + 1⟩ ∧
    ∀ d k o, MapOp.up d k o ∈ UM → d.actor = i → d.counter < (m.readCtx.deriveAddCtx i).dot.counter := by
  have hc : m.clock.get i = clk (keyLog L) i := by
    rw [show m.clock = m.keysView.clock from rfl]; exact (keys_rep wf h).2.clock i
  have hdot : (m.readCtx.deriveAddCtx i).dot = ⟨i, clk (keyLog L) i + 1⟩ := by
    simp only [ReadCtx.deriveAddCtx, CMap.readCtx, VClock.inc, VClock.dot, Dot.inc]; rw [hc]
  refine ⟨hdot, fun d k o hu ha => ?_⟩
  rw [hdot]
  have := le_clk (C05.add_mem_keyLog_mpr (own d k o hu ha)).1
  rw [ha] at this; simp only; omega

end map

end Crdt.C07
