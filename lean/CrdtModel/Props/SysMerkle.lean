import CrdtModel.Proofs.SysMerkle
set_option linter.unusedSectionVars false
/-!
# MerkleReg theorems for every execution of the system – the only hypothesis left is "no hash collision in the log"

`Run hash c` : `c` is a configuration of a system in which every node was produced by `write(v, read().hashes())` at the
issuing replica's current state (`Spec/SysMerkle.lean`), nodes of the log are delivered in ANY order, any number of times,
and states are merged between replicas and with saved states.  `c.View s K` : `s` is the state of one of `c`'s replicas or
saved states and `K` the list of nodes it has received.

**The assumption.**  `inj : InjOn hash c.log` – `hash` (sha3 in the crate, abstract here) takes different values on
different nodes of the log of the run, i.e. on the nodes that ever exist.  It cannot be proved (the hash is a parameter) and
it is threaded as this ONE hypothesis; since the log only grows, it covers every earlier configuration of the run
(`injOn_of_steps`).  `Function.Injective hash` implies it (`injOn_of_injective`).  `run_reach` needs no hypothesis at all.

What C15 assumed about which nodes exist is now proved: the children of every node are nodes of the log, created before it
(`run_children_first`, `run_children_in_log`, `run_acyclic`, `run_no_cycle`), the ancestors of an orphan exist
(`run_eventually_visible`), the written node was never received before (`run_written_fresh`).
-/
namespace Crdt.SysMerkle
open Crdt LinOrd RepSys MerkleSpec Crdt.Sys
variable {H : Type} [LinOrd H] {τ A : Type} [LinOrd A] {hash : Node H τ → H} {c : Cfg H τ A}
  {s s' s'' : MerkleReg H τ} {K K' K'' : List (Node H τ)}

/-- a globally injective hash is in particular collision-free on every log -/
theorem injOn_of_injective (hinj : ∀ a b : Node H τ, hash a = hash b → a = b) (l : List (Node H τ)) : InjOn hash l :=
  fun a _ b _ e => hinj a b e

/-! ## the invariant -/

/-- (a) every replica state of every run is `Reach`-derivable over the run's log, with the replica's knowledge –
NO hypothesis, not even on `hash` -/
theorem run_reach (r : Run hash c) (i : A) : (merkleSys hash).Reach c.log (c.rep i) (c.know i) := (sysInv_run r).reach i

theorem run_reach_snap (r : Run hash c) {p : MerkleReg H τ × List (Node H τ)} (hp : p ∈ c.snaps) :
    (merkleSys hash).Reach c.log p.1 p.2 := (sysInv_run r).snaps p hp

theorem run_view_reach (r : Run hash c) (v : c.View s K) : (merkleSys hash).Reach c.log s K := (sysInv_run r).view v

theorem reach_know_sub {U : List (Node H τ)} (h : (merkleSys hash).Reach U s K) : ∀ n, n ∈ K → n ∈ U := by
  induction h with
  | init => intro n hn; cases hn
  | apply _ hu _ ih =>
    intro n hn
    rcases List.mem_cons.mp hn with e | hn
    · subst e; exact hu
    · exact ih n hn
  | merge _ _ ih1 ih2 =>
    intro n hn
    rcases List.mem_append.mp hn with h | h
    · exact ih1 n h
    · exact ih2 n h

/-- what a replica or saved state has received was created in this run -/
theorem run_know_sub_log (r : Run hash c) (v : c.View s K) : ∀ n, n ∈ K → n ∈ c.log := reach_know_sub (run_view_reach r v)

/-- (b) the well-formedness predicate of `merkleSys` for the log of the run IS the assumption -/
theorem run_wf (inj : InjOn hash c.log) : (merkleSys hash).WF c.log := inj

/-- (c) every node of the log was created after all its children (the log is newest first) -/
theorem run_children_first (r : Run hash c) (inj : InjOn hash c.log) : ChildrenFirst hash c.log := childrenFirst_run r inj

/-- (c) **closure**: every child hash of a node of the log is the hash of a node of the log -/
theorem run_children_in_log (r : Run hash c) (inj : InjOn hash c.log) {n : Node H τ} (hn : n ∈ c.log) {x : H}
    (hc : n.children.contains x = true) : ∃ m, m ∈ c.log ∧ hash m = x := (childrenFirst_run r inj).closed n hn x hc

/-- (d) **acyclicity**: the child relation on the log is well-founded … -/
theorem run_acyclic (r : Run hash c) (inj : InjOn hash c.log) : WellFounded (Child hash c.log) :=
  (childrenFirst_run r inj).wf inj

/-- … so no node is its own ancestor -/
theorem run_no_cycle (r : Run hash c) (inj : InjOn hash c.log) (n : Node H τ) :
    ¬ Relation.TransGen (Child hash c.log) n n := by
  have wf := (run_acyclic r inj).transGen
  intro h
  have a := wf.apply n
  induction a with
  | intro n _ ih => exact ih n h h

/-- the ancestors of a node of the log are nodes of the log -/
theorem run_ancestors_in_log {m n : Node H τ} (hn : n ∈ c.log) (a : Anc hash c.log m n) : m ∈ c.log := a.mem_log hn

/-! ## hypothesis-free (except the hash) corollaries of C15 -/

/-- **the state is a function of the set of received nodes**: two replicas / saved states of a run that have received the
same node set – in whatever orders, with whatever duplications and merges – are equal -/
theorem run_state_function_of_node_set (r : Run hash c) (inj : InjOn hash c.log) (v : c.View s K) (v' : c.View s' K')
    (e : ∀ n, n ∈ K ↔ n ∈ K') : s = s' :=
  C15.state_function_of_node_set inj (run_view_reach r v) (run_view_reach r v') e

theorem run_state_function_rep (r : Run hash c) (inj : InjOn hash c.log) (i j : A)
    (e : ∀ n, n ∈ c.know i ↔ n ∈ c.know j) : c.rep i = c.rep j := run_state_function_of_node_set r inj (.rep i) (.rep j) e

/-- the same across TIME: a state held at some point of a run and a state held any number of steps later -/
theorem run_state_function_later {c' : Cfg H τ A} (r : Run hash c) (st : Steps hash c c') (inj : InjOn hash c'.log)
    (v : c.View s K) (v' : c'.View s' K') (e : ∀ n, n ∈ K ↔ n ∈ K') : s = s' := by
  have inv' := sysInv_steps (sysInv_run r) st
  exact C15.state_function_of_node_set inj (steps_reach_mono st (run_view_reach r v)) (inv'.view v') e

/-- `dag` = the received nodes all of whose ancestors have been received; `orphans` = the other received nodes -/
theorem run_dag_eq_visible (r : Run hash c) (inj : InjOn hash c.log) (v : c.View s K) (x : H) (n : Node H τ) :
    s.dag.get? x = some n ↔ (hash n = x ∧ Visible hash K n) := C15.dag_eq_visible inj (run_view_reach r v) x n

theorem run_orphans_eq_invisible (r : Run hash c) (inj : InjOn hash c.log) (v : c.View s K) (x : H) (n : Node H τ) :
    s.orphans.get? x = some n ↔ (hash n = x ∧ n ∈ K ∧ ¬ Visible hash K n) :=
  C15.orphans_eq_invisible inj (run_view_reach r v) x n

/-- **`read()` = the DAG heads** of what has been received -/
theorem run_read_eq_heads (r : Run hash c) (inj : InjOn hash c.log) (v : c.View s K) (x : H) (n : Node H τ) :
    s.read.get? x = some n ↔ (hash n = x ∧ Head hash K n) := C15.read_eq_heads inj (run_view_reach r v) x n

/-- a visible node is in the dag under its hash and not among the orphans -/
theorem run_visible_in_dag (r : Run hash c) (inj : InjOn hash c.log) (v : c.View s K) {n : Node H τ}
    (vis : Visible hash K n) : s.dag.get? (hash n) = some n ∧ s.orphans.get? (hash n) = none := by
  refine ⟨(run_dag_eq_visible r inj v _ n).mpr ⟨rfl, vis⟩, ?_⟩
  cases ho : s.orphans.get? (hash n) with
  | none => rfl
  | some m =>
    have hm := (run_orphans_eq_invisible r inj v _ m).mp ho
    have sub := run_know_sub_log r v
    have : m = n := inj m (sub m hm.2.1) n (sub n vis.1) hm.1
    subst this
    exact absurd vis hm.2.2

/-- **a replica that has received every node of the log has no orphans and its dag is the whole log** (uses closure) -/
theorem run_no_orphans_when_complete (r : Run hash c) (inj : InjOn hash c.log) (v : c.View s K)
    (complete : ∀ n, n ∈ c.log → n ∈ K) :
    s.orphans = ∅ ∧ ∀ x n, s.dag.get? x = some n ↔ (hash n = x ∧ n ∈ c.log) := by
  have sub := run_know_sub_log r v
  have e : ∀ n, n ∈ K ↔ n ∈ c.log := fun n => ⟨sub n, complete n⟩
  have vis : ∀ n, n ∈ c.log → Visible hash K n := fun n hn =>
    (MerkleSpec.visible_congr hash e n).mpr ((childrenFirst_run r inj).all_visible n hn)
  constructor
  · apply FMap.ext
    intro x
    rw [FMap.get?_empty]
    cases ho : s.orphans.get? x with
    | none => rfl
    | some m =>
      have hm := (run_orphans_eq_invisible r inj v x m).mp ho
      exact absurd (vis m (sub m hm.2.1)) hm.2.2
  · intro x n
    rw [run_dag_eq_visible r inj v x n]
    exact ⟨fun h => ⟨h.1, sub n h.2.1⟩, fun h => ⟨h.1, vis n h.2⟩⟩

/-- exactly when: a received node is visible iff all its ancestors (which ARE in the log, by closure) have been received -/
theorem run_visible_iff_ancestors (r : Run hash c) (inj : InjOn hash c.log) (v : c.View s K) {n : Node H τ}
    (hn : n ∈ K) : Visible hash K n ↔ ∀ m, Anc hash c.log m n → m ∈ K := by
  have sub := run_know_sub_log r v
  constructor
  · intro vis m a; exact (ancestors_of_visible inj sub a vis).1
  · intro hanc; exact visible_of_ancestors (childrenFirst_run r inj) inj (sub n hn) hanc

/-- **an orphan becomes visible once all its ancestors have been delivered**: at any replica / saved state, at any time,
that has received `n` and all the ancestors of `n`, `n` is in the dag and no longer an orphan -/
theorem run_eventually_visible (r : Run hash c) (inj : InjOn hash c.log) (v : c.View s K) {n : Node H τ}
    (hn : n ∈ c.log) (hanc : ∀ m, Anc hash c.log m n → m ∈ K) :
    s.dag.get? (hash n) = some n ∧ s.orphans.get? (hash n) = none :=
  run_visible_in_dag r inj v (visible_of_ancestors (childrenFirst_run r inj) inj hn hanc)

/-- … and until then it stays an orphan: a received node with an ancestor that has not been received is held in `orphans` -/
theorem run_orphan_until (r : Run hash c) (inj : InjOn hash c.log) (v : c.View s K) {n m : Node H τ} (hn : n ∈ K)
    (a : Anc hash c.log m n) (hm : m ∉ K) : s.orphans.get? (hash n) = some n :=
  (run_orphans_eq_invisible r inj v _ n).mpr
    ⟨rfl, hn, fun vis => hm ((run_visible_iff_ancestors r inj v hn).mp vis m a)⟩

/-- the step form: right after the delivery that supplies the last missing ancestor (of however many orphans, through
however long chains), all of them are in the dag, within that one `apply` -/
theorem run_deliver_resolves (r : Run hash c) (inj : InjOn hash c.log) (i : A) {nd : Node H τ} (hu : nd ∈ c.log)
    {n : Node H τ} (hn : n ∈ c.log) (hanc : ∀ m, Anc hash c.log m n → m ∈ nd :: c.know i) :
    (MerkleReg.apply hash (c.rep i) nd).dag.get? (hash n) = some n ∧
      (MerkleReg.apply hash (c.rep i) nd).orphans.get? (hash n) = none := by
  have r' : Run hash (c.deliver hash i nd) := Run.step r (Step.deliver c i nd hu)
  have := run_eventually_visible (c := c.deliver hash i nd) r' inj (.rep i) hn
    (by rw [Cfg.deliver_know_same]; exact hanc)
  rw [Cfg.deliver_rep_same] at this
  exact this

/-! ## `write` -/

/-- the children listed by a write are exactly the hashes of the heads the writer reads -/
theorem run_written_children (r : Run hash c) (inj : InjOn hash c.log) (i : A) (v : τ) (x : H) :
    (c.written i v).children.contains x = true ↔ ∃ m, hash m = x ∧ Head hash (c.know i) m :=
  written_children (sysInv_run r) inj i v x

/-- the node a write builds has never been received by its writer (it may exist already: another replica may have written
the same value on the same heads) -/
theorem run_written_fresh (r : Run hash c) (inj : InjOn hash c.log) (i : A) (v : τ) : c.written i v ∉ c.know i := by
  intro hk
  have sub := run_know_sub_log r (.rep i)
  have kids := run_written_children r inj i v
  have ndVis : Visible hash (c.know i) (c.written i v) := by
    refine ⟨hk, fun x hc => ?_⟩
    obtain ⟨m, e, hm⟩ := (kids x).mp hc
    rw [← e]; exact hm.1.visH hash
  obtain ⟨m, _, vm, mx⟩ := (childrenFirst_run r inj).exists_max inj (Visible hash (c.know i)) ⟨_, sub _ hk, ndVis⟩
  have hd : Head hash (c.know i) m := ⟨vm, fun p vp => mx p (sub p vp.1) vp⟩
  have := hd.2 _ ndVis
  rw [(kids (hash m)).mpr ⟨m, rfl, hd⟩] at this
  cases this

/-- the written node is applied at once at its origin and is visible there at once (never an orphan) -/
theorem run_write_visible (r : Run hash c) (i : A) (v : τ) (inj : InjOn hash (c.written i v :: c.log)) :
    ((c.gen hash i (c.written i v)).rep i).dag.get? (hash (c.written i v)) = some (c.written i v) := by
  have inj0 : InjOn hash c.log := inj.mono (fun n hn => List.mem_cons_of_mem _ hn)
  have r' : Run hash (c.gen hash i (c.written i v)) := Run.step r (Step.write c i v)
  refine (run_dag_eq_visible (c := c.gen hash i (c.written i v)) r' inj (.rep i) _ _).mpr ⟨rfl, ?_⟩
  rw [Cfg.gen_know_same]
  refine ⟨List.mem_cons_self, fun x hc => ?_⟩
  obtain ⟨m, e, hm⟩ := (run_written_children r inj0 i v x).mp hc
  rw [← e]
  exact (hm.1.mono hash (fun n hn => List.mem_cons_of_mem _ hn)).visH hash

/-
INTENDED (`run_write_replaces_heads`): after `write i v` replica `i` reads exactly the new node – for EVERY write step.
FALSE as stated (`write_not_sole_head` below, kernel-checked): the very same node may have been created before by
another replica `j` that was in the same state, `j` may have written `m` on top of it, and `m` may have overtaken it on the
way to `i` (an orphan there).  When `i` then writes, its node resolves the orphan and `m`, not the node written, is the head.
What is missing is exactly `unlisted`: no node received at `i` lists the hash of the written node.  It holds whenever the
written node is new in the log (`run_write_replaces_heads_new`).  C15's other hypothesis (`fresh`) is now a theorem.
-/
/-- **after `write i v` replica `i` reads exactly the new node**, provided no node it has received lists the new node -/
theorem run_write_replaces_heads_partial (r : Run hash c) (i : A) (v : τ) (inj : InjOn hash (c.written i v :: c.log))
    (unlisted : ∀ m, m ∈ c.know i → m.children.contains (hash (c.written i v)) = false) :
    ((c.gen hash i (c.written i v)).rep i).read =
      (∅ : FMap H (Node H τ)).insert (hash (c.written i v)) (c.written i v) := by
  have subl : ∀ n, n ∈ c.log → n ∈ c.written i v :: c.log := fun n hn => List.mem_cons_of_mem _ hn
  have inj0 : InjOn hash c.log := inj.mono subl
  rw [Cfg.gen_rep_same]
  exact C15.write_resolves inj (reach_mono subl (run_reach r i)) v List.mem_cons_self (run_written_fresh r inj0 i v) unlisted

/-- in particular when the written node is new (no replica has created the same node before) -/
theorem run_write_replaces_heads_new (r : Run hash c) (i : A) (v : τ) (inj : InjOn hash (c.written i v :: c.log))
    (new : c.written i v ∉ c.log) :
    ((c.gen hash i (c.written i v)).rep i).read =
      (∅ : FMap H (Node H τ)).insert (hash (c.written i v)) (c.written i v) := by
  have inj0 : InjOn hash c.log := inj.mono (fun n hn => List.mem_cons_of_mem _ hn)
  refine run_write_replaces_heads_partial r i v inj (fun m hm => ?_)
  cases hc : m.children.contains (hash (c.written i v)) with
  | false => rfl
  | true =>
    exfalso
    obtain ⟨m', hm', e⟩ := run_children_in_log r inj0 (run_know_sub_log r (.rep i) m hm) hc
    have : m' = c.written i v := inj m' (List.mem_cons_of_mem _ hm') _ List.mem_cons_self e
    exact new (this ▸ hm')

/-! ## merge laws, duplicates -/

theorem run_merge_comm (r : Run hash c) (inj : InjOn hash c.log) (v : c.View s K) (v' : c.View s' K') :
    MerkleReg.merge hash s s' = MerkleReg.merge hash s' s :=
  C15.merge_comm inj (run_view_reach r v) (run_view_reach r v')

theorem run_merge_assoc (r : Run hash c) (inj : InjOn hash c.log) (v : c.View s K) (v' : c.View s' K')
    (v'' : c.View s'' K'') :
    MerkleReg.merge hash (MerkleReg.merge hash s s') s'' = MerkleReg.merge hash s (MerkleReg.merge hash s' s'') :=
  C15.merge_assoc inj (run_view_reach r v) (run_view_reach r v') (run_view_reach r v'')

theorem run_merge_idem (r : Run hash c) (inj : InjOn hash c.log) (v : c.View s K) : MerkleReg.merge hash s s = s :=
  C15.merge_idem inj (run_view_reach r v)

/-- merging two states of a run gives the state of anyone who received the union -/
theorem run_merge_is_union {t : MerkleReg H τ} {L : List (Node H τ)} (r : Run hash c) (inj : InjOn hash c.log)
    (v : c.View s K) (v' : c.View s' K') (vt : c.View t L) (e : ∀ n, n ∈ L ↔ (n ∈ K ∨ n ∈ K')) :
    MerkleReg.merge hash s s' = t :=
  C15.merge_is_union inj (run_view_reach r v) (run_view_reach r v') (run_view_reach r vt) e

/-- **a node received again changes nothing** – visible or still orphaned -/
theorem run_dup_noop (r : Run hash c) (inj : InjOn hash c.log) (v : c.View s K) {nd : Node H τ} (hk : nd ∈ K) :
    MerkleReg.apply hash s nd = s :=
  C15.duplicate_absorbed inj (run_view_reach r v) (run_know_sub_log r v nd hk) hk

/-- merging a state that has received nothing new (old snapshot, own past, lagging peer) changes nothing -/
theorem run_stale_noop (r : Run hash c) (inj : InjOn hash c.log) (v : c.View s K) (v' : c.View s' K')
    (sub : ∀ n, n ∈ K' → n ∈ K) : MerkleReg.merge hash s s' = s :=
  C15.stale_merge_absorbed inj (run_view_reach r v) (run_view_reach r v') sub

/-- `validate_op` accepts a node of the log at a replica iff all its children are hashes of visible nodes there – in
particular every replica that has received the whole log accepts everything -/
theorem run_validate_op_ok_iff (r : Run hash c) (inj : InjOn hash c.log) (v : c.View s K) (op : Node H τ) :
    s.validateOp op = .ok () ↔ ∀ x, op.children.contains x = true → VisH hash K x :=
  C15.validate_op_ok_iff_spec inj (run_view_reach r v) op

/-! ## the node a write builds, executably -/

/-- the set of hashes of a list of nodes -/
def hashSet (hash : Node H τ → H) (l : List (Node H τ)) : FSet H := l.foldl (fun s n => s.insert (hash n) ()) ∅

theorem contains_foldl_insert (l : List (Node H τ)) (s : FSet H) (x : H) :
    (l.foldl (fun s n => s.insert (hash n) ()) s).contains x = true ↔ (s.contains x = true ∨ ∃ m, m ∈ l ∧ hash m = x) := by
  induction l generalizing s with
  | nil => simp
  | cons a t ih =>
    rw [List.foldl_cons, ih]
    have hi : (s.insert (hash a) ()).contains x = true ↔ (x = hash a ∨ s.contains x = true) := by
      simp only [FMap.contains, FMap.get?_insert]
      by_cases e : x = hash a
      · simp [e]
      · simp [e]
    rw [hi]
    constructor
    · rintro ((e | h) | ⟨m, hm, e⟩)
      · exact Or.inr ⟨a, List.mem_cons_self, e.symm⟩
      · exact Or.inl h
      · exact Or.inr ⟨m, List.mem_cons_of_mem _ hm, e⟩
    · rintro (h | ⟨m, hm, e⟩)
      · exact Or.inl (Or.inr h)
      · rcases List.mem_cons.mp hm with e' | hm
        · subst e'; exact Or.inl (Or.inl e.symm)
        · exact Or.inr ⟨m, hm, e⟩

theorem contains_hashSet (l : List (Node H τ)) (x : H) : (hashSet hash l).contains x = true ↔ ∃ m, m ∈ l ∧ hash m = x := by
  unfold hashSet
  rw [contains_foldl_insert]
  constructor
  · rintro (h | h)
    · cases h
    · exact h
  · exact Or.inr

/-- the node `write i v` builds is `v` on the hashes of `headList (c.know i)` (the executable specification of the heads) -/
theorem run_written_eq_spec (r : Run hash c) (inj : InjOn hash c.log) (i : A) (v : τ) :
    c.written i v = ⟨hashSet hash (headList hash (c.know i)), v⟩ := by
  have e : MerkleReg.hashes (c.rep i).read = hashSet hash (headList hash (c.know i)) := by
    apply MerkleSpec.fset_ext
    intro x
    rw [Bool.eq_iff_iff, hashes_read_contains inj (run_reach r i) x, contains_hashSet]
    constructor
    · rintro ⟨m, e, hm⟩; exact ⟨m, C15.headList_spec.mpr hm, e⟩
    · rintro ⟨m, hm, e⟩; exact ⟨m, e, C15.headList_spec.mp hm⟩
  simp only [Cfg.written, MerkleReg.write, e]

/-! ## non-vacuity: a concrete 7-step run built with the `Step` constructors

Sites 1, 2, 3; the hash of a node is its value (collision-free on this log).  Sites 1 and 2 write CONCURRENTLY (`mA`, `mB`);
`mB` is delivered to 1, which then reads both heads and writes the resolving `mC` on them; `mC` reaches site 3 FIRST (an
orphan), then `mA` (still an orphan: `mB` is missing), and finally 3 merges 2's state, which supplies `mB`. -/
section example_

def mA : Node Nat Nat := ⟨C15.exSet [], 1⟩
def mB : Node Nat Nat := ⟨C15.exSet [], 2⟩
def mC : Node Nat Nat := ⟨C15.exSet [1, 2], 3⟩

def e0 : Cfg Nat Nat Nat := Cfg.init
def e1 : Cfg Nat Nat Nat := e0.gen C15.exHash 1 (e0.written 1 1)
def e2 : Cfg Nat Nat Nat := e1.gen C15.exHash 2 (e1.written 2 2)
def e3 : Cfg Nat Nat Nat := e2.deliver C15.exHash 1 (e1.written 2 2)
def e4 : Cfg Nat Nat Nat := e3.gen C15.exHash 1 (e3.written 1 3)
def e5 : Cfg Nat Nat Nat := e4.deliver C15.exHash 3 (e3.written 1 3)
def e6 : Cfg Nat Nat Nat := e5.deliver C15.exHash 3 (e0.written 1 1)
def e7 : Cfg Nat Nat Nat := e6.mergeIn C15.exHash 3 (e6.rep 2) (e6.know 2)

theorem ex_run3 : Run C15.exHash e3 :=
  Run.step (Run.step (Run.step Run.init (Step.write e0 1 1)) (Step.write e1 2 2))
    (Step.deliver e2 1 (e1.written 2 2) List.mem_cons_self)

theorem ex_run6 : Run C15.exHash e6 :=
  Run.step (Run.step (Run.step ex_run3 (Step.write e3 1 3)) (Step.deliver e4 3 (e3.written 1 3) List.mem_cons_self))
    (Step.deliver e5 3 (e0.written 1 1) (List.mem_cons_of_mem _ (List.mem_cons_of_mem _ List.mem_cons_self)))

theorem ex_run : Run C15.exHash e7 := Run.step ex_run6 (Step.merge e6 3 2)

theorem ex_injOn (l : List (Node Nat Nat)) (h : ∀ n, n ∈ l → n ∈ [mC, mB, mA]) : InjOn C15.exHash l := by
  intro a ha b hb
  have ha := h a ha
  have hb := h b hb
  simp only [List.mem_cons, List.not_mem_nil, or_false] at ha hb
  rcases ha with rfl | rfl | rfl <;> rcases hb with rfl | rfl | rfl <;> decide

theorem ex_w0 : e0.written 1 1 = mA := by decide
theorem ex_w1 : e1.written 2 2 = mB := by decide
theorem ex_log3 : e3.log = [mB, mA] := by decide
theorem ex_know3 : e3.know 1 = [mB, mA] := by decide
/-- the resolving write lists both heads -/
theorem ex_w3 : e3.written 1 3 = mC := by
  rw [run_written_eq_spec ex_run3 (ex_injOn _ (by rw [ex_log3]; decide)), ex_know3]; decide

theorem ex_log : e7.log = [mC, mB, mA] := by
  show [e3.written 1 3, e1.written 2 2, e0.written 1 1] = _
  rw [ex_w3, ex_w1, ex_w0]
theorem ex_log6 : e6.log = [mC, mB, mA] := ex_log
theorem ex_inj : InjOn C15.exHash e7.log := ex_injOn _ (by rw [ex_log]; exact fun _ h => h)

theorem ex_know6 : e6.know 3 = [mA, mC] := by
  have : e6.know 3 = [e0.written 1 1, e3.written 1 3] := by rfl
  rw [this, ex_w0, ex_w3]
theorem ex_know7 : e7.know 3 = [mA, mC, mB] := by
  have : e7.know 3 = e6.know 3 ++ [e1.written 2 2] := by rfl
  rw [this, ex_know6, ex_w1]; rfl

/-- before the merge `mC` is an orphan at site 3 although one of its two children has arrived; site 3 reads `mA` -/
example : (e6.rep 3).orphans.get? 3 = some mC ∧ (e6.rep 3).read.get? 1 = some mA := by
  constructor
  · refine (run_orphans_eq_invisible ex_run6 ex_inj (.rep 3) 3 mC).mpr ⟨rfl, ?_, ?_⟩
    · rw [ex_know6]; decide
    · rw [ex_know6]; exact fun v => absurd (C15.visibleList_spec.mpr v) (by decide)
  · refine (run_read_eq_heads ex_run6 ex_inj (.rep 3) 1 mA).mpr ⟨rfl, ?_⟩
    rw [ex_know6]; exact C15.headList_spec.mp (by decide)

/-- after the merge site 3 has received the whole log: no orphans, and it reads exactly the resolving node -/
example : (e7.rep 3).orphans = ∅ ∧ (e7.rep 3).read.get? 3 = some mC ∧ (e7.rep 3).read.get? 1 = none := by
  refine ⟨(run_no_orphans_when_complete ex_run ex_inj (.rep 3) (by rw [ex_log, ex_know7]; decide)).1, ?_, ?_⟩
  · refine (run_read_eq_heads ex_run ex_inj (.rep 3) 3 mC).mpr ⟨rfl, ?_⟩
    rw [ex_know7]; exact C15.headList_spec.mp (by decide)
  · apply Option.eq_none_iff_forall_ne_some.mpr
    intro m hr
    have := (run_read_eq_heads ex_run ex_inj (.rep 3) 1 m).mp hr
    have hm := C15.headList_spec.mpr this.2
    rw [ex_know7] at hm
    have e : headList C15.exHash [mA, mC, mB] = [mC] := by decide
    rw [e, List.mem_singleton] at hm
    subst hm
    exact absurd this.1 (by decide)

/-- the resolving write replaced both heads at site 1 (`mC` was new) -/
example : (e4.rep 1).read = (∅ : FMap Nat (Node Nat Nat)).insert 3 mC := by
  have h : (e4.rep 1).read = (∅ : FMap Nat (Node Nat Nat)).insert (C15.exHash (e3.written 1 3)) (e3.written 1 3) :=
    run_write_replaces_heads_new ex_run3 1 3
    (ex_injOn _ (by rw [ex_w3, ex_log3]; exact fun _ h => h)) (by rw [ex_w3, ex_log3]; decide)
  rw [ex_w3] at h
  exact h

/-- merge commutes on the (different) states of sites 3 and 1 -/
example : MerkleReg.merge C15.exHash (e7.rep 3) (e7.rep 1) = MerkleReg.merge C15.exHash (e7.rep 1) (e7.rep 3) :=
  run_merge_comm ex_run ex_inj (.rep 3) (.rep 1)

/-- the child relation of that log has no cycle -/
example : ¬ Relation.TransGen (Child C15.exHash e7.log) mC mC := run_no_cycle ex_run ex_inj mC

/-! ### the counterexample to the unrestricted `run_write_replaces_heads`

Site 2 writes 5 (`xA`) and then 6 on top of it (`xB`); `xB` overtakes `xA` and reaches site 1 (an orphan there); site 1,
still reading no head, writes 5: the SAME node `xA`.  Applying it resolves the orphan, and site 1 reads `xB`, not `xA`. -/
def xA : Node Nat Nat := ⟨C15.exSet [], 5⟩
def xB : Node Nat Nat := ⟨C15.exSet [5], 6⟩
def f1 : Cfg Nat Nat Nat := e0.gen C15.exHash 2 (e0.written 2 5)
def f2 : Cfg Nat Nat Nat := f1.gen C15.exHash 2 (f1.written 2 6)
def f3 : Cfg Nat Nat Nat := f2.deliver C15.exHash 1 (f1.written 2 6)
def f4 : Cfg Nat Nat Nat := f3.gen C15.exHash 1 (f3.written 1 5)

theorem fx_run1 : Run C15.exHash f1 := Run.step Run.init (Step.write e0 2 5)
theorem fx_run3 : Run C15.exHash f3 :=
  Run.step (Run.step fx_run1 (Step.write f1 2 6)) (Step.deliver f2 1 (f1.written 2 6) List.mem_cons_self)
theorem fx_run4 : Run C15.exHash f4 := Run.step fx_run3 (Step.write f3 1 5)

theorem fx_injOn (l : List (Node Nat Nat)) (h : ∀ n, n ∈ l → n ∈ [xB, xA]) : InjOn C15.exHash l := by
  intro a ha b hb
  have ha := h a ha
  have hb := h b hb
  simp only [List.mem_cons, List.not_mem_nil, or_false] at ha hb
  rcases ha with rfl | rfl <;> rcases hb with rfl | rfl <;> decide

theorem fx_w0 : e0.written 2 5 = xA := by decide
theorem fx_log1 : f1.log = [xA] := by decide
theorem fx_know1 : f1.know 2 = [xA] := by decide
theorem fx_w1 : f1.written 2 6 = xB := by
  rw [run_written_eq_spec fx_run1 (fx_injOn _ (by rw [fx_log1]; decide)), fx_know1]; decide
theorem fx_log3 : f3.log = [xB, xA] := by
  show [f1.written 2 6, e0.written 2 5] = _
  rw [fx_w1, fx_w0]
theorem fx_know3 : f3.know 1 = [xB] := by
  have : f3.know 1 = [f1.written 2 6] := by rfl
  rw [this, fx_w1]
/-- site 1 reads no head (it holds only an orphan), so it writes the very node `xA` that exists already -/
theorem fx_w3 : f3.written 1 5 = xA := by
  rw [run_written_eq_spec fx_run3 (fx_injOn _ (by rw [fx_log3]; exact fun _ h => h)), fx_know3]; decide
theorem fx_log4 : f4.log = [xA, xB, xA] := by
  show f3.written 1 5 :: f3.log = _
  rw [fx_w3, fx_log3]
theorem fx_know4 : f4.know 1 = [xA, xB] := by
  have : f4.know 1 = f3.written 1 5 :: f3.know 1 := by rfl
  rw [this, fx_w3, fx_know3]

/-- **the unrestricted statement is false**: a run, a write step of it, no hash collision – and afterwards the writer
reads a node other than the one it wrote -/
theorem write_not_sole_head :
    ∃ (c : Cfg Nat Nat Nat) (i v : Nat), Run C15.exHash c ∧ InjOn C15.exHash (c.written i v :: c.log) ∧
      ((c.gen C15.exHash i (c.written i v)).rep i).read ≠
        (∅ : FMap Nat (Node Nat Nat)).insert (C15.exHash (c.written i v)) (c.written i v) := by
  refine ⟨f3, 1, 5, fx_run3, fx_injOn _ (by rw [fx_w3, fx_log3]; decide), fun h => ?_⟩
  have inj4 : InjOn C15.exHash f4.log := fx_injOn _ (by rw [fx_log4]; decide)
  have hd : (f4.rep 1).read.get? 6 = some xB := by
    refine (run_read_eq_heads fx_run4 inj4 (.rep 1) 6 xB).mpr ⟨rfl, ?_⟩
    rw [fx_know4]; exact C15.headList_spec.mp (by decide)
  have h' : (f4.rep 1).read = (∅ : FMap Nat (Node Nat Nat)).insert (C15.exHash (f3.written 1 5)) (f3.written 1 5) := h
  rw [h', fx_w3] at hd
  exact absurd hd (by decide)

end example_

end Crdt.SysMerkle
