import CrdtModel.Spec.OrswotSys
import CrdtModel.Spec.Lattice
import CrdtModel.Spec.GListSys
set_option linter.unusedSectionVars false
/-!
# C02 — merge is a join: commutative, associative, idempotent on reachable states

`a`, `b`, `c` are any states derivable by any history of local edits, op deliveries and earlier merges (`Reach`),
including states holding pending (deferred) removes and states that are themselves results of merges.
Conclusions are equalities of whole states, hence of all reads.  For Orswot the restriction to reachable states is
essential (the repo's `weird_highlight_1`); reachability is exactly "each actor confined to one replica" (`LogWF`).
For the pure lattice types the laws hold for *all* states (given `NoZero` where Rust `==` is structural).
-/
namespace Crdt.C02
open Crdt LinOrd RepSys

section generic
variable {σ ω : Type} {R : RepSys σ ω} {U : List ω}
theorem comm (wf : R.WF U) {a b : σ} {Ka Kb : List ω} (ha : R.Reach U a Ka) (hb : R.Reach U b Kb) :
    R.merge a b = R.merge b a := merge_comm wf ha hb
theorem assoc (wf : R.WF U) {a b c : σ} {Ka Kb Kc : List ω} (ha : R.Reach U a Ka) (hb : R.Reach U b Kb)
    (hc : R.Reach U c Kc) : R.merge (R.merge a b) c = R.merge a (R.merge b c) := merge_assoc wf ha hb hc
theorem idem (wf : R.WF U) {a : σ} {Ka : List ω} (ha : R.Reach U a Ka) : R.merge a a = a := merge_idem wf ha
end generic

section orswot
variable {M A : Type} [LinOrd M] [LinOrd A] {U Ka Kb Kc : List (OrswotOp M A)} {a b c : Orswot M A}
theorem orswot_comm (wf : OrswotSpec.LogWF U) (ha : orswotSys.Reach U a Ka) (hb : orswotSys.Reach U b Kb) :
    a.merge b = b.merge a := merge_comm (R := orswotSys) wf ha hb
theorem orswot_assoc (wf : OrswotSpec.LogWF U) (ha : orswotSys.Reach U a Ka) (hb : orswotSys.Reach U b Kb)
    (hc : orswotSys.Reach U c Kc) : (a.merge b).merge c = a.merge (b.merge c) := merge_assoc (R := orswotSys) wf ha hb hc
theorem orswot_idem (wf : OrswotSpec.LogWF U) (ha : orswotSys.Reach U a Ka) : a.merge a = a :=
  merge_idem (R := orswotSys) wf ha
end orswot

section lattice_all_states
variable {α : Type} [LinOrd α]
/-- VClock / GCounter / PNCounter: the laws hold for ALL states without stored zeros -/
theorem vclock_comm {a b : VClock α} (ha : a.NoZero) (hb : b.NoZero) : a.merge b = b.merge a :=
  VClock.ext_get (VClock.noZero_merge ha _) (VClock.noZero_merge hb _) (fun x => by
    rw [VClock.get_merge, VClock.get_merge]; omega)
theorem vclock_assoc {a b c : VClock α} (ha : a.NoZero) (hb : b.NoZero) :
    (a.merge b).merge c = a.merge (b.merge c) :=
  VClock.ext_get (VClock.noZero_merge (VClock.noZero_merge ha _) _) (VClock.noZero_merge ha _) (fun x => by
    simp only [VClock.get_merge]; omega)
theorem vclock_idem {a : VClock α} (ha : a.NoZero) : a.merge a = a :=
  VClock.ext_get (VClock.noZero_merge ha _) ha (fun x => by rw [VClock.get_merge]; omega)

theorem gset_comm (a b : GSet α) : a.merge b = b.merge a :=
  GSet.ext (fun x => by
    have h1 := GSet.contains_merge a b x; have h2 := GSet.contains_merge b a x
    cases h : (a.merge b).contains x <;> cases h' : (b.merge a).contains x <;> simp_all)
theorem gset_assoc (a b c : GSet α) : (a.merge b).merge c = a.merge (b.merge c) :=
  GSet.ext (fun x => by
    have h1 := GSet.contains_merge (a.merge b) c x; have h2 := GSet.contains_merge a (b.merge c) x
    have h3 := GSet.contains_merge a b x; have h4 := GSet.contains_merge b c x
    cases h : ((a.merge b).merge c).contains x <;> cases h' : (a.merge (b.merge c)).contains x <;> simp_all)
theorem gset_idem (a : GSet α) : a.merge a = a :=
  GSet.ext (fun x => by
    have h1 := GSet.contains_merge a a x
    cases h : (a.merge a).contains x <;> cases h' : a.contains x <;> simp_all)
end lattice_all_states

section lattice_reachable
variable {α : Type} [LinOrd α]
theorem gcounter_laws {U Ka Kb Kc : List (Dot α)} {a b c : GCounter α} (ha : gcounterSys.Reach U a Ka)
    (hb : gcounterSys.Reach U b Kb) (hc : gcounterSys.Reach U c Kc) :
    a.merge b = b.merge a ∧ (a.merge b).merge c = a.merge (b.merge c) ∧ a.merge a = a :=
  ⟨merge_comm (R := gcounterSys) trivial ha hb, merge_assoc (R := gcounterSys) trivial ha hb hc,
   merge_idem (R := gcounterSys) trivial ha⟩
theorem pncounter_laws {U Ka Kb Kc : List (PNOp α)} {a b c : PNCounter α} (ha : pncounterSys.Reach U a Ka)
    (hb : pncounterSys.Reach U b Kb) (hc : pncounterSys.Reach U c Kc) :
    a.merge b = b.merge a ∧ (a.merge b).merge c = a.merge (b.merge c) ∧ a.merge a = a :=
  ⟨merge_comm (R := pncounterSys) trivial ha hb, merge_assoc (R := pncounterSys) trivial ha hb hc,
   merge_idem (R := pncounterSys) trivial ha⟩
theorem maxreg_laws (v0 : α) {U Ka Kb Kc : List α} {a b c : MaxReg α} (ha : (maxregSys v0).Reach U a Ka)
    (hb : (maxregSys v0).Reach U b Kb) (hc : (maxregSys v0).Reach U c Kc) :
    a.merge b = b.merge a ∧ (a.merge b).merge c = a.merge (b.merge c) ∧ a.merge a = a :=
  ⟨merge_comm (R := maxregSys v0) trivial ha hb, merge_assoc (R := maxregSys v0) trivial ha hb hc,
   merge_idem (R := maxregSys v0) trivial ha⟩
theorem minreg_laws (v0 : α) {U Ka Kb Kc : List α} {a b c : MinReg α} (ha : (minregSys v0).Reach U a Ka)
    (hb : (minregSys v0).Reach U b Kb) (hc : (minregSys v0).Reach U c Kc) :
    a.merge b = b.merge a ∧ (a.merge b).merge c = a.merge (b.merge c) ∧ a.merge a = a :=
  ⟨merge_comm (R := minregSys v0) trivial ha hb, merge_assoc (R := minregSys v0) trivial ha hb hc,
   merge_idem (R := minregSys v0) trivial ha⟩
/-- LWWReg with unique markers -/
theorem lwwreg_laws {ν : Type} [DecidableEq ν] (r0 : LWWReg ν α) {U Ka Kb Kc : List (LWWReg ν α)} {a b c : LWWReg ν α}
    (wf : UniqueMarkers r0 U) (ha : (lwwSys r0).Reach U a Ka) (hb : (lwwSys r0).Reach U b Kb)
    (hc : (lwwSys r0).Reach U c Kc) :
    a.merge b = b.merge a ∧ (a.merge b).merge c = a.merge (b.merge c) ∧ a.merge a = a :=
  ⟨merge_comm (R := lwwSys r0) wf ha hb, merge_assoc (R := lwwSys r0) wf ha hb hc, merge_idem (R := lwwSys r0) wf ha⟩
theorem glist_laws {τ : Type} [LinOrd τ] {U Ka Kb Kc : List (GListOp τ)} {a b c : GList τ} (ha : glistSys.Reach U a Ka)
    (hb : glistSys.Reach U b Kb) (hc : glistSys.Reach U c Kc) :
    a.merge b = b.merge a ∧ (a.merge b).merge c = a.merge (b.merge c) ∧ a.merge a = a :=
  ⟨merge_comm (R := glistSys) trivial ha hb, merge_assoc (R := glistSys) trivial ha hb hc,
   merge_idem (R := glistSys) trivial ha⟩
end lattice_reachable

end Crdt.C02
