import CrdtModel.Props.C04
import CrdtModel.Spec.Lattice
set_option linter.unusedSectionVars false
/-!
# C08 — overtaking removes are deferred, never lost: per-actor delivery order suffices

The Orswot representation theorem is proved under the discipline `OrswotSpec.Ok`: only an actor's **adds** must
arrive in issue order; a remove may arrive before anything it observed (its context may even lie in the future of the
replica).  Hence every per-actor-FIFO schedule – and every causal one – is covered by the same theorem, and the result
is the state determined by the knowledge set: exactly what causal delivery of the same ops produces.
The pending remove is characterised exactly (`deferred_iff`) and this characterisation is preserved by `merge`
(it is part of `Rep`, and `rep_merge` proves `Rep (K ++ K')` for the merged state), so it travels inside merged states.
Counters, GSet, registers, (MVReg, GList, MerkleReg) need no order at all: their systems have `Ok := True`.
-/
namespace Crdt.C08
open Crdt LinOrd RepSys OrswotSpec
variable {M A : Type} [LinOrd M] [LinOrd A] {U K K' : List (OrswotOp M A)} {s s' : Orswot M A}

/-- whatever admissible order (per-actor on adds) two replicas used, equal knowledge gives equal state: a FIFO-delivered
replica equals a causally-delivered one -/
theorem fifo_equals_causal (wf : LogWF U) (h : orswotSys.Reach U s K) (h' : orswotSys.Reach U s' K')
    (e : ∀ o, o ∈ K ↔ o ∈ K') : s = s' := converge (R := orswotSys) wf h h' e

/-- the replica remembers exactly the removes whose context it does not yet dominate -/
theorem deferred_iff (wf : LogWF U) (h : orswotSys.Reach U s K) (c : VClock A) :
    (s.deferred.get? c).isSome = true ↔ ((∃ ms, OrswotOp.rm c ms ∈ K) ∧ ∃ a, c.get a > clk K a) :=
  (C04.rep wf h).def_some c

/-- … with exactly the members those removes name -/
theorem deferred_members (wf : LogWF U) (h : orswotSys.Reach U s K) (c : VClock A) (S : FSet M)
    (hS : s.deferred.get? c = some S) (m : M) :
    S.contains m = true ↔ ∃ ms, OrswotOp.rm c ms ∈ K ∧ m ∈ ms := (C04.rep wf h).def_mem c S hS m

/-- an overtaking remove takes effect as soon as the add it observed arrives: once both are known the add is not a
witness, in whichever order they came -/
theorem overtaking_remove_effective (wf : LogWF U) (h : orswotSys.Reach U s K) {c : VClock A} {ms : List M} {m : M}
    (hrm : OrswotOp.rm c ms ∈ K) (hm : m ∈ ms) (a : A) (hcov : Mx K m a ≤ c.get a) :
    (s.contains m).rmClock.get a = 0 := by
  rw [C04.contains_rm_clock wf h]
  have := le_θ hrm hm a
  split <;> omega

/-- the pending remove travels inside merged states -/
theorem deferred_survives_merge (wf : LogWF U) (h : orswotSys.Reach U s K) (h' : orswotSys.Reach U s' K')
    {c : VClock A} {ms : List M} (hrm : OrswotOp.rm c ms ∈ K') (a : A) (hp : c.get a > max (clk K a) (clk K' a)) :
    ((s.merge s').deferred.get? c).isSome = true := by
  have r := (reach_rep (R := orswotSys) wf (Reach.merge h h')).2
  exact (r.def_some c).mpr ⟨⟨ms, List.mem_append.mpr (Or.inr hrm)⟩, ⟨a, by rw [clk_append]; exact hp⟩⟩

/-- order-free types: no delivery constraint whatsoever is assumed by their representation theorems -/
theorem order_free_gcounter {α : Type} [LinOrd α] (U K : List (Dot α)) (op : Dot α) : gcounterSys.Ok U K op := trivial
theorem order_free_pncounter {α : Type} [LinOrd α] (U K : List (PNOp α)) (op : PNOp α) : pncounterSys.Ok U K op := trivial
theorem order_free_gset {α : Type} [LinOrd α] (U K : List α) (op : α) : gsetSys.Ok U K op := trivial
theorem order_free_maxreg {α : Type} [LinOrd α] (v0 : α) (U K : List α) (op : α) : (maxregSys v0).Ok U K op := trivial
theorem order_free_minreg {α : Type} [LinOrd α] (v0 : α) (U K : List α) (op : α) : (minregSys v0).Ok U K op := trivial
theorem order_free_lwwreg {ν α : Type} [DecidableEq ν] [LinOrd α] (r0 : LWWReg ν α) (U K : List (LWWReg ν α))
    (op : LWWReg ν α) : (lwwSys r0).Ok U K op := trivial

end Crdt.C08
