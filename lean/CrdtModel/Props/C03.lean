import CrdtModel.Spec.OrswotSys
import CrdtModel.Spec.Lattice
import CrdtModel.Spec.GListSys
set_option linter.unusedSectionVars false
/-!
# C03 — state merge and op delivery are interchangeable (hybrid replication)

`Reach` mixes op deliveries and merges freely in one derivation, and `reach_rep` says every derivable state is *the*
state determined by its knowledge set – however each update arrived.  `merge_is_union`: merging the states of two
replicas gives exactly the state (hence the reads) of any replica that learned the union of the ops behind them.
-/
namespace Crdt.C03
open Crdt LinOrd RepSys

section generic
variable {σ ω : Type} {R : RepSys σ ω} {U : List ω}
/-- reads depend only on the set of updates learned, not on how they arrived -/
theorem knowledge_determines_state (wf : R.WF U) {s s' : σ} {K K' : List ω} (h : R.Reach U s K) (h' : R.Reach U s' K')
    (e : ∀ o, o ∈ K ↔ o ∈ K') : s = s' := converge wf h h' e
/-- merge(state(M1), state(M2)) = state(M1 ∪ M2) -/
theorem merge_union (wf : R.WF U) {s s' t : σ} {K K' L : List ω} (h : R.Reach U s K) (h' : R.Reach U s' K')
    (ht : R.Reach U t L) (e : ∀ o, o ∈ L ↔ (o ∈ K ∨ o ∈ K')) : R.merge s s' = t := merge_is_union wf h h' ht e
/-- the merged state itself represents the union -/
theorem merge_rep (wf : R.WF U) {s s' : σ} {K K' : List ω} (h : R.Reach U s K) (h' : R.Reach U s' K') :
    R.Rep U (K ++ K') (R.merge s s') := (reach_rep wf (Reach.merge h h')).2
end generic

section orswot
variable {M A : Type} [LinOrd M] [LinOrd A] {U K K' L : List (OrswotOp M A)} {s s' t : Orswot M A}
theorem orswot (wf : OrswotSpec.LogWF U) (h : orswotSys.Reach U s K) (h' : orswotSys.Reach U s' K')
    (ht : orswotSys.Reach U t L) (e : ∀ o, o ∈ L ↔ (o ∈ K ∨ o ∈ K')) : s.merge s' = t :=
  merge_is_union (R := orswotSys) wf h h' ht e
/-- a replica that receives the *ops* the other side knows (in any admissible order) ends where merging ends -/
theorem orswot_ops_vs_merge (wf : OrswotSpec.LogWF U) (h : orswotSys.Reach U s K) (h' : orswotSys.Reach U s' K')
    (ht : orswotSys.Reach U t L) (e : ∀ o, o ∈ L ↔ (o ∈ K ∨ o ∈ K')) : (s.merge s').read.val = t.read.val := by
  rw [orswot wf h h' ht e]
end orswot

section lattice
variable {α : Type} [LinOrd α]
theorem gcounter {U K K' L : List (Dot α)} {s s' t : GCounter α} (h : gcounterSys.Reach U s K)
    (h' : gcounterSys.Reach U s' K') (ht : gcounterSys.Reach U t L) (e : ∀ o, o ∈ L ↔ (o ∈ K ∨ o ∈ K')) :
    s.merge s' = t := merge_is_union (R := gcounterSys) trivial h h' ht e
theorem pncounter {U K K' L : List (PNOp α)} {s s' t : PNCounter α} (h : pncounterSys.Reach U s K)
    (h' : pncounterSys.Reach U s' K') (ht : pncounterSys.Reach U t L) (e : ∀ o, o ∈ L ↔ (o ∈ K ∨ o ∈ K')) :
    s.merge s' = t := merge_is_union (R := pncounterSys) trivial h h' ht e
theorem gset {U K K' L : List α} {s s' t : GSet α} (h : gsetSys.Reach U s K) (h' : gsetSys.Reach U s' K')
    (ht : gsetSys.Reach U t L) (e : ∀ o, o ∈ L ↔ (o ∈ K ∨ o ∈ K')) : s.merge s' = t :=
  merge_is_union (R := gsetSys) trivial h h' ht e
theorem maxreg (v0 : α) {U K K' L : List α} {s s' t : MaxReg α} (h : (maxregSys v0).Reach U s K)
    (h' : (maxregSys v0).Reach U s' K') (ht : (maxregSys v0).Reach U t L) (e : ∀ o, o ∈ L ↔ (o ∈ K ∨ o ∈ K')) :
    s.merge s' = t := merge_is_union (R := maxregSys v0) trivial h h' ht e
theorem minreg (v0 : α) {U K K' L : List α} {s s' t : MinReg α} (h : (minregSys v0).Reach U s K)
    (h' : (minregSys v0).Reach U s' K') (ht : (minregSys v0).Reach U t L) (e : ∀ o, o ∈ L ↔ (o ∈ K ∨ o ∈ K')) :
    s.merge s' = t := merge_is_union (R := minregSys v0) trivial h h' ht e
theorem lwwreg {ν : Type} [DecidableEq ν] (r0 : LWWReg ν α) {U K K' L : List (LWWReg ν α)} {s s' t : LWWReg ν α}
    (wf : UniqueMarkers r0 U) (h : (lwwSys r0).Reach U s K) (h' : (lwwSys r0).Reach U s' K')
    (ht : (lwwSys r0).Reach U t L) (e : ∀ o, o ∈ L ↔ (o ∈ K ∨ o ∈ K')) : s.merge s' = t :=
  merge_is_union (R := lwwSys r0) wf h h' ht e
theorem glist {τ : Type} [LinOrd τ] {U K K' L : List (GListOp τ)} {s s' t : GList τ} (h : glistSys.Reach U s K)
    (h' : glistSys.Reach U s' K') (ht : glistSys.Reach U t L) (e : ∀ o, o ∈ L ↔ (o ∈ K ∨ o ∈ K')) : s.merge s' = t :=
  merge_is_union (R := glistSys) trivial h h' ht e
end lattice

end Crdt.C03
