import CrdtModel.Props.C04
import CrdtModel.Spec.Lattice
import CrdtModel.Spec.GListSys
set_option linter.unusedSectionVars false
/-!
# C09 — duplicates and stale states are absorbed; removed data never resurrects
-/
namespace Crdt.C09
open Crdt LinOrd RepSys

section generic
variable {σ ω : Type} {R : RepSys σ ω} {U : List ω}
/-- applying an op the replica has already applied changes nothing (state equality ⇒ nothing observable) -/
theorem duplicate_absorbed (wf : R.WF U) {s : σ} {K : List ω} (h : R.Reach U s K) {op : ω} (hu : op ∈ U) (hk : op ∈ K) :
    R.apply s op = s := dup_noop wf h hu hk
/-- merging a state whose updates are already known (old snapshot, own past, lagging peer) changes nothing -/
theorem stale_state_absorbed (wf : R.WF U) {s s' : σ} {K K' : List ω} (h : R.Reach U s K) (h' : R.Reach U s' K')
    (sub : ∀ o, o ∈ K' → o ∈ K) : R.merge s s' = s := stale_noop wf h h' sub
end generic

section orswot
open OrswotSpec
variable {M A : Type} [LinOrd M] [LinOrd A] {U K K' : List (OrswotOp M A)} {s s' : Orswot M A}

theorem orswot_duplicate (wf : LogWF U) (h : orswotSys.Reach U s K) {op : OrswotOp M A} (hu : op ∈ U) (hk : op ∈ K) :
    s.apply op = s := dup_noop (R := orswotSys) wf h hu hk
theorem orswot_stale (wf : LogWF U) (h : orswotSys.Reach U s K) (h' : orswotSys.Reach U s' K')
    (sub : ∀ o, o ∈ K' → o ∈ K) : s.merge s' = s := stale_noop (R := orswotSys) wf h h' sub

/-- **no resurrection**: in ANY derivable state (so after any further stale ops / old states arrived) an element all of
whose known adds are covered by known removes is absent; only a genuinely new (uncovered) add brings it back -/
theorem no_resurrection (wf : LogWF U) (h : orswotSys.Reach U s K) (m : M)
    (hall : ∀ d ms, OrswotOp.add d ms ∈ K → m ∈ ms → 0 < d.counter →
      ∃ c ms', OrswotOp.rm c ms' ∈ K ∧ m ∈ ms' ∧ d.counter ≤ c.get d.actor) : m ∉ s.read.val :=
  C04.removed_if_all_covered wf h m hall
end orswot

section lattice
variable {α : Type} [LinOrd α]
theorem gcounter_duplicate {U K : List (Dot α)} {s : GCounter α} (h : gcounterSys.Reach U s K) {op : Dot α}
    (hu : op ∈ U) (hk : op ∈ K) : s.apply op = s := dup_noop (R := gcounterSys) trivial h hu hk
theorem gcounter_stale {U K K' : List (Dot α)} {s s' : GCounter α} (h : gcounterSys.Reach U s K)
    (h' : gcounterSys.Reach U s' K') (sub : ∀ o, o ∈ K' → o ∈ K) : s.merge s' = s :=
  stale_noop (R := gcounterSys) trivial h h' sub
theorem pncounter_duplicate {U K : List (PNOp α)} {s : PNCounter α} (h : pncounterSys.Reach U s K) {op : PNOp α}
    (hu : op ∈ U) (hk : op ∈ K) : s.apply op = s := dup_noop (R := pncounterSys) trivial h hu hk
theorem gset_duplicate {U K : List α} {s : GSet α} (h : gsetSys.Reach U s K) {op : α}
    (hu : op ∈ U) (hk : op ∈ K) : s.apply op = s := dup_noop (R := gsetSys) trivial h hu hk
theorem maxreg_duplicate (v0 : α) {U K : List α} {s : MaxReg α} (h : (maxregSys v0).Reach U s K) {op : α}
    (hu : op ∈ U) (hk : op ∈ K) : s.apply op = s := dup_noop (R := maxregSys v0) trivial h hu hk
theorem minreg_duplicate (v0 : α) {U K : List α} {s : MinReg α} (h : (minregSys v0).Reach U s K) {op : α}
    (hu : op ∈ U) (hk : op ∈ K) : s.apply op = s := dup_noop (R := minregSys v0) trivial h hu hk
theorem lwwreg_duplicate {ν : Type} [DecidableEq ν] (r0 : LWWReg ν α) {U K : List (LWWReg ν α)} {s : LWWReg ν α}
    (wf : UniqueMarkers r0 U) (h : (lwwSys r0).Reach U s K) {op : LWWReg ν α} (hu : op ∈ U) (hk : op ∈ K) :
    s.apply op = s := dup_noop (R := lwwSys r0) wf h hu hk
theorem glist_duplicate {τ : Type} [LinOrd τ] {U K : List (GListOp τ)} {s : GList τ} (h : glistSys.Reach U s K)
    {op : GListOp τ} (hu : op ∈ U) (hk : op ∈ K) : s.apply op = s := dup_noop (R := glistSys) trivial h hu hk
theorem glist_stale {τ : Type} [LinOrd τ] {U K K' : List (GListOp τ)} {s s' : GList τ} (h : glistSys.Reach U s K)
    (h' : glistSys.Reach U s' K') (sub : ∀ o, o ∈ K' → o ∈ K) : s.merge s' = s :=
  stale_noop (R := glistSys) trivial h h' sub
end lattice

end Crdt.C09
