import CrdtModel.Proofs.MapNested
import CrdtModel.Spec.MVReg
import CrdtModel.Spec.Lattice
set_option linter.unusedSectionVars false
/-!
# C05 (nested contents) — the region where the nested contents of a Map provably converge

**The global statement is false.**  "Two replicas that have learned the same ops hold equal nested values under every key"

  `∀ s s' L L', Reach ops U s L → Reach ops U s' L' → (∀ o, o ∈ L ↔ o ∈ L') → (s.get k).val = (s'.get k).val`   -- FALSE

fails for the unchanged crate for every nesting (`Map<_,MVReg>`, `Map<_,Orswot>`, `Map<_,Map<..>>`; Props/C05.lean, witness
scripts `witness/map_*_causal_diverge.txt`).  Root cause: a KEY remove resets the nested value with a key-level clock
(`src/map.rs:421`, and `253-256`, `281-301` in `merge`), and that clock is not a dot store of the nested value; a nested op that
arrives after the reset (e.g. a nested Orswot remove whose context the reset has wiped from the nested clock) leaves a residue
at one replica only.  `outside_region_diverges` below replays the 3-op Orswot witness by `decide`.  The KEY level
(which keys are present, with which contexts) is correct in general (`C05.key_present_iff`, `CMap.keys_rep`).

**The region proved here: op-only histories without key removes** — `CMap.ReachUp ops U s L`: the derivations of `CMap.Reach`
that use only `init` and `apply` of updates `.up d k o` (same discipline premise: each actor's updates arrive in issue order;
duplicates allowed).  Items 1 and 2 hold for an ARBITRARY value type.  Item 3 (convergence) needs the value type to have a
representation system of its own (`RepSys` / `RepSysE`: Orswot, MVReg, order-free types); **a nested `Map` has none** – an inner
key remove is an OUTER update, so depth-2 Maps diverge even inside this region (`Witness.Depth2Orswot.depth2_diverges_inside_region`,
`Witness.Depth2MVReg.depth2_mvreg_reads_diverge`, kernel-checked) – hence nothing is claimed for nested contents at depth ≥ 2 beyond
the key level of every Map on the way down (C05.key_present_iff applies to the inner Maps' key structure only where they are
themselves derivable, which the outer reset breaks).  Every such derivation is a `CMap.Reach` derivation (`reachUp_toReach`).
In this region:

1. `deferred` stays empty and `applyDeferred` is the identity (`deferred_stays_empty`, `applyDeferred_identity`);
2. the nested value under `k` is the left fold of the nested ops of `k` in delivery order, each dot applied once
   (`nested_eq_fold`): the dedup gate `clock.get(actor) >= counter` of `Map::apply` fires exactly on re-delivered dots
   (`dedup_gate_iff`);
3. hence the nested value under `k` is a derivable state of the value type's OWN representation system with knowledge
   `nestedOps k L` (`nested_reach`), and two replicas that delivered the same updates of `k` hold EQUAL nested values under `k`
   (`nested_converge`; up to the value type's state equivalence for `RepSysE` systems: `nested_converge_equiv`).
   Instances: nested `Orswot` (`nested_converge_orswot`: the Map discipline implies the nested add discipline), nested `MVReg`
   (`nested_converge_mvreg`, order-free, up to the order of the `Vec`), any order-free system (`nested_converge_orderfree`,
   e.g. `nested_converge_gset`).
-/
namespace Crdt.C05
open Crdt LinOrd OrswotSpec CMap
variable {K V VOp A : Type} [LinOrd K] [LinOrd A] {ops : ValOps V VOp A} {U L L' : List (MapOp K VOp A)} {s s' : CMap K V A}

/-! ## the region -/

/-- every derivation of the region (only `init` and `apply` of updates) is a derivation of the full execution model, so all
key-level theorems of C05 apply to it -/
theorem reachUp_toReach (h : ReachUp ops U s L) : CMap.Reach ops U s L := h.toReach

/-- in the region only updates are delivered (no key remove), all of them from the universe -/
theorem reachUp_log (h : ReachUp ops U s L) : ∀ x ∈ L, x ∈ U ∧ ∃ d k o, x = MapOp.up d k o :=
  fun x hx => ⟨h.sub x hx, h.all_up x hx⟩

/-! ## 1. nothing is ever deferred -/

/-- no `.rm` is ever applied, so no key remove is ever pending -/
theorem deferred_stays_empty (h : ReachUp ops U s L) : s.deferred = ∅ := h.deferred_empty

/-- `apply_deferred` (src/map.rs:402-407) with nothing pending is the identity -/
theorem applyDeferred_identity (ops : ValOps V VOp A) (s : CMap K V A) (h : s.deferred = ∅) : CMap.applyDeferred ops s = s :=
  applyDeferred_of_empty ops s h

/-! ## 2. nested value = fold of the nested ops of that key -/

/-- **the dedup gate of `Map::apply` (`if self.clock.get(&dot.actor) >= dot.counter { return }`) fires exactly when the dot
has already been delivered** – or has counter 0, which no API call produces -/
theorem dedup_gate_iff (wf : LogWF (keyLog U)) (h : ReachUp ops U s L) {d : Dot A} {k : K} {o : VOp} (hu : MapOp.up d k o ∈ U) :
    s.clock.get d.actor ≥ d.counter ↔ (d.counter = 0 ∨ ∃ k' o', MapOp.up d k' o' ∈ L) := by
  rw [gate_iff wf h hu, dotIn_iff]

/-- **nested value = fold of the nested ops of that key, in delivery order, each dot applied once.**
`nestedOps k L` (Proofs/MapNested.lean, computable): the nested ops `o` of the entries `.up d k o` of `L` in chronological
order, skipping re-deliveries (an entry whose dot already occurs earlier) and counter-0 dots.  `(s.get k).val` is by definition
`(s.entries.get? k).map (·.val)`.  No hypothesis on the value type. -/
theorem nested_eq_fold (wf : LogWF (keyLog U)) (h : ReachUp ops U s L) (k : K) :
    (s.entries.get? k).map (·.val) =
      if nestedOps k L = [] then none else some ((nestedOps k L).foldl ops.apply ops.default) :=
  val_eq_foldVal wf h k

/-- the same through the read API: `get(k).val`, and the value the closure of `Map::update` receives (the default if absent) -/
theorem get_eq_fold (wf : LogWF (keyLog U)) (h : ReachUp ops U s L) (k : K) :
    (s.get k).val = (if nestedOps k L = [] then none else some ((nestedOps k L).foldl ops.apply ops.default)) ∧
    ((s.get k).val).getD ops.default = (nestedOps k L).foldl ops.apply ops.default :=
  ⟨val_eq_foldVal wf h k, nestedVal_eq_fold wf h k⟩

/-- `nestedOps` is the plain "first occurrence of each dot" list (`firstOps`) when every delivered dot has a positive counter
(what `VClock::inc` / `derive_add_ctx` guarantee) -/
theorem nestedOps_eq_first_occurrences (k : K) (L : List (MapOp K VOp A))
    (hpos : ∀ d k' o, MapOp.up d k' o ∈ L → 0 < d.counter) : nestedOps k L = firstOps k L :=
  nestedOps_eq_firstOps k L hpos

/-- intended statement with the plain first-occurrences list; it needs positive counters (without them it is false:
`first_occurrences_needs_pos`) -/
theorem nested_eq_fold_first_occurrences (wf : LogWF (keyLog U)) (h : ReachUp ops U s L) (k : K)
    (hpos : ∀ d k' o, MapOp.up d k' o ∈ U → 0 < d.counter) :
    (s.entries.get? k).map (·.val) =
      if firstOps k L = [] then none else some ((firstOps k L).foldl ops.apply ops.default) := by
  rw [← nestedOps_eq_firstOps k L (fun d k' o hin => hpos d k' o (h.sub _ hin))]
  exact val_eq_foldVal wf h k

/-! ## 3. convergence of nested contents from the value type's own representation system -/

/-- the nested value under `k` (the default if `k` is absent) is a derivable state of the value type's system `R`, over the
nested universe `valU k U` (the nested ops of all updates of `k`), with knowledge `nestedOps k L` (newest first).
`NestedOk ops U k R.Ok`: at any derivable state, a fresh update of `k` allowed by the Map discipline carries a nested op
allowed by `R`'s discipline at the nested knowledge of `k`. -/
theorem nested_reach (R : RepSys V VOp) (hA : R.apply = ops.apply) (hI : R.init = ops.default)
    (wf : LogWF (keyLog U)) (k : K) (hOk : NestedOk ops U k R.Ok) (h : ReachUp ops U s L) :
    R.Reach (valU k U) (((s.get k).val).getD ops.default) (nestedOps k L).reverse :=
  CMap.nested_reach R hA hI wf k hOk h

/-- **nested contents converge in the region**: two replicas (any two derivations over the same universe) that delivered the
same updates of `k` hold EQUAL nested values under `k` (both absent, or both present and equal).
`DotsUnique U`: a dot names one update (`Map::update` with a fresh add context); without it the statement is false
(`dotsUnique_needed`). -/
theorem nested_converge (R : RepSys V VOp) (hA : R.apply = ops.apply) (hI : R.init = ops.default)
    (wf : LogWF (keyLog U)) (hdu : DotsUnique U) (k : K) (wfR : R.WF (valU k U)) (hOk : NestedOk ops U k R.Ok)
    (h : ReachUp ops U s L) (h' : ReachUp ops U s' L')
    (e : ∀ d o, MapOp.up d k o ∈ L ↔ MapOp.up d k o ∈ L') : (s.get k).val = (s'.get k).val :=
  nested_converge_ops R hA hI wf k wfR hOk h h' (nestedOps_mem_congr hdu k h.sub h'.sub e)

/-- the same with the hypothesis on the nested knowledge itself (no uniqueness of dots needed) -/
theorem nested_converge_of_same_nestedOps (R : RepSys V VOp) (hA : R.apply = ops.apply) (hI : R.init = ops.default)
    (wf : LogWF (keyLog U)) (k : K) (wfR : R.WF (valU k U)) (hOk : NestedOk ops U k R.Ok)
    (h : ReachUp ops U s L) (h' : ReachUp ops U s' L')
    (e : ∀ o, o ∈ nestedOps k L ↔ o ∈ nestedOps k L') : (s.get k).val = (s'.get k).val :=
  nested_converge_ops R hA hI wf k wfR hOk h h' e

/-- for value types whose system identifies states only up to an equivalence (`RepSysE`, e.g. `MVReg` up to the order of
its `Vec`): same presence, equivalent nested values -/
theorem nested_converge_equiv (R : RepSysE V VOp) (hA : R.apply = ops.apply) (hI : R.init = ops.default)
    (wf : LogWF (keyLog U)) (hdu : DotsUnique U) (k : K) (wfR : R.WF (valU k U)) (hOk : NestedOk ops U k R.Ok)
    (h : ReachUp ops U s L) (h' : ReachUp ops U s' L')
    (e : ∀ d o, MapOp.up d k o ∈ L ↔ MapOp.up d k o ∈ L') :
    (s.get k).val.isSome = (s'.get k).val.isSome ∧
      R.Equiv (((s.get k).val).getD ops.default) (((s'.get k).val).getD ops.default) :=
  nested_convergeE_ops R hA hI wf k wfR hOk h h' (nestedOps_mem_congr hdu k h.sub h'.sub e)

/-- order-free value types (`R.Ok` always true): the discipline hypothesis is trivial -/
theorem nested_converge_orderfree (R : RepSys V VOp) (hA : R.apply = ops.apply) (hI : R.init = ops.default)
    (hfree : ∀ U' K' o, R.Ok U' K' o)
    (wf : LogWF (keyLog U)) (hdu : DotsUnique U) (k : K) (wfR : R.WF (valU k U))
    (h : ReachUp ops U s L) (h' : ReachUp ops U s' L')
    (e : ∀ d o, MapOp.up d k o ∈ L ↔ MapOp.up d k o ∈ L') : (s.get k).val = (s'.get k).val :=
  nested_converge R hA hI wf hdu k wfR (fun _ _ _ _ _ => hfree _ _ _) h h' e

/-! ### instances -/

section orswot
variable {M : Type} [LinOrd M] {U L L' : List (MapOp K (OrswotOp M A) A)} {s s' : CMap K (Orswot M A) A}

/-- **`Map<K, Orswot<M>>`** (value record `Orswot.valOps`, system `orswotSys` whose discipline is "adds of each actor in
order"): the Map-level discipline IMPLIES the nested one, because a nested add made through `Map::update` carries the dot of
the Map op (`NestedOrswotWF.same_dot`); nested removes are unordered.  So without key removes, nested sets converge – nested
deferred removes included (the equality is of whole `Orswot` states). -/
theorem nested_converge_orswot (wf : LogWF (keyLog U)) (hdu : DotsUnique U) (k : K) (hw : NestedOrswotWF k U)
    (h : ReachUp Orswot.valOps U s L) (h' : ReachUp Orswot.valOps U s' L')
    (e : ∀ d o, MapOp.up d k o ∈ L ↔ MapOp.up d k o ∈ L') : (s.get k).val = (s'.get k).val :=
  nested_converge (ops := Orswot.valOps) orswotSys rfl rfl wf hdu k (orswot_valU_wf hdu hw) (orswot_nestedOk hdu hw) h h' e

/-- and the nested set under `k` is what `C04` says of an Orswot that has learned exactly the nested ops of `k` -/
theorem nested_orswot_reach (wf : LogWF (keyLog U)) (hdu : DotsUnique U) (k : K) (hw : NestedOrswotWF k U)
    (h : ReachUp Orswot.valOps U s L) :
    orswotSys.Reach (valU k U) (((s.get k).val).getD Orswot.init) (nestedOps k L).reverse :=
  nested_reach (ops := Orswot.valOps) orswotSys rfl rfl wf k (orswot_nestedOk hdu hw) h
end orswot

section mvreg
variable {ν : Type} [DecidableEq ν] {U L L' : List (MapOp K (MVOp ν A) A)} {s s' : CMap K (MVReg ν A) A}

/-- **`Map<K, MVReg<ν>>`** (value record `MVReg.valOps`, system `mvregSys`: no delivery discipline, states up to the order of
the `Vec`): without key removes the registers under `k` hold the same puts -/
theorem nested_converge_mvreg (wf : LogWF (keyLog U)) (hdu : DotsUnique U) (k : K) (wfR : MVWF (valU k U))
    (h : ReachUp MVReg.valOps U s L) (h' : ReachUp MVReg.valOps U s' L')
    (e : ∀ d o, MapOp.up d k o ∈ L ↔ MapOp.up d k o ∈ L') :
    (s.get k).val.isSome = (s'.get k).val.isSome ∧
      (((s.get k).val).getD MVReg.init).vals.Perm (((s'.get k).val).getD MVReg.init).vals :=
  nested_converge_equiv (ops := MVReg.valOps) mvregSys rfl rfl wf hdu k wfR (fun _ _ _ _ _ => trivial) h h' e
end mvreg

section gset
variable {τ : Type} [LinOrd τ]

/-- `GSet` wrapped as a Map value (illustration of an order-free `RepSys`; the crate's `GSet` has no `ResetRemove`, which
the region never calls) -/
def gsetValOps : ValOps (GSet τ) τ A where
  default := GSet.init
  apply := GSet.apply
  merge := GSet.merge
  resetRemove := fun v _ => v
  validateOp := fun _ _ => true
  validateMerge := fun _ _ => true
  eq := fun a b => some (decide (a = b))

theorem nested_converge_gset {U L L' : List (MapOp K τ A)} {s s' : CMap K (GSet τ) A}
    (wf : LogWF (keyLog U)) (hdu : DotsUnique U) (k : K)
    (h : ReachUp gsetValOps U s L) (h' : ReachUp gsetValOps U s' L')
    (e : ∀ d o, MapOp.up d k o ∈ L ↔ MapOp.up d k o ∈ L') : (s.get k).val = (s'.get k).val :=
  nested_converge_orderfree (ops := gsetValOps) gsetSys rfl rfl (fun _ _ _ => trivial) wf hdu k trivial h h' e
end gset

/-! ## 4. non-vacuity and sharpness (concrete histories, checked by `decide`) -/
namespace Example

abbrev NOp := MapOp Nat (OrswotOp Nat Nat) Nat
abbrev nops : ValOps (Orswot Nat Nat) (OrswotOp Nat Nat) Nat := Orswot.valOps

/-- actor 1 adds 7 to the set under key 10 -/
def op1 : NOp := .up ⟨1, 1⟩ 10 (.add ⟨1, 1⟩ [7])
/-- actor 2 adds 8 to the set under key 20 -/
def op2 : NOp := .up ⟨2, 1⟩ 20 (.add ⟨2, 1⟩ [8])
/-- actor 1 adds 9 to the set under key 10 -/
def op3 : NOp := .up ⟨1, 2⟩ 10 (.add ⟨1, 2⟩ [9])
def Ux : List NOp := [op1, op2, op3]
/-- delivery order op1, op2, op1 (duplicate), op3 – the log is newest first -/
def Lx : List NOp := [op3, op1, op2, op1]
def sx : CMap Nat (Orswot Nat Nat) Nat := [op1, op2, op1, op3].foldl (CMap.apply nops) CMap.init

theorem wfx : LogWF (keyLog Ux) := by
  refine ⟨fun d ms ms' h1 h2 => ?_, fun c ms h => ?_⟩
  · simp only [Ux, keyLog, keyOp, op1, op2, op3, List.map_cons, List.map_nil, List.mem_cons, List.mem_nil_iff, or_false,
      OrswotOp.add.injEq] at h1 h2
    rcases h1 with ⟨rfl, rfl⟩ | ⟨rfl, rfl⟩ | ⟨rfl, rfl⟩ <;> rcases h2 with ⟨h, rfl⟩ | ⟨h, rfl⟩ | ⟨h, rfl⟩ <;>
      first | rfl | (cases h)
  · simp [Ux, keyLog, keyOp, op1, op2, op3] at h

/-- the history is in the region: the hypotheses of `nested_eq_fold` are satisfiable -/
theorem reachx : ReachUp nops Ux sx Lx := by
  have ok : ∀ (L : List NOp) (d : Dot Nat) (k : Nat), (d = ⟨1, 1⟩ ∨ d = ⟨2, 1⟩ ∨ (d = ⟨1, 2⟩ ∧ op1 ∈ L)) →
      OrswotSpec.Ok (keyLog Ux) (keyLog L) (OrswotOp.add d [k]) := by
    intro L d k hd d' ms' hin ha hlt
    simp only [Ux, keyLog, keyOp, op1, op2, op3, List.map_cons, List.map_nil, List.mem_cons, List.mem_nil_iff, or_false,
      OrswotOp.add.injEq] at hin
    rcases hd with rfl | rfl | ⟨rfl, h1⟩ <;> rcases hin with ⟨rfl, rfl⟩ | ⟨rfl, rfl⟩ | ⟨rfl, rfl⟩ <;>
      first
      | (exfalso; simp only at hlt; omega)
      | (exfalso; simp only at ha; omega)
      | exact up_mem_keyLog h1
  have m1 : op1 ∈ Ux := by simp [Ux]
  have m2 : op2 ∈ Ux := by simp [Ux]
  have m3 : op3 ∈ Ux := by simp [Ux]
  have r1 := ReachUp.apply (ops := nops) ReachUp.init m1 (ok _ _ _ (Or.inl rfl))
  have r2 := ReachUp.apply r1 m2 (ok _ _ _ (Or.inr (Or.inl rfl)))
  have r3 := ReachUp.apply r2 m1 (ok _ _ _ (Or.inl rfl))
  exact ReachUp.apply r3 m3 (ok _ _ _ (Or.inr (Or.inr ⟨rfl, List.mem_cons_self⟩)))

/-- the duplicate delivery of `op1` is skipped, chronological order is kept -/
example : nestedOps 10 Lx = [.add ⟨1, 1⟩ [7], .add ⟨1, 2⟩ [9]] ∧ nestedOps 20 Lx = [.add ⟨2, 1⟩ [8]] ∧ nestedOps 30 Lx = [] := by
  decide

/-- `nested_eq_fold`'s right-hand side, evaluated, IS what `CMap.apply` computed – for a key updated twice (with a duplicate
in between), a key updated once, and an absent key -/
example : ∀ k ∈ [10, 20, 30], (sx.entries.get? k).map (·.val) =
    if nestedOps k Lx = [] then none else some ((nestedOps k Lx).foldl nops.apply nops.default) := by decide

/-- … and the theorem gives the same (instance of `nested_eq_fold`) -/
example (k : Nat) : (sx.entries.get? k).map (·.val) =
    if nestedOps k Lx = [] then none else some ((nestedOps k Lx).foldl nops.apply nops.default) :=
  nested_eq_fold wfx reachx k

/-- the nested set under key 10 reads {7, 9} -/
example : ((sx.get 10).val.map (fun v => v.read.val)) = some [7, 9] := by decide

/-- sharpness of the counter-0 clause: with the plain first-occurrences list the statement is false for a counter-0 dot
(`Map::apply` ignores the op, the list does not) -/
theorem first_occurrences_needs_pos :
    let op0 : NOp := .up ⟨1, 0⟩ 10 (.add ⟨1, 0⟩ [7])
    let s0 := CMap.apply nops CMap.init op0
    (s0.entries.get? 10).map (·.val) ≠
      (if firstOps 10 [op0] = [] then none else some ((firstOps 10 [op0]).foldl nops.apply nops.default)) := by
  decide

/-- sharpness of `DotsUnique`: if one dot names two different updates, two replicas of the region that delivered the same set
of ops in different orders hold different nested values (each keeps the one that arrived first) -/
theorem dotsUnique_needed :
    ∃ (U L L' : List NOp) (s s' : CMap Nat (Orswot Nat Nat) Nat), LogWF (keyLog U) ∧ ReachUp nops U s L ∧ ReachUp nops U s' L' ∧
      (∀ x, x ∈ L ↔ x ∈ L') ∧ (s.get 10).val ≠ (s'.get 10).val := by
  let a : NOp := .up ⟨1, 1⟩ 10 (.add ⟨1, 1⟩ [7])
  let b : NOp := .up ⟨1, 1⟩ 10 (.add ⟨1, 1⟩ [8])
  have ok : ∀ (L : List NOp) (k : Nat), OrswotSpec.Ok (keyLog [a, b]) (keyLog L) (OrswotOp.add ⟨1, 1⟩ [k]) := by
    intro L k d' ms' hin ha hlt
    simp only [a, b, keyLog, keyOp, List.map_cons, List.map_nil, List.mem_cons, List.mem_nil_iff, or_false,
      OrswotOp.add.injEq] at hin
    rcases hin with ⟨rfl, rfl⟩ | ⟨rfl, rfl⟩ <;> (exfalso; simp only at hlt; omega)
  have ma : a ∈ [a, b] := by simp
  have mb : b ∈ [a, b] := by simp
  refine ⟨[a, b], [b, a], [a, b], _, _, ?_, ReachUp.apply (ReachUp.apply ReachUp.init ma (ok _ _)) mb (ok _ _),
    ReachUp.apply (ReachUp.apply ReachUp.init mb (ok _ _)) ma (ok _ _), ?_, ?_⟩
  · refine ⟨fun d ms ms' h1 h2 => ?_, fun c ms h => ?_⟩
    · simp only [a, b, keyLog, keyOp, List.map_cons, List.map_nil, List.mem_cons, List.mem_nil_iff, or_false,
        OrswotOp.add.injEq] at h1 h2
      rcases h1 with ⟨rfl, rfl⟩ | ⟨rfl, rfl⟩ <;> rcases h2 with ⟨_, rfl⟩ | ⟨_, rfl⟩ <;> rfl
    · simp [a, b, keyLog, keyOp] at h
  · intro x; simp only [List.mem_cons, List.mem_nil_iff, or_false]; exact Or.comm
  · decide

/-- **outside the region the statement is false** (the crate's behaviour, `witness/map_orswot_causal_diverge.txt`): one key
remove, causal delivery, the same three ops at both replicas – the nested sets differ (one keeps a deferred nested remove) -/
theorem outside_region_diverges :
    let c01 : VClock Nat := VClock.ofDot ⟨0, 1⟩
    let o0 : NOp := .up ⟨0, 1⟩ 0 (.add ⟨0, 1⟩ [0])   -- actor 0 adds member 0 under key 0
    let o1 : NOp := .rm c01 [0]                      -- actor 0 removes key 0 having seen o0
    let o5 : NOp := .up ⟨1, 1⟩ 0 (.rm c01 [0])       -- actor 1, having seen o0, removes member 0 under key 0
    let sA := [o0, o1, o5].foldl (CMap.apply nops) CMap.init
    let sB := [o0, o5, o1].foldl (CMap.apply nops) CMap.init
    (sA.get 0).val ≠ (sB.get 0).val := by
  decide

end Example
end Crdt.C05
