import CrdtModel.Props.C18Map
import CrdtModel.Proofs.MapWF
set_option linter.unusedSectionVars false
/-!
# C18 for `Map`, derivable states — the structural invariant `MapWF` holds in every derivable Map state

`Props/C18Map.lean` proves the laws of `Map::reset_remove` (src/map.rs:87-117) under the structural invariant
`MapWF W s` (= the key level is a well-formed Orswot state, and every stored value satisfies the value type's invariant
`W`) and shows that the KEY half holds in every derivable state (`map_reach_keys_wf`).  Here the VALUE half is proved:

* `Orswot.StateWF` is preserved by `Orswot::apply` / `merge` on ARBITRARY well-formed states (`orswot_wf_apply`,
  `orswot_wf_merge`) – nested Orswots are not derivable in the `orswotSys` sense, a key remove resets them;
* `MVReg.ValsWF` is preserved by `MVReg::apply` / `merge` (`mvreg_wf_apply`, `mvreg_wf_merge`);
* generically: if the value type's operations preserve `W` (`ValClosed ops W OpW`, nested ops restricted by `OpW`), every
  value stored in a derivable Map state satisfies `W` (`map_reach_vals`), hence `MapWF W` (`map_reach_wf`); and a Map over
  a closed value type is itself a closed value type w.r.t. `MapWF W` (`map_closed`), which gives every nesting depth;
* instances `Map<K, MVReg>`, `Map<K, Orswot>`, `Map<K, Map<K2, MVReg>>`, and the laws of `reset_remove` (composition,
  empty clock, idempotence, commutation) as unconditional statements about derivable states.

Hypotheses on the log: `LogWF (keyLog U)` (at key level a dot names one update, key-remove contexts store no zero) and
"every nested op carried by an update of `U` is well formed": for `MVReg` the `Put` clock stores no zero, for `Orswot` a
remove context stores no zero, for a nested `Map` recursively (`MapOpW`).  These are what generation through the API
guarantees (contexts are state clocks).  The hypothesis on nested ops is necessary (`nested_op_wf_needed`).
-/
namespace Crdt.C18
open Crdt LinOrd CMap OrswotSpec

/-! ## 1. Orswot and MVReg: the invariants are preserved on arbitrary well-formed states -/
section leaf
variable {ν M A : Type} [LinOrd M] [LinOrd A]

/-- **`Orswot::apply` preserves `StateWF`** on every well-formed state, for every add (a counter-0 dot is ignored by
`apply`) and every remove whose context stores no zero -/
theorem orswot_wf_apply {s : Orswot M A} (wf : Orswot.StateWF s) {op : OrswotOp M A} (hop : Orswot.OpWF op) :
    Orswot.StateWF (s.apply op) := Orswot.stateWF_apply wf hop

/-- **`Orswot::merge` preserves `StateWF`** on every pair of well-formed states -/
theorem orswot_wf_merge {s o : Orswot M A} (wf : Orswot.StateWF s) (wo : Orswot.StateWF o) :
    Orswot.StateWF (s.merge o) := Orswot.stateWF_merge wf wo

/-- **`MVReg::apply` preserves `ValsWF`** for every `Put` whose clock stores no zero (an empty clock is ignored) -/
theorem mvreg_wf_apply {s : MVReg ν A} (wf : MVReg.ValsWF s) {op : MVOp ν A} (hop : op.clock.NoZero) :
    MVReg.ValsWF (s.apply op) := MVReg.valsWF_apply wf hop

/-- **`MVReg::merge` preserves `ValsWF`** -/
theorem mvreg_wf_merge {s o : MVReg ν A} (wf : MVReg.ValsWF s) (wo : MVReg.ValsWF o) : MVReg.ValsWF (s.merge o) :=
  MVReg.valsWF_merge wf wo

end leaf

/-! ## 2. Map, generic in the value type -/
section generic
variable {K V VOp A : Type} [LinOrd K] [LinOrd A] {ops : ValOps V VOp A} {W : V → Prop} {OpW : VOp → Prop}

/-- **value half**: in every derivable Map state every stored value satisfies the value type's invariant, provided the
value type's operations preserve it and the updates of the log carry well-formed nested ops -/
theorem map_reach_vals (C : ValClosed ops W OpW) {U L : List (MapOp K VOp A)} {s : CMap K V A}
    (hU : ∀ d k o, MapOp.up d k o ∈ U → OpW o) (h : CMap.Reach ops U s L) :
    ∀ k en, s.entries.get? k = some en → W en.val := CMap.vals_reach C hU h

/-- **every derivable Map state satisfies the structural invariant `MapWF`** -/
theorem map_reach_wf {U L : List (MapOp K VOp A)} {s : CMap K V A} (wf : LogWF (keyLog U)) (C : ValClosed ops W OpW)
    (hU : ∀ d k o, MapOp.up d k o ∈ U → OpW o) (h : CMap.Reach ops U s L) : MapWF W s :=
  ⟨map_reach_keys_wf wf h, CMap.vals_reach C hU h⟩

/-- `Map::apply` preserves `MapWF` on every well-formed map (not only derivable ones) -/
theorem map_wf_apply (C : ValClosed ops W OpW) {s : CMap K V A} (wf : MapWF W s) {op : MapOp K VOp A}
    (hop : MapOpW OpW op) : MapWF W (CMap.apply ops s op) := CMap.mapWF_apply C wf hop

/-- `Map::merge` preserves `MapWF` on every pair of well-formed maps -/
theorem map_wf_merge (C : ValClosed ops W OpW) {s o : CMap K V A} (wf : MapWF W s) (wo : MapWF W o) :
    MapWF W (CMap.merge ops s o) := CMap.mapWF_merge C wf wo

/-- a Map over a closed value type is a closed value type (invariant `MapWF W`, ops: nested op well formed, key-remove
contexts without stored zeros): `map_reach_wf` applies at every nesting depth -/
theorem map_closed (C : ValClosed ops W OpW) (toNat : A → Nat) :
    ValClosed (CMap.valOps (K := K) ops toNat) (MapWF W) (MapOpW OpW) := CMap.valClosed_map C toNat

variable {U L : List (MapOp K VOp A)} {s : CMap K V A}

/-- the laws of `Map::reset_remove`, unconditionally on derivable states: `c1` then `c2` = their join … -/
theorem map_reach_compose (Lw : RRLawful ops W) (C : ValClosed ops W OpW) (wf : LogWF (keyLog U))
    (hU : ∀ d k o, MapOp.up d k o ∈ U → OpW o) (h : CMap.Reach ops U s L) (c1 c2 : VClock A) :
    CMap.resetRemove ops (CMap.resetRemove ops s c1) c2 = CMap.resetRemove ops s (c1.merge c2) :=
  map_compose Lw (map_reach_wf wf C hU h) c1 c2

/-- … the empty clock changes nothing … -/
theorem map_reach_empty (Lw : RRLawful ops W) (C : ValClosed ops W OpW) (wf : LogWF (keyLog U))
    (hU : ∀ d k o, MapOp.up d k o ∈ U → OpW o) (h : CMap.Reach ops U s L) : CMap.resetRemove ops s ∅ = s :=
  map_empty Lw (map_reach_wf wf C hU h)

/-- … repeating is a no-op … -/
theorem map_reach_idem (Lw : RRLawful ops W) (C : ValClosed ops W OpW) (wf : LogWF (keyLog U))
    (hU : ∀ d k o, MapOp.up d k o ∈ U → OpW o) (h : CMap.Reach ops U s L) (c : VClock A) :
    CMap.resetRemove ops (CMap.resetRemove ops s c) c = CMap.resetRemove ops s c :=
  map_idem Lw (map_reach_wf wf C hU h) c

/-- … and the order of two resets is irrelevant -/
theorem map_reach_commute (Lw : RRLawful ops W) (C : ValClosed ops W OpW) (wf : LogWF (keyLog U))
    (hU : ∀ d k o, MapOp.up d k o ∈ U → OpW o) (h : CMap.Reach ops U s L) (c1 c2 : VClock A) :
    CMap.resetRemove ops (CMap.resetRemove ops s c1) c2 = CMap.resetRemove ops (CMap.resetRemove ops s c2) c1 :=
  map_commute Lw (map_reach_wf wf C hU h) c1 c2

end generic

/-! ## 3. the value types the crate nests -/
section instances
variable {K K2 ν M A : Type} [LinOrd K] [LinOrd K2] [LinOrd M] [LinOrd A] [DecidableEq ν]

/-- `MVReg`'s operations preserve `ValsWF` (`Put` clocks without stored zeros) -/
theorem mvreg_closed : ValClosed (MVReg.valOps : ValOps (MVReg ν A) (MVOp ν A) A) MVReg.ValsWF MVReg.OpWF where
  default := MVReg.valsWF_init
  apply := fun _ _ wf hop => MVReg.valsWF_apply wf hop
  merge := fun _ _ wf wo => MVReg.valsWF_merge wf wo
  rr := fun _ c wf => MVReg.valsWF_resetRemove wf c

/-- `Orswot`'s operations preserve `StateWF` (remove contexts without stored zeros) -/
theorem orswot_closed : ValClosed (Orswot.valOps : ValOps (Orswot M A) (OrswotOp M A) A) Orswot.StateWF Orswot.OpWF where
  default := Orswot.stateWF_init
  apply := fun _ _ wf hop => Orswot.stateWF_apply wf hop
  merge := fun _ _ wf wo => Orswot.stateWF_merge wf wo
  rr := fun _ c wf => Orswot.stateWF_resetRemove wf c

/-! ### `Map<K, MVReg>` -/
section mvreg
variable {U L : List (MapOp K (MVOp ν A) A)} {s : CMap K (MVReg ν A) A}

/-- derivable states of `Map<K, MVReg>` satisfy `MapWF` -/
theorem map_mvreg_reach_wf (wf : LogWF (keyLog U)) (hU : ∀ d k o, MapOp.up d k o ∈ U → o.clock.NoZero)
    (h : CMap.Reach MVReg.valOps U s L) : MapWF MVReg.ValsWF s := map_reach_wf wf mvreg_closed hU h

theorem map_mvreg_reach_compose (wf : LogWF (keyLog U)) (hU : ∀ d k o, MapOp.up d k o ∈ U → o.clock.NoZero)
    (h : CMap.Reach MVReg.valOps U s L) (c1 c2 : VClock A) :
    CMap.resetRemove MVReg.valOps (CMap.resetRemove MVReg.valOps s c1) c2 =
      CMap.resetRemove MVReg.valOps s (c1.merge c2) :=
  map_compose mvreg_lawful (map_mvreg_reach_wf wf hU h) c1 c2

theorem map_mvreg_reach_empty (wf : LogWF (keyLog U)) (hU : ∀ d k o, MapOp.up d k o ∈ U → o.clock.NoZero)
    (h : CMap.Reach MVReg.valOps U s L) : CMap.resetRemove MVReg.valOps s ∅ = s :=
  map_empty mvreg_lawful (map_mvreg_reach_wf wf hU h)

theorem map_mvreg_reach_idem (wf : LogWF (keyLog U)) (hU : ∀ d k o, MapOp.up d k o ∈ U → o.clock.NoZero)
    (h : CMap.Reach MVReg.valOps U s L) (c : VClock A) :
    CMap.resetRemove MVReg.valOps (CMap.resetRemove MVReg.valOps s c) c = CMap.resetRemove MVReg.valOps s c :=
  map_idem mvreg_lawful (map_mvreg_reach_wf wf hU h) c

end mvreg

/-! ### `Map<K, Orswot>` -/
section orswot
variable {U L : List (MapOp K (OrswotOp M A) A)} {s : CMap K (Orswot M A) A}

/-- derivable states of `Map<K, Orswot>` satisfy `MapWF` -/
theorem map_orswot_reach_wf (wf : LogWF (keyLog U)) (hU : ∀ d k o, MapOp.up d k o ∈ U → Orswot.OpWF o)
    (h : CMap.Reach Orswot.valOps U s L) : MapWF Orswot.StateWF s := map_reach_wf wf orswot_closed hU h

theorem map_orswot_reach_compose (wf : LogWF (keyLog U)) (hU : ∀ d k o, MapOp.up d k o ∈ U → Orswot.OpWF o)
    (h : CMap.Reach Orswot.valOps U s L) (c1 c2 : VClock A) :
    CMap.resetRemove Orswot.valOps (CMap.resetRemove Orswot.valOps s c1) c2 =
      CMap.resetRemove Orswot.valOps s (c1.merge c2) :=
  map_compose orswot_lawful (map_orswot_reach_wf wf hU h) c1 c2

theorem map_orswot_reach_empty (wf : LogWF (keyLog U)) (hU : ∀ d k o, MapOp.up d k o ∈ U → Orswot.OpWF o)
    (h : CMap.Reach Orswot.valOps U s L) : CMap.resetRemove Orswot.valOps s ∅ = s :=
  map_empty orswot_lawful (map_orswot_reach_wf wf hU h)

theorem map_orswot_reach_idem (wf : LogWF (keyLog U)) (hU : ∀ d k o, MapOp.up d k o ∈ U → Orswot.OpWF o)
    (h : CMap.Reach Orswot.valOps U s L) (c : VClock A) :
    CMap.resetRemove Orswot.valOps (CMap.resetRemove Orswot.valOps s c) c = CMap.resetRemove Orswot.valOps s c :=
  map_idem orswot_lawful (map_orswot_reach_wf wf hU h) c

end orswot

/-! ### `Map<K, Map<K2, MVReg>>` (the nesting of the crate's own tests); deeper nestings iterate `map_closed` / `map_lawful` -/
section mapmap
variable (toNat : A → Nat) {U L : List (MapOp K (MapOp K2 (MVOp ν A) A) A)} {s : CMap K (CMap K2 (MVReg ν A) A) A}

/-- derivable states of `Map<K, Map<K2, MVReg>>` satisfy `MapWF (MapWF ValsWF)`: the nested maps – which are NOT derivable
Map states themselves, outer key removes reset them – are well formed at both levels -/
theorem map_map_mvreg_reach_wf (wf : LogWF (keyLog U)) (hU : ∀ d k o, MapOp.up d k o ∈ U → MapOpW MVReg.OpWF o)
    (h : CMap.Reach (CMap.valOps MVReg.valOps toNat) U s L) : MapWF (MapWF MVReg.ValsWF) s :=
  map_reach_wf wf (map_closed mvreg_closed toNat) hU h

theorem map_map_mvreg_reach_compose (wf : LogWF (keyLog U)) (hU : ∀ d k o, MapOp.up d k o ∈ U → MapOpW MVReg.OpWF o)
    (h : CMap.Reach (CMap.valOps MVReg.valOps toNat) U s L) (c1 c2 : VClock A) :
    CMap.resetRemove (CMap.valOps MVReg.valOps toNat) (CMap.resetRemove (CMap.valOps MVReg.valOps toNat) s c1) c2 =
      CMap.resetRemove (CMap.valOps MVReg.valOps toNat) s (c1.merge c2) :=
  map_map_mvreg_compose toNat (map_map_mvreg_reach_wf toNat wf hU h) c1 c2

theorem map_map_mvreg_reach_empty (wf : LogWF (keyLog U)) (hU : ∀ d k o, MapOp.up d k o ∈ U → MapOpW MVReg.OpWF o)
    (h : CMap.Reach (CMap.valOps MVReg.valOps toNat) U s L) :
    CMap.resetRemove (CMap.valOps MVReg.valOps toNat) s ∅ = s :=
  map_map_mvreg_empty toNat (map_map_mvreg_reach_wf toNat wf hU h)

theorem map_map_mvreg_reach_idem (wf : LogWF (keyLog U)) (hU : ∀ d k o, MapOp.up d k o ∈ U → MapOpW MVReg.OpWF o)
    (h : CMap.Reach (CMap.valOps MVReg.valOps toNat) U s L) (c : VClock A) :
    CMap.resetRemove (CMap.valOps MVReg.valOps toNat) (CMap.resetRemove (CMap.valOps MVReg.valOps toNat) s c) c =
      CMap.resetRemove (CMap.valOps MVReg.valOps toNat) s c :=
  map_idem (map_lawful mvreg_lawful toNat) (map_map_mvreg_reach_wf toNat wf hU h) c

end mapmap
end instances

/-! ## 4. non-vacuity and sharpness -/
namespace ReachExample

abbrev ROp := MapOp Nat (MVOp Nat Nat) Nat
abbrev rops : ValOps (MVReg Nat Nat) (MVOp Nat Nat) Nat := MVReg.valOps

/-- actor 0 writes 7 under key 3 -/
def op1 : ROp := .up ⟨0, 1⟩ 3 ⟨VClock.ofDot ⟨0, 1⟩, 7⟩
/-- actor 1 concurrently writes 8 under key 3 -/
def op2 : ROp := .up ⟨1, 1⟩ 3 ⟨VClock.ofDot ⟨1, 1⟩, 8⟩
/-- actor 0 removes key 3 having seen only its own write -/
def op3 : ROp := .rm (VClock.ofDot ⟨0, 1⟩) [3]
def Ur : List ROp := [op1, op2, op3]
def sr : CMap Nat (MVReg Nat Nat) Nat := [op1, op2, op3].foldl (CMap.apply rops) CMap.init

theorem ofDot_nz (d : Dot Nat) : (VClock.ofDot d).NoZero := VClock.noZero_apply VClock.noZero_empty d

theorem wfr : LogWF (keyLog Ur) := by
  refine ⟨fun d ms ms' h1 h2 => ?_, fun c ms h => ?_⟩
  · simp only [Ur, keyLog, keyOp, op1, op2, op3, List.map_cons, List.map_nil, List.mem_cons, List.mem_nil_iff, or_false,
      OrswotOp.add.injEq, reduceCtorEq] at h1 h2
    rcases h1 with ⟨rfl, rfl⟩ | ⟨rfl, rfl⟩ <;> rcases h2 with ⟨h, rfl⟩ | ⟨h, rfl⟩ <;> first | rfl | (cases h)
  · simp only [Ur, keyLog, keyOp, op1, op2, op3, List.map_cons, List.map_nil, List.mem_cons, List.mem_nil_iff, or_false,
      OrswotOp.rm.injEq, reduceCtorEq, false_or] at h
    rw [h.1]; exact ofDot_nz _

theorem nestedr : ∀ d k o, MapOp.up d k o ∈ Ur → o.clock.NoZero := by
  intro d k o h
  simp only [Ur, op1, op2, op3, List.mem_cons, List.mem_nil_iff, or_false, MapOp.up.injEq, reduceCtorEq] at h
  rcases h with ⟨_, _, rfl⟩ | ⟨_, _, rfl⟩ <;> exact ofDot_nz _

theorem reachr : CMap.Reach rops Ur sr [op3, op2, op1] := by
  have ok : ∀ (Lg : List ROp) (d : Dot Nat) (k : Nat), d.counter = 1 →
      OrswotSpec.Ok (keyLog Ur) (keyLog Lg) (OrswotOp.add d [k]) := by
    intro Lg d k hd d' ms' _ _ hlt
    have : d'.counter < 1 := hd ▸ hlt
    have hin : OrswotOp.add d' ms' ∈ keyLog Ur := by assumption
    simp only [Ur, keyLog, keyOp, op1, op2, op3, List.map_cons, List.map_nil, List.mem_cons, List.mem_nil_iff, or_false,
      OrswotOp.add.injEq, reduceCtorEq] at hin
    rcases hin with ⟨rfl, _⟩ | ⟨rfl, _⟩ <;> (exfalso; simp only at this; omega)
  have r1 := CMap.Reach.apply (ops := rops) (U := Ur) CMap.Reach.init (op := op1) (by simp [Ur]) (ok _ _ _ rfl)
  have r2 := CMap.Reach.apply r1 (op := op2) (by simp [Ur]) (ok _ _ _ rfl)
  exact CMap.Reach.apply r2 (op := op3) (by simp [Ur]) trivial

/-- the hypotheses of `map_mvreg_reach_wf` are satisfiable: a 3-op history (two concurrent writes under one key, then a key
remove that covers one of them) … -/
example : MapWF MVReg.ValsWF sr := map_mvreg_reach_wf wfr nestedr reachr

/-- … whose final state is not trivial: key 3 survives with the write the remove had not seen -/
example : sr.entries.l.map (fun p => (p.1, p.2.val.vals.map (·.2))) = [(3, [8])] := by decide

/-- … and on which the composition law therefore holds for all clocks -/
example (c1 c2 : VClock Nat) :
    CMap.resetRemove rops (CMap.resetRemove rops sr c1) c2 = CMap.resetRemove rops sr (c1.merge c2) :=
  map_mvreg_reach_compose wfr nestedr reachr c1 c2

/-- **the hypothesis on nested ops is necessary**: a `Put` whose clock stores a zero (not producible through the API, but
`Op` fields are public) is stored by `MVReg::apply`, and on the resulting – derivable – Map state composition fails:
resetting with `∅` and then with `z = {5:0}` drops the nested value, resetting with `∅ ⊔ z = ∅` keeps it -/
theorem nested_op_wf_needed :
    let z : VClock Nat := ⟨(∅ : FMap Nat Nat).insert 5 0⟩
    let s := CMap.apply rops (CMap.init : CMap Nat (MVReg Nat Nat) Nat) (.up ⟨0, 1⟩ 3 ⟨z, 7⟩)
    (CMap.resetRemove rops (CMap.resetRemove rops s ∅) z).entries.l.map (fun p => p.2.val.vals) ≠
      (CMap.resetRemove rops s ((∅ : VClock Nat).merge z)).entries.l.map (fun p => p.2.val.vals) := by
  decide

end ReachExample

end Crdt.C18
