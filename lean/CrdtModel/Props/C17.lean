import CrdtModel.Proofs.OrswotValidate
import CrdtModel.Proofs.OrswotApply
import CrdtModel.Spec.OrswotSys
import CrdtModel.Spec.Lattice
set_option linter.unusedSectionVars false
/-!
# C17 — `validate_merge` flags reused dots and nothing else

* **Orswot** (src/orswot.rs:114-130): exact characterisation of the verdict for ALL pairs of states
  (`orswot_ok_iff`, `orswot_ok_iff_shared`): the merge is rejected iff two DIFFERENT members – one in each state –
  carry the same live dot.  The verdict is symmetric on well-formed states (`orswot_symmetric`), not on states with a
  stored zero counter (`orswot_asymmetric_with_stored_zero`).  Under correct use **with one member per add**
  (`SingleAdds`: `add`, never `add_all` with ≥ 2 members) every pair of reachable states – live replicas, snapshots,
  any delivery order respecting each actor's adds, any merges – is accepted (`orswot_ok_reachable`).  Misuse (the same
  dot witnessing different members in the two states, e.g. the same actor id used at two replicas) is flagged,
  whatever else the states contain (`orswot_misuse_flagged`).
  KNOWN DEFECT: with `add_all([m1, m2])` (one dot, two members) CORRECT use is flagged too:
  `Witness.validate_merge_flags_correct_add_all`.
* **LWWReg** (src/lwwreg.rs:68-70, 85-87, 108-114): conflict ⇔ equal marker ∧ different value; symmetric; never on
  reachable pairs under unique markers.
* Types whose `Validation` is `Infallible` (VClock, GCounter, PNCounter, GSet, MaxReg, MinReg, MVReg, GList):
  `validate_merge` is the constant `Ok(())` in the Rust source; the model has no function for a constant (the driver
  prints the constant `ok`, compared with the crate by the correspondence check).
-/
namespace Crdt.C17
open Crdt LinOrd

section orswot
variable {M A : Type} [LinOrd M] [LinOrd A]
open Orswot OrswotSpec

/-- **exact verdict, all states**: accepted iff the loop finds no entry `(m, c)` of `a`, stored dot `(x, n)` of `c`
and entry `(m', c')` of `b` with `m' ≠ m` and `c'.get(x) == n` -/
theorem orswot_ok_iff (a b : Orswot M A) :
    a.validateMerge b = .ok () ↔
      ¬ ∃ m c m' c' x n, a.entries.get? m = some c ∧ b.entries.get? m' = some c' ∧ c.dots.get? x = some n ∧
        m' ≠ m ∧ c'.get x = n := validateMerge_ok_iff a b

theorem orswot_error_iff (a b : Orswot M A) :
    (∃ e, a.validateMerge b = .error e) ↔
      ∃ m c m' c' x n, a.entries.get? m = some c ∧ b.entries.get? m' = some c' ∧ c.dots.get? x = some n ∧
        m' ≠ m ∧ c'.get x = n := validateMerge_error_iff a b

/-- **in terms of witnesses** (`a`'s witness clocks store no zero – true of every state built through the API):
accepted iff no two different members share a live dot across the two states -/
theorem orswot_ok_iff_shared {a : Orswot M A} (wa : EntriesWF a.entries) (b : Orswot M A) :
    a.validateMerge b = .ok () ↔
      ¬ ∃ m m' x, m ≠ m' ∧ entryGet a.entries m x ≠ 0 ∧ entryGet b.entries m' x = entryGet a.entries m x := by
  rw [validateMerge_ok_iff]
  exact ⟨fun h sh => h (hit_of_sharedDot sh), fun h hit => h (sharedDot_of_hit wa hit)⟩

/-- **symmetric verdict** on well-formed states -/
theorem orswot_symmetric {a b : Orswot M A} (wa : EntriesWF a.entries) (wb : EntriesWF b.entries) :
    a.validateMerge b = .ok () ↔ b.validateMerge a = .ok () := by
  rw [validateMerge_ok_iff, validateMerge_ok_iff]
  constructor
  · intro h hit; exact h (hit_of_sharedDot (sharedDot_symm (sharedDot_of_hit wb hit)))
  · intro h hit; exact h (hit_of_sharedDot (sharedDot_symm (sharedDot_of_hit wa hit)))

/-- … and the well-formedness is needed: with a stored zero counter (only possible by deserialising one) the verdict
depends on the direction -/
theorem orswot_asymmetric_with_stored_zero :
    let a : Orswot Nat Nat := ⟨∅, (∅ : FMap Nat (VClock Nat)).insert 0 ⟨(∅ : FMap Nat Nat).insert 7 0⟩, ∅⟩
    let b : Orswot Nat Nat := ⟨∅, (∅ : FMap Nat (VClock Nat)).insert 1 ⟨(∅ : FMap Nat Nat).insert 8 1⟩, ∅⟩
    (match a.validateMerge b with | .error _ => true | .ok _ => false) = true ∧
    (match b.validateMerge a with | .error _ => true | .ok _ => false) = false := by decide

/-- **misuse is flagged**: if one dot is a live witness of `m` in `a` and of a different member `m'` in `b`, the
verdict is `DoubleSpentDot` (with some payload – which pair is reported depends on the iteration order) – for ALL
states, whatever else they contain -/
theorem orswot_misuse_flagged (a b : Orswot M A) {m m' : M} {x : A} (hne : m ≠ m')
    (hz : entryGet a.entries m x ≠ 0) (he : entryGet b.entries m' x = entryGet a.entries m x) :
    ∃ e, a.validateMerge b = .error e :=
  (validateMerge_error_iff a b).mpr (hit_of_sharedDot ⟨m, m', x, hne, hz, he⟩)

/-- every add of the log names at most one member (`add`, or `add_all` with ≤ 1 member) -/
def SingleAdds (U : List (OrswotOp M A)) : Prop := ∀ d ms, OrswotOp.add d ms ∈ U → ms.length ≤ 1

/-- a live witness is the dot of a known add naming that member -/
theorem witness_is_add {K : List (OrswotOp M A)} {m : M} {x : A} (h : E K m x ≠ 0) :
    ∃ d ms, OrswotOp.add d ms ∈ K ∧ d.actor = x ∧ m ∈ ms ∧ d.counter = E K m x := by
  unfold E at h ⊢
  split at h
  · next hgt =>
    obtain ⟨d, ms, hin, ha, hm, hc⟩ := Mx_attained (K := K) (m := m) (a := x) (by omega)
    exact ⟨d, ms, hin, ha, hm, by simp only [hgt, if_true]; exact hc⟩
  · exact absurd rfl h

/-- **correct use is accepted** (single-member adds): any two reachable states of one history – live replicas,
snapshots, stale copies; any interleaving respecting each actor's adds; removes in any order; any merges – pass
`validate_merge`, in both directions -/
theorem orswot_ok_reachable {U Ka Kb : List (OrswotOp M A)} {a b : Orswot M A} (wf : LogWF U) (single : SingleAdds U)
    (ha : orswotSys.Reach U a Ka) (hb : orswotSys.Reach U b Kb) : a.validateMerge b = .ok () := by
  have ra := RepSys.reach_rep (R := orswotSys) wf ha
  have rb := RepSys.reach_rep (R := orswotSys) wf hb
  rw [orswot_ok_iff_shared ra.2.ewf]
  rintro ⟨m, m', x, hne, hz, he⟩
  rw [ra.2.entries] at hz he
  rw [rb.2.entries] at he
  obtain ⟨d, ms, hin, hda, hm, hc⟩ := witness_is_add hz
  obtain ⟨d', ms', hin', hda', hm', hc'⟩ := witness_is_add (K := Kb) (m := m') (x := x) (by rw [he]; exact hz)
  have hd : d = d' := by
    cases d; cases d'; simp only at hda hda' hc hc'
    simp only [Dot.mk.injEq]; exact ⟨by rw [hda, hda'], by rw [hc, hc', he]⟩
  subst hd
  have hms := wf.dot_unique d ms ms' (ra.1.sub _ hin) (rb.1.sub _ hin')
  subst hms
  have hl := single d ms (ra.1.sub _ hin)
  match ms, hm, hm', hl with
  | [y], hm, hm', _ =>
    simp only [List.mem_singleton] at hm hm'
    exact hne (hm.trans hm'.symm)
  | [], hm, _, _ => cases hm
  | _ :: _ :: _, _, _, hl => simp at hl

/-- in particular a replica may always merge its own state or any of its snapshots -/
theorem orswot_ok_self {U K : List (OrswotOp M A)} {a : Orswot M A} (wf : LogWF U) (single : SingleAdds U)
    (ha : orswotSys.Reach U a K) : a.validateMerge a = .ok () := orswot_ok_reachable wf single ha ha

/-- **the defect F8 in general form** (not only a witness): at EVERY set state without pending removes whose witnesses of the adding
actor are below its clock entry (true of every derivable state: `C18.orswot_reach_le`), applying the op `add_all` builds for two DIFFERENT
members with the actor's next dot yields a state that `validate_merge` rejects – against itself, hence against every replica that applied
the same op: correct use is flagged, whatever else the set contains. -/
theorem add_all_always_flagged (s : Orswot M A) (d : Dot A) (m1 m2 : M) (hne : m1 ≠ m2) (hdef : s.deferred = ∅)
    (hfresh : s.clock.get d.actor < d.counter) (hle : ∀ m, entryGet s.entries m d.actor ≤ s.clock.get d.actor) :
    ∃ e, (s.apply (.add d [m1, m2])).validateMerge (s.apply (.add d [m1, m2])) = .error e := by
  have hstate : (s.apply (.add d [m1, m2])).entries = insertAll d [m1, m2] s.entries := by
    have hg : ¬ s.clock.get d.actor ≥ d.counter := by omega
    simp only [Orswot.apply, hg, if_false]
    unfold Orswot.applyDeferred
    simp only [hdef]
    rfl
  have h1 : entryGet (insertAll d [m1, m2] s.entries) m1 d.actor = d.counter := by
    rw [entryGet_insertAll]
    have := hle m1
    simp only [List.mem_cons, true_or, and_self, if_true]
    omega
  have h2 : entryGet (insertAll d [m1, m2] s.entries) m2 d.actor = d.counter := by
    rw [entryGet_insertAll]
    have := hle m2
    simp only [List.mem_cons, List.mem_nil_iff, or_false, or_true, and_self, if_true]
    omega
  apply orswot_misuse_flagged _ _ hne (x := d.actor)
  · rw [hstate, h1]; omega
  · rw [hstate, h1, h2]

end orswot

/-! ## LWWReg -/
section lww
variable {ν μ : Type} [DecidableEq ν] [LinOrd μ]

/-- conflict ⇔ equal marker and different value – for `validate_merge` and `validate_op` alike -/
theorem lww_merge_conflict_iff (s o : LWWReg ν μ) :
    s.validateMerge o = .error .conflictingMarker ↔ (s.marker = o.marker ∧ o.val ≠ s.val) := by
  unfold LWWReg.validateMerge LWWReg.validateUpdate; split <;> simp_all

theorem lww_op_conflict_iff (s op : LWWReg ν μ) :
    s.validateOp op = .error .conflictingMarker ↔ (s.marker = op.marker ∧ op.val ≠ s.val) := lww_merge_conflict_iff s op

theorem lww_merge_ok_iff (s o : LWWReg ν μ) :
    s.validateMerge o = .ok () ↔ ¬ (s.marker = o.marker ∧ o.val ≠ s.val) := by
  unfold LWWReg.validateMerge LWWReg.validateUpdate; split <;> simp_all

/-- the verdict does not depend on the direction -/
theorem lww_symmetric (s o : LWWReg ν μ) : s.validateMerge o = .ok () ↔ o.validateMerge s = .ok () := by
  rw [lww_merge_ok_iff, lww_merge_ok_iff]
  constructor <;> (rintro h ⟨e, ne⟩; exact h ⟨e.symm, fun x => ne x.symm⟩)

/-- with unique markers (the type's documented premise) no two reachable registers ever conflict -/
theorem lww_ok_reachable (r0 : LWWReg ν μ) {U K K' : List (LWWReg ν μ)} {s s' : LWWReg ν μ} (wf : UniqueMarkers r0 U)
    (h : (lwwSys r0).Reach U s K) (h' : (lwwSys r0).Reach U s' K') : s.validateMerge s' = .ok () := by
  have r := RepSys.reach_rep (R := lwwSys r0) wf h
  have r' := RepSys.reach_rep (R := lwwSys r0) wf h'
  rw [lww_merge_ok_iff]
  rintro ⟨e, ne⟩
  have := wf s s' (r.2.1.imp id (r.1 s)) (r'.2.1.imp id (r'.1 s')) e
  exact ne (by rw [this])

/-- … and every op of the log validates at every reachable register -/
theorem lww_op_ok_reachable (r0 : LWWReg ν μ) {U K : List (LWWReg ν μ)} {s op : LWWReg ν μ} (wf : UniqueMarkers r0 U)
    (h : (lwwSys r0).Reach U s K) (hop : op ∈ U) : s.validateOp op = .ok () := by
  have r := RepSys.reach_rep (R := lwwSys r0) wf h
  show s.validateMerge op = .ok ()
  rw [lww_merge_ok_iff]
  rintro ⟨e, ne⟩
  have := wf s op (r.2.1.imp id (r.1 s)) (Or.inr hop) e
  exact ne (by rw [this])

end lww

/-! ## non-vacuity -/
section examples
open OrswotSpec
def exU : List (OrswotOp Nat Nat) := [.add ⟨0, 1⟩ [5], .add ⟨1, 1⟩ [6]]
example : LogWF exU ∧ SingleAdds exU := by
  refine ⟨⟨?_, ?_⟩, ?_⟩
  · intro d ms ms' h1 h2
    simp only [exU, List.mem_cons, OrswotOp.add.injEq, List.mem_nil_iff, or_false] at h1 h2
    rcases h1 with ⟨rfl, rfl⟩ | ⟨rfl, rfl⟩ <;> rcases h2 with ⟨h, rfl⟩ | ⟨h, rfl⟩ <;> first | rfl | (cases h)
  · intro c ms h; simp [exU] at h
  · intro d ms h
    simp only [exU, List.mem_cons, OrswotOp.add.injEq, List.mem_nil_iff, or_false] at h
    rcases h with ⟨_, rfl⟩ | ⟨_, rfl⟩ <;> simp
/-- misuse: actor 0 used at two replicas for two different members → flagged -/
example : (match ((Orswot.init : Orswot Nat Nat).apply (.add ⟨0, 1⟩ [5])).validateMerge
    ((Orswot.init : Orswot Nat Nat).apply (.add ⟨0, 1⟩ [6])) with | .error _ => true | .ok _ => false) = true := by decide
end examples

end Crdt.C17
