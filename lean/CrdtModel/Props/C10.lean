import CrdtModel.Proofs.VClock
/-!
# C10 — VClock is a correct partial order with join, meet and forget

Property theorems only (helper lemmas live in `Proofs/VClock.lean`).
All statements quantify over *all* clocks (any actor type with a lawful order, any counters) and all dots.
`NoZero` (no stored zero counter) is assumed exactly where Rust's structural `==` is involved; it is an
invariant of every API function (`noZero_*`), and `Witness.zero_breaks_cmp` shows it is needed.
-/
namespace Crdt.C10
open Crdt LinOrd VClock
variable {α : Type} [LinOrd α]

/-! ## comparison is exactly the pointwise order -/

theorem cmp_equal_iff {a b : VClock α} (ha : a.NoZero) (hb : b.NoZero) :
    a.partialCmp b = some .eq ↔ ∀ x, a.get x = b.get x := by
  rcases partialCmp_cases a b with ⟨h, e⟩ | ⟨h, ne, l⟩ | ⟨h, ne, n, l⟩ | ⟨h, ne, n, l⟩ <;> rw [h]
  · subst e; simp
  all_goals
    simp only [reduceCtorEq, false_iff, Option.some.injEq]
    intro hx; exact ne (ext_get ha hb hx)

theorem cmp_greater_iff {a b : VClock α} (ha : a.NoZero) (hb : b.NoZero) :
    a.partialCmp b = some .gt ↔ b.le a ∧ ¬ a.le b := by
  rcases partialCmp_cases a b with ⟨h, e⟩ | ⟨h, ne, l⟩ | ⟨h, ne, n, l⟩ | ⟨h, ne, n, l⟩ <;> rw [h]
  · subst e; simp [VClock.le_refl]
  · simp only [true_iff]; exact ⟨l, fun l' => ne (VClock.le_antisymm ha hb l' l)⟩
  · simp [n]
  · simp [n]

theorem cmp_less_iff {a b : VClock α} (ha : a.NoZero) (hb : b.NoZero) :
    a.partialCmp b = some .lt ↔ a.le b ∧ ¬ b.le a := by
  rcases partialCmp_cases a b with ⟨h, e⟩ | ⟨h, ne, l⟩ | ⟨h, ne, n, l⟩ | ⟨h, ne, n, l⟩ <;> rw [h]
  · subst e; simp [VClock.le_refl]
  · simp [l]
  · simp [n, l]
  · simp [l]

/-- "reports concurrent iff neither side dominates" -/
theorem cmp_none_iff (a b : VClock α) :
    a.partialCmp b = none ↔ ¬ a.le b ∧ ¬ b.le a := by
  rcases partialCmp_cases a b with ⟨h, e⟩ | ⟨h, ne, l⟩ | ⟨h, ne, n, l⟩ | ⟨h, ne, n, l⟩ <;> rw [h]
  · subst e; simp [VClock.le_refl]
  · simp [l]
  · simp [l]
  · simp [n, l]

theorem concurrent_iff (a b : VClock α) : a.concurrent b = true ↔ ¬ a.le b ∧ ¬ b.le a := by
  simp only [concurrent, Option.isNone_iff_eq_none]; exact cmp_none_iff a b

/-- Rust's `a >= b` on clocks -/
theorem ge_iff (a b : VClock α) : a.ge b = true ↔ b.le a := VClock.ge_iff a b

theorem le_refl (a : VClock α) : a.le a := VClock.le_refl a
theorem le_trans {a b c : VClock α} : a.le b → b.le c → a.le c := VClock.le_trans
theorem le_antisymm {a b : VClock α} (ha : a.NoZero) (hb : b.NoZero) : a.le b → b.le a → a = b :=
  VClock.le_antisymm ha hb

/-- reflexive / antisymmetric / transitive, stated on `partial_cmp` itself -/
theorem cmp_refl (a : VClock α) : a.partialCmp a = some .eq := by simp [partialCmp]

theorem cmp_antisymm {a b : VClock α} (ha : a.NoZero) (hb : b.NoZero) :
    a.partialCmp b = some .lt ↔ b.partialCmp a = some .gt := by
  rw [cmp_less_iff ha hb, cmp_greater_iff hb ha]

theorem cmp_trans_lt {a b c : VClock α} (ha : a.NoZero) (hb : b.NoZero) (hc : c.NoZero)
    (h1 : a.partialCmp b = some .lt) (h2 : b.partialCmp c = some .lt) : a.partialCmp c = some .lt := by
  rw [cmp_less_iff ha hb] at h1; rw [cmp_less_iff hb hc] at h2; rw [cmp_less_iff ha hc]
  exact ⟨VClock.le_trans h1.1 h2.1, fun h => h1.2 (VClock.le_trans h2.1 h)⟩

/-! ## merge is the least upper bound, glb the greatest lower bound -/

theorem merge_get (a b : VClock α) (x : α) : (a.merge b).get x = max (a.get x) (b.get x) := get_merge a b x
theorem merge_upper_left (a b : VClock α) : a.le (a.merge b) := fun x => by rw [get_merge]; omega
theorem merge_upper_right (a b : VClock α) : b.le (a.merge b) := fun x => by rw [get_merge]; omega
theorem merge_least {a b c : VClock α} (h1 : a.le c) (h2 : b.le c) : (a.merge b).le c :=
  fun x => by rw [get_merge]; have := h1 x; have := h2 x; omega

theorem glb_get (a b : VClock α) (x : α) : (a.glb b).get x = min (a.get x) (b.get x) := get_glb a b x
theorem glb_lower_left (a b : VClock α) : (a.glb b).le a := fun x => by rw [get_glb]; omega
theorem glb_lower_right (a b : VClock α) : (a.glb b).le b := fun x => by rw [get_glb]; omega
theorem glb_greatest {a b c : VClock α} (h1 : c.le a) (h2 : c.le b) : c.le (a.glb b) :=
  fun x => by rw [get_glb]; have := h1 x; have := h2 x; omega

/-! ## apply / inc are monotone -/

theorem apply_get (c : VClock α) (d : Dot α) (x : α) :
    (c.apply d).get x = if x = d.actor then max (c.get x) d.counter else c.get x := get_apply c d x
theorem apply_inflationary (c : VClock α) (d : Dot α) : c.le (c.apply d) := fun x => by
  rw [get_apply]; split <;> omega
theorem apply_monotone {a b : VClock α} (h : a.le b) (d : Dot α) : (a.apply d).le (b.apply d) := fun x => by
  rw [get_apply, get_apply]; have := h x; split <;> omega
theorem inc_is_next (c : VClock α) (a : α) : c.inc a = ⟨a, c.get a + 1⟩ := rfl
theorem apply_inc_get (c : VClock α) (a x : α) :
    (c.apply (c.inc a)).get x = if x = a then c.get a + 1 else c.get x := by
  rw [get_apply]; simp only [inc, dot, Dot.inc]
  by_cases e : x = a
  · subst e; simp only [if_true]; omega
  · simp only [e, if_false]

/-! ## forget: reset_remove and intersection -/

/-- `reset_remove(c)` keeps exactly the entries strictly newer than `c` -/
theorem resetRemove_get (s c : VClock α) (x : α) :
    (s.resetRemove c).get x = if s.get x > c.get x then s.get x else 0 := get_resetRemove s c x

/-- `intersection` keeps exactly the equal entries -/
theorem intersection_get (l r : VClock α) (x : α) :
    (intersection l r).get x = if l.get x = r.get x then l.get x else 0 := get_intersection l r x

/-! ## validate_op accepts a dot iff it does not skip a counter -/

theorem validateOp_ok_iff (c : VClock α) (d : Dot α) :
    c.validateOp d = .ok () ↔ d.counter ≤ c.get d.actor + 1 := by
  unfold validateOp; simp only; split
  · next h => simp only [reduceCtorEq, false_iff]; omega
  · next h => simp only [true_iff]; omega

theorem validateOp_error (c : VClock α) (d : Dot α) (h : c.get d.actor + 1 < d.counter) :
    c.validateOp d = .error ⟨d.actor, c.get d.actor + 1, d.counter⟩ := by
  unfold validateOp; simp only; split
  · rfl
  · omega

/-! ## no API call stores a zero counter -/

theorem noZero_new : (∅ : VClock α).NoZero := noZero_empty
theorem noZero_apply' {c : VClock α} (h : c.NoZero) (d : Dot α) : (c.apply d).NoZero := noZero_apply h d
theorem noZero_merge' {c : VClock α} (h : c.NoZero) (o : VClock α) : (c.merge o).NoZero := noZero_merge h o
theorem noZero_resetRemove' {c : VClock α} (h : c.NoZero) (o : VClock α) : (c.resetRemove o).NoZero :=
  noZero_resetRemove h o
theorem noZero_cloneWithout {c : VClock α} (h : c.NoZero) (o : VClock α) : (c.cloneWithout o).NoZero :=
  noZero_resetRemove h o
theorem noZero_glb' (c o : VClock α) : (c.glb o).NoZero := noZero_glb c o
theorem noZero_intersection' {l : VClock α} (h : l.NoZero) (r : VClock α) : (intersection l r).NoZero :=
  noZero_intersection h r
theorem noZero_fromIter' (ds : List (Dot α)) : (fromIter ds).NoZero := noZero_fromIter ds
theorem noZero_ofDot (d : Dot α) : (ofDot d).NoZero := noZero_apply noZero_empty d

/-! ## Dot order: same actor only (src/dot.rs:57-65) -/

theorem dot_cmp_some_iff (a b : Dot α) : (a.partialCmp b).isSome = true ↔ a.actor = b.actor := by
  unfold Dot.partialCmp; split <;> simp [*]

/-! ## non-vacuity: concrete clocks meeting the hypotheses -/

def exA : VClock Nat := (∅ : VClock Nat).apply ⟨1, 2⟩ |>.apply ⟨2, 1⟩
def exB : VClock Nat := (∅ : VClock Nat).apply ⟨1, 1⟩ |>.apply ⟨3, 4⟩
example : exA.NoZero ∧ exB.NoZero := ⟨noZero_apply (noZero_apply noZero_empty _) _, noZero_apply (noZero_apply noZero_empty _) _⟩
example : exA.partialCmp exB = none := by decide
example : (exA.merge exB).partialCmp exA = some .gt := by decide
example : (exA.glb exB).partialCmp exA = some .lt := by decide
example : (exA.resetRemove exB).get 1 = 2 ∧ (exA.resetRemove exB).get 2 = 1 ∧ (exB.resetRemove exA).get 1 = 0 := by decide

end Crdt.C10
