import CrdtModel.Proofs.ResetRemoveMap
import CrdtModel.Props.C18
import CrdtModel.Spec.MapKeys
set_option linter.unusedSectionVars false
/-!
# C18 for `Map` — `Map::reset_remove(c)` (src/map.rs:87-117, after fix c462df9)

For EVERY value type (the record `ValOps`), hence for `Map<K, MVReg>`, `Map<K, Orswot>`, `Map<K, Map<…>>` at every depth:

* key level: `Map::reset_remove` is `Orswot::reset_remove` on the Orswot of keys (`map_key_level`), so every C18 theorem
  about `Orswot` (survival of a key iff a witness exceeds `c`, subtracted contexts, pending key removes united on collision,
  the top clock) holds for the keys of a Map;
* value level: the value under a surviving key is the value type's own `reset_remove(c)` of the old value (`map_entry`,
  `map_value`), a key whose entry clock is covered disappears together with its value;
* laws as equalities of whole Map states – `rr ∅ = id`, `rr c2 ∘ rr c1 = rr (c1 ⊔ c2)`, idempotence, commutation,
  preservation of the structural invariant – for every value type whose own `reset_remove` satisfies these laws
  (`RRLawful`); `MVReg` and `Orswot` do (`mvreg_lawful`, `orswot_lawful`), and a Map over a lawful value type is itself
  lawful (`map_lawful`), so the laws hold for `Map<K, Map<K, MVReg>>` and every deeper nesting.

The structural invariant `MapWF W` = the key level is a well-formed Orswot state and every stored value satisfies the
value type's invariant `W`.  The key-level part holds in every derivable Map state (`map_reach_keys_wf`).
-/
namespace Crdt.C18
open Crdt LinOrd CMap

section map
variable {K V VOp A : Type} [LinOrd K] [LinOrd A] (ops : ValOps V VOp A)

/-- **key level = Orswot of keys**, for every value type and all states / clocks -/
theorem map_key_level (s : CMap K V A) (c : VClock A) :
    (CMap.resetRemove ops s c).keysView = Orswot.resetRemove s.keysView c := CMap.resetRemove_sim ops s c

/-- the top clock: pointwise subtraction -/
theorem map_clock (s : CMap K V A) (c : VClock A) (a : A) :
    (CMap.resetRemove ops s c).clock.get a = if s.clock.get a > c.get a then s.clock.get a else 0 :=
  VClock.get_resetRemove s.clock c a

/-- **entry-wise**: the entry of `k` afterwards is the old entry with clock `− c` and value `V::reset_remove(c)`, dropped
when the subtracted clock is empty -/
theorem map_entry (s : CMap K V A) (c : VClock A) (k : K) :
    (CMap.resetRemove ops s c).entries.get? k =
      match s.entries.get? k with
      | some en => if (en.clock.resetRemove c).isEmpty then none
                   else some ⟨en.clock.resetRemove c, ops.resetRemove en.val c⟩
      | none => none := by
  rw [CMap.get?_resetRemove]
  cases s.entries.get? k with
  | none => rfl
  | some en => rfl

/-- what `get(k)` shows afterwards: the reset value of a surviving key, `None` otherwise -/
theorem map_value (s : CMap K V A) (c : VClock A) (k : K) :
    ((CMap.resetRemove ops s c).get k).val =
      match s.entries.get? k with
      | some en => if (en.clock.resetRemove c).isEmpty then none else some (ops.resetRemove en.val c)
      | none => none := by
  simp only [CMap.get, map_entry]
  cases s.entries.get? k with
  | none => rfl
  | some en => simp only; split <;> rfl

/-- **a key survives iff one of its witnesses is strictly newer than `c`** (well-formed entry clocks) -/
theorem map_key_survives_iff {W : V → Prop} {s : CMap K V A} (wf : MapWF W s) (c : VClock A) (k : K) :
    ((CMap.resetRemove ops s c).get k).val.isSome = true ↔
      ∃ a, c.get a < Orswot.entryGet s.keysView.entries k a := by
  have h := orswot_member_iff wf.keys c k
  rw [← map_key_level ops s c] at h
  rw [← h]
  simp only [CMap.get, Orswot.contains, CMap.keysView, FMap.get?_mapVal]
  cases (CMap.resetRemove ops s c).entries.get? k <;> rfl

/-- the remove context of `get(k)` afterwards: the old witnesses that are strictly newer than `c` -/
theorem map_get_rm_clock (s : CMap K V A) (c : VClock A) (k : K) (a : A) :
    ((CMap.resetRemove ops s c).get k).rmClock.get a =
      if Orswot.entryGet s.keysView.entries k a > c.get a then Orswot.entryGet s.keysView.entries k a else 0 := by
  have h := orswot_witness s.keysView c k a
  rw [← map_key_level ops s c] at h
  rw [← h]
  simp only [CMap.get, Orswot.entryGet, CMap.keysView, FMap.get?_mapVal]
  cases (CMap.resetRemove ops s c).entries.get? k <;> rfl

/-- pending key removes: the contexts afterwards are the non-empty subtracted old contexts … -/
theorem map_deferred_contexts (s : CMap K V A) (c k : VClock A) :
    ((CMap.resetRemove ops s c).deferred.get? k).isSome = true ↔
      ∃ d, (s.deferred.get? d).isSome = true ∧ d.resetRemove c = k ∧ k.isEmpty = false :=
  orswot_deferred_contexts s.keysView c k

/-- … and each holds the UNION of the key sets of the old contexts that collide on it (what fix c462df9 established) -/
theorem map_deferred_members (s : CMap K V A) (c k : VClock A) (m : K) :
    (∃ T, (CMap.resetRemove ops s c).deferred.get? k = some T ∧ T.contains m = true) ↔
      ∃ d, (∃ T, s.deferred.get? d = some T ∧ T.contains m = true) ∧ d.resetRemove c = k ∧ k.isEmpty = false :=
  orswot_deferred_members s.keysView c k m

variable {ops} {W : V → Prop}

/-- the empty clock changes nothing -/
theorem map_empty (L : RRLawful ops W) {s : CMap K V A} (wf : MapWF W s) : CMap.resetRemove ops s ∅ = s :=
  CMap.resetRemove_empty L wf

/-- `c1` then `c2` = their join, as an equality of whole Map states (clock, entries incl. nested values, deferred) -/
theorem map_compose (L : RRLawful ops W) {s : CMap K V A} (wf : MapWF W s) (c1 c2 : VClock A) :
    CMap.resetRemove ops (CMap.resetRemove ops s c1) c2 = CMap.resetRemove ops s (c1.merge c2) :=
  CMap.resetRemove_comp L (VClock.rrComp_merge c1 c2) wf

/-- repeating is a no-op -/
theorem map_idem (L : RRLawful ops W) {s : CMap K V A} (wf : MapWF W s) (c : VClock A) :
    CMap.resetRemove ops (CMap.resetRemove ops s c) c = CMap.resetRemove ops s c :=
  CMap.resetRemove_comp L (VClock.rrComp_idem c) wf

theorem map_commute (L : RRLawful ops W) {s : CMap K V A} (wf : MapWF W s) (c1 c2 : VClock A) :
    CMap.resetRemove ops (CMap.resetRemove ops s c1) c2 = CMap.resetRemove ops (CMap.resetRemove ops s c2) c1 := by
  have h21 : VClock.RRComp c2 c1 (c1.merge c2) := fun d hd => by
    rw [VClock.resetRemove_comm hd c2 c1]; exact VClock.resetRemove_resetRemove hd c1 c2
  rw [CMap.resetRemove_comp L (VClock.rrComp_merge c1 c2) wf, CMap.resetRemove_comp L h21 wf]

/-- the structural invariant is preserved -/
theorem map_wf (L : RRLawful ops W) {s : CMap K V A} (wf : MapWF W s) (c : VClock A) :
    MapWF W (CMap.resetRemove ops s c) := CMap.mapWF_resetRemove L wf c

/-- **own clock**: subtracting the map's own clock empties the clock and every entry, hence every read
(entry clocks are below the map clock on derivable states: `map_reach_le`) -/
theorem map_own_clock {s : CMap K V A} (wf : MapWF W s)
    (hle : ∀ k a, Orswot.entryGet s.keysView.entries k a ≤ s.clock.get a) :
    (CMap.resetRemove ops s s.clock).clock = ∅ ∧ (CMap.resetRemove ops s s.clock).entries = ∅ ∧
      (CMap.resetRemove ops s s.clock).len.val = 0 := by
  have h := orswot_own_clock wf.keys hle
  rw [show s.keysView.clock = s.clock from rfl, ← map_key_level ops s s.clock] at h
  have he : (CMap.resetRemove ops s s.clock).entries = ∅ := by
    apply FMap.ext
    intro k
    have := congrArg (fun e => e.get? k) h.2.1
    simp only [CMap.keysView, FMap.get?_mapVal] at this
    cases hg : (CMap.resetRemove ops s s.clock).entries.get? k with
    | none => simp
    | some en => rw [hg] at this; simp at this
  refine ⟨h.1, he, ?_⟩
  simp only [CMap.len, he]; rfl

/-- a Map over a lawful value type is a lawful value type: all of the above holds at every nesting depth -/
theorem map_lawful (L : RRLawful ops W) (toNat : A → Nat) :
    RRLawful (CMap.valOps (K := K) ops toNat) (MapWF W) := CMap.rrLawful_map L toNat

end map

/-! ## the value types the crate nests -/
section instances
variable {K ν M A : Type} [LinOrd K] [LinOrd M] [LinOrd A] [DecidableEq ν]

theorem mvreg_lawful : RRLawful (MVReg.valOps : ValOps (MVReg ν A) (MVOp ν A) A) MVReg.ValsWF where
  wf_rr := fun _ c wf => MVReg.valsWF_resetRemove wf c
  comp := fun h _ wf => MVReg.resetRemove_comp h wf
  empty := fun _ wf => MVReg.resetRemove_empty wf

theorem orswot_lawful : RRLawful (Orswot.valOps : ValOps (Orswot M A) (OrswotOp M A) A) Orswot.StateWF where
  wf_rr := fun _ c wf => Orswot.stateWF_resetRemove wf c
  comp := fun h _ wf => Orswot.resetRemove_comp h wf
  empty := fun _ wf => Orswot.resetRemove_empty wf

/-- `Map<K, MVReg>` -/
theorem map_mvreg_compose {s : CMap K (MVReg ν A) A} (wf : MapWF MVReg.ValsWF s) (c1 c2 : VClock A) :
    CMap.resetRemove MVReg.valOps (CMap.resetRemove MVReg.valOps s c1) c2 = CMap.resetRemove MVReg.valOps s (c1.merge c2) :=
  map_compose mvreg_lawful wf c1 c2

/-- `Map<K, Orswot>` -/
theorem map_orswot_compose {s : CMap K (Orswot M A) A} (wf : MapWF Orswot.StateWF s) (c1 c2 : VClock A) :
    CMap.resetRemove Orswot.valOps (CMap.resetRemove Orswot.valOps s c1) c2 = CMap.resetRemove Orswot.valOps s (c1.merge c2) :=
  map_compose orswot_lawful wf c1 c2

/-- `Map<K, Map<K2, MVReg>>` (the nesting of the crate's own tests); deeper nestings iterate `map_lawful` -/
theorem map_map_mvreg_compose {K2 : Type} [LinOrd K2] (toNat : A → Nat)
    {s : CMap K (CMap K2 (MVReg ν A) A) A} (wf : MapWF (MapWF MVReg.ValsWF) s) (c1 c2 : VClock A) :
    CMap.resetRemove (CMap.valOps MVReg.valOps toNat) (CMap.resetRemove (CMap.valOps MVReg.valOps toNat) s c1) c2 =
      CMap.resetRemove (CMap.valOps MVReg.valOps toNat) s (c1.merge c2) :=
  map_compose (map_lawful mvreg_lawful toNat) wf c1 c2

theorem map_map_mvreg_empty {K2 : Type} [LinOrd K2] (toNat : A → Nat)
    {s : CMap K (CMap K2 (MVReg ν A) A) A} (wf : MapWF (MapWF MVReg.ValsWF) s) :
    CMap.resetRemove (CMap.valOps MVReg.valOps toNat) s ∅ = s :=
  map_empty (map_lawful mvreg_lawful toNat) wf

end instances

/-! ## derivable Map states -/
section reach
variable {K V VOp A : Type} [LinOrd K] [LinOrd A] {ops : ValOps V VOp A}
open OrswotSpec

/-- the key level of every derivable Map state (any value type; updates of each actor in issue order, key removes in any
order, duplicates, merges) satisfies the structural invariant -/
theorem map_reach_keys_wf {U L : List (MapOp K VOp A)} {s : CMap K V A} (wf : LogWF (keyLog U))
    (h : CMap.Reach ops U s L) : Orswot.StateWF s.keysView := by
  have r := CMap.keys_rep wf h
  refine ⟨r.2.clock_nz, r.2.ewf, ?_⟩
  intro k hk
  obtain ⟨⟨ms, hin⟩, a, ha⟩ := (r.2.def_some k).mp hk
  refine ⟨wf.rm_nz k ms (r.1.sub _ hin), ?_⟩
  cases he : k.isEmpty with
  | false => rfl
  | true => have := VClock.get_of_isEmpty he a; omega

/-- … and its entry clocks are below the map clock (premise of `map_own_clock`) -/
theorem map_reach_le {U L : List (MapOp K VOp A)} {s : CMap K V A} (wf : LogWF (keyLog U))
    (h : CMap.Reach ops U s L) (k : K) (a : A) : Orswot.entryGet s.keysView.entries k a ≤ s.clock.get a := by
  have r := (CMap.keys_rep wf h).2
  rw [r.entries, show s.clock = s.keysView.clock from rfl, r.clock]; exact E_le_clk _ k a

end reach

/-! ## non-vacuity: a Map<_, MVReg> with a pending key remove and two entries -/
section example_
def exMV : MVReg Nat Nat := ⟨[((∅ : VClock Nat).apply ⟨0, 2⟩, 7)]⟩
def exMap : CMap Nat (MVReg Nat Nat) Nat :=
  ⟨(∅ : VClock Nat).apply ⟨0, 2⟩ |>.apply ⟨1, 1⟩,
   (∅ : FMap Nat (MapEntry (MVReg Nat Nat) Nat)).insert 3 ⟨(∅ : VClock Nat).apply ⟨0, 2⟩, exMV⟩
     |>.insert 4 ⟨(∅ : VClock Nat).apply ⟨1, 1⟩, ⟨[((∅ : VClock Nat).apply ⟨1, 1⟩, 8)]⟩⟩,
   (∅ : FMap (VClock Nat) (FSet Nat)).insert ((∅ : VClock Nat).apply ⟨2, 1⟩) (Orswot.setOfList [3])⟩

/-- resetting with {0:2} drops key 3 (and its value), keeps key 4 untouched and keeps the pending remove -/
example : ((CMap.resetRemove MVReg.valOps exMap ((∅ : VClock Nat).apply ⟨0, 2⟩)).entries.l.map (·.1)) = [4] := by decide
example : (CMap.resetRemove MVReg.valOps exMap ((∅ : VClock Nat).apply ⟨0, 2⟩)).deferred = exMap.deferred := by decide
/-- composition on the example (key level compared; the general statement is `map_compose`) -/
example : (CMap.resetRemove MVReg.valOps (CMap.resetRemove MVReg.valOps exMap ((∅ : VClock Nat).apply ⟨0, 1⟩)) ((∅ : VClock Nat).apply ⟨1, 1⟩)).keysView
    = (CMap.resetRemove MVReg.valOps exMap (((∅ : VClock Nat).apply ⟨0, 1⟩).merge ((∅ : VClock Nat).apply ⟨1, 1⟩))).keysView := by decide
end example_

end Crdt.C18
