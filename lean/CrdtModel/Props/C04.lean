import CrdtModel.Spec.OrswotSys
import CrdtModel.Proofs.OrswotExec
set_option linter.unusedSectionVars false
/-!
# C04 — Orswot is an observed-remove, add-wins set

Hypotheses: `LogWF U` (a dot names one add; remove contexts are clocks without stored zeros – what API generation
guarantees) and `Reach U s K`: `s` is the state of any replica or snapshot of any history whose deliveries respect
each actor's own order **on adds** (removes may arrive in any order, before or after what they observed; duplicates;
merges of live or stale states; `add_all`/`rm_all` included since ops carry member lists).
-/
namespace Crdt.C04
open Crdt LinOrd RepSys OrswotSpec Orswot
variable {M A : Type} [LinOrd M] [LinOrd A] {U K : List (OrswotOp M A)} {s : Orswot M A}

theorem rep (wf : LogWF U) (h : orswotSys.Reach U s K) : OrswotSpec.Rep K s := (reach_rep (R := orswotSys) wf h).2

/-- **every derivable state IS the executable specification of its knowledge** (`specState` builds the state from the op
list alone; it is what the driver prints and the check compares the implementation with) -/
theorem state_eq_spec (wf : LogWF U) (h : orswotSys.Reach U s K) : s = specState K := eq_specState (rep wf h)

/-- presence of an entry = some positive witness (no empty entries are stored) -/
theorem present_iff_witness (h : OrswotSpec.Rep K s) (m : M) :
    (s.entries.get? m).isSome = true ↔ ∃ a, 0 < E K m a := by
  constructor
  · intro hs
    obtain ⟨mc, hmc⟩ := Option.isSome_iff_exists.mp hs
    have w := h.ewf m mc hmc
    have : ¬ ∀ a, mc.get a = 0 := fun hz => by
      have := (VClock.isEmpty_iff_get w.1).mpr hz; rw [this] at w; exact absurd w.2 (by simp)
    obtain ⟨a, ha⟩ := Classical.not_forall.mp this
    refine ⟨a, ?_⟩
    rw [← h.entries m a]; simp only [entryGet, hmc]; omega
  · rintro ⟨a, ha⟩
    rw [← h.entries m a] at ha
    cases hg : s.entries.get? m with
    | none => simp [entryGet, hg] at ha
    | some mc => rfl

/-- **membership**: `m` is read iff the replica knows an add of `m` that no known remove of `m` covers -/
theorem member_iff_of_rep (r : OrswotSpec.Rep K s) (m : M) :
    m ∈ s.read.val ↔
      ∃ d ms, OrswotOp.add d ms ∈ K ∧ m ∈ ms ∧ 0 < d.counter ∧
        ∀ c ms', OrswotOp.rm c ms' ∈ K → m ∈ ms' → c.get d.actor < d.counter := by
  have hread : m ∈ s.read.val ↔ (s.entries.get? m).isSome = true := by
    simp only [Orswot.read, List.mem_map]
    constructor
    · rintro ⟨p, hp, e⟩
      have := AL.get?_of_mem s.entries.sorted (x := p.1) (v := p.2) hp
      subst e; simp [FMap.get?, this]
    · intro hs
      obtain ⟨mc, hmc⟩ := Option.isSome_iff_exists.mp hs
      exact ⟨(m, mc), AL.mem_of_get? hmc, rfl⟩
  rw [hread, present_iff_witness r]
  constructor
  · rintro ⟨a, ha⟩
    unfold E at ha
    split at ha
    · next hgt =>
      obtain ⟨d, ms, hin, hda, hm, hc⟩ := Mx_attained (K := K) (m := m) (a := a) (by omega)
      refine ⟨d, ms, hin, hm, by omega, fun c ms' hrm hm' => ?_⟩
      have := le_θ hrm hm' a
      rw [hda]; omega
    · omega
  · rintro ⟨d, ms, hin, hm, hpos, hcov⟩
    refine ⟨d.actor, ?_⟩
    have hM := le_Mx hin hm
    unfold E
    have : θ K m d.actor < Mx K m d.actor := by
      by_cases hz : θ K m d.actor = 0
      · omega
      · obtain ⟨c, ms', hrm, hm', hc⟩ := θ_attained (K := K) (m := m) (a := d.actor) (by omega)
        have := hcov c ms' hrm hm'
        omega
    simp only [this, if_true]; omega

theorem member_iff (wf : LogWF U) (h : orswotSys.Reach U s K) (m : M) :
    m ∈ s.read.val ↔
      ∃ d ms, OrswotOp.add d ms ∈ K ∧ m ∈ ms ∧ 0 < d.counter ∧
        ∀ c ms', OrswotOp.rm c ms' ∈ K → m ∈ ms' → c.get d.actor < d.counter :=
  member_iff_of_rep (rep wf h) m

/-- `contains(m)` agrees with `read` -/
theorem contains_val (m : M) : (s.contains m).val = true ↔ m ∈ s.read.val := by
  simp only [Orswot.contains, Orswot.read, List.mem_map]
  constructor
  · intro hs
    obtain ⟨mc, hmc⟩ := Option.isSome_iff_exists.mp hs
    exact ⟨(m, mc), AL.mem_of_get? hmc, rfl⟩
  · rintro ⟨p, hp, e⟩
    have := AL.get?_of_mem s.entries.sorted (x := p.1) (v := p.2) hp
    subst e; simp [FMap.get?, this]

/-- **the context returned for a member is exactly its surviving add witnesses**: per actor, the newest known add of
`m` by that actor, unless a known remove of `m` covers it -/
theorem contains_rm_clock (wf : LogWF U) (h : orswotSys.Reach U s K) (m : M) (a : A) :
    (s.contains m).rmClock.get a = (if Mx K m a > θ K m a then Mx K m a else 0) := by
  have r := rep wf h
  have := r.entries m a
  unfold E at this
  rw [← this]
  simp only [Orswot.contains, entryGet]
  cases s.entries.get? m <;> simp

/-- **add wins**: an add that no known remove of that member covers survives – whatever order things arrived in,
through merges, concurrent or later removes notwithstanding -/
theorem add_wins (wf : LogWF U) (h : orswotSys.Reach U s K) {d : Dot A} {ms : List M} {m : M}
    (hin : OrswotOp.add d ms ∈ K) (hm : m ∈ ms) (hpos : 0 < d.counter)
    (hcov : ∀ c ms', OrswotOp.rm c ms' ∈ K → m ∈ ms' → c.get d.actor < d.counter) : m ∈ s.read.val :=
  (member_iff wf h m).mpr ⟨d, ms, hin, hm, hpos, hcov⟩

/-- **a remove deletes what its author had read**: if every known add of `m` is covered by a known remove of `m`,
`m` is absent -/
theorem removed_if_all_covered (wf : LogWF U) (h : orswotSys.Reach U s K) (m : M)
    (hall : ∀ d ms, OrswotOp.add d ms ∈ K → m ∈ ms → 0 < d.counter →
      ∃ c ms', OrswotOp.rm c ms' ∈ K ∧ m ∈ ms' ∧ d.counter ≤ c.get d.actor) : m ∉ s.read.val := by
  intro hmem
  obtain ⟨d, ms, hin, hm, hpos, hcov⟩ := (member_iff wf h m).mp hmem
  obtain ⟨c, ms', hrm, hm', hle⟩ := hall d ms hin hm hpos
  have := hcov c ms' hrm hm'
  omega

/-- the replica clock covers every applied add -/
theorem read_add_clock (wf : LogWF U) (h : orswotSys.Reach U s K) (a : A) :
    s.read.addClock.get a = clk K a := (rep wf h).clock a

/-! ## non-vacuity: a concrete history meeting the hypotheses (concurrent add and remove of the same member) -/
section example_
def c1 : VClock Nat := (∅ : VClock Nat).apply ⟨1, 1⟩
def exU : List (OrswotOp Nat Nat) := [.add ⟨1, 1⟩ [7], .rm c1 [7], .add ⟨2, 1⟩ [7]]
example : LogWF exU := by
  refine ⟨?_, ?_⟩
  · intro d ms ms' h1 h2
    simp only [exU, List.mem_cons, OrswotOp.add.injEq, reduceCtorEq, List.mem_nil_iff, or_false, false_or] at h1 h2
    rcases h1 with ⟨rfl, rfl⟩ | ⟨rfl, rfl⟩ <;> rcases h2 with ⟨h, rfl⟩ | ⟨h, rfl⟩ <;> first | rfl | (cases h)
  · intro c ms h
    simp only [exU, List.mem_cons, OrswotOp.rm.injEq, reduceCtorEq, List.mem_nil_iff, or_false, false_or] at h
    rw [h.1]; exact VClock.noZero_apply VClock.noZero_empty _
/-- the remove arrives BEFORE the add it observed and before a concurrent add; the concurrent add wins -/
example : ∃ s K, (orswotSys (M := Nat) (A := Nat)).Reach exU s K ∧ s.read.val = [7] ∧ (s.contains 7).rmClock.get 2 = 1
    ∧ (s.contains 7).rmClock.get 1 = 0 := by
  have noPred : ∀ (K : List (OrswotOp Nat Nat)) (a : Nat), OrswotSpec.PredsIn exU K ⟨a, 1⟩ := by
    intro K a d' ms' hu ha hlt
    simp only [exU, List.mem_cons, OrswotOp.add.injEq, reduceCtorEq, List.mem_nil_iff, or_false, false_or] at hu
    rcases hu with ⟨rfl, _⟩ | ⟨rfl, _⟩ <;> simp at hlt
  have r1 : (orswotSys (M := Nat) (A := Nat)).Reach exU _ _ :=
    Reach.apply (R := orswotSys) (op := .rm c1 [7]) Reach.init (by simp [exU]) (by exact True.intro)
  have r2 : (orswotSys (M := Nat) (A := Nat)).Reach exU _ _ :=
    Reach.apply (R := orswotSys) (op := .add ⟨2, 1⟩ [7]) r1 (by simp [exU]) (by exact noPred _ 2)
  have r3 : (orswotSys (M := Nat) (A := Nat)).Reach exU _ _ :=
    Reach.apply (R := orswotSys) (op := .add ⟨1, 1⟩ [7]) r2 (by simp [exU]) (by exact noPred _ 1)
  exact ⟨_, _, r3, by decide, by decide, by decide⟩
end example_

end Crdt.C04
