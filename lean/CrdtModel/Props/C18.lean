import CrdtModel.Proofs.ResetRemoveMVReg
import CrdtModel.Proofs.ResetRemoveOrswot
import CrdtModel.Spec.Lattice
import CrdtModel.Spec.MVReg
import CrdtModel.Spec.OrswotSys
set_option linter.unusedSectionVars false
/-!
# C18 — `reset_remove(c)` forgets exactly what the clock `c` covers

For `VClock`, `GCounter`, `PNCounter`, `MVReg`, `Orswot` (`Map` is handled elsewhere): `reset_remove(c)` removes exactly
the data all of whose witnessing dots are covered by `c` and keeps everything else with the covered dots subtracted
from its contexts; the empty clock changes nothing; the holder's own full clock empties it; `c1` then `c2` equals
their join `c1 ⊔ c2` (`VClock.merge`); repeating is a no-op.

Every statement is for ALL clocks `c` (below, above or concurrent with the state) and for all states satisfying the
structural invariant of the type (`NoZero` clocks; `MVReg.ValsWF`; `Orswot.StateWF`) – which every reachable state
satisfies (`*_reach_*` theorems, from the representation theorems) and which `reset_remove` preserves (`*_wf`).
Where no invariant is needed the statement is for all states.  `⊔` is `VClock.merge`.
-/
namespace Crdt.C18
open Crdt LinOrd

/-! ## VClock (src/vclock.rs:85-91) -/
section vclock
variable {α : Type} [LinOrd α]

/-- pointwise: the counter of `x` is kept iff it is strictly newer than `c`'s (all clocks) -/
theorem vclock_get (s c : VClock α) (x : α) :
    (s.resetRemove c).get x = if s.get x > c.get x then s.get x else 0 := VClock.get_resetRemove s c x

/-- at the level of the stored map: entries strictly above `c` are kept unchanged, the others are deleted -/
theorem vclock_entry {s : VClock α} (hs : s.NoZero) (c : VClock α) (x : α) :
    (s.resetRemove c).dots.get? x = if s.get x > c.get x then s.dots.get? x else none :=
  VClock.get?_resetRemove_of_noZero hs c x

/-- … without any assumption (stored zeros included): dropped iff `c` stores a counter `≥` the entry -/
theorem vclock_entry_raw (s c : VClock α) (x : α) :
    (s.resetRemove c).dots.get? x =
      match c.dots.get? x with
      | some n => if n ≥ s.get x then none else s.dots.get? x
      | none => s.dots.get? x := VClock.get?_resetRemove s c x

theorem vclock_empty (s : VClock α) : s.resetRemove ∅ = s := VClock.resetRemove_empty s
theorem vclock_self (s : VClock α) : s.resetRemove s = ∅ := VClock.resetRemove_self s

/-- everything is forgotten iff `c` dominates the clock -/
theorem vclock_covered_iff {s : VClock α} (hs : s.NoZero) (c : VClock α) : s.resetRemove c = ∅ ↔ s.le c :=
  VClock.resetRemove_eq_empty_iff hs c

/-- nothing is forgotten iff `c` is strictly below the clock wherever the clock has an entry -/
theorem vclock_untouched_iff {s : VClock α} (hs : s.NoZero) (c : VClock α) :
    s.resetRemove c = s ↔ ∀ x, s.get x ≠ 0 → c.get x < s.get x := by
  constructor
  · intro e x hx
    have := vclock_get s c x
    rw [e] at this
    split at this <;> omega
  · intro h
    apply VClock.ext_get (VClock.noZero_resetRemove hs c) hs
    intro x
    rw [vclock_get]
    have := h x
    split <;> omega

theorem vclock_compose {s : VClock α} (hs : s.NoZero) (c1 c2 : VClock α) :
    (s.resetRemove c1).resetRemove c2 = s.resetRemove (c1.merge c2) := VClock.resetRemove_resetRemove hs c1 c2

theorem vclock_commute {s : VClock α} (hs : s.NoZero) (c1 c2 : VClock α) :
    (s.resetRemove c1).resetRemove c2 = (s.resetRemove c2).resetRemove c1 := VClock.resetRemove_comm hs c1 c2

theorem vclock_idem (s c : VClock α) : (s.resetRemove c).resetRemove c = s.resetRemove c := VClock.resetRemove_idem s c

theorem vclock_wf {s : VClock α} (hs : s.NoZero) (c : VClock α) : (s.resetRemove c).NoZero := VClock.noZero_resetRemove hs c

/-- what remains is a sub-clock of what was there -/
theorem vclock_le (s c : VClock α) : (s.resetRemove c).le s := VClock.resetRemove_le s c

/-- every derivable clock (any ops, any order, merges) satisfies the invariant -/
theorem vclock_reach_wf {U K : List (Dot α)} {s : VClock α} (h : vclockSys.Reach U s K) : s.NoZero :=
  (RepSys.reach_rep (R := vclockSys) trivial h).2.1

end vclock

/-! ## GCounter (src/gcounter.rs:67-69) -/
section gcounter
variable {α : Type} [LinOrd α]

theorem gcounter_get (s : GCounter α) (c : VClock α) (x : α) :
    (s.resetRemove c).inner.get x = if s.inner.get x > c.get x then s.inner.get x else 0 :=
  VClock.get_resetRemove s.inner c x

theorem gcounter_empty (s : GCounter α) : s.resetRemove ∅ = s := by cases s; rfl

/-- the counter's own clock resets it: state = new counter, `read = 0` -/
theorem gcounter_self (s : GCounter α) : s.resetRemove s.inner = GCounter.init ∧ (s.resetRemove s.inner).read = 0 := by
  have : s.resetRemove s.inner = GCounter.init := GCounter.ext (VClock.resetRemove_self s.inner)
  exact ⟨this, by rw [this]; rfl⟩

theorem gcounter_covered {s : GCounter α} (hs : s.inner.NoZero) {c : VClock α} (h : s.inner.le c) :
    s.resetRemove c = GCounter.init := GCounter.ext (VClock.resetRemove_of_le hs h)

/-- `read` afterwards: the sum of the per-actor totals strictly above `c` -/
theorem gcounter_read {s : GCounter α} (hs : s.inner.NoZero) (c : VClock α) :
    (s.resetRemove c).read = ((s.inner.dots.l.filter (fun p => decide (p.2 > c.get p.1))).map (·.2)).sum :=
  GCounter.read_resetRemove hs c

theorem gcounter_compose {s : GCounter α} (hs : s.inner.NoZero) (c1 c2 : VClock α) :
    (s.resetRemove c1).resetRemove c2 = s.resetRemove (c1.merge c2) :=
  GCounter.ext (VClock.resetRemove_resetRemove hs c1 c2)

theorem gcounter_idem (s : GCounter α) (c : VClock α) : (s.resetRemove c).resetRemove c = s.resetRemove c :=
  GCounter.ext (VClock.resetRemove_idem s.inner c)

theorem gcounter_wf {s : GCounter α} (hs : s.inner.NoZero) (c : VClock α) : (s.resetRemove c).inner.NoZero :=
  VClock.noZero_resetRemove hs c

theorem gcounter_reach_wf {U K : List (Dot α)} {s : GCounter α} (h : gcounterSys.Reach U s K) : s.inner.NoZero :=
  (RepSys.reach_rep (R := gcounterSys) trivial h).2.1

end gcounter

/-! ## PNCounter (src/pncounter.rs:83-86): both halves -/
section pncounter
variable {α : Type} [LinOrd α]

/-- the invariant: neither half stores a zero -/
def PNWF (s : PNCounter α) : Prop := s.p.inner.NoZero ∧ s.n.inner.NoZero

theorem pncounter_get (s : PNCounter α) (c : VClock α) (x : α) :
    (s.resetRemove c).p.inner.get x = (if s.p.inner.get x > c.get x then s.p.inner.get x else 0) ∧
    (s.resetRemove c).n.inner.get x = (if s.n.inner.get x > c.get x then s.n.inner.get x else 0) :=
  ⟨VClock.get_resetRemove s.p.inner c x, VClock.get_resetRemove s.n.inner c x⟩

theorem pncounter_halves (s : PNCounter α) (c : VClock α) :
    (s.resetRemove c).p = s.p.resetRemove c ∧ (s.resetRemove c).n = s.n.resetRemove c := ⟨rfl, rfl⟩

theorem pncounter_empty (s : PNCounter α) : s.resetRemove ∅ = s := by
  cases s with | mk p n => cases p; cases n; rfl

/-- a clock covering both halves (e.g. the join of the two inner clocks) resets the counter: `read = 0` -/
theorem pncounter_covered {s : PNCounter α} (wf : PNWF s) {c : VClock α} (hp : s.p.inner.le c) (hn : s.n.inner.le c) :
    s.resetRemove c = PNCounter.init ∧ (s.resetRemove c).read = 0 := by
  have : s.resetRemove c = PNCounter.init :=
    PNCounter.ext (VClock.resetRemove_of_le wf.1 hp) (VClock.resetRemove_of_le wf.2 hn)
  exact ⟨this, by rw [this]; rfl⟩

theorem pncounter_self {s : PNCounter α} (wf : PNWF s) :
    s.resetRemove (s.p.inner.merge s.n.inner) = PNCounter.init ∧ (s.resetRemove (s.p.inner.merge s.n.inner)).read = 0 :=
  pncounter_covered wf (fun x => by rw [VClock.get_merge]; omega) (fun x => by rw [VClock.get_merge]; omega)

theorem pncounter_read (s : PNCounter α) (c : VClock α) :
    (s.resetRemove c).read = ((s.p.resetRemove c).read : Int) - ((s.n.resetRemove c).read : Int) := rfl

theorem pncounter_compose {s : PNCounter α} (wf : PNWF s) (c1 c2 : VClock α) :
    (s.resetRemove c1).resetRemove c2 = s.resetRemove (c1.merge c2) :=
  PNCounter.ext (VClock.resetRemove_resetRemove wf.1 c1 c2) (VClock.resetRemove_resetRemove wf.2 c1 c2)

theorem pncounter_idem (s : PNCounter α) (c : VClock α) : (s.resetRemove c).resetRemove c = s.resetRemove c :=
  PNCounter.ext (VClock.resetRemove_idem s.p.inner c) (VClock.resetRemove_idem s.n.inner c)

theorem pncounter_wf {s : PNCounter α} (wf : PNWF s) (c : VClock α) : PNWF (s.resetRemove c) :=
  ⟨VClock.noZero_resetRemove wf.1 c, VClock.noZero_resetRemove wf.2 c⟩

theorem pncounter_reach_wf {U K : List (PNOp α)} {s : PNCounter α} (h : pncounterSys.Reach U s K) : PNWF s :=
  let r := (RepSys.reach_rep (R := pncounterSys) trivial h).2
  ⟨r.1.1, r.2.1⟩

end pncounter

/-! ## MVReg (src/mvreg.rs:90-102) -/
section mvreg
variable {ν α : Type} [LinOrd α]
open MVReg

/-- every derivable register (any delivery order, duplicates, merges) over a log without stored zeros satisfies the
invariant: stored clocks are zero-free and non-empty -/
theorem mvreg_reach_wf {U K : List (MVOp ν α)} {s : MVReg ν α} (wf : MVWF U) (h : mvregSys.Reach U s K) : ValsWF s := by
  have r := RepSysE.reach_rep (R := mvregSys) wf h
  intro p hp
  have hm : Maximal K p.1 p.2 := (r.2.2 p.1 p.2).mp hp
  exact ⟨wf.1 _ (r.1 _ hm.1), hm.2.1⟩

/-- **survivors**: exactly the entries whose clock is not `≤ c` (Rust: `!(c >= clock)`), in the same order,
each keeping its value and `clock − c` -/
theorem mvreg_survivors {s : MVReg ν α} (wf : ValsWF s) (c : VClock α) :
    (s.resetRemove c).vals = (s.vals.filter (fun p => !(c.ge p.1))).map (fun p => (p.1.resetRemove c, p.2)) :=
  resetRemove_vals_filter wf c

/-- membership form, with the pointwise order -/
theorem mvreg_mem {s : MVReg ν α} (wf : ValsWF s) (c : VClock α) (q : VClock α × ν) :
    q ∈ (s.resetRemove c).vals ↔ ∃ p ∈ s.vals, ¬ p.1.le c ∧ q = (p.1.resetRemove c, p.2) := mem_resetRemove wf c q

/-- the surviving clock, pointwise -/
theorem mvreg_survivor_clock (d c : VClock α) (x : α) :
    (d.resetRemove c).get x = if d.get x > c.get x then d.get x else 0 := VClock.get_resetRemove d c x

/-- values read afterwards: those of the entries not covered by `c`, in `Vec` order -/
theorem mvreg_read {s : MVReg ν α} (wf : ValsWF s) (c : VClock α) :
    (s.resetRemove c).read.val = (s.vals.filter (fun p => !(c.ge p.1))).map (·.2) := by
  show (s.resetRemove c).vals.map (·.2) = _
  rw [mvreg_survivors wf c, List.map_map]; rfl

theorem mvreg_empty {s : MVReg ν α} (wf : ValsWF s) : s.resetRemove ∅ = s := resetRemove_empty wf

/-- the clock returned by `read()` empties the register -/
theorem mvreg_read_clock {s : MVReg ν α} (wf : ValsWF s) : s.resetRemove s.read.addClock = MVReg.init :=
  resetRemove_of_covers wf (fun _ hp => MVReg.le_clock s hp)

theorem mvreg_covered {s : MVReg ν α} (wf : ValsWF s) {c : VClock α} (h : ∀ p ∈ s.vals, p.1.le c) :
    s.resetRemove c = MVReg.init := resetRemove_of_covers wf h

theorem mvreg_compose {s : MVReg ν α} (wf : ValsWF s) (c1 c2 : VClock α) :
    (s.resetRemove c1).resetRemove c2 = s.resetRemove (c1.merge c2) := resetRemove_comp (VClock.rrComp_merge c1 c2) wf

theorem mvreg_idem {s : MVReg ν α} (wf : ValsWF s) (c : VClock α) :
    (s.resetRemove c).resetRemove c = s.resetRemove c := resetRemove_comp (VClock.rrComp_idem c) wf

theorem mvreg_wf {s : MVReg ν α} (wf : ValsWF s) (c : VClock α) : ValsWF (s.resetRemove c) := valsWF_resetRemove wf c

end mvreg

/-! ## Orswot (src/orswot.rs:202-229, after fix c462df9) -/
section orswot
variable {M A : Type} [LinOrd M] [LinOrd A]
open Orswot OrswotSpec

/-- every derivable set (per-actor order on adds, removes in any order, duplicates, merges) satisfies the structural
invariant: zero-free replica clock, zero-free non-empty witness clocks, zero-free non-empty pending contexts -/
theorem orswot_reach_wf {U K : List (OrswotOp M A)} {s : Orswot M A} (wf : LogWF U) (h : orswotSys.Reach U s K) :
    StateWF s := by
  have r := RepSys.reach_rep (R := orswotSys) wf h
  refine ⟨r.2.clock_nz, r.2.ewf, ?_⟩
  intro k hk
  obtain ⟨⟨ms, hin⟩, a, ha⟩ := (r.2.def_some k).mp hk
  refine ⟨wf.rm_nz k ms (r.1.sub _ hin), ?_⟩
  cases he : k.isEmpty with
  | false => rfl
  | true => have := VClock.get_of_isEmpty he a; omega

/-- … and its witnesses are below its clock -/
theorem orswot_reach_le {U K : List (OrswotOp M A)} {s : Orswot M A} (wf : LogWF U) (h : orswotSys.Reach U s K)
    (m : M) (a : A) : entryGet s.entries m a ≤ s.clock.get a := by
  have r := (RepSys.reach_rep (R := orswotSys) wf h).2
  rw [r.entries, r.clock]; exact E_le_clk K m a

/-- replica clock: pointwise subtraction (all states) -/
theorem orswot_clock (s : Orswot M A) (c : VClock A) (a : A) :
    (s.resetRemove c).clock.get a = if s.clock.get a > c.get a then s.clock.get a else 0 :=
  VClock.get_resetRemove s.clock c a

/-- surviving witnesses: `e` if `e > c[a]`, else gone (all states) -/
theorem orswot_witness (s : Orswot M A) (c : VClock A) (m : M) (a : A) :
    entryGet (s.resetRemove c).entries m a =
      if entryGet s.entries m a > c.get a then entryGet s.entries m a else 0 := entryGet_resetRemove s c m a

/-- a member survives iff some witness exceeds `c` -/
theorem orswot_member_iff {s : Orswot M A} (wf : StateWF s) (c : VClock A) (m : M) :
    ((s.resetRemove c).entries.get? m).isSome = true ↔ ∃ a, entryGet s.entries m a > c.get a :=
  present_resetRemove_iff wf.ewf c m

/-- the same for `read()` -/
theorem orswot_read_iff {s : Orswot M A} (wf : StateWF s) (c : VClock A) (m : M) :
    m ∈ (s.resetRemove c).read.val ↔ ∃ a, entryGet s.entries m a > c.get a := by
  rw [← orswot_member_iff wf c m]
  simp only [Orswot.read, List.mem_map]
  constructor
  · rintro ⟨p, hp, e⟩
    have := AL.get?_of_mem (s.resetRemove c).entries.sorted (x := p.1) (v := p.2) hp
    subst e; simp [FMap.get?, this]
  · intro hs
    obtain ⟨mc, hmc⟩ := Option.isSome_iff_exists.mp hs
    exact ⟨(m, mc), AL.mem_of_get? hmc, rfl⟩

/-- **pending removes, contexts**: the contexts afterwards are exactly the non-empty differences `d − c` (all states) -/
theorem orswot_deferred_contexts (s : Orswot M A) (c k : VClock A) :
    ((s.resetRemove c).deferred.get? k).isSome = true ↔
      ∃ d, (s.deferred.get? d).isSome = true ∧ d.resetRemove c = k ∧ k.isEmpty = false := dKey_resetRemove s c k

/-- **pending removes, members**: under context `k` exactly the UNION of the member sets of all old contexts `d` with
`d − c = k` is pending (all states) – contexts that collide after subtraction are united, none is lost (fix c462df9) -/
theorem orswot_deferred_members (s : Orswot M A) (c k : VClock A) (m : M) :
    (∃ T, (s.resetRemove c).deferred.get? k = some T ∧ T.contains m = true) ↔
      ∃ d, (∃ S, s.deferred.get? d = some S ∧ S.contains m = true) ∧ d.resetRemove c = k ∧ k.isEmpty = false :=
  dMem_resetRemove s c k m

/-- a pending remove stays iff its context is not `≤ c` – under the subtracted context, with all its members -/
theorem orswot_pending_survives {s : Orswot M A} (wf : StateWF s) (c d : VClock A) (S : FSet M)
    (hd : s.deferred.get? d = some S) :
    (¬ d.le c → ∃ T, (s.resetRemove c).deferred.get? (d.resetRemove c) = some T ∧ ∀ m, S.contains m = true → T.contains m = true) ∧
    (d.le c → d.resetRemove c = ∅ ∧ (s.resetRemove c).deferred.get? ∅ = none) := by
  have nz : d.NoZero := (wf.dwf d (by simp [DKey, hd])).1
  constructor
  · intro hn
    have hne : (d.resetRemove c).isEmpty = false := by
      cases he : (d.resetRemove c).isEmpty with
      | false => rfl
      | true => exact absurd ((VClock.isEmpty_resetRemove_iff nz c).mp he) hn
    have hk : DKey (s.resetRemove c).deferred (d.resetRemove c) :=
      (dKey_resetRemove s c _).mpr ⟨d, by simp [DKey, hd], rfl, hne⟩
    obtain ⟨T, hT⟩ := Option.isSome_iff_exists.mp hk
    refine ⟨T, hT, fun m hm => ?_⟩
    obtain ⟨T', hT', hm'⟩ := (dMem_resetRemove s c _ m).mpr ⟨d, ⟨S, hd, hm⟩, rfl, hne⟩
    rw [hT] at hT'; cases hT'; exact hm'
  · intro hle
    refine ⟨VClock.resetRemove_of_le nz hle, ?_⟩
    cases hg : (s.resetRemove c).deferred.get? ∅ with
    | none => rfl
    | some T =>
      obtain ⟨_, _, _, hne⟩ := (dKey_resetRemove s c ∅).mp (by simp [DKey, hg])
      exact absurd hne (by simp [VClock.isEmpty_empty])

theorem orswot_empty {s : Orswot M A} (wf : StateWF s) : s.resetRemove ∅ = s := Orswot.resetRemove_empty wf

/-- **own clock**: subtracting the replica's own clock empties the clock, the entries and hence every read
(witnesses are below the clock on reachable states: `orswot_reach_le`); pending removes (whose contexts are by
definition not below the clock) stay, under the subtracted context (`orswot_pending_survives`) -/
theorem orswot_own_clock {s : Orswot M A} (wf : StateWF s) (hle : ∀ m a, entryGet s.entries m a ≤ s.clock.get a) :
    (s.resetRemove s.clock).clock = ∅ ∧ (s.resetRemove s.clock).entries = ∅ ∧ (s.resetRemove s.clock).read.val = [] := by
  have he := entries_resetRemove_of_covers wf.ewf hle
  refine ⟨VClock.resetRemove_self s.clock, he, ?_⟩
  simp only [Orswot.read, he]; rfl

/-- … and with no pending remove the result is the initial state -/
theorem orswot_own_clock_init {s : Orswot M A} (wf : StateWF s) (hle : ∀ m a, entryGet s.entries m a ≤ s.clock.get a)
    (hd : s.deferred = ∅) : s.resetRemove s.clock = Orswot.init :=
  resetRemove_of_covers wf (VClock.le_refl _) hle (fun k hk => by rw [hd] at hk; exact absurd hk (dKey_empty k))

/-- any clock covering the replica clock, the witnesses and the pending contexts resets the set -/
theorem orswot_covered {s : Orswot M A} (wf : StateWF s) {c : VClock A} (hc : s.clock.le c)
    (he : ∀ m a, entryGet s.entries m a ≤ c.get a) (hd : ∀ k, (s.deferred.get? k).isSome = true → k.le c) :
    s.resetRemove c = Orswot.init := resetRemove_of_covers wf hc he hd

/-- `c1` then `c2` = the join, as an equality of whole states (clock, entries, deferred) -/
theorem orswot_compose {s : Orswot M A} (wf : StateWF s) (c1 c2 : VClock A) :
    (s.resetRemove c1).resetRemove c2 = s.resetRemove (c1.merge c2) :=
  Orswot.resetRemove_comp (VClock.rrComp_merge c1 c2) wf

theorem orswot_idem {s : Orswot M A} (wf : StateWF s) (c : VClock A) :
    (s.resetRemove c).resetRemove c = s.resetRemove c := Orswot.resetRemove_comp (VClock.rrComp_idem c) wf

theorem orswot_commute {s : Orswot M A} (wf : StateWF s) (c1 c2 : VClock A) :
    (s.resetRemove c1).resetRemove c2 = (s.resetRemove c2).resetRemove c1 := by
  have h21 : VClock.RRComp c2 c1 (c1.merge c2) := fun d hd => by
    rw [VClock.resetRemove_comm hd c2 c1]; exact VClock.resetRemove_resetRemove hd c1 c2
  rw [Orswot.resetRemove_comp (VClock.rrComp_merge c1 c2) wf, Orswot.resetRemove_comp h21 wf]

theorem orswot_wf {s : Orswot M A} (wf : StateWF s) (c : VClock A) : StateWF (s.resetRemove c) :=
  stateWF_resetRemove wf c

end orswot

/-! ## non-vacuity: concrete states meeting the hypotheses, clocks below / above / concurrent -/
section examples
open Orswot

def exClock : VClock Nat := (∅ : VClock Nat).apply ⟨0, 3⟩ |>.apply ⟨1, 2⟩
example : exClock.NoZero := VClock.noZero_apply (VClock.noZero_apply VClock.noZero_empty _) _
-- concurrent clock: forgets actor 1 (2 ≤ 5), keeps actor 0 (3 > 1)
example : (exClock.resetRemove ((∅ : VClock Nat).apply ⟨0, 1⟩ |>.apply ⟨1, 5⟩)).dots.l = [(0, 3)] := by decide

def exC5 : VClock Nat := (∅ : VClock Nat).apply ⟨0, 5⟩ |>.apply ⟨1, 1⟩
def exC6 : VClock Nat := (∅ : VClock Nat).apply ⟨0, 6⟩ |>.apply ⟨1, 1⟩
/-- an Orswot with two pending removes whose contexts collide after subtracting `{0:7}` -/
def exSet : Orswot Nat Nat :=
  ((Orswot.init.apply (.add ⟨2, 1⟩ [9])).apply (.rm exC5 [3])).apply (.rm exC6 [4])
def exU : List (OrswotOp Nat Nat) := [.add ⟨2, 1⟩ [9], .rm exC5 [3], .rm exC6 [4]]
example : OrswotSpec.LogWF exU := by
  refine ⟨?_, ?_⟩
  · intro d ms ms' h1 h2
    simp only [exU, List.mem_cons, OrswotOp.add.injEq, reduceCtorEq, List.mem_nil_iff, or_false] at h1 h2
    rw [h1.2, h2.2]
  · intro c ms h
    simp only [exU, List.mem_cons, OrswotOp.rm.injEq, reduceCtorEq, List.mem_nil_iff, or_false, false_or] at h
    rcases h with h | h <;> rw [h.1] <;> exact VClock.noZero_apply (VClock.noZero_apply VClock.noZero_empty _) _
/-- `exSet` is a derivable state of that log (so `orswot_reach_wf` applies to it) -/
example : ∃ K, (orswotSys (M := Nat) (A := Nat)).Reach exU exSet K := by
  have r1 : (orswotSys (M := Nat) (A := Nat)).Reach exU _ _ :=
    RepSys.Reach.apply (R := orswotSys) (op := .add ⟨2, 1⟩ [9]) RepSys.Reach.init (by simp [exU]) (by
      intro d' ms' hu ha hlt
      simp only [exU, List.mem_cons, OrswotOp.add.injEq, reduceCtorEq, List.mem_nil_iff, or_false] at hu
      rw [hu.1] at hlt; simp at hlt)
  have r2 : (orswotSys (M := Nat) (A := Nat)).Reach exU _ _ :=
    RepSys.Reach.apply (R := orswotSys) (op := .rm exC5 [3]) r1 (by simp [exU]) (by exact True.intro)
  have r3 : (orswotSys (M := Nat) (A := Nat)).Reach exU _ _ :=
    RepSys.Reach.apply (R := orswotSys) (op := .rm exC6 [4]) r2 (by simp [exU]) (by exact True.intro)
  exact ⟨_, r3⟩
example : exSet.deferred.l.length = 2 := by decide
example : ((exSet.resetRemove ((∅ : VClock Nat).apply ⟨0, 7⟩)).deferred.l.map (fun p => (p.1.dots.l, p.2.l.map (·.1)))) =
    [([(1, 1)], [3, 4])] := by decide
example : (exSet.resetRemove exSet.clock).read.val = [] ∧ (exSet.resetRemove ∅) = exSet := by decide

end examples

end Crdt.C18
