import CrdtModel.Spec.ListSys
import CrdtModel.Proofs.ListOrder
set_option linter.unusedSectionVars false
/-!
# C12 — List: causal delivery yields one global element order at every replica

`listSys.Reach U s K` (`Spec/OpRepSys.lean`, `Spec/ListSys.lean`) ranges over every state `s` that any replica can hold
at any time in any history over the op log `U` – any number of actors, inserts/appends/deletes at any indices, any
delivery schedule (with duplicates) that respects the discipline `ListSpec.Ok`:
  *an op is delivered after all ops of the log by the same actor with a smaller dot counter, and a `Delete` after an
  `Insert` of the identifier it targets*;
`K` is the list of ops delivered so far.  Every causal schedule satisfies the discipline (`causal_implies_ok`), and logs
built through `insert_index` / `append` / `delete_index` are well-formed (`gen_insert`, `gen_delete`).
`ListSpec.LogWF U`: every op carries a dot with a positive counter and no two ops carry the same dot (for an insert
the dot is the LAST marker of its identifier).

Property theorems only (representation relation: `Spec/ListRep.lean`; helpers: `Proofs/ListOrder.lean`; the identifier
order is the `LinOrd (Identifier _)` instance of C14).  The requirement "causal" is real: `Witness/ListNeedsCausal.lean`.
-/
namespace Crdt.C12
open Crdt LinOrd OpRepSys ListSpec ListCrdt
variable {τ A : Type} [LinOrd A] {U K K' : List (ListOp τ A)} {s s' : ListCrdt τ A}

/-- **representation theorem**: a derivable state holds exactly the live elements of its knowledge and its clock is
per actor the largest delivered counter … -/
theorem rep (wf : LogWF U) (h : listSys.Reach U s K) : Rep K s := (reach_rep (R := listSys) wf h).2

theorem inv (wf : LogWF U) (h : listSys.Reach U s K) : Inv U K := (reach_rep (R := listSys) wf h).1

/-- … in closed form: the state IS the executable specification `specState K` (the oracle printed by the driver) -/
theorem state_eq_spec (wf : LogWF U) (h : listSys.Reach U s K) : s = specState K :=
  eq_specState wf (inv wf h).sub (rep wf h)

/-- `apply` does not panic along a derivation (ops of a well-formed log carry a dot) -/
theorem apply_defined (wf : LogWF U) {op : ListOp τ A} (hu : op ∈ U) (s : ListCrdt τ A) :
    s.apply? op = some (listSys.apply s op) := apply?_isSome wf hu s

/-- **`read` is the list of live inserts sorted by identifier**: the stored entries are strictly increasing in the
identifier order, they are exactly the live elements (inserted, not deleted) of `K`, `read` lists their values in that
order; any strictly sorted list of exactly the live elements gives the same read; and so does the executable
specification. -/
theorem read_eq_sorted_live (wf : LogWF U) (h : listSys.Reach U s K) :
    s.keys.Pairwise (· < ·) ∧
    (∀ id v, (id, v) ∈ s.iterEntries ↔ Live K id v) ∧
    s.keys = s.iterEntries.map (·.1) ∧ s.read = s.iterEntries.map (·.2) ∧
    (∀ l : List (Identifier (OrdDot A) × τ), l.Pairwise (fun p q => p.1 < q.1) → (∀ id v, (id, v) ∈ l ↔ Live K id v) →
      s.iterEntries = l ∧ s.read = l.map (·.2)) ∧
    s.read = (specSeq K).l.map (·.2) := by
  have r := rep wf h
  have hm : ∀ id v, (id, v) ∈ s.iterEntries ↔ Live K id v := fun id v => by rw [mem_entries_iff, r.seq]
  refine ⟨s.keys_sorted, hm, rfl, rfl, fun l hl hlm => ?_, ?_⟩
  · have : s.iterEntries = l := AL.ext_of_mem s.seq.sorted hl (fun p => by obtain ⟨id, v⟩ := p; rw [hm, hlm])
    exact ⟨this, by rw [← this]; rfl⟩
  · rw [state_eq_spec wf h]; rfl

/-- the identifiers present are exactly those of the live elements -/
theorem keys_eq_live (wf : LogWF U) (h : listSys.Reach U s K) (id : Identifier (OrdDot A)) :
    id ∈ s.keys ↔ ∃ v, Live K id v := by
  rw [mem_keys_iff]; simp only [(rep wf h).seq]

/-- **one global order**: there is ONE strict total order on identifiers, fixed once and for all (it is `Ord for
Identifier`, C14) – independent of the history, the replica and the time – such that the sequence of every derivable
state is the restriction of that order to the elements live at that state. -/
theorem global_order : ∃ lt : Identifier (OrdDot A) → Identifier (OrdDot A) → Prop,
    (∀ a, ¬ lt a a) ∧ (∀ a b c, lt a b → lt b c → lt a c) ∧ (∀ a b, lt a b ∨ a = b ∨ lt b a) ∧
    (∀ a b, lt a b ↔ Identifier.cmp a b = .lt) ∧
    ∀ (τ : Type) (U K : List (ListOp τ A)) (s : ListCrdt τ A), LogWF U → listSys.Reach U s K →
      s.keys.Pairwise lt ∧ ∀ id, id ∈ s.keys ↔ ∃ v, Live K id v :=
  ⟨(· < ·), lt_irrefl, fun _ _ _ => lt_trans, lt_tri, fun _ _ => Iff.rfl,
   fun _ _ _ s wf h => ⟨s.keys_sorted, keys_eq_live wf h⟩⟩

/-- **convergence**: replicas that have been delivered the same set of ops (in whatever admissible orders, with
whatever duplicates) hold the same state, hence read the same sequence -/
theorem same_ops_same_sequence (wf : LogWF U) (h : listSys.Reach U s K) (h' : listSys.Reach U s' K')
    (e : ∀ o, o ∈ K ↔ o ∈ K') : s = s' ∧ s.read = s'.read ∧ s.iterEntries = s'.iterEntries := by
  have := converge (R := listSys) wf h h' e
  subst this; exact ⟨rfl, rfl, rfl⟩

/-- positions are determined by the identifier order – in ANY two states (no hypothesis on how they were reached):
two identifiers present in both appear in the same relative order.  Positions as returned by `position_entry`. -/
theorem relative_order_stable_any (s s' : ListCrdt τ A) {id₁ id₂ : Identifier (OrdDot A)} {i j i' j' : Nat}
    (p1 : s.positionEntry id₁ = some i) (p2 : s.positionEntry id₂ = some j)
    (q1 : s'.positionEntry id₁ = some i') (q2 : s'.positionEntry id₂ = some j') :
    (i < j ↔ i' < j') ∧ (i < j ↔ id₁ < id₂) := by
  rw [positionEntry_eq_some_iff] at p1 p2 q1 q2
  rw [sorted_idx_lt_iff s.keys_sorted p1 p2, sorted_idx_lt_iff s'.keys_sorted q1 q2]
  exact ⟨Iff.rfl, Iff.rfl⟩

/-- the value read at the position of a stored identifier is the value of THE insert op carrying that identifier -/
theorem position_value (wf : LogWF U) (h : listSys.Reach U s K) {id : Identifier (OrdDot A)} {i : Nat}
    (p : s.positionEntry id = some i) : ∃ v, s.position i = some v ∧ ListOp.insert id v ∈ K := by
  rw [positionEntry_eq_some_iff] at p
  obtain ⟨hi, e⟩ := List.getElem?_eq_some_iff.mp p
  have hl : i < s.seq.l.length := by simpa [keys] using hi
  have he : s.seq.l[i].1 = id := by simpa [keys] using e
  refine ⟨s.seq.l[i].2, by simp [position, ListCrdt.read, List.getElem?_eq_getElem hl], ?_⟩
  have hm : (id, s.seq.l[i].2) ∈ s.iterEntries := by rw [← he]; exact List.getElem_mem hl
  exact (((read_eq_sorted_live wf h).2.1 id _).mp hm).1

/-- **relative order never changes**: two elements (identifiers) that are both present in two derivable states –
any replicas, any times – appear in the same relative order in both, and each of them shows the same value in both
(it is the same insert op: an identifier names one element of the history). -/
theorem relative_order_stable (wf : LogWF U) (h : listSys.Reach U s K) (h' : listSys.Reach U s' K')
    {id₁ id₂ : Identifier (OrdDot A)} {i j i' j' : Nat}
    (p1 : s.positionEntry id₁ = some i) (p2 : s.positionEntry id₂ = some j)
    (q1 : s'.positionEntry id₁ = some i') (q2 : s'.positionEntry id₂ = some j') :
    (i < j ↔ i' < j') ∧ s.position i = s'.position i' ∧ s.position j = s'.position j' := by
  refine ⟨(relative_order_stable_any s s' p1 p2 q1 q2).1, ?_, ?_⟩
  · obtain ⟨v, hv, hk⟩ := position_value wf h p1
    obtain ⟨v', hv', hk'⟩ := position_value wf h' q1
    rw [hv, hv', insert_same_id wf (reach_sub h _ hk) (reach_sub h' _ hk')]
  · obtain ⟨v, hv, hk⟩ := position_value wf h p2
    obtain ⟨v', hv', hk'⟩ := position_value wf h' q2
    rw [hv, hv', insert_same_id wf (reach_sub h _ hk) (reach_sub h' _ hk')]

/-- **each element appears at most once**: no identifier is stored twice, distinct inserts of the log carry distinct
identifiers (so an entry belongs to exactly one insert op), and an identifier sits at one position only -/
theorem no_duplicates (wf : LogWF U) (s : ListCrdt τ A) :
    s.keys.Nodup ∧ s.iterEntries.Nodup ∧
    (∀ (i j : Nat) id, s.keys[i]? = some id → s.keys[j]? = some id → i = j) ∧
    (∀ id v id' v', ListOp.insert id v ∈ U → ListOp.insert id' v' ∈ U → (ListOp.insert id v : ListOp τ A) ≠ .insert id' v' →
      id ≠ id') := by
  refine ⟨sorted_nodup s.keys_sorted, entries_nodup s, fun i j id hi hj => sorted_idx_unique s.keys_sorted hi hj, ?_⟩
  intro id v id' v' hu hu' hne e
  subst e
  exact hne (by rw [insert_same_id wf hu hu'])

/-- every stored entry is one insert op of the log, determined by its identifier -/
theorem entry_is_unique_insert (wf : LogWF U) (h : listSys.Reach U s K) {id : Identifier (OrdDot A)} {v : τ}
    (hm : (id, v) ∈ s.iterEntries) : ListOp.insert id v ∈ U ∧ ∀ v', ListOp.insert id v' ∈ U → v' = v := by
  have l := ((read_eq_sorted_live wf h).2.1 id v).mp hm
  have hu := (inv wf h).sub _ l.1
  exact ⟨hu, fun v' hu' => insert_same_id wf hu' hu⟩

/-- **re-delivery of a known op is a no-op** -/
theorem duplicate_absorbed (wf : LogWF U) (h : listSys.Reach U s K) {op : ListOp τ A} (hk : op ∈ K) :
    s.apply op = s := dup_noop (R := listSys) wf h (reach_sub h op hk) hk

/-- … because the dot gate decides membership: an op of the log is gated at a derivable state iff it is known -/
theorem gated_iff_known (wf : LogWF U) (h : listSys.Reach U s K) {op : ListOp τ A} (hu : op ∈ U) {d : Dot A}
    (hd : op.dot = some d) : d.counter ≤ s.clock.get d.actor ↔ op ∈ K := by
  rw [(rep wf h).clock]
  constructor
  · intro g
    apply Classical.byContradiction
    intro hk
    have := not_gated wf (inv wf h) hu hk hd
    omega
  · intro hk; exact gated hk hd

/-! ## every causal schedule satisfies the discipline -/

/-- if the receiver knows everything the author knew when it generated the op (`deps`), the author knew all of its own
earlier ops, and – for a delete – the author knew the insert of the identifier it deletes, then the op may be applied -/
theorem causal_implies_ok {op : ListOp τ A} {deps : List (ListOp τ A)}
    (own_earlier : PredsIn U deps op) (target_known : TargetIn deps op)
    (causal : ∀ o ∈ deps, o ∈ K) : Ok U K op :=
  ok_mono causal ⟨own_earlier, target_known⟩

/-! ## generation through the API keeps the log well-formed -/

/-- an op with a fresh dot (its actor's next counter) extends a well-formed log -/
theorem fresh_dot_wf (wf : LogWF U) {op : ListOp τ A} {a : A} {n : Nat} (hd : op.dot = some ⟨a, n⟩) (hn : 0 < n)
    (above : ∀ o ∈ U, ∀ d, o.dot = some d → d.actor = a → d.counter < n) : op ∉ U ∧ LogWF (op :: U) := by
  have hnot : op ∉ U := fun hu => by have := above op hu _ hd rfl; simp at this
  refine ⟨hnot, ⟨fun o ho => ?_, fun o ho o' ho' e => ?_⟩⟩
  · rcases List.mem_cons.mp ho with e | e
    · subst e; exact ⟨_, hd, hn⟩
    · exact wf.dot_pos o e
  · rcases List.mem_cons.mp ho with e1 | e1 <;> rcases List.mem_cons.mp ho' with e2 | e2
    · rw [e1, e2]
    · subst e1; rw [hd] at e; have := above o' e2 _ e.symm rfl; simp at this
    · subst e2; rw [hd] at e; have := above o e1 _ e rfl; simp at this
    · exact wf.dot_unique o e1 o' e2 e

/-- derivability is preserved when the log grows by an op whose dot is above all dots of its actor -/
theorem reach_extend {op : ListOp τ A} {a : A} {n : Nat} (hd : op.dot = some ⟨a, n⟩)
    (above : ∀ o ∈ U, ∀ d, o.dot = some d → d.actor = a → d.counter < n)
    (h : listSys.Reach U s K) : listSys.Reach (op :: U) s K := by
  induction h with
  | init => exact Reach.init
  | apply _ hu hok ih =>
    refine Reach.apply ih (List.mem_cons_of_mem _ hu) ⟨fun o ho d d' e1 e2 ha hc => ?_, hok.2⟩
    rcases List.mem_cons.mp ho with e | e
    · subst e
      rw [hd] at e2; cases e2
      have := above _ hu d e1 ha.symm
      simp only at hc; omega
    · exact hok.1 o e d d' e1 e2 ha hc

/-- the dot a replica derives for actor `a` is above every dot of `a` in the log, provided the replica knows all of
`a`'s ops (each actor edits at one replica and applies its ops as it goes) -/
theorem derived_dot_fresh (wf : LogWF U) (h : listSys.Reach U s K) (a : A)
    (own : ∀ o ∈ U, ∀ d, o.dot = some d → d.actor = a → o ∈ K) :
    s.clock.inc a = ⟨a, clk K a + 1⟩ ∧ ∀ o ∈ U, ∀ d, o.dot = some d → d.actor = a → d.counter < clk K a + 1 := by
  refine ⟨by simp only [VClock.inc, VClock.dot, Dot.inc, (rep wf h).clock], fun o hu d hd ha => ?_⟩
  have := le_clk (own o hu d hd ha) hd
  rw [ha] at this; omega

/-- **generation lemma, insert**: the op built by `insert_index` (hence `append`) at a derivable state whose replica
knows all ops of its actor carries the actor's next dot, is new, keeps the log well-formed – in particular its
identifier differs from the identifier of every insert of the whole log, delivered here or not – may be applied at
once, and everything derivable before remains derivable over the extended log -/
theorem gen_insert (wf : LogWF U) (h : listSys.Reach U s K) (ix : Nat) (x : τ) (a : A)
    (own : ∀ o ∈ U, ∀ d, o.dot = some d → d.actor = a → o ∈ K) :
    let op := s.insertIndex ix x a
    op.dot = some ⟨a, clk K a + 1⟩ ∧ op ∉ U ∧ LogWF (op :: U) ∧
    (∀ id v, ListOp.insert id v ∈ U → id ≠ op.id) ∧
    Ok (op :: U) K op ∧
    (∀ s₁ K₁, listSys.Reach U s₁ K₁ → listSys.Reach (op :: U) s₁ K₁) := by
  intro op
  obtain ⟨hinc, above⟩ := derived_dot_fresh wf h a own
  have hd : op.dot = some ⟨a, clk K a + 1⟩ := by rw [← hinc]; exact insertIndex_dot s ix x a
  obtain ⟨hnew, wf'⟩ := fresh_dot_wf wf hd (Nat.succ_pos _) above
  refine ⟨hd, hnew, wf', fun id v hu e => ?_, ⟨fun o ho d d' e1 e2 ha hc => ?_, ?_⟩,
    fun s₁ K₁ h₁ => reach_extend hd above h₁⟩
  · -- same identifier ⇒ same dot ⇒ same op
    have hop : op = .insert op.id x := by simp only [op, insertIndex_eq, ListOp.id]
    have : ListOp.insert id v = op := by
      apply wf'.dot_unique _ (List.mem_cons_of_mem _ hu) _ List.mem_cons_self
      rw [hop, e]; rfl
    exact hnew (this ▸ hu)
  · rw [hd] at e1; cases e1
    rcases List.mem_cons.mp ho with e | e
    · subst e; rw [hd] at e2; cases e2; simp at hc
    · exact own o e d' e2 ha
  · simp only [op, insertIndex_eq]; trivial

theorem gen_append (wf : LogWF U) (h : listSys.Reach U s K) (x : τ) (a : A)
    (own : ∀ o ∈ U, ∀ d, o.dot = some d → d.actor = a → o ∈ K) :
    let op := s.append x a
    op.dot = some ⟨a, clk K a + 1⟩ ∧ op ∉ U ∧ LogWF (op :: U) ∧
    (∀ id v, ListOp.insert id v ∈ U → id ≠ op.id) ∧
    Ok (op :: U) K op ∧
    (∀ s₁ K₁, listSys.Reach U s₁ K₁ → listSys.Reach (op :: U) s₁ K₁) := gen_insert wf h s.len x a own

/-- **generation lemma, delete**: `delete_index` picks a stored identifier – so the insert it targets is known to the
author (the cross-actor causal dependency of the discipline) –, carries the actor's next dot, is new, keeps the log
well-formed and may be applied at once -/
theorem gen_delete (wf : LogWF U) (h : listSys.Reach U s K) (ix : Nat) (a : A) {op : ListOp τ A}
    (hg : s.deleteIndex ix a = some op)
    (own : ∀ o ∈ U, ∀ d, o.dot = some d → d.actor = a → o ∈ K) :
    (∃ id, s.keys[ix]? = some id ∧ op = .delete id ⟨a, clk K a + 1⟩ ∧ ∃ v, ListOp.insert id v ∈ K) ∧
    op ∉ U ∧ LogWF (op :: U) ∧ Ok (op :: U) K op ∧
    (∀ s₁ K₁, listSys.Reach U s₁ K₁ → listSys.Reach (op :: U) s₁ K₁) := by
  obtain ⟨hinc, above⟩ := derived_dot_fresh wf h a own
  simp only [deleteIndex] at hg
  cases hk : s.keys[ix]? with
  | none => simp [hk] at hg
  | some id =>
    simp only [hk, Option.map_some, Option.some.injEq] at hg
    rw [hinc] at hg
    subst hg
    have hd : (ListOp.delete id ⟨a, clk K a + 1⟩ : ListOp τ A).dot = some ⟨a, clk K a + 1⟩ := rfl
    obtain ⟨hnew, wf'⟩ := fresh_dot_wf wf hd (Nat.succ_pos _) above
    have hmem : id ∈ s.keys := by
      obtain ⟨hi, e⟩ := List.getElem?_eq_some_iff.mp hk
      rw [← e]; exact List.getElem_mem hi
    obtain ⟨v, hv⟩ := (keys_eq_live wf h id).mp hmem
    refine ⟨⟨id, rfl, rfl, v, hv.1⟩, hnew, wf', ⟨fun o ho d d' e1 e2 ha hc => ?_, ⟨v, hv.1⟩⟩,
      fun s₁ K₁ h₁ => reach_extend hd above h₁⟩
    rw [hd] at e1; cases e1
    rcases List.mem_cons.mp ho with e | e
    · subst e; rw [hd] at e2; cases e2; simp at hc
    · exact own o e d' e2 ha

/-! ## … so every causal schedule of API-generated ops is covered -/

/-- **causal delivery satisfies the discipline**: let the author (actor `a`) generate an op through the API at a
derivable state `sA` with knowledge `KA` that contains all of `a`'s ops up to its clock (an actor applies its own ops
as it generates them).  Any replica whose knowledge `K` includes `KA` – what causal delivery guarantees: everything
the author had seen has been delivered before – may apply the op.  `U` is the whole history (it contains the op and
whatever is generated later). -/
theorem causal_schedule_ok (wf : LogWF U) {sA : ListCrdt τ A} {KA : List (ListOp τ A)} (hA : listSys.Reach U sA KA) (a : A)
    (own_earlier : ∀ o ∈ U, ∀ d, o.dot = some d → d.actor = a → d.counter ≤ clk KA a → o ∈ KA)
    (causal : ∀ o ∈ KA, o ∈ K) :
    (∀ ix x, Ok U K (sA.insertIndex ix x a)) ∧ (∀ x, Ok U K (sA.append x a)) ∧
    (∀ ix op, sA.deleteIndex ix a = some op → Ok U K op) := by
  have hinc : sA.clock.inc a = ⟨a, clk KA a + 1⟩ := by
    simp only [VClock.inc, VClock.dot, Dot.inc, (rep wf hA).clock]
  have preds : ∀ op : ListOp τ A, op.dot = some ⟨a, clk KA a + 1⟩ → PredsIn U KA op := by
    intro op hd o ho d d' e1 e2 ha hc
    rw [hd] at e1; cases e1
    exact own_earlier o ho d' e2 ha (by simp only at hc; omega)
  have ins : ∀ ix x, Ok U K (sA.insertIndex ix x a) := fun ix x =>
    causal_implies_ok (preds _ (by rw [← hinc]; exact insertIndex_dot sA ix x a))
      (by simp only [insertIndex_eq]; trivial) causal
  refine ⟨ins, fun x => ins sA.len x, fun ix op hg => ?_⟩
  simp only [deleteIndex] at hg
  cases hk : sA.keys[ix]? with
  | none => simp [hk] at hg
  | some id =>
    simp only [hk, Option.map_some, Option.some.injEq] at hg
    subst hg
    have hmem : id ∈ sA.keys := by
      obtain ⟨hi, e⟩ := List.getElem?_eq_some_iff.mp hk
      rw [← e]; exact List.getElem_mem hi
    obtain ⟨v, hv⟩ := (keys_eq_live wf hA id).mp hmem
    exact causal_implies_ok (preds _ (by rw [hinc]; rfl)) ⟨v, hv.1⟩ causal

/-! ## non-vacuity (tests, not theorems) -/

section examples
/-- actor 0 inserts `7`, actor 1 inserts `8` in front and deletes `7`; a well-formed log -/
def exLog : List (ListOp Nat Nat) :=
  [.insert ⟨[(0, (0, 1))]⟩ 7, .insert ⟨[(-1, (1, 1))]⟩ 8, .delete ⟨[(0, (0, 1))]⟩ ⟨1, 2⟩]

example : LogWF exLog := (wfB_iff _).mp (by decide +kernel)

/-- two different admissible schedules of the same three ops (with a duplicate) – both derivable, same state -/
example : ∃ s, listSys.Reach exLog s [exLog[2], exLog[1], exLog[0]] ∧ s.read = [8] := by
  refine ⟨_, Reach.apply (Reach.apply (Reach.apply Reach.init (op := exLog[0]) (by decide +kernel) ((okB_iff _ _ _).mp (by decide +kernel)))
    (op := exLog[1]) (by decide +kernel) ((okB_iff _ _ _).mp (by decide +kernel)))
    (op := exLog[2]) (by decide +kernel) ((okB_iff _ _ _).mp (by decide +kernel)), by decide +kernel⟩

/-- the delete is NOT admissible before the insert it targets -/
example : ¬ Ok exLog [] exLog[2] := fun h => by
  have := (okB_iff exLog [] exLog[2]).mpr h
  revert this; decide +kernel
end examples

end Crdt.C12
