import CrdtModel.Proofs.SysOrswot
import CrdtModel.Props.C01
import CrdtModel.Props.C02
import CrdtModel.Props.C03
import CrdtModel.Props.C09
import CrdtModel.Props.C20
set_option linter.unusedSectionVars false
/-!
# Orswot theorems for every execution of the system – NO well-formedness hypothesis

`Run c` : `c` is a configuration of a system in which every op was produced by the API from the issuing replica's current
state (`Spec/SysOrswot.lean`), delivered under the Orswot discipline (each actor's adds in issue order, removes any time,
duplicates allowed), with state merges between replicas and with saved states.  `c.View s K` : `s` is the state of one of
`c`'s replicas or saved states and `K` the list of ops it has learned.

`run_logWF`, `run_reach`, `run_own_known` are the invariant; the rest feeds it into the existing theorems, whose
hypotheses `LogWF U` and `Reach U s K` thereby disappear.
-/
namespace Crdt.Sys
open Crdt LinOrd RepSys OrswotSpec Orswot
variable {M A : Type} [LinOrd M] [LinOrd A] {c : Cfg M A} {s s' s'' : Orswot M A} {K K' K'' : List (OrswotOp M A)}

/-! ## the invariant -/

/-- (a) the log of every run is well-formed: a dot names one add, remove contexts store no zero -/
theorem run_logWF (r : Run c) : LogWF c.log := (sysInv_run r).wf

/-- (b) every replica state of every run is `Reach`-derivable over the run's log, with the replica's knowledge -/
theorem run_reach (r : Run c) (i : A) : orswotSys.Reach c.log (c.rep i) (c.know i) := (sysInv_run r).reach i

/-- (b) the same for every saved state -/
theorem run_reach_snap (r : Run c) {p : Orswot M A × List (OrswotOp M A)} (hp : p ∈ c.snaps) :
    orswotSys.Reach c.log p.1 p.2 := (sysInv_run r).snaps p hp

/-- (b) both at once -/
theorem run_view_reach (r : Run c) (v : c.View s K) : orswotSys.Reach c.log s K := (sysInv_run r).view v

/-- (c) an actor's replica knows all of that actor's adds -/
theorem run_own_known (r : Run c) (i : A) (d : Dot A) (ms : List M) (h : OrswotOp.add d ms ∈ c.log) (ha : d.actor = i) :
    OrswotOp.add d ms ∈ c.know i := (sysInv_run r).own i d ms h ha

/-- what a replica or saved state knows was generated in this run -/
theorem run_know_sub_log (r : Run c) (v : c.View s K) : ∀ o ∈ K, o ∈ c.log :=
  (reach_rep (R := orswotSys) (run_logWF r) (run_view_reach r v)).1.sub

/-- (d) add counters are positive -/
theorem run_dot_pos (r : Run c) {d : Dot A} {ms : List M} (h : OrswotOp.add d ms ∈ c.log) : 0 < d.counter :=
  (sysInv_run r).pos d ms h

/-- (d) per actor, the counters of the log are exactly `1 .. clk (c.know i) i` (= `1 ..` the replica clock of `i` at `i`) -/
theorem run_contig (r : Run c) (i : A) (n : Nat) :
    (∃ ms, OrswotOp.add ⟨i, n⟩ ms ∈ c.log) ↔ (0 < n ∧ n ≤ clk (c.know i) i) := by
  have inv := sysInv_run r
  constructor
  · rintro ⟨ms, h⟩
    exact ⟨inv.pos _ ms h, le_clk (d := ⟨i, n⟩) (inv.own i _ ms h rfl)⟩
  · rintro ⟨hn, hle⟩
    obtain ⟨d2, ms2, hd2, ha2, hc2⟩ := clk_attained (K := c.know i) (a := i) (by omega)
    obtain ⟨ms', h'⟩ := inv.contig d2 ms2 n (inv.know_sub i _ hd2) hn (by omega)
    exact ⟨ms', by rw [← ha2]; exact h'⟩

/-- (d) … and that bound is the replica clock of `i` read at `i` -/
theorem run_own_clock (r : Run c) (i : A) : (c.rep i).clock.get i = clk c.log i := by
  have inv := sysInv_run r
  rw [(inv.rep i).clock i, inv.clk_know_eq_log i]

/-- a dot names one add, in every run -/
theorem run_dot_unique (r : Run c) {d : Dot A} {ms ms' : List M} (h : OrswotOp.add d ms ∈ c.log)
    (h' : OrswotOp.add d ms' ∈ c.log) : ms = ms' := (run_logWF r).dot_unique d ms ms' h h'

/-! ## hypothesis-free corollaries -/

/-- **C01 / C08 / C20**: two replicas / saved states of a run that have learned the same set of ops are EQUAL (hence agree
on every read and every context) – however each one got there -/
theorem run_converge (r : Run c) (v : c.View s K) (v' : c.View s' K') (e : ∀ o, o ∈ K ↔ o ∈ K') : s = s' :=
  C01.orswot (run_logWF r) (run_view_reach r v) (run_view_reach r v') e

/-- the replica form -/
theorem run_converge_rep (r : Run c) (i j : A) (e : ∀ o, o ∈ c.know i ↔ o ∈ c.know j) : c.rep i = c.rep j :=
  run_converge r (.rep i) (.rep j) e

/-- the same across TIME: a state held at some point of a run and a state held any number of steps later -/
theorem run_converge_later {c' : Cfg M A} (r : Run c) (st : Steps c c') (v : c.View s K) (v' : c'.View s' K')
    (e : ∀ o, o ∈ K ↔ o ∈ K') : s = s' := by
  have inv := sysInv_run r
  have inv' := sysInv_steps inv st
  exact C01.orswot inv'.wf (steps_reach_mono inv st (inv.view v)) (inv'.view v') e

/-- identical reads and contexts, spelled out -/
theorem run_converge_reads (r : Run c) (v : c.View s K) (v' : c.View s' K') (e : ∀ o, o ∈ K ↔ o ∈ K') :
    s.read.val = s'.read.val ∧ s.read.addClock = s'.read.addClock ∧ (∀ m, (s.contains m).val = (s'.contains m).val ∧
      (s.contains m).rmClock = (s'.contains m).rmClock) :=
  C01.orswot_reads (run_logWF r) (run_view_reach r v) (run_view_reach r v') e

/-- **C04**: every state of every run IS the executable specification of what it has learned -/
theorem run_state_eq_spec (r : Run c) (v : c.View s K) : s = specState K :=
  C04.state_eq_spec (run_logWF r) (run_view_reach r v)

/-- **C04 membership** at any replica / saved state of any run: `m` is read iff an add of `m` is known that no known remove
of `m` covers -/
theorem run_member_iff (r : Run c) (v : c.View s K) (m : M) :
    m ∈ s.read.val ↔
      ∃ d ms, OrswotOp.add d ms ∈ K ∧ m ∈ ms ∧ 0 < d.counter ∧
        ∀ cl ms', OrswotOp.rm cl ms' ∈ K → m ∈ ms' → cl.get d.actor < d.counter :=
  C04.member_iff (run_logWF r) (run_view_reach r v) m

/-- positivity is part of the invariant, so it can be dropped from the right-hand side -/
theorem run_member_iff' (r : Run c) (v : c.View s K) (m : M) :
    m ∈ s.read.val ↔
      ∃ d ms, OrswotOp.add d ms ∈ K ∧ m ∈ ms ∧
        ∀ cl ms', OrswotOp.rm cl ms' ∈ K → m ∈ ms' → cl.get d.actor < d.counter := by
  rw [run_member_iff r v m]
  constructor
  · rintro ⟨d, ms, h, hm, _, hc⟩; exact ⟨d, ms, h, hm, hc⟩
  · rintro ⟨d, ms, h, hm, hc⟩; exact ⟨d, ms, h, hm, run_dot_pos r (run_know_sub_log r v _ h), hc⟩

/-- **C04 add wins** -/
theorem run_add_wins (r : Run c) (v : c.View s K) {d : Dot A} {ms : List M} {m : M} (hin : OrswotOp.add d ms ∈ K)
    (hm : m ∈ ms) (hcov : ∀ cl ms', OrswotOp.rm cl ms' ∈ K → m ∈ ms' → cl.get d.actor < d.counter) : m ∈ s.read.val :=
  (run_member_iff' r v m).mpr ⟨d, ms, hin, hm, hcov⟩

/-- **C02** on any two / three replicas or saved states of a run -/
theorem run_merge_comm (r : Run c) (v : c.View s K) (v' : c.View s' K') : s.merge s' = s'.merge s :=
  C02.orswot_comm (run_logWF r) (run_view_reach r v) (run_view_reach r v')

theorem run_merge_assoc (r : Run c) (v : c.View s K) (v' : c.View s' K') (v'' : c.View s'' K'') :
    (s.merge s').merge s'' = s.merge (s'.merge s'') :=
  C02.orswot_assoc (run_logWF r) (run_view_reach r v) (run_view_reach r v') (run_view_reach r v'')

theorem run_merge_idem (r : Run c) (v : c.View s K) : s.merge s = s :=
  C02.orswot_idem (run_logWF r) (run_view_reach r v)

/-- **C03**: merging two states of a run gives the state of anyone who learned the union -/
theorem run_merge_is_union {t : Orswot M A} {L : List (OrswotOp M A)} (r : Run c) (v : c.View s K) (v' : c.View s' K')
    (vt : c.View t L) (e : ∀ o, o ∈ L ↔ (o ∈ K ∨ o ∈ K')) : s.merge s' = t :=
  merge_is_union (R := orswotSys) (run_logWF r) (run_view_reach r v) (run_view_reach r v') (run_view_reach r vt) e

/-- **C09**: re-applying an op a replica already knows changes nothing -/
theorem run_dup_noop (r : Run c) (v : c.View s K) {op : OrswotOp M A} (hk : op ∈ K) : s.apply op = s :=
  C09.orswot_duplicate (run_logWF r) (run_view_reach r v) (run_know_sub_log r v op hk) hk

/-- **C09**: merging a state whose knowledge is already known (old snapshot, lagging peer) changes nothing -/
theorem run_stale_noop (r : Run c) (v : c.View s K) (v' : c.View s' K') (sub : ∀ o, o ∈ K' → o ∈ K) : s.merge s' = s :=
  C09.orswot_stale (run_logWF r) (run_view_reach r v) (run_view_reach r v') sub

/-- **C09 no resurrection** -/
theorem run_no_resurrection (r : Run c) (v : c.View s K) (m : M)
    (hall : ∀ d ms, OrswotOp.add d ms ∈ K → m ∈ ms →
      ∃ cl ms', OrswotOp.rm cl ms' ∈ K ∧ m ∈ ms' ∧ d.counter ≤ cl.get d.actor) : m ∉ s.read.val :=
  C09.no_resurrection (run_logWF r) (run_view_reach r v) m (fun d ms h hm _ => hall d ms h hm)

/-- **C07 freshness**: the dot the API derives at `i` is `i`'s next one, and NO op of the log carries it -/
theorem run_fresh_dot (r : Run c) (i : A) :
    ((c.rep i).read.deriveAddCtx i).dot = ⟨i, clk c.log i + 1⟩ ∧
    ∀ ms, OrswotOp.add ((c.rep i).read.deriveAddCtx i).dot ms ∉ c.log := by
  have inv := sysInv_run r
  have hd := inv.derived_dot i
  refine ⟨by rw [hd, inv.clk_know_eq_log i], fun ms hin => ?_⟩
  rw [hd] at hin
  have := inv.derived_fresh i ms _ ms hin rfl
  exact Nat.lt_irrefl _ this

/-- **C07**: element-level remove context = exactly the element's surviving witnesses, at any state of any run -/
theorem run_element_rm_clock (r : Run c) (v : c.View s K) (m : M) (a : A) : (s.contains m).rmClock.get a = E K m a :=
  C07.element_rm_clock (run_logWF r) (run_view_reach r v) m a

/-- **C07**: a remove built from a context read in a run cannot affect an add its reader had not seen -/
theorem run_rm_ctx_covers_only_seen (r : Run c) (v : c.View s K) (m : M) {d : Dot A} {ms : List M}
    (hu : OrswotOp.add d ms ∈ c.log) (hcov : d.counter ≤ (s.contains m).deriveRmCtx.clock.get d.actor) :
    OrswotOp.add d ms ∈ K :=
  C07.rm_ctx_covers_only_seen (run_logWF r) (run_view_reach r v) _
    (C07.read_ctx_le_clock (run_logWF r) (run_view_reach r v) m).1 hu (run_dot_pos r hu) hcov

/-- **C20**: `==` on the states, and no pending-remove residue once caught up -/
theorem run_eq (r : Run c) (v : c.View s K) (v' : c.View s' K') (e : ∀ o, o ∈ K ↔ o ∈ K') : decide (s = s') = true :=
  C20.orswot_eq (run_logWF r) (run_view_reach r v) (run_view_reach r v') e

theorem run_no_pending_residue (r : Run c) (v : c.View s K)
    (caught_up : ∀ cl ms, OrswotOp.rm cl ms ∈ K → ∀ a, cl.get a ≤ clk K a) : s.deferred = ∅ :=
  C20.no_pending_residue (run_logWF r) (run_view_reach r v) caught_up

/-! ## non-vacuity: a concrete 5-step run built with the `Step` constructors

Actors 1 and 2.  1 adds 7; the op is delivered to 2; then CONCURRENTLY 2 removes 7 (context read with `contains`) and 1 adds 7
again; finally 1 merges 2's state.  Add wins: 7 is still there, witnessed by the second dot only. -/
section example_
def ex0 : Cfg Nat Nat := Cfg.init
def ex1 : Cfg Nat Nat := ex0.gen 1 (Orswot.add 7 ((ex0.rep 1).read.deriveAddCtx 1))
def ex2 : Cfg Nat Nat := ex1.deliver 2 (.add ⟨1, 1⟩ [7])
def ex3 : Cfg Nat Nat := ex2.gen 2 (Orswot.rm 7 ((ex2.rep 2).contains 7).deriveRmCtx)
def ex4 : Cfg Nat Nat := ex3.gen 1 (Orswot.add 7 ((ex3.rep 1).read.deriveAddCtx 1))
def ex5 : Cfg Nat Nat := ex4.mergeIn 1 (ex4.rep 2) (ex4.know 2)

theorem ex1_log : ex1.log = [.add ⟨1, 1⟩ [7]] := by decide

theorem ex_run : Run ex5 := by
  have r1 : Run ex1 := Run.step Run.init (Step.add ex0 1 7)
  have r2 : Run ex2 := by
    refine Run.step r1 (Step.deliver ex1 2 (.add ⟨1, 1⟩ [7]) ?_ ?_)
    · rw [ex1_log]; exact List.mem_cons_self
    · intro d' ms' hu ha hlt
      rw [ex1_log] at hu
      simp only [List.mem_cons, OrswotOp.add.injEq, List.mem_nil_iff, or_false] at hu
      rw [hu.1] at hlt; exact absurd hlt (Nat.lt_irrefl _)
  have r3 : Run ex3 := Run.step r2 (Step.rm ex2 2 7)
  have r4 : Run ex4 := Run.step r3 (Step.add ex3 1 7)
  exact Run.step r4 (Step.merge ex4 1 2)

/-- the log of that run, and what the two replicas read at the end -/
example : ex5.log = [.add ⟨1, 2⟩ [7], .rm ((∅ : VClock Nat).apply ⟨1, 1⟩) [7], .add ⟨1, 1⟩ [7]] := by decide
example : (ex5.rep 1).read.val = [7] ∧ (ex5.rep 2).read.val = [] ∧ ((ex5.rep 1).contains 7).rmClock.get 1 = 2 := by decide
/-- the hypothesis-free theorems apply to it -/
example : (ex5.rep 1).merge (ex5.rep 2) = (ex5.rep 2).merge (ex5.rep 1) := run_merge_comm ex_run (.rep 1) (.rep 2)
example : ∀ ms, OrswotOp.add (⟨1, 3⟩ : Dot Nat) ms ∉ ex5.log := by
  have h := (run_fresh_dot ex_run 1).2
  have e : ((ex5.rep 1).read.deriveAddCtx 1).dot = ⟨1, 3⟩ := by decide
  rw [e] at h; exact h
end example_

end Crdt.Sys
