import CrdtModel.Spec.MapKeys
import CrdtModel.Props.C04
import CrdtModel.Proofs.OrswotExec
set_option linter.unusedSectionVars false
/-!
# C05 — Map keys are observed-remove; removing a key resets only what was seen

**Key level (full statement, every value type, every nesting depth).**  `CMap.Reach ops U s L`: `s` is the state of any
replica/snapshot in any history over the update universe `U` in which each actor's *updates* arrive in issue order (key removes
in any order, before or after what they observed; duplicates; merges of live/stale states); `ops : ValOps V VOp A` is an
ARBITRARY value type (MVReg, Orswot, a nested Map built with the same functions, …).  The theorems say which keys are
present and what `get(k)`'s remove context is, as a function of the set of ops learned.

**Nested contents.**  The local reset semantics of one key-remove step is proved (`rm_step_*`).  The global statement
("after a key remove, everything the remover had seen under that key is gone at every replica, the rest stays", and
equal nested values/contexts for equal knowledge) is FALSE of the unchanged crate for all three nestings (witness scripts
`witness/map_*_causal_diverge.txt`, replayed on every run; known_findings.json); it is kept here as the full statement:

  `∀ s s' L L', Reach ops U s L → Reach ops U s' L' → (∀ o, o ∈ L ↔ o ∈ L') → (s.get k).val = (s'.get k).val`   -- NOT provable (false)
-/
namespace Crdt.C05
open Crdt LinOrd OrswotSpec CMap
variable {K V VOp A : Type} [LinOrd K] [LinOrd A] {ops : ValOps V VOp A} {U L : List (MapOp K VOp A)} {s : CMap K V A}

theorem add_mem_keyLog_mp {d : Dot A} {ms : List K} {k : K}
    (h : OrswotOp.add d ms ∈ keyLog L ∧ k ∈ ms) : ∃ o, MapOp.up d k o ∈ L := by
  simp only [keyLog, List.mem_map] at h
  obtain ⟨⟨op, hin, e⟩, hk⟩ := h
  cases op with
  | rm c ks => simp [keyOp] at e
  | up d' k' o =>
    simp only [keyOp, OrswotOp.add.injEq] at e
    obtain ⟨rfl, rfl⟩ := e
    simp only [List.mem_cons, List.mem_nil_iff, or_false] at hk
    subst hk; exact ⟨o, hin⟩

theorem add_mem_keyLog_mpr {d : Dot A} {k : K} {o : VOp} (hin : MapOp.up d k o ∈ L) :
    OrswotOp.add d [k] ∈ keyLog L ∧ k ∈ [k] := by
  refine ⟨?_, by simp⟩
  simp only [keyLog, List.mem_map]
  exact ⟨_, hin, rfl⟩

theorem add_mem_keyLog' {d : Dot A} {ms : List K} (h : OrswotOp.add d ms ∈ keyLog L) : ∃ k o, ms = [k] ∧ MapOp.up d k o ∈ L := by
  simp only [keyLog, List.mem_map] at h
  obtain ⟨op, hin, e⟩ := h
  cases op with
  | rm c ks => simp [keyOp] at e
  | up d' k' o =>
    simp only [keyOp, OrswotOp.add.injEq] at e
    obtain ⟨rfl, rfl⟩ := e
    exact ⟨k', o, rfl, hin⟩

theorem rm_mem_keyLog {c : VClock A} {ks : List K} : OrswotOp.rm c ks ∈ keyLog L ↔ MapOp.rm c ks ∈ L := by
  simp only [keyLog, List.mem_map]
  constructor
  · rintro ⟨op, hin, e⟩
    cases op with
    | rm c' ks' => simp only [keyOp, OrswotOp.rm.injEq] at e; obtain ⟨rfl, rfl⟩ := e; exact hin
    | up d k o => simp [keyOp] at e
  · intro hin; exact ⟨_, hin, rfl⟩

theorem get_val_isSome (k : K) : (s.get k).val.isSome = (s.keysView.entries.get? k).isSome := by
  simp only [CMap.get, keysView, FMap.get?_mapVal]; cases s.entries.get? k <;> rfl

/-- **key presence**: `k` is present iff the replica knows an update of `k` whose dot no known remove of `k` covers -/
theorem key_present_iff (wf : LogWF (keyLog U)) (h : CMap.Reach ops U s L) (k : K) :
    (s.get k).val.isSome = true ↔
      ∃ d o, MapOp.up d k o ∈ L ∧ 0 < d.counter ∧
        ∀ c ks, MapOp.rm c ks ∈ L → k ∈ ks → c.get d.actor < d.counter := by
  have r := (keys_rep wf h).2
  rw [get_val_isSome, C04.present_iff_witness r]
  have hm := C04.member_iff_of_rep r k
  have hread : k ∈ s.keysView.read.val ↔ (s.keysView.entries.get? k).isSome = true := by
    simp only [Orswot.read, List.mem_map]
    constructor
    · rintro ⟨p, hp, e⟩
      have := AL.get?_of_mem s.keysView.entries.sorted (x := p.1) (v := p.2) hp
      subst e; simp [FMap.get?, this]
    · intro hs
      obtain ⟨mc, hmc⟩ := Option.isSome_iff_exists.mp hs
      exact ⟨(k, mc), AL.mem_of_get? hmc, rfl⟩
  rw [← C04.present_iff_witness r, ← hread, hm]
  constructor
  · rintro ⟨d, ms, hin, hk, hpos, hcov⟩
    obtain ⟨o, ho⟩ := add_mem_keyLog_mp ⟨hin, hk⟩
    exact ⟨d, o, ho, hpos, fun c ks hrm hks => hcov c ks (rm_mem_keyLog.mpr hrm) hks⟩
  · rintro ⟨d, o, ho, hpos, hcov⟩
    obtain ⟨hin, hk⟩ := add_mem_keyLog_mpr ho
    exact ⟨d, [k], hin, hk, hpos, fun c ks hrm hks => hcov c ks (rm_mem_keyLog.mp hrm) hks⟩

/-- `get(k).rm_clock` is exactly the surviving update witnesses of `k`: per actor, the newest known update of `k` by that
actor unless a known remove of `k` covers it -/
theorem get_rm_clock (wf : LogWF (keyLog U)) (h : CMap.Reach ops U s L) (k : K) (a : A) :
    (s.get k).rmClock.get a = E (keyLog L) k a := by
  have r := (keys_rep wf h).2
  have := r.entries k a
  rw [← this]
  simp only [CMap.get, Orswot.entryGet, keysView, FMap.get?_mapVal]
  cases s.entries.get? k <;> simp

/-- every read entry point carries the map clock as add context, and it is the per-actor newest known update -/
theorem add_clock_entry_points (wf : LogWF (keyLog U)) (h : CMap.Reach ops U s L) (k : K) (a : A) :
    (s.get k).addClock = s.clock ∧ s.len.addClock = s.clock ∧ s.isEmpty.addClock = s.clock ∧ s.readCtx.addClock = s.clock ∧
    (∀ r ∈ s.keys, r.addClock = s.clock) ∧ (∀ r ∈ s.values, r.addClock = s.clock) ∧ (∀ r ∈ s.iter, r.addClock = s.clock) ∧
    s.clock.get a = clk (keyLog L) a := by
  refine ⟨rfl, rfl, rfl, rfl, ?_, ?_, ?_, (keys_rep wf h).2.clock a⟩
  · intro r hr; simp only [CMap.keys, List.mem_map] at hr; obtain ⟨p, _, e⟩ := hr; rw [← e]
  · intro r hr; simp only [CMap.values, List.mem_map] at hr; obtain ⟨p, _, e⟩ := hr; rw [← e]
  · intro r hr; simp only [CMap.iter, List.mem_map] at hr; obtain ⟨p, _, e⟩ := hr; rw [← e]

/-- `keys()` lists exactly the present keys, each with the same remove context as `get` -/
theorem keys_entry (r : ReadCtx K A) (hr : r ∈ s.keys) : (s.get r.val).val.isSome = true ∧ r.rmClock = (s.get r.val).rmClock := by
  simp only [CMap.keys, List.mem_map] at hr
  obtain ⟨p, hp, e⟩ := hr
  have hg : s.entries.get? p.1 = some p.2 := AL.get?_of_mem s.entries.sorted hp
  rw [← e]; simp [CMap.get, hg]

theorem len_is_number_of_entries : s.len.val = s.entries.size ∧ (s.isEmpty.val = true ↔ s.entries.size = 0) := by
  refine ⟨rfl, ?_⟩
  simp only [CMap.isEmpty, FMap.isEmpty, FMap.size]
  cases s.entries.l <;> simp

/-- **an update not covered by a remove of its key keeps the key present (update wins)** -/
theorem update_wins (wf : LogWF (keyLog U)) (h : CMap.Reach ops U s L) {d : Dot A} {k : K} {o : VOp}
    (hin : MapOp.up d k o ∈ L) (hpos : 0 < d.counter)
    (hcov : ∀ c ks, MapOp.rm c ks ∈ L → k ∈ ks → c.get d.actor < d.counter) : (s.get k).val.isSome = true :=
  (key_present_iff wf h k).mpr ⟨d, o, hin, hpos, hcov⟩

/-- a key all of whose known updates are covered by known removes of it is absent (no resurrection) -/
theorem removed_if_all_covered (wf : LogWF (keyLog U)) (h : CMap.Reach ops U s L) (k : K)
    (hall : ∀ d o, MapOp.up d k o ∈ L → 0 < d.counter →
      ∃ c ks, MapOp.rm c ks ∈ L ∧ k ∈ ks ∧ d.counter ≤ c.get d.actor) : (s.get k).val = none := by
  cases hv : (s.get k).val with
  | none => rfl
  | some v =>
    exfalso
    obtain ⟨d, o, hin, hpos, hcov⟩ := (key_present_iff wf h k).mp (by simp [hv])
    obtain ⟨c, ks, hrm, hk, hle⟩ := hall d o hin hpos
    have := hcov c ks hrm hk
    omega

/-- pending key removes are remembered exactly (and this travels through merges: it is part of the invariant) -/
theorem deferred_iff (wf : LogWF (keyLog U)) (h : CMap.Reach ops U s L) (c : VClock A) :
    (s.deferred.get? c).isSome = true ↔ ((∃ ks, MapOp.rm c ks ∈ L) ∧ ∃ a, c.get a > clk (keyLog L) a) := by
  have := (keys_rep wf h).2.def_some c
  simp only [keysView_deferred] at this
  rw [this]
  constructor
  · rintro ⟨⟨ks, hk⟩, hp⟩; exact ⟨⟨ks, rm_mem_keyLog.mp hk⟩, hp⟩
  · rintro ⟨⟨ks, hk⟩, hp⟩; exact ⟨⟨ks, rm_mem_keyLog.mpr hk⟩, hp⟩

/-- equal delivered sets ⇒ equal key-level state: same keys, same contexts, same pending removes, same clock -/
theorem keys_converge {s' : CMap K V A} {L' : List (MapOp K VOp A)} (wf : LogWF (keyLog U)) (h : CMap.Reach ops U s L)
    (h' : CMap.Reach ops U s' L') (e : ∀ o, o ∈ L ↔ o ∈ L') :
    s.clock = s'.clock ∧ s.deferred = s'.deferred ∧ ∀ k, (s.get k).val.isSome = (s'.get k).val.isSome ∧ (s.get k).rmClock = (s'.get k).rmClock := by
  have hk := CMap.keys_converge wf h h' (by
    intro o; simp only [keyLog, List.mem_map]
    constructor
    · rintro ⟨x, hx, rfl⟩; exact ⟨x, (e x).mp hx, rfl⟩
    · rintro ⟨x, hx, rfl⟩; exact ⟨x, (e x).mpr hx, rfl⟩)
  refine ⟨congrArg Orswot.clock hk, congrArg Orswot.deferred hk, fun k => ?_⟩
  have he := congrArg Orswot.entries hk
  simp only [keysView] at he
  have hg : (s.entries.get? k).map (·.clock) = (s'.entries.get? k).map (·.clock) := by
    rw [← FMap.get?_mapVal, ← FMap.get?_mapVal, he]
  simp only [CMap.get]
  cases h1 : s.entries.get? k <;> cases h2 : s'.entries.get? k <;> simp_all

/-- the key level of every derivable Map state IS the executable Orswot specification of the key-level knowledge -/
theorem keys_eq_spec (wf : LogWF (keyLog U)) (h : CMap.Reach ops U s L) : s.keysView = specState (keyLog L) :=
  eq_specState (keys_rep wf h).2

/-! ## nested contents: local reset semantics of one key-remove step (`_partial`) -/

/-- at the replica applying a key remove with context `c`: the entry is dropped iff its clock is covered by `c`; otherwise
its clock is reduced by `c` and the nested value is reset with `c` (`V::reset_remove(c)`, which by C18 forgets exactly
what `c` covers) -/
theorem rm_step_value_partial (c : VClock A) (e : FMap K (MapEntry V A)) (k : K) (en : MapEntry V A)
    (hg : e.get? k = some en) :
    (rmKey ops c e k).get? k =
      if (en.clock.resetRemove c).isEmpty then none else some ⟨en.clock.resetRemove c, ops.resetRemove en.val c⟩ := by
  unfold rmKey
  simp only [hg]
  split <;> simp

/-- other keys are untouched by a key remove -/
theorem rm_step_other_partial (c : VClock A) (e : FMap K (MapEntry V A)) (k k' : K) (hne : k' ≠ k) :
    (rmKey ops c e k).get? k' = e.get? k' := by
  unfold rmKey
  cases e.get? k with
  | none => rfl
  | some en => simp only; split <;> simp [hne]

end Crdt.C05
