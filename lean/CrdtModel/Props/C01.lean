import CrdtModel.Spec.OrswotSys
import CrdtModel.Spec.Lattice
import CrdtModel.Spec.GListSys
set_option linter.unusedSectionVars false
/-!
# C01 — replicas that applied the same ops converge (op-based SEC, causal delivery)

For each type, `Reach U s K` ranges over every state any replica (or snapshot) can have in any history over the
op universe `U` whose deliveries satisfy the type's discipline `Ok`; two such states with the same *set* of
delivered ops are **equal as states**, hence agree on every read and every causal context.
The disciplines used are weaker than causal delivery (so every causal schedule is covered):
* VClock, GCounter, PNCounter, GSet, LWWReg (unique markers), MaxReg, MinReg, MVReg, GList, MerkleReg: no constraint at all;
* Orswot, Map (key level): each actor's *adds/updates* in issue order (a causal schedule delivers an actor's earlier
  ops first, because the actor had applied them before generating the later one – `causal_implies_ok`);
* List: per-actor order + a delete after the insert it targets.
-/
namespace Crdt.C01
open Crdt LinOrd RepSys

section generic
variable {σ ω : Type} (R : RepSys σ ω) {U : List ω}
/-- the generic statement (instantiated below): same delivered set ⇒ same state -/
theorem same_ops_same_state (wf : R.WF U) {s s' : σ} {K K' : List ω} (h : R.Reach U s K) (h' : R.Reach U s' K')
    (e : ∀ o, o ∈ K ↔ o ∈ K') : s = s' := converge wf h h' e
end generic

section orswot
variable {M A : Type} [LinOrd M] [LinOrd A] {U K K' : List (OrswotOp M A)} {s s' : Orswot M A}

theorem orswot (wf : OrswotSpec.LogWF U) (h : orswotSys.Reach U s K) (h' : orswotSys.Reach U s' K')
    (e : ∀ o, o ∈ K ↔ o ∈ K') : s = s' := converge (R := orswotSys) wf h h' e

/-- identical reads and contexts, spelled out -/
theorem orswot_reads (wf : OrswotSpec.LogWF U) (h : orswotSys.Reach U s K) (h' : orswotSys.Reach U s' K')
    (e : ∀ o, o ∈ K ↔ o ∈ K') :
    s.read.val = s'.read.val ∧ s.read.addClock = s'.read.addClock ∧ (∀ m, (s.contains m).val = (s'.contains m).val ∧
      (s.contains m).rmClock = (s'.contains m).rmClock) := by
  rw [orswot wf h h' e]; exact ⟨rfl, rfl, fun _ => ⟨rfl, rfl⟩⟩

/-- a causal schedule satisfies the Orswot discipline: if the receiver knows everything the author knew when it
generated the op (`deps`), and the author knew all of its own earlier adds, the op may be applied -/
theorem causal_implies_ok {op : OrswotOp M A} {deps : List (OrswotOp M A)}
    (own_earlier : ∀ d ms, op = .add d ms → OrswotSpec.PredsIn U deps d)
    (causal : ∀ o ∈ deps, o ∈ K) : OrswotSpec.Ok U K op := by
  cases op with
  | add d ms => exact fun d' ms' hu ha hlt => causal _ (own_earlier d ms rfl d' ms' hu ha hlt)
  | rm c ms => trivial
end orswot

section lattice
variable {α : Type} [LinOrd α]
theorem vclock {U K K' : List (Dot α)} {s s' : VClock α} (h : vclockSys.Reach U s K) (h' : vclockSys.Reach U s' K')
    (e : ∀ o, o ∈ K ↔ o ∈ K') : s = s' := converge (R := vclockSys) trivial h h' e
theorem gcounter {U K K' : List (Dot α)} {s s' : GCounter α} (h : gcounterSys.Reach U s K) (h' : gcounterSys.Reach U s' K')
    (e : ∀ o, o ∈ K ↔ o ∈ K') : s = s' := converge (R := gcounterSys) trivial h h' e
theorem pncounter {U K K' : List (PNOp α)} {s s' : PNCounter α} (h : pncounterSys.Reach U s K)
    (h' : pncounterSys.Reach U s' K') (e : ∀ o, o ∈ K ↔ o ∈ K') : s = s' := converge (R := pncounterSys) trivial h h' e
theorem gset {U K K' : List α} {s s' : GSet α} (h : gsetSys.Reach U s K) (h' : gsetSys.Reach U s' K')
    (e : ∀ o, o ∈ K ↔ o ∈ K') : s = s' := converge (R := gsetSys) trivial h h' e
theorem maxreg (v0 : α) {U K K' : List α} {s s' : MaxReg α} (h : (maxregSys v0).Reach U s K)
    (h' : (maxregSys v0).Reach U s' K') (e : ∀ o, o ∈ K ↔ o ∈ K') : s = s' := converge (R := maxregSys v0) trivial h h' e
theorem minreg (v0 : α) {U K K' : List α} {s s' : MinReg α} (h : (minregSys v0).Reach U s K)
    (h' : (minregSys v0).Reach U s' K') (e : ∀ o, o ∈ K ↔ o ∈ K') : s = s' := converge (R := minregSys v0) trivial h h' e
theorem lwwreg {ν : Type} [DecidableEq ν] (r0 : LWWReg ν α) {U K K' : List (LWWReg ν α)} {s s' : LWWReg ν α}
    (wf : UniqueMarkers r0 U) (h : (lwwSys r0).Reach U s K) (h' : (lwwSys r0).Reach U s' K')
    (e : ∀ o, o ∈ K ↔ o ∈ K') : s = s' := converge (R := lwwSys r0) wf h h' e
end lattice

section glist
variable {τ : Type} [LinOrd τ]
/-- GList: no delivery constraint at all -/
theorem glist {U K K' : List (GListOp τ)} {s s' : GList τ} (h : glistSys.Reach U s K) (h' : glistSys.Reach U s' K')
    (e : ∀ o, o ∈ K ↔ o ∈ K') : s = s' := converge (R := glistSys) trivial h h' e
end glist

end Crdt.C01
