import CrdtModel.Proofs.SysMap
import CrdtModel.Props.C05
import CrdtModel.Props.C05NestedOrswot
import CrdtModel.Props.C07
set_option linter.unusedSectionVars false
/-!
# Map theorems for every execution of the system – NO well-formedness hypothesis

`Run ops Allowed c` : `c` is a configuration of a system of `Map<K, V, A>` replicas (ANY value type `ops`, closures restricted by
`Allowed`) in which every op was produced by `Map::update` / `Map::rm` from the issuing replica's current state
(`Spec/SysMap.lean`).  `c.View s L` : `s` is one of `c`'s replica states or saved states, `L` the ops it has learned.

* key level (every value type, every closure, merges and saved states included): `run_logWF`, `run_reach`, `run_own_known`,
  and the theorems of C05 / C07 without their `LogWF` / `Reach` hypotheses (`run_key_present_iff`, …);
* `Map<K, Orswot<M,A>, A>` with the Orswot API closures: `run_nlogWF` (`NLogWF` of the log – merges included);
* the causal, op-only sub-system `RunC`: `runC_reachC` and the nested theorems of `Props/C05NestedOrswot.lean` without their
  `NLogWF` / `ReachC` hypotheses (`runC_nested_member_iff`, …).
-/
namespace Crdt.SysMap
open Crdt LinOrd OrswotSpec CMap Crdt.Sys

section generic
variable {K V VOp A : Type} [LinOrd K] [LinOrd A] {ops : ValOps V VOp A} {Allowed : (V → AddCtx A → VOp) → Prop}
  {c : Cfg K V VOp A} {s s' : CMap K V A} {L L' : List (MapOp K VOp A)}

/-! ## the invariant -/

/-- (a) the key-level log of every run is well-formed -/
theorem run_logWF (r : Run ops Allowed c) : LogWF (keyLog c.log) := (sysInv_run r).wf

/-- (b) every replica state of every run is `CMap.Reach`-derivable over the run's log, with the replica's knowledge -/
theorem run_reach (r : Run ops Allowed c) (i : A) : CMap.Reach ops c.log (c.rep i) (c.know i) := (sysInv_run r).reach i

theorem run_reach_snap (r : Run ops Allowed c) {p : CMap K V A × List (MapOp K VOp A)} (hp : p ∈ c.snaps) :
    CMap.Reach ops c.log p.1 p.2 := (sysInv_run r).snaps p hp

theorem run_view_reach (r : Run ops Allowed c) (v : c.View s L) : CMap.Reach ops c.log s L := (sysInv_run r).view v

/-- (c) an actor's replica knows all of that actor's updates -/
theorem run_own_known (r : Run ops Allowed c) (i : A) (d : Dot A) (k : K) (o : VOp) (h : MapOp.up d k o ∈ c.log)
    (ha : d.actor = i) : MapOp.up d k o ∈ c.know i := (sysInv_run r).own i d k o h ha

theorem run_know_sub_log (r : Run ops Allowed c) (v : c.View s L) : ∀ x ∈ L, x ∈ c.log := reach_sub (run_view_reach r v)

/-- (d) update counters are positive -/
theorem run_dot_pos (r : Run ops Allowed c) {d : Dot A} {k : K} {o : VOp} (h : MapOp.up d k o ∈ c.log) : 0 < d.counter :=
  (sysInv_run r).pos d k o h

/-- (d) a dot names one update (key and nested op) -/
theorem run_dots_unique (r : Run ops Allowed c) : DotsUnique c.log := (sysInv_run r).dots_unique

/-- (d) per actor, the update counters of the log are exactly `1 ..` the replica clock of `i` at `i` -/
theorem run_contig (r : Run ops Allowed c) (i : A) (n : Nat) :
    (∃ k o, MapOp.up ⟨i, n⟩ k o ∈ c.log) ↔ (0 < n ∧ n ≤ (c.rep i).clock.get i) := by
  have inv := sysInv_run r
  rw [inv.clock (.rep i) i]
  constructor
  · rintro ⟨k, o, h⟩
    exact ⟨inv.pos _ k o h, le_clk (d := ⟨i, n⟩) (up_mem_keyLog (inv.own i _ k o h rfl))⟩
  · rintro ⟨hn, hle⟩
    obtain ⟨d2, ms2, hd2, ha2, hc2⟩ := clk_attained (K := keyLog (c.know i)) (a := i) (by omega)
    obtain ⟨k2, o2, _, hin2⟩ := C05.add_mem_keyLog' hd2
    obtain ⟨k', o', h'⟩ := inv.contig d2 k2 o2 n (inv.know_sub i _ hin2) hn (by omega)
    exact ⟨k', o', by rw [← ha2]; exact h'⟩

/-! ## hypothesis-free key-level corollaries (every value type, every nesting depth) -/

/-- **C05.key_present_iff** at any replica / saved state of any run -/
theorem run_key_present_iff (r : Run ops Allowed c) (v : c.View s L) (k : K) :
    (s.get k).val.isSome = true ↔
      ∃ d o, MapOp.up d k o ∈ L ∧ 0 < d.counter ∧
        ∀ cl ks, MapOp.rm cl ks ∈ L → k ∈ ks → cl.get d.actor < d.counter :=
  C05.key_present_iff (run_logWF r) (run_view_reach r v) k

/-- positivity is part of the invariant, so it can be dropped -/
theorem run_key_present_iff' (r : Run ops Allowed c) (v : c.View s L) (k : K) :
    (s.get k).val.isSome = true ↔
      ∃ d o, MapOp.up d k o ∈ L ∧ ∀ cl ks, MapOp.rm cl ks ∈ L → k ∈ ks → cl.get d.actor < d.counter := by
  rw [run_key_present_iff r v k]
  constructor
  · rintro ⟨d, o, h, _, hc⟩; exact ⟨d, o, h, hc⟩
  · rintro ⟨d, o, h, hc⟩; exact ⟨d, o, h, run_dot_pos r (run_know_sub_log r v _ h), hc⟩

/-- **update wins** -/
theorem run_update_wins (r : Run ops Allowed c) (v : c.View s L) {d : Dot A} {k : K} {o : VOp} (hin : MapOp.up d k o ∈ L)
    (hcov : ∀ cl ks, MapOp.rm cl ks ∈ L → k ∈ ks → cl.get d.actor < d.counter) : (s.get k).val.isSome = true :=
  (run_key_present_iff' r v k).mpr ⟨d, o, hin, hcov⟩

/-- a key all of whose known updates are covered by known removes of it is absent -/
theorem run_removed_if_all_covered (r : Run ops Allowed c) (v : c.View s L) (k : K)
    (hall : ∀ d o, MapOp.up d k o ∈ L → ∃ cl ks, MapOp.rm cl ks ∈ L ∧ k ∈ ks ∧ d.counter ≤ cl.get d.actor) :
    (s.get k).val = none :=
  C05.removed_if_all_covered (run_logWF r) (run_view_reach r v) k (fun d o h _ => hall d o h)

/-- `get(k).rm_clock` = exactly the surviving update witnesses of `k` -/
theorem run_get_rm_clock (r : Run ops Allowed c) (v : c.View s L) (k : K) (a : A) :
    (s.get k).rmClock.get a = E (keyLog L) k a := C05.get_rm_clock (run_logWF r) (run_view_reach r v) k a

/-- pending key removes are remembered exactly -/
theorem run_deferred_iff (r : Run ops Allowed c) (v : c.View s L) (cl : VClock A) :
    (s.deferred.get? cl).isSome = true ↔ ((∃ ks, MapOp.rm cl ks ∈ L) ∧ ∃ a, cl.get a > clk (keyLog L) a) :=
  C05.deferred_iff (run_logWF r) (run_view_reach r v) cl

/-- equal delivered sets ⇒ equal key-level state, for any two replicas / saved states of a run -/
theorem run_keys_converge (r : Run ops Allowed c) (v : c.View s L) (v' : c.View s' L') (e : ∀ o, o ∈ L ↔ o ∈ L') :
    s.clock = s'.clock ∧ s.deferred = s'.deferred ∧
      ∀ k, (s.get k).val.isSome = (s'.get k).val.isSome ∧ (s.get k).rmClock = (s'.get k).rmClock :=
  C05.keys_converge (run_logWF r) (run_view_reach r v) (run_view_reach r v') e

/-- the key level of every state of every run IS the executable Orswot specification of the key-level knowledge -/
theorem run_keys_eq_spec (r : Run ops Allowed c) (v : c.View s L) : s.keysView = specState (keyLog L) :=
  C05.keys_eq_spec (run_logWF r) (run_view_reach r v)

/-- **C07 freshness**: the dot `read_ctx().derive_add_ctx(i)` yields at `i` is carried by NO update of the log -/
theorem run_fresh_dot (r : Run ops Allowed c) (i : A) :
    ∀ k o, MapOp.up ((c.rep i).readCtx.deriveAddCtx i).dot k o ∉ c.log := by
  have inv := sysInv_run r
  intro k o hin
  have := (C07.map_derived_dot_fresh inv.wf (inv.reach i) i (fun d k o hu ha => inv.own i d k o hu ha)).2 _ k o hin
    (by rw [inv.derived_dot i])
  exact Nat.lt_irrefl _ this

end generic

/-! ## `Map<K, Orswot<M,A>, A>` -/
section nested
variable {K M A : Type} [LinOrd K] [LinOrd M] [LinOrd A] {c : NCfg K M A} {s s' : CMap K (Orswot M A) A}

/-- **`NLogWF` of the log of every run** (state merges and saved states included): a nested add carries the dot of its Map op,
counters are positive, a dot names one update, the key level is well-formed -/
theorem run_nlogWF (r : NRun c) : NLogWF c.log := nlogWF_run r

/-- every run of the causal op-only system is a run of the full system: everything above applies to it -/
theorem runC_toRun (r : RunC c) : NRun c := runC_run r

/-- every replica state of every run of the causal op-only system is `ReachC`-derivable over the run's log -/
theorem runC_reachC (r : RunC c) (i : A) : ReachC c.log (c.rep i) (c.know i) := allC_run r i

/-- **C05 nested witnesses**, hypothesis-free -/
theorem runC_nested_witnesses (r : RunC c) (i : A) (k : K) (m : M) (a : A) :
    Orswot.entryGet ((((c.rep i).get k).val).getD Orswot.init).entries m a = E2 (c.know i) k m a :=
  C05.nested_orswot_witnesses (run_nlogWF (runC_run r)) (runC_reachC r i) k m a

/-- **C05 observed-remove membership of the nested set**, hypothesis-free: at any replica of any causal run, `m` is read under
`k` iff the replica knows a nested add of `m` under `k` that no known nested remove of `m` under `k` and no known key remove of
`k` covers -/
theorem runC_nested_member_iff (r : RunC c) (i : A) (k : K) (m : M) :
    (∃ v, ((c.rep i).get k).val = some v ∧ m ∈ v.read.val) ↔
      ∃ d d' ms, MapOp.up d k (OrswotOp.add d' ms) ∈ c.know i ∧ m ∈ ms ∧
        (∀ d2 c' ms', MapOp.up d2 k (OrswotOp.rm c' ms') ∈ c.know i → m ∈ ms' → c'.get d.actor < d.counter) ∧
        (∀ cl ks, (MapOp.rm cl ks : NOp K M A) ∈ c.know i → k ∈ ks → cl.get d.actor < d.counter) :=
  C05.nested_orswot_member_iff (run_nlogWF (runC_run r)) (runC_reachC r i) k m

/-- **everything the remover had seen is gone** -/
theorem runC_key_remove_wipes_seen (r : RunC c) (i : A) (k : K) (m : M) {cl : VClock A} {ks : List K}
    (hrm : (MapOp.rm cl ks : NOp K M A) ∈ c.know i) (hk : k ∈ ks)
    (hseen : ∀ d d' ms, MapOp.up d k (OrswotOp.add d' ms) ∈ c.know i → m ∈ ms → d.counter ≤ cl.get d.actor) :
    ¬ ∃ v, ((c.rep i).get k).val = some v ∧ m ∈ v.read.val :=
  C05.key_remove_wipes_seen (run_nlogWF (runC_run r)) (runC_reachC r i) k m hrm hk hseen

/-- **what the removers had not seen remains** -/
theorem runC_unseen_add_survives (r : RunC c) (i : A) {k : K} {m : M} {d d' : Dot A} {ms : List M}
    (hin : MapOp.up d k (OrswotOp.add d' ms) ∈ c.know i) (hm : m ∈ ms)
    (hn : ∀ d2 c' ms', MapOp.up d2 k (OrswotOp.rm c' ms') ∈ c.know i → m ∈ ms' → c'.get d.actor < d.counter)
    (hk : ∀ cl ks, (MapOp.rm cl ks : NOp K M A) ∈ c.know i → k ∈ ks → cl.get d.actor < d.counter) :
    ∃ v, ((c.rep i).get k).val = some v ∧ m ∈ v.read.val :=
  C05.unseen_add_survives (run_nlogWF (runC_run r)) (runC_reachC r i) hin hm hn hk

/-- **the nested reads converge**: two replicas of a causal run that have learned the same ops read, under every key, the same
nested members and the same `contains` answers and remove contexts -/
theorem runC_nested_reads_converge (r : RunC c) (i j : A) (e : ∀ o, o ∈ c.know i ↔ o ∈ c.know j) (k : K) :
    ((c.rep i).get k).val.map (fun v => v.read.val) = ((c.rep j).get k).val.map (fun v => v.read.val) ∧
    ∀ m, ((c.rep i).get k).val.map (fun v => ((v.contains m).val, (v.contains m).rmClock)) =
         ((c.rep j).get k).val.map (fun v => ((v.contains m).val, (v.contains m).rmClock)) :=
  C05.nested_orswot_reads_converge (run_nlogWF (runC_run r)) (runC_reachC r i) (runC_reachC r j) e k

/-- under causal delivery no key remove is ever parked at Map level -/
theorem runC_map_deferred_empty (r : RunC c) (i : A) : (c.rep i).deferred = ∅ :=
  C05.map_deferred_empty (run_nlogWF (runC_run r)) (runC_reachC r i)

/-- every context the API hands out at a replica of a causal run is dominated by that replica's clock – so the op it builds
satisfies the causal premise at its origin (this is what makes `RunC` closed under generation) -/
theorem runC_generated_ctxOk (r : RunC c) (i : A) (k : K) {f : Orswot M A → AddCtx A → OrswotOp M A} (hf : NestedGen f) :
    CtxOk (c.know i) (CMap.update Orswot.valOps (c.rep i) k ((c.rep i).readCtx.deriveAddCtx i) f) ∧
    CtxOk (c.know i) (CMap.rm k ((c.rep i).get k).deriveRmCtx : NOp K M A) :=
  ⟨ctxOk_update (run_nlogWF (runC_run r)) (runC_reachC r i) k _ hf, ctxOk_rmKey (run_nlogWF (runC_run r)) (runC_reachC r i) k⟩

end nested

/-! ## non-vacuity: a concrete 5-step causal run of `Map<Nat, Orswot<Nat,Nat>, Nat>` built with the `StepC` constructors

Actors 1 and 2.  1 adds member 7 under key 10; the op is delivered to 2; then CONCURRENTLY 2 removes key 10 (context read with
`get`) and 1 adds member 8 under key 10; finally 2's key remove is delivered to 1.  What the remover had seen (7) is gone, what
it had not seen (8) stays. -/
section example_
abbrev XCfg := NCfg Nat Nat Nat
abbrev xops : ValOps (Orswot Nat Nat) (OrswotOp Nat Nat) Nat := Orswot.valOps

def a1 : NOp Nat Nat Nat := .up ⟨1, 1⟩ 10 (.add ⟨1, 1⟩ [7])
def r2 : NOp Nat Nat Nat := .rm (VClock.ofDot ⟨1, 1⟩) [10]
def a2 : NOp Nat Nat Nat := .up ⟨1, 2⟩ 10 (.add ⟨1, 2⟩ [8])

def ex0 : XCfg := Cfg.init
def ex1 : XCfg := ex0.gen xops 1 (CMap.update xops (ex0.rep 1) 10 ((ex0.rep 1).readCtx.deriveAddCtx 1) (fun _ ctx => Orswot.add 7 ctx))
def ex2 : XCfg := ex1.deliver xops 2 a1
def ex3 : XCfg := ex2.gen xops 2 (CMap.rm 10 ((ex2.rep 2).get 10).deriveRmCtx)
def ex4 : XCfg := ex3.gen xops 1 (CMap.update xops (ex3.rep 1) 10 ((ex3.rep 1).readCtx.deriveAddCtx 1) (fun _ ctx => Orswot.add 8 ctx))
def ex5 : XCfg := ex4.deliver xops 1 r2

theorem ex1_log : ex1.log = [a1] := rfl
theorem ex4_log : ex4.log = [a2, r2, a1] := rfl
theorem ex4_know1 : ex4.know 1 = [a2, a1] := rfl

theorem ex_runC : RunC ex5 := by
  have r1 : RunC ex1 := .step .init (.update ex0 1 10 _ (.add 7))
  have r2' : RunC ex2 := by
    refine .step r1 (.deliver ex1 2 a1 ?_ ?_ trivial)
    · rw [ex1_log]; exact List.mem_cons_self
    · intro d' ms' hu ha hlt
      rw [ex1_log] at hu
      simp only [keyLog, a1, keyOp, List.map_cons, List.map_nil, List.mem_cons, OrswotOp.add.injEq, List.mem_nil_iff,
        or_false] at hu
      rw [hu.1] at hlt; exact absurd hlt (Nat.lt_irrefl _)
  have r3 : RunC ex3 := .step r2' (.rmKey ex2 2 10)
  have r4 : RunC ex4 := .step r3 (.update ex3 1 10 _ (.add 8))
  refine .step r4 (.deliver ex4 1 r2 ?_ trivial ?_)
  · rw [ex4_log]; simp
  · rw [ex4_know1]
    exact C05.NestedOrswotExample.ctx_ofDot _ (by decide)

/-- what the two replicas read at the end -/
example : ((ex5.rep 1).get 10).val.map (fun v => v.read.val) = some [8] ∧ ((ex5.rep 2).get 10).val.isSome = false := by decide
/-- the hypothesis-free theorems apply to it -/
example : ¬ ∃ v, ((ex5.rep 1).get 10).val = some v ∧ 7 ∈ v.read.val := by
  rw [runC_nested_member_iff ex_runC 1 10 7]
  rintro ⟨d, d', ms, hin, hm, _, hk⟩
  have e : ex5.know 1 = [r2, a2, a1] := rfl
  rw [e] at hin hk
  have hr := hk (VClock.ofDot ⟨1, 1⟩) [10] (by simp [r2]) (by simp)
  simp only [a1, a2, r2, List.mem_cons, List.mem_nil_iff, or_false, MapOp.up.injEq, OrswotOp.add.injEq, reduceCtorEq,
    false_or] at hin
  rcases hin with ⟨rfl, _, _, rfl⟩ | ⟨rfl, _, _, rfl⟩
  · simp at hm
  · revert hr; decide
example : NLogWF ex5.log := run_nlogWF (runC_toRun ex_runC)
end example_

end Crdt.SysMap
