import CrdtModel.Proofs.Identifier
/-!
# C14 — Identifiers form a strict total order that is dense and unique per insert

Property theorems only (helpers: `Model/Identifier.lean` for the order laws that the `LinOrd` instance needs,
`Proofs/Identifier.lean` for the density induction).  All statements quantify over ALL identifiers (any depth, any
rationals, any lawfully ordered marker type).  `a < b` on identifiers is *by definition* `cmp a b = .lt`
(`lt_iff_cmp`), `cmp` being the model of `Ord for Identifier` (src/identifier.rs:38-53).

Findings recorded here:
* the EMPTY identifier is the greatest element (`empty_greatest`), so `lo < hi` already implies `lo ≠ []`
  (`lt_low_nonempty`): the two-sided density theorem needs NO non-emptiness hypothesis;
* one-sided: `between (some lo) none m > lo` needs `lo ≠ []` and is FALSE for the empty identifier
  (`between_after_empty`, witness `after_empty_witness`); `between none (some hi) m < hi` holds for every `hi`;
* `between (some a) (some a) m = a`: with equal bounds the marker is NOT attached (`between_self`), so the
  "last marker is `m`" / non-emptiness claims hold exactly when the two bounds are not the same identifier.
-/
namespace Crdt.C14
open Crdt LinOrd Identifier
variable {τ : Type} [LinOrd τ]

/-! ## total order consistent with equality -/

theorem lt_iff_cmp {a b : Identifier τ} : a < b ↔ cmp a b = .lt := Iff.rfl

/-- comparison says `Equal` exactly for equal identifiers (consistency of `Ord` with the derived `Eq`) -/
theorem cmp_eq_iff (a b : Identifier τ) : cmp a b = .eq ↔ a = b := Identifier.cmp_eq_iff

theorem cmp_refl (a : Identifier τ) : cmp a a = .eq := (cmp_eq_iff a a).mpr rfl

/-- antisymmetry: `a > b` iff `b < a` -/
theorem cmp_gt_iff_lt_swap (a b : Identifier τ) : cmp a b = .gt ↔ cmp b a = .lt := cmpPath_swap _ _

/-- antisymmetry, all three outcomes: swapping the arguments swaps the outcome -/
theorem cmp_swap (a b : Identifier τ) : cmp b a = (cmp a b).swap := by
  have h1 := cmp_gt_iff_lt_swap a b
  have h2 := cmp_gt_iff_lt_swap b a
  have h3 := cmp_eq_iff a b
  have h4 := cmp_eq_iff b a
  cases hab : cmp a b <;> cases hba : cmp b a <;> simp_all [Ordering.swap]

theorem lt_irrefl (a : Identifier τ) : ¬ a < a := LinOrd.lt_irrefl a
theorem lt_asymm {a b : Identifier τ} : a < b → ¬ b < a := LinOrd.lt_asymm
theorem lt_trans {a b c : Identifier τ} : a < b → b < c → a < c := LinOrd.lt_trans
/-- totality (trichotomy) -/
theorem lt_total (a b : Identifier τ) : a < b ∨ a = b ∨ b < a := LinOrd.lt_tri a b

/-- transitivity stated on `cmp` for every outcome (the crate's `prop_id_ord_is_transitive`) -/
theorem cmp_trans {a b c : Identifier τ} {o : Ordering} (h1 : cmp a b = o) (h2 : cmp b c = o) : cmp a c = o := by
  cases o
  · exact lt_trans (a := a) (b := b) (c := c) h1 h2
  · have e1 := (cmp_eq_iff a b).mp h1; have e2 := (cmp_eq_iff b c).mp h2
    subst e1; subst e2; exact cmp_refl a
  · rw [cmp_gt_iff_lt_swap] at *
    exact lt_trans (a := c) (b := b) (c := a) h2 h1

/-- equal identifiers compare alike against anything (second half of `prop_id_ord_is_transitive`) -/
theorem cmp_congr {a b : Identifier τ} (h : cmp a b = .eq) (c : Identifier τ) : cmp a c = cmp b c := by
  have := (cmp_eq_iff a b).mp h; subst this; rfl

/-- what the order MEANS: `a < b` iff at the first position where the paths differ `a` still has a node `x` and either
`b` has ended there, or `b` has a node `y` there with `x < y` on (rational, marker) lexicographically -/
theorem lt_iff_first_difference (a b : Identifier τ) :
    a < b ↔ ∃ c x s, a.path = c ++ x :: s ∧
      (b.path = c ∨ ∃ y t, b.path = c ++ y :: t ∧ (x.1 < y.1 ∨ (x.1 = y.1 ∧ x.2 < y.2))) :=
  cmpPath_lt_iff a.path b.path

/-- a proper prefix is GREATER than its extensions (src/identifier.rs:48 `(None, Some(_)) => Greater`) -/
theorem prefix_greater (p q : List (Rat × τ)) (hq : q ≠ []) : (⟨p ++ q⟩ : Identifier τ) < ⟨p⟩ := by
  induction p with
  | nil => cases q with
    | nil => exact absurd rfl hq
    | cons a t => show cmpPath (a :: t) [] = .lt; simp [cmpPath]
  | cons a t ih => exact cmpPath_cons_lt.mpr (Or.inr ⟨rfl, ih⟩)

/-- the empty identifier is the greatest element -/
theorem empty_greatest (a : Identifier τ) (h : a.path ≠ []) : a < ⟨[]⟩ := prefix_greater [] a.path h

/-- …hence anything that is below something is non-empty: `lo ≠ []` is not an extra hypothesis of density -/
theorem lt_low_nonempty {lo hi : Identifier τ} (h : lo < hi) : lo.path ≠ [] := by
  intro e; have h' : cmpPath lo.path hi.path = .lt := h
  rw [e] at h'; exact cmpPath_nil_ne_lt _ h'

/-! ## density -/

/-- **dense**: for `low < high` and any marker, `low < between(low, high, m) < high` -/
theorem between_strict {lo hi : Identifier τ} (h : lo < hi) (m : τ) :
    lo < between (some lo) (some hi) m ∧ between (some lo) (some hi) m < hi := Identifier.between_strict h m

/-- argument order is irrelevant -/
theorem between_comm (a b : Identifier τ) (m : τ) :
    between (some a) (some b) m = between (some b) (some a) m := by
  rcases lt_total a b with h | h | h
  · rw [between_of_lt h, between_of_gt h]
  · subst h; rfl
  · rw [between_of_gt h, between_of_lt h]

/-- the module-level claim of src/identifier.rs:6-7: for `a ≠ b` the result is strictly between, whichever way round -/
theorem between_strict_of_ne {a b : Identifier τ} (h : a ≠ b) (m : τ) :
    (a < between (some a) (some b) m ∧ between (some a) (some b) m < b) ∨
    (b < between (some a) (some b) m ∧ between (some a) (some b) m < a) := by
  rcases lt_total a b with l | e | g
  · exact Or.inl (between_strict l m)
  · exact absurd e h
  · right; rw [between_comm]; exact between_strict g m

/-- equal bounds: the bound itself is returned, the marker is dropped (src/identifier.rs:79 `Equal => high.clone()`) -/
theorem between_self (a : Identifier τ) (m : τ) : between (some a) (some a) m = a := Identifier.between_self a m

/-- only a lower bound: strictly above it, PROVIDED the bound is not the empty identifier -/
theorem between_after {lo : Identifier τ} (h : lo.path ≠ []) (m : τ) : lo < between (some lo) none m := Identifier.between_after h m

/-- only a lower bound which is the empty identifier: the result `[(0,m)]` is BELOW the bound -/
theorem between_after_empty (m : τ) :
    between (some (⟨[]⟩ : Identifier τ)) none m = ⟨[(0, m)]⟩ ∧ between (some (⟨[]⟩ : Identifier τ)) none m < ⟨[]⟩ := by
  refine ⟨rfl, ?_⟩
  show cmpPath [((0 : Rat), m)] [] = .lt
  simp [cmpPath]

/-- only an upper bound: strictly below it (every `hi`, the empty identifier included) -/
theorem between_before (hi : Identifier τ) (m : τ) : between none (some hi) m < hi := Identifier.between_before hi m

theorem between_none_none (m : τ) : between (none : Option (Identifier τ)) none m = ⟨[(0, m)]⟩ := rfl

/-! ## the result carries the marker (unique per insert) -/

/-- unless both bounds are the same identifier, the last marker of the result is `m` … -/
theorem between_value (low high : Option (Identifier τ)) (m : τ)
    (hne : ∀ a, ¬ (low = some a ∧ high = some a)) : (between low high m).value = some m := Identifier.between_value low high m hne

/-- … and the result is non-empty (`value` does not panic on it) -/
theorem between_nonempty (low high : Option (Identifier τ)) (m : τ)
    (hne : ∀ a, ¬ (low = some a ∧ high = some a)) : (between low high m).path ≠ [] := by
  have := between_value low high m hne
  exact value_isSome_iff.mp (by rw [this]; rfl)

/-- identifiers tagged with distinct markers never collide -/
theorem between_distinct_markers (low high low' high' : Option (Identifier τ)) {m m' : τ} (hm : m ≠ m')
    (hne : ∀ a, ¬ (low = some a ∧ high = some a)) (hne' : ∀ a, ¬ (low' = some a ∧ high' = some a)) :
    between low high m ≠ between low' high' m' := by
  intro e
  have h1 := between_value low high m hne
  have h2 := between_value low' high' m' hne'
  rw [e, h2] at h1
  exact hm (Option.some.inj h1).symm

/-! ## non-vacuity / witnesses (tests, not theorems) -/

/-- the crate's own regression `test_id_is_dense_qc1`: `[0:0,0:0] < [0:0]`, and the midpoint is between -/
example : let a : Identifier Nat := ⟨[(0, 0), (0, 0)]⟩; let b : Identifier Nat := ⟨[(0, 0)]⟩
    a < b ∧ between (some a) (some b) 0 = ⟨[(0, 0), (1, 0)]⟩ := by decide +kernel

/-- diverged markers: the low path is cleared and the path grows below the high sibling -/
example : between (some (⟨[(0, 1), (5, 7)]⟩ : Identifier Nat)) (some ⟨[(0, 2), (3, 3)]⟩) 9 = ⟨[(0, 2), (2, 9)]⟩ := by decide +kernel

/-- WITNESS that `lo ≠ []` is needed for the one-sided lower bound: `between(Some([]), None, 5) = [0:5] < []` -/
theorem after_empty_witness :
    between (some (⟨[]⟩ : Identifier Nat)) none 5 = ⟨[(0, 5)]⟩ ∧ ¬ ((⟨[]⟩ : Identifier Nat) < between (some ⟨[]⟩) none 5) := by
  decide

/-- equal bounds drop the marker: `between(Some([1:1]), Some([1:1]), 9) = [1:1]` -/
example : (between (some (⟨[(1, 1)]⟩ : Identifier Nat)) (some ⟨[(1, 1)]⟩) 9).value = some 1 := by decide

end Crdt.C14
