import CrdtModel.Proofs.Lattice
/-!
# C11 — counters, LWW/Max/Min registers and GSet compute their exact aggregate

Hypotheses everywhere: `Reach U s K` – `s` is the state of *any* replica (or snapshot) of *any* history over the
op universe `U`: any delivery order (no discipline at all: `Ok := True`), duplicates, merges of live or stale
states; `K` is the list of ops it has learned.  Conclusions are exact values as functions of `K`.
-/
namespace Crdt.C11
open Crdt LinOrd RepSys

section counters
variable {α : Type} [LinOrd α] {U : List (Dot α)}

/-- GCounter: per actor, the state holds the largest running total learned from that actor … -/
theorem gcounter_entry {s : GCounter α} {K : List (Dot α)} (h : gcounterSys.Reach U s K) (a : α) :
    s.inner.get a = listMax (ctrOf a) K :=
  (reach_rep (R := gcounterSys) trivial h).2.2 a

/-- … and `read` is the sum of these over the actors present (exactly the actors with a non-zero total) -/
theorem gcounter_read {s : GCounter α} {K : List (Dot α)} (h : gcounterSys.Reach U s K) :
    s.read = ((s.inner.dots.l.map (·.1)).map (fun a => listMax (ctrOf a) K)).sum := by
  have rep := (reach_rep (R := gcounterSys) trivial h).2
  rw [GCounter.read_eq]
  have key : ∀ (l : List (α × Nat)), (∀ p ∈ l, p.2 = listMax (ctrOf p.1) K) →
      AL.sumVals l = ((l.map (·.1)).map (fun a => listMax (ctrOf a) K)).sum := by
    intro l
    induction l with
    | nil => intro _; rfl
    | cons hd t ih =>
      intro hp
      obtain ⟨k, v⟩ := hd
      simp only [AL.sumVals, List.map_cons, List.sum_cons]
      rw [ih (fun p hp' => hp p (List.mem_cons_of_mem _ hp'))]
      have := hp (k, v) (by simp)
      simp only at this
      omega
  apply key
  intro p hp
  have hg : s.inner.dots.get? p.1 = some p.2 := AL.get?_of_mem s.inner.dots.sorted hp
  have := rep.2 p.1
  simp only [VClock.get, hg, Option.getD_some] at this
  exact this

theorem gcounter_actor_present {s : GCounter α} {K : List (Dot α)} (h : gcounterSys.Reach U s K) (a : α) :
    (s.inner.dots.get? a).isSome = true ↔ 0 < listMax (ctrOf a) K := by
  have rep := (reach_rep (R := gcounterSys) trivial h).2
  have := rep.2 a
  have nz := rep.1 a
  simp only [VClock.get] at this
  cases hg : s.inner.dots.get? a with
  | none => simp [hg] at this; simp [← this]
  | some n =>
    simp [hg] at this nz
    simp only [Option.isSome_some, true_iff, ← this]
    omega

/-- never decreasing, whatever arrives -/
theorem gcounter_monotone (s : GCounter α) (d : Dot α) : s.read ≤ (s.apply d).read := GCounter.read_le_apply s d

/-- generation: `inc` / `inc_many(a, k)` carry `a`'s running total plus the step, so applying them at the origin
adds exactly `1` / `k` – no increment is lost or counted twice -/
theorem gcounter_inc_many (s : GCounter α) (a : α) (k : Nat) : (s.incMany a k).counter = s.inner.get a + k := by
  simp [GCounter.incMany, Nat.add_comm]
theorem gcounter_inc (s : GCounter α) (a : α) : (s.inc a).counter = s.inner.get a + 1 := rfl
theorem gcounter_apply_inc_many (s : GCounter α) (a : α) (k : Nat) (hk : 0 < k) :
    (s.apply (s.incMany a k)).read = s.read + k := by
  have h : s.inner.get (s.incMany a k).actor < (s.incMany a k).counter := by
    simp only [GCounter.incMany]; omega
  rw [GCounter.read_apply_new s _ h]; simp only [GCounter.incMany]; omega

/-- any two replicas/snapshots that learned the same increments read the same value -/
theorem gcounter_converge {s s' : GCounter α} {K K' : List (Dot α)} (h : gcounterSys.Reach U s K)
    (h' : gcounterSys.Reach U s' K') (e : ∀ o, o ∈ K ↔ o ∈ K') : s.read = s'.read := by
  rw [converge (R := gcounterSys) trivial h h' e]

variable {V : List (PNOp α)}

/-- PNCounter: increments total minus decrements total, each the per-actor maximum learned -/
theorem pncounter_entries {s : PNCounter α} {K : List (PNOp α)} (h : pncounterSys.Reach V s K) (a : α) :
    s.p.inner.get a = listMax (dirCtr .pos a) K ∧ s.n.inner.get a = listMax (dirCtr .neg a) K :=
  let r := (reach_rep (R := pncounterSys) trivial h).2
  ⟨r.1.2 a, r.2.2 a⟩

theorem pncounter_read (s : PNCounter α) : s.read = (s.p.read : Int) - (s.n.read : Int) := rfl

theorem pncounter_converge {s s' : PNCounter α} {K K' : List (PNOp α)} (h : pncounterSys.Reach V s K)
    (h' : pncounterSys.Reach V s' K') (e : ∀ o, o ∈ K ↔ o ∈ K') : s.read = s'.read := by
  rw [converge (R := pncounterSys) trivial h h' e]

theorem pncounter_apply_inc_many (s : PNCounter α) (a : α) (k : Nat) (hk : 0 < k) :
    (s.apply (s.incMany a k)).read = s.read + k := by
  have := gcounter_apply_inc_many s.p a k hk
  show (((s.p.apply (s.p.incMany a k)).read : Nat) : Int) - (s.n.read : Int) = (s.p.read : Int) - (s.n.read : Int) + k
  rw [this]; omega

theorem pncounter_apply_dec_many (s : PNCounter α) (a : α) (k : Nat) (hk : 0 < k) :
    (s.apply (s.decMany a k)).read = s.read - k := by
  have := gcounter_apply_inc_many s.n a k hk
  show (s.p.read : Int) - (((s.n.apply (s.n.incMany a k)).read : Nat) : Int) = (s.p.read : Int) - (s.n.read : Int) - k
  rw [this]; omega

end counters

section registers
variable {ν : Type} [LinOrd ν]

/-- MaxReg reads the largest of the initial value and every applied value -/
theorem maxreg_read (v0 : ν) {U K : List ν} {s : MaxReg ν} (h : (maxregSys v0).Reach U s K) :
    (s.read = v0 ∨ s.read ∈ K) ∧ ¬ s.read < v0 ∧ ∀ w ∈ K, ¬ s.read < w :=
  (reach_rep (R := maxregSys v0) trivial h).2

/-- MinReg reads the smallest -/
theorem minreg_read (v0 : ν) {U K : List ν} {s : MinReg ν} (h : (minregSys v0).Reach U s K) :
    (s.read = v0 ∨ s.read ∈ K) ∧ ¬ v0 < s.read ∧ ∀ w ∈ K, ¬ w < s.read :=
  (reach_rep (R := minregSys v0) trivial h).2

variable {τ μ : Type} [DecidableEq τ] [LinOrd μ]

/-- LWWReg holds the write with the greatest marker (markers unique per write) -/
theorem lwwreg_read (r0 : LWWReg τ μ) {U K : List (LWWReg τ μ)} {s : LWWReg τ μ} (wf : UniqueMarkers r0 U)
    (h : (lwwSys r0).Reach U s K) :
    (s = r0 ∨ s ∈ K) ∧ ¬ s.marker < r0.marker ∧ ∀ o ∈ K, ¬ s.marker < o.marker :=
  (reach_rep (R := lwwSys r0) wf h).2

theorem lwwreg_converge (r0 : LWWReg τ μ) {U K K' : List (LWWReg τ μ)} {s s' : LWWReg τ μ} (wf : UniqueMarkers r0 U)
    (h : (lwwSys r0).Reach U s K) (h' : (lwwSys r0).Reach U s' K') (e : ∀ o, o ∈ K ↔ o ∈ K') : s = s' :=
  converge (R := lwwSys r0) wf h h' e

/-- an equal marker with a different value is flagged as a conflict, and nothing else is -/
theorem lwwreg_conflict_iff (s : LWWReg τ μ) (val : τ) (marker : μ) :
    s.validateUpdate val marker = .error .conflictingMarker ↔ (s.marker = marker ∧ val ≠ s.val) := by
  unfold LWWReg.validateUpdate; split <;> simp_all

end registers

section gset
variable {τ : Type} [LinOrd τ]

/-- GSet reads the union of the inserted elements -/
theorem gset_read {U K : List τ} {s : GSet τ} (h : gsetSys.Reach U s K) (x : τ) : s.contains x = true ↔ x ∈ K :=
  (reach_rep (R := gsetSys) trivial h).2 x

theorem gset_read_list {U K : List τ} {s : GSet τ} (h : gsetSys.Reach U s K) (x : τ) : x ∈ s.read ↔ x ∈ K := by
  rw [← gset_read h x]
  simp only [GSet.read, GSet.contains, FMap.contains, FMap.get?, List.mem_map]
  constructor
  · rintro ⟨p, hp, e⟩
    have := AL.get?_of_mem s.value.sorted (x := p.1) (v := p.2) hp
    subst e; simp [this]
  · intro hx
    cases hg : AL.get? s.value.l x with
    | none => simp [hg] at hx
    | some u => exact ⟨(x, u), AL.mem_of_get? hg, rfl⟩

end gset

/-! ## non-vacuity -/
section examples
open RepSys
def exU : List (Dot Nat) := [⟨1, 2⟩, ⟨2, 5⟩, ⟨1, 3⟩]
/-- a replica that got actor 1's second op twice and merged a peer that only saw actor 2 -/
example : ∃ s K, (gcounterSys (α := Nat)).Reach exU s K ∧ s.read = 8 := by
  refine ⟨_, _, Reach.merge (Reach.apply (Reach.apply (Reach.apply Reach.init (op := ⟨1, 3⟩) (by simp [exU]) trivial)
      (op := ⟨1, 2⟩) (by simp [exU]) trivial) (op := ⟨1, 3⟩) (by simp [exU]) trivial)
      (Reach.apply Reach.init (op := ⟨2, 5⟩) (by simp [exU]) trivial), ?_⟩
  decide
end examples

end Crdt.C11
