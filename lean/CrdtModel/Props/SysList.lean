import CrdtModel.Proofs.SysList
set_option linter.unusedSectionVars false
/-!
# List theorems for every execution of the system – NO well-formedness hypothesis

`Run c` : `c` is a configuration of a system in which every op was produced by the API (`insert_index`, `append`,
`delete_index`) from the issuing replica's current state with the replica's own actor id and applied there at once
(`Spec/SysList.lean`), and delivered under the `List` discipline (`ListSpec.Ok`: each actor's ops in issue order, a delete
after the insert it targets; duplicates allowed).  Every causal delivery schedule is such a run (`runC_run`).
`c.rep i` is the state of actor `i`'s replica, `c.know i` the list of ops it has generated / been delivered, `c.log` all ops
generated so far.  `Steps c c'` : `c'` is reached from `c` by finitely many steps (a later point in time of the same run).

`run_logWF`, `run_reach`, `run_own_known`, `run_contig`, `run_fresh_dot` are the invariant; the rest feeds it into the
theorems of C12 / C13, whose hypotheses `LogWF U` and `listSys.Reach U s K` thereby disappear.
-/
namespace Crdt.SysList
open Crdt LinOrd OpRepSys ListSpec ListCrdt Crdt.Sys
variable {τ A : Type} [LinOrd A] {c c' : Cfg τ A}

/-! ## the invariant -/

/-- (a) the log of every run is well-formed: every op carries a dot with a positive counter (for an insert the dot is the
last marker of its identifier, so the identifier is non-empty), and no two ops carry the same dot -/
theorem run_logWF (r : Run c) : LogWF c.log := (sysInv_run r).wf

/-- (b) every replica state of every run is `Reach`-derivable over the run's log, with the replica's knowledge -/
theorem run_reach (r : Run c) (i : A) : listSys.Reach c.log (c.rep i) (c.know i) := (sysInv_run r).reach i

/-- (b) … and stays derivable over the log of any later configuration -/
theorem run_reach_later (r : Run c) (st : Steps c c') (i : A) : listSys.Reach c'.log (c.rep i) (c.know i) :=
  steps_reach_mono (sysInv_run r) st (run_reach r i)

/-- (c) an actor's replica knows all of that actor's ops -/
theorem run_own_known (r : Run c) (i : A) {o : ListOp τ A} (h : o ∈ c.log) {d : Dot A} (hd : o.dot = some d)
    (ha : d.actor = i) : o ∈ c.know i := (sysInv_run r).own i o h d hd ha

/-- what a replica knows was generated in this run -/
theorem run_know_sub_log (r : Run c) (i : A) : ∀ o ∈ c.know i, o ∈ c.log := (sysInv_run r).know_sub i

/-- the knowledge of a replica is closed under the discipline (per-actor predecessors, delete targets) -/
theorem run_know_closed (r : Run c) (i : A) : ∀ o ∈ c.know i, Ok c.log (c.know i) o := ((sysInv_run r).kinv i).closed

/-- every op of the log carries a dot with a positive counter -/
theorem run_dot_pos (r : Run c) {o : ListOp τ A} (h : o ∈ c.log) : ∃ d, o.dot = some d ∧ 0 < d.counter :=
  (run_logWF r).dot_pos o h

/-- a dot names one op, in every run -/
theorem run_dot_unique (r : Run c) {o o' : ListOp τ A} (h : o ∈ c.log) (h' : o' ∈ c.log) (e : o.dot = o'.dot) : o = o' :=
  (run_logWF r).dot_unique o h o' h' e

/-- (d) per actor, the dot counters of the log are exactly `1 .. clk (c.know i) i` -/
theorem run_contig (r : Run c) (i : A) (n : Nat) :
    (∃ o ∈ c.log, o.dot = some ⟨i, n⟩) ↔ (0 < n ∧ n ≤ clk (c.know i) i) := by
  have inv := sysInv_run r
  constructor
  · rintro ⟨o, ho, hd⟩
    obtain ⟨d, hd', hp⟩ := inv.wf.dot_pos o ho
    rw [hd] at hd'; cases hd'
    exact ⟨hp, le_clk (inv.own i o ho _ hd rfl) hd⟩
  · rintro ⟨hn, hle⟩
    obtain ⟨o2, ho2, d2, hd2, ha2, hc2⟩ := clk_attained (K := c.know i) (a := i) (by omega)
    obtain ⟨o', ho', hd'⟩ := inv.contig o2 (inv.know_sub i _ ho2) d2 hd2 n hn (by omega)
    exact ⟨o', ho', by rw [hd', ha2]⟩

/-- (d) … and that bound is the replica clock of `i` read at `i` -/
theorem run_own_clock (r : Run c) (i : A) : (c.rep i).clock.get i = clk c.log i := by
  have inv := sysInv_run r
  rw [(inv.rep i).clock i, inv.clk_know_eq_log i]

/-- **fresh dots**: the dot the API derives at `i` is `i`'s next one, and NO op of the log carries it -/
theorem run_fresh_dot (r : Run c) (i : A) :
    (c.rep i).clock.inc i = ⟨i, clk c.log i + 1⟩ ∧ ∀ o ∈ c.log, o.dot ≠ some ((c.rep i).clock.inc i) := by
  have inv := sysInv_run r
  have hd := inv.derived_dot i
  refine ⟨by rw [hd, inv.clk_know_eq_log i], fun o ho e => ?_⟩
  rw [hd] at e
  have := inv.derived_above i o ho _ e rfl
  exact Nat.lt_irrefl _ this

/-- **identifiers of the inserts of a run**: non-empty, ending in the op's dot (a positive counter), and unique – an
identifier (even just its last marker) names one insert of the whole run -/
theorem run_insert_id (r : Run c) {id : Identifier (OrdDot A)} {v : τ} (h : ListOp.insert id v ∈ c.log) :
    id.path ≠ [] ∧
    (∃ d : Dot A, id.value = some (OrdDot.ofDot d) ∧ (ListOp.insert id v : ListOp τ A).dot = some d ∧ 0 < d.counter) ∧
    (∀ id' v', ListOp.insert id' v' ∈ c.log → id'.value = id.value → id' = id ∧ v' = v) := by
  have wf := run_logWF r
  refine ⟨insert_id_nonempty wf h, ?_, fun id' v' h' e => ?_⟩
  · obtain ⟨d, hd, hp⟩ := wf.dot_pos _ h
    refine ⟨d, ?_, hd, hp⟩
    simp only [ListOp.dot] at hd
    cases hv : id.value with
    | none => simp [hv] at hd
    | some m =>
      simp only [hv, Option.map_some, Option.some.injEq] at hd
      subst hd; rfl
  · have := wf.dot_unique _ h' _ h (by simp only [ListOp.dot, e])
    cases this; exact ⟨rfl, rfl⟩

/-- stored identifiers are never the empty one (the invariant of C13), at every replica of every run -/
theorem run_ids_nonempty (r : Run c) (i : A) : C13.IdsNonEmpty (c.rep i) := (sysInv_run r).idsNonEmpty i

/-- `apply` does not panic on any op of any run, at any state -/
theorem run_apply_defined (r : Run c) {op : ListOp τ A} (h : op ∈ c.log) (s : ListCrdt τ A) :
    s.apply? op = some (s.apply op) := C12.apply_defined (run_logWF r) h s

/-! ## hypothesis-free corollaries of C12 -/

/-- **C12 representation**: every replica state of every run IS the executable specification of what it has learned -/
theorem run_state_eq_spec (r : Run c) (i : A) : c.rep i = specState (c.know i) :=
  C12.state_eq_spec (run_logWF r) (run_reach r i)

/-- **C12 representation**, relational form: the clock is per actor the largest known counter, the sequence holds exactly
the live elements -/
theorem run_rep (r : Run c) (i : A) : ListSpec.Rep (c.know i) (c.rep i) := (sysInv_run r).rep i

/-- **`read` is the list of live inserts sorted by identifier**, at every replica of every run -/
theorem run_read_eq_sorted_live (r : Run c) (i : A) :
    (c.rep i).keys.Pairwise (· < ·) ∧
    (∀ id v, (id, v) ∈ (c.rep i).iterEntries ↔ Live (c.know i) id v) ∧
    (c.rep i).keys = (c.rep i).iterEntries.map (·.1) ∧ (c.rep i).read = (c.rep i).iterEntries.map (·.2) ∧
    (∀ l : List (Identifier (OrdDot A) × τ), l.Pairwise (fun p q => p.1 < q.1) →
      (∀ id v, (id, v) ∈ l ↔ Live (c.know i) id v) → (c.rep i).iterEntries = l ∧ (c.rep i).read = l.map (·.2)) ∧
    (c.rep i).read = (specSeq (c.know i)).l.map (·.2) :=
  C12.read_eq_sorted_live (run_logWF r) (run_reach r i)

/-- the identifiers present are exactly those of the live elements -/
theorem run_keys_eq_live (r : Run c) (i : A) (id : Identifier (OrdDot A)) :
    id ∈ (c.rep i).keys ↔ ∃ v, Live (c.know i) id v := C12.keys_eq_live (run_logWF r) (run_reach r i) id

/-- **C12 convergence**: two replicas of a run that have been delivered the same set of ops (in whatever admissible orders,
with whatever duplicates) hold the same state, hence read the same sequence -/
theorem run_same_ops_same_sequence (r : Run c) (i j : A) (e : ∀ o, o ∈ c.know i ↔ o ∈ c.know j) :
    c.rep i = c.rep j ∧ (c.rep i).read = (c.rep j).read ∧ (c.rep i).iterEntries = (c.rep j).iterEntries :=
  C12.same_ops_same_sequence (run_logWF r) (run_reach r i) (run_reach r j) e

/-- the same across TIME: a replica at some point of a run and a replica (the same or another) any number of steps later -/
theorem run_same_ops_same_sequence_later (r : Run c) (st : Steps c c') (i j : A)
    (e : ∀ o, o ∈ c.know i ↔ o ∈ c'.know j) :
    c.rep i = c'.rep j ∧ (c.rep i).read = (c'.rep j).read ∧ (c.rep i).iterEntries = (c'.rep j).iterEntries :=
  C12.same_ops_same_sequence (run_logWF (run_steps r st)) (run_reach_later r st i) (run_reach (run_steps r st) j) e

/-- **C12 one global order**: there is ONE strict total order on identifiers (it is `Ord for Identifier`, C14) such that
the sequence of every replica of every run – any element type, any number of steps – is the restriction of that order to
the elements live at that replica -/
theorem run_global_order : ∃ lt : Identifier (OrdDot A) → Identifier (OrdDot A) → Prop,
    (∀ a, ¬ lt a a) ∧ (∀ a b c, lt a b → lt b c → lt a c) ∧ (∀ a b, lt a b ∨ a = b ∨ lt b a) ∧
    (∀ a b, lt a b ↔ Identifier.cmp a b = .lt) ∧
    ∀ (τ : Type) (c : Cfg τ A), Run c → ∀ i,
      (c.rep i).keys.Pairwise lt ∧ ∀ id, id ∈ (c.rep i).keys ↔ ∃ v, Live (c.know i) id v := by
  obtain ⟨lt, h1, h2, h3, h4, h5⟩ := C12.global_order (A := A)
  exact ⟨lt, h1, h2, h3, h4, fun τ c r i => h5 τ c.log (c.know i) (c.rep i) (run_logWF r) (run_reach r i)⟩

/-- the value read at the position of a stored identifier is the value of THE insert op carrying that identifier -/
theorem run_position_value (r : Run c) (i : A) {id : Identifier (OrdDot A)} {p : Nat}
    (h : (c.rep i).positionEntry id = some p) : ∃ v, (c.rep i).position p = some v ∧ ListOp.insert id v ∈ c.know i :=
  C12.position_value (run_logWF r) (run_reach r i) h

/-- **C12 relative order never changes**: two elements (identifiers) that are both present at replica `i` now and at
replica `j` any number of steps later appear in the same relative order in both, and each shows the same value in both -/
theorem run_relative_order_stable_later (r : Run c) (st : Steps c c') (i j : A)
    {id₁ id₂ : Identifier (OrdDot A)} {p q p' q' : Nat}
    (p1 : (c.rep i).positionEntry id₁ = some p) (p2 : (c.rep i).positionEntry id₂ = some q)
    (q1 : (c'.rep j).positionEntry id₁ = some p') (q2 : (c'.rep j).positionEntry id₂ = some q') :
    (p < q ↔ p' < q') ∧ (c.rep i).position p = (c'.rep j).position p' ∧ (c.rep i).position q = (c'.rep j).position q' :=
  C12.relative_order_stable (run_logWF (run_steps r st)) (run_reach_later r st i) (run_reach (run_steps r st) j)
    p1 p2 q1 q2

/-- … in particular for two replicas at the same time -/
theorem run_relative_order_stable (r : Run c) (i j : A) {id₁ id₂ : Identifier (OrdDot A)} {p q p' q' : Nat}
    (p1 : (c.rep i).positionEntry id₁ = some p) (p2 : (c.rep i).positionEntry id₂ = some q)
    (q1 : (c.rep j).positionEntry id₁ = some p') (q2 : (c.rep j).positionEntry id₂ = some q') :
    (p < q ↔ p' < q') ∧ (c.rep i).position p = (c.rep j).position p' ∧ (c.rep i).position q = (c.rep j).position q' :=
  run_relative_order_stable_later r (Steps.refl c) i j p1 p2 q1 q2

/-- **C12 each element appears at most once**: no identifier is stored twice at a replica, an identifier sits at one
position only, and distinct inserts of the run carry distinct identifiers -/
theorem run_no_duplicates (r : Run c) (i : A) :
    (c.rep i).keys.Nodup ∧ (c.rep i).iterEntries.Nodup ∧
    (∀ (p q : Nat) id, (c.rep i).keys[p]? = some id → (c.rep i).keys[q]? = some id → p = q) ∧
    (∀ id v id' v', ListOp.insert id v ∈ c.log → ListOp.insert id' v' ∈ c.log →
      (ListOp.insert id v : ListOp τ A) ≠ .insert id' v' → id ≠ id') :=
  C12.no_duplicates (run_logWF r) (c.rep i)

/-- every stored entry is one insert op of the run, determined by its identifier -/
theorem run_entry_is_unique_insert (r : Run c) (i : A) {id : Identifier (OrdDot A)} {v : τ}
    (hm : (id, v) ∈ (c.rep i).iterEntries) : ListOp.insert id v ∈ c.log ∧ ∀ v', ListOp.insert id v' ∈ c.log → v' = v :=
  C12.entry_is_unique_insert (run_logWF r) (run_reach r i) hm

/-- **C12 re-delivery of a known op is a no-op** -/
theorem run_duplicate_absorbed (r : Run c) (i : A) {op : ListOp τ A} (hk : op ∈ c.know i) :
    (c.rep i).apply op = c.rep i := C12.duplicate_absorbed (run_logWF r) (run_reach r i) hk

/-- … as a step of the system: re-delivering a known op is always admissible and changes no replica -/
theorem run_redeliver (r : Run c) (i : A) {op : ListOp τ A} (hk : op ∈ c.know i) :
    Step c (c.deliver i op) ∧ ∀ j, (c.deliver i op).rep j = c.rep j := by
  refine ⟨Step.deliver c i op (run_know_sub_log r i op hk) (run_know_closed r i op hk), fun j => ?_⟩
  by_cases e : j = i
  · subst e; rw [Cfg.deliver_rep_same]; exact run_duplicate_absorbed r j hk
  · exact Cfg.deliver_rep_other c op e

/-- … because the dot gate decides membership: an op of the run is gated at a replica iff the replica knows it -/
theorem run_gated_iff_known (r : Run c) (i : A) {op : ListOp τ A} (hu : op ∈ c.log) {d : Dot A} (hd : op.dot = some d) :
    d.counter ≤ (c.rep i).clock.get d.actor ↔ op ∈ c.know i :=
  C12.gated_iff_known (run_logWF r) (run_reach r i) hu hd

/-- **every causal delivery is admissible**: in a run of the causal system, an op recorded with dependencies `D`
(everything its author knew) may be delivered – by a `Step` of the system – to every replica that knows all of `D` -/
theorem runC_causal_ok {cc : CfgC τ A} (r : RunC cc) {i : A} {op : ListOp τ A} {D : List (ListOp τ A)}
    (hp : (op, D) ∈ cc.deps) (causal : ∀ o ∈ D, o ∈ cc.cfg.know i) :
    Run cc.cfg ∧ op ∈ cc.cfg.log ∧ Ok cc.cfg.log (cc.cfg.know i) op :=
  ⟨(runC_run r).1, (runC_run r).2.mem _ hp, depsInv_ok (runC_run r).2 hp causal⟩

/-! ## hypothesis-free corollaries of C13: local edits land where requested, at any replica of any run -/

/-- **C13 insert lands at the requested index**: at any replica `i` of any run, `insert_index(ix, v, i)` followed by
`apply` is a step of the system, does not panic, and puts `v` at index `min ix len` of the read – all other entries are
untouched and keep their order; the new identifier is non-empty, was absent, and is carried by NO insert of the run so far
(delivered at `i` or not); the other replicas are unchanged -/
theorem run_insert_lands_at_index (r : Run c) (i : A) (ix : Nat) (v : τ) :
    let op := (c.rep i).insertIndex ix v i
    let c₁ := c.gen i op
    Run c₁ ∧
    (c.rep i).apply? op = some (c₁.rep i) ∧
    (c₁.rep i).read = (c.rep i).read.insertIdx (min ix (c.rep i).len) v ∧
    (∃ n, op = .insert n v ∧ n.path ≠ [] ∧ (c.rep i).get n = none ∧ (∀ w, ListOp.insert n w ∉ c.log) ∧
      (c₁.rep i).iterEntries = (c.rep i).iterEntries.insertIdx (min ix (c.rep i).len) (n, v)) ∧
    (c₁.rep i).len = (c.rep i).len + 1 ∧
    (∀ j, j ≠ i → c₁.rep j = c.rep j) := by
  intro op c₁
  have inv := sysInv_run r
  obtain ⟨n, s', h1, h2, h3, h4, h5, h6, _, _⟩ := C13.list_insert_index (c.rep i) (inv.idsNonEmpty i) ix v i
  have hs : c₁.rep i = s' := by
    show (c.gen i op).rep i = s'
    rw [Cfg.gen_rep_same]
    show ((c.rep i).apply? op).getD _ = s'
    simp only [op, h3, Option.getD_some]
  have hn : n = op.id := by simp only [op, h1, ListOp.id]
  refine ⟨Run.step r (Step.insertIndex c i ix v), by rw [hs]; exact h3, by rw [hs]; exact h4,
    ⟨n, h1, ?_, h2, fun w hw => ?_, by rw [hs]; exact h5⟩, by rw [hs]; exact h6, fun j hj => Cfg.gen_rep_other c op hj⟩
  · rw [hn]; exact insertIndex_id_nonempty _ ix v i
  · exact gen_insert_id_unique inv i ix v n w hw hn

/-- headline form -/
theorem run_insert_lands_at_index_read (r : Run c) (i : A) (ix : Nat) (v : τ) :
    ((c.gen i ((c.rep i).insertIndex ix v i)).rep i).read = (c.rep i).read.insertIdx (min ix (c.rep i).len) v :=
  (run_insert_lands_at_index r i ix v).2.2.1

/-- **C13 append puts the element last**, at any replica of any run -/
theorem run_append_lands_last (r : Run c) (i : A) (v : τ) :
    Run (c.gen i ((c.rep i).append v i)) ∧ ((c.gen i ((c.rep i).append v i)).rep i).read = (c.rep i).read ++ [v] := by
  refine ⟨Run.step r (Step.append c i v), ?_⟩
  have h := run_insert_lands_at_index_read r i (c.rep i).len v
  have e : min (c.rep i).len (c.rep i).len = (c.rep i).read.length := by rw [← len_eq_read]; omega
  rw [e, List.insertIdx_length_self] at h
  exact h

/-- **C13 delete removes exactly the requested element**, at any replica of any run: `delete_index(ix, i)` with `ix < len`
yields an op, generating and applying it is a step of the system, and the read loses exactly position `ix` -/
theorem run_delete_removes_index (r : Run c) (i : A) {ix : Nat} (h : ix < (c.rep i).len) :
    ∃ op, (c.rep i).deleteIndex ix i = some op ∧ Run (c.gen i op) ∧
      ((c.gen i op).rep i).read = (c.rep i).read.eraseIdx ix ∧ (∀ j, j ≠ i → (c.gen i op).rep j = c.rep j) := by
  obtain ⟨op, h1, h2⟩ := C13.list_delete_index_read (c.rep i) h i
  exact ⟨op, h1, Run.step r (Step.deleteIndex c i ix op h1), by rw [Cfg.gen_rep_same]; exact h2,
    fun j hj => Cfg.gen_rep_other c op hj⟩

/-- `delete_index` out of range yields no op (no step) -/
theorem run_delete_out_of_range (i : A) {ix : Nat} (h : (c.rep i).len ≤ ix) : (c.rep i).deleteIndex ix i = none :=
  C13.list_delete_index_out_of_range (c.rep i) h i

/-! ## non-vacuity: a concrete run built with the `Step` constructors

Actors 0, 1, 2.  CONCURRENTLY 0 inserts `7` at index 0 (`opA`) and 1 inserts `8` at index 0 (`opB`); 1 receives `opA` (its
list is now `[7, 8]`) and deletes index 0 (`opD`, a delete of `7`'s identifier).  Replica 0 is delivered `opB, opD`,
replica 2 is delivered `opB, opA, opD` and then `opA` once more: orders `A,B,D` at 0, `B,A,D` at 1, `B,A,D,A` at 2. -/
section example_
def ex0 : Cfg Nat Nat := Cfg.init
def opA : ListOp Nat Nat := (ex0.rep 0).insertIndex 0 7 0
def ex1 : Cfg Nat Nat := ex0.gen 0 opA
def opB : ListOp Nat Nat := (ex1.rep 1).insertIndex 0 8 1
def ex2 : Cfg Nat Nat := ex1.gen 1 opB
def ex3 : Cfg Nat Nat := ex2.deliver 1 opA
def opD : ListOp Nat Nat := .delete ⟨[(0, (0, 1))]⟩ ⟨1, 2⟩
def ex4 : Cfg Nat Nat := ex3.gen 1 opD
def ex5 : Cfg Nat Nat := ex4.deliver 0 opB
def ex6 : Cfg Nat Nat := ex5.deliver 0 opD
def ex7 : Cfg Nat Nat := ex6.deliver 2 opB
def ex8 : Cfg Nat Nat := ex7.deliver 2 opA
def ex9 : Cfg Nat Nat := ex8.deliver 2 opD
def ex10 : Cfg Nat Nat := ex9.deliver 2 opA

theorem ex_run : Run ex10 := by
  have r1 : Run ex1 := Run.step Run.init (Step.insertIndex ex0 0 0 7)
  have r2 : Run ex2 := Run.step r1 (Step.insertIndex ex1 1 0 8)
  have r3 : Run ex3 := Run.step r2 (Step.deliver ex2 1 opA (by decide +kernel) ((okB_iff _ _ _).mp (by decide +kernel)))
  have r4 : Run ex4 := Run.step r3 (Step.deleteIndex ex3 1 0 opD (by decide +kernel))
  have r5 : Run ex5 := Run.step r4 (Step.deliver ex4 0 opB (by decide +kernel) ((okB_iff _ _ _).mp (by decide +kernel)))
  have r6 : Run ex6 := Run.step r5 (Step.deliver ex5 0 opD (by decide +kernel) ((okB_iff _ _ _).mp (by decide +kernel)))
  have r7 : Run ex7 := Run.step r6 (Step.deliver ex6 2 opB (by decide +kernel) ((okB_iff _ _ _).mp (by decide +kernel)))
  have r8 : Run ex8 := Run.step r7 (Step.deliver ex7 2 opA (by decide +kernel) ((okB_iff _ _ _).mp (by decide +kernel)))
  have r9 : Run ex9 := Run.step r8 (Step.deliver ex8 2 opD (by decide +kernel) ((okB_iff _ _ _).mp (by decide +kernel)))
  exact Run.step r9 (Step.deliver ex9 2 opA (by decide +kernel) ((okB_iff _ _ _).mp (by decide +kernel)))

/-- the log of that run; before the delete replica 1 read `[7, 8]`; at the end everybody reads `[8]` -/
example : ex10.log = [.delete ⟨[(0, (0, 1))]⟩ ⟨1, 2⟩, .insert ⟨[(0, (1, 1))]⟩ 8, .insert ⟨[(0, (0, 1))]⟩ 7] := by
  decide +kernel
example : (ex3.rep 1).read = [7, 8] ∧ (ex3.rep 0).read = [7] ∧ (ex3.rep 2).read = [] := by decide +kernel
example : (ex10.rep 0).read = [8] ∧ (ex10.rep 1).read = [8] ∧ (ex10.rep 2).read = [8] := by decide +kernel
example : ex10.know 0 = [opD, opB, opA] ∧ ex10.know 1 = [opD, opA, opB] ∧ ex10.know 2 = [opA, opD, opA, opB] := by
  decide +kernel
/-- the delete is NOT deliverable to replica 2 before the insert it targets (the discipline is not vacuous) -/
example : ¬ Ok ex6.log (ex6.know 2) opD := fun h => by
  have := (okB_iff ex6.log (ex6.know 2) opD).mpr h
  revert this; decide +kernel
/-- the hypothesis-free theorems apply to it -/
example : ex10.rep 0 = ex10.rep 2 := by
  have h0 : ex10.know 0 = [opD, opB, opA] := by decide +kernel
  have h2 : ex10.know 2 = [opA, opD, opA, opB] := by decide +kernel
  refine (run_same_ops_same_sequence ex_run 0 2 (fun o => ?_)).1
  rw [h0, h2]; simp only [List.mem_cons, List.not_mem_nil, or_false]
  constructor
  · rintro (h | h | h) <;> simp [h]
  · rintro (h | h | h | h) <;> simp [h]
example : LogWF ex10.log := run_logWF ex_run
example : ((ex10.gen 2 ((ex10.rep 2).insertIndex 5 9 2)).rep 2).read = [8, 9] := by
  rw [run_insert_lands_at_index_read ex_run 2 5 9]; decide +kernel
end example_

end Crdt.SysList
