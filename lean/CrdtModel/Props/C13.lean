import CrdtModel.Proofs.GList
import CrdtModel.Proofs.List
/-!
# C13 — List and GList edits land at the requested index (sequential-list model)

Property theorems only (helpers: `Proofs/SeqInsert.lean`, `Proofs/GList.lean`, `Proofs/List.lean`; density from C14).
Everything is stated for ALL states (any length, any identifiers), under the one invariant `IdsNonEmpty`
(no stored identifier is the empty path):

* `List`: `apply` panics on an insert op with the empty identifier (`list_apply_panics_iff`), so the invariant holds in
  every state reachable from `new` by applying ARBITRARY ops (`list_ids_nonempty_reachable`), in particular API ops;
  it can only be violated by deserialising a hand-made state (witness `list_empty_id_breaks_append`).
* `GList`: `read` itself panics when the empty identifier is stored, so the read-level theorems take `g.read = some vs`
  (which implies the invariant); API-built ops never carry the empty identifier (`glist_api_ids_nonempty`).

Rust panics are modelled explicitly: `GList.insert : Option` (`none` = `assert!(idx <= len)` fails),
`ListCrdt.apply? : Option` (`none` = `Op::dot()` unwraps the last marker of an empty identifier).
-/
namespace Crdt.C13
open Crdt LinOrd Identifier

/-! ## List -/
section list
variable {τ α : Type} [LinOrd α]
open ListCrdt

/-- the predicate of the property statement -/
abbrev IdsNonEmpty (s : ListCrdt τ α) : Prop := ListCrdt.IdsNonEmpty s

/-- the op built by `insert_index` carries the actor's NEXT dot … -/
theorem list_insert_index_dot (s : ListCrdt τ α) (ix : Nat) (x : τ) (a : α) :
    (s.insertIndex ix x a).dot = some (s.clock.inc a) ∧ (s.clock.inc a).counter = s.clock.get a + 1 :=
  ⟨insertIndex_dot s ix x a, rfl⟩

/-- … hence at its origin it is never gated by `if op_dot.counter <= self.clock.get(&op_dot.actor) { return }` -/
theorem list_insert_index_not_gated (s : ListCrdt τ α) (a : α) :
    ¬ (s.clock.inc a).counter ≤ s.clock.get (s.clock.inc a).actor := inc_not_gated s.clock a

/-- **insert lands at the requested index**: `read(apply(s, insert_index(i, x, a))) = read(s).insert(min(i, len), x)`;
all other entries (identifier and value) are untouched and keep their order, the new identifier was absent,
the actor's clock entry advances by one, and the invariant is preserved -/
theorem list_insert_index (s : ListCrdt τ α) (hs : IdsNonEmpty s) (ix : Nat) (x : τ) (a : α) :
    ∃ (n : Identifier (OrdDot α)) (s' : ListCrdt τ α),
      s.insertIndex ix x a = .insert n x ∧ s.get n = none ∧
      s.apply? (s.insertIndex ix x a) = some s' ∧
      s'.read = s.read.insertIdx (min ix s.len) x ∧
      s'.iterEntries = s.iterEntries.insertIdx (min ix s.len) (n, x) ∧
      s'.len = s.len + 1 ∧
      s'.clock = s.clock.apply (s.clock.inc a) ∧
      IdsNonEmpty s' := by
  obtain ⟨n, s', h1, _, h3, h4, h5, h6⟩ := apply_insertIndex s hs ix x a
  refine ⟨n, s', h1, h3, h4, ?_, h5, ?_, h6, idsNonEmpty_apply? hs h4⟩
  · simp only [ListCrdt.read, h5]; exact map_insertIdx _ _ _ _
  · have : min ix s.len ≤ s.seq.l.length := by simp [len, FMap.size]; omega
    simp only [len, FMap.size, h5]; exact List.length_insertIdx_of_le_length this _

/-- headline form: `read (apply s (insert_index i x a)) = (read s).insertIdx (min i len) x` -/
theorem list_insert_index_read (s : ListCrdt τ α) (hs : IdsNonEmpty s) (ix : Nat) (x : τ) (a : α) :
    (s.apply (s.insertIndex ix x a)).read = s.read.insertIdx (min ix s.len) x := by
  obtain ⟨_, s', _, _, h3, h4, _⟩ := list_insert_index s hs ix x a
  simp [ListCrdt.apply, h3, h4]

/-- `insert_index` beyond the end appends (`ix` is clamped to `len`) -/
theorem list_insert_index_beyond_end (s : ListCrdt τ α) (hs : IdsNonEmpty s) {ix : Nat} (h : s.len ≤ ix) (x : τ) (a : α) :
    ∃ s', s.apply? (s.insertIndex ix x a) = some s' ∧ s'.read = s.read ++ [x] := by
  obtain ⟨_, s', _, _, h3, h4, _⟩ := list_insert_index s hs ix x a
  refine ⟨s', h3, ?_⟩
  have : min ix s.len = s.read.length := by rw [← len_eq_read]; omega
  rw [h4, this, List.insertIdx_length_self]

/-- `append` puts the element last -/
theorem list_append (s : ListCrdt τ α) (hs : IdsNonEmpty s) (x : τ) (a : α) :
    ∃ s', s.apply? (s.append x a) = some s' ∧ s'.read = s.read ++ [x] :=
  list_insert_index_beyond_end s hs (Nat.le_refl _) x a

/-- **delete removes exactly the i-th element and nothing else** (needs no invariant) -/
theorem list_delete_index (s : ListCrdt τ α) {ix : Nat} (h : ix < s.len) (a : α) :
    ∃ (op : ListOp τ α) (s' : ListCrdt τ α),
      s.deleteIndex ix a = some op ∧ op.dot = some (s.clock.inc a) ∧
      s.apply? op = some s' ∧
      s'.read = s.read.eraseIdx ix ∧
      s'.iterEntries = s.iterEntries.eraseIdx ix ∧
      s'.len = s.len - 1 ∧
      s'.clock = s.clock.apply (s.clock.inc a) := by
  obtain ⟨id, s', _, h2, h3, h4, h5⟩ := apply_deleteIndex s h a
  refine ⟨_, s', h2, rfl, h3, ?_, h4, ?_, h5⟩
  · simp only [ListCrdt.read, h4]; exact map_eraseIdx _ _ _
  · simp only [len, FMap.size, h4, List.length_eraseIdx]
    have : ix < s.seq.l.length := h
    simp [this]

/-- headline form: deleting index `ix < len` erases exactly that position of the read -/
theorem list_delete_index_read (s : ListCrdt τ α) {ix : Nat} (h : ix < s.len) (a : α) :
    ∃ op, s.deleteIndex ix a = some op ∧ (s.apply op).read = s.read.eraseIdx ix := by
  obtain ⟨op, s', h1, _, h3, h4, _⟩ := list_delete_index s h a
  exact ⟨op, h1, by simp [ListCrdt.apply, h3, h4]⟩

/-- `delete_index` out of range yields no op -/
theorem list_delete_index_out_of_range (s : ListCrdt τ α) {ix : Nat} (h : s.len ≤ ix) (a : α) :
    s.deleteIndex ix a = none := deleteIndex_none s h a

/-- `apply` (and `validate_op`) panic exactly on an insert op that carries the empty identifier -/
theorem list_apply_panics_iff (s : ListCrdt τ α) (op : ListOp τ α) :
    s.apply? op = none ↔ ∃ v, op = .insert ⟨[]⟩ v := apply?_eq_none_iff s op

/-- the invariant holds initially and is preserved by applying ANY op that does not panic -/
theorem list_ids_nonempty_new : IdsNonEmpty (ListCrdt.new : ListCrdt τ α) := idsNonEmpty_new
theorem list_ids_nonempty_apply {s s' : ListCrdt τ α} (hs : IdsNonEmpty s) {op : ListOp τ α}
    (h : s.apply? op = some s') : IdsNonEmpty s' := idsNonEmpty_apply? hs h

/-- states reachable from `new` by applying arbitrary ops (API-generated or not, any order, duplicates) -/
inductive Reachable : ListCrdt τ α → Prop
  | new : Reachable ListCrdt.new
  | apply {s s' : ListCrdt τ α} (op : ListOp τ α) : Reachable s → s.apply? op = some s' → Reachable s'

theorem list_ids_nonempty_reachable {s : ListCrdt τ α} (h : Reachable s) : IdsNonEmpty s := by
  induction h with
  | new => exact idsNonEmpty_new
  | apply op _ hap ih => exact idsNonEmpty_apply? ih hap

/-- API-generated ops never carry the empty identifier, so applying them never panics -/
theorem list_api_ops_nonempty (s : ListCrdt τ α) :
    (∀ ix x a, (s.insertIndex ix x a).id.path ≠ []) ∧
    (IdsNonEmpty s → ∀ ix a op, s.deleteIndex ix a = some op → op.id.path ≠ []) :=
  ⟨insertIndex_id_nonempty s, fun hs _ _ _ h => deleteIndex_id_nonempty hs h⟩

end list

/-! ## GList -/
section glist
variable {τ : Type} [LinOrd τ]
open GList

/-- `insert(idx, x)` with `idx ≤ len` makes `x` the idx-th element, everything else keeps its order
(identifier level: `ids`; element level: `read`); the set grows by exactly one (the identifier is fresh) -/
theorem glist_insert (g : GList τ) {vs : List τ} (hr : g.read = some vs) {idx : Nat} (h : idx ≤ g.len) (x : τ) :
    ∃ op, g.insert idx x = some op ∧
      (g.apply op).ids = g.ids.insertIdx idx op.id ∧
      (g.apply op).read = some (vs.insertIdx idx x) ∧
      (g.apply op).len = g.len + 1 := by
  obtain ⟨op, h1, h2, h3⟩ := GList.insert_at g (idsNonEmpty_of_read hr) h x
  refine ⟨op, h1, h2, ?_, ?_⟩
  · simp only [GList.read, h2]; exact valuesOf_insertIdx h3 idx hr
  · rw [len_eq, len_eq, h2, List.length_insertIdx_of_le_length (by rw [← len_eq]; exact h)]

/-- `insert` beyond the end: the Rust `assert!` fails -/
theorem glist_insert_panics (g : GList τ) {idx : Nat} (h : g.len < idx) (x : τ) : g.insert idx x = none := by
  simp [GList.insert, Nat.not_le.mpr h]

/-- `insert_after(Some(id), x)` for the member `id` at index `k` places `x` immediately after it -/
theorem glist_insert_after (g : GList τ) {vs : List τ} (hr : g.read = some vs) {k : Nat} {id : Identifier τ}
    (hk : g.get k = some id) (x : τ) :
    (g.apply (g.insertAfter (some id) x)).ids = g.ids.insertIdx (k + 1) (g.insertAfter (some id) x).id ∧
    (g.apply (g.insertAfter (some id) x)).read = some (vs.insertIdx (k + 1) x) := by
  have hmem : id ∈ g.ids := by
    obtain ⟨hlt, e⟩ := List.getElem?_eq_some_iff.mp hk
    rw [← e]; exact List.getElem_mem hlt
  obtain ⟨h2, h3⟩ := insertAfter_at g hk (idsNonEmpty_of_read hr id hmem) x
  exact ⟨h2, by simp only [GList.read, h2]; exact valuesOf_insertIdx h3 (k + 1) hr⟩

/-- `insert_before(Some(id), x)` for the member `id` at index `k` places `x` immediately before it -/
theorem glist_insert_before (g : GList τ) {vs : List τ} (hr : g.read = some vs) {k : Nat} {id : Identifier τ}
    (hk : g.get k = some id) (x : τ) :
    (g.apply (g.insertBefore (some id) x)).ids = g.ids.insertIdx k (g.insertBefore (some id) x).id ∧
    (g.apply (g.insertBefore (some id) x)).read = some (vs.insertIdx k x) := by
  obtain ⟨h2, h3⟩ := insertBefore_at g hk x
  exact ⟨h2, by simp only [GList.read, h2]; exact valuesOf_insertIdx h3 k hr⟩

/-- identifier-level version of `insert_before` needing NO invariant (the upper bound may even be empty) -/
theorem glist_insert_before_ids (g : GList τ) {k : Nat} {id : Identifier τ} (hk : g.get k = some id) (x : τ) :
    (g.apply (g.insertBefore (some id) x)).ids = g.ids.insertIdx k (g.insertBefore (some id) x).id :=
  (insertBefore_at g hk x).1

/-- `read` does not panic iff the invariant holds -/
theorem glist_read_some_iff (g : GList τ) : (∃ vs, g.read = some vs) ↔ GList.IdsNonEmpty g := by
  constructor
  · rintro ⟨vs, h⟩; exact idsNonEmpty_of_read h
  · intro h
    have h' : ∀ i ∈ g.ids, i.path ≠ [] := h
    unfold GList.read
    generalize g.ids = ks at h'
    clear h
    induction ks with
    | nil => exact ⟨[], rfl⟩
    | cons a t ih =>
      have h := h'
      obtain ⟨vs, hvs⟩ := ih (fun i hi => h i (List.mem_cons_of_mem _ hi))
      have := value_isSome_iff.mpr (h a (by simp))
      obtain ⟨v, hv⟩ := Option.isSome_iff_exists.mp this
      exact ⟨v :: vs, by simp [valuesOf, hv, hvs]⟩

/-- API-built ops never carry the empty identifier; the invariant is preserved by `apply` of such ops and by `merge` -/
theorem glist_api_ids_nonempty (g : GList τ) :
    (∀ low x, (g.insertAfter low x).id.path ≠ []) ∧ (∀ high x, (g.insertBefore high x).id.path ≠ []) ∧
    (∀ idx x op, g.insert idx x = some op → op.id.path ≠ []) :=
  ⟨insertAfter_id_nonempty g, insertBefore_id_nonempty g, fun _ _ _ h => insert_id_nonempty h⟩

theorem glist_ids_nonempty_new : GList.IdsNonEmpty (GList.new : GList τ) := idsNonEmpty_new
theorem glist_ids_nonempty_apply {g : GList τ} (hg : GList.IdsNonEmpty g) {op : GListOp τ} (hop : op.id.path ≠ []) :
    GList.IdsNonEmpty (g.apply op) := idsNonEmpty_apply hg hop
theorem glist_ids_nonempty_merge {g o : GList τ} (hg : GList.IdsNonEmpty g) (ho : GList.IdsNonEmpty o) :
    GList.IdsNonEmpty (g.merge o) := idsNonEmpty_merge hg ho

end glist

/-! ## non-vacuity and witnesses (tests, not theorems) -/

/-- three local appends and one insert in the middle, then a delete -/
example :
    let s0 : ListCrdt Nat Nat := ListCrdt.new
    let s1 := s0.apply (s0.append 10 0)
    let s2 := s1.apply (s1.append 20 0)
    let s3 := s2.apply (s2.insertIndex 1 15 1)
    let s4 := s3.apply ((s3.deleteIndex 0 1).getD (s3.append 0 0))
    s3.read = [10, 15, 20] ∧ s4.read = [15, 20] := by decide +kernel

/-- WITNESS (List): the invariant is needed.  A state holding the empty identifier (only obtainable by deserialising
it, `apply` would have panicked) sends `append` to the FRONT: `between(Some([]), None, m) = [0:m] < []`. -/
theorem list_empty_id_breaks_append :
    let s : ListCrdt Nat Nat := ⟨(∅ : FMap _ _).insert ⟨[]⟩ 1, ∅⟩
    (s.apply (s.append 2 0)).read = [2, 1] := by decide +kernel

/-- WITNESS (GList): with the empty identifier stored (raw op), `insert(1, 5)` lands at index 0 -/
theorem glist_empty_id_breaks_insert :
    let g : GList Nat := GList.new.apply (.insert ⟨[]⟩)
    (g.insert 1 5).map (fun op => (g.apply op).ids) = some [⟨[(0, 5)]⟩, ⟨[]⟩] := by decide +kernel

/-- FINDING (GList): `insert_after(None, x)` / `insert_before(None, x)` ignore the list: they always build `[0:x]`,
so repeating the call collides with the first identifier and the second insert is lost -/
theorem glist_insert_none_collides :
    let g0 : GList Nat := GList.new
    let g1 := g0.apply (g0.insertAfter none 5)
    let g2 := g1.apply (g1.insertAfter none 5)
    g1.len = 1 ∧ g2.len = 1 ∧ g2 = g1 := by decide +kernel

example : let g0 : GList Nat := GList.new
    let g1 := g0.apply ((g0.insert 0 7).getD (.insert ⟨[]⟩))
    let g2 := g1.apply ((g1.insert 1 9).getD (.insert ⟨[]⟩))
    let g3 := g2.apply ((g2.insert 1 8).getD (.insert ⟨[]⟩))
    g3.read = some [7, 8, 9] := by decide +kernel

end Crdt.C13
