import CrdtModel.Proofs.MVRegSpec
/-!
# C06 — `MVReg::read` returns exactly the causally-maximal writes

Hypotheses everywhere: `Reach U s K` – `s` is the state of *any* replica (or snapshot) of *any* history over the
universe `U` of puts: **no delivery-order assumption at all** (`Ok := True`: any order, duplicates, ops arriving
before the ops they supersede), merges of live or stale states, any number of replicas; `K` is the list of puts the
replica has learned.  `MVWF U`: no clock stores a zero counter and distinct puts carry distinct clocks – what writing
through `read_ctx().derive_add_ctx(actor)` guarantees when each actor writes at one replica (`genLog_wf`).
States are compared up to the arrival order of the `Vec` (`List.Perm`), which is also what the hand-written `==`
decides on duplicate-free states (`eq_true_iff_perm`).
-/
set_option linter.unusedSectionVars false
namespace Crdt.C06
open Crdt LinOrd RepSysE

variable {ν α : Type} [LinOrd α] {U : List (MVOp ν α)}

/-- derivable replica states of the MVReg system, with their knowledge -/
abbrev Reach (U : List (MVOp ν α)) (s : MVReg ν α) (K : List (MVOp ν α)) : Prop := (mvregSys (ν := ν) (α := α)).Reach U s K

/-! ## representation theorem -/

/-- **representation**: every derivable state holds exactly the causally-maximal known puts (non-empty clock,
no known put with a strictly greater clock), each exactly once -/
theorem vals_eq_maximal (wf : MVWF U) {s : MVReg ν α} {K : List (MVOp ν α)} (h : Reach U s K) :
    s.vals.Nodup ∧ ∀ c v, (c, v) ∈ s.vals ↔ Maximal K c v :=
  (reach_rep (R := mvregSys) wf h).2

theorem knowledge_subset (wf : MVWF U) {s : MVReg ν α} {K : List (MVOp ν α)} (h : Reach U s K) : ∀ o ∈ K, o ∈ U :=
  (reach_rep (R := mvregSys) wf h).1

/-- the universe only has to contain the ops actually delivered: a state derivable over `U` is derivable over `U' ⊇ U` … -/
theorem reach_mono {U' : List (MVOp ν α)} {s : MVReg ν α} {K : List (MVOp ν α)} (h : Reach U s K)
    (sub : ∀ o ∈ U, o ∈ U') : Reach U' s K := by
  induction h with
  | init => exact Reach.init
  | apply _ hu _ ih => exact Reach.apply ih (sub _ hu) trivial
  | merge _ _ ih1 ih2 => exact Reach.merge ih1 ih2

/-- … and over its own knowledge list: well-formedness of the puts *this replica has learned* is all that matters -/
theorem reach_self {s : MVReg ν α} {K : List (MVOp ν α)} (h : Reach U s K) : Reach K s K := by
  induction h with
  | init => exact Reach.init
  | @apply s K op _ _ _ ih =>
    exact Reach.apply (reach_mono ih (fun o ho => List.mem_cons_of_mem _ ho)) (by simp) trivial
  | merge _ _ ih1 ih2 =>
    exact Reach.merge (reach_mono ih1 (fun o ho => List.mem_append.mpr (Or.inl ho)))
      (reach_mono ih2 (fun o ho => List.mem_append.mpr (Or.inr ho)))

theorem vals_eq_maximal_of_wf_knowledge {s : MVReg ν α} {K : List (MVOp ν α)} (h : Reach U s K) (wf : MVWF K) :
    s.vals.Nodup ∧ ∀ c v, (c, v) ∈ s.vals ↔ Maximal K c v :=
  vals_eq_maximal wf (reach_self h)

/-- `read().val` lists the values of the stored entries (src/mvreg.rs:194-206) -/
theorem read_val (s : MVReg ν α) : s.read.val = s.vals.map (·.2) := rfl

section spec
variable [DecidableEq ν]

/-- the stored entries are, up to order, the executable specification `MVSpec.maxPuts K` -/
theorem vals_perm_maxPuts (wf : MVWF U) {s : MVReg ν α} {K : List (MVOp ν α)} (h : Reach U s K) :
    s.vals.Perm (MVSpec.maxPuts K) := by
  have rep := vals_eq_maximal wf h
  rw [List.perm_ext_iff_of_nodup rep.1 (MVSpec.nodup_maxPuts K)]
  rintro ⟨c, v⟩; rw [rep.2, MVSpec.mem_maxPuts]

/-- **C06**: `read()` returns exactly (as a multiset) the values of the causally-maximal puts learned –
at every replica, at every step, for every delivery order and merge pattern -/
theorem read_eq_maximal (wf : MVWF U) {s : MVReg ν α} {K : List (MVOp ν α)} (h : Reach U s K) :
    s.read.val.Perm ((MVSpec.maxPuts K).map (·.2)) :=
  (vals_perm_maxPuts wf h).map _

end spec

/-! ## the read clock -/

/-- `read().add_clock` (= `rm_clock`) is computed as the join of the *stored* (maximal) clocks; because every known
put lies below a maximal one this equals the join of ALL known clocks: per actor the largest counter in any known put -/
theorem read_add_clock (wf : MVWF U) {s : MVReg ν α} {K : List (MVOp ν α)} (h : Reach U s K) (a : α) :
    s.read.addClock.get a = listMax (fun o => o.clock.get a) K := by
  have rep := (reach_rep (R := mvregSys) wf h).2
  show s.clock.get a = _
  rw [MVReg.get_clock]
  apply Nat.le_antisymm
  · apply listMax_le_of_forall
    intro p hp
    exact le_listMax (fun o : MVOp ν α => o.clock.get a) ((rep.2 p.1 p.2).mp hp).1
  · apply listMax_le_of_forall
    intro o ho
    cases hne : o.clock.isEmpty with
    | true => rw [VClock.get_of_isEmpty hne]; exact Nat.zero_le _
    | false =>
      obtain ⟨m, _, hom, hmax⟩ := exists_maximal_above K ho hne
      have hm : (m.clock, m.val) ∈ s.vals := (rep.2 _ _).mpr hmax
      have h1 : o.clock.get a ≤ m.clock.get a := by
        rcases hom with e | l
        · subst e; exact Nat.le_refl _
        · exact l.1 a
      exact Nat.le_trans h1 (le_listMax (fun p : VClock α × ν => p.1.get a) hm)

theorem read_clocks_equal (s : MVReg ν α) : s.read.rmClock = s.read.addClock ∧ s.readCtx.addClock = s.read.addClock ∧
    s.readCtx.rmClock = s.read.addClock := ⟨rfl, rfl, rfl⟩

theorem read_clock_noZero (s : MVReg ν α) : s.read.addClock.NoZero := MVReg.noZero_clock s

/-- as a value: the read clock is the executable specification clock -/
theorem read_add_clock_eq_spec (wf : MVWF U) {s : MVReg ν α} {K : List (MVOp ν α)} (h : Reach U s K) :
    s.read.addClock = MVSpec.readClock K :=
  VClock.ext_get (read_clock_noZero s) (MVSpec.noZero_readClock K)
    (fun a => by rw [read_add_clock wf h, MVSpec.get_readClock])

/-! ## what is shown, what is not -/

/-- a put dominated by a known put is not shown (no entry with its clock at all) -/
theorem superseded_not_shown (wf : MVWF U) {s : MVReg ν α} {K : List (MVOp ν α)} (h : Reach U s K)
    {c c' : VClock α} {v' : ν} (hk : (⟨c', v'⟩ : MVOp ν α) ∈ K) (l : c.slt c') : ∀ v, (c, v) ∉ s.vals :=
  fun v hin => ((vals_eq_maximal wf h).2 c v).mp hin |>.2.2 ⟨_, hk, l⟩

/-- … now or after any further deliveries / merges (any derivable state whose knowledge includes `K`;
knowledge only grows along a derivation: `op :: K`, `K ++ K'`), in any order – it never reappears -/
theorem superseded_never_reappears (wf : MVWF U) {K : List (MVOp ν α)}
    {c c' : VClock α} {v' : ν} (hk : (⟨c', v'⟩ : MVOp ν α) ∈ K) (l : c.slt c')
    {t : MVReg ν α} {K' : List (MVOp ν α)} (ht : Reach U t K') (sub : ∀ o ∈ K, o ∈ K') : ∀ v, (c, v) ∉ t.vals :=
  superseded_not_shown wf ht (sub _ hk) l

/-- a write built from the context of a read (`write(v, read_ctx().derive_add_ctx(a))` at ANY state `s`), once it is
known to a replica – delivered in any order, or merged in – removes everything that read returned -/
theorem write_supersedes_read (wf : MVWF U) (s : MVReg ν α) (a : α) (v : ν)
    {t : MVReg ν α} {K' : List (MVOp ν α)} (ht : Reach U t K') (hk : s.writeBy a v ∈ K') :
    ∀ p ∈ s.vals, ∀ v', (p.1, v') ∉ t.vals := by
  intro p hp v'
  exact superseded_not_shown wf ht (c' := (s.writeBy a v).clock) (v' := (s.writeBy a v).val) hk
    (VClock.slt_of_le_of_slt (MVReg.le_clock s hp) (MVReg.clock_slt_writeBy s a v)) v'

/-- at the writer: applying one's own write leaves exactly that one value -/
theorem write_apply_local (s : MVReg ν α) (a : α) (v : ν) :
    (s.apply (s.writeBy a v)).vals = [((s.writeBy a v).clock, v)] ∧ (s.apply (s.writeBy a v)).read.val = [v] := by
  have hk : s.vals.filter (fun p => MVReg.retained (s.writeBy a v).clock p.1) = [] := by
    rw [List.filter_eq_nil_iff]
    intro p hp hr
    exact ((MVReg.retained_iff _ _).mp hr).2
      (VClock.slt_of_le_of_slt (MVReg.le_clock s hp) (MVReg.clock_slt_writeBy s a v))
  have : (s.apply (s.writeBy a v)).vals = [((s.writeBy a v).clock, v)] := by
    simp only [MVReg.apply, MVReg.writeBy_nonempty, Bool.false_eq_true, if_false, hk]
    simp [MVReg.writeBy_val]
  exact ⟨this, by rw [read_val, this]; rfl⟩

/-- two known puts with concurrent clocks that no known put dominates are BOTH shown, as two entries – even when
their values are equal (`read().val` then contains the value twice) -/
theorem concurrent_writes_kept (wf : MVWF U) {s : MVReg ν α} {K : List (MVOp ν α)} (h : Reach U s K)
    {c c' : VClock α} {v v' : ν} (hc : (⟨c, v⟩ : MVOp ν α) ∈ K) (hc' : (⟨c', v'⟩ : MVOp ν α) ∈ K)
    (conc : c.concurrent c' = true) (nd : ¬ Dominated K c) (nd' : ¬ Dominated K c') :
    (c, v) ∈ s.vals ∧ (c', v') ∈ s.vals ∧
      ∃ i j : Nat, i ≠ j ∧ s.read.val[i]? = some v ∧ s.read.val[j]? = some v' := by
  have rep := vals_eq_maximal wf h
  have hcc : c.partialCmp c' = none := by simpa [VClock.concurrent] using conc
  rcases VClock.partialCmp_cases c c' with ⟨e, _⟩ | ⟨e, _⟩ | ⟨e, _⟩ | ⟨_, hne, n1, n2⟩
  · rw [hcc] at e; cases e
  · rw [hcc] at e; cases e
  · rw [hcc] at e; cases e
  · have ne1 : c.isEmpty = false := by
      cases he : c.isEmpty with
      | false => rfl
      | true => exact absurd (VClock.le_of_isEmpty he _) n2
    have ne2 : c'.isEmpty = false := by
      cases he : c'.isEmpty with
      | false => rfl
      | true => exact absurd (VClock.le_of_isEmpty he _) n1
    have m1 : (c, v) ∈ s.vals := (rep.2 c v).mpr ⟨hc, ne1, nd⟩
    have m2 : (c', v') ∈ s.vals := (rep.2 c' v').mpr ⟨hc', ne2, nd'⟩
    refine ⟨m1, m2, ?_⟩
    obtain ⟨i, hi⟩ := List.mem_iff_getElem?.mp m1
    obtain ⟨j, hj⟩ := List.mem_iff_getElem?.mp m2
    refine ⟨i, j, ?_, ?_, ?_⟩
    · intro e; subst e; rw [hi] at hj; exact hne (Prod.mk.inj (Option.some.inj hj)).1
    · rw [read_val, List.getElem?_map, hi]; rfl
    · rw [read_val, List.getElem?_map, hj]; rfl

/-- the textbook case: a replica that knows exactly two concurrent puts reads both values, in some order -/
theorem two_concurrent_writes (wf : MVWF U) {s : MVReg ν α} {K : List (MVOp ν α)} (h : Reach U s K)
    {c c' : VClock α} {v v' : ν} (hK : ∀ o, o ∈ K ↔ (o = ⟨c, v⟩ ∨ o = ⟨c', v'⟩))
    (conc : c.concurrent c' = true) : s.read.val.Perm [v, v'] := by
  have hcc : c.partialCmp c' = none := by simpa [VClock.concurrent] using conc
  have hn := (VClock.partialCmp_cases c c')
  rw [hcc] at hn
  simp only [reduceCtorEq, false_and, false_or, true_and] at hn
  obtain ⟨hne, n1, n2⟩ := hn
  have nd : ¬ Dominated K c := by
    rintro ⟨o, ho, l⟩
    rcases (hK o).mp ho with e | e <;> subst e
    · exact VClock.slt_irrefl _ l
    · exact n2 l.1
  have nd' : ¬ Dominated K c' := by
    rintro ⟨o, ho, l⟩
    rcases (hK o).mp ho with e | e <;> subst e
    · exact n1 l.1
    · exact VClock.slt_irrefl _ l
  have kept := concurrent_writes_kept wf h ((hK _).mpr (Or.inl rfl)) ((hK _).mpr (Or.inr rfl)) conc nd nd'
  have rep := vals_eq_maximal wf h
  have : s.vals.Perm [(c, v), (c', v')] := by
    rw [List.perm_ext_iff_of_nodup rep.1 (by simp [hne])]
    rintro ⟨x, y⟩
    constructor
    · intro hx
      have := ((rep.2 x y).mp hx).1
      rcases (hK _).mp this with e | e <;> cases e <;> simp
    · intro hx
      simp only [List.mem_cons, Prod.mk.injEq, List.not_mem_nil, or_false] at hx
      rcases hx with ⟨e1, e2⟩ | ⟨e1, e2⟩ <;> subst e1 <;> subst e2
      · exact kept.1
      · exact kept.2.1
  exact this.map (·.2)

/-! ## convergence, merge laws, duplicates (all up to the order of the `Vec`, no delivery-order assumption) -/

/-- same knowledge ⇒ same multiset of (clock, value) entries, same multiset of read values, same read clock –
for any two replicas / snapshots, however each one got there -/
theorem converge (wf : MVWF U) {s s' : MVReg ν α} {K K' : List (MVOp ν α)} (h : Reach U s K) (h' : Reach U s' K')
    (e : ∀ o, o ∈ K ↔ o ∈ K') :
    s.vals.Perm s'.vals ∧ s.read.val.Perm s'.read.val ∧ s.read.addClock = s'.read.addClock := by
  have p : s.vals.Perm s'.vals := RepSysE.converge (R := mvregSys) wf h h' e
  refine ⟨p, p.map _, ?_⟩
  exact VClock.ext_get (read_clock_noZero s) (read_clock_noZero s')
    (fun a => by rw [read_add_clock wf h, read_add_clock wf h', listMax_congr _ e])

section eq
variable [DecidableEq ν]

/-- the hand-written `==` (src/mvreg.rs:63-85) never panics on derivable states … -/
theorem eq_never_panics (wf : MVWF U) {s s' : MVReg ν α} {K K' : List (MVOp ν α)} (h : Reach U s K)
    (h' : Reach U s' K') : ∃ b, s.eq s' = some b :=
  ⟨_, MVReg.eq_of_nodup (vals_eq_maximal wf h).1 (vals_eq_maximal wf h').1⟩

/-- … where it decides equality up to the order of the `Vec` … -/
theorem eq_true_iff_perm (wf : MVWF U) {s s' : MVReg ν α} {K K' : List (MVOp ν α)} (h : Reach U s K)
    (h' : Reach U s' K') : s.eq s' = some true ↔ s.vals.Perm s'.vals :=
  MVReg.eq_true_iff_perm (vals_eq_maximal wf h).1 (vals_eq_maximal wf h').1

/-- … so replicas with the same knowledge compare `==` -/
theorem converge_eq (wf : MVWF U) {s s' : MVReg ν α} {K K' : List (MVOp ν α)} (h : Reach U s K) (h' : Reach U s' K')
    (e : ∀ o, o ∈ K ↔ o ∈ K') : s.eq s' = some true :=
  (eq_true_iff_perm wf h h').mpr (converge wf h h' e).1

/-- and `==` is exactly "same maximal puts": two derivable states are `==` iff they show the same entries -/
theorem eq_true_iff_same_maximal (wf : MVWF U) {s s' : MVReg ν α} {K K' : List (MVOp ν α)} (h : Reach U s K)
    (h' : Reach U s' K') : s.eq s' = some true ↔ ∀ c v, Maximal K c v ↔ Maximal K' c v := by
  have r := vals_eq_maximal wf h
  have r' := vals_eq_maximal wf h'
  rw [eq_true_iff_perm wf h h', List.perm_ext_iff_of_nodup r.1 r'.1]
  constructor
  · intro hm c v; rw [← r.2, ← r'.2]; exact hm (c, v)
  · rintro hm ⟨c, v⟩; rw [r.2, r'.2]; exact hm c v

theorem merge_comm_eq (wf : MVWF U) {s s' : MVReg ν α} {K K' : List (MVOp ν α)} (h : Reach U s K) (h' : Reach U s' K') :
    (s.merge s').eq (s'.merge s) = some true :=
  converge_eq wf (Reach.merge h h') (Reach.merge h' h) (by intro o; simp only [List.mem_append]; exact Or.comm)

end eq

theorem merge_comm (wf : MVWF U) {s s' : MVReg ν α} {K K' : List (MVOp ν α)} (h : Reach U s K) (h' : Reach U s' K') :
    (s.merge s').vals.Perm (s'.merge s).vals := RepSysE.merge_comm (R := mvregSys) wf h h'

theorem merge_assoc (wf : MVWF U) {a b c : MVReg ν α} {Ka Kb Kc : List (MVOp ν α)} (ha : Reach U a Ka)
    (hb : Reach U b Kb) (hc : Reach U c Kc) : ((a.merge b).merge c).vals.Perm (a.merge (b.merge c)).vals :=
  RepSysE.merge_assoc (R := mvregSys) wf ha hb hc

theorem merge_idem (wf : MVWF U) {s : MVReg ν α} {K : List (MVOp ν α)} (h : Reach U s K) :
    (s.merge s).vals.Perm s.vals := RepSysE.merge_idem (R := mvregSys) wf h

/-- merging two replicas gives what a replica that received the union of their ops (in any order) holds -/
theorem merge_is_union (wf : MVWF U) {s s' t : MVReg ν α} {K K' L : List (MVOp ν α)} (h : Reach U s K)
    (h' : Reach U s' K') (ht : Reach U t L) (e : ∀ o, o ∈ L ↔ (o ∈ K ∨ o ∈ K')) : (s.merge s').vals.Perm t.vals :=
  RepSysE.merge_is_union (R := mvregSys) wf h h' ht e

/-- a duplicate delivery is absorbed -/
theorem dup_noop (wf : MVWF U) {s : MVReg ν α} {K : List (MVOp ν α)} (h : Reach U s K) {op : MVOp ν α}
    (hk : op ∈ K) : (s.apply op).vals.Perm s.vals :=
  RepSysE.dup_noop (R := mvregSys) wf h (knowledge_subset wf h op hk) hk

/-- merging an old snapshot / a lagging peer / one's own past is absorbed -/
theorem stale_noop (wf : MVWF U) {s s' : MVReg ν α} {K K' : List (MVOp ν α)} (h : Reach U s K) (h' : Reach U s' K')
    (sub : ∀ o, o ∈ K' → o ∈ K) : (s.merge s').vals.Perm s.vals := RepSysE.stale_noop (R := mvregSys) wf h h' sub

/-- any two puts commute, whatever their causal relation -/
theorem apply_comm (wf : MVWF U) {s : MVReg ν α} {K : List (MVOp ν α)} (h : Reach U s K) {o₁ o₂ : MVOp ν α}
    (h₁ : o₁ ∈ U) (h₂ : o₂ ∈ U) : ((s.apply o₁).apply o₂).vals.Perm ((s.apply o₂).apply o₁).vals :=
  RepSysE.apply_comm (R := mvregSys) wf h h₁ h₂ trivial trivial trivial trivial

/-! ## generation: writes built through the API form a well-formed log -/

/-- the writer's own counter in the new clock is one more than the largest it has seen … -/
theorem write_clock_own (wf : MVWF U) {s : MVReg ν α} {K : List (MVOp ν α)} (h : Reach U s K) (a : α) (v : ν) :
    (s.writeBy a v).clock.get a = listMax (fun o => o.clock.get a) K + 1 := by
  rw [MVReg.get_writeBy, if_pos rfl]
  have := read_add_clock wf h a
  exact congrArg (· + 1) this

/-- … the new clock is strictly above every clock the writer has seen (so it is neither `≤` nor `=` any of them) … -/
theorem write_clock_above_seen (wf : MVWF U) {s : MVReg ν α} {K : List (MVOp ν α)} (h : Reach U s K) (a : α) (v : ν) :
    ∀ o ∈ K, o.clock.slt (s.writeBy a v).clock := by
  intro o ho
  refine VClock.slt_of_le_of_slt (fun x => ?_) (MVReg.clock_slt_writeBy s a v)
  have := read_add_clock wf h x
  show o.clock.get x ≤ s.clock.get x
  have e : s.clock.get x = listMax (fun o => o.clock.get x) K := this
  rw [e]; exact le_listMax (fun o : MVOp ν α => o.clock.get x) ho

/-- … and, when the writer has seen the largest `a`-counter that exists anywhere (it applied all of actor `a`'s earlier
puts: each actor writes at one replica), the new clock differs from EVERY clock of the universe -/
theorem write_clock_fresh (wf : MVWF U) {s : MVReg ν α} {K : List (MVOp ν α)} (h : Reach U s K) (a : α) (v : ν)
    (own : ∀ o ∈ U, o.clock.get a ≤ listMax (fun o => o.clock.get a) K) : ∀ o ∈ U, o.clock ≠ (s.writeBy a v).clock := by
  intro o ho e
  have h1 := own o ho
  have h2 := write_clock_own wf h a v
  rw [e] at h1; omega

/-- largest own counter: the largest `x`-counter among the puts written by actor `x` -/
def ownMax (L : List (α × MVOp ν α)) (x : α) : Nat := listMax (fun e => if e.1 = x then e.2.clock.get x else 0) L

/-- histories of API writes: each new put is `s.write(v, s.read_ctx().derive_add_ctx(a))` for a state `s` derivable from
the puts written so far (delivered in any order, merged in any pattern) that knows all earlier puts of actor `a`
(`a` writes at one replica and applies its own write before the next one). Newest first; tagged with the author. -/
inductive GenLog : List (α × MVOp ν α) → Prop
  | nil : GenLog []
  | write {L : List (α × MVOp ν α)} {s : MVReg ν α} {K : List (MVOp ν α)} (a : α) (v : ν) :
      GenLog L → Reach (L.map (·.2)) s K → (∀ e ∈ L, e.1 = a → e.2 ∈ K) → GenLog ((a, s.writeBy a v) :: L)

theorem genLog_inv {L : List (α × MVOp ν α)} (g : GenLog L) :
    MVWF (L.map (·.2)) ∧ (∀ e ∈ L, e.2.clock.isEmpty = false) ∧ ∀ e ∈ L, ∀ x, e.2.clock.get x ≤ ownMax L x := by
  induction g with
  | nil => unfold MVWF; simp
  | @write L s K a v _ hr hown ih =>
    obtain ⟨wf, hne, hbound⟩ := ih
    have rep := (reach_rep (R := mvregSys) wf hr)
    have inU : ∀ o ∈ K, ∃ e ∈ L, e.2 = o := fun o ho => by
      obtain ⟨e, he, ee⟩ := List.mem_map.mp (rep.1 o ho); exact ⟨e, he, ee⟩
    -- (A) the writer's view is bounded by the own counters
    have hA : ∀ x, s.clock.get x ≤ ownMax L x := by
      intro x
      have : s.clock.get x = listMax (fun o => o.clock.get x) K := read_add_clock wf hr x
      rw [this]
      apply listMax_le_of_forall
      intro o ho
      obtain ⟨e, he, ee⟩ := inU o ho
      subst ee; exact hbound e he x
    -- (B) the writer has seen its own largest counter
    have hB : ownMax L a ≤ s.clock.get a := by
      have : s.clock.get a = listMax (fun o => o.clock.get a) K := read_add_clock wf hr a
      rw [this]
      apply listMax_le_of_forall
      intro e he
      split
      · next ea => exact le_listMax (fun o : MVOp ν α => o.clock.get a) (hown e he ea)
      · exact Nat.zero_le _
    have hnew : (s.writeBy a v).clock.get a = s.clock.get a + 1 := by rw [MVReg.get_writeBy, if_pos rfl]
    -- (C) hence the new clock differs from every earlier one
    have hC : ∀ e ∈ L, e.2.clock ≠ (s.writeBy a v).clock := by
      intro e he ee
      have := hbound e he a
      rw [ee, hnew] at this; omega
    refine ⟨⟨?_, ?_⟩, ?_, ?_⟩
    · intro o ho
      simp only [List.map_cons, List.mem_cons] at ho
      rcases ho with e | ho
      · subst e; exact MVReg.noZero_writeBy s a v
      · exact wf.1 o ho
    · intro o ho o' ho' ec
      simp only [List.map_cons, List.mem_cons] at ho ho'
      rcases ho with e | ho <;> rcases ho' with e' | ho'
      · subst e; subst e'; rfl
      · subst e
        obtain ⟨x, hx, ex⟩ := List.mem_map.mp ho'
        subst ex; exact absurd ec.symm (hC x hx)
      · subst e'
        obtain ⟨x, hx, ex⟩ := List.mem_map.mp ho
        subst ex; exact absurd ec (hC x hx)
      · exact wf.2 o ho o' ho' ec
    · intro e he
      rcases List.mem_cons.mp he with ee | he
      · subst ee; exact MVReg.writeBy_nonempty s a v
      · exact hne e he
    · intro e he x
      have hmono : ownMax L x ≤ ownMax ((a, s.writeBy a v) :: L) x := by
        simp only [ownMax, listMax_cons]; omega
      rcases List.mem_cons.mp he with ee | he
      · subst ee
        simp only [ownMax, listMax_cons]
        by_cases ex : a = x
        · subst ex; simp only [if_true]; omega
        · have ex' : ¬ x = a := fun h => ex h.symm
          have : (s.writeBy a v).clock.get x = s.clock.get x := by rw [MVReg.get_writeBy, if_neg ex']
          rw [this]
          have := hA x
          simp only [ownMax] at this
          simp only [ex, if_false]; omega
      · exact Nat.le_trans (hbound e he x) hmono

/-- **generation lemma**: a log of API writes is well-formed – no stored zero, no empty clock, and distinct writes
carry distinct clocks (even with equal values) – so every theorem of this file applies to every replica of the history -/
theorem genLog_wf {L : List (α × MVOp ν α)} (g : GenLog L) : MVWF (L.map (·.2)) := (genLog_inv g).1

theorem genLog_nonempty {L : List (α × MVOp ν α)} (g : GenLog L) : ∀ e ∈ L, e.2.clock.isEmpty = false := (genLog_inv g).2.1

/-- in such a history distinct log positions have distinct clocks (stronger than `MVWF`: also for equal values) -/
theorem genLog_read {L : List (α × MVOp ν α)} (g : GenLog L) {s : MVReg ν α} {K : List (MVOp ν α)}
    (h : Reach (L.map (·.2)) s K) : s.vals.Nodup ∧ ∀ c v, (c, v) ∈ s.vals ↔ Maximal K c v :=
  vals_eq_maximal (genLog_wf g) h

/-! ## non-vacuity: a concrete history meeting the hypotheses -/

section example_
/-- replicas 0 and 1 write concurrently (same value 7), replica 2 then writes 9 having seen only the first -/
def exA : MVOp Nat Nat := (MVReg.init : MVReg Nat Nat).writeBy 0 7
def exB : MVOp Nat Nat := (MVReg.init : MVReg Nat Nat).writeBy 1 7
def exC : MVOp Nat Nat := ((MVReg.init : MVReg Nat Nat).apply exA).writeBy 2 9
def exU : List (MVOp Nat Nat) := [exC, exB, exA]

example : MVSpec.wfB exU = true := by decide
example : MVWF exU := (MVSpec.wfB_iff exU).mp (by decide)
/-- delivered out of causal order (C before A) and by merge: still the maximal puts B and C -/
def exS : MVReg Nat Nat := (((MVReg.init.apply exC).apply exB).apply exA).merge (MVReg.init.apply exA)
example : Reach exU exS ([exA, exB, exC] ++ [exA]) := by
  have hA : exA ∈ exU := by decide
  have hB : exB ∈ exU := by decide
  have hC : exC ∈ exU := by decide
  exact Reach.merge (Reach.apply (Reach.apply (Reach.apply Reach.init hC trivial) hB trivial) hA trivial)
    (Reach.apply Reach.init hA trivial)
example : exS.read.val = [9, 7] := by decide
example : MVSpec.maxPuts ([exA, exB, exC] ++ [exA]) = [(exB.clock, 7), (exC.clock, 9)] := by decide
example : (MVReg.init.apply exA |>.apply exB).read.val = [7, 7] := by decide
example : GenLog [(1, exB), (0, exA)] :=
  GenLog.write (s := MVReg.init) (K := []) 1 7
    (GenLog.write (s := MVReg.init) (K := []) 0 7 GenLog.nil Reach.init (fun e he => by cases he))
    Reach.init (fun e he ea => by
      simp only [List.mem_cons, List.not_mem_nil, or_false] at he
      subst he; simp at ea)
end example_

end Crdt.C06
