import CrdtModel.Proofs.MapNestedOrswot
import CrdtModel.Props.C05
import CrdtModel.Props.C05Nested
set_option linter.unusedSectionVars false
/-!
# C05 (nested contents) — `Map<K, Orswot<M,A>, A>` under causal, op-only delivery: the nested READS are observed-remove

"After a key remove, everything the remover had seen under that key is gone at every replica, while updates it had not seen
remain."  For nested values this is FALSE in general for the unchanged crate (with state merges, with non-causal delivery, for
`MVReg` values: Props/C05.lean, Props/C05Nested.lean).  For **nested `Orswot` values under causal, op-only delivery** it is TRUE
of the nested *reads* and is proved here; the nested *states* may still differ by residue in the nested `deferred` table
(`NestedOrswotExample.states_differ_reads_agree`), so the theorems are about reads on purpose.

**Execution model** (`CMap.ReachC U s L`, Proofs/MapNestedOrswot.lean): `init` and `apply` only; `apply` has the premises of
`CMap.Reach.apply` (op from the universe `U`; each actor's updates in issue order; duplicates allowed) plus the causal premise
on contexts `CtxOk L op`: the context of a key remove `.rm c ks` and of a nested remove `.up d k (.rm c' ms)` is pointwise below
`clk (keyLog L)`, the newest applied update per actor (= the replica clock).  Every causal delivery satisfies it: a context is
read off the author's state, so it only contains dots the author had applied, and a causal receiver has applied those before.
Every `ReachC` derivation is a `CMap.Reach` derivation (`reachC_toReach`).

**Log well-formedness** `NLogWF U`: key-level `LogWF`; a nested add carries the dot of its Map op; counters positive; a dot
names one update.

**Specification** (computable folds over the knowledge list `L`): `M2 L k m a` = newest nested add of `m` under `k` by `a`;
`θ2 L k m a` = how far the known nested removes of `m` under `k` and the known key removes of `k` cover `a`;
`E2 L k m a = if M2 > θ2 then M2 else 0`.

**Theorems**: `nested_orswot_witnesses` (witness table = `E2`), `nested_orswot_member_iff` (membership = "some known add is
covered by no known nested remove of the member and by no known key remove of the key"), `key_remove_wipes_seen` /
`unseen_add_survives` (the English property), `nested_orswot_reads_converge` (same knowledge ⇒ same nested members and remove
contexts), and the invariants used on the way (`nested_clock_le`, `nested_deferred_known`, `map_deferred_empty`).
-/
namespace Crdt.C05
open Crdt LinOrd OrswotSpec CMap Orswot
variable {K M A : Type} [LinOrd K] [LinOrd M] [LinOrd A] {U L L' : List (NOp K M A)} {s s' : CMap K (Orswot M A) A}

/-! ## the region -/

/-- every derivation of the causal region is a derivation of the full execution model: all key-level theorems of C05 apply -/
theorem reachC_toReach (h : ReachC U s L) : CMap.Reach Orswot.valOps U s L := h.toReach

/-- under causal delivery no key remove is ever parked at Map level (`Map::apply_keyset_rm` never defers) -/
theorem map_deferred_empty (wf : NLogWF U) (h : ReachC U s L) : s.deferred = ∅ := h.deferred_empty wf

/-- the dedup gate of `Map::apply` fires only on re-delivered updates -/
theorem dedup_gate_mem (wf : NLogWF U) (h : ReachC U s L) {d : Dot A} {k : K} {o : OrswotOp M A} (hu : MapOp.up d k o ∈ U)
    (g : s.clock.get d.actor ≥ d.counter) : MapOp.up d k o ∈ L := h.gate_mem wf hu g

/-! ## 1. the nested witnesses are the observed-remove specification -/

/-- **nested witnesses = specification**: for every key `k`, member `m` and actor `a`, the witness counter stored for `m` in the
nested set under `k` (0 = none; the default set if `k` is absent) is the newest known nested add of `m` under `k` by `a`, unless a
known nested remove of `m` under `k` or a known key remove of `k` covers it -/
theorem nested_orswot_witnesses (wf : NLogWF U) (h : ReachC U s L) (k : K) (m : M) (a : A) :
    Orswot.entryGet (((s.get k).val).getD Orswot.init).entries m a = E2 L k m a :=
  (nested_inv wf h k).wit m a

/-- (I1) the nested clock is pointwise below the Map clock -/
theorem nested_clock_le (wf : NLogWF U) (h : ReachC U s L) (k : K) (a : A) :
    (((s.get k).val).getD Orswot.init).clock.get a ≤ s.clock.get a :=
  (nested_inv wf h k).clk_le a

/-- (I2) every remove parked in a nested `deferred` table is a known remove: its context is accounted for in `θ2` for each
member it names, hence (causality) it is pointwise below the Map clock -/
theorem nested_deferred_known (wf : NLogWF U) (h : ReachC U s L) (k : K) (c' : VClock A) (S : FSet M)
    (hp : (((s.get k).val).getD Orswot.init).deferred.get? c' = some S) (m : M) (hm : S.contains m = true) (a : A) :
    c'.get a ≤ θ2 L k m a ∧ c'.get a ≤ s.clock.get a := by
  have h1 := (nested_inv wf h k).def_le (c', S) ((mem_l_iff _ (c', S)).mpr hp) m hm a
  have h2 := h.θ2_le_clk k m a
  rw [← h.clock wf a] at h2
  exact ⟨h1, Nat.le_trans h1 h2⟩

/-- (I3) the nested entries are well-formed: no empty witness clock, no stored zero -/
theorem nested_entries_wf (wf : NLogWF U) (h : ReachC U s L) (k : K) :
    EntriesWF (((s.get k).val).getD Orswot.init).entries :=
  (nested_inv wf h k).ewf

/-! ## 2. membership -/

theorem read_iff_nv (k : K) (m : M) :
    (∃ v, (s.get k).val = some v ∧ m ∈ v.read.val) ↔ ((nv s k).entries.get? m).isSome = true := by
  unfold nv
  cases hv : (s.get k).val with
  | none =>
    simp only [Option.getD_none]
    constructor
    · rintro ⟨v, hv', _⟩; cases hv'
    · intro hs; simp [Orswot.init] at hs
  | some v0 =>
    simp only [Option.getD_some, Option.some.injEq]
    rw [← mem_read_iff]
    constructor
    · rintro ⟨v, rfl, hm⟩; exact hm
    · intro hm; exact ⟨v0, rfl, hm⟩

/-- **observed-remove membership of the nested set**: `m` is read under `k` iff the replica knows a nested add of `m` under `k`
(dot `d`) such that every known nested remove of `m` under `k` and every known key remove of `k` has a context that does NOT
cover `d`.  So a member is gone iff every known add of it is covered by something a remover had seen; concurrent / unseen adds
survive. -/
theorem nested_orswot_member_iff (wf : NLogWF U) (h : ReachC U s L) (k : K) (m : M) :
    (∃ v, (s.get k).val = some v ∧ m ∈ v.read.val) ↔
      ∃ d d' ms, MapOp.up d k (OrswotOp.add d' ms) ∈ L ∧ m ∈ ms ∧
        (∀ d2 c' ms', MapOp.up d2 k (OrswotOp.rm c' ms') ∈ L → m ∈ ms' → c'.get d.actor < d.counter) ∧
        (∀ c ks, (MapOp.rm c ks : NOp K M A) ∈ L → k ∈ ks → c.get d.actor < d.counter) := by
  rw [read_iff_nv, (nested_inv wf h k).present_iff m]
  constructor
  · rintro ⟨a, ha⟩
    obtain ⟨d, d', ms, hin, hda, hm, hc⟩ := M2_attained (L := L) (k := k) (m := m) (a := a) (by omega)
    refine ⟨d, d', ms, hin, hm, fun d2 c' ms' hrm hm' => ?_, fun c ks hrm hk => ?_⟩
    · have := le_θ2_nested hrm hm' a
      rw [hda]; omega
    · have := le_θ2_key hrm hk m a
      rw [hda]; omega
  · rintro ⟨d, d', ms, hin, hm, hn, hk⟩
    refine ⟨d.actor, ?_⟩
    have hM := le_M2 hin hm
    have hpos := wf.pos d k _ (h.sub _ hin)
    by_cases hz : θ2 L k m d.actor = 0
    · omega
    · rcases θ2_attained (L := L) (k := k) (m := m) (a := d.actor) (by omega) with ⟨d2, c', ms', hrm, hm', hc⟩ | ⟨c, ks, hrm, hk', hc⟩
      · have := hn d2 c' ms' hrm hm'; omega
      · have := hk c ks hrm hk'; omega

/-- **everything the remover had seen is gone**: if the replica knows a key remove of `k` whose context covers every known
nested add of `m` under `k`, then `m` is not read under `k` – at every replica of the region, whatever the delivery order -/
theorem key_remove_wipes_seen (wf : NLogWF U) (h : ReachC U s L) (k : K) (m : M) {c : VClock A} {ks : List K}
    (hrm : (MapOp.rm c ks : NOp K M A) ∈ L) (hk : k ∈ ks)
    (hseen : ∀ d d' ms, MapOp.up d k (OrswotOp.add d' ms) ∈ L → m ∈ ms → d.counter ≤ c.get d.actor) :
    ¬ ∃ v, (s.get k).val = some v ∧ m ∈ v.read.val := by
  rw [nested_orswot_member_iff wf h k m]
  rintro ⟨d, d', ms, hin, hm, _, hcov⟩
  have := hcov c ks hrm hk
  have := hseen d d' ms hin hm
  omega

/-- **what the removers had not seen remains**: a known nested add of `m` under `k` whose dot no known remove (nested remove of
`m` under `k`, key remove of `k`) covers keeps `m` in the nested set under `k` -/
theorem unseen_add_survives (wf : NLogWF U) (h : ReachC U s L) {k : K} {m : M} {d d' : Dot A} {ms : List M}
    (hin : MapOp.up d k (OrswotOp.add d' ms) ∈ L) (hm : m ∈ ms)
    (hn : ∀ d2 c' ms', MapOp.up d2 k (OrswotOp.rm c' ms') ∈ L → m ∈ ms' → c'.get d.actor < d.counter)
    (hk : ∀ c ks, (MapOp.rm c ks : NOp K M A) ∈ L → k ∈ ks → c.get d.actor < d.counter) :
    ∃ v, (s.get k).val = some v ∧ m ∈ v.read.val :=
  (nested_orswot_member_iff wf h k m).mpr ⟨d, d', ms, hin, hm, hn, hk⟩

/-! ## 3. convergence of the nested reads -/

/-- **same knowledge ⇒ same nested entries**: two replicas of the region that have learned the same ops hold, under every key,
the same presence and the same nested entries table (members with their witness clocks).  The nested `clock` and `deferred`
fields are NOT claimed equal (they are not: `NestedOrswotExample.states_differ_reads_agree`). -/
theorem nested_orswot_entries_converge (wf : NLogWF U) (h : ReachC U s L) (h' : ReachC U s' L') (e : ∀ o, o ∈ L ↔ o ∈ L')
    (k : K) : (s.get k).val.map (·.entries) = (s'.get k).val.map (·.entries) := by
  have hp := ((keys_converge wf.keys h.toReach h'.toReach e).2.2 k).1
  have he : (nv s k).entries = (nv s' k).entries :=
    (nested_inv wf h k).entries_eq (nested_inv wf h' k) (fun m a => M2_congr e k m a) (fun m a => θ2_congr e k m a)
  unfold nv at he
  cases h1 : (s.get k).val <;> cases h2 : (s'.get k).val <;> simp_all

/-- **the nested reads converge**: same knowledge ⇒ for every key the same nested member list (`read`), and for every member
the same `contains` answer with the same remove context -/
theorem nested_orswot_reads_converge (wf : NLogWF U) (h : ReachC U s L) (h' : ReachC U s' L') (e : ∀ o, o ∈ L ↔ o ∈ L')
    (k : K) :
    (s.get k).val.map (fun v => v.read.val) = (s'.get k).val.map (fun v => v.read.val) ∧
    ∀ m, (s.get k).val.map (fun v => ((v.contains m).val, (v.contains m).rmClock)) =
         (s'.get k).val.map (fun v => ((v.contains m).val, (v.contains m).rmClock)) := by
  have he := nested_orswot_entries_converge wf h h' e k
  cases h1 : (s.get k).val with
  | none =>
    cases h2 : (s'.get k).val with
    | none => simp
    | some v' => rw [h1, h2] at he; simp at he
  | some v =>
    cases h2 : (s'.get k).val with
    | none => rw [h1, h2] at he; simp at he
    | some v' =>
      rw [h1, h2] at he
      simp only [Option.map_some, Option.some.injEq] at he
      simp only [Option.map_some, Orswot.read, Orswot.contains, he, true_and]
      intro m; trivial

/-! ## 4. non-vacuity and sharpness (concrete histories, checked by `decide`) -/
namespace NestedOrswotExample

abbrev XOp := NOp Nat Nat Nat
abbrev xops : ValOps (Orswot Nat Nat) (OrswotOp Nat Nat) Nat := Orswot.valOps

/-- a context that is a single dot is dominated as soon as that dot is -/
theorem ctx_ofDot {K' : List (OrswotOp Nat Nat)} (d : Dot Nat) (h : d.counter ≤ clk K' d.actor) :
    ∀ a, (VClock.ofDot d).get a ≤ clk K' a := by
  intro a
  unfold VClock.ofDot
  rw [VClock.get_apply]
  split
  · next e => subst e; simp only [VClock.get_empty]; omega
  · simp

/-! ### a nested add, a concurrent nested add by another actor, a key remove that saw only the first -/

/-- actor 1 adds member 7 to the set under key 10 -/
def a1 : XOp := .up ⟨1, 1⟩ 10 (.add ⟨1, 1⟩ [7])
/-- concurrently, actor 2 adds member 8 to the set under key 10 -/
def a2 : XOp := .up ⟨2, 1⟩ 10 (.add ⟨2, 1⟩ [8])
/-- key 10 is removed by a replica that had seen `a1` only (context = the dot of `a1`) -/
def r : XOp := .rm (VClock.ofDot ⟨1, 1⟩) [10]
def Ux : List XOp := [a1, a2, r]

/-- replica A delivers `a1`, `r`, `a2` (the log is newest first) -/
def LA : List XOp := [a2, r, a1]
def sA : CMap Nat (Orswot Nat Nat) Nat := [a1, r, a2].foldl (CMap.apply xops) CMap.init
/-- replica B delivers `a2`, `a1`, `r` -/
def LB : List XOp := [r, a1, a2]
def sB : CMap Nat (Orswot Nat Nat) Nat := [a2, a1, r].foldl (CMap.apply xops) CMap.init

theorem wfx : NLogWF Ux := by
  refine ⟨⟨fun d ms ms' h1 h2 => ?_, fun c ms h => ?_⟩, fun d k d' ms h => ?_, fun d k o h => ?_, fun d k o k' o' h1 h2 => ?_⟩
  · simp only [Ux, keyLog, keyOp, a1, a2, r, List.map_cons, List.map_nil, List.mem_cons, List.mem_nil_iff, or_false,
      OrswotOp.add.injEq, reduceCtorEq] at h1 h2
    rcases h1 with ⟨rfl, rfl⟩ | ⟨rfl, rfl⟩ <;> rcases h2 with ⟨h, rfl⟩ | ⟨h, rfl⟩ <;> first | rfl | (cases h)
  · simp only [Ux, keyLog, keyOp, a1, a2, r, List.map_cons, List.map_nil, List.mem_cons, List.mem_nil_iff, or_false,
      OrswotOp.rm.injEq, reduceCtorEq, false_or] at h
    rw [h.1]
    exact VClock.noZero_apply VClock.noZero_empty _
  · simp only [Ux, a1, a2, r, List.mem_cons, List.mem_nil_iff, or_false, MapOp.up.injEq, OrswotOp.add.injEq,
      reduceCtorEq] at h
    rcases h with ⟨rfl, _, rfl, _⟩ | ⟨rfl, _, rfl, _⟩ <;> rfl
  · simp only [Ux, a1, a2, r, List.mem_cons, List.mem_nil_iff, or_false, MapOp.up.injEq, reduceCtorEq] at h
    rcases h with ⟨rfl, _, _⟩ | ⟨rfl, _, _⟩ <;> decide
  · simp only [Ux, a1, a2, r, List.mem_cons, List.mem_nil_iff, or_false, MapOp.up.injEq, reduceCtorEq] at h1 h2
    rcases h1 with ⟨rfl, rfl, rfl⟩ | ⟨rfl, rfl, rfl⟩ <;> rcases h2 with ⟨h, rfl, rfl⟩ | ⟨h, rfl, rfl⟩ <;>
      first | exact ⟨rfl, rfl⟩ | (cases h)

/-- all update dots of the universe have counter 1: the per-actor order is trivially respected -/
theorem okx (L : List XOp) (d : Dot Nat) (k : Nat) (hd : d.counter = 1) :
    OrswotSpec.Ok (keyLog Ux) (keyLog L) (OrswotOp.add d [k]) := by
  intro d' ms' hin ha hlt
  simp only [Ux, keyLog, keyOp, a1, a2, r, List.map_cons, List.map_nil, List.mem_cons, List.mem_nil_iff, or_false,
    OrswotOp.add.injEq, reduceCtorEq] at hin
  rcases hin with ⟨rfl, rfl⟩ | ⟨rfl, rfl⟩ <;> (exfalso; simp only at hlt; omega)

theorem reachA : ReachC Ux sA LA := by
  have r1 := ReachC.apply (U := Ux) ReachC.init (op := a1) (by simp [Ux]) (okx _ _ _ rfl) trivial
  have r2 := ReachC.apply r1 (op := r) (by simp [Ux]) trivial (ctx_ofDot _ (by decide))
  exact ReachC.apply r2 (op := a2) (by simp [Ux]) (okx _ _ _ rfl) trivial

theorem reachB : ReachC Ux sB LB := by
  have r1 := ReachC.apply (U := Ux) ReachC.init (op := a2) (by simp [Ux]) (okx _ _ _ rfl) trivial
  have r2 := ReachC.apply r1 (op := a1) (by simp [Ux]) (okx _ _ _ rfl) trivial
  exact ReachC.apply r2 (op := r) (by simp [Ux]) trivial (ctx_ofDot _ (by decide))

/-- both replicas read exactly the member the remover had NOT seen: 8 stays, 7 is gone – in both causal orders -/
example : (sA.get 10).val.map (fun v => v.read.val) = some [8] ∧ (sB.get 10).val.map (fun v => v.read.val) = some [8] := by
  decide

/-- the specification, evaluated, IS what `CMap.apply` computed (both replicas; members 7, 8, 9; actors 1, 2, 3; keys 10, 20) -/
example : ∀ k ∈ [10, 20], ∀ m ∈ [7, 8, 9], ∀ a ∈ [1, 2, 3],
    Orswot.entryGet (((sA.get k).val).getD Orswot.init).entries m a = E2 LA k m a ∧
    Orswot.entryGet (((sB.get k).val).getD Orswot.init).entries m a = E2 LB k m a := by decide

/-- … and the theorems apply to this history (their hypotheses are satisfiable) -/
example (k m a : Nat) : Orswot.entryGet (((sA.get k).val).getD Orswot.init).entries m a = E2 LA k m a :=
  nested_orswot_witnesses wfx reachA k m a

theorem same_knowledge : ∀ o, o ∈ LA ↔ o ∈ LB := by
  intro o
  simp only [LA, LB, List.mem_cons, List.mem_nil_iff, or_false]
  constructor <;> (rintro (h | h | h) <;> simp [h])

example : (sA.get 10).val.map (fun v => v.read.val) = (sB.get 10).val.map (fun v => v.read.val) :=
  (nested_orswot_reads_converge wfx reachA reachB same_knowledge 10).1

/-- 7 is gone because the key remove had seen its only add; 8 survives because the key remove had not seen its add -/
example : ¬ ∃ v, (sA.get 10).val = some v ∧ 7 ∈ v.read.val :=
  key_remove_wipes_seen wfx reachA 10 7 (c := VClock.ofDot ⟨1, 1⟩) (ks := [10]) (by simp [LA, r]) (by simp) (by
    intro d d' ms hin hm
    simp only [LA, a1, a2, r, List.mem_cons, List.mem_nil_iff, or_false, MapOp.up.injEq, OrswotOp.add.injEq,
      reduceCtorEq, false_or] at hin
    rcases hin with ⟨rfl, _, _, rfl⟩ | ⟨rfl, _, _, rfl⟩
    · simp at hm
    · decide)

/-! ### the nested STATES may differ (residue) while the reads agree -/

/-- actor 0 adds member 0 under key 0 -/
def o0 : XOp := .up ⟨0, 1⟩ 0 (.add ⟨0, 1⟩ [0])
/-- actor 0 removes key 0 having seen `o0` -/
def o1 : XOp := .rm (VClock.ofDot ⟨0, 1⟩) [0]
/-- actor 1, having seen `o0`, removes member 0 under key 0 -/
def o5 : XOp := .up ⟨1, 1⟩ 0 (.rm (VClock.ofDot ⟨0, 1⟩) [0])
def Uy : List XOp := [o0, o1, o5]
def tA : CMap Nat (Orswot Nat Nat) Nat := [o0, o1, o5].foldl (CMap.apply xops) CMap.init
def tB : CMap Nat (Orswot Nat Nat) Nat := [o0, o5, o1].foldl (CMap.apply xops) CMap.init

theorem wfy : NLogWF Uy := by
  refine ⟨⟨fun d ms ms' h1 h2 => ?_, fun c ms h => ?_⟩, fun d k d' ms h => ?_, fun d k o h => ?_, fun d k o k' o' h1 h2 => ?_⟩
  · simp only [Uy, keyLog, keyOp, o0, o1, o5, List.map_cons, List.map_nil, List.mem_cons, List.mem_nil_iff, or_false,
      OrswotOp.add.injEq, reduceCtorEq, false_or] at h1 h2
    rcases h1 with ⟨rfl, rfl⟩ | ⟨rfl, rfl⟩ <;> rcases h2 with ⟨h, rfl⟩ | ⟨h, rfl⟩ <;> first | rfl | (cases h)
  · simp only [Uy, keyLog, keyOp, o0, o1, o5, List.map_cons, List.map_nil, List.mem_cons, List.mem_nil_iff, or_false,
      OrswotOp.rm.injEq, reduceCtorEq, false_or] at h
    rw [h.1]
    exact VClock.noZero_apply VClock.noZero_empty _
  · simp only [Uy, o0, o1, o5, List.mem_cons, List.mem_nil_iff, or_false, MapOp.up.injEq, OrswotOp.add.injEq,
      reduceCtorEq, and_false] at h
    obtain ⟨rfl, _, rfl, _⟩ := h; rfl
  · simp only [Uy, o0, o1, o5, List.mem_cons, List.mem_nil_iff, or_false, MapOp.up.injEq, reduceCtorEq, false_or] at h
    rcases h with ⟨rfl, _, _⟩ | ⟨rfl, _, _⟩ <;> decide
  · simp only [Uy, o0, o1, o5, List.mem_cons, List.mem_nil_iff, or_false, MapOp.up.injEq, reduceCtorEq, false_or] at h1 h2
    rcases h1 with ⟨rfl, rfl, rfl⟩ | ⟨rfl, rfl, rfl⟩ <;> rcases h2 with ⟨h, rfl, rfl⟩ | ⟨h, rfl, rfl⟩ <;>
      first | exact ⟨rfl, rfl⟩ | (cases h)

theorem oky (L : List XOp) (d : Dot Nat) (k : Nat) (hd : d.counter = 1) :
    OrswotSpec.Ok (keyLog Uy) (keyLog L) (OrswotOp.add d [k]) := by
  intro d' ms' hin ha hlt
  simp only [Uy, keyLog, keyOp, o0, o1, o5, List.map_cons, List.map_nil, List.mem_cons, List.mem_nil_iff, or_false,
    OrswotOp.add.injEq, reduceCtorEq, false_or] at hin
  rcases hin with ⟨rfl, rfl⟩ | ⟨rfl, rfl⟩ <;> (exfalso; simp only at hlt; omega)

/-- both delivery orders are causal (`o1` and `o5` each only need `o0` first) -/
theorem reach_tA : ReachC Uy tA [o5, o1, o0] := by
  have r1 := ReachC.apply (U := Uy) ReachC.init (op := o0) (by simp [Uy]) (oky _ _ _ rfl) trivial
  have r2 := ReachC.apply r1 (op := o1) (by simp [Uy]) trivial (ctx_ofDot _ (by decide))
  exact ReachC.apply r2 (op := o5) (by simp [Uy]) (oky _ _ _ rfl) (ctx_ofDot _ (by decide))

theorem reach_tB : ReachC Uy tB [o1, o5, o0] := by
  have r1 := ReachC.apply (U := Uy) ReachC.init (op := o0) (by simp [Uy]) (oky _ _ _ rfl) trivial
  have r2 := ReachC.apply r1 (op := o5) (by simp [Uy]) (oky _ _ _ rfl) (ctx_ofDot _ (by decide))
  exact ReachC.apply r2 (op := o1) (by simp [Uy]) trivial (ctx_ofDot _ (by decide))

/-- **the theorems are about reads on purpose**: in the causal region two replicas with the same knowledge may hold DIFFERENT
nested states (this is `C05.Example.outside_region_diverges`: replica A keeps the nested remove parked in the nested `deferred`
table of a re-created default set, replica B does not) – while their nested reads agree, as `nested_orswot_reads_converge` says -/
theorem states_differ_reads_agree :
    (tA.get 0).val ≠ (tB.get 0).val ∧
    (tA.get 0).val.map (fun v => v.read.val) = (tB.get 0).val.map (fun v => v.read.val) ∧
    (tA.get 0).val.map (fun v => v.deferred.size) = some 1 ∧ (tB.get 0).val.map (fun v => v.deferred.size) = some 0 := by
  refine ⟨Example.outside_region_diverges, ?_, ?_, ?_⟩
  · have e : ∀ o, o ∈ [o5, o1, o0] ↔ o ∈ [o1, o5, o0] := by
      intro o
      simp only [List.mem_cons, List.mem_nil_iff, or_false]
      constructor <;> (rintro (h | h | h) <;> simp [h])
    exact (nested_orswot_reads_converge wfy reach_tA reach_tB e 0).1
  · decide
  · decide

/-! ### sharpness of the causal premise: without it the nested reads do NOT follow the specification -/

/-- outside the region (non-causal delivery) the nested reads do NOT follow the specification.  `p5` = actor 1's nested remove
of member 0 under key 0 with context `{0:1}` (it had observed the add `p0`) is delivered BEFORE `p0` – its context is not below
the replica clock, so `CtxOk` fails; it is parked in the nested `deferred` table of the fresh entry.  `p1` = a key remove of
key 0 with context `{1:1}` (it had seen `p5` only) drops the entry, and the parked remove with it.  Then `p0` = the add `⟨0,1⟩` of
member 0 arrives: member 0 is read (witness 1) although the known nested remove covers its only add (`E2 = 0`). -/
theorem causal_premise_needed :
    let p5 : XOp := .up ⟨1, 1⟩ 0 (.rm (VClock.ofDot ⟨0, 1⟩) [0])
    let p1 : XOp := .rm (VClock.ofDot ⟨1, 1⟩) [0]
    let p0 : XOp := .up ⟨0, 1⟩ 0 (.add ⟨0, 1⟩ [0])
    let t := [p5, p1, p0].foldl (CMap.apply xops) CMap.init
    Orswot.entryGet (((t.get 0).val).getD Orswot.init).entries 0 0 = 1 ∧ E2 [p0, p1, p5] 0 0 0 = 0 := by
  decide

end NestedOrswotExample
end Crdt.C05
