import CrdtModel.Props.C04
import CrdtModel.Props.C05
import CrdtModel.Spec.Lattice
set_option linter.unusedSectionVars false
/-!
# C20 — equal knowledge gives structurally equal state; no tombstones remain

Model states are canonical (sorted maps with an extensionality lemma), so Lean `=` on model states coincides with Rust's
derived `==` (which is extensional on `HashMap`/`BTreeMap`/sets).  `converge` concludes `=`.
-/
namespace Crdt.C20
open Crdt LinOrd RepSys OrswotSpec
variable {M A : Type} [LinOrd M] [LinOrd A] {U K K' : List (OrswotOp M A)} {s s' : Orswot M A}

/-- replicas that learned the same updates compare equal with `==` -/
theorem orswot_eq (wf : LogWF U) (h : orswotSys.Reach U s K) (h' : orswotSys.Reach U s' K')
    (e : ∀ o, o ∈ K ↔ o ∈ K') : decide (s = s') = true := by
  simp [converge (R := orswotSys) wf h h' e]

/-- once every known remove's context has been caught up with, no pending remove is kept -/
theorem no_pending_residue (wf : LogWF U) (h : orswotSys.Reach U s K)
    (caught_up : ∀ c ms, OrswotOp.rm c ms ∈ K → ∀ a, c.get a ≤ clk K a) : s.deferred = ∅ := by
  apply FMap.ext
  intro c
  have r := C04.rep wf h
  cases hg : s.deferred.get? c with
  | none => simp
  | some S =>
    exfalso
    obtain ⟨⟨ms, hin⟩, ⟨a, ha⟩⟩ := (r.def_some c).mp (by simp [hg])
    have := caught_up c ms hin a
    omega

/-- no empty entry, no leftover witness: every stored entry has a surviving witness, every stored counter is one -/
theorem no_empty_entry (wf : LogWF U) (h : orswotSys.Reach U s K) (m : M) (mc : VClock A)
    (hg : s.entries.get? m = some mc) : mc.isEmpty = false ∧ mc.NoZero ∧ ∀ a, mc.get a = E K m a := by
  have r := C04.rep wf h
  refine ⟨(r.ewf m mc hg).2, (r.ewf m mc hg).1, fun a => ?_⟩
  have := r.entries m a
  simpa [Orswot.entryGet, hg] using this

/-- a fully removed member leaves nothing behind in `entries` -/
theorem removed_leaves_no_entry (wf : LogWF U) (h : orswotSys.Reach U s K) (m : M)
    (gone : ∀ a, Mx K m a ≤ θ K m a) : s.entries.get? m = none := by
  have r := C04.rep wf h
  cases hg : s.entries.get? m with
  | none => rfl
  | some mc =>
    exfalso
    obtain ⟨a, ha⟩ := (C04.present_iff_witness r m).mp (by simp [hg])
    have := gone a
    unfold E at ha
    split at ha <;> omega

/-- the state is exactly ⟨replica clock, surviving elements with their witnesses, pending removes⟩ – a function of K -/
theorem state_is_function_of_knowledge (wf : LogWF U) (h : orswotSys.Reach U s K) (h' : orswotSys.Reach U s' K) :
    s = s' := converge (R := orswotSys) wf h h' (fun _ => Iff.rfl)

section lattice
variable {α : Type} [LinOrd α]
theorem gcounter_eq {U K K' : List (Dot α)} {s s' : GCounter α} (h : gcounterSys.Reach U s K)
    (h' : gcounterSys.Reach U s' K') (e : ∀ o, o ∈ K ↔ o ∈ K') : decide (s = s') = true := by
  simp [converge (R := gcounterSys) trivial h h' e]
theorem pncounter_eq {U K K' : List (PNOp α)} {s s' : PNCounter α} (h : pncounterSys.Reach U s K)
    (h' : pncounterSys.Reach U s' K') (e : ∀ o, o ∈ K ↔ o ∈ K') : decide (s = s') = true := by
  simp [converge (R := pncounterSys) trivial h h' e]
theorem gset_eq {U K K' : List α} {s s' : GSet α} (h : gsetSys.Reach U s K)
    (h' : gsetSys.Reach U s' K') (e : ∀ o, o ∈ K ↔ o ∈ K') : decide (s = s') = true := by
  simp [converge (R := gsetSys) trivial h h' e]
theorem vclock_eq {U K K' : List (Dot α)} {s s' : VClock α} (h : vclockSys.Reach U s K)
    (h' : vclockSys.Reach U s' K') (e : ∀ o, o ∈ K ↔ o ∈ K') : decide (s = s') = true := by
  simp [converge (R := vclockSys) trivial h h' e]
end lattice

/-! ## Map, key level (any value type) -/
section map
open CMap
variable {K' V VOp : Type} [LinOrd K'] {ops : ValOps V VOp A} {UM L : List (MapOp K' VOp A)} {m : CMap K' V A}

/-- once every known key remove's context has been caught up with, no pending key remove is kept -/
theorem map_no_pending_residue (wf : LogWF (keyLog UM)) (h : CMap.Reach ops UM m L)
    (caught_up : ∀ c ks, MapOp.rm c ks ∈ L → ∀ a, c.get a ≤ clk (keyLog L) a) : m.deferred = ∅ := by
  apply FMap.ext
  intro c
  cases hg : m.deferred.get? c with
  | none => simp
  | some S =>
    exfalso
    obtain ⟨⟨ks, hin⟩, ⟨a, ha⟩⟩ := (C05.deferred_iff wf h c).mp (by simp [hg])
    have := caught_up c ks hin a
    omega

/-- no empty entry: every stored entry clock is non-empty, zero-free and equals the key's surviving witnesses -/
theorem map_no_empty_entry (wf : LogWF (keyLog UM)) (h : CMap.Reach ops UM m L) (k : K') (en : MapEntry V A)
    (hg : m.entries.get? k = some en) : en.clock.isEmpty = false ∧ en.clock.NoZero ∧ ∀ a, en.clock.get a = E (keyLog L) k a := by
  have r := (keys_rep wf h).2
  have hk : m.keysView.entries.get? k = some en.clock := by simp [keysView, hg]
  refine ⟨(r.ewf k en.clock hk).2, (r.ewf k en.clock hk).1, fun a => ?_⟩
  have := r.entries k a
  simpa [Orswot.entryGet, hk] using this

end map

end Crdt.C20
