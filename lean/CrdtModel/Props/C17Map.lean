import CrdtModel.Proofs.MapValidate
import CrdtModel.Props.C17
import CrdtModel.Spec.MapKeys
import CrdtModel.Model.MapInst
set_option linter.unusedSectionVars false
/-!
# C17 for `Map` — `Map::validate_merge` (src/map.rs:211-236)

For EVERY value type:

* exact verdict for ALL pairs of states (`map_ok_iff`): accepted iff (1) no entry of `self` stores a dot `(x, n)` for which
  an entry of `other` under a DIFFERENT key has counter `n` for `x`, and (2) every key held by both sides with concurrent
  entry clocks has nested values that validate;
* clause (1) is exactly `Orswot::validate_merge` on the Orswot of keys (`map_dot_check_is_orswot`), so every Orswot C17
  theorem transfers: in terms of live witnesses (`map_dot_check_shared`), symmetric on well-formed states
  (`map_dot_check_symmetric`), misuse (one dot the live witness of two different keys) is always flagged
  (`map_misuse_flagged`);
* correct use is accepted: Map updates name ONE key per dot, so – unlike `Orswot::add_all` – the key-level clause never
  fires between derivable states (`map_no_double_spent_reachable`); with a value type whose own `validate_merge` never
  fails (MVReg) every pair of derivable Map states is accepted, in both directions (`map_mvreg_ok_reachable`).
-/
namespace Crdt.C17
open Crdt LinOrd CMap

section map
variable {K V VOp A : Type} [LinOrd K] [LinOrd A] (ops : ValOps V VOp A)

/-- **exact verdict, all states, every value type** -/
theorem map_ok_iff (s o : CMap K V A) :
    CMap.validateMerge ops s o = .ok () ↔
      (¬ ∃ k en k' en' x n, s.entries.get? k = some en ∧ o.entries.get? k' = some en' ∧ en.clock.dots.get? x = some n ∧
          k' ≠ k ∧ en'.clock.get x = n) ∧
      (¬ ∃ k en en', s.entries.get? k = some en ∧ o.entries.get? k = some en' ∧ en.clock.concurrent en'.clock = true ∧
          ops.validateMerge en.val en'.val = false) := CMap.validateMerge_ok_iff ops s o

theorem map_error_iff (s o : CMap K V A) :
    (∃ e, CMap.validateMerge ops s o = .error e) ↔ CMap.DotHit s o ∨ CMap.NestedHit ops s o :=
  CMap.validateMerge_error_iff ops s o

/-- the dot clause is `Orswot::validate_merge` on the keys -/
theorem map_dot_check_is_orswot (s o : CMap K V A) :
    ¬ CMap.DotHit s o ↔ s.keysView.validateMerge o.keysView = .ok () := by
  rw [Orswot.validateMerge_ok_iff, CMap.dotHit_iff_keys]

/-- … in terms of live witnesses: no two different keys share a live dot across the two maps -/
theorem map_dot_check_shared {s : CMap K V A} (ws : Orswot.EntriesWF s.keysView.entries) (o : CMap K V A) :
    ¬ CMap.DotHit s o ↔
      ¬ ∃ k k' x, k ≠ k' ∧ Orswot.entryGet s.keysView.entries k x ≠ 0 ∧
        Orswot.entryGet o.keysView.entries k' x = Orswot.entryGet s.keysView.entries k x := by
  rw [map_dot_check_is_orswot]; exact orswot_ok_iff_shared ws o.keysView

/-- … symmetric on well-formed states -/
theorem map_dot_check_symmetric {s o : CMap K V A} (ws : Orswot.EntriesWF s.keysView.entries)
    (wo : Orswot.EntriesWF o.keysView.entries) : CMap.DotHit s o ↔ CMap.DotHit o s := by
  have := orswot_symmetric ws wo
  rw [← map_dot_check_is_orswot, ← map_dot_check_is_orswot] at this
  constructor
  · intro h; exact Classical.byContradiction (fun n => (this.mpr n) h)
  · intro h; exact Classical.byContradiction (fun n => (this.mp n) h)

/-- **misuse is flagged**: one dot the live witness of key `k` here and of a different key `k'` there ⇒ the merge is
rejected, whatever else the maps contain -/
theorem map_misuse_flagged (s o : CMap K V A) {k k' : K} {x : A} (hne : k ≠ k')
    (hz : Orswot.entryGet s.keysView.entries k x ≠ 0)
    (he : Orswot.entryGet o.keysView.entries k' x = Orswot.entryGet s.keysView.entries k x) :
    ∃ e, CMap.validateMerge ops s o = .error e :=
  (map_error_iff ops s o).mpr (Or.inl ((CMap.dotHit_iff_keys s o).mpr (Orswot.hit_of_sharedDot ⟨k, k', x, hne, hz, he⟩)))

variable {ops}
open OrswotSpec

/-- the key-level reading of a Map log names one key per dot -/
theorem keyLog_single (U : List (MapOp K VOp A)) : SingleAdds (keyLog U) := by
  intro d ms h
  obtain ⟨op, _, e⟩ := List.mem_map.mp h
  cases op with
  | rm c ks => cases e
  | up d' k o => simp only [keyOp, OrswotOp.add.injEq] at e; rw [← e.2]; simp

/-- **correct use never trips the dot clause**: any two derivable Map states of one history (live replicas, snapshots,
stale copies; updates of each actor in issue order, key removes unordered, duplicates, merges) -/
theorem map_no_double_spent_reachable {U L L' : List (MapOp K VOp A)} {s o : CMap K V A} (wf : LogWF (keyLog U))
    (hs : CMap.Reach ops U s L) (ho : CMap.Reach ops U o L') : ¬ CMap.DotHit s o := by
  have ra := CMap.keys_rep wf hs
  have rb := CMap.keys_rep wf ho
  rw [map_dot_check_shared ra.2.ewf]
  rintro ⟨m, m', x, hne, hz, he⟩
  rw [ra.2.entries] at hz he
  rw [rb.2.entries] at he
  obtain ⟨d, ms, hin, hda, hm, hc⟩ := witness_is_add hz
  obtain ⟨d', ms', hin', hda', hm', hc'⟩ := witness_is_add (K := keyLog L') (m := m') (x := x) (by rw [he]; exact hz)
  have hd : d = d' := by
    cases d; cases d'; simp only at hda hda' hc hc'
    simp only [Dot.mk.injEq]; exact ⟨by rw [hda, hda'], by rw [hc, hc', he]⟩
  subst hd
  have hms := wf.dot_unique d ms ms' (ra.1.sub _ hin) (rb.1.sub _ hin')
  subst hms
  have hl := keyLog_single U d ms (ra.1.sub _ hin)
  match ms, hm, hm', hl with
  | [y], hm, hm', _ =>
    simp only [List.mem_singleton] at hm hm'
    exact hne (hm.trans hm'.symm)
  | [], hm, _, _ => cases hm
  | _ :: _ :: _, _, _, hl => simp at hl

/-- hence between derivable states the verdict is decided by the nested values alone -/
theorem map_ok_reachable_iff {U L L' : List (MapOp K VOp A)} {s o : CMap K V A} (wf : LogWF (keyLog U))
    (hs : CMap.Reach ops U s L) (ho : CMap.Reach ops U o L') :
    CMap.validateMerge ops s o = .ok () ↔ ¬ CMap.NestedHit ops s o := by
  rw [CMap.validateMerge_ok_iff]
  exact ⟨fun h => h.2, fun h => ⟨map_no_double_spent_reachable wf hs ho, h⟩⟩

/-- a value type whose `validate_merge` never fails ⇒ every pair of derivable maps is accepted -/
theorem map_ok_reachable_of_total (htot : ∀ v v', ops.validateMerge v v' = true)
    {U L L' : List (MapOp K VOp A)} {s o : CMap K V A} (wf : LogWF (keyLog U))
    (hs : CMap.Reach ops U s L) (ho : CMap.Reach ops U o L') : CMap.validateMerge ops s o = .ok () := by
  rw [map_ok_reachable_iff wf hs ho]
  rintro ⟨k, en, en', _, _, _, hv⟩
  rw [htot] at hv; cases hv

end map

/-- **`Map<K, MVReg>`: correct use is accepted, in both directions** -/
theorem map_mvreg_ok_reachable {K ν A : Type} [LinOrd K] [LinOrd A] [DecidableEq ν]
    {U L L' : List (MapOp K (MVOp ν A) A)} {s o : CMap K (MVReg ν A) A} (wf : OrswotSpec.LogWF (keyLog U))
    (hs : CMap.Reach MVReg.valOps U s L) (ho : CMap.Reach MVReg.valOps U o L') :
    CMap.validateMerge MVReg.valOps s o = .ok () ∧ CMap.validateMerge MVReg.valOps o s = .ok () :=
  ⟨map_ok_reachable_of_total (fun _ _ => rfl) wf hs ho, map_ok_reachable_of_total (fun _ _ => rfl) wf ho hs⟩

/-! ## non-vacuity / misuse example: actor 0 used at two replicas for keys 5 and 6 -/
section example_
def mA : CMap Nat (MVReg Nat Nat) Nat := CMap.apply MVReg.valOps CMap.init (.up ⟨0, 1⟩ 5 ⟨(∅ : VClock Nat).apply ⟨0, 1⟩, 1⟩)
def mB : CMap Nat (MVReg Nat Nat) Nat := CMap.apply MVReg.valOps CMap.init (.up ⟨0, 1⟩ 6 ⟨(∅ : VClock Nat).apply ⟨0, 1⟩, 2⟩)
def mC : CMap Nat (MVReg Nat Nat) Nat := CMap.apply MVReg.valOps CMap.init (.up ⟨1, 1⟩ 6 ⟨(∅ : VClock Nat).apply ⟨1, 1⟩, 2⟩)
example : (match CMap.validateMerge MVReg.valOps mA mB with | .error .doubleSpentDot => true | _ => false) = true := by decide
example : (match CMap.validateMerge MVReg.valOps mB mA with | .error .doubleSpentDot => true | _ => false) = true := by decide
example : (match CMap.validateMerge MVReg.valOps mA mC with | .ok _ => true | _ => false) = true := by decide
end example_

end Crdt.C17
