import CrdtModel.Spec.Codec
import CrdtModel.Spec.Lattice
import CrdtModel.Spec.MVReg
import CrdtModel.Spec.OrswotSys
import CrdtModel.Props.C04
import CrdtModel.Proofs.MerkleReg
/-!
# C19 — serialised replicas and ops round-trip and resume identically

`Model/Codec.lean` models, type by type, what the crate's `#[derive(Serialize, Deserialize)]` impls produce with
serde_json (JSON tree `Model/Json.lean`; the text printed from the tree is compared byte for byte with the real crate's
text by the correspondence profiles `persist_hist` / `serde_vectors`).  Theorems, for ALL values (no size bound):

* `*_roundtrip`: whenever `encode x = ok j`, `decode j = some x` – structurally the same value (for `MVReg`, whose
  Rust `==` is coarser than structural equality, even the `Vec` order is restored);
* `*_encode_total`: every state/op of a type without a `deferred` table can be encoded;
* `orswot_encode_fails_iff`, `map_encode_fails_iff` (+ the three nested instantiations): `encode` fails **iff** some
  `deferred` table (at any nesting level) is non-empty, and then with `key must be a string` (`*_error_text`);
  `orswot_reachable_encode_fails_iff`: for a REACHABLE Orswot replica that is the case iff it knows a remove whose
  context is ahead of its clock – known defect F9 (`Witness/SerdeDeferred.lean`);
* `persist_anywhere` (+ `_equiv` for `MVReg`): replacing a replica's state by `decode (encode s)` at any point of any
  derivation yields the same state; `restored_behaves_identically`: hence every later apply/merge/read agrees.

Element types (actors, members, keys, values, markers) enter through their codecs; the hypotheses `Scalar.Lawful` /
`Codec.RoundTrip` / `Codec.Total` on them are PROVED for `u64` (`Scalar.nat_lawful`: decimal map keys via the standard
library's `Nat.toNat?_repr`), which is the instantiation the driver runs (`*_u64` corollaries: no hypothesis left).
Leaf facts proved, not assumed: `BigInt` base-2^32 digits (`ofDigits32_digits32`, `digits32_lt`), sign·magnitude,
`Rat` from numerator/denominator (`Rat.num_divInt_den`), map keys, collecting a sorted sequence into a map/set
(`FMap.ofList_l`).  Abstract: MerkleReg hashes (the codec of `[u8; 32]` is a parameter with hypothesis `RoundTrip`/`Total`).
-/
set_option linter.unusedSectionVars false
namespace Crdt.C19
open Crdt LinOrd

/-! ## round trips -/
section roundtrip
variable {α M K V VOp ν μ τ H : Type} [LinOrd α] [LinOrd M] [LinOrd K] [LinOrd H]

theorem dot_roundtrip {a : Codec α} (ha : a.RoundTrip) (d : Dot α) (j : Json) (h : (dotCodec a).enc d = .ok j) :
    (dotCodec a).dec j = some d := dot_roundTrip ha d j h

theorem vclock_roundtrip {k : KeyCodec α} (hk : k.RoundTrip) (c : VClock α) (j : Json) (h : (clockCodec k).enc c = .ok j) :
    (clockCodec k).dec j = some c := clock_roundTrip hk c j h

theorem gcounter_roundtrip {k : KeyCodec α} (hk : k.RoundTrip) (s : GCounter α) (j : Json)
    (h : (gcounterCodec k).enc s = .ok j) : (gcounterCodec k).dec j = some s := gcounter_roundTrip hk s j h

theorem pncounter_roundtrip {k : KeyCodec α} (hk : k.RoundTrip) (s : PNCounter α) (j : Json)
    (h : (pncounterCodec k).enc s = .ok j) : (pncounterCodec k).dec j = some s := pncounter_roundTrip hk s j h

theorem pncounter_op_roundtrip {a : Codec α} (ha : a.RoundTrip) (o : PNOp α) (j : Json)
    (h : (pnOpCodec a).enc o = .ok j) : (pnOpCodec a).dec j = some o := pnOp_roundTrip ha o j h

theorem gset_roundtrip [LinOrd τ] {m : Codec τ} (hm : m.RoundTrip) (s : GSet τ) (j : Json)
    (h : (gsetCodec m).enc s = .ok j) : (gsetCodec m).dec j = some s := gset_roundTrip hm s j h

theorem lwwreg_roundtrip {v : Codec ν} {m : Codec μ} (hv : v.RoundTrip) (hm : m.RoundTrip) (s : LWWReg ν μ) (j : Json)
    (h : (lwwCodec v m).enc s = .ok j) : (lwwCodec v m).dec j = some s := lww_roundTrip hv hm s j h

theorem maxreg_roundtrip {v : Codec ν} (hv : v.RoundTrip) (s : MaxReg ν) (j : Json)
    (h : (maxregCodec v).enc s = .ok j) : (maxregCodec v).dec j = some s := maxreg_roundTrip hv s j h

theorem minreg_roundtrip {v : Codec ν} (hv : v.RoundTrip) (s : MinReg ν) (j : Json)
    (h : (minregCodec v).enc s = .ok j) : (minregCodec v).dec j = some s := minreg_roundTrip hv s j h

/-- the restored register is STRUCTURALLY the original (same `Vec`, same order), not just `==` -/
theorem mvreg_roundtrip {k : KeyCodec α} {v : Codec ν} (hk : k.RoundTrip) (hv : v.RoundTrip) (s : MVReg ν α) (j : Json)
    (h : (mvregCodec k v).enc s = .ok j) : (mvregCodec k v).dec j = some s := mvreg_roundTrip hk hv s j h

theorem mvreg_op_roundtrip {k : KeyCodec α} {v : Codec ν} (hk : k.RoundTrip) (hv : v.RoundTrip) (o : MVOp ν α) (j : Json)
    (h : (mvOpCodec k v).enc o = .ok j) : (mvOpCodec k v).dec j = some o := mvOp_roundTrip hk hv o j h

theorem orswot_roundtrip {m : Scalar M} {a : Scalar α} (hm : m.Lawful) (ha : a.Lawful) (s : Orswot M α) (j : Json)
    (h : (orswotCodec m a).enc s = .ok j) : (orswotCodec m a).dec j = some s := orswot_roundTrip hm ha s j h

theorem orswot_op_roundtrip {m : Scalar M} {a : Scalar α} (hm : m.Lawful) (ha : a.Lawful) (o : OrswotOp M α) (j : Json)
    (h : (orswotOpCodec m a).enc o = .ok j) : (orswotOpCodec m a).dec j = some o := orswotOp_roundTrip hm ha o j h

/-- `Map` over ANY value type whose codec round-trips (hence at any nesting depth) -/
theorem map_roundtrip {k : Scalar K} {a : Scalar α} {v : Codec V} (hk : k.Lawful) (ha : a.Lawful) (hv : v.RoundTrip)
    (s : CMap K V α) (j : Json) (h : (mapCodec k a v).enc s = .ok j) : (mapCodec k a v).dec j = some s :=
  cmap_roundTrip hk ha hv s j h

/-- map ops: the key set of a remove is a `BTreeSet` – held by the model as a list, which must be strictly increasing
(`MapOp.WF`; what `Map::rm` and the script parser produce); nested ops satisfy the nested type's condition `Q` -/
theorem map_op_roundtrip {k : Scalar K} {a : Scalar α} {o : Codec VOp} {Q : VOp → Prop} (hk : k.Lawful) (ha : a.Lawful)
    (ho : o.RoundTripOn Q) (op : MapOp K VOp α) (wf : MapOp.WF Q op) (j : Json) (h : (mapOpCodec k a o).enc op = .ok j) :
    (mapOpCodec k a o).dec j = some op := mapOp_roundTripOn hk ha ho op wf j h

theorem bigint_roundtrip (z : Int) (j : Json) (h : bigIntCodec.enc z = .ok j) : bigIntCodec.dec j = some z :=
  bigInt_roundTrip z j h

theorem rational_roundtrip (r : Rat) (j : Json) (h : ratCodec.enc r = .ok j) : ratCodec.dec j = some r :=
  rat_roundTrip r j h

theorem identifier_roundtrip {m : Codec τ} (hm : m.RoundTrip) (i : Identifier τ) (j : Json)
    (h : (identCodec m).enc i = .ok j) : (identCodec m).dec j = some i := ident_roundTrip hm i j h

theorem glist_roundtrip [LinOrd τ] {m : Codec τ} (hm : m.RoundTrip) (s : GList τ) (j : Json)
    (h : (glistCodec m).enc s = .ok j) : (glistCodec m).dec j = some s := glist_roundTrip hm s j h

theorem glist_op_roundtrip {m : Codec τ} (hm : m.RoundTrip) (o : GListOp τ) (j : Json)
    (h : (glistOpCodec m).enc o = .ok j) : (glistOpCodec m).dec j = some o := glistOp_roundTrip hm o j h

theorem list_roundtrip {a : Scalar α} {v : Codec τ} (ha : a.Lawful) (hv : v.RoundTrip) (s : ListCrdt τ α) (j : Json)
    (h : (listCodec a v).enc s = .ok j) : (listCodec a v).dec j = some s := Crdt.list_roundTrip ha hv s j h

theorem list_op_roundtrip {a : Scalar α} {v : Codec τ} (ha : a.Lawful) (hv : v.RoundTrip) (o : ListOp τ α) (j : Json)
    (h : (listOpCodec a v).enc o = .ok j) : (listOpCodec a v).dec j = some o := listOp_roundTrip ha hv o j h

/-- MerkleReg over abstract hashes: given a lawful codec for `Hash = [u8; 32]` -/
theorem merkle_roundtrip {hc : Codec H} {v : Codec τ} (hh : hc.RoundTrip) (hv : v.RoundTrip) (s : MerkleReg H τ) (j : Json)
    (h : (merkleCodec hc v).enc s = .ok j) : (merkleCodec hc v).dec j = some s := merkle_roundTrip hh hv s j h

theorem merkle_op_roundtrip {hc : Codec H} {v : Codec τ} (hh : hc.RoundTrip) (hv : v.RoundTrip) (n : Node H τ) (j : Json)
    (h : (nodeCodec hc v).enc n = .ok j) : (nodeCodec hc v).dec j = some n := node_roundTrip hh hv n j h

end roundtrip

/-! ## which values can be encoded -/
section total
variable {α M K V VOp ν μ τ H : Type} [LinOrd α] [LinOrd M] [LinOrd K] [LinOrd H]

theorem dot_encode_total {a : Codec α} (ha : a.Total) (d : Dot α) : ∃ j, (dotCodec a).enc d = .ok j := dot_total ha d
theorem vclock_encode_total {k : KeyCodec α} (c : VClock α) : ∃ j, (clockCodec k).enc c = .ok j := clock_total c
theorem gcounter_encode_total {k : KeyCodec α} (s : GCounter α) : ∃ j, (gcounterCodec k).enc s = .ok j := gcounter_total s
theorem pncounter_encode_total {k : KeyCodec α} (s : PNCounter α) : ∃ j, (pncounterCodec k).enc s = .ok j := pncounter_total s
theorem pncounter_op_encode_total {a : Codec α} (ha : a.Total) (o : PNOp α) : ∃ j, (pnOpCodec a).enc o = .ok j := pnOp_total ha o
theorem gset_encode_total [LinOrd τ] {m : Codec τ} (hm : m.Total) (s : GSet τ) : ∃ j, (gsetCodec m).enc s = .ok j := gset_total hm s
theorem lwwreg_encode_total {v : Codec ν} {m : Codec μ} (hv : v.Total) (hm : m.Total) (s : LWWReg ν μ) :
    ∃ j, (lwwCodec v m).enc s = .ok j := lww_total hv hm s
theorem maxreg_encode_total {v : Codec ν} (hv : v.Total) (s : MaxReg ν) : ∃ j, (maxregCodec v).enc s = .ok j := maxreg_total hv s
theorem minreg_encode_total {v : Codec ν} (hv : v.Total) (s : MinReg ν) : ∃ j, (minregCodec v).enc s = .ok j := minreg_total hv s
theorem mvreg_encode_total {k : KeyCodec α} {v : Codec ν} (hv : v.Total) (s : MVReg ν α) :
    ∃ j, (mvregCodec k v).enc s = .ok j := mvreg_total hv s
theorem mvreg_op_encode_total {k : KeyCodec α} {v : Codec ν} (hv : v.Total) (o : MVOp ν α) :
    ∃ j, (mvOpCodec k v).enc o = .ok j := mvOp_total hv o
/-- every Orswot OP can be encoded (a remove carries its clock as a value, not as a key) -/
theorem orswot_op_encode_total {m : Scalar M} {a : Scalar α} (hm : m.Lawful) (ha : a.Lawful) (o : OrswotOp M α) :
    ∃ j, (orswotOpCodec m a).enc o = .ok j := orswotOp_total hm ha o
theorem map_op_encode_total {k : Scalar K} {a : Scalar α} {o : Codec VOp} (hk : k.Lawful) (ha : a.Lawful) (ho : o.Total)
    (op : MapOp K VOp α) : ∃ j, (mapOpCodec k a o).enc op = .ok j := mapOp_total hk ha ho op
theorem identifier_encode_total {m : Codec τ} (hm : m.Total) (i : Identifier τ) : ∃ j, (identCodec m).enc i = .ok j := ident_total hm i
theorem glist_encode_total [LinOrd τ] {m : Codec τ} (hm : m.Total) (s : GList τ) : ∃ j, (glistCodec m).enc s = .ok j := glist_total hm s
theorem glist_op_encode_total {m : Codec τ} (hm : m.Total) (o : GListOp τ) : ∃ j, (glistOpCodec m).enc o = .ok j := glistOp_total hm o
theorem list_encode_total {a : Scalar α} {v : Codec τ} (ha : a.Lawful) (hv : v.Total) (s : ListCrdt τ α) :
    ∃ j, (listCodec a v).enc s = .ok j := Crdt.list_total ha hv s
theorem list_op_encode_total {a : Scalar α} {v : Codec τ} (ha : a.Lawful) (hv : v.Total) (o : ListOp τ α) :
    ∃ j, (listOpCodec a v).enc o = .ok j := listOp_total ha hv o
theorem merkle_encode_total {hc : Codec H} {v : Codec τ} (hh : hc.Total) (hv : v.Total) (s : MerkleReg H τ) :
    ∃ j, (merkleCodec hc v).enc s = .ok j := merkle_total hh hv s
theorem merkle_op_encode_total {hc : Codec H} {v : Codec τ} (hh : hc.Total) (hv : v.Total) (n : Node H τ) :
    ∃ j, (nodeCodec hc v).enc n = .ok j := node_total hh hv n

/-- **F9**: an Orswot state cannot be encoded iff it holds a pending (deferred) remove -/
theorem orswot_encode_fails_iff {m : Scalar M} {a : Scalar α} (s : Orswot M α) :
    (∃ e, (orswotCodec m a).enc s = .error e) ↔ s.deferred.isEmpty = false := orswot_fails

/-- … and it can be encoded iff it holds none -/
theorem orswot_encode_ok_iff {m : Scalar M} {a : Scalar α} (s : Orswot M α) :
    (∃ j, (orswotCodec m a).enc s = .ok j) ↔ s.deferred.isEmpty = true := by
  rw [← Codec.not_fails_iff, orswot_fails]; simp

theorem orswot_error_text {m : Scalar M} {a : Scalar α} (s : Orswot M α) (e : String)
    (h : (orswotCodec m a).enc s = .error e) : e = "key must be a string" := orswot_onlyKeyError s e h

/-- **F9, Map at any nesting level**: a Map cannot be encoded iff its own `deferred` table is non-empty or one of its
values cannot be encoded; `HD` is the value type's own "holds a non-empty deferred table somewhere" (False for `MVReg`,
`deferred ≠ ∅` for `Orswot`, this very statement again for a nested `Map`) -/
theorem map_encode_fails_iff {k : Scalar K} {a : Scalar α} {v : Codec V} {HD : V → Prop}
    (hv : ∀ x, (∃ e, v.enc x = .error e) ↔ HD x) (s : CMap K V α) :
    (∃ e, (mapCodec k a v).enc s = .error e) ↔
      (s.deferred.isEmpty = false ∨ ∃ key en, s.entries.get? key = some en ∧ HD en.val) := by
  have := cmap_fails (k := k) (a := a) (v := v) (s := s)
  unfold Codec.Fails at this
  simp only [hv] at this
  exact this

theorem map_error_text {k : Scalar K} {a : Scalar α} {v : Codec V}
    (hv : ∀ x e, v.enc x = .error e → e = "key must be a string") (s : CMap K V α) (e : String)
    (h : (mapCodec k a v).enc s = .error e) : e = "key must be a string" := cmap_onlyKeyError hv s e h

end total

/-! ## the instantiations of the driver (`u64` everywhere): nothing assumed -/
section u64
abbrev NS := Scalar.nat
abbrev mvC : Codec (MVReg Nat Nat) := mvregCodec KeyCodec.nat Codec.nat
abbrev mvOpC : Codec (MVOp Nat Nat) := mvOpCodec KeyCodec.nat Codec.nat
abbrev orC : Codec (Orswot Nat Nat) := orswotCodec NS NS
abbrev orOpC : Codec (OrswotOp Nat Nat) := orswotOpCodec NS NS

theorem orswot_roundtrip_u64 (s : Orswot Nat Nat) (j : Json) (h : orC.enc s = .ok j) : orC.dec j = some s :=
  orswot_roundTrip Scalar.nat_lawful Scalar.nat_lawful s j h

/-- `Map<u64, MVReg<u64,u64>, u64>`: fails iff the map's `deferred` is non-empty -/
theorem map_mvreg_encode_fails_iff (s : CMap Nat (MVReg Nat Nat) Nat) :
    (∃ e, (mapCodec NS NS mvC).enc s = .error e) ↔ s.deferred.isEmpty = false := by
  rw [map_encode_fails_iff (HD := fun _ => False)]
  · simp
  · intro x
    have := (mvreg_total (k := KeyCodec.nat) Codec.nat_total).not_fails x
    unfold Codec.Fails at this
    simp [this]

theorem map_mvreg_roundtrip (s : CMap Nat (MVReg Nat Nat) Nat) (j : Json) (h : (mapCodec NS NS mvC).enc s = .ok j) :
    (mapCodec NS NS mvC).dec j = some s :=
  cmap_roundTrip Scalar.nat_lawful Scalar.nat_lawful (mvreg_roundTrip KeyCodec.nat_roundTrip Codec.nat_roundTrip) s j h

/-- `Map<u64, Orswot<u64,u64>, u64>`: fails iff the map's own table or the table of one of the nested sets is non-empty -/
theorem map_orswot_encode_fails_iff (s : CMap Nat (Orswot Nat Nat) Nat) :
    (∃ e, (mapCodec NS NS orC).enc s = .error e) ↔
      (s.deferred.isEmpty = false ∨ ∃ key en, s.entries.get? key = some en ∧ en.val.deferred.isEmpty = false) :=
  map_encode_fails_iff (fun x => orswot_encode_fails_iff x) s

theorem map_orswot_roundtrip (s : CMap Nat (Orswot Nat Nat) Nat) (j : Json) (h : (mapCodec NS NS orC).enc s = .ok j) :
    (mapCodec NS NS orC).dec j = some s :=
  cmap_roundTrip Scalar.nat_lawful Scalar.nat_lawful (orswot_roundTrip Scalar.nat_lawful Scalar.nat_lawful) s j h

/-- `Map<u64, Map<u64, MVReg>, u64>`: fails iff the outer table or the table of one of the inner maps is non-empty -/
theorem map_map_mvreg_encode_fails_iff (s : CMap Nat (CMap Nat (MVReg Nat Nat) Nat) Nat) :
    (∃ e, (mapCodec NS NS (mapCodec NS NS mvC)).enc s = .error e) ↔
      (s.deferred.isEmpty = false ∨ ∃ key en, s.entries.get? key = some en ∧ en.val.deferred.isEmpty = false) :=
  map_encode_fails_iff (fun x => map_mvreg_encode_fails_iff x) s

theorem map_map_mvreg_roundtrip (s : CMap Nat (CMap Nat (MVReg Nat Nat) Nat) Nat) (j : Json)
    (h : (mapCodec NS NS (mapCodec NS NS mvC)).enc s = .ok j) : (mapCodec NS NS (mapCodec NS NS mvC)).dec j = some s :=
  cmap_roundTrip Scalar.nat_lawful Scalar.nat_lawful
    (cmap_roundTrip Scalar.nat_lawful Scalar.nat_lawful (mvreg_roundTrip KeyCodec.nat_roundTrip Codec.nat_roundTrip)) s j h

/-- ops of the doubly nested map (`Up{Up{Put}}`, `Up{Rm}`, `Rm`) -/
theorem map_map_mvreg_op_roundtrip (op : MapOp Nat (MapOp Nat (MVOp Nat Nat) Nat) Nat)
    (wf : MapOp.WF (MapOp.WF (fun _ => True)) op) (j : Json)
    (h : (mapOpCodec NS NS (mapOpCodec NS NS mvOpC)).enc op = .ok j) :
    (mapOpCodec NS NS (mapOpCodec NS NS mvOpC)).dec j = some op :=
  mapOp_roundTripOn Scalar.nat_lawful Scalar.nat_lawful
    (mapOp_roundTripOn Scalar.nat_lawful Scalar.nat_lawful
      ((mvOp_roundTrip KeyCodec.nat_roundTrip Codec.nat_roundTrip).on _)) op wf j h

theorem list_roundtrip_u64 (s : ListCrdt Nat Nat) (j : Json) (h : (listCodec NS Codec.nat).enc s = .ok j) :
    (listCodec NS Codec.nat).dec j = some s := Crdt.list_roundTrip Scalar.nat_lawful Codec.nat_roundTrip s j h

theorem glist_roundtrip_u64 (s : GList Nat) (j : Json) (h : (glistCodec Codec.nat).enc s = .ok j) :
    (glistCodec Codec.nat).dec j = some s := glist_roundTrip Codec.nat_roundTrip s j h
end u64

/-! ## persistence at any point of a history -/
section persist
variable {σ ω β : Type}

/-- the value read back is the value written -/
theorem restored_eq {c : Codec σ} (hc : c.RoundTrip) {s s' : σ} {j : Json} (he : c.enc s = .ok j) (hd : c.dec j = some s') :
    s' = s := by
  have := hc s j he; rw [this] at hd; cases hd; rfl

/-- … hence it behaves identically under EVERY later apply, merge, read, validate, `==` (any function of the state) -/
theorem restored_behaves_identically {c : Codec σ} (hc : c.RoundTrip) {s s' : σ} {j : Json} (he : c.enc s = .ok j)
    (hd : c.dec j = some s') (f : σ → β) : f s' = f s := by rw [restored_eq hc he hd]

/-- **persist anywhere**: derivations that serialise a replica and continue with the deserialised value, at any points and
any number of times, produce exactly the states of the derivations without persistence -/
theorem persist_anywhere (R : RepSys σ ω) {c : Codec σ} (hc : c.RoundTrip) {U : List ω} {s : σ} {K : List ω} :
    R.ReachP c U s K ↔ R.Reach U s K := ⟨RepSys.reach_of_reachP hc, RepSys.reachP_of_reach⟩

/-- the same for the systems whose states are compared up to an equivalence (`MVReg`): the SAME derivable states -/
theorem persist_anywhere_equiv (R : RepSysE σ ω) {c : Codec σ} (hc : c.RoundTrip) {U : List ω} {s : σ} {K : List ω} :
    R.ReachP c U s K ↔ R.Reach U s K := ⟨RepSysE.reach_of_reachP hc, RepSysE.reachP_of_reach⟩
end persist

/-- the same for ANY type given by `init`/`apply`/`merge` (no representation theorem needed: Map with nested values,
List, GList): the states obtainable with persistence steps anywhere are the states obtainable without -/
theorem persist_anywhere_any {σ ω : Type} (S : StateSys σ ω) {c : Codec σ} (hc : c.RoundTrip) {s : σ} :
    S.RunsP c s ↔ S.Runs s := ⟨StateSys.runs_of_runsP hc, StateSys.runsP_of_runs⟩

section instances
variable {α M ν μ τ H : Type} [LinOrd α] [LinOrd M] [LinOrd H]

theorem orswot_persist_anywhere {m : Scalar M} {a : Scalar α} (hm : m.Lawful) (ha : a.Lawful)
    {U K : List (OrswotOp M α)} {s : Orswot M α} :
    orswotSys.ReachP (orswotCodec m a) U s K ↔ orswotSys.Reach U s K := persist_anywhere _ (orswot_roundTrip hm ha)

theorem mvreg_persist_anywhere {k : KeyCodec α} {v : Codec ν} (hk : k.RoundTrip) (hv : v.RoundTrip)
    {U K : List (MVOp ν α)} {s : MVReg ν α} :
    mvregSys.ReachP (mvregCodec k v) U s K ↔ mvregSys.Reach U s K := persist_anywhere_equiv _ (mvreg_roundTrip hk hv)

theorem gcounter_persist_anywhere {k : KeyCodec α} (hk : k.RoundTrip) {U K : List (Dot α)} {s : GCounter α} :
    gcounterSys.ReachP (gcounterCodec k) U s K ↔ gcounterSys.Reach U s K := persist_anywhere _ (gcounter_roundTrip hk)

theorem pncounter_persist_anywhere {k : KeyCodec α} (hk : k.RoundTrip) {U K : List (PNOp α)} {s : PNCounter α} :
    pncounterSys.ReachP (pncounterCodec k) U s K ↔ pncounterSys.Reach U s K := persist_anywhere _ (pncounter_roundTrip hk)

theorem vclock_persist_anywhere {k : KeyCodec α} (hk : k.RoundTrip) {U K : List (Dot α)} {s : VClock α} :
    vclockSys.ReachP (clockCodec k) U s K ↔ vclockSys.Reach U s K := persist_anywhere _ (clock_roundTrip hk)

theorem gset_persist_anywhere [LinOrd τ] {m : Codec τ} (hm : m.RoundTrip) {U K : List τ} {s : GSet τ} :
    gsetSys.ReachP (gsetCodec m) U s K ↔ gsetSys.Reach U s K := persist_anywhere _ (gset_roundTrip hm)

theorem merkle_persist_anywhere {hc : Codec H} {v : Codec τ} (hh : hc.RoundTrip) (hv : v.RoundTrip) (hash : Node H τ → H)
    {U K : List (Node H τ)} {s : MerkleReg H τ} :
    (MerkleSpec.merkleSys hash).ReachP (merkleCodec hc v) U s K ↔ (MerkleSpec.merkleSys hash).Reach U s K :=
  persist_anywhere _ (merkle_roundTrip hh hv)

theorem maxreg_persist_anywhere [LinOrd ν] {v : Codec ν} (hv : v.RoundTrip) (v0 : ν) {U K : List ν} {s : MaxReg ν} :
    (maxregSys v0).ReachP (maxregCodec v) U s K ↔ (maxregSys v0).Reach U s K := persist_anywhere _ (maxreg_roundTrip hv)

theorem minreg_persist_anywhere [LinOrd ν] {v : Codec ν} (hv : v.RoundTrip) (v0 : ν) {U K : List ν} {s : MinReg ν} :
    (minregSys v0).ReachP (minregCodec v) U s K ↔ (minregSys v0).Reach U s K := persist_anywhere _ (minreg_roundTrip hv)

theorem lwwreg_persist_anywhere [DecidableEq ν] [LinOrd μ] {v : Codec ν} {m : Codec μ} (hv : v.RoundTrip) (hm : m.RoundTrip)
    (r0 : LWWReg ν μ) {U K : List (LWWReg ν μ)} {s : LWWReg ν μ} :
    (lwwSys r0).ReachP (lwwCodec v m) U s K ↔ (lwwSys r0).Reach U s K := persist_anywhere _ (lww_roundTrip hv hm)

/-- `Map` over any value type (given the value type's operations and a round-tripping value codec) -/
theorem map_persist_anywhere {K V VOp : Type} [LinOrd K] {k : Scalar K} {a : Scalar α} {v : Codec V} (hk : k.Lawful)
    (ha : a.Lawful) (hv : v.RoundTrip) (ops : ValOps V VOp α) {s : CMap K V α} :
    (StateSys.mk CMap.init (CMap.apply ops) (CMap.merge ops)).RunsP (mapCodec k a v) s ↔
      (StateSys.mk CMap.init (CMap.apply ops) (CMap.merge ops)).Runs s :=
  persist_anywhere_any _ (cmap_roundTrip hk ha hv)

/-- `List` (no state merge in the crate: `merge` is instantiated with "keep the left state") -/
theorem list_persist_anywhere {a : Scalar α} {v : Codec τ} (ha : a.Lawful) (hv : v.RoundTrip) {s : ListCrdt τ α} :
    (StateSys.mk ListCrdt.new ListCrdt.apply (fun x _ => x)).RunsP (listCodec a v) s ↔
      (StateSys.mk (ω := ListOp τ α) ListCrdt.new ListCrdt.apply (fun x _ => x)).Runs s :=
  persist_anywhere_any _ (Crdt.list_roundTrip ha hv)

theorem glist_persist_anywhere [LinOrd τ] {m : Codec τ} (hm : m.RoundTrip) {s : GList τ} :
    (StateSys.mk GList.new GList.apply GList.merge).RunsP (glistCodec m) s ↔
      (StateSys.mk GList.new GList.apply GList.merge).Runs s :=
  persist_anywhere_any _ (glist_roundTrip hm)

/-- MerkleReg with hashes represented as byte lists: the hash-codec hypothesis is discharged -/
theorem merkle_roundtrip_bytes {v : Codec τ} (hv : v.RoundTrip) (s : MerkleReg (List Nat) τ) (j : Json)
    (h : (merkleCodec (Codec.list Codec.nat) v).enc s = .ok j) : (merkleCodec (Codec.list Codec.nat) v).dec j = some s :=
  merkle_roundTrip (Codec.list_roundTrip Codec.nat_roundTrip) hv s j h

/-- **F9 on reachable states**: a reachable Orswot replica cannot be persisted iff it knows a remove whose context is not
covered by the adds it has seen (a pending remove) – a state every replica passes through when a remove overtakes an add -/
theorem orswot_reachable_encode_fails_iff {m : Scalar M} {a : Scalar α} {U K : List (OrswotOp M α)} {s : Orswot M α}
    (wf : OrswotSpec.LogWF U) (h : orswotSys.Reach U s K) :
    (∃ e, (orswotCodec m a).enc s = .error e) ↔ ∃ c ms, OrswotOp.rm c ms ∈ K ∧ OrswotSpec.pending K c := by
  rw [orswot_encode_fails_iff]
  have r := C04.rep wf h
  constructor
  · intro he
    have : ¬ (∀ c, s.deferred.get? c = none) := by
      intro hall; have := FMap.isEmpty_iff.mpr hall; rw [this] at he; cases he
    have : ∃ c, (s.deferred.get? c).isSome = true := by
      apply Classical.byContradiction
      intro hn
      apply this
      intro c
      cases hg : s.deferred.get? c with
      | none => rfl
      | some S => exact absurd ⟨c, by simp [hg]⟩ hn
    obtain ⟨c, hc⟩ := this
    obtain ⟨⟨ms, hin⟩, hp⟩ := (r.def_some c).mp hc
    exact ⟨c, ms, hin, hp⟩
  · rintro ⟨c, ms, hin, hp⟩
    have hc := (r.def_some c).mpr ⟨⟨ms, hin⟩, hp⟩
    cases he : s.deferred.isEmpty with
    | false => rfl
    | true => have := FMap.isEmpty_iff.mp he c; rw [this] at hc; cases hc

end instances

/-! ## non-vacuity -/
example : ∃ j, orC.enc ((Orswot.init : Orswot Nat Nat).apply (.add ⟨0, 1⟩ [7])) = .ok j :=
  (orswot_encode_ok_iff _).mpr (by decide)
example : ∃ e, orC.enc ((Orswot.init : Orswot Nat Nat).apply (.rm ((∅ : VClock Nat).apply ⟨0, 5⟩) [1])) = .error e :=
  (orswot_encode_fails_iff _).mpr (by decide)

end Crdt.C19
