import CrdtModel.Proofs.MerkleReg
/-!
# C15 — MerkleReg: the state is a function of the set of nodes received; reads are the DAG heads

Hypotheses everywhere: `hash` is the (abstract) hash function of the model, `U` the list of all nodes that exist in the
history, `InjOn hash U` = no two different nodes of the history have the same hash (collision-freeness of sha3, the only
assumption), and `Reach U s K` – `s` is the state of *any* replica or snapshot of *any* history over `U`: nodes arrive in
any order whatsoever (children before parents, parents before children: there is no delivery discipline, `Ok := True`),
any number of times, and states (live, stale, own past) are merged in any pattern; `K` lists the nodes it has received.

Conclusions are exact: `dag` = the received nodes all of whose ancestors have been received (`Visible K`), `orphans` =
the other received nodes, `roots`/`read()` = the visible nodes that no visible node lists as a child (`Head K`).
-/
set_option linter.unusedSectionVars false
namespace Crdt.C15
open Crdt LinOrd RepSys MerkleSpec

variable {H : Type} [LinOrd H] {τ : Type} {hash : Node H τ → H} {U : List (Node H τ)}

/-! ## the model's `apply` terminates and is the Rust recursion -/

/-- `apply` (defined through a work list with a proved termination measure) satisfies the recursive equation of
src/merkle_reg.rs:209-254 – for *every* state, well-formed or not -/
theorem apply_recursion_equation (s : MerkleReg H τ) (nd : Node H τ) :
    MerkleReg.apply hash s nd =
      if (s.dag.contains (hash nd) || s.orphans.contains (hash nd)) = true then s
      else if s.allHashesSeen nd.children = true then
        (s.insertVisible (hash nd) nd).2.foldl (fun acc n => MerkleReg.apply hash acc n) (s.insertVisible (hash nd) nd).1
      else ⟨s.roots, s.dag, s.orphans.insert (hash nd) nd⟩ :=
  MerkleReg.apply_unfold hash s nd

/-- the orphans taken out for re-application are exactly the ready ones, and `orphans` shrinks by as many: the measure
`orphans.len() + pending work` of the recursion strictly decreases with every dag insertion -/
theorem apply_measure (s : MerkleReg H τ) (h : H) (nd : Node H τ) :
    (s.insertVisible h nd).1.orphans.size + (s.insertVisible h nd).2.length = s.orphans.size :=
  s.insertVisible_size h nd

/-! ## `Visible`: least fixed point, and its executable version -/

/-- closure … -/
theorem visible_closed {K : List (Node H τ)} {n : Node H τ} (hn : n ∈ K)
    (hc : ∀ c, n.children.contains c = true → ∃ m, Visible hash K m ∧ hash m = c) : Visible hash K n :=
  MerkleSpec.visible_closed hash hn hc

/-- … and leastness: `Visible K` is the least set of nodes closed under
"`n ∈ K` and every child hash of `n` is the hash of a member ⇒ `n` is a member" -/
theorem visible_least {K : List (Node H τ)} (S : Node H τ → Prop)
    (closed : ∀ n, n ∈ K → (∀ c, n.children.contains c = true → ∃ m, S m ∧ hash m = c) → S n)
    {n : Node H τ} (v : Visible hash K n) : S n :=
  MerkleSpec.visible_least hash S closed v

/-- the fixpoint iteration (`|K|` rounds) printed by the driver as `dag=` specification field computes it -/
theorem visibleList_spec {K : List (Node H τ)} {n : Node H τ} : n ∈ visibleList hash K ↔ Visible hash K n :=
  mem_visibleList
theorem orphanList_spec {K : List (Node H τ)} {n : Node H τ} :
    n ∈ orphanList hash K ↔ (n ∈ K ∧ ¬ Visible hash K n) := mem_orphanList
theorem headList_spec {K : List (Node H τ)} {n : Node H τ} : n ∈ headList hash K ↔ Head hash K n := mem_headList

/-- visibility only grows with knowledge -/
theorem visible_mono {K K' : List (Node H τ)} (sub : ∀ n, n ∈ K → n ∈ K') {n : Node H τ} (v : Visible hash K n) :
    Visible hash K' n := v.mono hash sub

/-! ## representation: what every reachable state holds -/

theorem rep {s : MerkleReg H τ} {K : List (Node H τ)} (wf : InjOn hash U) (h : (merkleSys hash).Reach U s K) :
    MRep hash K s := (reach_rep (R := merkleSys hash) wf h).2

theorem known_subset {s : MerkleReg H τ} {K : List (Node H τ)} (wf : InjOn hash U) (h : (merkleSys hash).Reach U s K) :
    ∀ n, n ∈ K → n ∈ U := (reach_rep (R := merkleSys hash) wf h).1

/-- `dag` = exactly the received nodes all of whose ancestors have been received, stored under their hash -/
theorem dag_eq_visible {s : MerkleReg H τ} {K : List (Node H τ)} (wf : InjOn hash U) (h : (merkleSys hash).Reach U s K)
    (x : H) (n : Node H τ) : s.dag.get? x = some n ↔ (hash n = x ∧ Visible hash K n) := (rep wf h).dag x n

/-- `orphans` = exactly the received nodes with a missing ancestor -/
theorem orphans_eq_invisible {s : MerkleReg H τ} {K : List (Node H τ)} (wf : InjOn hash U)
    (h : (merkleSys hash).Reach U s K) (x : H) (n : Node H τ) :
    s.orphans.get? x = some n ↔ (hash n = x ∧ n ∈ K ∧ ¬ Visible hash K n) := (rep wf h).orphans x n

/-- `roots` = exactly the hashes of the heads -/
theorem roots_eq_heads {s : MerkleReg H τ} {K : List (Node H τ)} (wf : InjOn hash U) (h : (merkleSys hash).Reach U s K)
    (x : H) : s.roots.contains x = true ↔ ∃ n, hash n = x ∧ Head hash K n := (rep wf h).roots x

/-- a hash is in the dag iff it is the hash of a visible node (what `validate_op` and `all_hashes_seen` look at) -/
theorem dag_contains_iff {s : MerkleReg H τ} {K : List (Node H τ)} (wf : InjOn hash U) (h : (merkleSys hash).Reach U s K)
    (x : H) : s.dag.contains x = true ↔ VisH hash K x := by
  rw [FMap.contains_iff, visH_iff]
  constructor
  · rintro ⟨n, hn⟩
    have := (dag_eq_visible wf h x n).mp hn
    exact ⟨n, this.2, this.1⟩
  · rintro ⟨n, v, e⟩
    exact ⟨n, (dag_eq_visible wf h x n).mpr ⟨e, v⟩⟩

/-- **`read()` = the DAG heads**: the visible nodes that no visible node lists as a child -/
theorem read_eq_heads {s : MerkleReg H τ} {K : List (Node H τ)} (wf : InjOn hash U) (h : (merkleSys hash).Reach U s K)
    (x : H) (n : Node H τ) : s.read.get? x = some n ↔ (hash n = x ∧ Head hash K n) := by
  have r := rep wf h
  have sub := known_subset wf h
  simp only [MerkleReg.read, FMap.get?_filterMap]
  constructor
  · intro hg
    cases hr : s.roots.get? x with
    | none => rw [hr] at hg; cases hg
    | some u =>
      rw [hr] at hg
      simp only [Option.bind_some] at hg
      have hd := (r.dag x n).mp hg
      obtain ⟨m, e, hm⟩ := (r.roots x).mp (FMap.contains_of_get? hr)
      have : m = n := wf m (sub m hm.1.1) n (sub n hd.2.1) (by rw [e, hd.1])
      subst this
      exact ⟨e, hm⟩
  · rintro ⟨e, hd⟩
    have hc := (r.roots x).mpr ⟨n, e, hd⟩
    obtain ⟨u, hu⟩ := FMap.contains_iff.mp hc
    rw [hu]
    simp only [Option.bind_some]
    exact (r.dag x n).mpr ⟨e, hd.1⟩

/-- every root is in the dag (so `read` drops nothing: the `filter_map` in src/merkle_reg.rs:110 never filters) -/
theorem roots_subset_dag {s : MerkleReg H τ} {K : List (Node H τ)} (wf : InjOn hash U) (h : (merkleSys hash).Reach U s K)
    (x : H) (hx : s.roots.contains x = true) : s.dag.contains x = true := by
  obtain ⟨n, e, hd⟩ := (roots_eq_heads wf h x).mp hx
  exact FMap.contains_of_get? ((dag_eq_visible wf h x n).mpr ⟨e, hd.1⟩)

/-! ## order independence, convergence, merge laws, duplicates -/

/-- **the state is a function of the set of received nodes**: two replicas/snapshots that received the same nodes –
in whatever orders, with whatever duplications and merges – are structurally equal (`==`) -/
theorem state_function_of_node_set {s s' : MerkleReg H τ} {K K' : List (Node H τ)} (wf : InjOn hash U)
    (h : (merkleSys hash).Reach U s K) (h' : (merkleSys hash).Reach U s' K') (e : ∀ n, n ∈ K ↔ n ∈ K') : s = s' :=
  converge (R := merkleSys hash) wf h h' e

theorem reach_foldl (l : List (Node H τ)) (hl : ∀ n, n ∈ l → n ∈ U) {s : MerkleReg H τ} {K : List (Node H τ)}
    (h : (merkleSys hash).Reach U s K) :
    (merkleSys hash).Reach U (l.foldl (fun acc n => MerkleReg.apply hash acc n) s) (l.reverse ++ K) := by
  induction l generalizing s K with
  | nil => simpa using h
  | cons n t ih =>
    simp only [List.foldl_cons, List.reverse_cons, List.append_assoc, List.singleton_append]
    exact ih (fun m hm => hl m (List.mem_cons_of_mem _ hm)) (Reach.apply h (hl n List.mem_cons_self) trivial)

/-- **order independence of `apply`**: applying the same set of nodes in two different orders (with repetitions) to a
fresh register gives the same register -/
theorem apply_order_independent (wf : InjOn hash U) (l₁ l₂ : List (Node H τ)) (h₁ : ∀ n, n ∈ l₁ → n ∈ U)
    (e : ∀ n, n ∈ l₁ ↔ n ∈ l₂) :
    l₁.foldl (fun acc n => MerkleReg.apply hash acc n) MerkleReg.init =
      l₂.foldl (fun acc n => MerkleReg.apply hash acc n) MerkleReg.init := by
  have h₂ : ∀ n, n ∈ l₂ → n ∈ U := fun n hn => h₁ n ((e n).mpr hn)
  refine state_function_of_node_set wf (reach_foldl l₁ h₁ Reach.init) (reach_foldl l₂ h₂ Reach.init) ?_
  intro n; simp only [List.append_nil, List.mem_reverse]; exact e n

/-- … and from any reachable state, any two arrival orders of the same further nodes agree -/
theorem apply_order_independent_from {s : MerkleReg H τ} {K : List (Node H τ)} (wf : InjOn hash U)
    (h : (merkleSys hash).Reach U s K) (l₁ l₂ : List (Node H τ)) (h₁ : ∀ n, n ∈ l₁ → n ∈ U)
    (e : ∀ n, n ∈ l₁ ↔ n ∈ l₂) :
    l₁.foldl (fun acc n => MerkleReg.apply hash acc n) s = l₂.foldl (fun acc n => MerkleReg.apply hash acc n) s := by
  have h₂ : ∀ n, n ∈ l₂ → n ∈ U := fun n hn => h₁ n ((e n).mpr hn)
  refine state_function_of_node_set wf (reach_foldl l₁ h₁ h) (reach_foldl l₂ h₂ h) ?_
  intro n; simp only [List.mem_append, List.mem_reverse, e n]

theorem merge_comm {s s' : MerkleReg H τ} {K K' : List (Node H τ)} (wf : InjOn hash U)
    (h : (merkleSys hash).Reach U s K) (h' : (merkleSys hash).Reach U s' K') :
    MerkleReg.merge hash s s' = MerkleReg.merge hash s' s := RepSys.merge_comm (R := merkleSys hash) wf h h'

theorem merge_assoc {a b c : MerkleReg H τ} {Ka Kb Kc : List (Node H τ)} (wf : InjOn hash U)
    (ha : (merkleSys hash).Reach U a Ka) (hb : (merkleSys hash).Reach U b Kb) (hc : (merkleSys hash).Reach U c Kc) :
    MerkleReg.merge hash (MerkleReg.merge hash a b) c = MerkleReg.merge hash a (MerkleReg.merge hash b c) :=
  RepSys.merge_assoc (R := merkleSys hash) wf ha hb hc

theorem merge_idem {s : MerkleReg H τ} {K : List (Node H τ)} (wf : InjOn hash U) (h : (merkleSys hash).Reach U s K) :
    MerkleReg.merge hash s s = s := RepSys.merge_idem (R := merkleSys hash) wf h

/-- merging = having received the union (equal to any state, however obtained, that received exactly the union) -/
theorem merge_is_union {s s' t : MerkleReg H τ} {K K' L : List (Node H τ)} (wf : InjOn hash U)
    (h : (merkleSys hash).Reach U s K) (h' : (merkleSys hash).Reach U s' K') (ht : (merkleSys hash).Reach U t L)
    (e : ∀ n, n ∈ L ↔ (n ∈ K ∨ n ∈ K')) : MerkleReg.merge hash s s' = t :=
  RepSys.merge_is_union (R := merkleSys hash) wf h h' ht e

/-- a node received again changes nothing – visible or still orphaned -/
theorem duplicate_absorbed {s : MerkleReg H τ} {K : List (Node H τ)} (wf : InjOn hash U)
    (h : (merkleSys hash).Reach U s K) {nd : Node H τ} (hu : nd ∈ U) (hk : nd ∈ K) : MerkleReg.apply hash s nd = s :=
  RepSys.dup_noop (R := merkleSys hash) wf h hu hk

/-- merging a state that knows nothing new (old snapshot, own past, lagging peer) changes nothing -/
theorem stale_merge_absorbed {s s' : MerkleReg H τ} {K K' : List (Node H τ)} (wf : InjOn hash U)
    (h : (merkleSys hash).Reach U s K) (h' : (merkleSys hash).Reach U s' K') (sub : ∀ n, n ∈ K' → n ∈ K) :
    MerkleReg.merge hash s s' = s := RepSys.stale_noop (R := merkleSys hash) wf h h' sub

/-! ## orphans -/

/-- `apply` re-establishes "no orphan has all its children in the dag" from ANY state that satisfies it (no
hypothesis on hashes, on the state's origin or on the node) … -/
theorem apply_preserves_noReadyOrphan (s : MerkleReg H τ) (nd : Node H τ) (nro : NoReadyOrphan s) :
    NoReadyOrphan (MerkleReg.apply hash s nd) := NoReadyOrphan.applyAll [nd] nro

/-- … and every reachable state satisfies it -/
theorem noReadyOrphan {s : MerkleReg H τ} {K : List (Node H τ)} (wf : InjOn hash U) (h : (merkleSys hash).Reach U s K) :
    NoReadyOrphan s := by
  have sub := known_subset wf h
  exact ((rep wf h).toCfg (wf.mono sub)).nro

/-- **an orphan becomes visible as soon as its last missing ancestor arrives**: whatever `op` is, right after
`apply s op` every node that is visible with respect to the knowledge including `op` – in particular every orphan of `s`
whose missing ancestors are now all supplied, however long the chain of orphans that had to be resolved first – is in
the dag and no longer among the orphans; all within this one call -/
theorem orphan_becomes_visible {s : MerkleReg H τ} {K : List (Node H τ)} (wf : InjOn hash U)
    (h : (merkleSys hash).Reach U s K) {op : Node H τ} (hu : op ∈ U) {n : Node H τ}
    (v : Visible hash (op :: K) n) :
    (MerkleReg.apply hash s op).dag.get? (hash n) = some n ∧ (MerkleReg.apply hash s op).orphans.get? (hash n) = none := by
  have h' : (merkleSys hash).Reach U (MerkleReg.apply hash s op) (op :: K) := Reach.apply h hu trivial
  refine ⟨(dag_eq_visible wf h' _ n).mpr ⟨rfl, v⟩, ?_⟩
  cases ho : (MerkleReg.apply hash s op).orphans.get? (hash n) with
  | none => rfl
  | some m =>
    have hm := (orphans_eq_invisible wf h' _ m).mp ho
    have sub := known_subset wf h'
    have : m = n := wf m (sub m hm.2.1) n (sub n v.1) hm.1
    subst this
    exact absurd v hm.2.2

/-- and conversely the dag after `apply` holds nothing else -/
theorem dag_after_apply {s : MerkleReg H τ} {K : List (Node H τ)} (wf : InjOn hash U)
    (h : (merkleSys hash).Reach U s K) {op : Node H τ} (hu : op ∈ U) (x : H) (n : Node H τ) :
    (MerkleReg.apply hash s op).dag.get? x = some n ↔ (hash n = x ∧ Visible hash (op :: K) n) := by
  have h' : (merkleSys hash).Reach U (MerkleReg.apply hash s op) (op :: K) := Reach.apply h hu trivial
  exact dag_eq_visible wf h' x n

/-- an orphan that is still not visible stays an orphan: nothing is ever dropped -/
theorem orphan_stays {s : MerkleReg H τ} {K : List (Node H τ)} (wf : InjOn hash U)
    (h : (merkleSys hash).Reach U s K) {op : Node H τ} (hu : op ∈ U) {n : Node H τ}
    (ho : s.orphans.get? (hash n) = some n) (nv : ¬ Visible hash (op :: K) n) :
    (MerkleReg.apply hash s op).orphans.get? (hash n) = some n := by
  have h' : (merkleSys hash).Reach U (MerkleReg.apply hash s op) (op :: K) := Reach.apply h hu trivial
  rw [orphans_eq_invisible wf h']
  exact ⟨rfl, List.mem_cons_of_mem _ ((orphans_eq_invisible wf h _ n).mp ho).2.1, nv⟩

/-- every received node is held: in the dag or among the orphans -/
theorem received_is_held {s : MerkleReg H τ} {K : List (Node H τ)} (wf : InjOn hash U)
    (h : (merkleSys hash).Reach U s K) {n : Node H τ} (hn : n ∈ K) : s.node (hash n) = some n := by
  unfold MerkleReg.node
  by_cases v : Visible hash K n
  · rw [(dag_eq_visible wf h _ n).mpr ⟨rfl, v⟩]; rfl
  · have ho := (orphans_eq_invisible wf h _ n).mpr ⟨rfl, hn, v⟩
    have sub := known_subset wf h
    have hd := (((rep wf h).toCfg (wf.mono sub)).sound.orph _ _ ho).2.2
    rw [hd, ho]; rfl

/-! ## write on top of what was read -/

/-- **writing a node whose children are the heads just read makes it the single head**: `nd = s.write v (s.read().hashes())`,
applied to `s`.  `nd` must really be new: not received yet, and no received node (an orphan sent ahead by a peer
that created the very same node) lists its hash – otherwise that parent, not `nd`, ends up on top. -/
theorem write_resolves {s : MerkleReg H τ} {K : List (Node H τ)} (wf : InjOn hash U)
    (h : (merkleSys hash).Reach U s K) (v : τ) (hu : s.write v (MerkleReg.hashes s.read) ∈ U)
    (fresh : s.write v (MerkleReg.hashes s.read) ∉ K)
    (unlisted : ∀ m, m ∈ K → m.children.contains (hash (s.write v (MerkleReg.hashes s.read))) = false) :
    (MerkleReg.apply hash s (s.write v (MerkleReg.hashes s.read))).read =
      (∅ : FMap H (Node H τ)).insert (hash (s.write v (MerkleReg.hashes s.read))) (s.write v (MerkleReg.hashes s.read)) := by
  generalize hnd : s.write v (MerkleReg.hashes s.read) = nd at *
  have sub := known_subset wf h
  have h' : (merkleSys hash).Reach U (MerkleReg.apply hash s nd) (nd :: K) := Reach.apply h hu trivial
  -- the children of `nd` are exactly the hashes of the heads of `K`
  have kids : ∀ c, nd.children.contains c = true ↔ ∃ m, hash m = c ∧ Head hash K m := by
    intro c
    rw [← hnd]
    show (MerkleReg.hashes s.read).contains c = true ↔ _
    rw [FMap.contains_iff]
    simp only [MerkleReg.hashes, FMap.get?_filterMap]
    constructor
    · rintro ⟨u, hu⟩
      cases hr : s.read.get? c with
      | none => rw [hr] at hu; cases hu
      | some m => exact ⟨m, (read_eq_heads wf h c m).mp hr⟩
    · rintro ⟨m, hm⟩
      exact ⟨(), by rw [(read_eq_heads wf h c m).mpr hm]; rfl⟩
  have ndVis : Visible hash (nd :: K) nd := by
    refine ⟨List.mem_cons_self, fun c hc => ?_⟩
    obtain ⟨m, e, hm⟩ := (kids c).mp hc
    rw [← e]
    exact (hm.1.mono hash (fun n hn => List.mem_cons_of_mem _ hn)).visH hash
  have noself : nd.children.contains (hash nd) = false := by
    cases hc : nd.children.contains (hash nd) with
    | false => rfl
    | true =>
      obtain ⟨m, e, hm⟩ := (kids _).mp hc
      have : m = nd := wf m (sub m hm.1.1) nd hu e
      subst this
      exact absurd hm.1.1 fresh
  have ndHead : Head hash (nd :: K) nd := by
    refine ⟨ndVis, fun m vm => ?_⟩
    rcases List.mem_cons.mp vm.1 with e | hm
    · subst e; exact noself
    · exact unlisted m hm
  have onlyHead : ∀ n, Head hash (nd :: K) n → n = nd := by
    intro n hn
    rcases List.mem_cons.mp hn.1.1 with e | hm
    · exact e
    · exfalso
      have vK := visible_cons_unlisted unlisted hm hn.1
      by_cases hd : Head hash K n
      · have := hn.2 nd ndVis
        rw [(kids (hash n)).mpr ⟨n, rfl, hd⟩] at this; cases this
      · apply hd
        refine ⟨vK, fun m vm => ?_⟩
        exact hn.2 m (vm.mono hash (fun n hn => List.mem_cons_of_mem _ hn))
  apply FMap.ext
  intro x
  rw [FMap.get?_insert, FMap.get?_empty]
  cases hg : (MerkleReg.apply hash s nd).read.get? x with
  | some n =>
    have := (read_eq_heads wf h' x n).mp hg
    have e := onlyHead n this.2
    subst e
    rw [if_pos this.1.symm]
  | none =>
    split
    · next e =>
      subst e
      rw [(read_eq_heads wf h' _ nd).mpr ⟨rfl, ndHead⟩] at hg; cases hg
    · rfl

/-! ## `validate_op` -/

/-- `validate_op` accepts a node iff all its children are in the dag … -/
theorem validate_op_ok_iff (s : MerkleReg H τ) (op : Node H τ) :
    s.validateOp op = .ok () ↔ ∀ c, op.children.contains c = true → s.dag.contains c = true :=
  validateOp_ok_iff s op

/-- … and otherwise reports the least (in the order of `BTreeSet<Hash>`) child that is not in the dag -/
theorem validate_op_missing_iff (s : MerkleReg H τ) (op : Node H τ) (x : H) :
    s.validateOp op = .error (.missingChild x) ↔
      (op.children.contains x = true ∧ s.dag.contains x = false ∧
        ∀ c, op.children.contains c = true → c < x → s.dag.contains c = true) :=
  validateOp_missing_iff s op x

/-- in terms of what the replica has received: accepted iff every child is the hash of a visible node … -/
theorem validate_op_ok_iff_spec {s : MerkleReg H τ} {K : List (Node H τ)} (wf : InjOn hash U)
    (h : (merkleSys hash).Reach U s K) (op : Node H τ) :
    s.validateOp op = .ok () ↔ ∀ c, op.children.contains c = true → VisH hash K c := by
  rw [validateOp_ok_iff]
  simp only [dag_contains_iff wf h]

/-- … so an accepted node, once applied, is visible at once (never orphaned) -/
theorem validate_op_ok_visible {s : MerkleReg H τ} {K : List (Node H τ)} (wf : InjOn hash U)
    (h : (merkleSys hash).Reach U s K) {op : Node H τ} (hu : op ∈ U) (ok : s.validateOp op = .ok ()) :
    (MerkleReg.apply hash s op).dag.get? (hash op) = some op := by
  have h' : (merkleSys hash).Reach U (MerkleReg.apply hash s op) (op :: K) := Reach.apply h hu trivial
  rw [dag_eq_visible wf h']
  refine ⟨rfl, List.mem_cons_self, fun c hc => ?_⟩
  exact ((validate_op_ok_iff_spec wf h op).mp ok c hc).mono hash (fun n hn => List.mem_cons_of_mem _ hn)

theorem validate_op_missing_iff_spec {s : MerkleReg H τ} {K : List (Node H τ)} (wf : InjOn hash U)
    (h : (merkleSys hash).Reach U s K) (op : Node H τ) (x : H) :
    s.validateOp op = .error (.missingChild x) ↔
      (op.children.contains x = true ∧ ¬ VisH hash K x ∧
        ∀ c, op.children.contains c = true → c < x → VisH hash K c) := by
  rw [validateOp_missing_iff]
  simp only [← dag_contains_iff wf h, Bool.not_eq_true]


/-! ## non-vacuity -/
section examples

/-- example hash: a node carries its own id as value (as in the driver) -/
def exHash (n : Node Nat Nat) : Nat := n.value
def exSet (l : List Nat) : FSet Nat := l.foldl (fun s h => s.insert h ()) ∅
/-- a diamond: `A` ← `B`, `A` ← `C`, `{B, C}` ← `D` -/
def nA : Node Nat Nat := ⟨exSet [], 1⟩
def nB : Node Nat Nat := ⟨exSet [1], 2⟩
def nC : Node Nat Nat := ⟨exSet [1], 3⟩
def nD : Node Nat Nat := ⟨exSet [2, 3], 4⟩
def exU : List (Node Nat Nat) := [nA, nB, nC, nD]

theorem exWF : InjOn exHash exU := by
  intro a ha b hb
  simp only [exU, List.mem_cons, List.not_mem_nil, or_false] at ha hb
  rcases ha with rfl | rfl | rfl | rfl <;> rcases hb with rfl | rfl | rfl | rfl <;> decide

/-- the executable spec on the diamond: nothing is visible without the root; `D` is the only head once all arrived -/
example : visibleList exHash [nD, nC, nB] = [] := by decide
example : orphanList exHash [nD, nC, nB] = [nD, nC, nB] := by decide
example : visibleList exHash [nD, nC, nA] = [nC, nA] := by decide
example : headList exHash [nD, nC, nA] = [nC] := by decide
example : headList exHash [nD, nC, nA, nB] = [nD] := by decide

/-- a replica that received the diamond top-down (every node before its children) and one that merged two partial
peers are reachable, are equal, hold all four nodes in the dag, no orphan, and read exactly `D` -/
example : ∃ s s' K K', (merkleSys exHash).Reach exU s K ∧ (merkleSys exHash).Reach exU s' K' ∧ s = s' ∧
    s.dag.get? 1 = some nA ∧ s.dag.get? 4 = some nD ∧ s.orphans.get? 4 = none ∧
    s.read.get? 4 = some nD ∧ s.read.get? 2 = none := by
  have r1 : (merkleSys exHash).Reach exU _ _ :=
    reach_foldl (hash := exHash) (U := exU) [nD, nC, nB, nA] (by decide) Reach.init
  have r2 : (merkleSys exHash).Reach exU _ _ :=
    Reach.merge (reach_foldl (hash := exHash) (U := exU) [nD, nB] (by decide) Reach.init)
      (reach_foldl (hash := exHash) (U := exU) [nC, nA, nC] (by decide) Reach.init)
  refine ⟨_, _, _, _, r1, r2, state_function_of_node_set exWF r1 r2
      (fun n => ⟨fun h => (by decide : [nD, nC, nB, nA].reverse ++ [] ⊆ [nD, nB].reverse ++ [] ++ ([nC, nA, nC].reverse ++ [])) h,
        fun h => (by decide : [nD, nB].reverse ++ [] ++ ([nC, nA, nC].reverse ++ []) ⊆ [nD, nC, nB, nA].reverse ++ []) h⟩), ?_, ?_, ?_, ?_, ?_⟩
  · exact (dag_eq_visible exWF r1 1 nA).mpr ⟨rfl, visibleList_spec.mp (by decide)⟩
  · exact (dag_eq_visible exWF r1 4 nD).mpr ⟨rfl, visibleList_spec.mp (by decide)⟩
  · apply Option.eq_none_iff_forall_ne_some.mpr
    intro m ho
    have := (orphans_eq_invisible exWF r1 4 m).mp ho
    exact absurd (orphanList_spec.mpr this.2) (by
      have : orphanList exHash ([nD, nC, nB, nA].reverse ++ []) = [] := by decide
      rw [this]; simp)
  · exact (read_eq_heads exWF r1 4 nD).mpr ⟨rfl, headList_spec.mp (by decide)⟩
  · apply Option.eq_none_iff_forall_ne_some.mpr
    intro m hr
    have := (read_eq_heads exWF r1 2 m).mp hr
    have hm := headList_spec.mpr this.2
    have e : headList exHash ([nD, nC, nB, nA].reverse ++ []) = [nD] := by decide
    rw [e, List.mem_singleton] at hm
    subst hm
    exact absurd this.1 (by decide)

/-- `write_resolves` applies (its hypotheses are satisfiable): the first write on a fresh register -/
example : (MerkleReg.apply exHash MerkleReg.init nA).read = (∅ : FMap Nat (Node Nat Nat)).insert 1 nA :=
  write_resolves (hash := exHash) (U := exU) (s := MerkleReg.init) (K := []) exWF Reach.init 1 (by decide) (by decide)
    (by intro m hm; cases hm)

/-- `validate_op`: on a fresh register `D` is rejected for its least missing child `B` (hash 2), `A` is accepted -/
example : (MerkleReg.init : MerkleReg Nat Nat).validateOp nD = .error (.missingChild 2) := by rfl
example : (MerkleReg.init : MerkleReg Nat Nat).validateOp nA = .ok () := by rfl

end examples

end Crdt.C15
