import CrdtModel.Model.VClock
/-! Informational witness for C10: with a stored zero counter (possible only by writing the public `dots`
field or deserialising one – no API call stores one), `partial_cmp` is *not* the pointwise order:
`{1:0}` and `{}` are pointwise equal but compare `Greater`. This is why C10's equality statements carry `NoZero`. -/
namespace Crdt.Witness
open Crdt
def zeroClock : VClock Nat := ⟨(∅ : FMap Nat Nat).insert 1 0⟩
theorem zero_breaks_cmp :
    (∀ x ∈ [0, 1, 2], zeroClock.get x = (∅ : VClock Nat).get x) ∧ zeroClock.partialCmp ∅ = some .gt := by decide
end Crdt.Witness
