import CrdtModel.Model.Orswot
/-! KNOWN DEFECT (C17): `Orswot::add_all([m1, m2], ctx)` (src/orswot.rs:252-257) puts ONE dot on TWO members.
`validate_merge` (src/orswot.rs:114-130) reports `DoubleSpentDot` whenever two *different* members carry the same
dot – so after a perfectly correct use of `add_all` every `validate_merge` involving that state fails, even against
an identical replica and even against itself.

Script for the real crate (`harness run`), all three `VM` lines print `vm=dsd`; with two single `add`s instead
(`G 0 o0 add 0`, `G 0 o1 add 1`) they print `vm=ok`:
```
T orswot 2
G 0 o0 addall [0,1]
D 1 o0
VM 0 1
VM 1 0
VM 0 0
```
-/
namespace Crdt.Witness
open Crdt

def aaOp : OrswotOp Nat Nat := Orswot.addAll [0, 1] ((Orswot.init : Orswot Nat Nat).readCtx.deriveAddCtx 0)
def aaA : Orswot Nat Nat := Orswot.init.apply aaOp
def aaB : Orswot Nat Nat := Orswot.init.apply aaOp

def isDsd (r : Except (DoubleSpentDot Nat Nat) Unit) : Bool :=
  match r with
  | .error _ => true
  | .ok _ => false

/-- replica A `add_all [0,1]`, delivered to B: A and B are equal, yet `validate_merge` rejects the merge
(in both directions, and of A with itself); with two separate `add`s it is accepted -/
theorem validate_merge_flags_correct_add_all :
    aaOp = .add ⟨0, 1⟩ [0, 1] ∧ aaA = aaB ∧
    isDsd (aaA.validateMerge aaB) = true ∧ isDsd (aaB.validateMerge aaA) = true ∧ isDsd (aaA.validateMerge aaA) = true ∧
    (let s1 : Orswot Nat Nat := Orswot.init.apply (Orswot.add 0 ((Orswot.init : Orswot Nat Nat).readCtx.deriveAddCtx 0))
     let s2 := s1.apply (Orswot.add 1 (s1.readCtx.deriveAddCtx 0))
     isDsd (s2.validateMerge s2) = false) := by decide

end Crdt.Witness
