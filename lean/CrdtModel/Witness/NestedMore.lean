import CrdtModel.Model.MapInst
import CrdtModel.Proofs.MapNested
/-! Kernel-checked witnesses (found by the independent audit) that the parts of C05 / C03 / C09 NOT claimed for Map nested contents are false of
the model – as they are of the crate (known findings): the restrictions of the proved regions are forced, not chosen. -/
namespace Crdt.Witness
open Crdt CMap

namespace MVRegNested
/-! Confirms in the Lean MODEL that the global nested statement of C05 is false for `Map<_, MVReg>` under
causal, op-only delivery (the project states it only for Orswot by `decide`, MVReg via external witness scripts). -/
abbrev P := MapOp Nat (MVOp Nat Nat) Nat
abbrev mops : ValOps (MVReg Nat Nat) (MVOp Nat Nat) Nat := MVReg.valOps

def s0 : CMap Nat (MVReg Nat Nat) Nat := CMap.init
-- actor 0 writes under key 9 (another key)
def o1 : P := CMap.update mops s0 9 (s0.readCtx.deriveAddCtx 0) (fun v ctx => v.write 1 ctx)
def sA := CMap.apply mops s0 o1
-- actor 1 (has seen o1) writes 5 under key 0: the Put carries the WHOLE map clock {0:1,1:1}
def o2 : P := CMap.update mops sA 0 (sA.readCtx.deriveAddCtx 1) (fun v ctx => v.write 5 ctx)
-- actor 2 (has seen o1) concurrently writes 6 under key 0
def o3 : P := CMap.update mops sA 0 (sA.readCtx.deriveAddCtx 2) (fun v ctx => v.write 6 ctx)
def sB := CMap.apply mops sA o2
-- actor 1 removes key 0 having seen o1, o2 only
def o4 : P := CMap.rm 0 (sB.get 0).deriveRmCtx

def r1 := [o1, o2, o3, o4].foldl (CMap.apply mops) CMap.init   -- causal
def r2 := [o1, o2, o4, o3].foldl (CMap.apply mops) CMap.init   -- causal too

theorem mvreg_nested_diverges :
    (r1.get 0).val.map (fun v => v.read.val) = some [5, 6] ∧ (r2.get 0).val.map (fun v => v.read.val) = some [6] := by
  decide
end MVRegNested

namespace OrswotMerge
/-! Confirms in the Lean MODEL that the nested-Orswot READ convergence (`C05.nested_orswot_reads_converge`, proved for the
causal op-only region) really fails once a state merge is used: the restriction is forced by the crate, not chosen. -/
abbrev Q := MapOp Nat (OrswotOp Nat Nat) Nat
abbrev oo : ValOps (Orswot Nat Nat) (OrswotOp Nat Nat) Nat := Orswot.valOps

def o0 : Q := .up ⟨0, 1⟩ 0 (.add ⟨0, 1⟩ [0])          -- actor 0 adds member 0 under key 0
def o2 : Q := .up ⟨0, 2⟩ 0 (.add ⟨0, 2⟩ [1])          -- actor 0 adds member 1 under key 0
def o1 : Q := .rm (VClock.ofDot ⟨0, 1⟩) [0]           -- a replica that saw o0 only removes key 0

def a  := [o0, o2].foldl (CMap.apply oo) CMap.init     -- replica A
def b  := [o0, o1].foldl (CMap.apply oo) CMap.init     -- replica B
def viaMerge := CMap.merge oo b a                       -- B merges A's state          (knows o0,o1,o2)
def viaOps   := CMap.apply oo b o2                      -- B is delivered o2 (causal)   (knows o0,o1,o2)

theorem merge_breaks_nested_reads :
    (viaMerge.get 0).val.map (fun v => v.read.val) = some [0, 1] ∧
    (viaOps.get 0).val.map (fun v => v.read.val) = some [1] := by decide
end OrswotMerge

namespace DupRm
/-! C09 ("a duplicate delivery changes nothing observable") is stated for `Map` nowhere.  In the model it is FALSE for
`Map<_, MVReg>` already under causal delivery: re-delivering a KEY REMOVE that the replica has applied changes the nested
register's stored clock (hence `get(k).val.read().add_clock` and `==`). -/
abbrev P := MapOp Nat (MVOp Nat Nat) Nat
abbrev mops : ValOps (MVReg Nat Nat) (MVOp Nat Nat) Nat := MVReg.valOps

def s0 : CMap Nat (MVReg Nat Nat) Nat := CMap.init
-- actor 1 writes 5 under key 0
def u1 : P := CMap.update mops s0 0 (s0.readCtx.deriveAddCtx 1) (fun v ctx => v.write 5 ctx)
def s1 := CMap.apply mops s0 u1
-- actor 1 removes key 0 (context read with `get`)
def r1 : P := CMap.rm 0 (s1.get 0).deriveRmCtx
def s2 := CMap.apply mops s1 r1
-- actor 2, which has applied u1 and r1, writes 6 under key 0 (the Put carries the whole map clock {1:1, 2:1})
def u2 : P := CMap.update mops s2 0 (s2.readCtx.deriveAddCtx 2) (fun v ctx => v.write 6 ctx)
def s3 := CMap.apply mops s2 u2
-- the key remove r1 is delivered AGAIN
def s4 := CMap.apply mops s3 r1

def nestedClock (s : CMap Nat (MVReg Nat Nat) Nat) : Option (List (Nat × Nat)) :=
  (s.get 0).val.map (fun v => v.read.addClock.dots.l)

theorem dup_key_remove_changes_state :
    s4 ≠ s3 ∧ nestedClock s3 = some [(1, 1), (2, 1)] ∧ nestedClock s4 = some [(2, 1)] ∧
    (s3.get 0).val.map (fun v => v.read.val) = (s4.get 0).val.map (fun v => v.read.val) := by
  refine ⟨?_, by decide, by decide, by decide⟩
  intro h
  have : nestedClock s4 = nestedClock s3 := by rw [h]
  revert this; decide
end DupRm

namespace Depth2Orswot
/-! Depth 2: `Map<Nat, Map<Nat, Orswot<Nat>>>`.  The doc comments of Props/C05.lean / C05Nested.lean say the global nested
statement is false "for Map<_,Map<..>>" but give no Lean witness.  Here: the 3-op Orswot witness, one level deeper, and – more
importantly – with NO OUTER key remove, i.e. INSIDE the region `ReachUp` of C05Nested (all three ops are outer updates). -/
abbrev IOp := MapOp Nat (OrswotOp Nat Nat) Nat          -- inner map op
abbrev OOp := MapOp Nat IOp Nat                          -- outer map op
abbrev iops : ValOps (CMap Nat (Orswot Nat Nat) Nat) IOp Nat := CMap.valOps Orswot.valOps id
abbrev V2 := CMap Nat (CMap Nat (Orswot Nat Nat) Nat) Nat

def c01 : VClock Nat := VClock.ofDot ⟨0, 1⟩
/-- actor 0: under outer key 0, inner key 0, add member 0 -/
def o0 : OOp := .up ⟨0, 1⟩ 0 (.up ⟨0, 1⟩ 0 (.add ⟨0, 1⟩ [0]))
/-- actor 0 (has seen o0): under outer key 0, remove INNER key 0 (an outer UPDATE) -/
def o1 : OOp := .up ⟨0, 2⟩ 0 (.rm c01 [0])
/-- actor 1 (has seen o0): under outer key 0, inner key 0, remove member 0 -/
def o5 : OOp := .up ⟨1, 1⟩ 0 (.up ⟨1, 1⟩ 0 (.rm c01 [0]))

def U : List OOp := [o0, o1, o5]
def sA : V2 := [o0, o1, o5].foldl (CMap.apply iops) CMap.init
def sB : V2 := [o0, o5, o1].foldl (CMap.apply iops) CMap.init

theorem wfU : OrswotSpec.LogWF (keyLog U) := by
  refine ⟨fun d ms ms' h1 h2 => ?_, fun c ms h => ?_⟩
  · simp only [U, keyLog, keyOp, o0, o1, o5, List.map_cons, List.map_nil, List.mem_cons, List.mem_nil_iff, or_false,
      OrswotOp.add.injEq] at h1 h2
    rcases h1 with ⟨rfl, rfl⟩ | ⟨rfl, rfl⟩ | ⟨rfl, rfl⟩ <;> rcases h2 with ⟨h, rfl⟩ | ⟨h, rfl⟩ | ⟨h, rfl⟩ <;>
      first | rfl | (cases h)
  · simp [U, keyLog, keyOp, o0, o1, o5] at h

theorem ok (L : List OOp) (d : Dot Nat) (k : Nat) (hd : d = ⟨0, 1⟩ ∨ d = ⟨1, 1⟩ ∨ (d = ⟨0, 2⟩ ∧ o0 ∈ L)) :
    OrswotSpec.Ok (keyLog U) (keyLog L) (OrswotOp.add d [k]) := by
  intro d' ms' hin ha hlt
  simp only [U, keyLog, keyOp, o0, o1, o5, List.map_cons, List.map_nil, List.mem_cons, List.mem_nil_iff, or_false,
    OrswotOp.add.injEq] at hin
  rcases hd with rfl | rfl | ⟨rfl, h1⟩ <;> rcases hin with ⟨rfl, rfl⟩ | ⟨rfl, rfl⟩ | ⟨rfl, rfl⟩ <;>
    first
    | (exfalso; simp only at hlt; omega)
    | (exfalso; simp only at ha; omega)
    | exact up_mem_keyLog h1

theorem du : DotsUnique U := by
  intro d k o k' o' h1 h2
  simp only [U, o0, o1, o5, List.mem_cons, List.mem_nil_iff, or_false, MapOp.up.injEq] at h1 h2
  rcases h1 with ⟨rfl, rfl, rfl⟩ | ⟨rfl, rfl, rfl⟩ | ⟨rfl, rfl, rfl⟩ <;>
    rcases h2 with ⟨h, rfl, rfl⟩ | ⟨h, rfl, rfl⟩ | ⟨h, rfl, rfl⟩ <;> first | exact ⟨rfl, rfl⟩ | (cases h)

/-- both delivery orders are derivations of the region `ReachUp` (op-only, no outer key remove, per-actor FIFO) -/
theorem reachA : ReachUp iops U sA [o5, o1, o0] := by
  have r1 := ReachUp.apply (ops := iops) (U := U) ReachUp.init (d := ⟨0,1⟩) (k := 0) (o := .up ⟨0, 1⟩ 0 (.add ⟨0, 1⟩ [0]))
    (by simp [U, o0]) (ok _ _ _ (Or.inl rfl))
  have r2 := ReachUp.apply r1 (d := ⟨0,2⟩) (k := 0) (o := .rm c01 [0]) (by simp [U, o1])
    (ok _ _ _ (Or.inr (Or.inr ⟨rfl, by simp [o0]⟩)))
  exact ReachUp.apply r2 (d := ⟨1,1⟩) (k := 0) (o := .up ⟨1, 1⟩ 0 (.rm c01 [0])) (by simp [U, o5]) (ok _ _ _ (Or.inr (Or.inl rfl)))

theorem reachB : ReachUp iops U sB [o1, o5, o0] := by
  have r1 := ReachUp.apply (ops := iops) (U := U) ReachUp.init (d := ⟨0,1⟩) (k := 0) (o := .up ⟨0, 1⟩ 0 (.add ⟨0, 1⟩ [0]))
    (by simp [U, o0]) (ok _ _ _ (Or.inl rfl))
  have r2 := ReachUp.apply r1 (d := ⟨1,1⟩) (k := 0) (o := .up ⟨1, 1⟩ 0 (.rm c01 [0])) (by simp [U, o5]) (ok _ _ _ (Or.inr (Or.inl rfl)))
  exact ReachUp.apply r2 (d := ⟨0,2⟩) (k := 0) (o := .rm c01 [0]) (by simp [U, o1])
    (ok _ _ _ (Or.inr (Or.inr ⟨rfl, by simp [o0]⟩)))

/-- same knowledge, both in the region, all hypotheses of `C05.nested_converge` other than the `RepSys` ones hold –
and the nested (inner-map) values under outer key 0 DIFFER: the Orswot under inner key 0 differs -/
theorem depth2_diverges_inside_region :
    (∀ x, x ∈ [o5, o1, o0] ↔ x ∈ [o1, o5, o0]) ∧
    (sA.get 0).val.map (fun m => (m.get 0).val) ≠ (sB.get 0).val.map (fun m => (m.get 0).val) := by
  refine ⟨?_, by decide⟩
  intro x; simp only [List.mem_cons, List.mem_nil_iff, or_false]
  constructor <;> (rintro (h | h | h) <;> simp [h])

theorem hence_vals_differ : (sA.get 0).val ≠ (sB.get 0).val :=
  fun h => depth2_diverges_inside_region.2 (by rw [h])

#eval (sA.get 0).val.map (fun m => (m.get 0).val.map (fun v => (v.read.val, v.deferred.size, v.clock.dots.l)))
#eval (sB.get 0).val.map (fun m => (m.get 0).val.map (fun v => (v.read.val, v.deferred.size, v.clock.dots.l)))
end Depth2Orswot

namespace Depth2MVReg
/-! Depth 2, READS: `Map<Nat, Map<Nat, MVReg<Nat>>>`, every op generated through the API (`CMap.update` / `CMap.rm` with
`read_ctx().derive_add_ctx` / `get(k).derive_rm_ctx()`), causal delivery, op-only, NO OUTER key remove
(= inside the region `ReachUp` of C05Nested: all four ops are outer updates, per-actor FIFO holds in both orders).
Same four ops at both replicas – the inner register READS differ. -/
abbrev IOp := MapOp Nat (MVOp Nat Nat) Nat
abbrev OOp := MapOp Nat IOp Nat
abbrev mops : ValOps (MVReg Nat Nat) (MVOp Nat Nat) Nat := MVReg.valOps
abbrev iops : ValOps (CMap Nat (MVReg Nat Nat) Nat) IOp Nat := CMap.valOps mops id
abbrev V2 := CMap Nat (CMap Nat (MVReg Nat Nat) Nat) Nat

/-- `outer.update(0, outer.read_ctx().derive_add_ctx(a), |inner, ctx| inner.update(ik, ctx, |reg, ctx| reg.write(v, ctx)))` -/
def wr (s : V2) (a ik v : Nat) : OOp :=
  CMap.update iops s 0 (s.readCtx.deriveAddCtx a) (fun inner ctx => CMap.update mops inner ik ctx (fun reg ctx => reg.write v ctx))
/-- `outer.update(0, ctx, |inner, _| inner.rm(ik, inner.get(&ik).derive_rm_ctx()))` -/
def rmInner (s : V2) (a ik : Nat) : OOp :=
  CMap.update iops s 0 (s.readCtx.deriveAddCtx a) (fun inner _ => CMap.rm ik (inner.get ik).deriveRmCtx)

def s0 : V2 := CMap.init
def o1 : OOp := wr s0 0 9 1                 -- actor 0 writes 1 under inner key 9
def sA := CMap.apply iops s0 o1
def o2 : OOp := wr sA 1 0 5                 -- actor 1 (has seen o1) writes 5 under inner key 0
def o3 : OOp := wr sA 2 0 6                 -- actor 2 (has seen o1) concurrently writes 6 under inner key 0
def sB := CMap.apply iops sA o2
def o4 : OOp := rmInner sB 1 0              -- actor 1 (has seen o1,o2) removes inner key 0

def r1 : V2 := [o1, o2, o3, o4].foldl (CMap.apply iops) CMap.init   -- causal
def r2 : V2 := [o1, o2, o4, o3].foldl (CMap.apply iops) CMap.init   -- causal too

def innerRead (s : V2) : Option (Option (List Nat)) :=
  (s.get 0).val.map (fun m => (m.get 0).val.map (fun v => v.read.val))

/-- the four ops are outer UPDATES with dots 0:1, 1:1, 2:1, 1:2 (so both orders respect per-actor FIFO and contain no outer remove) -/
example : [o1, o2, o3, o4].map (fun o => match o with | .up d k _ => some (d.actor, d.counter, k) | .rm _ _ => none) =
    [some (0,1,0), some (1,1,0), some (2,1,0), some (1,2,0)] := by decide

theorem depth2_mvreg_reads_diverge : innerRead r1 = some (some [5, 6]) ∧ innerRead r2 = some (some [6]) := by decide
end Depth2MVReg

end Crdt.Witness
