import CrdtModel.Spec.ListSys
/-! The delivery discipline of C12 (causal delivery) is REQUIRED: without it two replicas that have been delivered the
same set of ops can differ for ever (`List` has no state merge to repair it).

1. **Delete before its insert** (violates the cross-actor dependency).  Replica 0 inserts `7` (op `a`, dot `0.1`);
   replica 1 receives `a` and deletes it (op `b` = `Delete{id(a), dot 1.1}`).  Replica 2 receives `b` FIRST: the dot
   gate lets it through, the clock advances to `{1:1}`, the removal finds nothing; then `a` arrives, is not gated
   (`0.1 > clock.get(0) = 0`) and is inserted – and nothing will ever delete it.  Replicas 1 and 2 have both been
   delivered exactly `{a, b}`: one reads `[]`, the other `[7]`.
2. **An actor's ops out of order** (violates per-actor order).  Replica 0 inserts `7` (`a`, dot `0.1`) and then `8`
   in front of it (`c`, dot `0.2`).  Replica 2 receives `c` first: clock `{0:2}`; then `a` is gated
   (`1 <= clock.get(0) = 2`) and dropped for ever.  Delivered `{a, c}` at both: `[8,7]` versus `[8]`.

Script for the real crate (`witness/C12-list-needs-causal.txt`, `harness run`; model and crate print the same lines:
`eq=false`, `ro=ok pairs=3` – the order of the COMMON elements is still consistent – and `conv=FAIL:r0:r2` in both cases):
```
T list 3
G 0 a ins 0 7
D 1 a
G 1 b del 0
D 2 b
D 2 a
D 0 b
EQ 1 2
RO
E
T list 3
G 0 a ins 0 7
G 0 c ins 0 8
D 2 c
D 2 a
D 1 a
D 1 c
EQ 1 2
RO
E
```
-/
namespace Crdt.Witness
open Crdt ListSpec

def lsNew : ListCrdt Nat Nat := ListCrdt.new
/-- replica 0: `insert_index(0, 7, actor 0)` -/
def lsA : ListOp Nat Nat := lsNew.insertIndex 0 7 0
/-- replica 1 after receiving `a` -/
def lsR1a : ListCrdt Nat Nat := lsNew.apply lsA
/-- replica 1: `delete_index(0, actor 1)` (exists: the list has one element) -/
def lsB : ListOp Nat Nat := (lsR1a.deleteIndex 0 1).getD lsA
/-- replica 0: `insert_index(0, 8, actor 0)` after its first insert -/
def lsC : ListOp Nat Nat := lsR1a.insertIndex 0 8 0

/-- causal order (`a` then `b`) versus delete-first (`b` then `a`): same delivered set, different states for ever;
the log is well-formed, only the discipline is violated (`b` is not admissible before `a`) -/
theorem list_delete_before_insert_diverges :
    lsA = .insert ⟨[(0, (0, 1))]⟩ 7 ∧ lsB = .delete ⟨[(0, (0, 1))]⟩ ⟨1, 1⟩ ∧
    wfB [lsA, lsB] = true ∧ okB [lsA, lsB] [] lsB = false ∧
    ((lsNew.apply lsA).apply lsB).read = [] ∧ ((lsNew.apply lsB).apply lsA).read = [7] ∧
    (lsNew.apply lsA).apply lsB ≠ (lsNew.apply lsB).apply lsA ∧
    -- both clocks are `{0:1,1:1}`: nothing tells the two replicas apart except the sequence
    ((lsNew.apply lsA).apply lsB).clock = ((lsNew.apply lsB).apply lsA).clock := by decide +kernel

/-- an actor's second op before its first: the first is gated and lost -/
theorem list_actor_order_violation_diverges :
    wfB [lsA, lsC] = true ∧ okB [lsA, lsC] [] lsC = false ∧
    ((lsNew.apply lsA).apply lsC).read = [8, 7] ∧ ((lsNew.apply lsC).apply lsA).read = [8] ∧
    ((lsNew.apply lsC).apply lsA).clock = ((lsNew.apply lsA).apply lsC).clock := by decide +kernel

/-- the propositional reading of the boolean facts above -/
theorem list_delete_before_insert_not_ok : LogWF [lsA, lsB] ∧ ¬ Ok [lsA, lsB] [] lsB :=
  ⟨(wfB_iff _).mp list_delete_before_insert_diverges.2.2.1,
   fun h => by have := (okB_iff _ _ _).mpr h; rw [list_delete_before_insert_diverges.2.2.2.1] at this; cases this⟩

end Crdt.Witness
