import CrdtModel.Model.MVReg
/-! Known edge of C06 / C20: `reset_remove` (src/mvreg.rs:90-102) subtracts a clock from every stored clock; two
different entries can become *identical* (same remaining clock, same value), after which the hand-written
`PartialEq` (src/mvreg.rs:63-85) panics at `assert_eq!(num_found, 1)` – even for `r == r`.

History (actors = replicas 0,1,2; every put built through `write(v, read_ctx().derive_add_ctx(actor))`):
replica 2 writes 5 (`{2:1}`); replicas 0 and 1 receive it and concurrently write 7 (`{0:1,2:1}`, `{1:1,2:1}`);
replica 0 receives replica 1's write and holds both; `reset_remove({0:1,1:1})` leaves `[({2:1},7), ({2:1},7)]`.

Script for the real crate (`harness run`):
```
T mvreg 3
G 2 o0 write 5
D 0 o0
D 1 o0
G 0 o1 write 7
G 1 o2 write 7
D 0 o2
EQ 0 0
RR 0 {0:1,1:1}
EQ 0 0
```
prints `eq=true` before and `panic` after the `RR` line (checked against /repo; model and crate agree). -/
namespace Crdt.Witness
open Crdt

def mvW0 : MVOp Nat Nat := (MVReg.init : MVReg Nat Nat).writeBy 2 5
def mvBase : MVReg Nat Nat := MVReg.init.apply mvW0
def mvW1 : MVOp Nat Nat := mvBase.writeBy 0 7
def mvW2 : MVOp Nat Nat := mvBase.writeBy 1 7
/-- replica 0 after its own write and the delivery of replica 1's write -/
def mvR0 : MVReg Nat Nat := (mvBase.apply mvW1).apply mvW2
def mvRmClock : VClock Nat := ((∅ : VClock Nat).apply ⟨0, 1⟩).apply ⟨1, 1⟩
def mvAfter : MVReg Nat Nat := mvR0.resetRemove mvRmClock
def clk21 : VClock Nat := (∅ : VClock Nat).apply ⟨2, 1⟩

/-- before `reset_remove`: two distinct entries, `==` is fine; after: the same entry twice, `==` panics (`none`) -/
theorem mvreg_eq_panics_after_reset_remove :
    mvR0.read.val = [7, 7] ∧ mvR0.eq mvR0 = some true ∧
    mvAfter.vals = [(clk21, 7), (clk21, 7)] ∧ mvAfter.eq mvAfter = none := by decide

end Crdt.Witness
