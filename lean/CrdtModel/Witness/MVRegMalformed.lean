import CrdtModel.Model.MVReg
/-! Informational witnesses for C06: both clauses of the log well-formedness `MVWF` are needed.

* *one value per clock*: two puts with the SAME clock and different values (the "TAI" comment at src/mvreg.rs:157-160;
  what happens when one actor id writes at two replicas) do not commute – the later arrival wins.
* *no stored zero*: `{1:0,2:1}` and `{2:1}` are pointwise equal but structurally different; each compares `Greater` than
  the other, so the second arrival is dropped (`existing_clock > &clock`) and the arrival order decides. -/
namespace Crdt.Witness
open Crdt

def dupClock : VClock Nat := (∅ : VClock Nat).apply ⟨1, 1⟩
def dupA : MVOp Nat Nat := ⟨dupClock, 5⟩
def dupB : MVOp Nat Nat := ⟨dupClock, 7⟩

theorem mvreg_equal_clocks_do_not_commute :
    ((MVReg.init.apply dupA).apply dupB).read.val = [7] ∧ ((MVReg.init.apply dupB).apply dupA).read.val = [5] ∧
    ((MVReg.init.apply dupA).merge (MVReg.init.apply dupB)).read.val = [5] ∧
    ((MVReg.init.apply dupB).merge (MVReg.init.apply dupA)).read.val = [7] := by decide

def zeroA : MVOp Nat Nat := ⟨⟨((∅ : FMap Nat Nat).insert 1 0).insert 2 1⟩, 5⟩
def zeroB : MVOp Nat Nat := ⟨⟨(∅ : FMap Nat Nat).insert 2 1⟩, 7⟩

theorem mvreg_stored_zero_breaks_commutativity :
    (∀ x ∈ [0, 1, 2, 3], zeroA.clock.get x = zeroB.clock.get x) ∧
    ((MVReg.init.apply zeroA).apply zeroB).read.val = [5] ∧ ((MVReg.init.apply zeroB).apply zeroA).read.val = [7] := by
  decide

end Crdt.Witness
