import CrdtModel.Model.Codec
import CrdtModel.Spec.OrswotSys
/-! Known finding F9 (C19): a replica holding a PENDING REMOVE cannot be serialised with serde_json.

`Orswot.deferred : HashMap<VClock<A>, HashSet<M>>` (src/orswot.rs:23) and `Map.deferred` (src/map.rs:38) are maps keyed
by clocks; serde_json only writes maps whose keys are strings or integers and fails with `key must be a string` on the
first entry.  A remove whose context is ahead of the replica's clock is parked in that table (src/orswot.rs:285-292),
so every replica that receives a remove before the adds it covers is – until those adds arrive – a state that
`serde_json::to_string` rejects: it cannot be persisted, restarted or shipped as JSON.  The pinned test vectors
(/repo/test/serialization) only contain `"deferred":{}`.  Changing the representation (e.g. `btreemap_as_vec`) would
change the wire format of those vectors, so this is recorded, not patched.

Script for the real crate (`harness run`):
```
T orswot 2
G 0 o0 rmctx 1 {0:5}
P 0
```
third line: `json=ERR:key_must_be_a_string norestore`.  Same for Map: `T map_mvreg 2 / G 0 o0 rmctx 1 {0:9} / P 0`. -/
namespace Crdt.Witness
open Crdt

/-- the remove `rm(1, RmCtx{clock: {0:5}})` as built by `Orswot::rm` -/
def f9Op : OrswotOp Nat Nat := Orswot.rm 1 ⟨(∅ : VClock Nat).apply ⟨0, 5⟩⟩
/-- a fresh replica after applying it: the remove is parked in `deferred` -/
def f9State : Orswot Nat Nat := Orswot.init.apply f9Op

def isKeyError : Except String Json → Bool
  | .error e => e == "key must be a string"
  | .ok _ => false

/-- the state is derivable (one delivery of one API-generated op), holds one pending remove, and has no encoding;
the op itself encodes fine -/
theorem serde_rejects_pending_remove :
    f9State.deferred.size = 1 ∧ isKeyError (encodeOrswot f9State) = true ∧
    isKeyError ((orswotOpCodec Scalar.nat Scalar.nat).enc f9Op) = false ∧
    isKeyError (encodeOrswot (Orswot.init : Orswot Nat Nat)) = false := by decide

theorem f9State_reachable : orswotSys.Reach [f9Op] f9State [f9Op] :=
  RepSys.Reach.apply (R := orswotSys) RepSys.Reach.init (List.mem_singleton_self _) trivial

/-- the same one level up: a `Map<u64, MVReg>` holding a pending key remove -/
def f9Map : CMap Nat (MVReg Nat Nat) Nat :=
  CMap.apply (V := MVReg Nat Nat) (VOp := MVOp Nat Nat)
    { default := MVReg.init, apply := MVReg.apply, merge := MVReg.merge, resetRemove := MVReg.resetRemove,
      validateOp := fun _ _ => true, validateMerge := fun _ _ => true, eq := MVReg.eq }
    CMap.init (CMap.rm 1 ⟨(∅ : VClock Nat).apply ⟨0, 9⟩⟩)

theorem serde_rejects_pending_key_remove :
    isKeyError ((mapCodec Scalar.nat Scalar.nat (mvregCodec KeyCodec.nat Codec.nat)).enc f9Map) = true := by decide

end Crdt.Witness
