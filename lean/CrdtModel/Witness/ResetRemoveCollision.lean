import CrdtModel.Model.Orswot
/-! For the record (C18, finding F11, fixed in /repo by c462df9): before the fix `Orswot::reset_remove` rebuilt the
deferred table with `filter_map(...).collect()` into a `HashMap`, so two pending removes whose contexts become EQUAL
once the given clock is subtracted overwrote each other – one pending remove (here: of member 3, or of member 4,
depending on the `HashMap` iteration order) was silently lost and the removed member could reappear later.
`resetRemoveOld` reproduces the old `collect()` semantics (last insert wins; the iteration order is a parameter since
`HashMap` order is unspecified); `Orswot.resetRemove` is the model of the current code (member sets united).

Script for the real crate (`harness run`; with the fixed crate the last line shows `deferred=[{1:1}:[3,4]]`, the
pre-fix crate printed only one of the two members):
```
T orswot 2
G 0 o0 rmctx 3 {0:5,1:1}
G 0 o1 rmctx 4 {0:6,1:1}
RR 0 {0:7}
```
-/
namespace Crdt.Witness
open Crdt

/-- pre-fix `reset_remove` (src/orswot.rs:217-227 before c462df9): `collect()` = insert in iteration order,
a later pair with the same key replaces the earlier one.  `rev` selects the iteration order. -/
def resetRemoveOld (s : Orswot Nat Nat) (c : VClock Nat) (rev : Bool) : Orswot Nat Nat :=
  { s.resetRemove c with
    deferred := (if rev then s.deferred.l.reverse else s.deferred.l).foldl (fun acc p =>
      let k := p.1.resetRemove c
      if k.isEmpty then acc else acc.insert k p.2) ∅ }

def ctx5 : VClock Nat := ((∅ : VClock Nat).apply ⟨0, 5⟩).apply ⟨1, 1⟩
def ctx6 : VClock Nat := ((∅ : VClock Nat).apply ⟨0, 6⟩).apply ⟨1, 1⟩
def ctx7 : VClock Nat := (∅ : VClock Nat).apply ⟨0, 7⟩
def ctx1 : VClock Nat := (∅ : VClock Nat).apply ⟨1, 1⟩
/-- two pending removes (contexts from the future): member 3 under `{0:5,1:1}`, member 4 under `{0:6,1:1}` -/
def rrBefore : Orswot Nat Nat := (Orswot.init.apply (.rm ctx5 [3])).apply (.rm ctx6 [4])

def members (s : Orswot Nat Nat) (k : VClock Nat) : List Nat := ((s.deferred.get? k).map (fun S => S.l.map (·.1))).getD []

/-- both contexts become `{1:1}` after subtracting `{0:7}`: the current code keeps both members pending,
the old code kept only one (whichever came last in iteration order) -/
theorem reset_remove_collision_old_loses_pending_remove :
    members rrBefore ctx5 = [3] ∧ members rrBefore ctx6 = [4] ∧
    ctx5.resetRemove ctx7 = ctx1 ∧ ctx6.resetRemove ctx7 = ctx1 ∧
    members (rrBefore.resetRemove ctx7) ctx1 = [3, 4] ∧
    members (resetRemoveOld rrBefore ctx7 false) ctx1 = [4] ∧
    members (resetRemoveOld rrBefore ctx7 true) ctx1 = [3] := by decide

end Crdt.Witness
