import CrdtModel.Model.MVReg
import CrdtModel.Proofs.ListMax
import CrdtModel.Spec.VClock
/-! Executable specification of `MVReg` as a function of the list of `Put`s a replica has learned
(`K`, duplicates allowed): the causally-maximal puts.  The driver prints these next to the model's
observation and the check compares the *implementation* with them; `Props/C06.lean` proves that every
derivable state agrees with them. Written against `VClock.ge` (pointwise domination, exact for all clocks),
not against the model's `apply`/`merge`. -/
namespace Crdt
open LinOrd
namespace MVSpec
variable {ν α : Type} [LinOrd α]

/-- strict pointwise order on clocks, decided through Rust's `>=` (`VClock.ge_iff`) -/
def sltB (a b : VClock α) : Bool := b.ge a && !(a.ge b)

/-- some known put carries a strictly greater clock -/
def dominatedB (K : List (MVOp ν α)) (c : VClock α) : Bool := K.any (fun o => sltB c o.clock)

/-- the put is shown: non-empty clock, not dominated -/
def isMaxB (K : List (MVOp ν α)) (o : MVOp ν α) : Bool := !o.clock.isEmpty && !dominatedB K o.clock

def dedup {β : Type} [DecidableEq β] : List β → List β
  | [] => []
  | x :: t => if x ∈ t then dedup t else x :: dedup t

/-- the (clock, value) pairs a replica knowing `K` must hold, each once -/
def maxPuts [DecidableEq ν] (K : List (MVOp ν α)) : List (VClock α × ν) :=
  dedup ((K.filter (isMaxB K)).map (fun o => (o.clock, o.val)))

/-- executable form of the log well-formedness `MVWF`: no stored zero, one value per clock -/
def wfB [DecidableEq ν] (K : List (MVOp ν α)) : Bool :=
  K.all (fun o => VClockSpec.noZero o.clock) &&
  K.all (fun o => K.all (fun o' => o.clock != o'.clock || o.val == o'.val))

/-- the clock of `read()`: per actor the largest counter in any known put -/
def readClock (K : List (MVOp ν α)) : VClock α :=
  VClockSpec.ofFun (K.flatMap (fun o => o.clock.dots.l.map (·.1))) (fun a => listMax (fun o => o.clock.get a) K)

end MVSpec
end Crdt
