import CrdtModel.Spec.OrswotSys
set_option linter.unusedSectionVars false
/-!
# A system-level execution model for Orswot: ops are only ever GENERATED THROUGH THE API

All Orswot theorems have the shape `LogWF U → orswotSys.Reach U s K → …` where `U` is "the universe of ops of the history" and
`LogWF U` is a hypothesis.  This file defines a linear-time model of a whole system in which there is no such universe given
in advance: a configuration holds one replica per actor ("each actor confined to one replica"), and the only way an op comes
into existence is a step that mirrors the README's use of the API

    read (`read` / `read_ctx` / `contains`)  →  derive a context  →  build the op (`add`/`add_all`/`rm`/`rm_all`)  →  apply it locally

at the CURRENT state of the issuing replica.  `Proofs/SysOrswot.lean` proves that every configuration such a system can reach
has a well-formed log and that all of its replica states and snapshots are `Reach`-derivable over that log – so every
existing theorem applies to every execution with no well-formedness hypothesis left (`Props/SysOrswot.lean`).
-/
namespace Crdt.Sys
open Crdt LinOrd

/-- pointwise update of an actor-indexed family (`DecidableEq A` comes from `LinOrd A`) -/
def upd {A β : Type} [LinOrd A] (f : A → β) (i : A) (v : β) : A → β := fun j => if j = i then v else f j

@[simp] theorem upd_same {A β : Type} [LinOrd A] (f : A → β) (i : A) (v : β) : upd f i v i = v := by simp [upd]
theorem upd_other {A β : Type} [LinOrd A] (f : A → β) {i j : A} (v : β) (h : j ≠ i) : upd f i v j = f j := by simp [upd, h]

variable {M A : Type} [LinOrd M] [LinOrd A]

/-- a configuration of the whole system -/
structure Cfg (M A : Type) [LinOrd M] [LinOrd A] where
  /-- current state of actor `i`'s replica -/
  rep : A → Orswot M A
  /-- ops delivered to / generated at it (newest first; duplicates are kept) -/
  know : A → List (OrswotOp M A)
  /-- every op generated so far (newest first) -/
  log : List (OrswotOp M A)
  /-- saved states (backups, old snapshots, states in flight to a peer) with their knowledge -/
  snaps : List (Orswot M A × List (OrswotOp M A))

namespace Cfg

/-- all replicas new, nothing generated -/
def init : Cfg M A := ⟨fun _ => Orswot.init, fun _ => [], [], []⟩

/-- `op` has just been built at replica `i`: it is applied there at once, remembered, and enters the log -/
def gen (c : Cfg M A) (i : A) (op : OrswotOp M A) : Cfg M A :=
  { c with rep := upd c.rep i ((c.rep i).apply op), know := upd c.know i (op :: c.know i), log := op :: c.log }

/-- an op of the log arrives at replica `i` -/
def deliver (c : Cfg M A) (i : A) (op : OrswotOp M A) : Cfg M A :=
  { c with rep := upd c.rep i ((c.rep i).apply op), know := upd c.know i (op :: c.know i) }

/-- a state `s` with knowledge `K` is merged into replica `i` -/
def mergeIn (c : Cfg M A) (i : A) (s : Orswot M A) (K : List (OrswotOp M A)) : Cfg M A :=
  { c with rep := upd c.rep i ((c.rep i).merge s), know := upd c.know i (c.know i ++ K) }

/-- replica `i` saves its state -/
def snapshot (c : Cfg M A) (i : A) : Cfg M A := { c with snaps := (c.rep i, c.know i) :: c.snaps }

/-- the states the configuration holds, with their knowledge: the replicas and the saved states -/
inductive View (c : Cfg M A) : Orswot M A → List (OrswotOp M A) → Prop
  | rep (i : A) : View c (c.rep i) (c.know i)
  | snap {p : Orswot M A × List (OrswotOp M A)} : p ∈ c.snaps → View c p.1 p.2

end Cfg

/-- one step of the system.  Ops are created by the first group only, each constructor being one README usage
pattern evaluated at the issuing replica's CURRENT state; everything else moves existing ops / states around. -/
inductive Step : Cfg M A → Cfg M A → Prop
  /-- `let op = s.add(m, s.read().derive_add_ctx(i)); s.apply(op)` -/
  | add (c : Cfg M A) (i : A) (m : M) : Step c (c.gen i (Orswot.add m ((c.rep i).read.deriveAddCtx i)))
  /-- the same with `read_ctx()` -/
  | addCtx (c : Cfg M A) (i : A) (m : M) : Step c (c.gen i (Orswot.add m ((c.rep i).readCtx.deriveAddCtx i)))
  /-- the same with the context of `contains(m')` (any member) -/
  | addContains (c : Cfg M A) (i : A) (m m' : M) :
      Step c (c.gen i (Orswot.add m (((c.rep i).contains m').deriveAddCtx i)))
  /-- `add_all` -/
  | addAll (c : Cfg M A) (i : A) (ms : List M) : Step c (c.gen i (Orswot.addAll ms ((c.rep i).read.deriveAddCtx i)))
  /-- `let op = s.rm(m, s.contains(&m).derive_rm_ctx()); s.apply(op)` -/
  | rm (c : Cfg M A) (i : A) (m : M) : Step c (c.gen i (Orswot.rm m ((c.rep i).contains m).deriveRmCtx))
  /-- remove one member with the whole-set context (`read()` / `read_ctx()`) -/
  | rmRead (c : Cfg M A) (i : A) (m : M) : Step c (c.gen i (Orswot.rm m (c.rep i).read.deriveRmCtx))
  /-- `rm_all` with the whole-set context -/
  | rmAll (c : Cfg M A) (i : A) (ms : List M) : Step c (c.gen i (Orswot.rmAll ms (c.rep i).read.deriveRmCtx))
  /-- `rm_all` with the `read_ctx()` context -/
  | rmAllCtx (c : Cfg M A) (i : A) (ms : List M) : Step c (c.gen i (Orswot.rmAll ms (c.rep i).readCtx.deriveRmCtx))
  /-- a remove whose context was read EARLIER (from a saved state); removes tolerate stale contexts, adds do not -/
  | rmStale (c : Cfg M A) (i : A) (m : M) (p : Orswot M A × List (OrswotOp M A)) :
      p ∈ c.snaps → Step c (c.gen i (Orswot.rm m (p.1.contains m).deriveRmCtx))
  /-- an op of the log is delivered to `i` (again, possibly); adds of each actor in issue order, removes any time -/
  | deliver (c : Cfg M A) (i : A) (op : OrswotOp M A) :
      op ∈ c.log → OrswotSpec.Ok c.log (c.know i) op → Step c (c.deliver i op)
  /-- state-based sync: `i` merges `j`'s current state -/
  | merge (c : Cfg M A) (i j : A) : Step c (c.mergeIn i (c.rep j) (c.know j))
  /-- `i` saves its state (backup / state message in flight) -/
  | snapshot (c : Cfg M A) (i : A) : Step c (c.snapshot i)
  /-- `i` merges the `n`-th saved state (restores a backup, receives an old state message) -/
  | mergeSnap (c : Cfg M A) (i : A) (n : Nat) (p : Orswot M A × List (OrswotOp M A)) :
      c.snaps[n]? = some p → Step c (c.mergeIn i p.1 p.2)

/-- the configurations the system can reach -/
inductive Run : Cfg M A → Prop
  | init : Run Cfg.init
  | step {c c' : Cfg M A} : Run c → Step c c' → Run c'

end Crdt.Sys
