import CrdtModel.Spec.List
import CrdtModel.Proofs.List
import CrdtModel.Proofs.VClock
set_option linter.unusedSectionVars false
/-!
# The representation relation for `List` (src/list.rs) and the facts about it

* `LogWF U` – what generation through the API guarantees about the whole log: every op carries a dot with a positive
  counter (for an insert the dot is the LAST marker of its identifier, so the identifier is non-empty) and no two
  ops carry the same dot.  Consequently two inserts of the log with the same identifier are the same op.
* `Ok U K op` – the delivery discipline: every op of the log by the same actor with a smaller counter is known
  (per-actor order on ALL ops – the dot gate `op_dot.counter <= clock.get(actor)` of `apply` silently drops anything
  that arrives after a later op of its actor), and a `Delete` arrives after an `Insert` of the identifier it targets.
  Every causal schedule satisfies both (`Props/C12.lean: causal_implies_ok`).
* `Rep K s` – `s.clock` is per actor the largest delivered counter; `s.seq` holds exactly the live elements.
-/
namespace Crdt
open LinOrd
namespace ListSpec
variable {τ A : Type} [LinOrd A]

/-- log well-formedness -/
structure LogWF (U : List (Op τ A)) : Prop where
  dot_pos : ∀ op ∈ U, ∃ d, op.dot = some d ∧ 0 < d.counter
  dot_unique : ∀ op ∈ U, ∀ op' ∈ U, op.dot = op'.dot → op = op'

/-- all ops (of the log) of the same actor with a smaller counter are known -/
def PredsIn (U K : List (Op τ A)) (op : Op τ A) : Prop :=
  ∀ o ∈ U, ∀ d d', op.dot = some d → o.dot = some d' → d'.actor = d.actor → d'.counter < d.counter → o ∈ K

/-- a delete comes after an insert of the identifier it targets (the only cross-actor dependency that matters) -/
def TargetIn (K : List (Op τ A)) : Op τ A → Prop
  | .insert _ _ => True
  | .delete id _ => ∃ v, ListOp.insert id v ∈ K

/-- delivery discipline -/
def Ok (U K : List (Op τ A)) (op : Op τ A) : Prop := PredsIn U K op ∧ TargetIn K op

structure Inv (U K : List (Op τ A)) : Prop where
  sub : ∀ o ∈ K, o ∈ U
  closed : ∀ o ∈ K, Ok U K o

structure Rep (K : List (Op τ A)) (s : ListCrdt τ A) : Prop where
  clock_nz : s.clock.NoZero
  clock : ∀ a, s.clock.get a = clk K a
  seq : ∀ id v, s.seq.get? id = some v ↔ Live K id v

/-! ### the specification functions -/

theorem ctr_of_dot {op : Op τ A} {d : Dot A} (h : op.dot = some d) (a : A) :
    ctr a op = if d.actor = a then d.counter else 0 := by simp [ctr, h]

@[simp] theorem clk_cons (o : Op τ A) (K : List (Op τ A)) (a : A) : clk (o :: K) a = max (ctr a o) (clk K a) := rfl

theorem clk_congr {K K' : List (Op τ A)} (e : ∀ o, o ∈ K ↔ o ∈ K') (a : A) : clk K a = clk K' a := listMax_congr _ e

theorem le_clk {K : List (Op τ A)} {op : Op τ A} {d : Dot A} (h : op ∈ K) (hd : op.dot = some d) :
    d.counter ≤ clk K d.actor := by
  have := le_listMax (ctr d.actor) h
  simpa [ctr_of_dot hd, clk] using this

/-- a positive clock value is the counter of a known op of that actor -/
theorem clk_attained {K : List (Op τ A)} {a : A} (h : 0 < clk K a) :
    ∃ op ∈ K, ∃ d, op.dot = some d ∧ d.actor = a ∧ d.counter = clk K a := by
  obtain ⟨o, ho, e⟩ := listMax_attained (ctr a) K h
  refine ⟨o, ho, ?_⟩
  simp only [ctr] at e
  cases hd : o.dot with
  | none => simp only [hd] at e; unfold clk at h; omega
  | some d =>
    simp only [hd] at e
    split at e
    · next ha => exact ⟨d, rfl, ha, e⟩
    · unfold clk at h; omega

theorem deleted_congr {K K' : List (Op τ A)} (e : ∀ o, o ∈ K ↔ o ∈ K') (id : Id A) : Deleted K id ↔ Deleted K' id :=
  ⟨fun ⟨d, h⟩ => ⟨d, (e _).mp h⟩, fun ⟨d, h⟩ => ⟨d, (e _).mpr h⟩⟩

theorem live_congr {K K' : List (Op τ A)} (e : ∀ o, o ∈ K ↔ o ∈ K') (id : Id A) (v : τ) : Live K id v ↔ Live K' id v := by
  unfold Live; rw [e, deleted_congr e]

/-- an op about another identifier does not change whether `id'` is live -/
theorem live_cons_of_ne {K : List (Op τ A)} {op : Op τ A} {id' : Id A} (hne : op.id ≠ id') (v : τ) :
    Live (op :: K) id' v ↔ Live K id' v := by
  unfold Live Deleted
  constructor
  · rintro ⟨h1, h2⟩
    refine ⟨?_, fun ⟨d, hd⟩ => h2 ⟨d, List.mem_cons_of_mem _ hd⟩⟩
    rcases List.mem_cons.mp h1 with e | e
    · subst e; exact absurd rfl hne
    · exact e
  · rintro ⟨h1, h2⟩
    refine ⟨List.mem_cons_of_mem _ h1, fun ⟨d, hd⟩ => ?_⟩
    rcases List.mem_cons.mp hd with e | e
    · subst e; exact absurd rfl hne
    · exact h2 ⟨d, e⟩

/-! ### consequences of well-formedness -/

/-- two inserts of the log with the same identifier are the same op (their dot is the identifier's last marker) -/
theorem insert_same_id {U : List (Op τ A)} (wf : LogWF U) {id : Id A} {v v' : τ}
    (h : ListOp.insert id v ∈ U) (h' : ListOp.insert id v' ∈ U) : v = v' := by
  have := wf.dot_unique _ h _ h' rfl
  cases this; rfl

/-- inserts of the log carry a non-empty identifier -/
theorem insert_id_nonempty {U : List (Op τ A)} (wf : LogWF U) {id : Id A} {v : τ} (h : ListOp.insert id v ∈ U) :
    id.path ≠ [] := by
  obtain ⟨d, hd, _⟩ := wf.dot_pos _ h
  simp only [ListOp.dot] at hd
  cases hv : id.value with
  | none => simp [hv] at hd
  | some m => exact Identifier.value_isSome_iff.mp (by simp [hv])

/-- **the dot gate decides membership**: an op of the log that is not yet known is not gated (`Inv`: the knowledge
is closed under per-actor predecessors, so a known op of the same actor with a counter at least as large would
force this one to be known) -/
theorem not_gated {U K : List (Op τ A)} (wf : LogWF U) (inv : Inv U K) {op : Op τ A} (hu : op ∈ U) (hk : op ∉ K)
    {d : Dot A} (hd : op.dot = some d) : clk K d.actor < d.counter := by
  obtain ⟨d0, hd0, hpos⟩ := wf.dot_pos op hu
  rw [hd] at hd0; cases hd0
  apply Nat.lt_of_not_le
  intro hle
  obtain ⟨o, ho, d', hd', ha, hc⟩ := clk_attained (K := K) (a := d.actor) (by omega)
  by_cases hlt : d.counter < d'.counter
  · exact hk ((inv.closed o ho).1 op hu d' d hd' hd ha.symm hlt)
  · have e : d' = d := by cases d; cases d'; simp at *; exact ⟨ha, by omega⟩
    subst e
    have := wf.dot_unique o (inv.sub o ho) op hu (by rw [hd, hd'])
    subst this; exact hk ho

/-- … and a known op is gated -/
theorem gated {K : List (Op τ A)} {op : Op τ A} (hk : op ∈ K) {d : Dot A} (hd : op.dot = some d) :
    d.counter ≤ clk K d.actor := le_clk hk hd

/-! ### Inv -/

theorem predsIn_mono {U K K' : List (Op τ A)} (h : ∀ o, o ∈ K → o ∈ K') {op : Op τ A} (p : PredsIn U K op) :
    PredsIn U K' op := fun o ho d d' h1 h2 h3 h4 => h o (p o ho d d' h1 h2 h3 h4)

theorem targetIn_mono {K K' : List (Op τ A)} (h : ∀ o, o ∈ K → o ∈ K') {op : Op τ A} (p : TargetIn K op) :
    TargetIn K' op := by
  cases op with
  | insert id v => trivial
  | delete id d => obtain ⟨v, hv⟩ := p; exact ⟨v, h _ hv⟩

theorem ok_mono {U K K' : List (Op τ A)} (h : ∀ o, o ∈ K → o ∈ K') {op : Op τ A} (p : Ok U K op) : Ok U K' op :=
  ⟨predsIn_mono h p.1, targetIn_mono h p.2⟩

theorem inv_nil {U : List (Op τ A)} : Inv U [] := ⟨fun _ h => (nomatch h), fun _ h => (nomatch h)⟩

theorem inv_cons {U K : List (Op τ A)} {op : Op τ A} (inv : Inv U K) (hu : op ∈ U) (ok : Ok U K op) : Inv U (op :: K) := by
  refine ⟨fun o ho => ?_, fun o ho => ?_⟩
  · rcases List.mem_cons.mp ho with e | e
    · subst e; exact hu
    · exact inv.sub o e
  · rcases List.mem_cons.mp ho with e | e
    · subst e; exact ok_mono (fun _ h => List.mem_cons_of_mem _ h) ok
    · exact ok_mono (fun _ h => List.mem_cons_of_mem _ h) (inv.closed o e)

theorem inv_congr {U K K' : List (Op τ A)} (e : ∀ o, o ∈ K ↔ o ∈ K') (inv : Inv U K) : Inv U K' :=
  ⟨fun o ho => inv.sub o ((e o).mpr ho), fun o ho => ok_mono (fun x => (e x).mp) (inv.closed o ((e o).mpr ho))⟩

/-! ### Rep -/

theorem rep_init : Rep ([] : List (Op τ A)) (ListCrdt.new : ListCrdt τ A) := by
  refine ⟨VClock.noZero_empty, fun a => rfl, fun id v => ?_⟩
  simp [ListCrdt.new, Live]

theorem rep_congr {K K' : List (Op τ A)} {s : ListCrdt τ A} (e : ∀ o, o ∈ K ↔ o ∈ K') (h : Rep K s) : Rep K' s :=
  ⟨h.clock_nz, fun a => by rw [h.clock, clk_congr e], fun id v => by rw [h.seq, live_congr e]⟩

theorem rep_functional {K : List (Op τ A)} {s s' : ListCrdt τ A} (h : Rep K s) (h' : Rep K s') : s = s' := by
  have hc : s.clock = s'.clock := VClock.ext_get h.clock_nz h'.clock_nz (fun a => by rw [h.clock, h'.clock])
  have hs : s.seq = s'.seq := by
    apply FMap.ext
    intro id
    cases h1 : s.seq.get? id with
    | none =>
      cases h2 : s'.seq.get? id with
      | none => rfl
      | some v' => have := (h.seq id v').mpr ((h'.seq id v').mp h2); rw [h1] at this; cases this
    | some v => exact ((h'.seq id v).mpr ((h.seq id v).mp h1)).symm
  cases s; cases s'; simp at hc hs; subst hc; subst hs; rfl

/-- the clock after an un-gated op: exactly its dot is added -/
theorem clock_step {K : List (Op τ A)} {s : ListCrdt τ A} (h : Rep K s) {op : Op τ A} {d : Dot A} (hd : op.dot = some d) :
    (s.clock.apply d).NoZero ∧ ∀ a, (s.clock.apply d).get a = clk (op :: K) a := by
  refine ⟨VClock.noZero_apply h.clock_nz d, fun a => ?_⟩
  rw [VClock.get_apply, clk_cons, ctr_of_dot hd, h.clock]
  by_cases e : a = d.actor
  · subst e; simp only [if_true]; omega
  · have : ¬ d.actor = a := fun x => e x.symm
    simp only [e, this, if_false]; omega

/-- unfolding `apply` for an op that passes the gate -/
theorem apply_insert_eq {s : ListCrdt τ A} {id : Id A} {v : τ} {d : Dot A}
    (hd : (ListOp.insert id v : Op τ A).dot = some d) (ng : ¬ d.counter ≤ s.clock.get d.actor) :
    s.apply (.insert id v) = ⟨ListCrdt.insertEntry s.seq id v, s.clock.apply d⟩ := by
  simp only [ListCrdt.apply, ListCrdt.apply?, hd, ng, if_false, Option.getD_some]

theorem apply_delete_eq {s : ListCrdt τ A} {id : Id A} {d : Dot A} (ng : ¬ d.counter ≤ s.clock.get d.actor) :
    s.apply (.delete id d : Op τ A) = ⟨s.seq.erase id, s.clock.apply d⟩ := by
  simp only [ListCrdt.apply, ListCrdt.apply?, ListOp.dot, ng, if_false, Option.getD_some]

theorem apply_gated_eq {s : ListCrdt τ A} {op : Op τ A} {d : Dot A} (hd : op.dot = some d)
    (g : d.counter ≤ s.clock.get d.actor) : s.apply op = s := by
  simp only [ListCrdt.apply, ListCrdt.apply?, hd, g, if_true, Option.getD_some]

/-- **representation theorem, step**: delivering an op of the log under the discipline -/
theorem rep_apply {U K : List (Op τ A)} {s : ListCrdt τ A} {op : Op τ A} (wf : LogWF U) (inv : Inv U K) (h : Rep K s)
    (hu : op ∈ U) : Rep (op :: K) (s.apply op) := by
  obtain ⟨d, hd, hpos⟩ := wf.dot_pos op hu
  by_cases hk : op ∈ K
  · -- duplicate: gated, nothing changes
    have g : d.counter ≤ s.clock.get d.actor := by rw [h.clock]; exact gated hk hd
    rw [apply_gated_eq hd g]
    refine rep_congr (fun o => ?_) h
    simp only [List.mem_cons]
    exact ⟨Or.inr, fun x => x.elim (fun e => e ▸ hk) id⟩
  · have ng : ¬ d.counter ≤ s.clock.get d.actor := by
      rw [h.clock]; have := not_gated wf inv hu hk hd; omega
    obtain ⟨nz, hclk⟩ := clock_step h hd
    cases op with
    | insert id v =>
      rw [apply_insert_eq hd ng]
      -- the identifier is fresh: an entry under `id` would be THIS insert (same identifier ⇒ same dot ⇒ same op)
      have hc : s.seq.contains id = false := by
        cases hg : s.seq.get? id with
        | none => simp [FMap.contains, hg]
        | some v' =>
          have l := (h.seq id v').mp hg
          have e := insert_same_id wf (inv.sub _ l.1) hu
          subst e; exact absurd l.1 hk
      refine ⟨nz, hclk, fun id' v' => ?_⟩
      simp only [ListCrdt.insertEntry, hc, Bool.false_eq_true, if_false, FMap.get?_insert]
      by_cases e : id' = id
      · subst e
        simp only [if_true, Option.some.injEq]
        constructor
        · intro ev; subst ev
          refine ⟨List.mem_cons_self, fun ⟨d', hd'⟩ => ?_⟩
          rcases List.mem_cons.mp hd' with e | e
          · cases e
          · -- a known delete of `id'` would have required this insert to be known
            obtain ⟨w, hw⟩ := (inv.closed _ e).2
            have e := insert_same_id wf (inv.sub _ hw) hu
            subst e; exact hk hw
        · intro l
          rcases List.mem_cons.mp l.1 with e | e
          · cases e; rfl
          · exact insert_same_id wf hu (inv.sub _ e)
      · simp only [e, if_false]
        rw [h.seq, live_cons_of_ne (op := ListOp.insert id v) (fun x => e x.symm)]
    | delete id dt =>
      have : dt = d := by simpa [ListOp.dot] using hd
      subst this
      rw [apply_delete_eq ng]
      refine ⟨nz, hclk, fun id' v' => ?_⟩
      simp only [FMap.get?_erase]
      by_cases e : id' = id
      · subst e
        simp only [if_true]
        constructor
        · intro x; cases x
        · intro l; exact absurd ⟨dt, List.mem_cons_self⟩ l.2
      · simp only [e, if_false]
        rw [h.seq, live_cons_of_ne (op := ListOp.delete id dt) (fun x => e x.symm)]

/-- `apply` does not panic on ops of a well-formed log -/
theorem apply?_isSome {U : List (Op τ A)} (wf : LogWF U) {op : Op τ A} (hu : op ∈ U) (s : ListCrdt τ A) :
    s.apply? op = some (s.apply op) := by
  obtain ⟨d, hd, _⟩ := wf.dot_pos op hu
  simp only [ListCrdt.apply, ListCrdt.apply?, hd]
  split
  · rfl
  · cases op <;> rfl

end ListSpec
end Crdt
