import CrdtModel.Spec.RepSys
import CrdtModel.Spec.RepSysEquiv
import CrdtModel.Proofs.Codec
/-!
# Execution model with persistence steps (C19)

`ReachP` extends the derivations of `Spec/RepSys.lean` (any interleaving of applies, duplicates, merges of live or stale
states) by one more rule: at ANY point a replica may be serialised and replaced by whatever deserialisation returns
(restart from disk, shipping the state to a peer).  The step exists only when serialisation succeeds.
`persist_anywhere`: with a codec that round-trips, the extended system derives exactly the same (state, knowledge)
pairs as the original one – so every theorem about `Reach` (convergence, merge laws, reads, …) holds with persistence
steps anywhere in the history.
-/
namespace Crdt

namespace RepSys
variable {σ ω : Type} (R : RepSys σ ω) (c : Codec σ)

inductive ReachP (U : List ω) : σ → List ω → Prop
  | init : ReachP U R.init []
  | apply {s K op} : ReachP U s K → op ∈ U → R.Ok U K op → ReachP U (R.apply s op) (op :: K)
  | merge {s K s' K'} : ReachP U s K → ReachP U s' K' → ReachP U (R.merge s s') (K ++ K')
  /-- serialise, deserialise, continue with the restored value -/
  | persist {s K j s'} : ReachP U s K → c.enc s = .ok j → c.dec j = some s' → ReachP U s' K

variable {R c} {U : List ω}

theorem reach_of_reachP (hc : c.RoundTrip) {s : σ} {K : List ω} (h : R.ReachP c U s K) : R.Reach U s K := by
  induction h with
  | init => exact Reach.init
  | apply _ hu hok ih => exact Reach.apply ih hu hok
  | merge _ _ ih1 ih2 => exact Reach.merge ih1 ih2
  | persist _ he hd ih =>
    have := hc _ _ he
    rw [this] at hd; cases hd; exact ih

theorem reachP_of_reach {s : σ} {K : List ω} (h : R.Reach U s K) : R.ReachP c U s K := by
  induction h with
  | init => exact ReachP.init
  | apply _ hu hok ih => exact ReachP.apply ih hu hok
  | merge _ _ ih1 ih2 => exact ReachP.merge ih1 ih2

end RepSys

namespace RepSysE
variable {σ ω : Type} (R : RepSysE σ ω) (c : Codec σ)

inductive ReachP (U : List ω) : σ → List ω → Prop
  | init : ReachP U R.init []
  | apply {s K op} : ReachP U s K → op ∈ U → R.Ok U K op → ReachP U (R.apply s op) (op :: K)
  | merge {s K s' K'} : ReachP U s K → ReachP U s' K' → ReachP U (R.merge s s') (K ++ K')
  | persist {s K j s'} : ReachP U s K → c.enc s = .ok j → c.dec j = some s' → ReachP U s' K

variable {R c} {U : List ω}

theorem reach_of_reachP (hc : c.RoundTrip) {s : σ} {K : List ω} (h : R.ReachP c U s K) : R.Reach U s K := by
  induction h with
  | init => exact Reach.init
  | apply _ hu hok ih => exact Reach.apply ih hu hok
  | merge _ _ ih1 ih2 => exact Reach.merge ih1 ih2
  | persist _ he hd ih =>
    have := hc _ _ he
    rw [this] at hd; cases hd; exact ih

theorem reachP_of_reach {s : σ} {K : List ω} (h : R.Reach U s K) : R.ReachP c U s K := by
  induction h with
  | init => exact ReachP.init
  | apply _ hu hok ih => exact ReachP.apply ih hu hok
  | merge _ _ ih1 ih2 => exact ReachP.merge ih1 ih2

end RepSysE

/-! ### the same for any type, without a representation theorem (Map with nested values, List, GList)

`Runs`: every state obtainable from `init` by applying ANY ops in any order and merging any obtainable states;
`RunsP`: the same with persistence steps. -/
structure StateSys (σ ω : Type) where
  init : σ
  apply : σ → ω → σ
  merge : σ → σ → σ

namespace StateSys
variable {σ ω : Type} (S : StateSys σ ω) (c : Codec σ)

inductive Runs : σ → Prop
  | init : Runs S.init
  | apply {s} (op : ω) : Runs s → Runs (S.apply s op)
  | merge {s s'} : Runs s → Runs s' → Runs (S.merge s s')

inductive RunsP : σ → Prop
  | init : RunsP S.init
  | apply {s} (op : ω) : RunsP s → RunsP (S.apply s op)
  | merge {s s'} : RunsP s → RunsP s' → RunsP (S.merge s s')
  | persist {s j s'} : RunsP s → c.enc s = .ok j → c.dec j = some s' → RunsP s'

variable {S c}

theorem runs_of_runsP (hc : c.RoundTrip) {s : σ} (h : S.RunsP c s) : S.Runs s := by
  induction h with
  | init => exact Runs.init
  | apply op _ ih => exact Runs.apply op ih
  | merge _ _ ih1 ih2 => exact Runs.merge ih1 ih2
  | persist _ he hd ih =>
    have := hc _ _ he
    rw [this] at hd; cases hd; exact ih

theorem runsP_of_runs {s : σ} (h : S.Runs s) : S.RunsP c s := by
  induction h with
  | init => exact RunsP.init
  | apply op _ ih => exact RunsP.apply op ih
  | merge _ _ ih1 ih2 => exact RunsP.merge ih1 ih2

end StateSys
end Crdt
