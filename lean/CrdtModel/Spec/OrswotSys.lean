import CrdtModel.Proofs.OrswotMerge2
import CrdtModel.Spec.RepSys
set_option linter.unusedSectionVars false
/-! The Orswot representation system: discipline = per-actor order on adds only (removes unordered). -/
namespace Crdt
open LinOrd
namespace OrswotSpec
variable {M A : Type} [LinOrd M] [LinOrd A]
open Orswot

theorem rep_init : Rep ([] : List (Op M A)) Orswot.init := by
  refine ⟨VClock.noZero_empty, fun a => rfl, entriesWF_empty, fun m a => ?_, fun c => ?_, fun c S hS => ?_⟩
  · simp [entryGet, Orswot.init, E, Mx, θ]
  · simp [Orswot.init]
  · simp [Orswot.init] at hS

theorem rep_functional {K : List (Op M A)} {s s' : Orswot M A} (h : Rep K s) (h' : Rep K s') : s = s' := by
  have hc : s.clock = s'.clock := VClock.ext_get h.clock_nz h'.clock_nz (fun a => by rw [h.clock, h'.clock])
  have he : s.entries = s'.entries := entries_ext h.ewf h'.ewf (fun m a => by rw [h.entries, h'.entries])
  have hd : s.deferred = s'.deferred := by
    apply FMap.ext
    intro c
    have a := h.def_some c
    have b := h'.def_some c
    cases h1 : s.deferred.get? c with
    | none =>
      cases h2 : s'.deferred.get? c with
      | none => rfl
      | some S' =>
        have : (s.deferred.get? c).isSome = true := a.mpr (b.mp (by simp [h2]))
        simp [h1] at this
    | some S =>
      cases h2 : s'.deferred.get? c with
      | none =>
        have : (s'.deferred.get? c).isSome = true := b.mpr (a.mp (by simp [h1]))
        simp [h2] at this
      | some S' =>
        congr 1
        apply fset_ext
        intro m
        have x := h.def_mem c S h1 m
        have y := h'.def_mem c S' h2 m
        cases hx : S.contains m <;> cases hy : S'.contains m <;> simp_all
  cases s; cases s'; simp at hc he hd; subst hc; subst he; subst hd; rfl

theorem inv_cons {U K : List (Op M A)} {op : Op M A} (wf : LogWF U) (inv : Inv U K) (hu : op ∈ U) (ok : Ok U K op) :
    Inv U (op :: K) := by
  refine ⟨fun o ho => ?_, fun d ms hin d' ms' hu' ha hlt => ?_⟩
  · rcases List.mem_cons.mp ho with e | e
    · subst e; exact hu
    · exact inv.sub o e
  · rcases List.mem_cons.mp hin with e | e
    · subst e; exact List.mem_cons_of_mem _ (ok d' ms' hu' ha hlt)
    · exact List.mem_cons_of_mem _ (inv.closed d ms e d' ms' hu' ha hlt)

theorem inv_append {U K K' : List (Op M A)} (inv : Inv U K) (inv' : Inv U K') : Inv U (K ++ K') := by
  refine ⟨fun o ho => ?_, fun d ms hin d' ms' hu' ha hlt => ?_⟩
  · rcases List.mem_append.mp ho with e | e
    · exact inv.sub o e
    · exact inv'.sub o e
  · rcases List.mem_append.mp hin with e | e
    · exact List.mem_append.mpr (Or.inl (inv.closed d ms e d' ms' hu' ha hlt))
    · exact List.mem_append.mpr (Or.inr (inv'.closed d ms e d' ms' hu' ha hlt))

theorem inv_congr {U K K' : List (Op M A)} (e : ∀ o, o ∈ K ↔ o ∈ K') (inv : Inv U K) : Inv U K' :=
  ⟨fun o ho => inv.sub o ((e o).mpr ho),
   fun d ms hin d' ms' hu' ha hlt => (e _).mp (inv.closed d ms ((e _).mpr hin) d' ms' hu' ha hlt)⟩

theorem ok_of_mem {U K : List (Op M A)} {op : Op M A} (inv : Inv U K) (hk : op ∈ K) : Ok U K op := by
  cases op with
  | add d ms => exact inv.closed d ms hk
  | rm c ms => trivial

theorem rep_apply {U K : List (Op M A)} {s : Orswot M A} {op : Op M A} (wf : LogWF U) (inv : Inv U K) (h : Rep K s)
    (hu : op ∈ U) (ok : Ok U K op) : Rep (op :: K) (Orswot.apply s op) := by
  cases op with
  | add d ms => exact rep_apply_add wf inv h hu ok
  | rm c ms => exact rep_apply_rm h c (wf.rm_nz c ms hu) ms

end OrswotSpec

/-- Orswot as a representation system -/
def orswotSys {M A : Type} [LinOrd M] [LinOrd A] : RepSys (Orswot M A) (OrswotOp M A) where
  init := Orswot.init
  apply := Orswot.apply
  merge := Orswot.merge
  WF := OrswotSpec.LogWF
  Ok := OrswotSpec.Ok
  Inv := OrswotSpec.Inv
  Rep := fun _ K s => OrswotSpec.Rep K s
  inv_nil := OrswotSpec.Inv.mk (fun _ h => by cases h) (fun _ _ h => by cases h)
  inv_cons := OrswotSpec.inv_cons
  inv_append := OrswotSpec.inv_append
  inv_congr := OrswotSpec.inv_congr
  ok_of_mem := fun _ inv hk => OrswotSpec.ok_of_mem inv hk
  rep_init := OrswotSpec.rep_init
  rep_apply := OrswotSpec.rep_apply
  rep_merge := OrswotSpec.rep_merge
  rep_congr := OrswotSpec.rep_congr
  rep_functional := fun _ _ h h' => OrswotSpec.rep_functional h h'

end Crdt
