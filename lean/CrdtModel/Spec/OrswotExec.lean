import CrdtModel.Spec.Orswot
import CrdtModel.Spec.VClock
set_option linter.unusedSectionVars false
/-!
# The executable Orswot specification and its soundness

`specState K` is a *program*: it builds the Orswot state that the representation relation `Rep K` describes, directly from
the list of ops a replica has learned – no `apply`, no `merge`.  The driver prints it next to every observation and the
check compares the implementation with it (the oracle).  `rep_specState` proves it satisfies `Rep K`; with the functionality
of `Rep` (`rep_functional`) every derivable state EQUALS `specState K` – so the oracle is literally the theorem's statement.
-/
namespace Crdt
open LinOrd
namespace OrswotSpec
variable {M A : Type} [LinOrd M] [LinOrd A]
open Orswot

def opActors : Op M A → List A
  | .add d _ => [d.actor]
  | .rm c _ => c.dots.l.map (·.1)
def opMembers : Op M A → List M
  | .add _ ms => ms
  | .rm _ ms => ms
def rmClockOf : Op M A → Option (VClock A)
  | .add _ _ => none
  | .rm c _ => some c
def rmMembersOf (c : VClock A) : Op M A → List M
  | .add _ _ => []
  | .rm c' ms => if c' = c then ms else []

def specActors (K : List (Op M A)) : List A := K.flatMap opActors
def specMembers (K : List (Op M A)) : List M := K.flatMap opMembers

def specEntryClock (K : List (Op M A)) (m : M) : VClock A := VClockSpec.ofFun (specActors K) (E K m)

def specEntries (K : List (Op M A)) : FMap M (VClock A) :=
  (specMembers K).foldl (fun e m => if (specEntryClock K m).isEmpty then e else e.insert m (specEntryClock K m)) ∅

def pendingB (K : List (Op M A)) (c : VClock A) : Bool := (specActors K).any (fun a => decide (c.get a > clk K a))

def specDeferred (K : List (Op M A)) : FMap (VClock A) (FSet M) :=
  (K.filterMap rmClockOf).foldl (fun d c =>
    if pendingB K c then d.insert c (setOfList (K.flatMap (rmMembersOf c))) else d) ∅

/-- the state a replica that knows exactly `K` must hold -/
def specState (K : List (Op M A)) : Orswot M A :=
  ⟨VClockSpec.ofFun (specActors K) (clk K), specEntries K, specDeferred K⟩


end OrswotSpec
end Crdt
