/-!
# Execution model and the generic consequences of a representation theorem

`U` is the *universe of ops of the history* (every op ever generated, by anyone).  A replica state is
`Reach`-derivable with knowledge list `K` (the ops it has learned, duplicates included) if it can be obtained
from the initial state by applying ops of `U` that the delivery discipline `Ok` admits (an op already known may
be applied again) and by merging any two derivable states – another replica's current state, an old snapshot,
a backup, its own past: every one of those has a derivation, so "all schedules, all merge patterns, any number
of replicas" is "all derivations".  There is no bound on anything.

A `RepSys` packages, for one CRDT type, the representation relation `Rep U K s` ("`s` is what a replica that
knows exactly the ops in `K` must hold") with the facts proved about it per type.  Everything in this file is
proved once from those facts; C01, C02, C03, C08, C09, C20 are instances.
-/
namespace Crdt

structure RepSys (σ ω : Type) where
  init : σ
  apply : σ → ω → σ
  merge : σ → σ → σ
  /-- well-formedness of the whole log (what generation through the API guarantees) -/
  WF : List ω → Prop
  /-- delivery discipline: may `op` be applied by a replica that knows `K`? -/
  Ok : List ω → List ω → ω → Prop
  /-- knowledge sets the discipline can produce (⊆ U, closed as the discipline requires) -/
  Inv : List ω → List ω → Prop
  Rep : List ω → List ω → σ → Prop
  inv_nil : ∀ {U}, Inv U []
  inv_cons : ∀ {U K op}, WF U → Inv U K → op ∈ U → Ok U K op → Inv U (op :: K)
  inv_append : ∀ {U K K'}, Inv U K → Inv U K' → Inv U (K ++ K')
  inv_congr : ∀ {U K K'}, (∀ o, o ∈ K ↔ o ∈ K') → Inv U K → Inv U K'
  ok_of_mem : ∀ {U K op}, WF U → Inv U K → op ∈ K → Ok U K op
  rep_init : ∀ {U}, Rep U [] init
  rep_apply : ∀ {U K s op}, WF U → Inv U K → Rep U K s → op ∈ U → Ok U K op → Rep U (op :: K) (apply s op)
  rep_merge : ∀ {U K K' s s'}, WF U → Inv U K → Inv U K' → Rep U K s → Rep U K' s' → Rep U (K ++ K') (merge s s')
  rep_congr : ∀ {U K K' s}, (∀ o, o ∈ K ↔ o ∈ K') → Rep U K s → Rep U K' s
  rep_functional : ∀ {U K s s'}, WF U → Inv U K → Rep U K s → Rep U K s' → s = s'

namespace RepSys
variable {σ ω : Type} (R : RepSys σ ω)

/-- derivable replica states with their knowledge -/
inductive Reach (U : List ω) : σ → List ω → Prop
  | init : Reach U R.init []
  | apply {s K op} : Reach U s K → op ∈ U → R.Ok U K op → Reach U (R.apply s op) (op :: K)
  | merge {s K s' K'} : Reach U s K → Reach U s' K' → Reach U (R.merge s s') (K ++ K')

variable {R} {U : List ω}

/-- **representation theorem, generic part**: every derivable state represents its knowledge -/
theorem reach_rep (wf : R.WF U) {s : σ} {K : List ω} (h : R.Reach U s K) : R.Inv U K ∧ R.Rep U K s := by
  induction h with
  | init => exact ⟨R.inv_nil, R.rep_init⟩
  | apply _ hu hok ih => exact ⟨R.inv_cons wf ih.1 hu hok, R.rep_apply wf ih.1 ih.2 hu hok⟩
  | merge _ _ ih1 ih2 => exact ⟨R.inv_append ih1.1 ih2.1, R.rep_merge wf ih1.1 ih2.1 ih1.2 ih2.2⟩

/-- C01 / C08 / C20: equal knowledge ⇒ equal state (hence equal reads and contexts), for any two replicas or
snapshots, however each one got there -/
theorem converge (wf : R.WF U) {s s' : σ} {K K' : List ω} (h : R.Reach U s K) (h' : R.Reach U s' K')
    (e : ∀ o, o ∈ K ↔ o ∈ K') : s = s' := by
  have a := reach_rep wf h
  have b := reach_rep wf h'
  exact R.rep_functional wf b.1 (R.rep_congr e a.2) b.2

/-- C03: merging realises the union of knowledge -/
theorem merge_is_union (wf : R.WF U) {s s' t : σ} {K K' L : List ω} (h : R.Reach U s K) (h' : R.Reach U s' K')
    (ht : R.Reach U t L) (e : ∀ o, o ∈ L ↔ (o ∈ K ∨ o ∈ K')) : R.merge s s' = t :=
  converge wf (Reach.merge h h') ht (by intro o; rw [List.mem_append]; exact (e o).symm)

/-- C02 -/
theorem merge_comm (wf : R.WF U) {s s' : σ} {K K' : List ω} (h : R.Reach U s K) (h' : R.Reach U s' K') :
    R.merge s s' = R.merge s' s :=
  converge wf (Reach.merge h h') (Reach.merge h' h) (by intro o; simp only [List.mem_append]; exact Or.comm)

theorem merge_assoc (wf : R.WF U) {a b c : σ} {Ka Kb Kc : List ω} (ha : R.Reach U a Ka) (hb : R.Reach U b Kb)
    (hc : R.Reach U c Kc) : R.merge (R.merge a b) c = R.merge a (R.merge b c) :=
  converge wf (Reach.merge (Reach.merge ha hb) hc) (Reach.merge ha (Reach.merge hb hc))
    (by intro o; simp only [List.mem_append]; exact or_assoc)

theorem merge_idem (wf : R.WF U) {s : σ} {K : List ω} (h : R.Reach U s K) : R.merge s s = s :=
  converge wf (Reach.merge h h) h (by intro o; simp only [List.mem_append, or_self])

/-- C09: re-applying a known op changes nothing -/
theorem dup_noop (wf : R.WF U) {s : σ} {K : List ω} (h : R.Reach U s K) {op : ω} (hu : op ∈ U) (hk : op ∈ K) :
    R.apply s op = s := by
  have a := reach_rep wf h
  exact converge wf (Reach.apply h hu (R.ok_of_mem wf a.1 hk)) h
    (by intro o; simp only [List.mem_cons]; constructor
        · rintro (e | e)
          · subst e; exact hk
          · exact e
        · exact Or.inr)

/-- C09: merging a state whose knowledge is already known (old snapshot, own past, lagging peer) changes nothing -/
theorem stale_noop (wf : R.WF U) {s s' : σ} {K K' : List ω} (h : R.Reach U s K) (h' : R.Reach U s' K')
    (sub : ∀ o, o ∈ K' → o ∈ K) : R.merge s s' = s :=
  converge wf (Reach.merge h h') h (by intro o; simp only [List.mem_append]; exact ⟨fun e => e.elim id (sub o), Or.inl⟩)

/-- a state delivered op by op equals the merge of any states that together know the same ops -/
theorem reach_knowledge_subset (wf : R.WF U) {s : σ} {K : List ω} (h : R.Reach U s K) : R.Inv U K := (reach_rep wf h).1

end RepSys
end Crdt
