import CrdtModel.Model.GList
import CrdtModel.Proofs.OrswotBasic
import CrdtModel.Spec.RepSys
set_option linter.unusedSectionVars false
/-! GList as a representation system: the set of identifiers is the union of the inserted identifiers; no delivery
discipline at all (`Ok := True`). -/
namespace Crdt
open LinOrd
namespace GList
variable {τ : Type} [LinOrd τ]

def has (g : GList τ) (i : Identifier τ) : Bool := g.list.contains i

theorem has_apply (g : GList τ) (op : GListOp τ) (i : Identifier τ) :
    (g.apply op).has i = true ↔ (i = op.id ∨ g.has i = true) := by
  cases op with
  | insert j =>
    simp only [GList.apply, has, FMap.contains, FMap.get?_insert, GListOp.id]
    by_cases e : i = j <;> simp [e]

theorem has_merge (g o : GList τ) (i : Identifier τ) : (g.merge o).has i = (g.has i || o.has i) := by
  have := Orswot.contains_unionSet g.list o.list i
  simpa [GList.merge, has, Orswot.unionSet] using this

theorem ext {a b : GList τ} (h : ∀ i, a.has i = b.has i) : a = b := by
  cases a with | mk la => cases b with | mk lb =>
  congr 1
  exact Orswot.fset_ext h

end GList

def glistSys {τ : Type} [LinOrd τ] : RepSys (GList τ) (GListOp τ) where
  init := GList.new
  apply := GList.apply
  merge := GList.merge
  WF := fun _ => True
  Ok := fun _ _ _ => True
  Inv := fun _ _ => True
  Rep := fun _ K g => ∀ i, g.has i = true ↔ ∃ op ∈ K, op.id = i
  inv_nil := trivial
  inv_cons := fun _ _ _ _ => trivial
  inv_append := fun _ _ => trivial
  inv_congr := fun _ _ => trivial
  ok_of_mem := fun _ _ _ => trivial
  rep_init := fun i => by simp [GList.new, GList.has, FMap.contains]
  rep_apply := fun _ _ h _ _ i => by
    rw [GList.has_apply, h i]
    constructor
    · rintro (e | ⟨op, hop, e⟩)
      · exact ⟨_, List.mem_cons_self, e.symm⟩
      · exact ⟨op, List.mem_cons_of_mem _ hop, e⟩
    · rintro ⟨op, hop, e⟩
      rcases List.mem_cons.mp hop with x | x
      · subst x; exact Or.inl e.symm
      · exact Or.inr ⟨op, x, e⟩
  rep_merge := fun _ _ _ h h' i => by
    rw [GList.has_merge, Bool.or_eq_true, h i, h' i]
    constructor
    · rintro (⟨op, hop, e⟩ | ⟨op, hop, e⟩)
      · exact ⟨op, List.mem_append.mpr (Or.inl hop), e⟩
      · exact ⟨op, List.mem_append.mpr (Or.inr hop), e⟩
    · rintro ⟨op, hop, e⟩
      rcases List.mem_append.mp hop with x | x
      · exact Or.inl ⟨op, x, e⟩
      · exact Or.inr ⟨op, x, e⟩
  rep_congr := fun e h i => by
    rw [h i]
    constructor
    · rintro ⟨op, hop, x⟩; exact ⟨op, (e op).mp hop, x⟩
    · rintro ⟨op, hop, x⟩; exact ⟨op, (e op).mpr hop, x⟩
  rep_functional := fun _ _ h h' => GList.ext (fun i => by
    have a := h i; have b := h' i
    rename_i s s' _ _
    cases h1 : s.has i <;> cases h2 : s'.has i
    · rfl
    · exact absurd (a.mpr (b.mp h2)) (by rw [h1]; simp)
    · exact absurd (b.mpr (a.mp h1)) (by rw [h2]; simp)
    · rfl)

end Crdt
