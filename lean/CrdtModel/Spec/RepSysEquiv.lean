/-!
# Execution model with state equality *up to an equivalence*

Variant of `Spec/RepSys.lean` for types whose state carries representation noise (for `MVReg`: the arrival
order of the `Vec`).  Everything is as in `RepSys` – same universe `U` of ops, same knowledge lists, same
derivations `Reach` (any interleaving, duplicates, merges of live or stale states) – except that two states
representing the same knowledge are only required to be `Equiv`alent, not equal, and the corollaries
(convergence, merge laws, idempotence of duplicates) are stated up to `Equiv`.
-/
namespace Crdt

structure RepSysE (σ ω : Type) where
  init : σ
  apply : σ → ω → σ
  merge : σ → σ → σ
  /-- what "the same state" means (an equivalence relation) -/
  Equiv : σ → σ → Prop
  /-- well-formedness of the whole log (what generation through the API guarantees) -/
  WF : List ω → Prop
  /-- delivery discipline: may `op` be applied by a replica that knows `K`? -/
  Ok : List ω → List ω → ω → Prop
  /-- knowledge sets the discipline can produce (⊆ U, closed as the discipline requires) -/
  Inv : List ω → List ω → Prop
  Rep : List ω → List ω → σ → Prop
  equiv_refl : ∀ s, Equiv s s
  equiv_symm : ∀ {s t}, Equiv s t → Equiv t s
  equiv_trans : ∀ {s t u}, Equiv s t → Equiv t u → Equiv s u
  inv_nil : ∀ {U}, Inv U []
  inv_cons : ∀ {U K op}, WF U → Inv U K → op ∈ U → Ok U K op → Inv U (op :: K)
  inv_append : ∀ {U K K'}, Inv U K → Inv U K' → Inv U (K ++ K')
  inv_congr : ∀ {U K K'}, (∀ o, o ∈ K ↔ o ∈ K') → Inv U K → Inv U K'
  ok_of_mem : ∀ {U K op}, WF U → Inv U K → op ∈ K → Ok U K op
  rep_init : ∀ {U}, Rep U [] init
  rep_apply : ∀ {U K s op}, WF U → Inv U K → Rep U K s → op ∈ U → Ok U K op → Rep U (op :: K) (apply s op)
  rep_merge : ∀ {U K K' s s'}, WF U → Inv U K → Inv U K' → Rep U K s → Rep U K' s' → Rep U (K ++ K') (merge s s')
  rep_congr : ∀ {U K K' s}, (∀ o, o ∈ K ↔ o ∈ K') → Rep U K s → Rep U K' s
  /-- the representation does not see the noise … -/
  rep_equiv : ∀ {U K s s'}, Rep U K s → Equiv s s' → Rep U K s'
  /-- … and determines the state up to it -/
  rep_functional : ∀ {U K s s'}, WF U → Inv U K → Rep U K s → Rep U K s' → Equiv s s'

namespace RepSysE
variable {σ ω : Type} (R : RepSysE σ ω)

/-- derivable replica states with their knowledge -/
inductive Reach (U : List ω) : σ → List ω → Prop
  | init : Reach U R.init []
  | apply {s K op} : Reach U s K → op ∈ U → R.Ok U K op → Reach U (R.apply s op) (op :: K)
  | merge {s K s' K'} : Reach U s K → Reach U s' K' → Reach U (R.merge s s') (K ++ K')

variable {R} {U : List ω}

/-- **representation theorem, generic part**: every derivable state represents its knowledge -/
theorem reach_rep (wf : R.WF U) {s : σ} {K : List ω} (h : R.Reach U s K) : R.Inv U K ∧ R.Rep U K s := by
  induction h with
  | init => exact ⟨R.inv_nil, R.rep_init⟩
  | apply _ hu hok ih => exact ⟨R.inv_cons wf ih.1 hu hok, R.rep_apply wf ih.1 ih.2 hu hok⟩
  | merge _ _ ih1 ih2 => exact ⟨R.inv_append ih1.1 ih2.1, R.rep_merge wf ih1.1 ih2.1 ih1.2 ih2.2⟩

/-- equal knowledge ⇒ equivalent state, for any two replicas or snapshots, however each one got there -/
theorem converge (wf : R.WF U) {s s' : σ} {K K' : List ω} (h : R.Reach U s K) (h' : R.Reach U s' K')
    (e : ∀ o, o ∈ K ↔ o ∈ K') : R.Equiv s s' := by
  have a := reach_rep wf h
  have b := reach_rep wf h'
  exact R.rep_functional wf b.1 (R.rep_congr e a.2) b.2

/-- merging realises the union of knowledge -/
theorem merge_is_union (wf : R.WF U) {s s' t : σ} {K K' L : List ω} (h : R.Reach U s K) (h' : R.Reach U s' K')
    (ht : R.Reach U t L) (e : ∀ o, o ∈ L ↔ (o ∈ K ∨ o ∈ K')) : R.Equiv (R.merge s s') t :=
  converge wf (Reach.merge h h') ht (by intro o; rw [List.mem_append]; exact (e o).symm)

theorem merge_comm (wf : R.WF U) {s s' : σ} {K K' : List ω} (h : R.Reach U s K) (h' : R.Reach U s' K') :
    R.Equiv (R.merge s s') (R.merge s' s) :=
  converge wf (Reach.merge h h') (Reach.merge h' h) (by intro o; simp only [List.mem_append]; exact Or.comm)

theorem merge_assoc (wf : R.WF U) {a b c : σ} {Ka Kb Kc : List ω} (ha : R.Reach U a Ka) (hb : R.Reach U b Kb)
    (hc : R.Reach U c Kc) : R.Equiv (R.merge (R.merge a b) c) (R.merge a (R.merge b c)) :=
  converge wf (Reach.merge (Reach.merge ha hb) hc) (Reach.merge ha (Reach.merge hb hc))
    (by intro o; simp only [List.mem_append]; exact or_assoc)

theorem merge_idem (wf : R.WF U) {s : σ} {K : List ω} (h : R.Reach U s K) : R.Equiv (R.merge s s) s :=
  converge wf (Reach.merge h h) h (by intro o; simp only [List.mem_append, or_self])

/-- re-applying a known op changes nothing -/
theorem dup_noop (wf : R.WF U) {s : σ} {K : List ω} (h : R.Reach U s K) {op : ω} (hu : op ∈ U) (hk : op ∈ K) :
    R.Equiv (R.apply s op) s := by
  have a := reach_rep wf h
  exact converge wf (Reach.apply h hu (R.ok_of_mem wf a.1 hk)) h
    (by intro o; simp only [List.mem_cons]; constructor
        · rintro (e | e)
          · subst e; exact hk
          · exact e
        · exact Or.inr)

/-- merging a state whose knowledge is already known (old snapshot, own past, lagging peer) changes nothing -/
theorem stale_noop (wf : R.WF U) {s s' : σ} {K K' : List ω} (h : R.Reach U s K) (h' : R.Reach U s' K')
    (sub : ∀ o, o ∈ K' → o ∈ K) : R.Equiv (R.merge s s') s :=
  converge wf (Reach.merge h h') h (by intro o; simp only [List.mem_append]; exact ⟨fun e => e.elim id (sub o), Or.inl⟩)

/-- applying the same ops in two different orders (or merging in between) ends in equivalent states -/
theorem apply_comm (wf : R.WF U) {s : σ} {K : List ω} (h : R.Reach U s K) {o₁ o₂ : ω} (h₁ : o₁ ∈ U) (h₂ : o₂ ∈ U)
    (ok₁ : R.Ok U K o₁) (ok₂ : R.Ok U K o₂) (ok₁₂ : R.Ok U (o₁ :: K) o₂) (ok₂₁ : R.Ok U (o₂ :: K) o₁) :
    R.Equiv (R.apply (R.apply s o₁) o₂) (R.apply (R.apply s o₂) o₁) :=
  converge wf (Reach.apply (Reach.apply h h₁ ok₁) h₂ ok₁₂) (Reach.apply (Reach.apply h h₂ ok₂) h₁ ok₂₁)
    (by intro o; simp only [List.mem_cons]; constructor <;> rintro (e | e | e) <;> simp [e])

end RepSysE
end Crdt
