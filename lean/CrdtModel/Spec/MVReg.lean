import CrdtModel.Proofs.MVReg
import CrdtModel.Spec.RepSysEquiv
import CrdtModel.Spec.MVRegSpec
/-! Representation system for `MVReg`: a replica that has learned the puts `K` (in ANY order, with duplicates,
through ops or merges) holds exactly the causally-maximal puts of `K`, each once.
Delivery discipline: none (`Ok := True`).  State equality: up to permutation of the `Vec` (`RepSysE`). -/
set_option linter.unusedSectionVars false
namespace Crdt
open LinOrd

/-- a strict partial order on a finite list has a maximal element above every element -/
theorem exists_max_above {β : Type} (r : β → β → Prop) (irr : ∀ x, ¬ r x x) (tr : ∀ {x y z}, r x y → r y z → r x z) :
    ∀ (K : List β) (x : β), x ∈ K → ∃ m ∈ K, (m = x ∨ r x m) ∧ ∀ z ∈ K, ¬ r m z := by
  intro K
  induction K with
  | nil => intro x hx; cases hx
  | cons y K' ih =>
    -- elements of the tail first
    have tail : ∀ x ∈ K', ∃ m ∈ y :: K', (m = x ∨ r x m) ∧ ∀ z ∈ y :: K', ¬ r m z := by
      intro x hx
      obtain ⟨m, hm, hxm, hmax⟩ := ih x hx
      have hxm' : ∀ {w}, r m w → r x w := fun hw => hxm.elim (fun e => e ▸ hw) (fun h => tr h hw)
      by_cases hmy : r m y
      · by_cases hy : ∃ z ∈ K', r y z
        · obtain ⟨z, hz, hyz⟩ := hy
          obtain ⟨m', hm', hzm', hmax'⟩ := ih z hz
          have hym' : r y m' := hzm'.elim (fun e => e ▸ hyz) (fun h => tr hyz h)
          refine ⟨m', List.mem_cons_of_mem _ hm', Or.inr (hxm' (tr hmy hym')), ?_⟩
          intro w hw
          rcases List.mem_cons.mp hw with e | hw
          · subst e; exact fun h => irr _ (tr h hym')
          · exact hmax' w hw
        · refine ⟨y, by simp, Or.inr (hxm' hmy), ?_⟩
          intro w hw
          rcases List.mem_cons.mp hw with e | hw
          · subst e; exact irr _
          · exact fun h => hy ⟨w, hw, h⟩
      · refine ⟨m, List.mem_cons_of_mem _ hm, hxm, ?_⟩
        intro w hw
        rcases List.mem_cons.mp hw with e | hw
        · subst e; exact hmy
        · exact hmax w hw
    intro x hx
    rcases List.mem_cons.mp hx with e | hx
    · subst e
      by_cases hy : ∃ z ∈ K', r x z
      · obtain ⟨z, hz, hyz⟩ := hy
        obtain ⟨m, hm, hzm, hmax⟩ := tail z hz
        exact ⟨m, hm, Or.inr (hzm.elim (fun e => e ▸ hyz) (fun h => tr hyz h)), hmax⟩
      · refine ⟨x, by simp, Or.inl rfl, ?_⟩
        intro w hw
        rcases List.mem_cons.mp hw with e | hw
        · subst e; exact irr _
        · exact fun h => hy ⟨w, hw, h⟩
    · exact tail x hx

section mvreg
variable {ν α : Type} [LinOrd α]

/-- well-formedness of a log of puts: no clock stores a zero counter, and distinct puts carry distinct clocks
(what writing through `read_ctx().derive_add_ctx(actor)` guarantees when every actor writes at one replica –
`C06.genLog_wf`). Empty clocks are allowed (such a put is a no-op). -/
def MVWF (U : List (MVOp ν α)) : Prop :=
  (∀ o ∈ U, o.clock.NoZero) ∧ (∀ o ∈ U, ∀ o' ∈ U, o.clock = o'.clock → o.val = o'.val)

/-- some known put has a strictly greater clock -/
def Dominated (K : List (MVOp ν α)) (c : VClock α) : Prop := ∃ o ∈ K, c.slt o.clock

/-- `put c v` is a causally-maximal known put (with a non-empty clock) -/
def Maximal (K : List (MVOp ν α)) (c : VClock α) (v : ν) : Prop :=
  (⟨c, v⟩ : MVOp ν α) ∈ K ∧ c.isEmpty = false ∧ ¬ Dominated K c

/-- the register holds exactly the maximal known puts, each once -/
def MVRep (K : List (MVOp ν α)) (s : MVReg ν α) : Prop :=
  s.vals.Nodup ∧ ∀ c v, (c, v) ∈ s.vals ↔ Maximal K c v

theorem Dominated.congr {K K' : List (MVOp ν α)} (e : ∀ o, o ∈ K ↔ o ∈ K') {c : VClock α} :
    Dominated K c ↔ Dominated K' c :=
  ⟨fun ⟨o, h, l⟩ => ⟨o, (e o).mp h, l⟩, fun ⟨o, h, l⟩ => ⟨o, (e o).mpr h, l⟩⟩

theorem Maximal.congr {K K' : List (MVOp ν α)} (e : ∀ o, o ∈ K ↔ o ∈ K') {c : VClock α} {v : ν} :
    Maximal K c v ↔ Maximal K' c v := by
  unfold Maximal; rw [e, Dominated.congr e]

/-- every known put with a non-empty clock is below (or is) a maximal one -/
theorem exists_maximal_above (K : List (MVOp ν α)) {o : MVOp ν α} (ho : o ∈ K) (hne : o.clock.isEmpty = false) :
    ∃ m ∈ K, (m = o ∨ o.clock.slt m.clock) ∧ Maximal K m.clock m.val := by
  obtain ⟨m, hm, hom, hmax⟩ := exists_max_above (fun a b : MVOp ν α => a.clock.slt b.clock)
    (fun x => VClock.slt_irrefl _) (fun h1 h2 => VClock.slt_trans h1 h2) K o ho
  refine ⟨m, hm, hom, hm, ?_, fun ⟨z, hz, hl⟩ => hmax z hz hl⟩
  cases he : m.clock.isEmpty with
  | false => rfl
  | true =>
    exfalso
    rcases hom with e | l
    · subst e; rw [he] at hne; cases hne
    · exact l.2 (VClock.le_of_isEmpty he _)

/-- a clock is dominated by a known put iff it is dominated by a maximal one -/
theorem dominated_iff_vals {K : List (MVOp ν α)} {s : MVReg ν α} (h : MVRep K s) (c : VClock α) :
    Dominated K c ↔ ∃ q ∈ s.vals, c.slt q.1 := by
  constructor
  · rintro ⟨o, ho, l⟩
    have hne : o.clock.isEmpty = false := by
      cases he : o.clock.isEmpty with
      | false => rfl
      | true => exact absurd (VClock.le_of_isEmpty he _) l.2
    obtain ⟨m, _, hom, hmax⟩ := exists_maximal_above K ho hne
    refine ⟨(m.clock, m.val), (h.2 _ _).mpr hmax, ?_⟩
    rcases hom with e | l'
    · subst e; exact l
    · exact VClock.slt_trans l l'
  · rintro ⟨q, hq, l⟩
    exact ⟨⟨q.1, q.2⟩, ((h.2 q.1 q.2).mp hq).1, l⟩

theorem maximal_cons (op : MVOp ν α) (K : List (MVOp ν α)) (c : VClock α) (v : ν) :
    Maximal (op :: K) c v ↔
      (Maximal K c v ∧ ¬ c.slt op.clock) ∨ ((⟨c, v⟩ : MVOp ν α) = op ∧ c.isEmpty = false ∧ ¬ Dominated K c) := by
  unfold Maximal Dominated
  constructor
  · rintro ⟨hm, hne, hd⟩
    have h1 : ¬ c.slt op.clock := fun l => hd ⟨op, by simp, l⟩
    have h2 : ¬ ∃ o ∈ K, c.slt o.clock := fun ⟨o, ho, l⟩ => hd ⟨o, List.mem_cons_of_mem _ ho, l⟩
    rcases List.mem_cons.mp hm with e | hm
    · exact Or.inr ⟨e, hne, h2⟩
    · exact Or.inl ⟨⟨hm, hne, h2⟩, h1⟩
  · rintro (⟨⟨hm, hne, hd⟩, h1⟩ | ⟨e, hne, hd⟩)
    · refine ⟨List.mem_cons_of_mem _ hm, hne, ?_⟩
      rintro ⟨o, ho, l⟩
      rcases List.mem_cons.mp ho with e | ho
      · subst e; exact h1 l
      · exact hd ⟨o, ho, l⟩
    · refine ⟨by rw [e]; simp, hne, ?_⟩
      rintro ⟨o, ho, l⟩
      rcases List.mem_cons.mp ho with e' | ho
      · subst e'; subst e; exact VClock.slt_irrefl _ l
      · exact hd ⟨o, ho, l⟩

theorem maximal_append (K K' : List (MVOp ν α)) (c : VClock α) (v : ν) :
    Maximal (K ++ K') c v ↔ (Maximal K c v ∧ ¬ Dominated K' c) ∨ (Maximal K' c v ∧ ¬ Dominated K c) := by
  unfold Maximal Dominated
  constructor
  · rintro ⟨hm, hne, hd⟩
    have h1 : ¬ ∃ o ∈ K, c.slt o.clock := fun ⟨o, ho, l⟩ => hd ⟨o, List.mem_append.mpr (Or.inl ho), l⟩
    have h2 : ¬ ∃ o ∈ K', c.slt o.clock := fun ⟨o, ho, l⟩ => hd ⟨o, List.mem_append.mpr (Or.inr ho), l⟩
    rcases List.mem_append.mp hm with hm | hm
    · exact Or.inl ⟨⟨hm, hne, h1⟩, h2⟩
    · exact Or.inr ⟨⟨hm, hne, h2⟩, h1⟩
  · rintro (⟨⟨hm, hne, h1⟩, h2⟩ | ⟨⟨hm, hne, h2⟩, h1⟩)
    · refine ⟨List.mem_append.mpr (Or.inl hm), hne, ?_⟩
      rintro ⟨o, ho, l⟩
      rcases List.mem_append.mp ho with ho | ho
      · exact h1 ⟨o, ho, l⟩
      · exact h2 ⟨o, ho, l⟩
    · refine ⟨List.mem_append.mpr (Or.inr hm), hne, ?_⟩
      rintro ⟨o, ho, l⟩
      rcases List.mem_append.mp ho with ho | ho
      · exact h1 ⟨o, ho, l⟩
      · exact h2 ⟨o, ho, l⟩

theorem MVRep.init : MVRep ([] : List (MVOp ν α)) MVReg.init :=
  ⟨List.nodup_nil, fun c v => by simp [MVReg.init, Maximal]⟩

theorem MVRep.congr {K K' : List (MVOp ν α)} {s : MVReg ν α} (e : ∀ o, o ∈ K ↔ o ∈ K') (h : MVRep K s) : MVRep K' s :=
  ⟨h.1, fun c v => by rw [h.2, Maximal.congr e]⟩

theorem MVRep.perm {K : List (MVOp ν α)} {s s' : MVReg ν α} (h : MVRep K s) (p : s.vals.Perm s'.vals) : MVRep K s' :=
  ⟨p.nodup_iff.mp h.1, fun c v => by rw [← p.mem_iff, h.2]⟩

/-- same knowledge ⇒ same entries up to the order of the `Vec` -/
theorem MVRep.functional {K : List (MVOp ν α)} {s s' : MVReg ν α} (h : MVRep K s) (h' : MVRep K s') :
    s.vals.Perm s'.vals := by
  rw [List.perm_ext_iff_of_nodup h.1 h'.1]
  rintro ⟨c, v⟩; rw [h.2, h'.2]

/-- **apply** (src/mvreg.rs:143-176) re-establishes the representation, whatever the op's position in causal order -/
theorem MVRep.apply {U K : List (MVOp ν α)} {s : MVReg ν α} {op : MVOp ν α} (wf : MVWF U)
    (sub : ∀ o ∈ K, o ∈ U) (h : MVRep K s) (hu : op ∈ U) : MVRep (op :: K) (s.apply op) := by
  refine ⟨MVReg.nodup_apply s op h.1, fun c v => ?_⟩
  rw [maximal_cons]
  cases hne : op.clock.isEmpty with
  | true =>
    -- `if clock.is_empty() { return; }`: an empty clock neither shows nor dominates anything
    rw [MVReg.apply_of_isEmpty _ _ hne, h.2]
    constructor
    · intro hm; exact Or.inl ⟨hm, fun l => l.2 (VClock.le_of_isEmpty hne _)⟩
    · rintro (⟨hm, _⟩ | ⟨e, hne', _⟩)
      · exact hm
      · subst e; simp only at hne; rw [hne] at hne'; cases hne'
  | false =>
    have nzOp : op.clock.NoZero := wf.1 op hu
    have nzOf : ∀ q ∈ s.vals, q.1.NoZero := fun q hq =>
      wf.1 ⟨q.1, q.2⟩ (sub _ ((h.2 q.1 q.2).mp hq).1)
    rw [MVReg.mem_apply s op hne]
    simp only [MVReg.retained_iff]
    constructor
    · rintro (⟨hm, hc, hl⟩ | ⟨e, hall⟩)
      · exact Or.inl ⟨(h.2 c v).mp hm, hl⟩
      · have e1 : c = op.clock := (Prod.mk.inj e).1
        have e2 : v = op.val := (Prod.mk.inj e).2
        subst e1; subst e2
        refine Or.inr ⟨rfl, hne, ?_⟩
        intro hd
        obtain ⟨q, hq, l⟩ := (dominated_iff_vals h _).mp hd
        have := hall q hq ⟨fun e => VClock.ne_of_slt l e.symm, VClock.slt_asymm l⟩
        rw [(VClock.gt_iff_slt (nzOf q hq) nzOp).mpr l] at this
        cases this
    · have notGt : ¬ Dominated K op.clock → ∀ q ∈ s.vals, (q.1 ≠ op.clock ∧ ¬ q.1.slt op.clock) → q.1.gt op.clock = false := by
        intro hd q hq _
        cases hg : q.1.gt op.clock with
        | false => rfl
        | true =>
          exact absurd ⟨⟨q.1, q.2⟩, ((h.2 q.1 q.2).mp hq).1, (VClock.gt_iff_slt (nzOf q hq) nzOp).mp hg⟩ hd
      rintro (⟨hm, hl⟩ | ⟨e, _, hd⟩)
      · by_cases hc : c = op.clock
        · -- a put with the op's clock is already known: by well-formedness it IS the op; the entry is dropped and pushed again
          have hv : v = op.val := wf.2 ⟨c, v⟩ (sub _ hm.1) op hu hc
          subst hc; subst hv
          exact Or.inr ⟨rfl, notGt hm.2.2⟩
        · exact Or.inl ⟨(h.2 c v).mpr hm, hc, hl⟩
      · subst e
        exact Or.inr ⟨rfl, notGt hd⟩

/-- **merge** (src/mvreg.rs:118-132) yields the representation of the union of the two knowledge lists -/
theorem MVRep.merge {U K K' : List (MVOp ν α)} {s s' : MVReg ν α} (wf : MVWF U)
    (sub : ∀ o ∈ K, o ∈ U) (sub' : ∀ o ∈ K', o ∈ U) (h : MVRep K s) (h' : MVRep K' s') :
    MVRep (K ++ K') (s.merge s') := by
  refine ⟨MVReg.nodup_merge s s' h.1 h'.1, fun c v => ?_⟩
  have keep : ∀ p : VClock α × ν, p ∈ MVReg.mergeKeep s.vals s'.vals ↔ Maximal K p.1 p.2 ∧ ¬ Dominated K' p.1 := by
    intro p
    rw [MVReg.mem_mergeKeep, h.2, dominated_iff_vals h']
    constructor
    · rintro ⟨a, b⟩; exact ⟨a, fun ⟨q, hq, l⟩ => b q hq l⟩
    · rintro ⟨a, b⟩; exact ⟨a, fun q hq l => b ⟨q, hq, l⟩⟩
  rw [maximal_append, MVReg.mem_merge]
  constructor
  · rintro (hk | ⟨ho, h1, _⟩)
    · exact Or.inl ((keep _).mp hk)
    · have hm' := (h'.2 c v).mp ho
      refine Or.inr ⟨hm', fun hd => ?_⟩
      obtain ⟨m, hm, l⟩ := (dominated_iff_vals h _).mp hd
      have hmk : m ∈ MVReg.mergeKeep s.vals s'.vals := by
        rw [keep]
        refine ⟨(h.2 _ _).mp hm, fun ⟨o, ho', l'⟩ => hm'.2.2 ⟨o, ho', VClock.slt_trans l l'⟩⟩
      exact h1 m hmk l
  · rintro (hk | ⟨hm', hd⟩)
    · exact Or.inl ((keep (c, v)).mpr hk)
    · by_cases hin : (c, v) ∈ MVReg.mergeKeep s.vals s'.vals
      · exact Or.inl hin
      · refine Or.inr ⟨(h'.2 c v).mpr hm', fun q hq l => ?_, fun q hq e => ?_⟩
        · exact hd ⟨⟨q.1, q.2⟩, ((keep q).mp hq).1.1, l⟩
        · have hqK := ((keep q).mp hq).1.1
          have hv : v = q.2 := wf.2 ⟨c, v⟩ (sub' _ hm'.1) ⟨q.1, q.2⟩ (sub _ hqK) e
          simp only at e
          subst e; subst hv
          exact hin hq

/-- the representation system: ops = puts, no delivery discipline, equality up to permutation -/
def mvregSys : RepSysE (MVReg ν α) (MVOp ν α) where
  init := MVReg.init
  apply := MVReg.apply
  merge := MVReg.merge
  Equiv := fun s t => s.vals.Perm t.vals
  WF := MVWF
  Ok := fun _ _ _ => True
  Inv := fun U K => ∀ o ∈ K, o ∈ U
  Rep := fun _ K s => MVRep K s
  equiv_refl := fun _ => List.Perm.refl _
  equiv_symm := fun h => h.symm
  equiv_trans := fun h1 h2 => h1.trans h2
  inv_nil := fun _ h => by cases h
  inv_cons := fun _ hk hu _ o ho => by
    rcases List.mem_cons.mp ho with e | ho
    · subst e; exact hu
    · exact hk o ho
  inv_append := fun h1 h2 o ho => (List.mem_append.mp ho).elim (h1 o) (h2 o)
  inv_congr := fun e h o ho => h o ((e o).mpr ho)
  ok_of_mem := fun _ _ _ => trivial
  rep_init := MVRep.init
  rep_apply := fun wf inv h hu _ => MVRep.apply wf inv h hu
  rep_merge := fun wf inv inv' h h' => MVRep.merge wf inv inv' h h'
  rep_congr := fun e h => h.congr e
  rep_equiv := fun h p => h.perm p
  rep_functional := fun _ _ h h' => h.functional h'

end mvreg
end Crdt
