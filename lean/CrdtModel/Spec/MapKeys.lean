import CrdtModel.Proofs.MapSim
import CrdtModel.Spec.OrswotSys
set_option linter.unusedSectionVars false
/-! Execution model for `Map` and the key-level representation theorem: in every derivable Map state – for EVERY value
type and nesting depth – the triple (clock, entry clocks, deferred) is the Orswot-of-keys state determined by the
key-level reading of the knowledge set. -/
namespace Crdt
open LinOrd
namespace CMap
variable {K V VOp A : Type} [LinOrd K] [LinOrd A]

/-- key-level log / knowledge -/
def keyLog (U : List (MapOp K VOp A)) : List (OrswotOp K A) := U.map keyOp

/-- derivable Map states (same shape as `RepSys.Reach`): discipline = each actor's UPDATES in issue order; key removes
unordered; duplicates; merges of live or stale states -/
inductive Reach (ops : ValOps V VOp A) (U : List (MapOp K VOp A)) : CMap K V A → List (MapOp K VOp A) → Prop
  | init : Reach ops U CMap.init []
  | apply {s L op} : Reach ops U s L → op ∈ U → OrswotSpec.Ok (keyLog U) (keyLog L) (keyOp op) →
      Reach ops U (CMap.apply ops s op) (op :: L)
  | merge {s L s' L'} : Reach ops U s L → Reach ops U s' L' → Reach ops U (CMap.merge ops s s') (L ++ L')

theorem deferred_nz {U : List (MapOp K VOp A)} {L : List (OrswotOp K A)} {s : CMap K V A}
    (wf : OrswotSpec.LogWF (keyLog U)) (inv : OrswotSpec.Inv (keyLog U) L) (r : OrswotSpec.Rep L s.keysView) :
    ∀ p ∈ s.deferred.l, p.1.NoZero := by
  intro p hp
  have hg : s.keysView.deferred.get? p.1 = some p.2 := AL.get?_of_mem s.deferred.sorted hp
  obtain ⟨⟨ms, hin⟩, _⟩ := (r.def_some p.1).mp (by rw [hg]; rfl)
  exact wf.rm_nz p.1 ms (inv.sub _ hin)

/-- **key-level representation theorem** -/
theorem keys_rep {ops : ValOps V VOp A} {U L : List (MapOp K VOp A)} {s : CMap K V A}
    (wf : OrswotSpec.LogWF (keyLog U)) (h : Reach ops U s L) :
    OrswotSpec.Inv (keyLog U) (keyLog L) ∧ OrswotSpec.Rep (keyLog L) s.keysView := by
  induction h with
  | init =>
    exact ⟨OrswotSpec.Inv.mk (fun _ h => by cases h) (fun _ _ h => by cases h), OrswotSpec.rep_init⟩
  | @apply s L op _ hu hok ih =>
    have hu' : keyOp op ∈ keyLog U := List.mem_map_of_mem hu
    have hsim := apply_sim ops s op ih.2.clock_nz (deferred_nz wf ih.1 ih.2)
      (fun c ks e => by subst e; exact wf.rm_nz c ks hu')
    refine ⟨OrswotSpec.inv_cons wf ih.1 hu' hok, ?_⟩
    rw [hsim]
    exact OrswotSpec.rep_apply wf ih.1 ih.2 hu' hok
  | @merge s L s' L' _ _ ih1 ih2 =>
    have hsim := merge_sim ops s s' ih1.2.clock_nz (deferred_nz wf ih1.1 ih1.2) (deferred_nz wf ih2.1 ih2.2)
    have e : keyLog (L ++ L') = keyLog L ++ keyLog L' := List.map_append
    rw [e, hsim]
    exact ⟨OrswotSpec.inv_append ih1.1 ih2.1, OrswotSpec.rep_merge wf ih1.1 ih2.1 ih1.2 ih2.2⟩

/-- key-level convergence: same delivered set ⇒ same key-level state (clock, entry clocks, deferred) -/
theorem keys_converge {ops : ValOps V VOp A} {U L L' : List (MapOp K VOp A)} {s s' : CMap K V A}
    (wf : OrswotSpec.LogWF (keyLog U)) (h : Reach ops U s L) (h' : Reach ops U s' L')
    (e : ∀ o, o ∈ keyLog L ↔ o ∈ keyLog L') : s.keysView = s'.keysView :=
  OrswotSpec.rep_functional (OrswotSpec.rep_congr e (keys_rep wf h).2) (keys_rep wf h').2

end CMap
end Crdt
