import CrdtModel.Spec.MerkleReg
import CrdtModel.Spec.SysOrswot
set_option linter.unusedSectionVars false
/-!
# A system-level execution model for `MerkleReg`: nodes are only ever CREATED BY `write` ON THE HEADS JUST READ

All `MerkleReg` theorems (C15) have the shape `InjOn hash U → merkleSys.Reach U s K → …` where `U` is "the nodes that exist
in the history", given in advance, and several of them assume facts about which nodes exist (`write_resolves`: the node is
new and nobody lists it; orphans: the missing ancestors exist somewhere).  This file defines a linear-time model of a whole
system in which there is no such universe given in advance: a configuration holds one replica per site, and the only way a
node comes into existence is the step

    `let node = reg.write(v, reg.read().hashes()); reg.apply(node)`

evaluated at the CURRENT state of the issuing replica and applied there at once.  Everything else moves existing nodes
(`deliver`: any node of the log, in ANY order, any number of times – `MerkleReg` has no delivery discipline) or states
(`merge`, `snapshot`, `mergeSnap`) around.

`Proofs/SysMerkle.lean` proves that in every configuration such a system can reach all replica states and saved states are
`merkleSys.Reach`-derivable over the log, that every node of the log was created after all its children (`ChildrenFirst`:
closure of the log under children + acyclicity), and `Props/SysMerkle.lean` feeds this into C15.  The single assumption
that remains is that `hash` does not collide on the nodes of the log (`MerkleSpec.InjOn hash c.log`; sha3 is abstract).
-/
namespace Crdt.SysMerkle
open Crdt LinOrd Crdt.Sys

variable {H : Type} [LinOrd H] {τ A : Type} [LinOrd A]

/-- a configuration of the whole system -/
structure Cfg (H : Type) [LinOrd H] (τ A : Type) [LinOrd A] where
  /-- current state of site `i`'s replica -/
  rep : A → MerkleReg H τ
  /-- nodes delivered to / created at it (newest first; duplicates are kept) -/
  know : A → List (Node H τ)
  /-- every node created so far (newest first; a node created twice – same value on the same heads – is listed twice) -/
  log : List (Node H τ)
  /-- saved states (backups, old snapshots, states in flight to a peer) with their knowledge -/
  snaps : List (MerkleReg H τ × List (Node H τ))

namespace Cfg
variable (hash : Node H τ → H)

/-- all replicas new, nothing created -/
def init : Cfg H τ A := ⟨fun _ => MerkleReg.init, fun _ => [], [], []⟩

/-- the node `write(v, read().hashes())` builds at replica `i` (src/merkle_reg.rs:116-118 on src/merkle_reg.rs:104-113) -/
def written (c : Cfg H τ A) (i : A) (v : τ) : Node H τ := (c.rep i).write v (MerkleReg.hashes (c.rep i).read)

/-- `nd` has just been built at replica `i`: it is applied there at once, remembered, and enters the log -/
def gen (c : Cfg H τ A) (i : A) (nd : Node H τ) : Cfg H τ A :=
  { c with rep := upd c.rep i (MerkleReg.apply hash (c.rep i) nd), know := upd c.know i (nd :: c.know i), log := nd :: c.log }

/-- a node of the log arrives at replica `i` -/
def deliver (c : Cfg H τ A) (i : A) (nd : Node H τ) : Cfg H τ A :=
  { c with rep := upd c.rep i (MerkleReg.apply hash (c.rep i) nd), know := upd c.know i (nd :: c.know i) }

/-- a state `s` with knowledge `K` is merged into replica `i` -/
def mergeIn (c : Cfg H τ A) (i : A) (s : MerkleReg H τ) (K : List (Node H τ)) : Cfg H τ A :=
  { c with rep := upd c.rep i (MerkleReg.merge hash (c.rep i) s), know := upd c.know i (c.know i ++ K) }

/-- replica `i` saves its state -/
def snapshot (c : Cfg H τ A) (i : A) : Cfg H τ A := { c with snaps := (c.rep i, c.know i) :: c.snaps }

/-- the states the configuration holds, with their knowledge: the replicas and the saved states -/
inductive View (c : Cfg H τ A) : MerkleReg H τ → List (Node H τ) → Prop
  | rep (i : A) : View c (c.rep i) (c.know i)
  | snap {p : MerkleReg H τ × List (Node H τ)} : p ∈ c.snaps → View c p.1 p.2

@[simp] theorem gen_log (c : Cfg H τ A) (i : A) (nd : Node H τ) : (c.gen hash i nd).log = nd :: c.log := rfl
@[simp] theorem deliver_log (c : Cfg H τ A) (i : A) (nd : Node H τ) : (c.deliver hash i nd).log = c.log := rfl
@[simp] theorem mergeIn_log (c : Cfg H τ A) (i : A) (s : MerkleReg H τ) (K : List (Node H τ)) :
    (c.mergeIn hash i s K).log = c.log := rfl
@[simp] theorem snapshot_log (c : Cfg H τ A) (i : A) : (c.snapshot i).log = c.log := rfl
@[simp] theorem gen_rep_same (c : Cfg H τ A) (i : A) (nd : Node H τ) :
    (c.gen hash i nd).rep i = MerkleReg.apply hash (c.rep i) nd := by simp [gen]
@[simp] theorem gen_know_same (c : Cfg H τ A) (i : A) (nd : Node H τ) : (c.gen hash i nd).know i = nd :: c.know i := by
  simp [gen]
@[simp] theorem deliver_rep_same (c : Cfg H τ A) (i : A) (nd : Node H τ) :
    (c.deliver hash i nd).rep i = MerkleReg.apply hash (c.rep i) nd := by simp [deliver]
@[simp] theorem deliver_know_same (c : Cfg H τ A) (i : A) (nd : Node H τ) :
    (c.deliver hash i nd).know i = nd :: c.know i := by simp [deliver]

end Cfg

/-- one step of the system.  Nodes are created by `write` only – the API call evaluated at the issuing replica's CURRENT
state, on ALL the heads it reads; everything else moves existing nodes / states around. -/
inductive Step (hash : Node H τ → H) : Cfg H τ A → Cfg H τ A → Prop
  /-- `let nd = s.write(v, s.read().hashes()); s.apply(nd)` -/
  | write (c : Cfg H τ A) (i : A) (v : τ) : Step hash c (c.gen hash i (c.written i v))
  /-- a node of the log is delivered to `i`: any node, any time, again if it pleases (no delivery discipline) -/
  | deliver (c : Cfg H τ A) (i : A) (nd : Node H τ) : nd ∈ c.log → Step hash c (c.deliver hash i nd)
  /-- state-based sync: `i` merges `j`'s current state -/
  | merge (c : Cfg H τ A) (i j : A) : Step hash c (c.mergeIn hash i (c.rep j) (c.know j))
  /-- `i` saves its state (backup / state message in flight) -/
  | snapshot (c : Cfg H τ A) (i : A) : Step hash c (c.snapshot i)
  /-- `i` merges the `n`-th saved state (restores a backup, receives an old state message) -/
  | mergeSnap (c : Cfg H τ A) (i : A) (n : Nat) (p : MerkleReg H τ × List (Node H τ)) :
      c.snaps[n]? = some p → Step hash c (c.mergeIn hash i p.1 p.2)

/-- the configurations the system can reach -/
inductive Run (hash : Node H τ → H) : Cfg H τ A → Prop
  | init : Run hash Cfg.init
  | step {c c' : Cfg H τ A} : Run hash c → Step hash c c' → Run hash c'

/-- finitely many steps -/
inductive Steps (hash : Node H τ → H) : Cfg H τ A → Cfg H τ A → Prop
  | refl (c : Cfg H τ A) : Steps hash c c
  | step {c c' c'' : Cfg H τ A} : Steps hash c c' → Step hash c' c'' → Steps hash c c''

/-! ## the shape of the log -/

/-- **every node was created after all its children**: each child hash of a node of the log is the hash of a node that is
STRICTLY OLDER in the log (the log is newest first).  Closure of the log under children and acyclicity of the child
relation are its two consequences. -/
inductive ChildrenFirst (hash : Node H τ → H) : List (Node H τ) → Prop
  | nil : ChildrenFirst hash []
  | cons {n : Node H τ} {l : List (Node H τ)} : ChildrenFirst hash l →
      (∀ x, n.children.contains x = true → ∃ m, m ∈ l ∧ hash m = x) → ChildrenFirst hash (n :: l)

/-- `m` is a child of `n`, both in the log -/
def Child (hash : Node H τ → H) (log : List (Node H τ)) (m n : Node H τ) : Prop :=
  m ∈ log ∧ n ∈ log ∧ n.children.contains (hash m) = true

/-- `Anc log m n`: `m` is `n` or one of its ancestors (child, child of a child, …) in the log -/
inductive Anc (hash : Node H τ → H) (log : List (Node H τ)) : Node H τ → Node H τ → Prop
  | refl (n : Node H τ) : Anc hash log n n
  | step {m k n : Node H τ} : Child hash log m k → Anc hash log k n → Anc hash log m n

end Crdt.SysMerkle
