import CrdtModel.Spec.SysOrswot
import CrdtModel.Spec.SysMap
import CrdtModel.Spec.SysList
import CrdtModel.Model.Codec
set_option linter.unusedSectionVars false
/-!
# Persistence steps (crash / restart / ship-to-peer) INSIDE the system-level models (C19 at system level)

The system models `Sys` (Orswot), `SysMap` (Map over any value type) and `SysList` (List) are extended – without touching them –
by steps in which a value goes through the serde model (`Model/Codec.lean`) and the DESERIALISED value is what the system
continues with:

* `restart i` : replica `i`'s state is serialised and replaced by what deserialisation returns (crash + restart from disk,
  migration of the replica to another machine);
* `ship i k`  : replica `k`'s serialised state is deserialised at peer `i` and merged there (state-based sync over the wire);
* `save i`    : replica `i` writes a backup (the saved state is the deserialised value);
* `shipSnap`  : a saved state is serialised, deserialised at `i` and merged there (restore a JSON backup, old state message);
* `shipOp`    : an op of the log is serialised, deserialised, and the deserialised op is what is delivered (op-based sync).

Every such step EXISTS ONLY WHEN SERIALISATION SUCCEEDS (`enc … = .ok j`) and deserialisation returns a value.
`CanRestart sc c i` : the `restart i` step is available in configuration `c`.

`Sys.StepC` / `Sys.RunC` : the **causal sub-system** of the Orswot system (a remove – delivered, or built from a saved context –
needs its context to be dominated by what the receiver has learned; state merges and saved states are kept).
-/
namespace Crdt

/-! ## the causal sub-system of the Orswot system -/
namespace Sys
open Crdt LinOrd OrswotSpec
variable {M A : Type} [LinOrd M] [LinOrd A]

/-- the causal premise of a delivery: the context of a remove is pointwise below the receiver's clock `clk K`
(`K` = what the receiver has learned); adds carry no context -/
def CtxLe (K : List (OrswotOp M A)) : OrswotOp M A → Prop
  | .add _ _ => True
  | .rm cl _ => ∀ a, cl.get a ≤ clk K a

/-- one step of the **causal** Orswot system: the generation steps of `Sys.Step` unchanged (their contexts are read from the
issuing replica's current state); a remove built from a SAVED context and every delivery additionally need `CtxLe`
(true of every causal delivery); state merges and saved states as before -/
inductive StepC : Cfg M A → Cfg M A → Prop
  | add (c : Cfg M A) (i : A) (m : M) : StepC c (c.gen i (Orswot.add m ((c.rep i).read.deriveAddCtx i)))
  | addCtx (c : Cfg M A) (i : A) (m : M) : StepC c (c.gen i (Orswot.add m ((c.rep i).readCtx.deriveAddCtx i)))
  | addContains (c : Cfg M A) (i : A) (m m' : M) :
      StepC c (c.gen i (Orswot.add m (((c.rep i).contains m').deriveAddCtx i)))
  | addAll (c : Cfg M A) (i : A) (ms : List M) : StepC c (c.gen i (Orswot.addAll ms ((c.rep i).read.deriveAddCtx i)))
  | rm (c : Cfg M A) (i : A) (m : M) : StepC c (c.gen i (Orswot.rm m ((c.rep i).contains m).deriveRmCtx))
  | rmRead (c : Cfg M A) (i : A) (m : M) : StepC c (c.gen i (Orswot.rm m (c.rep i).read.deriveRmCtx))
  | rmAll (c : Cfg M A) (i : A) (ms : List M) : StepC c (c.gen i (Orswot.rmAll ms (c.rep i).read.deriveRmCtx))
  | rmAllCtx (c : Cfg M A) (i : A) (ms : List M) : StepC c (c.gen i (Orswot.rmAll ms (c.rep i).readCtx.deriveRmCtx))
  | rmStale (c : Cfg M A) (i : A) (m : M) (p : Orswot M A × List (OrswotOp M A)) :
      p ∈ c.snaps → CtxLe (c.know i) (Orswot.rm m (p.1.contains m).deriveRmCtx) →
      StepC c (c.gen i (Orswot.rm m (p.1.contains m).deriveRmCtx))
  | deliver (c : Cfg M A) (i : A) (op : OrswotOp M A) :
      op ∈ c.log → OrswotSpec.Ok c.log (c.know i) op → CtxLe (c.know i) op → StepC c (c.deliver i op)
  | merge (c : Cfg M A) (i j : A) : StepC c (c.mergeIn i (c.rep j) (c.know j))
  | snapshot (c : Cfg M A) (i : A) : StepC c (c.snapshot i)
  | mergeSnap (c : Cfg M A) (i : A) (n : Nat) (p : Orswot M A × List (OrswotOp M A)) :
      c.snaps[n]? = some p → StepC c (c.mergeIn i p.1 p.2)

/-- the configurations the causal system can reach -/
inductive RunC : Cfg M A → Prop
  | init : RunC Cfg.init
  | step {c c' : Cfg M A} : RunC c → StepC c c' → RunC c'

end Sys

namespace SysPersist
open Crdt LinOrd Crdt.Sys

/-! ## Orswot -/
namespace OrswotP
variable {M A : Type} [LinOrd M] [LinOrd A]

/-- replica `i` continues with state `s'` (same knowledge, same log, same saved states) -/
def setRep (c : Cfg M A) (i : A) (s' : Orswot M A) : Cfg M A := { c with rep := upd c.rep i s' }

/-- `(s', K)` is added to the saved states -/
def addSnap (c : Cfg M A) (s' : Orswot M A) (K : List (OrswotOp M A)) : Cfg M A := { c with snaps := (s', K) :: c.snaps }

/-- the `restart i` step is available: replica `i`'s state can be serialised and the text can be read back -/
def CanRestart (sc : Codec (Orswot M A)) (c : Cfg M A) (i : A) : Prop :=
  ∃ j s', sc.enc (c.rep i) = .ok j ∧ sc.dec j = some s'

/-- one step of the Orswot system WITH persistence; `sc` = the serde impl of the state, `oc` = of the op -/
inductive StepP (sc : Codec (Orswot M A)) (oc : Codec (OrswotOp M A)) : Cfg M A → Cfg M A → Prop
  /-- every step of the system without persistence -/
  | base {c c' : Cfg M A} : Step c c' → StepP sc oc c c'
  /-- crash + restart / migration: `i` continues with `from_str(to_string(state))` -/
  | restart (c : Cfg M A) (i : A) (j : Json) (s' : Orswot M A) :
      sc.enc (c.rep i) = .ok j → sc.dec j = some s' → StepP sc oc c (setRep c i s')
  /-- state-based sync over the wire: `k`'s serialised state is deserialised at `i`; the DESERIALISED value is merged -/
  | ship (c : Cfg M A) (i k : A) (j : Json) (s' : Orswot M A) :
      sc.enc (c.rep k) = .ok j → sc.dec j = some s' → StepP sc oc c (c.mergeIn i s' (c.know k))
  /-- backup to disk: the saved state is the deserialised value -/
  | save (c : Cfg M A) (i : A) (j : Json) (s' : Orswot M A) :
      sc.enc (c.rep i) = .ok j → sc.dec j = some s' → StepP sc oc c (addSnap c s' (c.know i))
  /-- a saved state is serialised, deserialised at `i`, and the deserialised value is merged there -/
  | shipSnap (c : Cfg M A) (i : A) (n : Nat) (p : Orswot M A × List (OrswotOp M A)) (j : Json) (s' : Orswot M A) :
      c.snaps[n]? = some p → sc.enc p.1 = .ok j → sc.dec j = some s' → StepP sc oc c (c.mergeIn i s' p.2)
  /-- op-based sync over the wire: an op of the log is serialised; the DESERIALISED op is what is delivered to `i` -/
  | shipOp (c : Cfg M A) (i : A) (op : OrswotOp M A) (j : Json) (op' : OrswotOp M A) :
      op ∈ c.log → OrswotSpec.Ok c.log (c.know i) op → oc.enc op = .ok j → oc.dec j = some op' →
      StepP sc oc c (c.deliver i op')

/-- the configurations the system with persistence can reach -/
inductive RunP (sc : Codec (Orswot M A)) (oc : Codec (OrswotOp M A)) : Cfg M A → Prop
  | init : RunP sc oc Cfg.init
  | step {c c' : Cfg M A} : RunP sc oc c → StepP sc oc c c' → RunP sc oc c'

/-- the causal system with persistence (a shipped op needs the causal premise like any delivery) -/
inductive StepCP (sc : Codec (Orswot M A)) (oc : Codec (OrswotOp M A)) : Cfg M A → Cfg M A → Prop
  | base {c c' : Cfg M A} : StepC c c' → StepCP sc oc c c'
  | restart (c : Cfg M A) (i : A) (j : Json) (s' : Orswot M A) :
      sc.enc (c.rep i) = .ok j → sc.dec j = some s' → StepCP sc oc c (setRep c i s')
  | ship (c : Cfg M A) (i k : A) (j : Json) (s' : Orswot M A) :
      sc.enc (c.rep k) = .ok j → sc.dec j = some s' → StepCP sc oc c (c.mergeIn i s' (c.know k))
  | save (c : Cfg M A) (i : A) (j : Json) (s' : Orswot M A) :
      sc.enc (c.rep i) = .ok j → sc.dec j = some s' → StepCP sc oc c (addSnap c s' (c.know i))
  | shipSnap (c : Cfg M A) (i : A) (n : Nat) (p : Orswot M A × List (OrswotOp M A)) (j : Json) (s' : Orswot M A) :
      c.snaps[n]? = some p → sc.enc p.1 = .ok j → sc.dec j = some s' → StepCP sc oc c (c.mergeIn i s' p.2)
  | shipOp (c : Cfg M A) (i : A) (op : OrswotOp M A) (j : Json) (op' : OrswotOp M A) :
      op ∈ c.log → OrswotSpec.Ok c.log (c.know i) op → CtxLe (c.know i) op → oc.enc op = .ok j → oc.dec j = some op' →
      StepCP sc oc c (c.deliver i op')

inductive RunCP (sc : Codec (Orswot M A)) (oc : Codec (OrswotOp M A)) : Cfg M A → Prop
  | init : RunCP sc oc Cfg.init
  | step {c c' : Cfg M A} : RunCP sc oc c → StepCP sc oc c c' → RunCP sc oc c'

end OrswotP

/-! ## Map over any value type -/
namespace MapP
open Crdt.SysMap CMap
variable {K V VOp A : Type} [LinOrd K] [LinOrd A]

def setRep (c : Cfg K V VOp A) (i : A) (s' : CMap K V A) : Cfg K V VOp A := { c with rep := upd c.rep i s' }

def addSnap (c : Cfg K V VOp A) (s' : CMap K V A) (L : List (MapOp K VOp A)) : Cfg K V VOp A :=
  { c with snaps := (s', L) :: c.snaps }

def CanRestart (sc : Codec (CMap K V A)) (c : Cfg K V VOp A) (i : A) : Prop :=
  ∃ j s', sc.enc (c.rep i) = .ok j ∧ sc.dec j = some s'

/-- one step of the Map system WITH persistence; `sc` = the serde impl of `Map<K,V,A>` (which contains the value type's),
`oc` = of `map::Op` (which contains the nested op type's) -/
inductive StepP (ops : ValOps V VOp A) (Allowed : (V → AddCtx A → VOp) → Prop) (sc : Codec (CMap K V A))
    (oc : Codec (MapOp K VOp A)) : Cfg K V VOp A → Cfg K V VOp A → Prop
  | base {c c' : Cfg K V VOp A} : Step ops Allowed c c' → StepP ops Allowed sc oc c c'
  | restart (c : Cfg K V VOp A) (i : A) (j : Json) (s' : CMap K V A) :
      sc.enc (c.rep i) = .ok j → sc.dec j = some s' → StepP ops Allowed sc oc c (setRep c i s')
  | ship (c : Cfg K V VOp A) (i k : A) (j : Json) (s' : CMap K V A) :
      sc.enc (c.rep k) = .ok j → sc.dec j = some s' → StepP ops Allowed sc oc c (c.mergeIn ops i s' (c.know k))
  | save (c : Cfg K V VOp A) (i : A) (j : Json) (s' : CMap K V A) :
      sc.enc (c.rep i) = .ok j → sc.dec j = some s' → StepP ops Allowed sc oc c (addSnap c s' (c.know i))
  | shipSnap (c : Cfg K V VOp A) (i : A) (n : Nat) (p : CMap K V A × List (MapOp K VOp A)) (j : Json) (s' : CMap K V A) :
      c.snaps[n]? = some p → sc.enc p.1 = .ok j → sc.dec j = some s' → StepP ops Allowed sc oc c (c.mergeIn ops i s' p.2)
  | shipOp (c : Cfg K V VOp A) (i : A) (op : MapOp K VOp A) (j : Json) (op' : MapOp K VOp A) :
      op ∈ c.log → OrswotSpec.Ok (keyLog c.log) (keyLog (c.know i)) (keyOp op) → oc.enc op = .ok j → oc.dec j = some op' →
      StepP ops Allowed sc oc c (c.deliver ops i op')

inductive RunP (ops : ValOps V VOp A) (Allowed : (V → AddCtx A → VOp) → Prop) (sc : Codec (CMap K V A))
    (oc : Codec (MapOp K VOp A)) : Cfg K V VOp A → Prop
  | init : RunP ops Allowed sc oc Cfg.init
  | step {c c' : Cfg K V VOp A} : RunP ops Allowed sc oc c → StepP ops Allowed sc oc c c' → RunP ops Allowed sc oc c'

end MapP

/-! ## List (no state merge in the crate, hence no `ship`) -/
namespace ListP
open Crdt.SysList
variable {τ A : Type} [LinOrd A]

def setRep (c : Cfg τ A) (i : A) (s' : ListCrdt τ A) : Cfg τ A := { c with rep := upd c.rep i s' }

def CanRestart (sc : Codec (ListCrdt τ A)) (c : Cfg τ A) (i : A) : Prop :=
  ∃ j s', sc.enc (c.rep i) = .ok j ∧ sc.dec j = some s'

inductive StepP (sc : Codec (ListCrdt τ A)) (oc : Codec (ListOp τ A)) : Cfg τ A → Cfg τ A → Prop
  | base {c c' : Cfg τ A} : Step c c' → StepP sc oc c c'
  | restart (c : Cfg τ A) (i : A) (j : Json) (s' : ListCrdt τ A) :
      sc.enc (c.rep i) = .ok j → sc.dec j = some s' → StepP sc oc c (setRep c i s')
  | shipOp (c : Cfg τ A) (i : A) (op : ListOp τ A) (j : Json) (op' : ListOp τ A) :
      op ∈ c.log → ListSpec.Ok c.log (c.know i) op → oc.enc op = .ok j → oc.dec j = some op' →
      StepP sc oc c (c.deliver i op')

inductive RunP (sc : Codec (ListCrdt τ A)) (oc : Codec (ListOp τ A)) : Cfg τ A → Prop
  | init : RunP sc oc Cfg.init
  | step {c c' : Cfg τ A} : RunP sc oc c → StepP sc oc c c' → RunP sc oc c'

end ListP

end SysPersist
end Crdt
