import CrdtModel.Model.Lattice
import CrdtModel.Proofs.VClock
import CrdtModel.Proofs.ListMax
import CrdtModel.Spec.RepSys
/-! Representation systems for the order-free types: VClock, GCounter, PNCounter, GSet, MaxReg, MinReg, LWWReg.
Delivery discipline: none (`Ok := True`): any order, any duplication, any merge pattern. -/
namespace Crdt
open LinOrd

/-! ## VClock / GCounter -/
section clock
variable {α : Type} [LinOrd α]

def ctrOf (a : α) (d : Dot α) : Nat := if d.actor = a then d.counter else 0

/-- the clock holds, for every actor, the largest counter among the known dots – and stores no zero -/
def VClockRep (K : List (Dot α)) (s : VClock α) : Prop :=
  s.NoZero ∧ ∀ a, s.get a = listMax (ctrOf a) K

theorem VClockRep.functional {K : List (Dot α)} {s s' : VClock α} (h : VClockRep K s) (h' : VClockRep K s') : s = s' :=
  VClock.ext_get h.1 h'.1 (fun a => by rw [h.2 a, h'.2 a])

theorem VClockRep.init : VClockRep ([] : List (Dot α)) ∅ := ⟨VClock.noZero_empty, fun _ => rfl⟩

theorem VClockRep.apply {K : List (Dot α)} {s : VClock α} (h : VClockRep K s) (d : Dot α) :
    VClockRep (d :: K) (s.apply d) := by
  refine ⟨VClock.noZero_apply h.1 d, fun a => ?_⟩
  rw [VClock.get_apply, listMax_cons, h.2 a]
  unfold ctrOf
  by_cases e : a = d.actor
  · subst e; simp only [if_true]; omega
  · have e' : ¬ d.actor = a := fun x => e x.symm
    simp only [e, e', if_false]; omega

theorem VClockRep.merge {K K' : List (Dot α)} {s s' : VClock α} (h : VClockRep K s) (h' : VClockRep K' s') :
    VClockRep (K ++ K') (s.merge s') :=
  ⟨VClock.noZero_merge h.1 s', fun a => by rw [VClock.get_merge, listMax_append, h.2 a, h'.2 a]⟩

theorem VClockRep.congr {K K' : List (Dot α)} {s : VClock α} (e : ∀ o, o ∈ K ↔ o ∈ K') (h : VClockRep K s) :
    VClockRep K' s :=
  ⟨h.1, fun a => by rw [h.2 a]; exact listMax_congr _ e⟩

def vclockSys : RepSys (VClock α) (Dot α) where
  init := ∅
  apply := VClock.apply
  merge := VClock.merge
  WF := fun _ => True
  Ok := fun _ _ _ => True
  Inv := fun _ _ => True
  Rep := fun _ K s => VClockRep K s
  inv_nil := trivial
  inv_cons := fun _ _ _ _ => trivial
  inv_append := fun _ _ => trivial
  inv_congr := fun _ _ => trivial
  ok_of_mem := fun _ _ _ => trivial
  rep_init := VClockRep.init
  rep_apply := fun _ _ h _ _ => h.apply _
  rep_merge := fun _ _ _ h h' => h.merge h'
  rep_congr := fun e h => h.congr e
  rep_functional := fun _ _ h h' => h.functional h'

theorem GCounter.ext {a b : GCounter α} (h : a.inner = b.inner) : a = b := by
  cases a; cases b; simp at h; subst h; rfl

def gcounterSys : RepSys (GCounter α) (Dot α) where
  init := GCounter.init
  apply := GCounter.apply
  merge := GCounter.merge
  WF := fun _ => True
  Ok := fun _ _ _ => True
  Inv := fun _ _ => True
  Rep := fun _ K s => VClockRep K s.inner
  inv_nil := trivial
  inv_cons := fun _ _ _ _ => trivial
  inv_append := fun _ _ => trivial
  inv_congr := fun _ _ => trivial
  ok_of_mem := fun _ _ _ => trivial
  rep_init := VClockRep.init
  rep_apply := fun _ _ h _ _ => h.apply _
  rep_merge := fun _ _ _ h h' => h.merge h'
  rep_congr := fun e h => h.congr e
  rep_functional := fun _ _ h h' => GCounter.ext (h.functional h')

/-! ## PNCounter -/
def dirCtr (dir : Dir) (a : α) (op : PNOp α) : Nat := if op.dir = dir then ctrOf a op.dot else 0

def PNRep (K : List (PNOp α)) (s : PNCounter α) : Prop :=
  (s.p.inner.NoZero ∧ ∀ a, s.p.inner.get a = listMax (dirCtr .pos a) K) ∧
  (s.n.inner.NoZero ∧ ∀ a, s.n.inner.get a = listMax (dirCtr .neg a) K)

theorem PNCounter.ext {a b : PNCounter α} (h1 : a.p.inner = b.p.inner) (h2 : a.n.inner = b.n.inner) : a = b := by
  cases a with | mk ap an => cases b with | mk bp bn =>
  have := GCounter.ext h1; have := GCounter.ext h2; simp at *; constructor <;> assumption

def pncounterSys : RepSys (PNCounter α) (PNOp α) where
  init := PNCounter.init
  apply := PNCounter.apply
  merge := PNCounter.merge
  WF := fun _ => True
  Ok := fun _ _ _ => True
  Inv := fun _ _ => True
  Rep := fun _ K s => PNRep K s
  inv_nil := trivial
  inv_cons := fun _ _ _ _ => trivial
  inv_append := fun _ _ => trivial
  inv_congr := fun _ _ => trivial
  ok_of_mem := fun _ _ _ => trivial
  rep_init := ⟨⟨VClock.noZero_empty, fun _ => rfl⟩, ⟨VClock.noZero_empty, fun _ => rfl⟩⟩
  rep_apply := by
    intro U K s op _ _ h _ _
    obtain ⟨⟨hp1, hp2⟩, ⟨hn1, hn2⟩⟩ := h
    cases hd : op.dir with
    | pos =>
      simp only [PNCounter.apply, hd]
      refine ⟨⟨VClock.noZero_apply hp1 _, fun a => ?_⟩, ⟨hn1, fun a => ?_⟩⟩
      · simp only [GCounter.apply, VClock.get_apply, listMax_cons, hp2 a, dirCtr, hd, ctrOf, if_true]
        by_cases e : a = op.dot.actor
        · subst e; simp only [if_true]; omega
        · have e' : ¬ op.dot.actor = a := fun x => e x.symm
          simp only [e, e', if_false]; omega
      · simp only [listMax_cons, hn2 a, dirCtr, hd]; simp
    | neg =>
      simp only [PNCounter.apply, hd]
      refine ⟨⟨hp1, fun a => ?_⟩, ⟨VClock.noZero_apply hn1 _, fun a => ?_⟩⟩
      · simp only [listMax_cons, hp2 a, dirCtr, hd]; simp
      · simp only [GCounter.apply, VClock.get_apply, listMax_cons, hn2 a, dirCtr, hd, ctrOf, if_true]
        by_cases e : a = op.dot.actor
        · subst e; simp only [if_true]; omega
        · have e' : ¬ op.dot.actor = a := fun x => e x.symm
          simp only [e, e', if_false]; omega
  rep_merge := by
    intro U K K' s s' _ _ _ h h'
    exact ⟨⟨VClock.noZero_merge h.1.1 _, fun a => by
              simp only [PNCounter.merge, GCounter.merge, VClock.get_merge, listMax_append, h.1.2 a, h'.1.2 a]⟩,
           ⟨VClock.noZero_merge h.2.1 _, fun a => by
              simp only [PNCounter.merge, GCounter.merge, VClock.get_merge, listMax_append, h.2.2 a, h'.2.2 a]⟩⟩
  rep_congr := fun e h =>
    ⟨⟨h.1.1, fun a => by rw [h.1.2 a]; exact listMax_congr _ e⟩, ⟨h.2.1, fun a => by rw [h.2.2 a]; exact listMax_congr _ e⟩⟩
  rep_functional := fun _ _ h h' =>
    PNCounter.ext (VClock.ext_get h.1.1 h'.1.1 (fun a => by rw [h.1.2 a, h'.1.2 a]))
      (VClock.ext_get h.2.1 h'.2.1 (fun a => by rw [h.2.2 a, h'.2.2 a]))

end clock

/-! ## GSet -/
section gset
variable {τ : Type} [LinOrd τ]

theorem GSet.contains_insert (s : GSet τ) (x y : τ) : (s.insert x).contains y = true ↔ (y = x ∨ s.contains y = true) := by
  simp only [GSet.contains, GSet.insert, FMap.contains, FMap.get?_insert]
  by_cases e : y = x <;> simp [e]

theorem GSet.contains_merge (s o : GSet τ) (y : τ) : (s.merge o).contains y = true ↔ (s.contains y = true ∨ o.contains y = true) := by
  unfold GSet.merge
  have key : ∀ (l : List (τ × Unit)) (acc : GSet τ),
      (l.foldl (fun acc p => acc.insert p.1) acc).contains y = true ↔ (acc.contains y = true ∨ (AL.get? l y).isSome = true) := by
    intro l
    induction l with
    | nil => intro acc; simp [AL.get?]
    | cons hd t ih =>
      intro acc
      obtain ⟨k, u⟩ := hd
      simp only [List.foldl_cons, ih, GSet.contains_insert, AL.get?]
      by_cases e : y = k <;> simp [e]
  rw [key]
  rfl

theorem GSet.ext {a b : GSet τ} (h : ∀ x, a.contains x = b.contains x) : a = b := by
  cases a with | mk va => cases b with | mk vb =>
  congr 1
  apply FMap.ext
  intro k
  have := h k
  simp only [GSet.contains, FMap.contains] at this
  cases h1 : va.get? k <;> cases h2 : vb.get? k <;> simp_all

def gsetSys : RepSys (GSet τ) τ where
  init := GSet.init
  apply := GSet.apply
  merge := GSet.merge
  WF := fun _ => True
  Ok := fun _ _ _ => True
  Inv := fun _ _ => True
  Rep := fun _ K s => ∀ x, s.contains x = true ↔ x ∈ K
  inv_nil := trivial
  inv_cons := fun _ _ _ _ => trivial
  inv_append := fun _ _ => trivial
  inv_congr := fun _ _ => trivial
  ok_of_mem := fun _ _ _ => trivial
  rep_init := fun x => by simp [GSet.init, GSet.contains, FMap.contains]
  rep_apply := fun _ _ h _ _ x => by simp only [GSet.apply, GSet.contains_insert, List.mem_cons, h x]
  rep_merge := fun _ _ _ h h' x => by simp only [GSet.contains_merge, List.mem_append, h x, h' x]
  rep_congr := fun e h x => by rw [h x]; exact e x
  rep_functional := fun _ _ h h' => GSet.ext (fun x => by
    have a := h x; have b := h' x
    cases h1 : GSet.contains _ x <;> cases h2 : GSet.contains _ x <;> simp_all)

end gset

/-! ## MaxReg / MinReg: the extreme of the initial value and all applied values -/
section reg
variable {ν : Type} [LinOrd ν]

theorem not_lt_antisymm {a b : ν} (h1 : ¬ a < b) (h2 : ¬ b < a) : a = b := by
  rcases lt_tri a b with h | h | h
  · exact absurd h h1
  · exact h
  · exact absurd h h2

theorem not_lt_trans {a b c : ν} (h1 : ¬ a < b) (h2 : ¬ b < c) : ¬ a < c := by
  intro h
  rcases lt_tri b a with x | x | x
  · rcases lt_tri c b with y | y | y
    · exact lt_irrefl _ (lt_trans (lt_trans h y) x)
    · subst y; exact lt_irrefl _ (lt_trans h x)
    · exact h2 y
  · subst x; exact h2 h
  · exact h1 x

/-- `s` is a maximum of `v0 :: K` -/
def IsMaxOf (v0 : ν) (K : List ν) (v : ν) : Prop := (v = v0 ∨ v ∈ K) ∧ ¬ v < v0 ∧ ∀ w ∈ K, ¬ v < w

theorem IsMaxOf.unique {v0 : ν} {K : List ν} {a b : ν} (ha : IsMaxOf v0 K a) (hb : IsMaxOf v0 K b) : a = b := by
  apply not_lt_antisymm
  · rcases hb.1 with e | e
    · subst e; exact ha.2.1
    · exact ha.2.2 _ e
  · rcases ha.1 with e | e
    · subst e; exact hb.2.1
    · exact hb.2.2 _ e

def maxregSys (v0 : ν) : RepSys (MaxReg ν) ν where
  init := ⟨v0⟩
  apply := MaxReg.apply
  merge := MaxReg.merge
  WF := fun _ => True
  Ok := fun _ _ _ => True
  Inv := fun _ _ => True
  Rep := fun _ K s => IsMaxOf v0 K s.val
  inv_nil := trivial
  inv_cons := fun _ _ _ _ => trivial
  inv_append := fun _ _ => trivial
  inv_congr := fun _ _ => trivial
  ok_of_mem := fun _ _ _ => trivial
  rep_init := ⟨Or.inl rfl, lt_irrefl _, fun _ h => by cases h⟩
  rep_apply := by
    intro U K s op _ _ h _ _
    simp only [MaxReg.apply, MaxReg.update]
    split
    · next lt =>
      refine ⟨Or.inr (by simp), ?_, ?_⟩
      · exact fun x => h.2.1 (lt_trans lt x)
      · intro w hw
        rcases List.mem_cons.mp hw with e | e
        · subst e; exact lt_irrefl _
        · exact fun x => h.2.2 w e (lt_trans lt x)
    · next nlt =>
      refine ⟨h.1.imp id (List.mem_cons_of_mem _), h.2.1, ?_⟩
      intro w hw
      rcases List.mem_cons.mp hw with e | e
      · subst e; exact nlt
      · exact h.2.2 w e
  rep_merge := by
    intro U K K' s s' _ _ _ h h'
    simp only [MaxReg.merge, MaxReg.update]
    split
    · next lt =>
      refine ⟨h'.1.imp id (fun x => List.mem_append.mpr (Or.inr x)), h'.2.1, ?_⟩
      intro w hw
      rcases List.mem_append.mp hw with e | e
      · exact fun x => h.2.2 w e (lt_trans lt x)
      · exact h'.2.2 w e
    · next nlt =>
      refine ⟨h.1.imp id (fun x => List.mem_append.mpr (Or.inl x)), h.2.1, ?_⟩
      intro w hw
      rcases List.mem_append.mp hw with e | e
      · exact h.2.2 w e
      · exact not_lt_trans nlt (h'.2.2 w e)
  rep_congr := fun e h => ⟨h.1.imp id (e _).mp, h.2.1, fun w hw => h.2.2 w ((e w).mpr hw)⟩
  rep_functional := fun _ _ h h' => by
    have := h.unique h'
    rename_i s s' _ _
    cases s; cases s'; simp at this; subst this; rfl

/-- `s` is a minimum of `v0 :: K` -/
def IsMinOf (v0 : ν) (K : List ν) (v : ν) : Prop := (v = v0 ∨ v ∈ K) ∧ ¬ v0 < v ∧ ∀ w ∈ K, ¬ w < v

theorem IsMinOf.unique {v0 : ν} {K : List ν} {a b : ν} (ha : IsMinOf v0 K a) (hb : IsMinOf v0 K b) : a = b := by
  apply not_lt_antisymm
  · rcases ha.1 with e | e
    · subst e; exact hb.2.1
    · exact hb.2.2 _ e
  · rcases hb.1 with e | e
    · subst e; exact ha.2.1
    · exact ha.2.2 _ e

def minregSys (v0 : ν) : RepSys (MinReg ν) ν where
  init := ⟨v0⟩
  apply := MinReg.apply
  merge := MinReg.merge
  WF := fun _ => True
  Ok := fun _ _ _ => True
  Inv := fun _ _ => True
  Rep := fun _ K s => IsMinOf v0 K s.val
  inv_nil := trivial
  inv_cons := fun _ _ _ _ => trivial
  inv_append := fun _ _ => trivial
  inv_congr := fun _ _ => trivial
  ok_of_mem := fun _ _ _ => trivial
  rep_init := ⟨Or.inl rfl, lt_irrefl _, fun _ h => by cases h⟩
  rep_apply := by
    intro U K s op _ _ h _ _
    simp only [MinReg.apply, MinReg.update]
    split
    · next lt =>
      refine ⟨Or.inr (by simp), ?_, ?_⟩
      · exact fun x => h.2.1 (lt_trans x lt)
      · intro w hw
        rcases List.mem_cons.mp hw with e | e
        · subst e; exact lt_irrefl _
        · exact fun x => h.2.2 w e (lt_trans x lt)
    · next nlt =>
      refine ⟨h.1.imp id (List.mem_cons_of_mem _), h.2.1, ?_⟩
      intro w hw
      rcases List.mem_cons.mp hw with e | e
      · subst e; exact nlt
      · exact h.2.2 w e
  rep_merge := by
    intro U K K' s s' _ _ _ h h'
    simp only [MinReg.merge, MinReg.update]
    split
    · next lt =>
      refine ⟨h'.1.imp id (fun x => List.mem_append.mpr (Or.inr x)), h'.2.1, ?_⟩
      intro w hw
      rcases List.mem_append.mp hw with e | e
      · exact fun x => h.2.2 w e (lt_trans x lt)
      · exact h'.2.2 w e
    · next nlt =>
      refine ⟨h.1.imp id (fun x => List.mem_append.mpr (Or.inl x)), h.2.1, ?_⟩
      intro w hw
      rcases List.mem_append.mp hw with e | e
      · exact h.2.2 w e
      · exact not_lt_trans (h'.2.2 w e) nlt
  rep_congr := fun e h => ⟨h.1.imp id (e _).mp, h.2.1, fun w hw => h.2.2 w ((e w).mpr hw)⟩
  rep_functional := fun _ _ h h' => by
    have := h.unique h'
    rename_i s s' _ _
    cases s; cases s'; simp at this; subst this; rfl

end reg

/-! ## LWWReg: the write with the greatest marker (markers unique per write – the property's own premise) -/
section lww
variable {ν μ : Type} [DecidableEq ν] [LinOrd μ]

/-- `s` is a write of `r0 :: K` with a greatest marker -/
def IsLatest (r0 : LWWReg ν μ) (K : List (LWWReg ν μ)) (s : LWWReg ν μ) : Prop :=
  (s = r0 ∨ s ∈ K) ∧ ¬ s.marker < r0.marker ∧ ∀ o ∈ K, ¬ s.marker < o.marker

/-- markers are used once: two writes (or the initial register) with the same marker are the same write -/
def UniqueMarkers (r0 : LWWReg ν μ) (U : List (LWWReg ν μ)) : Prop :=
  ∀ a b, (a = r0 ∨ a ∈ U) → (b = r0 ∨ b ∈ U) → a.marker = b.marker → a = b

def lwwSys (r0 : LWWReg ν μ) : RepSys (LWWReg ν μ) (LWWReg ν μ) where
  init := r0
  apply := LWWReg.apply
  merge := LWWReg.merge
  WF := UniqueMarkers r0
  Ok := fun _ _ _ => True
  Inv := fun U K => ∀ o ∈ K, o ∈ U
  Rep := fun _ K s => IsLatest r0 K s
  inv_nil := fun _ h => by cases h
  inv_cons := fun _ hk hu _ o ho => by
    rcases List.mem_cons.mp ho with e | e
    · subst e; exact hu
    · exact hk o e
  inv_append := fun h h' o ho => (List.mem_append.mp ho).elim (h o) (h' o)
  inv_congr := fun e h o ho => h o ((e o).mpr ho)
  ok_of_mem := fun _ _ _ => trivial
  rep_init := ⟨Or.inl rfl, lt_irrefl _, fun _ h => by cases h⟩
  rep_apply := by
    intro U K s op _ _ h _ _
    simp only [LWWReg.apply, LWWReg.merge, LWWReg.update]
    split
    · next lt =>
      refine ⟨Or.inr (by simp), ?_, ?_⟩
      · exact fun x => h.2.1 (lt_trans lt x)
      · intro w hw
        rcases List.mem_cons.mp hw with e | e
        · subst e; exact lt_irrefl _
        · exact fun x => h.2.2 w e (lt_trans lt x)
    · next nlt =>
      refine ⟨h.1.imp id (List.mem_cons_of_mem _), h.2.1, ?_⟩
      intro w hw
      rcases List.mem_cons.mp hw with e | e
      · subst e; exact nlt
      · exact h.2.2 w e
  rep_merge := by
    intro U K K' s s' _ _ _ h h'
    simp only [LWWReg.merge, LWWReg.update]
    split
    · next lt =>
      refine ⟨h'.1.imp id (fun x => List.mem_append.mpr (Or.inr x)), h'.2.1, ?_⟩
      intro w hw
      rcases List.mem_append.mp hw with e | e
      · exact fun x => h.2.2 w e (lt_trans lt x)
      · exact h'.2.2 w e
    · next nlt =>
      refine ⟨h.1.imp id (fun x => List.mem_append.mpr (Or.inl x)), h.2.1, ?_⟩
      intro w hw
      rcases List.mem_append.mp hw with e | e
      · exact h.2.2 w e
      · exact not_lt_trans nlt (h'.2.2 w e)
  rep_congr := fun e h => ⟨h.1.imp id (e _).mp, h.2.1, fun w hw => h.2.2 w ((e w).mpr hw)⟩
  rep_functional := by
    intro U K s s' wf inv h h'
    apply wf s s' (h.1.imp id (inv s)) (h'.1.imp id (inv s'))
    apply not_lt_antisymm
    · rcases h'.1 with e | e
      · rw [e]; exact h.2.1
      · exact h.2.2 _ e
    · rcases h.1 with e | e
      · rw [e]; exact h'.2.1
      · exact h'.2.2 _ e

end lww
end Crdt
