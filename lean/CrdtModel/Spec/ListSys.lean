import CrdtModel.Spec.ListRep
import CrdtModel.Spec.OpRepSys
set_option linter.unusedSectionVars false
/-! `List` as a merge-free representation system, and the representation relation in closed form: the state is
*equal* to the executable specification `specState K` (what the driver prints as the oracle). -/
namespace Crdt
open LinOrd

/-- `List` (src/list.rs, `CmRDT` only) as a representation system; discipline = per-actor order + delete after insert -/
def listSys {τ A : Type} [LinOrd A] : OpRepSys (ListCrdt τ A) (ListOp τ A) where
  init := ListCrdt.new
  apply := ListCrdt.apply
  WF := ListSpec.LogWF
  Ok := ListSpec.Ok
  Inv := ListSpec.Inv
  Rep := fun _ K s => ListSpec.Rep K s
  inv_nil := ListSpec.inv_nil
  inv_cons := fun _ inv hu ok => ListSpec.inv_cons inv hu ok
  inv_congr := ListSpec.inv_congr
  ok_of_mem := fun _ inv hk => inv.closed _ hk
  rep_init := ListSpec.rep_init
  rep_apply := fun wf inv h hu _ => ListSpec.rep_apply wf inv h hu
  rep_congr := ListSpec.rep_congr
  rep_functional := fun _ _ h h' => ListSpec.rep_functional h h'

theorem FMap.ext_of_iff {κ ν : Type} [LinOrd κ] {a b : FMap κ ν}
    (h : ∀ k v, a.get? k = some v ↔ b.get? k = some v) : a = b := by
  apply FMap.ext
  intro k
  cases h1 : a.get? k with
  | none =>
    cases h2 : b.get? k with
    | none => rfl
    | some v => have := (h k v).mpr h2; rw [h1] at this; cases this
  | some v => exact ((h k v).mp h1).symm

namespace ListSpec
variable {τ A : Type} [LinOrd A]

theorem deletedB_iff (K : List (Op τ A)) (id : Id A) : deletedB K id = true ↔ Deleted K id := by
  simp only [deletedB, List.any_eq_true, Deleted]
  constructor
  · rintro ⟨o, ho, h⟩
    cases o with
    | insert i v => simp at h
    | delete i d => simp at h; subst h; exact ⟨d, ho⟩
  · rintro ⟨d, hd⟩
    exact ⟨_, hd, by simp⟩

/-- the executable sequence specification holds exactly the live elements (values are unique per identifier) -/
theorem get?_specSeqAux (K : List (Op τ A)) : ∀ (L : List (Op τ A)),
    (∀ id v v', ListOp.insert id v ∈ L → ListOp.insert id v' ∈ L → v = v') → ∀ (id : Id A) (v : τ),
    (specSeqAux K L).get? id = some v ↔ (ListOp.insert id v ∈ L ∧ ¬ Deleted K id)
  | [], _, id, v => by simp [specSeqAux]
  | .delete i d :: t, uq, id, v => by
    have ih := get?_specSeqAux K t (fun id v v' h h' => uq id v v' (List.mem_cons_of_mem _ h) (List.mem_cons_of_mem _ h')) id v
    simp only [specSeqAux, ih, List.mem_cons]
    constructor
    · rintro ⟨h1, h2⟩; exact ⟨Or.inr h1, h2⟩
    · rintro ⟨h1 | h1, h2⟩
      · cases h1
      · exact ⟨h1, h2⟩
  | .insert i w :: t, uq, id, v => by
    have ih := get?_specSeqAux K t (fun id v v' h h' => uq id v v' (List.mem_cons_of_mem _ h) (List.mem_cons_of_mem _ h')) id v
    simp only [specSeqAux]
    by_cases hdel : deletedB K i = true
    · simp only [hdel, if_true, ih, List.mem_cons]
      constructor
      · rintro ⟨h1, h2⟩; exact ⟨Or.inr h1, h2⟩
      · rintro ⟨h1 | h1, h2⟩
        · cases h1; exact absurd ((deletedB_iff K _).mp hdel) h2
        · exact ⟨h1, h2⟩
    · simp only [hdel, Bool.false_eq_true, if_false, FMap.get?_insert]
      by_cases e : id = i
      · subst e
        simp only [if_true, Option.some.injEq, List.mem_cons]
        constructor
        · intro ev; subst ev; exact ⟨Or.inl rfl, fun x => hdel ((deletedB_iff K _).mpr x)⟩
        · rintro ⟨h1 | h1, _⟩
          · cases h1; rfl
          · exact uq id w v List.mem_cons_self (List.mem_cons_of_mem _ h1)
      · simp only [e, if_false, ih, List.mem_cons]
        constructor
        · rintro ⟨h1, h2⟩; exact ⟨Or.inr h1, h2⟩
        · rintro ⟨h1 | h1, h2⟩
          · cases h1; exact absurd rfl e
          · exact ⟨h1, h2⟩

theorem get?_specSeq {K : List (Op τ A)}
    (uq : ∀ id v v', ListOp.insert id v ∈ K → ListOp.insert id v' ∈ K → v = v') (id : Id A) (v : τ) :
    (specSeq K).get? id = some v ↔ Live K id v := get?_specSeqAux K K uq id v

/-- dot counter of actor `a` -/
def dctr (a : A) (d : Dot A) : Nat := if d.actor = a then d.counter else 0

theorem get_foldl_apply_dots (ds : List (Dot A)) (c : VClock A) (a : A) :
    (ds.foldl VClock.apply c).get a = max (c.get a) (listMax (dctr a) ds) := by
  induction ds generalizing c with
  | nil => simp
  | cons d t ih =>
    simp only [List.foldl_cons, ih, VClock.get_apply, listMax_cons, dctr]
    by_cases e : a = d.actor
    · subst e; simp only [if_true]; omega
    · have : ¬ d.actor = a := fun x => e x.symm
      simp only [e, this, if_false]; omega

theorem clk_eq_dots (K : List (Op τ A)) (a : A) : clk K a = listMax (dctr a) (K.filterMap ListOp.dot) := by
  induction K with
  | nil => rfl
  | cons o t ih =>
    simp only [clk_cons, ih, ctr]
    cases hd : o.dot with
    | none => simp [hd]
    | some d => simp [hd, dctr]

theorem get_specClock (K : List (Op τ A)) (a : A) : (specClock K).get a = clk K a := by
  simp only [specClock, VClock.fromIter, get_foldl_apply_dots, clk_eq_dots, VClock.get_empty]; omega

/-- **representation theorem, closed form**: the state is the executable specification of its knowledge -/
theorem eq_specState {U K : List (Op τ A)} {s : ListCrdt τ A} (wf : LogWF U) (sub : ∀ o ∈ K, o ∈ U) (h : Rep K s) :
    s = specState K := by
  have uq : ∀ id v v', ListOp.insert id v ∈ K → ListOp.insert id v' ∈ K → v = v' :=
    fun id v v' h1 h2 => insert_same_id wf (sub _ h1) (sub _ h2)
  have hc : s.clock = specClock K :=
    VClock.ext_get h.clock_nz (VClock.noZero_fromIter _) (fun a => by rw [h.clock, get_specClock])
  have hs : s.seq = specSeq K := FMap.ext_of_iff (fun id v => by rw [h.seq, get?_specSeq uq])
  cases s; simp only [specState] at *; subst hc; subst hs; rfl

/-! ### the executable well-formedness / discipline checks decide the propositions -/

theorem wfB_iff [DecidableEq τ] (U : List (Op τ A)) : wfB U = true ↔ LogWF U := by
  simp only [wfB, Bool.and_eq_true, List.all_eq_true, decide_eq_true_eq]
  constructor
  · rintro ⟨h1, h2⟩
    refine ⟨fun op hop => ?_, fun op hop op' hop' => h2 op hop op' hop'⟩
    have := h1 op hop
    cases hd : op.dot with
    | none => simp [hd] at this
    | some d => simp only [hd, decide_eq_true_eq] at this; exact ⟨d, rfl, this⟩
  · intro wf
    refine ⟨fun op hop => ?_, fun op hop op' hop' => wf.dot_unique op hop op' hop'⟩
    obtain ⟨d, hd, hp⟩ := wf.dot_pos op hop
    simp [hd, hp]

theorem predsInB_iff [DecidableEq τ] (U K : List (Op τ A)) (op : Op τ A) : predsInB U K op = true ↔ PredsIn U K op := by
  unfold predsInB PredsIn
  cases hd : op.dot with
  | none => simp
  | some d =>
    simp only [List.all_eq_true]
    constructor
    · intro h o ho d1 d' e1 e2 ha hc
      cases e1
      have := h o ho
      simp only [e2, decide_eq_true_eq] at this
      exact this ha hc
    · intro h o ho
      cases e2 : o.dot with
      | none => rfl
      | some d' => simp only [decide_eq_true_eq]; exact fun ha hc => h o ho d d' rfl e2 ha hc

theorem targetInB_iff (K : List (Op τ A)) (op : Op τ A) : targetInB K op = true ↔ TargetIn K op := by
  cases op with
  | insert id v => simp [targetInB, TargetIn]
  | delete id d =>
    simp only [targetInB, TargetIn, List.any_eq_true]
    constructor
    · rintro ⟨o, ho, h⟩
      cases o with
      | insert i v => simp at h; subst h; exact ⟨v, ho⟩
      | delete i d => simp at h
    · rintro ⟨v, hv⟩
      exact ⟨_, hv, by simp⟩

theorem okB_iff [DecidableEq τ] (U K : List (Op τ A)) (op : Op τ A) : okB U K op = true ↔ Ok U K op := by
  simp only [okB, Bool.and_eq_true, predsInB_iff, targetInB_iff, Ok]

end ListSpec
end Crdt
