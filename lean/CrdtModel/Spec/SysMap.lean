import CrdtModel.Spec.SysOrswot
import CrdtModel.Spec.MapKeys
import CrdtModel.Proofs.MapNestedOrswot
set_option linter.unusedSectionVars false
/-!
# A system-level execution model for `Map`: ops are only ever GENERATED THROUGH THE API

Same construction as `Spec/SysOrswot.lean`, for `Map<K, V, A>` with an ARBITRARY value type `ops : ValOps V VOp A`:
one replica per actor; an op comes into existence only by

    `m.update(k, m.read_ctx().derive_add_ctx(i), f)`      (f : the closure building the nested op from the current value and the ctx)
    `m.rm(k, m.get(&k).derive_rm_ctx())`                  (or with the `read_ctx()` context)

evaluated at the issuing replica's CURRENT state and applied there at once.  `Allowed f` restricts the closures the
application may pass (`fun _ => True` for the key-level theorems, which hold for every value type and every closure;
`NestedGen` = the four Orswot API calls for `Map<K, Orswot<M,A>, A>`).

`StepC` / `RunC` is the **causal, op-only** sub-system for `Map<K, Orswot<M,A>, A>` (no state merges, every delivered
context dominated by what the receiver has applied) – the region in which the nested reads are observed-remove
(Props/C05NestedOrswot.lean).
-/
namespace Crdt.SysMap
open Crdt LinOrd CMap Crdt.Sys

section generic
variable {K V VOp A : Type} [LinOrd K] [LinOrd A]

/-- a configuration of the whole system -/
structure Cfg (K V VOp A : Type) [LinOrd K] [LinOrd A] where
  /-- current state of actor `i`'s replica -/
  rep : A → CMap K V A
  /-- ops delivered to / generated at it (newest first; duplicates are kept) -/
  know : A → List (MapOp K VOp A)
  /-- every op generated so far (newest first) -/
  log : List (MapOp K VOp A)
  /-- saved states with their knowledge -/
  snaps : List (CMap K V A × List (MapOp K VOp A))

namespace Cfg
variable (ops : ValOps V VOp A)

def init : Cfg K V VOp A := ⟨fun _ => CMap.init, fun _ => [], [], []⟩

/-- `op` has just been built at replica `i`: applied there at once, remembered, logged -/
def gen (c : Cfg K V VOp A) (i : A) (op : MapOp K VOp A) : Cfg K V VOp A :=
  { c with rep := upd c.rep i (CMap.apply ops (c.rep i) op), know := upd c.know i (op :: c.know i), log := op :: c.log }

/-- an op of the log arrives at replica `i` -/
def deliver (c : Cfg K V VOp A) (i : A) (op : MapOp K VOp A) : Cfg K V VOp A :=
  { c with rep := upd c.rep i (CMap.apply ops (c.rep i) op), know := upd c.know i (op :: c.know i) }

/-- a state `s` with knowledge `L` is merged into replica `i` -/
def mergeIn (c : Cfg K V VOp A) (i : A) (s : CMap K V A) (L : List (MapOp K VOp A)) : Cfg K V VOp A :=
  { c with rep := upd c.rep i (CMap.merge ops (c.rep i) s), know := upd c.know i (c.know i ++ L) }

def snapshot (c : Cfg K V VOp A) (i : A) : Cfg K V VOp A := { c with snaps := (c.rep i, c.know i) :: c.snaps }

/-- the states the configuration holds, with their knowledge -/
inductive View (c : Cfg K V VOp A) : CMap K V A → List (MapOp K VOp A) → Prop
  | rep (i : A) : View c (c.rep i) (c.know i)
  | snap {p : CMap K V A × List (MapOp K VOp A)} : p ∈ c.snaps → View c p.1 p.2

end Cfg

/-- one step of the system; `Allowed` = the closures the application may hand to `update` -/
inductive Step (ops : ValOps V VOp A) (Allowed : (V → AddCtx A → VOp) → Prop) : Cfg K V VOp A → Cfg K V VOp A → Prop
  /-- `let op = m.update(k, m.read_ctx().derive_add_ctx(i), f); m.apply(op)` -/
  | update (c : Cfg K V VOp A) (i : A) (k : K) (f : V → AddCtx A → VOp) : Allowed f →
      Step ops Allowed c (c.gen ops i (CMap.update ops (c.rep i) k ((c.rep i).readCtx.deriveAddCtx i) f))
  /-- the same with the add context of `get(k')` (any key) -/
  | updateGet (c : Cfg K V VOp A) (i : A) (k k' : K) (f : V → AddCtx A → VOp) : Allowed f →
      Step ops Allowed c (c.gen ops i (CMap.update ops (c.rep i) k (((c.rep i).get k').deriveAddCtx i) f))
  /-- `let op = m.rm(k, m.get(&k).derive_rm_ctx()); m.apply(op)` -/
  | rmKey (c : Cfg K V VOp A) (i : A) (k : K) :
      Step ops Allowed c (c.gen ops i (CMap.rm k ((c.rep i).get k).deriveRmCtx))
  /-- remove a key with the whole-map context -/
  | rmKeyRead (c : Cfg K V VOp A) (i : A) (k : K) :
      Step ops Allowed c (c.gen ops i (CMap.rm k (c.rep i).readCtx.deriveRmCtx))
  /-- an op of the log is delivered to `i` (again, possibly): updates of each actor in issue order, key removes any time -/
  | deliver (c : Cfg K V VOp A) (i : A) (op : MapOp K VOp A) :
      op ∈ c.log → OrswotSpec.Ok (keyLog c.log) (keyLog (c.know i)) (keyOp op) → Step ops Allowed c (c.deliver ops i op)
  /-- state-based sync -/
  | merge (c : Cfg K V VOp A) (i j : A) : Step ops Allowed c (c.mergeIn ops i (c.rep j) (c.know j))
  | snapshot (c : Cfg K V VOp A) (i : A) : Step ops Allowed c (c.snapshot i)
  | mergeSnap (c : Cfg K V VOp A) (i : A) (n : Nat) (p : CMap K V A × List (MapOp K VOp A)) :
      c.snaps[n]? = some p → Step ops Allowed c (c.mergeIn ops i p.1 p.2)

/-- the configurations the system can reach -/
inductive Run (ops : ValOps V VOp A) (Allowed : (V → AddCtx A → VOp) → Prop) : Cfg K V VOp A → Prop
  | init : Run ops Allowed Cfg.init
  | step {c c' : Cfg K V VOp A} : Run ops Allowed c → Step ops Allowed c c' → Run ops Allowed c'

end generic

/-! ## `Map<K, Orswot<M,A>, A>` -/
section nested
variable {K M A : Type} [LinOrd K] [LinOrd M] [LinOrd A]

/-- the closures of the README for a nested Orswot: `|set, ctx| set.add(m, ctx)`, `set.add_all(ms, ctx)`,
`|set, _| set.rm(m, set.contains(&m).derive_rm_ctx())`, `set.rm_all(ms, set.read().derive_rm_ctx())` -/
inductive NestedGen : (Orswot M A → AddCtx A → OrswotOp M A) → Prop
  | add (m : M) : NestedGen (fun _ ctx => Orswot.add m ctx)
  | addAll (ms : List M) : NestedGen (fun _ ctx => Orswot.addAll ms ctx)
  | rm (m : M) : NestedGen (fun v _ => Orswot.rm m (v.contains m).deriveRmCtx)
  | rmRead (m : M) : NestedGen (fun v _ => Orswot.rm m v.read.deriveRmCtx)
  | rmAll (ms : List M) : NestedGen (fun v _ => Orswot.rmAll ms v.read.deriveRmCtx)

abbrev NCfg (K M A : Type) [LinOrd K] [LinOrd M] [LinOrd A] := Cfg K (Orswot M A) (OrswotOp M A) A

/-- the nested system with state merges and the weak (per-actor) delivery discipline: key-level theorems and `NLogWF` -/
abbrev NRun (c : NCfg K M A) : Prop := Run Orswot.valOps NestedGen c

/-- one step of the **causal, op-only** system: the same generation steps; a delivery additionally needs the op's
context to be dominated by what the receiver has applied (`CtxOk`, true of every causal delivery); no state merges -/
inductive StepC : NCfg K M A → NCfg K M A → Prop
  | update (c : NCfg K M A) (i : A) (k : K) (f : Orswot M A → AddCtx A → OrswotOp M A) : NestedGen f →
      StepC c (c.gen Orswot.valOps i (CMap.update Orswot.valOps (c.rep i) k ((c.rep i).readCtx.deriveAddCtx i) f))
  | rmKey (c : NCfg K M A) (i : A) (k : K) :
      StepC c (c.gen Orswot.valOps i (CMap.rm k ((c.rep i).get k).deriveRmCtx))
  | rmKeyRead (c : NCfg K M A) (i : A) (k : K) :
      StepC c (c.gen Orswot.valOps i (CMap.rm k (c.rep i).readCtx.deriveRmCtx))
  | deliver (c : NCfg K M A) (i : A) (op : NOp K M A) :
      op ∈ c.log → OrswotSpec.Ok (keyLog c.log) (keyLog (c.know i)) (keyOp op) → CtxOk (c.know i) op →
      StepC c (c.deliver Orswot.valOps i op)

inductive RunC : NCfg K M A → Prop
  | init : RunC Cfg.init
  | step {c c' : NCfg K M A} : RunC c → StepC c c' → RunC c'

end nested
end Crdt.SysMap
