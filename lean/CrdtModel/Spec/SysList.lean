import CrdtModel.Spec.ListSys
import CrdtModel.Spec.SysOrswot
set_option linter.unusedSectionVars false
/-!
# A system-level execution model for `List`: ops are only ever GENERATED THROUGH THE API

All `List` theorems (C12) have the shape `LogWF U → listSys.Reach U s K → …` where `U` is "the op log of the history" and
`LogWF U` (every op carries a dot with a positive counter – for an insert the LAST marker of its identifier, so the
identifier is non-empty – and no two ops carry the same dot) is a hypothesis.  This file defines a linear-time model of a
whole system in which there is no such log given in advance: a configuration holds one replica per actor ("each actor
confined to one replica"), and the only way an op comes into existence is a step that mirrors the use of the API

    `let op = l.insert_index(ix, v, i); l.apply(op)`   /   `l.append(v, i)`   /   `l.delete_index(ix, i)`

evaluated at the CURRENT state of the issuing replica and applied there at once.  Everything else (`deliver`) moves existing
ops around, under the discipline `ListSpec.Ok` of `listSys` (per-actor order + a delete after the insert it targets).
`List` has no state merge, so there are no merge steps.

`StepC` / `RunC` is the sub-system with genuinely CAUSAL delivery: every generated op is recorded together with everything
its author knew (`deps`), and it may be delivered to a replica only when that replica knows all of `deps`.
`Proofs/SysList.lean` proves that it is a sub-system (`runC_run`).

`Proofs/SysList.lean` proves that every configuration such a system can reach has a well-formed log and that all of its
replica states are `Reach`-derivable over that log – so every C12 theorem applies to every execution with no
well-formedness hypothesis left (`Props/SysList.lean`).
-/
namespace Crdt.SysList
open Crdt LinOrd Crdt.Sys

variable {τ A : Type} [LinOrd A]

/-- a configuration of the whole system -/
structure Cfg (τ A : Type) [LinOrd A] where
  /-- current state of actor `i`'s replica -/
  rep : A → ListCrdt τ A
  /-- ops delivered to / generated at it (newest first; duplicates are kept) -/
  know : A → List (ListOp τ A)
  /-- every op generated so far (newest first) -/
  log : List (ListOp τ A)

namespace Cfg

/-- all replicas new, nothing generated -/
def init : Cfg τ A := ⟨fun _ => ListCrdt.new, fun _ => [], []⟩

/-- `op` has just been built at replica `i`: it is applied there at once, remembered, and enters the log -/
def gen (c : Cfg τ A) (i : A) (op : ListOp τ A) : Cfg τ A :=
  { c with rep := upd c.rep i ((c.rep i).apply op), know := upd c.know i (op :: c.know i), log := op :: c.log }

/-- an op of the log arrives at replica `i` -/
def deliver (c : Cfg τ A) (i : A) (op : ListOp τ A) : Cfg τ A :=
  { c with rep := upd c.rep i ((c.rep i).apply op), know := upd c.know i (op :: c.know i) }

@[simp] theorem gen_log (c : Cfg τ A) (i : A) (op : ListOp τ A) : (c.gen i op).log = op :: c.log := rfl
@[simp] theorem deliver_log (c : Cfg τ A) (i : A) (op : ListOp τ A) : (c.deliver i op).log = c.log := rfl
@[simp] theorem gen_rep_same (c : Cfg τ A) (i : A) (op : ListOp τ A) : (c.gen i op).rep i = (c.rep i).apply op := by
  simp [gen]
@[simp] theorem gen_know_same (c : Cfg τ A) (i : A) (op : ListOp τ A) : (c.gen i op).know i = op :: c.know i := by
  simp [gen]
theorem gen_rep_other (c : Cfg τ A) {i j : A} (op : ListOp τ A) (h : j ≠ i) : (c.gen i op).rep j = c.rep j := by
  simp [gen, upd, h]
theorem gen_know_other (c : Cfg τ A) {i j : A} (op : ListOp τ A) (h : j ≠ i) : (c.gen i op).know j = c.know j := by
  simp [gen, upd, h]
@[simp] theorem deliver_rep_same (c : Cfg τ A) (i : A) (op : ListOp τ A) :
    (c.deliver i op).rep i = (c.rep i).apply op := by simp [deliver]
@[simp] theorem deliver_know_same (c : Cfg τ A) (i : A) (op : ListOp τ A) :
    (c.deliver i op).know i = op :: c.know i := by simp [deliver]
theorem deliver_rep_other (c : Cfg τ A) {i j : A} (op : ListOp τ A) (h : j ≠ i) : (c.deliver i op).rep j = c.rep j := by
  simp [deliver, upd, h]
theorem deliver_know_other (c : Cfg τ A) {i j : A} (op : ListOp τ A) (h : j ≠ i) :
    (c.deliver i op).know j = c.know j := by simp [deliver, upd, h]

end Cfg

/-- one step of the system.  Ops are created by the first three constructors only, each being one API call evaluated at
the issuing replica's CURRENT state (with the replica's own actor id); `deliver` moves an existing op. -/
inductive Step : Cfg τ A → Cfg τ A → Prop
  /-- `let op = l.insert_index(ix, v, i); l.apply(op)` -/
  | insertIndex (c : Cfg τ A) (i : A) (ix : Nat) (v : τ) : Step c (c.gen i ((c.rep i).insertIndex ix v i))
  /-- `let op = l.append(v, i); l.apply(op)` -/
  | append (c : Cfg τ A) (i : A) (v : τ) : Step c (c.gen i ((c.rep i).append v i))
  /-- `if let Some(op) = l.delete_index(ix, i) { l.apply(op) }` -/
  | deleteIndex (c : Cfg τ A) (i : A) (ix : Nat) (op : ListOp τ A) :
      (c.rep i).deleteIndex ix i = some op → Step c (c.gen i op)
  /-- an op of the log is delivered to `i` (again, possibly): after all ops of the log by the same actor with a smaller
  counter, and a delete after an insert of the identifier it targets -/
  | deliver (c : Cfg τ A) (i : A) (op : ListOp τ A) :
      op ∈ c.log → ListSpec.Ok c.log (c.know i) op → Step c (c.deliver i op)

/-- the configurations the system can reach -/
inductive Run : Cfg τ A → Prop
  | init : Run Cfg.init
  | step {c c' : Cfg τ A} : Run c → Step c c' → Run c'

/-- finitely many steps -/
inductive Steps : Cfg τ A → Cfg τ A → Prop
  | refl (c : Cfg τ A) : Steps c c
  | step {c c' c'' : Cfg τ A} : Steps c c' → Step c' c'' → Steps c c''

/-! ## the causal sub-system -/

/-- a configuration that also records, for every generated op, everything its author knew when it built it -/
structure CfgC (τ A : Type) [LinOrd A] where
  cfg : Cfg τ A
  /-- `(op, D)`: `op` was generated at a replica whose knowledge was `D` -/
  deps : List (ListOp τ A × List (ListOp τ A))

namespace CfgC

def init : CfgC τ A := ⟨Cfg.init, []⟩

/-- `op` has just been built at replica `i`; its dependencies are what `i` knew -/
def gen (cc : CfgC τ A) (i : A) (op : ListOp τ A) : CfgC τ A := ⟨cc.cfg.gen i op, (op, cc.cfg.know i) :: cc.deps⟩

def deliver (cc : CfgC τ A) (i : A) (op : ListOp τ A) : CfgC τ A := ⟨cc.cfg.deliver i op, cc.deps⟩

end CfgC

/-- one step of the causal system: generation as before; an op is delivered to `i` only when `i` already knows
EVERYTHING the author knew when it generated the op (causal delivery; re-delivery is allowed) -/
inductive StepC : CfgC τ A → CfgC τ A → Prop
  | insertIndex (cc : CfgC τ A) (i : A) (ix : Nat) (v : τ) : StepC cc (cc.gen i ((cc.cfg.rep i).insertIndex ix v i))
  | append (cc : CfgC τ A) (i : A) (v : τ) : StepC cc (cc.gen i ((cc.cfg.rep i).append v i))
  | deleteIndex (cc : CfgC τ A) (i : A) (ix : Nat) (op : ListOp τ A) :
      (cc.cfg.rep i).deleteIndex ix i = some op → StepC cc (cc.gen i op)
  | deliver (cc : CfgC τ A) (i : A) (op : ListOp τ A) (D : List (ListOp τ A)) :
      (op, D) ∈ cc.deps → (∀ o ∈ D, o ∈ cc.cfg.know i) → StepC cc (cc.deliver i op)

inductive RunC : CfgC τ A → Prop
  | init : RunC CfgC.init
  | step {cc cc' : CfgC τ A} : RunC cc → StepC cc cc' → RunC cc'

end Crdt.SysList
