import CrdtModel.Model.VClock
/-! Executable pointwise specification of the vector-clock operations (what C10's theorems say, as
functions): the driver prints these next to the model's results, and the check compares the
*implementation* with them (oracle). Only meaningful for clocks without stored zeros. -/
namespace Crdt
open LinOrd
namespace VClockSpec
variable {α : Type} [LinOrd α]

def actors (a b : VClock α) : List α := a.dots.l.map (·.1) ++ b.dots.l.map (·.1)

/-- the clock whose counter for `x` is `f x` (on the given actors), storing no zero -/
def ofFun (as : List α) (f : α → Nat) : VClock α :=
  ⟨as.foldl (fun m x => if f x = 0 then m else m.insert x (f x)) ∅⟩

def noZero (c : VClock α) : Bool := c.dots.l.all (fun p => p.2 != 0)

def le (a b : VClock α) : Bool := (actors a b).all (fun x => a.get x ≤ b.get x)

def cmp (a b : VClock α) : Option Ordering :=
  match le a b, le b a with
  | true, true => some .eq
  | false, true => some .gt
  | true, false => some .lt
  | false, false => none

def merge (a b : VClock α) : VClock α := ofFun (actors a b) (fun x => max (a.get x) (b.get x))
def glb (a b : VClock α) : VClock α := ofFun (actors a b) (fun x => min (a.get x) (b.get x))
def resetRemove (a b : VClock α) : VClock α := ofFun (actors a b) (fun x => if a.get x > b.get x then a.get x else 0)
def intersection (a b : VClock α) : VClock α := ofFun (actors a b) (fun x => if a.get x = b.get x then a.get x else 0)
def apply (a : VClock α) (d : Dot α) : VClock α :=
  ofFun (d.actor :: a.dots.l.map (·.1)) (fun x => if x = d.actor then max (a.get x) d.counter else a.get x)
def validateOk (a : VClock α) (d : Dot α) : Bool := d.counter ≤ a.get d.actor + 1

end VClockSpec
end Crdt
