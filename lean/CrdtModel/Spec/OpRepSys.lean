/-!
# Execution model for op-based types WITHOUT a state merge (`CmRDT` only, e.g. `List`)

The merge-free sibling of `Spec/RepSys.lean`.  `U` is the universe of ops of the history (every op ever generated, by
anyone).  A replica state is `Reach`-derivable with knowledge list `K` (the ops it has been delivered, duplicates
included) if it is obtained from the initial state by applying ops of `U` that the delivery discipline `Ok` admits;
an op that is already known may be applied again.  Any number of replicas, any interleaving, every point in time:
each replica state at each step has such a derivation, so "all schedules" = "all derivations".  Nothing is bounded.

An `OpRepSys` packages, for one type, the representation relation `Rep U K s` ("`s` is what a replica that has been
delivered exactly the ops in `K` must hold") with the facts proved about it per type; the corollaries below are proved
once from those facts.
-/
namespace Crdt

structure OpRepSys (σ ω : Type) where
  init : σ
  apply : σ → ω → σ
  /-- well-formedness of the whole log (what generation through the API guarantees) -/
  WF : List ω → Prop
  /-- delivery discipline: may `op` be applied by a replica that knows `K`? -/
  Ok : List ω → List ω → ω → Prop
  /-- knowledge sets the discipline can produce (⊆ U, closed as the discipline requires) -/
  Inv : List ω → List ω → Prop
  Rep : List ω → List ω → σ → Prop
  inv_nil : ∀ {U}, Inv U []
  inv_cons : ∀ {U K op}, WF U → Inv U K → op ∈ U → Ok U K op → Inv U (op :: K)
  inv_congr : ∀ {U K K'}, (∀ o, o ∈ K ↔ o ∈ K') → Inv U K → Inv U K'
  ok_of_mem : ∀ {U K op}, WF U → Inv U K → op ∈ K → Ok U K op
  rep_init : ∀ {U}, Rep U [] init
  rep_apply : ∀ {U K s op}, WF U → Inv U K → Rep U K s → op ∈ U → Ok U K op → Rep U (op :: K) (apply s op)
  rep_congr : ∀ {U K K' s}, (∀ o, o ∈ K ↔ o ∈ K') → Rep U K s → Rep U K' s
  rep_functional : ∀ {U K s s'}, WF U → Inv U K → Rep U K s → Rep U K s' → s = s'

namespace OpRepSys
variable {σ ω : Type} (R : OpRepSys σ ω)

/-- derivable replica states with their knowledge -/
inductive Reach (U : List ω) : σ → List ω → Prop
  | init : Reach U R.init []
  | apply {s K op} : Reach U s K → op ∈ U → R.Ok U K op → Reach U (R.apply s op) (op :: K)

variable {R} {U : List ω}

/-- **representation theorem, generic part**: every derivable state represents its knowledge -/
theorem reach_rep (wf : R.WF U) {s : σ} {K : List ω} (h : R.Reach U s K) : R.Inv U K ∧ R.Rep U K s := by
  induction h with
  | init => exact ⟨R.inv_nil, R.rep_init⟩
  | apply _ hu hok ih => exact ⟨R.inv_cons wf ih.1 hu hok, R.rep_apply wf ih.1 ih.2 hu hok⟩

/-- equal knowledge ⇒ equal state, for any two replicas (or the same replica at two times), however each got there -/
theorem converge (wf : R.WF U) {s s' : σ} {K K' : List ω} (h : R.Reach U s K) (h' : R.Reach U s' K')
    (e : ∀ o, o ∈ K ↔ o ∈ K') : s = s' := by
  have a := reach_rep wf h
  have b := reach_rep wf h'
  exact R.rep_functional wf b.1 (R.rep_congr e a.2) b.2

/-- re-applying a known op changes nothing -/
theorem dup_noop (wf : R.WF U) {s : σ} {K : List ω} (h : R.Reach U s K) {op : ω} (hu : op ∈ U) (hk : op ∈ K) :
    R.apply s op = s := by
  have a := reach_rep wf h
  exact converge wf (Reach.apply h hu (R.ok_of_mem wf a.1 hk)) h
    (by intro o; simp only [List.mem_cons]; constructor
        · rintro (e | e)
          · subst e; exact hk
          · exact e
        · exact Or.inr)

/-- everything a derivable state knows is an op of the log -/
theorem reach_sub {s : σ} {K : List ω} (h : R.Reach U s K) : ∀ o ∈ K, o ∈ U := by
  induction h with
  | init => intro o ho; cases ho
  | apply _ hu _ ih =>
    intro o ho
    rcases List.mem_cons.mp ho with e | e
    · subst e; exact hu
    · exact ih o e

end OpRepSys
end Crdt
