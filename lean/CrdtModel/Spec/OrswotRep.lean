import CrdtModel.Spec.Orswot
import CrdtModel.Proofs.OrswotBasic
set_option linter.unusedSectionVars false
/-! The representation relation for Orswot and basic facts about the specification functions. -/
namespace Crdt
open LinOrd
namespace OrswotSpec
variable {M A : Type} [LinOrd M] [LinOrd A]
open Orswot

/-- log well-formedness (what generation through the API guarantees): a dot names one add; remove contexts
store no zero (they are state clocks) -/
structure LogWF (U : List (Op M A)) : Prop where
  dot_unique : ∀ d ms ms', OrswotOp.add d ms ∈ U → OrswotOp.add d ms' ∈ U → ms = ms'
  rm_nz : ∀ c ms, OrswotOp.rm c ms ∈ U → c.NoZero

/-- all earlier adds (in the log) of the same actor are known -/
def PredsIn (U K : List (Op M A)) (d : Dot A) : Prop :=
  ∀ d' ms', OrswotOp.add d' ms' ∈ U → d'.actor = d.actor → d'.counter < d.counter → OrswotOp.add d' ms' ∈ K

/-- delivery discipline: per-actor FIFO **on adds only**; removes may arrive at any time, in any order -/
def Ok (U K : List (Op M A)) : Op M A → Prop
  | .add d _ => PredsIn U K d
  | .rm _ _ => True

structure Inv (U K : List (Op M A)) : Prop where
  sub : ∀ o ∈ K, o ∈ U
  closed : ∀ d ms, OrswotOp.add d ms ∈ K → PredsIn U K d

structure Rep (K : List (Op M A)) (s : Orswot M A) : Prop where
  clock_nz : s.clock.NoZero
  clock : ∀ a, s.clock.get a = clk K a
  ewf : EntriesWF s.entries
  entries : ∀ m a, entryGet s.entries m a = E K m a
  def_some : ∀ c, (s.deferred.get? c).isSome = true ↔ ((∃ ms, OrswotOp.rm c ms ∈ K) ∧ pending K c)
  def_mem : ∀ c S, s.deferred.get? c = some S → ∀ m, S.contains m = true ↔ rmMembers K c m

/-! ### facts about the specification functions -/

theorem addCtrOf_le_addCtr (m : M) (a : A) (o : Op M A) : addCtrOf m a o ≤ addCtr a o := by
  cases o with
  | add d ms => simp only [addCtrOf, addCtr]; split <;> split <;> simp_all
  | rm c ms => simp [addCtrOf, addCtr]

theorem listMax_le_listMax {ω : Type} {f g : ω → Nat} (K : List ω) (h : ∀ x, f x ≤ g x) : listMax f K ≤ listMax g K :=
  listMax_le_of_forall f K _ (fun x hx => Nat.le_trans (h x) (le_listMax g hx))

theorem Mx_le_clk (K : List (Op M A)) (m : M) (a : A) : Mx K m a ≤ clk K a :=
  listMax_le_listMax K (addCtrOf_le_addCtr m a)

theorem E_le_Mx (K : List (Op M A)) (m : M) (a : A) : E K m a ≤ Mx K m a := by
  unfold E; split <;> omega

theorem E_le_clk (K : List (Op M A)) (m : M) (a : A) : E K m a ≤ clk K a :=
  Nat.le_trans (E_le_Mx K m a) (Mx_le_clk K m a)

@[simp] theorem clk_cons (o : Op M A) (K : List (Op M A)) (a : A) : clk (o :: K) a = max (addCtr a o) (clk K a) := rfl
@[simp] theorem Mx_cons (o : Op M A) (K : List (Op M A)) (m : M) (a : A) :
    Mx (o :: K) m a = max (addCtrOf m a o) (Mx K m a) := rfl
@[simp] theorem θ_cons (o : Op M A) (K : List (Op M A)) (m : M) (a : A) :
    θ (o :: K) m a = max (rmCtr m a o) (θ K m a) := rfl

theorem clk_append (K K' : List (Op M A)) (a : A) : clk (K ++ K') a = max (clk K a) (clk K' a) := listMax_append _ K K'
theorem Mx_append (K K' : List (Op M A)) (m : M) (a : A) : Mx (K ++ K') m a = max (Mx K m a) (Mx K' m a) :=
  listMax_append _ K K'
theorem θ_append (K K' : List (Op M A)) (m : M) (a : A) : θ (K ++ K') m a = max (θ K m a) (θ K' m a) :=
  listMax_append _ K K'

theorem clk_congr {K K' : List (Op M A)} (e : ∀ o, o ∈ K ↔ o ∈ K') (a : A) : clk K a = clk K' a := listMax_congr _ e
theorem E_congr {K K' : List (Op M A)} (e : ∀ o, o ∈ K ↔ o ∈ K') (m : M) (a : A) : E K m a = E K' m a := by
  unfold E Mx θ; rw [listMax_congr _ e, listMax_congr (rmCtr m a) e]

/-- a positive clock value is attained by a known add -/
theorem clk_attained {K : List (Op M A)} {a : A} (h : 0 < clk K a) :
    ∃ d ms, OrswotOp.add d ms ∈ K ∧ d.actor = a ∧ d.counter = clk K a := by
  obtain ⟨o, ho, e⟩ := listMax_attained (addCtr a) K h
  cases o with
  | add d ms =>
    simp only [addCtr] at e
    split at e
    · next ha => exact ⟨d, ms, ho, ha, e⟩
    · unfold clk at h; omega
  | rm c ms => simp only [addCtr] at e; unfold clk at h; omega

theorem Mx_attained {K : List (Op M A)} {m : M} {a : A} (h : 0 < Mx K m a) :
    ∃ d ms, OrswotOp.add d ms ∈ K ∧ d.actor = a ∧ m ∈ ms ∧ d.counter = Mx K m a := by
  obtain ⟨o, ho, e⟩ := listMax_attained (addCtrOf m a) K h
  cases o with
  | add d ms =>
    simp only [addCtrOf] at e
    split at e
    · next ha => exact ⟨d, ms, ho, ha.1, ha.2, e⟩
    · unfold Mx at h; omega
  | rm c ms => simp only [addCtrOf] at e; unfold Mx at h; omega

theorem θ_attained {K : List (Op M A)} {m : M} {a : A} (h : 0 < θ K m a) :
    ∃ c ms, OrswotOp.rm c ms ∈ K ∧ m ∈ ms ∧ c.get a = θ K m a := by
  obtain ⟨o, ho, e⟩ := listMax_attained (rmCtr m a) K h
  cases o with
  | add d ms => simp only [rmCtr] at e; unfold θ at h; omega
  | rm c ms =>
    simp only [rmCtr] at e
    split at e
    · next hm => exact ⟨c, ms, ho, hm, e⟩
    · unfold θ at h; omega

theorem le_θ {K : List (Op M A)} {c : VClock A} {ms : List M} (h : OrswotOp.rm c ms ∈ K) {m : M} (hm : m ∈ ms) (a : A) :
    c.get a ≤ θ K m a := by
  have := le_listMax (rmCtr m a) h
  simpa [rmCtr, hm, θ] using this

theorem le_clk {K : List (Op M A)} {d : Dot A} {ms : List M} (h : OrswotOp.add d ms ∈ K) : d.counter ≤ clk K d.actor := by
  have := le_listMax (addCtr d.actor) h
  simpa [addCtr, clk] using this

theorem le_Mx {K : List (Op M A)} {d : Dot A} {ms : List M} (h : OrswotOp.add d ms ∈ K) {m : M} (hm : m ∈ ms) :
    d.counter ≤ Mx K m d.actor := by
  have := le_listMax (addCtrOf m d.actor) h
  simpa [addCtrOf, hm, Mx] using this

/-- **add-closure at work**: if a known-to-`K'` add of `m` by `a` is not newer than what `K` has seen of `a`,
then `K` knows that very add -/
theorem Mx_le_of_le_clk {U K K' : List (Op M A)} (wf : LogWF U) (inv : Inv U K) (inv' : Inv U K')
    (m : M) (a : A) (h : Mx K' m a ≤ clk K a) : Mx K' m a ≤ Mx K m a := by
  by_cases hz : Mx K' m a = 0
  · omega
  · obtain ⟨d, ms, hd, ha, hm, hc⟩ := Mx_attained (K := K') (m := m) (a := a) (by omega)
    obtain ⟨d2, ms2, hd2, ha2, hc2⟩ := clk_attained (K := K) (a := a) (by omega)
    have hin : OrswotOp.add d ms ∈ K := by
      by_cases hlt : d.counter < d2.counter
      · exact inv.closed d2 ms2 hd2 d ms (inv'.sub _ hd) (by rw [ha, ha2]) hlt
      · have : d = d2 := by
          cases d; cases d2; simp at *; exact ⟨by rw [ha, ha2], by omega⟩
        subst this
        have := wf.dot_unique d ms ms2 (inv'.sub _ hd) (inv.sub _ hd2)
        subst this; exact hd2
    have := le_Mx hin hm
    rw [ha] at this; omega

end OrswotSpec
end Crdt
