import CrdtModel.Model.List
import CrdtModel.Proofs.ListMax
/-! Declarative (and executable) specification of a `List` replica as a function of the set of ops it has been
delivered.  Only definitions here (the driver links against this file); the facts are in `Spec/ListRep.lean`. -/
namespace Crdt
open LinOrd

instance {τ α : Type} [LinOrd α] [DecidableEq τ] : DecidableEq (ListOp τ α) := fun a b =>
  match a, b with
  | .insert i v, .insert j w =>
    if h : i = j ∧ v = w then isTrue (by obtain ⟨h1, h2⟩ := h; subst h1; subst h2; rfl)
    else isFalse (fun e => h (by cases e; exact ⟨rfl, rfl⟩))
  | .delete i d, .delete j e =>
    if h : i = j ∧ d = e then isTrue (by obtain ⟨h1, h2⟩ := h; subst h1; subst h2; rfl)
    else isFalse (fun e => h (by cases e; exact ⟨rfl, rfl⟩))
  | .insert _ _, .delete _ _ => isFalse (fun e => by cases e)
  | .delete _ _, .insert _ _ => isFalse (fun e => by cases e)

namespace ListSpec
variable {τ A : Type} [LinOrd A]

abbrev Op (τ A : Type) := ListOp τ A
abbrev Id (A : Type) := Identifier (OrdDot A)

/-- counter of the op's dot if the op is by `a`, 0 otherwise -/
def ctr (a : A) (op : Op τ A) : Nat :=
  match op.dot with
  | some d => if d.actor = a then d.counter else 0
  | none => 0

/-- the replica clock: per actor the largest dot counter among the delivered ops (inserts AND deletes) -/
def clk (K : List (Op τ A)) (a : A) : Nat := listMax (ctr a) K

/-- a delete of `id` has been delivered -/
def Deleted (K : List (Op τ A)) (id : Id A) : Prop := ∃ d, ListOp.delete id d ∈ K

/-- the element `(id, v)` is live at knowledge `K`: its insert has been delivered and no delete of `id` has -/
def Live (K : List (Op τ A)) (id : Id A) (v : τ) : Prop := ListOp.insert id v ∈ K ∧ ¬ Deleted K id

/-! ### executable versions (used by the driver's `spec` / `ok`; proved equal to the above in `Spec/ListRep.lean`) -/

def deletedB (K : List (Op τ A)) (id : Id A) : Bool :=
  K.any (fun o => match o with | .delete i _ => decide (i = id) | .insert _ _ => false)

/-- the live inserts of `L` (deletes looked up in `K`), as a map keyed – hence sorted – by identifier -/
def specSeqAux (K : List (Op τ A)) : List (Op τ A) → FMap (Id A) τ
  | [] => ∅
  | .insert id v :: t => if deletedB K id then specSeqAux K t else (specSeqAux K t).insert id v
  | .delete _ _ :: t => specSeqAux K t

def specSeq (K : List (Op τ A)) : FMap (Id A) τ := specSeqAux K K

/-- per actor the largest delivered counter, as a clock -/
def specClock (K : List (Op τ A)) : VClock A := VClock.fromIter (K.filterMap ListOp.dot)

/-- the state a replica that has been delivered exactly `K` must hold -/
def specState (K : List (Op τ A)) : ListCrdt τ A := ⟨specSeq K, specClock K⟩

/-! ### executable log well-formedness and delivery discipline (`LogWF` / `Ok` of `Spec/ListRep.lean` as booleans) -/

/-- `LogWF`: every op carries a dot with a positive counter, no two ops carry the same dot -/
def wfB [DecidableEq τ] (U : List (Op τ A)) : Bool :=
  U.all (fun o => match o.dot with | some d => decide (0 < d.counter) | none => false) &&
  U.all (fun o => U.all (fun o' => decide (o.dot = o'.dot → o = o')))

/-- `PredsIn` -/
def predsInB [DecidableEq τ] (U K : List (Op τ A)) (op : Op τ A) : Bool :=
  match op.dot with
  | none => true
  | some d => U.all (fun o => match o.dot with
    | none => true
    | some d' => decide (d'.actor = d.actor → d'.counter < d.counter → o ∈ K))

/-- `TargetIn` -/
def targetInB (K : List (Op τ A)) : Op τ A → Bool
  | .insert _ _ => true
  | .delete id _ => K.any (fun o => match o with | .insert i _ => decide (i = id) | .delete _ _ => false)

/-- `Ok` -/
def okB [DecidableEq τ] (U K : List (Op τ A)) (op : Op τ A) : Bool := predsInB U K op && targetInB K op

end ListSpec
end Crdt
