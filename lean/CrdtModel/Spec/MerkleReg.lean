import CrdtModel.Model.MerkleReg
import CrdtModel.Spec.RepSys
/-!
# Specification of `MerkleReg`: the state is a function of the set of nodes received

`K` is the list of nodes a replica has received (any order, duplicates allowed).

* `VisH K h` – "`h` is the hash of a *visible* node": the least set of hashes closed under
  "`n ∈ K` and every child hash of `n` is in the set ⇒ `hash n` is in the set";
* `Visible K n` – `n` has been received and all its children hashes are hashes of visible nodes
  (so: `n` and all its ancestors have been received);
* `Head K n` – `n` is visible and no visible node lists `hash n` as a child;
* `MRep K s` – the representation relation: `dag` = the visible nodes, `orphans` = the received nodes that are
  not visible, `roots` = the hashes of the heads.

`visibleList`, `headList`, `orphanList` are the executable versions (fixpoint iteration), proved equivalent in
`Proofs/MerkleReg.lean`; the driver prints them as specification fields.  This file: definitions only.
-/
namespace Crdt
namespace MerkleSpec
open LinOrd
variable {H : Type} [LinOrd H] {τ : Type} (hash : Node H τ → H)

/-- hashes of visible nodes: least fixed point -/
inductive VisH (K : List (Node H τ)) : H → Prop
  | mk {n : Node H τ} : n ∈ K → (∀ c, n.children.contains c = true → VisH K c) → VisH K (hash n)

/-- received, and every child hash is the hash of a visible node -/
def Visible (K : List (Node H τ)) (n : Node H τ) : Prop :=
  n ∈ K ∧ ∀ c, n.children.contains c = true → VisH hash K c

/-- DAG head: visible, and no visible node has it as a child -/
def Head (K : List (Node H τ)) (n : Node H τ) : Prop :=
  Visible hash K n ∧ ∀ m, Visible hash K m → m.children.contains (hash n) = false

/-- representation relation (pointwise form of: dag = visible nodes, orphans = the rest, roots = heads) -/
structure MRep (K : List (Node H τ)) (s : MerkleReg H τ) : Prop where
  dag : ∀ h n, s.dag.get? h = some n ↔ (hash n = h ∧ Visible hash K n)
  orphans : ∀ h n, s.orphans.get? h = some n ↔ (hash n = h ∧ n ∈ K ∧ ¬ Visible hash K n)
  roots : ∀ h, s.roots.contains h = true ↔ ∃ n, hash n = h ∧ Head hash K n

/-! ### executable version -/

/-- all children hashes of `n` are hashes of members of `V` -/
def kidsIn (V : List (Node H τ)) (n : Node H τ) : Bool :=
  n.children.l.all (fun c => V.any (fun m => decide (hash m = c.1)))

def visStep (K V : List (Node H τ)) : List (Node H τ) := K.filter (kidsIn hash V)

def visIter (K : List (Node H τ)) : Nat → List (Node H τ)
  | 0 => []
  | i + 1 => visStep hash K (visIter K i)

/-- the visible nodes of `K` (in the order of `K`): `|K|` rounds of "add the nodes whose children are all in" -/
def visibleList (K : List (Node H τ)) : List (Node H τ) := visIter hash K K.length

def headList (K : List (Node H τ)) : List (Node H τ) :=
  let V := visibleList hash K
  V.filter (fun n => V.all (fun m => !m.children.contains (hash n)))

def orphanList (K : List (Node H τ)) : List (Node H τ) :=
  K.filter (fun n => !kidsIn hash (visibleList hash K) n)

end MerkleSpec
end Crdt
