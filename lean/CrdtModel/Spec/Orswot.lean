import CrdtModel.Model.Orswot
import CrdtModel.Proofs.ListMax
/-! Declarative specification of an Orswot as a function of the set of ops a replica has learned. -/
namespace Crdt
open LinOrd
namespace OrswotSpec
variable {M A : Type} [LinOrd M] [LinOrd A]

abbrev Op (M A : Type) [LinOrd A] := OrswotOp M A

/-- counter of an add by `a` (any members), 0 otherwise -/
def addCtr (a : A) : Op M A → Nat
  | .add d _ => if d.actor = a then d.counter else 0
  | .rm _ _ => 0
/-- counter of an add of member `m` by `a` -/
def addCtrOf (m : M) (a : A) : Op M A → Nat
  | .add d ms => if d.actor = a ∧ m ∈ ms then d.counter else 0
  | .rm _ _ => 0
/-- what a remove of `m` covers for actor `a` -/
def rmCtr (m : M) (a : A) : Op M A → Nat
  | .add _ _ => 0
  | .rm c ms => if m ∈ ms then c.get a else 0

/-- the replica clock: newest add seen per actor -/
def clk (K : List (Op M A)) (a : A) : Nat := listMax (addCtr a) K
/-- newest add of `m` by `a` -/
def Mx (K : List (Op M A)) (m : M) (a : A) : Nat := listMax (addCtrOf m a) K
/-- how far removes of `m` cover actor `a` -/
def θ (K : List (Op M A)) (m : M) (a : A) : Nat := listMax (rmCtr m a) K
/-- surviving witness of `m` by `a`: the newest add, unless a remove covers it -/
def E (K : List (Op M A)) (m : M) (a : A) : Nat := if Mx K m a > θ K m a then Mx K m a else 0

/-- a remove context `c` is *pending* at knowledge `K` iff it is not dominated by the replica clock -/
def pending (K : List (Op M A)) (c : VClock A) : Prop := ∃ a, c.get a > clk K a

/-- members named by known removes with context exactly `c` -/
def rmMembers (K : List (Op M A)) (c : VClock A) (m : M) : Prop := ∃ ms, OrswotOp.rm c ms ∈ K ∧ m ∈ ms

end OrswotSpec
end Crdt
