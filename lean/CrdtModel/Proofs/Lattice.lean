import CrdtModel.Spec.Lattice
/-! Helper lemmas for C11 (sums of counter maps). -/
namespace Crdt
open LinOrd

namespace AL
variable {κ : Type} [LinOrd κ]

def sumVals : List (κ × Nat) → Nat
  | [] => 0
  | (_, v) :: t => v + sumVals t

theorem sumVals_insert (l : List (κ × Nat)) (hs : Sorted l) (k : κ) (v : Nat) :
    sumVals (insert k v l) + (get? l k).getD 0 = sumVals l + v := by
  induction l with
  | nil => simp [insert, sumVals, get?]
  | cons hd t ih =>
    obtain ⟨k', v'⟩ := hd
    have hs' := List.pairwise_cons.mp hs
    simp only [insert]
    split
    · next lt =>
      have : get? ((k', v') :: t) k = none := get?_eq_none_of_lb (b := k) (by
        intro p hp
        rcases List.mem_cons.mp hp with e | e
        · subst e; exact lt
        · exact lt_trans lt (hs'.1 p e)) (Or.inl rfl)
      simp only [this, sumVals, Option.getD_none]; omega
    · split
      · next e => subst e; simp only [sumVals, get?, if_true, Option.getD_some]; omega
      · next nlt ne =>
        have := ih hs'.2
        simp only [sumVals, get?, ne, if_false] at this ⊢
        omega

end AL

namespace GCounter
variable {α : Type} [LinOrd α]

theorem read_eq (s : GCounter α) : s.read = AL.sumVals s.inner.dots.l := by
  unfold read VClock.iter
  generalize s.inner.dots.l = l
  induction l with
  | nil => rfl
  | cons hd t ih => obtain ⟨k, v⟩ := hd; simp only [List.map_cons, List.sum_cons, AL.sumVals, ih]

/-- the counter never decreases when an op is applied -/
theorem read_le_apply (s : GCounter α) (d : Dot α) : s.read ≤ (s.apply d).read := by
  rw [read_eq, read_eq]
  simp only [apply, VClock.apply]
  split
  · next lt =>
    have := AL.sumVals_insert s.inner.dots.l s.inner.dots.sorted d.actor d.counter
    simp only [FMap.insert]
    simp only [VClock.get, FMap.get?] at lt
    omega
  · exact Nat.le_refl _

/-- applying a *new* dot adds exactly the difference to the previous running total of that actor -/
theorem read_apply_new (s : GCounter α) (d : Dot α) (h : s.inner.get d.actor < d.counter) :
    (s.apply d).read = s.read + (d.counter - s.inner.get d.actor) := by
  rw [read_eq, read_eq]
  simp only [apply, VClock.apply, h, if_true]
  have := AL.sumVals_insert s.inner.dots.l s.inner.dots.sorted d.actor d.counter
  simp only [FMap.insert]
  simp only [VClock.get, FMap.get?] at h ⊢
  omega

end GCounter
end Crdt
