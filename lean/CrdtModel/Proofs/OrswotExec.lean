import CrdtModel.Spec.OrswotExec
import CrdtModel.Spec.OrswotRep
import CrdtModel.Proofs.MVRegSpec
set_option linter.unusedSectionVars false
/-! Soundness of the executable Orswot specification (`OrswotSpec.specState`): it satisfies `Rep K`, hence – `Rep` being
functional – every state that represents `K` equals it. -/
namespace Crdt
open LinOrd
namespace OrswotSpec
variable {M A : Type} [LinOrd M] [LinOrd A]
open Orswot

/-! ### soundness -/

theorem actor_of_clk {K : List (Op M A)} {a : A} (h : clk K a ≠ 0) : a ∈ specActors K := by
  obtain ⟨d, ms, hin, ha, _⟩ := clk_attained (K := K) (a := a) (by omega)
  simp only [specActors, List.mem_flatMap]
  exact ⟨_, hin, by simp [opActors, ha]⟩

theorem actor_of_E {K : List (Op M A)} {m : M} {a : A} (h : E K m a ≠ 0) : a ∈ specActors K := by
  apply actor_of_clk
  have := E_le_clk K m a
  omega

theorem member_of_E {K : List (Op M A)} {m : M} {a : A} (h : E K m a ≠ 0) : m ∈ specMembers K := by
  have h1 := E_le_Mx K m a
  obtain ⟨d, ms, hin, _, hm, _⟩ := Mx_attained (K := K) (m := m) (a := a) (by omega)
  simp only [specMembers, List.mem_flatMap]
  exact ⟨_, hin, by simpa [opMembers] using hm⟩

theorem get_specEntryClock (K : List (Op M A)) (m : M) (a : A) : (specEntryClock K m).get a = E K m a :=
  MVSpec.get_ofFun _ _ a (fun h => actor_of_E h)

theorem get?_specEntries_foldl (K : List (Op M A)) (l : List M) (e0 : FMap M (VClock A)) (m : M) :
    (l.foldl (fun e m => if (specEntryClock K m).isEmpty then e else e.insert m (specEntryClock K m)) e0).get? m =
      if m ∈ l ∧ (specEntryClock K m).isEmpty = false then some (specEntryClock K m) else e0.get? m := by
  induction l generalizing e0 with
  | nil => simp
  | cons x t ih =>
    simp only [List.foldl_cons, ih, List.mem_cons]
    by_cases hx : m ∈ t ∧ (specEntryClock K m).isEmpty = false
    · simp [hx]
    · simp only [hx, if_false]
      by_cases e : m = x
      · subst e
        by_cases he : (specEntryClock K m).isEmpty = true
        · simp [he]
        · have he' : (specEntryClock K m).isEmpty = false := by simpa using he
          simp [he']
      · have h1 : ¬ ((m = x ∨ m ∈ t) ∧ (specEntryClock K m).isEmpty = false) := by
          rintro ⟨h | h, h2⟩
          · exact e h
          · exact hx ⟨h, h2⟩
        simp only [h1, if_false]
        split <;> simp [e]

theorem get?_specEntries (K : List (Op M A)) (m : M) :
    (specEntries K).get? m =
      if m ∈ specMembers K ∧ (specEntryClock K m).isEmpty = false then some (specEntryClock K m) else none := by
  unfold specEntries
  rw [get?_specEntries_foldl]; rfl

theorem pendingB_iff {K : List (Op M A)} {c : VClock A} {ms : List M} (hin : OrswotOp.rm c ms ∈ K) :
    pendingB K c = true ↔ pending K c := by
  simp only [pendingB, List.any_eq_true, decide_eq_true_eq, pending]
  constructor
  · rintro ⟨a, _, h⟩; exact ⟨a, h⟩
  · rintro ⟨a, h⟩
    refine ⟨a, ?_, h⟩
    have hpos : c.get a ≠ 0 := by omega
    simp only [specActors, List.mem_flatMap]
    refine ⟨_, hin, ?_⟩
    simp only [opActors, List.mem_map]
    cases hg : c.dots.get? a with
    | none => simp [VClock.get, hg] at hpos
    | some n => exact ⟨(a, n), AL.mem_of_get? hg, rfl⟩

theorem get?_specDeferred_foldl (K : List (Op M A)) (l : List (VClock A)) (d0 : FMap (VClock A) (FSet M)) (c : VClock A) :
    (l.foldl (fun d c => if pendingB K c then d.insert c (setOfList (K.flatMap (rmMembersOf c))) else d) d0).get? c =
      if c ∈ l ∧ pendingB K c = true then some (setOfList (K.flatMap (rmMembersOf c))) else d0.get? c := by
  induction l generalizing d0 with
  | nil => simp
  | cons x t ih =>
    simp only [List.foldl_cons, ih, List.mem_cons]
    by_cases hx : c ∈ t ∧ pendingB K c = true
    · simp [hx]
    · simp only [hx, if_false]
      by_cases e : c = x
      · subst e
        by_cases hp : pendingB K c = true
        · simp [hp]
        · simp [hp]
      · have h1 : ¬ ((c = x ∨ c ∈ t) ∧ pendingB K c = true) := by
          rintro ⟨h | h, h2⟩
          · exact e h
          · exact hx ⟨h, h2⟩
        simp only [h1, if_false]
        split <;> simp [e]

theorem mem_rmClocks {K : List (Op M A)} {c : VClock A} : c ∈ K.filterMap rmClockOf ↔ ∃ ms, OrswotOp.rm c ms ∈ K := by
  simp only [List.mem_filterMap]
  constructor
  · rintro ⟨op, hin, e⟩
    cases op with
    | add d ms => simp [rmClockOf] at e
    | rm c' ms => simp only [rmClockOf, Option.some.injEq] at e; subst e; exact ⟨ms, hin⟩
  · rintro ⟨ms, hin⟩; exact ⟨_, hin, rfl⟩

theorem mem_rmMembers {K : List (Op M A)} {c : VClock A} {m : M} :
    m ∈ K.flatMap (rmMembersOf c) ↔ rmMembers K c m := by
  simp only [List.mem_flatMap, rmMembers]
  constructor
  · rintro ⟨op, hin, hm⟩
    cases op with
    | add d ms => simp [rmMembersOf] at hm
    | rm c' ms =>
      simp only [rmMembersOf] at hm
      split at hm
      · next e => subst e; exact ⟨ms, hin, hm⟩
      · simp at hm
  · rintro ⟨ms, hin, hm⟩
    exact ⟨_, hin, by simp [rmMembersOf, hm]⟩

/-- **the executable specification satisfies the representation relation** -/
theorem rep_specState (K : List (Op M A)) : Rep K (specState K) := by
  refine ⟨MVSpec.noZero_ofFun _ _, fun a => MVSpec.get_ofFun _ _ a (fun h => actor_of_clk h), ?_, ?_, ?_, ?_⟩
  · intro m mc hg
    simp only [specState, get?_specEntries] at hg
    split at hg
    · next h => cases hg; exact ⟨MVSpec.noZero_ofFun _ _, h.2⟩
    · cases hg
  · intro m a
    simp only [entryGet, specState, get?_specEntries]
    by_cases h : m ∈ specMembers K ∧ (specEntryClock K m).isEmpty = false
    · simp only [h, and_self, if_true, get_specEntryClock]
    · simp only [h, if_false]
      by_cases hz : E K m a = 0
      · exact hz.symm
      · exfalso
        apply h
        refine ⟨member_of_E hz, ?_⟩
        cases hemp : (specEntryClock K m).isEmpty
        · rfl
        · have := VClock.get_of_isEmpty hemp a
          rw [get_specEntryClock] at this; exact absurd this hz
  · intro c
    simp only [specState, specDeferred, get?_specDeferred_foldl, FMap.get?_empty]
    constructor
    · intro hs
      split at hs
      · next h =>
        obtain ⟨ms, hin⟩ := mem_rmClocks.mp h.1
        exact ⟨⟨ms, hin⟩, (pendingB_iff hin).mp h.2⟩
      · simp at hs
    · rintro ⟨⟨ms, hin⟩, hp⟩
      have : c ∈ K.filterMap rmClockOf ∧ pendingB K c = true := ⟨mem_rmClocks.mpr ⟨ms, hin⟩, (pendingB_iff hin).mpr hp⟩
      simp [this]
  · intro c S hS m
    simp only [specState, specDeferred, get?_specDeferred_foldl, FMap.get?_empty] at hS
    split at hS
    · cases hS
      rw [contains_setOfList, mem_rmMembers]
    · cases hS

/-- every state that represents `K` IS the executable specification -/
theorem eq_specState {K : List (Op M A)} {s : Orswot M A} (h : Rep K s) : s = specState K :=
  rep_functional_core h (rep_specState K)
where
  rep_functional_core {K : List (Op M A)} {s s' : Orswot M A} (h : Rep K s) (h' : Rep K s') : s = s' := by
    have hc : s.clock = s'.clock := VClock.ext_get h.clock_nz h'.clock_nz (fun a => by rw [h.clock, h'.clock])
    have he : s.entries = s'.entries := entries_ext h.ewf h'.ewf (fun m a => by rw [h.entries, h'.entries])
    have hd : s.deferred = s'.deferred := by
      apply FMap.ext
      intro c
      have a := h.def_some c
      have b := h'.def_some c
      cases h1 : s.deferred.get? c with
      | none =>
        cases h2 : s'.deferred.get? c with
        | none => rfl
        | some S' =>
          have : (s.deferred.get? c).isSome = true := a.mpr (b.mp (by simp [h2]))
          simp [h1] at this
      | some S =>
        cases h2 : s'.deferred.get? c with
        | none =>
          have : (s'.deferred.get? c).isSome = true := b.mpr (a.mp (by simp [h1]))
          simp [h2] at this
        | some S' =>
          congr 1
          apply fset_ext
          intro m
          have x := h.def_mem c S h1 m
          have y := h'.def_mem c S' h2 m
          cases hx : S.contains m <;> cases hy : S'.contains m <;> simp_all
    cases s; cases s'; simp at hc he hd; subst hc; subst he; subst hd; rfl

end OrswotSpec
end Crdt
