import CrdtModel.Spec.SysOrswot
import CrdtModel.Props.C07
set_option linter.unusedSectionVars false
/-!
# The system invariant: every reachable configuration has a well-formed log and `Reach`-derivable states

* `reach_mono_cons`: `Reach` is monotone under a FRESH extension of the op universe;
* `SysInv`: the invariant; `sysInv_init`, `sysInv_step`, `sysInv_run`.
-/
namespace Crdt.Sys
open Crdt LinOrd RepSys OrswotSpec Orswot
variable {M A : Type} [LinOrd M] [LinOrd A]

/-! ## monotonicity of `Reach` in the universe -/

/-- `op` is *fresh* for the universe `U`: if it is an add, its counter is greater than every counter its actor has in `U`
(a remove is always fresh) -/
def FreshFor (U : List (OrswotOp M A)) : OrswotOp M A → Prop
  | .add d _ => ∀ d' ms', OrswotOp.add d' ms' ∈ U → d'.actor = d.actor → d'.counter < d.counter
  | .rm _ _ => True

/-- a fresh op never becomes a missing predecessor of an op of `U` -/
theorem ok_mono_cons {U K : List (OrswotOp M A)} {op o : OrswotOp M A} (fr : FreshFor U op) (hu : o ∈ U)
    (ok : OrswotSpec.Ok U K o) : OrswotSpec.Ok (op :: U) K o := by
  cases o with
  | rm c ms => trivial
  | add d ms =>
    intro d' ms' hin ha hlt
    rcases List.mem_cons.mp hin with e | e
    · -- the new op itself: it would have to be older than `d`, but it is newer than every op of its actor in `U`
      subst e
      have := fr d ms hu ha.symm
      omega
    · exact ok d' ms' e ha hlt

/-- **monotonicity of `Reach` under a fresh extension of the universe** -/
theorem reach_mono_cons {U K : List (OrswotOp M A)} {s : Orswot M A} {op : OrswotOp M A} (fr : FreshFor U op)
    (h : orswotSys.Reach U s K) : orswotSys.Reach (op :: U) s K := by
  induction h with
  | init => exact Reach.init
  | apply _ hu ok ih => exact Reach.apply ih (List.mem_cons_of_mem _ hu) (ok_mono_cons fr hu ok)
  | merge _ _ ih1 ih2 => exact Reach.merge ih1 ih2

/-! ## the invariant -/

/-- the system invariant -/
structure SysInv (c : Cfg M A) : Prop where
  /-- (a) the log is well-formed -/
  wf : LogWF c.log
  /-- (b) every replica state is derivable over the log with its knowledge … -/
  reach : ∀ i, orswotSys.Reach c.log (c.rep i) (c.know i)
  /-- … and so is every saved state -/
  snaps : ∀ p ∈ c.snaps, orswotSys.Reach c.log p.1 p.2
  /-- (c) an actor's replica knows all of that actor's adds -/
  own : ∀ i d ms, OrswotOp.add d ms ∈ c.log → d.actor = i → OrswotOp.add d ms ∈ c.know i
  /-- (d) add counters are positive … -/
  pos : ∀ d ms, OrswotOp.add d ms ∈ c.log → 0 < d.counter
  /-- … and contiguous per actor: below a counter of the log, every positive counter of that actor is in the log -/
  contig : ∀ d ms n, OrswotOp.add d ms ∈ c.log → 0 < n → n ≤ d.counter → ∃ ms', OrswotOp.add ⟨d.actor, n⟩ ms' ∈ c.log

theorem sysInv_init : SysInv (Cfg.init : Cfg M A) where
  wf := ⟨fun _ _ _ h _ => (by cases h), fun _ _ h => (by cases h)⟩
  reach := fun _ => Reach.init
  snaps := fun _ h => by cases h
  own := fun _ _ _ h => by cases h
  pos := fun _ _ h => by cases h
  contig := fun _ _ _ h => by cases h

namespace SysInv
variable {c : Cfg M A}

theorem view (inv : SysInv c) {s : Orswot M A} {K : List (OrswotOp M A)} (v : c.View s K) : orswotSys.Reach c.log s K := by
  cases v with
  | rep i => exact inv.reach i
  | snap hp => exact inv.snaps _ hp

/-- knowledge is part of the log -/
theorem know_sub (inv : SysInv c) (i : A) : ∀ o ∈ c.know i, o ∈ c.log :=
  (reach_rep (R := orswotSys) inv.wf (inv.reach i)).1.sub

theorem rep (inv : SysInv c) (i : A) : OrswotSpec.Rep (c.know i) (c.rep i) := C04.rep inv.wf (inv.reach i)

/-- the replica clock of `i` at `i` = the newest counter `i` has used = the newest counter of `i` in the log -/
theorem clk_know_eq_log (inv : SysInv c) (i : A) : clk (c.know i) i = clk c.log i := by
  apply Nat.le_antisymm
  · exact listMax_le_of_forall _ _ _ (fun o ho => le_listMax (addCtr i) (inv.know_sub i o ho))
  · apply listMax_le_of_forall
    intro o ho
    cases o with
    | rm cl ms => simp [addCtr]
    | add d ms =>
      simp only [addCtr]
      split
      · next ha =>
        have := le_clk (inv.own i d ms ho ha)
        rw [ha] at this; exact this
      · exact Nat.zero_le _

/-- the dot the API derives at `i` -/
theorem derived_dot (inv : SysInv c) (i : A) : ((c.rep i).read.deriveAddCtx i).dot = ⟨i, clk (c.know i) i + 1⟩ :=
  (C07.derived_dot_fresh inv.wf (inv.reach i) i (fun d ms hu ha => inv.own i d ms hu ha)).1

/-- … is newer than every add of `i` in the log -/
theorem derived_fresh (inv : SysInv c) (i : A) (ms : List M) :
    FreshFor c.log (OrswotOp.add (⟨i, clk (c.know i) i + 1⟩ : Dot A) ms) := by
  intro d' ms' hu ha
  have ha : d'.actor = i := ha
  have := le_clk (inv.own i d' ms' hu ha)
  rw [ha] at this
  show d'.counter < clk (c.know i) i + 1
  omega

end SysInv

/-! ## generation -/

/-- what the API guarantees about a generated op: an add carries the next dot of the issuing actor, a remove context
stores no zero -/
def GenOk (c : Cfg M A) (i : A) : OrswotOp M A → Prop
  | .add d _ => d = ⟨i, clk (c.know i) i + 1⟩
  | .rm cl _ => cl.NoZero

theorem genOk_fresh {c : Cfg M A} (inv : SysInv c) {i : A} {op : OrswotOp M A} (g : GenOk c i op) : FreshFor c.log op := by
  cases op with
  | rm cl ms => trivial
  | add d ms => simp only [GenOk] at g; subst g; exact inv.derived_fresh i ms

/-- a well-formed log stays well-formed when a fresh op (with a zero-free context if it is a remove) enters it -/
theorem logWF_cons {U : List (OrswotOp M A)} {op : OrswotOp M A} (wf : LogWF U) (fr : FreshFor U op)
    (nz : ∀ cl ms, op = OrswotOp.rm cl ms → cl.NoZero) : LogWF (op :: U) := by
  refine ⟨fun d ms ms' h1 h2 => ?_, fun cl ms h => ?_⟩
  · rcases List.mem_cons.mp h1 with e1 | e1 <;> rcases List.mem_cons.mp h2 with e2 | e2
    · rw [← e1] at e2; cases e2; rfl
    · rw [← e1] at fr; have := fr d ms' e2 rfl; omega
    · rw [← e2] at fr; have := fr d ms e1 rfl; omega
    · exact wf.dot_unique d ms ms' e1 e2
  · rcases List.mem_cons.mp h with e | e
    · exact nz cl ms e.symm
    · exact wf.rm_nz cl ms e

theorem genOk_logWF {c : Cfg M A} (inv : SysInv c) {i : A} {op : OrswotOp M A} (g : GenOk c i op) : LogWF (op :: c.log) :=
  logWF_cons inv.wf (genOk_fresh inv g) (fun cl ms e => by rw [e] at g; exact g)

/-- the generated op may be applied at its origin: all earlier adds of `i` are known there -/
theorem genOk_ok {c : Cfg M A} (inv : SysInv c) {i : A} {op : OrswotOp M A} (g : GenOk c i op) :
    OrswotSpec.Ok (op :: c.log) (c.know i) op := by
  have fr := genOk_fresh inv g
  cases op with
  | rm cl ms => trivial
  | add d ms =>
    simp only [GenOk] at g
    intro d' ms' hin ha hlt
    rcases List.mem_cons.mp hin with e | e
    · cases e; omega
    · exact inv.own i d' ms' e (by rw [ha, g])

theorem sysInv_gen {c : Cfg M A} (inv : SysInv c) {i : A} {op : OrswotOp M A} (g : GenOk c i op) : SysInv (c.gen i op) := by
  have fr := genOk_fresh inv g
  refine ⟨genOk_logWF inv g, fun j => ?_, fun p hp => reach_mono_cons fr (inv.snaps p hp), fun j d ms hin ha => ?_,
    fun d ms hin => ?_, fun d ms n hin hn hle => ?_⟩
  · show orswotSys.Reach (op :: c.log) (upd c.rep i _ j) (upd c.know i _ j)
    by_cases e : j = i
    · subst e
      rw [upd_same, upd_same]
      exact Reach.apply (R := orswotSys) (reach_mono_cons fr (inv.reach j)) List.mem_cons_self (genOk_ok inv g)
    · rw [upd_other _ _ e, upd_other _ _ e]; exact reach_mono_cons fr (inv.reach j)
  · show OrswotOp.add d ms ∈ upd c.know i (op :: c.know i) j
    rcases List.mem_cons.mp hin with e | e
    · have hj : j = i := by
        rw [← e] at g; simp only [GenOk] at g; rw [← ha, g]
      subst hj; rw [upd_same, ← e]; exact List.mem_cons_self
    · by_cases hj : j = i
      · subst hj; rw [upd_same]; exact List.mem_cons_of_mem _ (inv.own j d ms e ha)
      · rw [upd_other _ _ hj]; exact inv.own j d ms e ha
  · rcases List.mem_cons.mp hin with e | e
    · rw [← e] at g; simp only [GenOk] at g; rw [g]; exact Nat.succ_pos _
    · exact inv.pos d ms e
  · show ∃ ms', OrswotOp.add ⟨d.actor, n⟩ ms' ∈ op :: c.log
    rcases List.mem_cons.mp hin with e | e
    · rw [← e] at g; simp only [GenOk] at g
      by_cases hn' : n = d.counter
      · exact ⟨ms, by rw [hn', e]; exact List.mem_cons_self⟩
      · -- below the new dot: the newest known add of `i` has counter `clk (know i) i ≥ n`
        have hd : d.actor = i := by rw [g]
        have hc : d.counter = clk (c.know i) i + 1 := by rw [g]
        obtain ⟨d2, ms2, hd2, ha2, hc2⟩ := clk_attained (K := c.know i) (a := i) (by omega)
        obtain ⟨ms', h'⟩ := inv.contig d2 ms2 n (inv.know_sub i _ hd2) hn (by omega)
        exact ⟨ms', List.mem_cons_of_mem _ (by rw [hd, ← ha2]; exact h')⟩
    · obtain ⟨ms', h'⟩ := inv.contig d ms n e hn hle
      exact ⟨ms', List.mem_cons_of_mem _ h'⟩

/-! ## the contexts the API hands out -/

theorem genOk_add {c : Cfg M A} (inv : SysInv c) (i : A) (ms : List M) :
    GenOk c i (OrswotOp.add ((c.rep i).read.deriveAddCtx i).dot ms) := inv.derived_dot i

/-- replica clocks store no zero -/
theorem clock_nz {c : Cfg M A} (inv : SysInv c) {s : Orswot M A} {K : List (OrswotOp M A)} (v : c.View s K) :
    s.clock.NoZero := (C04.rep inv.wf (inv.view v)).clock_nz

/-- entry clocks (the `contains` remove context) store no zero; for an absent member the context is empty -/
theorem contains_nz {c : Cfg M A} (inv : SysInv c) {s : Orswot M A} {K : List (OrswotOp M A)} (v : c.View s K) (m : M) :
    (s.contains m).deriveRmCtx.clock.NoZero := by
  show ((s.entries.get? m).getD ∅).NoZero
  cases hg : s.entries.get? m with
  | none => exact VClock.noZero_empty
  | some mc => exact ((C04.rep inv.wf (inv.view v)).ewf m mc hg).1

/-! ## every step preserves the invariant -/

theorem sysInv_deliver {c : Cfg M A} (inv : SysInv c) (i : A) {op : OrswotOp M A} (hu : op ∈ c.log)
    (ok : OrswotSpec.Ok c.log (c.know i) op) : SysInv (c.deliver i op) := by
  refine ⟨inv.wf, fun j => ?_, inv.snaps, fun j d ms hin ha => ?_, inv.pos, inv.contig⟩
  · show orswotSys.Reach c.log (upd c.rep i _ j) (upd c.know i _ j)
    by_cases e : j = i
    · subst e; rw [upd_same, upd_same]; exact Reach.apply (R := orswotSys) (inv.reach j) hu ok
    · rw [upd_other _ _ e, upd_other _ _ e]; exact inv.reach j
  · show OrswotOp.add d ms ∈ upd c.know i (op :: c.know i) j
    by_cases e : j = i
    · subst e; rw [upd_same]; exact List.mem_cons_of_mem _ (inv.own j d ms hin ha)
    · rw [upd_other _ _ e]; exact inv.own j d ms hin ha

theorem sysInv_mergeIn {c : Cfg M A} (inv : SysInv c) (i : A) {s : Orswot M A} {K : List (OrswotOp M A)}
    (h : orswotSys.Reach c.log s K) : SysInv (c.mergeIn i s K) := by
  refine ⟨inv.wf, fun j => ?_, inv.snaps, fun j d ms hin ha => ?_, inv.pos, inv.contig⟩
  · show orswotSys.Reach c.log (upd c.rep i _ j) (upd c.know i _ j)
    by_cases e : j = i
    · subst e; rw [upd_same, upd_same]; exact Reach.merge (R := orswotSys) (inv.reach j) h
    · rw [upd_other _ _ e, upd_other _ _ e]; exact inv.reach j
  · show OrswotOp.add d ms ∈ upd c.know i (c.know i ++ K) j
    by_cases e : j = i
    · subst e; rw [upd_same]; exact List.mem_append.mpr (Or.inl (inv.own j d ms hin ha))
    · rw [upd_other _ _ e]; exact inv.own j d ms hin ha

theorem sysInv_snapshot {c : Cfg M A} (inv : SysInv c) (i : A) : SysInv (c.snapshot i) := by
  refine ⟨inv.wf, inv.reach, fun p hp => ?_, inv.own, inv.pos, inv.contig⟩
  rcases List.mem_cons.mp hp with e | e
  · rw [e]; exact inv.reach i
  · exact inv.snaps p e

theorem sysInv_step {c c' : Cfg M A} (inv : SysInv c) (st : Step c c') : SysInv c' := by
  cases st with
  | add i m => exact sysInv_gen inv (genOk_add inv i [m])
  | addCtx i m => exact sysInv_gen inv (genOk_add inv i [m])
  | addContains i m m' => exact sysInv_gen inv (genOk_add inv i [m])
  | addAll i ms => exact sysInv_gen inv (genOk_add inv i ms)
  | rm i m => exact sysInv_gen inv (contains_nz inv (.rep i) m)
  | rmRead i m => exact sysInv_gen inv (clock_nz inv (.rep i))
  | rmAll i ms => exact sysInv_gen inv (clock_nz inv (.rep i))
  | rmAllCtx i ms => exact sysInv_gen inv (clock_nz inv (.rep i))
  | rmStale i m p hp => exact sysInv_gen inv (contains_nz inv (.snap hp) m)
  | deliver i op hu ok => exact sysInv_deliver inv i hu ok
  | merge i j => exact sysInv_mergeIn inv i (inv.reach j)
  | snapshot i => exact sysInv_snapshot inv i
  | mergeSnap i n p hp => exact sysInv_mergeIn inv i (inv.snaps p (List.mem_of_getElem? hp))

/-- a step either appends one freshly generated op to the log or leaves the log alone -/
theorem step_log {c c' : Cfg M A} (inv : SysInv c) (st : Step c c') :
    (∃ i op, GenOk c i op ∧ c'.log = op :: c.log) ∨ c'.log = c.log := by
  cases st with
  | add i m => refine Or.inl ⟨i, _, ?_, rfl⟩; exact genOk_add inv i [m]
  | addCtx i m => refine Or.inl ⟨i, _, ?_, rfl⟩; exact genOk_add inv i [m]
  | addContains i m m' => refine Or.inl ⟨i, _, ?_, rfl⟩; exact genOk_add inv i [m]
  | addAll i ms => refine Or.inl ⟨i, _, ?_, rfl⟩; exact genOk_add inv i ms
  | rm i m => refine Or.inl ⟨i, _, ?_, rfl⟩; exact contains_nz inv (.rep i) m
  | rmRead i m => refine Or.inl ⟨i, _, ?_, rfl⟩; exact clock_nz inv (.rep i)
  | rmAll i ms => refine Or.inl ⟨i, _, ?_, rfl⟩; exact clock_nz inv (.rep i)
  | rmAllCtx i ms => refine Or.inl ⟨i, _, ?_, rfl⟩; exact clock_nz inv (.rep i)
  | rmStale i m p hp => refine Or.inl ⟨i, _, ?_, rfl⟩; exact contains_nz inv (.snap hp) m
  | deliver i op hu ok => exact Or.inr rfl
  | merge i j => exact Or.inr rfl
  | snapshot i => exact Or.inr rfl
  | mergeSnap i n p hp => exact Or.inr rfl

/-- whatever was derivable stays derivable after a step (the log only grows by fresh ops) -/
theorem step_reach_mono {c c' : Cfg M A} (inv : SysInv c) (st : Step c c') {s : Orswot M A} {K : List (OrswotOp M A)}
    (h : orswotSys.Reach c.log s K) : orswotSys.Reach c'.log s K := by
  rcases step_log inv st with ⟨i, op, g, e⟩ | e
  · rw [e]; exact reach_mono_cons (genOk_fresh inv g) h
  · rw [e]; exact h

/-- finitely many steps -/
inductive Steps : Cfg M A → Cfg M A → Prop
  | refl (c : Cfg M A) : Steps c c
  | step {c c' c'' : Cfg M A} : Steps c c' → Step c' c'' → Steps c c''

theorem sysInv_steps {c c' : Cfg M A} (inv : SysInv c) (st : Steps c c') : SysInv c' := by
  induction st with
  | refl => exact inv
  | step _ s ih => exact sysInv_step ih s

theorem steps_reach_mono {c c' : Cfg M A} (inv : SysInv c) (st : Steps c c') {s : Orswot M A} {K : List (OrswotOp M A)}
    (h : orswotSys.Reach c.log s K) : orswotSys.Reach c'.log s K := by
  induction st with
  | refl => exact h
  | step st' s ih => exact step_reach_mono (sysInv_steps inv st') s ih

/-- **the invariant holds in every configuration the system can reach** -/
theorem sysInv_run {c : Cfg M A} (r : Run c) : SysInv c := by
  induction r with
  | init => exact sysInv_init
  | step _ st ih => exact sysInv_step ih st

end Crdt.Sys
