import CrdtModel.Spec.MVReg
/-! The executable specification functions of `Spec/MVRegSpec.lean` (what the driver prints) compute the
declarative notions of `Spec/MVReg.lean` (what the theorems are about). -/
set_option linter.unusedSectionVars false
namespace Crdt
open LinOrd
namespace MVSpec
variable {ν α : Type} [LinOrd α]

theorem sltB_iff (a b : VClock α) : sltB a b = true ↔ a.slt b := by
  unfold sltB VClock.slt
  rw [Bool.and_eq_true, VClock.ge_iff, Bool.not_eq_true', ← Bool.not_eq_true, VClock.ge_iff]

theorem dominatedB_iff (K : List (MVOp ν α)) (c : VClock α) : dominatedB K c = true ↔ Dominated K c := by
  unfold dominatedB Dominated
  rw [List.any_eq_true]
  constructor
  · rintro ⟨o, ho, l⟩; exact ⟨o, ho, (sltB_iff _ _).mp l⟩
  · rintro ⟨o, ho, l⟩; exact ⟨o, ho, (sltB_iff _ _).mpr l⟩

theorem isMaxB_iff {K : List (MVOp ν α)} {o : MVOp ν α} (ho : o ∈ K) :
    isMaxB K o = true ↔ Maximal K o.clock o.val := by
  unfold isMaxB Maximal
  have ho' : (⟨o.clock, o.val⟩ : MVOp ν α) ∈ K := ho
  rw [← dominatedB_iff]
  cases o.clock.isEmpty <;> cases dominatedB K o.clock <;> simp [ho']

theorem mem_dedup {β : Type} [DecidableEq β] (l : List β) (x : β) : x ∈ dedup l ↔ x ∈ l := by
  induction l with
  | nil => simp [dedup]
  | cons y t ih =>
    simp only [dedup]
    split
    · next h =>
      rw [ih, List.mem_cons]
      constructor
      · exact Or.inr
      · rintro (e | h')
        · subst e; exact h
        · exact h'
    · rw [List.mem_cons, List.mem_cons, ih]

theorem nodup_dedup {β : Type} [DecidableEq β] (l : List β) : (dedup l).Nodup := by
  induction l with
  | nil => simp [dedup]
  | cons y t ih =>
    simp only [dedup]
    split
    · exact ih
    · next h => exact List.nodup_cons.mpr ⟨fun h' => h ((mem_dedup t y).mp h'), ih⟩

section dec
variable [DecidableEq ν]

/-- the executable specification lists exactly the maximal puts … -/
theorem mem_maxPuts (K : List (MVOp ν α)) (c : VClock α) (v : ν) : (c, v) ∈ maxPuts K ↔ Maximal K c v := by
  unfold maxPuts
  rw [mem_dedup, List.mem_map]
  constructor
  · rintro ⟨o, ho, e⟩
    rw [List.mem_filter] at ho
    have := (isMaxB_iff ho.1).mp ho.2
    cases e; exact this
  · intro h
    exact ⟨⟨c, v⟩, List.mem_filter.mpr ⟨h.1, (isMaxB_iff h.1).mpr h⟩, rfl⟩

/-- … each once -/
theorem nodup_maxPuts (K : List (MVOp ν α)) : (maxPuts K).Nodup := nodup_dedup _

theorem noZeroB_iff (c : VClock α) : VClockSpec.noZero c = true ↔ c.NoZero := by
  unfold VClockSpec.noZero VClock.NoZero
  rw [List.all_eq_true]
  constructor
  · intro h a e
    have := h (a, 0) (AL.mem_of_get? e)
    simp at this
  · intro h p hp
    have hg : c.dots.get? p.1 = some p.2 := AL.get?_of_mem c.dots.sorted hp
    have := h p.1
    rw [hg] at this
    simp only [bne_iff_ne, ne_eq]
    intro e; rw [e] at this; exact this rfl

theorem wfB_iff (K : List (MVOp ν α)) : wfB K = true ↔ MVWF K := by
  unfold wfB MVWF
  rw [Bool.and_eq_true, List.all_eq_true, List.all_eq_true]
  constructor
  · rintro ⟨h1, h2⟩
    refine ⟨fun o ho => (noZeroB_iff _).mp (h1 o ho), fun o ho o' ho' e => ?_⟩
    have := h2 o ho
    rw [List.all_eq_true] at this
    have := this o' ho'
    simpa [e] using this
  · rintro ⟨h1, h2⟩
    refine ⟨fun o ho => (noZeroB_iff _).mpr (h1 o ho), fun o ho => ?_⟩
    rw [List.all_eq_true]
    intro o' ho'
    by_cases e : o.clock = o'.clock
    · simp [h2 o ho o' ho' e]
    · simp [e]

end dec

/-! ### `ofFun` -/

theorem get?_ofFun_foldl (f : α → Nat) (as : List α) (m : FMap α Nat) (x : α) :
    (as.foldl (fun m x => if f x = 0 then m else m.insert x (f x)) m).get? x =
      if x ∈ as ∧ f x ≠ 0 then some (f x) else m.get? x := by
  induction as generalizing m with
  | nil => simp
  | cons a t ih =>
    simp only [List.foldl_cons, ih, List.mem_cons]
    by_cases hx : x ∈ t ∧ f x ≠ 0
    · have : (x = a ∨ x ∈ t) ∧ f x ≠ 0 := ⟨Or.inr hx.1, hx.2⟩
      rw [if_pos hx, if_pos this]
    · rw [if_neg hx]
      by_cases e : x = a
      · subst e
        by_cases hz : f x = 0
        · simp [hz]
        · simp [hz]
      · have : ¬ ((x = a ∨ x ∈ t) ∧ f x ≠ 0) := by
          rintro ⟨h1 | h1, h2⟩
          · exact e h1
          · exact hx ⟨h1, h2⟩
        rw [if_neg this]
        split
        · rfl
        · simp [e]

theorem get?_ofFun (as : List α) (f : α → Nat) (x : α) :
    (VClockSpec.ofFun as f).dots.get? x = if x ∈ as ∧ f x ≠ 0 then some (f x) else none := by
  unfold VClockSpec.ofFun
  rw [get?_ofFun_foldl]; rfl

theorem noZero_ofFun (as : List α) (f : α → Nat) : (VClockSpec.ofFun as f).NoZero := by
  intro a
  rw [get?_ofFun]
  split
  · next h => intro e; injection e with e; exact h.2 e
  · simp

theorem get_ofFun (as : List α) (f : α → Nat) (x : α) (h : f x ≠ 0 → x ∈ as) :
    (VClockSpec.ofFun as f).get x = f x := by
  unfold VClock.get
  rw [get?_ofFun]
  by_cases hz : f x = 0
  · simp [hz]
  · simp [hz, h hz]

/-- the executable read clock is pointwise the largest counter in any known put, and stores no zero -/
theorem get_readClock (K : List (MVOp ν α)) (x : α) :
    (readClock K).get x = listMax (fun o => o.clock.get x) K := by
  unfold readClock
  apply get_ofFun
  intro hz
  have hpos : 0 < listMax (fun o : MVOp ν α => o.clock.get x) K := Nat.pos_of_ne_zero hz
  obtain ⟨o, ho, e⟩ := listMax_attained _ K hpos
  rw [List.mem_flatMap]
  refine ⟨o, ho, ?_⟩
  have hg : 0 < o.clock.get x := by omega
  unfold VClock.get at hg
  cases hh : o.clock.dots.get? x with
  | none => simp [hh] at hg
  | some n =>
    have := AL.mem_of_get? hh
    exact List.mem_map.mpr ⟨(x, n), this, rfl⟩

theorem noZero_readClock (K : List (MVOp ν α)) : (readClock K).NoZero := noZero_ofFun _ _

end MVSpec
end Crdt
