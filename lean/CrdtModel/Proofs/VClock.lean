import CrdtModel.Model.VClock
/-! Pointwise characterisations of the vector-clock functions (helper lemmas for C10 and everything above). -/
namespace Crdt
open LinOrd
namespace VClock
variable {α : Type} [LinOrd α]

@[simp] theorem get_empty (a : α) : (∅ : VClock α).get a = 0 := rfl

theorem get_eq_of_get? {c : VClock α} {a : α} {n : Nat} (h : c.dots.get? a = some n) : c.get a = n := by
  simp [get, h]

theorem get_eq_zero_of_none {c : VClock α} {a : α} (h : c.dots.get? a = none) : c.get a = 0 := by
  simp [get, h]

theorem get_apply (c : VClock α) (d : Dot α) (a : α) :
    (c.apply d).get a = if a = d.actor then max (c.get a) d.counter else c.get a := by
  unfold apply
  split
  · next h =>
    simp only [get, FMap.get?_insert]
    by_cases e : a = d.actor
    · subst e; simp only [if_true, Option.getD_some]; simp only [get] at h; omega
    · simp [e]
  · next h =>
    by_cases e : a = d.actor
    · subst e; simp only [if_true]; omega
    · simp [e]

theorem get_foldl_apply (l : List (α × Nat)) (hs : AL.Sorted l) (c : VClock α) (a : α) :
    (l.foldl (fun acc p => acc.apply ⟨p.1, p.2⟩) c).get a = max (c.get a) ((AL.get? l a).getD 0) := by
  induction l generalizing c with
  | nil => simp [AL.get?]
  | cons hd t ih =>
    obtain ⟨k, v⟩ := hd
    have hs' := List.pairwise_cons.mp hs
    simp only [List.foldl_cons]
    rw [ih hs'.2, get_apply]
    simp only [AL.get?]
    by_cases e : a = k
    · subst e
      simp only [if_true, Option.getD_some]
      rw [AL.get?_eq_none_of_lb hs'.1 (Or.inl rfl)]
      simp
    · simp [e]

/-- `merge` is the pointwise maximum (src/vclock.rs:139-143) -/
theorem get_merge (c o : VClock α) (a : α) : (c.merge o).get a = max (c.get a) (o.get a) :=
  get_foldl_apply o.dots.l o.dots.sorted c a

def rrSpec (cur : Nat) : Option Nat → Nat
  | some n => if n ≥ cur then 0 else cur
  | none => cur

theorem get_resetRemove_foldl (l : List (α × Nat)) (hs : AL.Sorted l) (c : VClock α) (a : α) :
    (l.foldl (fun acc p => if p.2 ≥ acc.get p.1 then (⟨acc.dots.erase p.1⟩ : VClock α) else acc) c).get a
      = rrSpec (c.get a) (AL.get? l a) := by
  induction l generalizing c with
  | nil => simp [AL.get?, rrSpec]
  | cons hd t ih =>
    obtain ⟨k, v⟩ := hd
    have hs' := List.pairwise_cons.mp hs
    simp only [List.foldl_cons]
    rw [ih hs'.2]
    by_cases e : a = k
    · subst e
      have hn := AL.get?_eq_none_of_lb hs'.1 (Or.inl (rfl : a = a))
      simp only [AL.get?, if_true, hn, rrSpec]
      split
      · simp [get]
      · rfl
    · have h1 : VClock.get (if v ≥ c.get k then (⟨c.dots.erase k⟩ : VClock α) else c) a = c.get a := by
        split
        · simp [get, e]
        · rfl
      simp only [AL.get?, e, if_false, h1]

theorem get_resetRemove' (c o : VClock α) (a : α) :
    (c.resetRemove o).get a = rrSpec (c.get a) (o.dots.get? a) :=
  get_resetRemove_foldl o.dots.l o.dots.sorted c a

/-- `reset_remove` keeps exactly the entries strictly newer than the argument (src/vclock.rs:85-91) -/
theorem get_resetRemove (c o : VClock α) (a : α) :
    (c.resetRemove o).get a = if c.get a > o.get a then c.get a else 0 := by
  rw [get_resetRemove']
  cases h : o.dots.get? a with
  | none =>
    simp only [rrSpec, get_eq_zero_of_none h]
    split <;> omega
  | some n =>
    simp only [rrSpec, get_eq_of_get? h]
    split <;> split <;> omega

/-! ### raw `get?` level facts (needed for `NoZero` preservation) -/

theorem get?_apply (c : VClock α) (d : Dot α) (a : α) :
    (c.apply d).dots.get? a =
      if a = d.actor ∧ c.get a < d.counter then some d.counter else c.dots.get? a := by
  unfold apply
  by_cases h : c.get d.actor < d.counter
  · simp only [h, if_true, FMap.get?_insert]
    by_cases e : a = d.actor
    · subst e; simp [h]
    · simp [e]
  · simp only [h, if_false]
    by_cases e : a = d.actor
    · subst e; simp [h]
    · simp [e]

theorem noZero_empty : (∅ : VClock α).NoZero := by intro a; simp [EmptyCollection.emptyCollection, FMap.empty, FMap.get?, AL.get?]

theorem noZero_apply {c : VClock α} (h : c.NoZero) (d : Dot α) : (c.apply d).NoZero := by
  intro a
  rw [get?_apply]
  split
  · next hh => intro e; injection e with e; omega
  · exact h a

theorem noZero_foldl_apply (l : List (α × Nat)) (c : VClock α) (h : c.NoZero) :
    (l.foldl (fun acc p => acc.apply ⟨p.1, p.2⟩) c).NoZero := by
  induction l generalizing c with
  | nil => exact h
  | cons hd t ih => exact ih _ (noZero_apply h _)

theorem noZero_merge {c : VClock α} (h : c.NoZero) (o : VClock α) : (c.merge o).NoZero :=
  noZero_foldl_apply _ _ h

theorem noZero_fromIter (ds : List (Dot α)) : (fromIter ds).NoZero := by
  unfold fromIter
  suffices ∀ c : VClock α, c.NoZero → (ds.foldl apply c).NoZero from this ∅ noZero_empty
  induction ds with
  | nil => intro c h; exact h
  | cons d t ih => intro c h; exact ih _ (noZero_apply h d)

theorem noZero_erase {c : VClock α} (h : c.NoZero) (k : α) : (⟨c.dots.erase k⟩ : VClock α).NoZero := by
  intro a
  simp only [FMap.get?_erase]
  split
  · simp
  · exact h a

theorem noZero_resetRemove {c : VClock α} (h : c.NoZero) (o : VClock α) : (c.resetRemove o).NoZero := by
  unfold resetRemove
  generalize o.dots.l = l
  induction l generalizing c with
  | nil => exact h
  | cons hd t ih =>
    simp only [List.foldl_cons]
    apply ih
    split
    · exact noZero_erase h _
    · exact h

theorem get?_glb (c o : VClock α) (a : α) :
    (c.glb o).dots.get? a =
      (c.dots.get? a).bind (fun n => if min n (o.get a) = 0 then none else some (min n (o.get a))) := by
  simp [glb]

theorem noZero_glb (c o : VClock α) : (c.glb o).NoZero := by
  intro a
  rw [get?_glb]
  cases c.dots.get? a with
  | none => simp
  | some n =>
    simp only [Option.bind_some]
    split
    · simp
    · next hk => intro e; injection e with e; exact hk e

/-- `glb` is the pointwise minimum (src/vclock.rs:232-246) -/
theorem get_glb (c o : VClock α) (a : α) : (c.glb o).get a = min (c.get a) (o.get a) := by
  simp only [get, get?_glb]
  cases h : c.dots.get? a with
  | none => simp
  | some n =>
    simp only [Option.bind_some, Option.getD_some]
    by_cases hm : min n ((o.dots.get? a).getD 0) = 0
    · simp only [hm, if_true, Option.getD_none]
    · simp only [hm, if_false, Option.getD_some]

theorem get?_intersection_foldl (r : VClock α) (l : List (α × Nat)) (hs : AL.Sorted l) (acc : FMap α Nat) (a : α) :
    (l.foldl (fun acc p => if r.get p.1 = p.2 then acc.insert p.1 p.2 else acc) acc).get? a =
      match AL.get? l a with
      | some n => if r.get a = n then some n else acc.get? a
      | none => acc.get? a := by
  induction l generalizing acc with
  | nil => simp [AL.get?]
  | cons hd t ih =>
    obtain ⟨k, v⟩ := hd
    have hs' := List.pairwise_cons.mp hs
    simp only [List.foldl_cons]
    rw [ih hs'.2]
    by_cases e : a = k
    · subst e
      have hn := AL.get?_eq_none_of_lb hs'.1 (Or.inl (rfl : a = a))
      simp only [hn, AL.get?, if_true]
      split <;> simp
    · simp only [AL.get?, e, if_false]
      have : ∀ (x : FMap α Nat), (if r.get k = v then x.insert k v else x).get? a = x.get? a := by
        intro x; split <;> simp [e]
      cases AL.get? t a with
      | none => simp [this]
      | some n => simp [this]

theorem get?_intersection (l r : VClock α) (a : α) :
    (intersection l r).dots.get? a =
      (l.dots.get? a).bind (fun n => if r.get a = n then some n else none) := by
  unfold intersection
  simp only
  rw [get?_intersection_foldl r l.dots.l l.dots.sorted ∅ a]
  show (match l.dots.get? a with
      | some n => if r.get a = n then some n else (∅ : FMap α Nat).get? a
      | none => (∅ : FMap α Nat).get? a) = _
  cases l.dots.get? a <;> simp

/-- `intersection` keeps exactly the entries on which both clocks agree (src/vclock.rs:216-229) -/
theorem get_intersection (l r : VClock α) (a : α) :
    (intersection l r).get a = if l.get a = r.get a then l.get a else 0 := by
  have h0 := get?_intersection l r a
  simp only [get] at h0 ⊢
  rw [h0]
  have key : ∀ (x : Option Nat) (R : Nat),
      (x.bind fun n => if R = n then some n else none).getD 0 = if x.getD 0 = R then x.getD 0 else 0 := by
    intro x R
    cases x with
    | none => simp
    | some n =>
      simp only [Option.getD_some, Option.bind_some]
      by_cases e : R = n
      · simp [e]
      · have e' : ¬ n = R := fun x => e x.symm
        simp [e, e']
  exact key _ _

theorem noZero_intersection {l : VClock α} (h : l.NoZero) (r : VClock α) : (intersection l r).NoZero := by
  intro a
  rw [get?_intersection]
  cases hh : l.dots.get? a with
  | none => simp
  | some n =>
    simp only [Option.bind_some]
    split
    · intro e; injection e with e; subst e; exact h a hh
    · simp

/-- under `NoZero`, structural equality (Rust `==`) is pointwise equality of counters -/
theorem ext_get {a b : VClock α} (ha : a.NoZero) (hb : b.NoZero) (h : ∀ x, a.get x = b.get x) : a = b := by
  cases a with | mk da => cases b with | mk db =>
  congr 1
  apply FMap.ext
  intro k
  have hk := h k
  simp only [get] at hk
  have ha' := ha k
  have hb' := hb k
  simp only at ha' hb'
  cases h1 : da.get? k with
  | none =>
    cases h2 : db.get? k with
    | none => rfl
    | some m => simp [h1, h2] at hk; subst hk; exact absurd h2 hb'
  | some n =>
    cases h2 : db.get? k with
    | none => simp [h1, h2] at hk; subst hk; exact absurd h1 ha'
    | some m => simp [h1, h2] at hk; subst hk; rfl

theorem isEmpty_iff_get {c : VClock α} (h : c.NoZero) : c.isEmpty = true ↔ ∀ a, c.get a = 0 := by
  simp only [isEmpty, FMap.isEmpty_iff]
  constructor
  · intro e a; simp [get, e a]
  · intro e a
    have := e a
    cases hh : c.dots.get? a with
    | none => rfl
    | some n => simp [get, hh] at this; subst this; exact absurd hh (h a)

theorem get_of_isEmpty {c : VClock α} (h : c.isEmpty = true) (a : α) : c.get a = 0 := by
  have := FMap.isEmpty_iff.mp h a
  simp [get, this]

/-- the two `all(...)` scans of `partial_cmp` decide the pointwise order -/
theorem all_ge_iff (a b : VClock α) :
    b.dots.l.all (fun p => a.get p.1 ≥ p.2) = true ↔ b.le a := by
  simp only [List.all_eq_true, decide_eq_true_eq, le]
  constructor
  · intro h x
    cases hx : b.dots.get? x with
    | none => simp [get, hx]
    | some n =>
      have := h (x, n) (AL.mem_of_get? hx)
      simp only [get, hx, Option.getD_some]
      exact this
  · intro h p hp
    have hg : b.dots.get? p.1 = some p.2 := AL.get?_of_mem b.dots.sorted hp
    have := h p.1
    simpa [get, hg] using this

end VClock
end Crdt

namespace Crdt
open LinOrd
namespace VClock
variable {α : Type} [LinOrd α]

theorem le_refl (a : VClock α) : a.le a := fun _ => Nat.le_refl _
theorem le_trans {a b c : VClock α} (h1 : a.le b) (h2 : b.le c) : a.le c := fun x => Nat.le_trans (h1 x) (h2 x)
theorem le_antisymm {a b : VClock α} (ha : a.NoZero) (hb : b.NoZero) (h1 : a.le b) (h2 : b.le a) : a = b :=
  ext_get ha hb (fun x => Nat.le_antisymm (h1 x) (h2 x))

/-- the four outcomes of `partial_cmp`, with no assumption on the clocks -/
theorem partialCmp_cases (a b : VClock α) :
    (a.partialCmp b = some .eq ∧ a = b) ∨
    (a.partialCmp b = some .gt ∧ a ≠ b ∧ b.le a) ∨
    (a.partialCmp b = some .lt ∧ a ≠ b ∧ ¬ b.le a ∧ a.le b) ∨
    (a.partialCmp b = none ∧ a ≠ b ∧ ¬ b.le a ∧ ¬ a.le b) := by
  unfold partialCmp
  by_cases e : a = b
  · exact Or.inl ⟨by simp [e], e⟩
  · by_cases h1 : b.dots.l.all (fun p => a.get p.1 ≥ p.2) = true
    · exact Or.inr (Or.inl ⟨by simp only [e, if_false, h1, if_true], e, (all_ge_iff a b).mp h1⟩)
    · have n1 : ¬ b.le a := fun h => h1 ((all_ge_iff a b).mpr h)
      by_cases h2 : a.dots.l.all (fun p => b.get p.1 ≥ p.2) = true
      · exact Or.inr (Or.inr (Or.inl ⟨by simp [e, h1, h2], e, n1, (all_ge_iff b a).mp h2⟩))
      · have n2 : ¬ a.le b := fun h => h2 ((all_ge_iff b a).mpr h)
        exact Or.inr (Or.inr (Or.inr ⟨by simp [e, h1, h2], e, n1, n2⟩))

/-- `a >= b` in Rust (`PartialOrd::ge`) is exactly pointwise domination; no `NoZero` needed -/
theorem ge_iff (a b : VClock α) : a.ge b = true ↔ b.le a := by
  unfold ge
  rcases partialCmp_cases a b with ⟨h, e⟩ | ⟨h, _, l⟩ | ⟨h, _, n, _⟩ | ⟨h, _, n, _⟩ <;> rw [h]
  · subst e; simp [le_refl]
  · simp [l]
  · simp [n]
  · simp [n]

end VClock
end Crdt
