import CrdtModel.Model.Map
import CrdtModel.Proofs.OrswotBasic
set_option linter.unusedSectionVars false
/-! Key-level simulation: the triple (clock, entry clocks, deferred) of a `Map` behaves exactly like an `Orswot` of keys,
for EVERY value type.  (`Map::apply_keyset_rm` compares `self.clock.partial_cmp(&clock)` where `Orswot::apply_rm`
compares `clock.partial_cmp(&self.clock)`; the two agree for clocks without stored zeros, hence the `NoZero` premises.) -/
namespace Crdt
open LinOrd

namespace FMap
variable {κ : Type} [LinOrd κ] {ν μ : Type}

/-- map over values (keys untouched) -/
def mapVal (f : ν → μ) (m : FMap κ ν) : FMap κ μ := m.filterMap (fun _ v => some (f v))

@[simp] theorem get?_mapVal (f : ν → μ) (m : FMap κ ν) (k : κ) : (m.mapVal f).get? k = (m.get? k).map f := by
  simp only [mapVal, get?_filterMap]; cases m.get? k <;> rfl

theorem mapVal_l (f : ν → μ) (m : FMap κ ν) : (m.mapVal f).l = m.l.map (fun p => (p.1, f p.2)) := by
  cases m with | mk l s =>
  simp only [mapVal, filterMap]
  induction l with
  | nil => rfl
  | cons hd t ih =>
    obtain ⟨k, v⟩ := hd
    simp only [AL.filterMap, List.map_cons]
    rw [ih (List.pairwise_cons.mp s).2]

theorem mapVal_insert (f : ν → μ) (m : FMap κ ν) (k : κ) (v : ν) : (m.insert k v).mapVal f = (m.mapVal f).insert k (f v) := by
  apply ext; intro x; simp only [get?_mapVal, get?_insert]; split <;> rfl

theorem mapVal_erase (f : ν → μ) (m : FMap κ ν) (k : κ) : (m.erase k).mapVal f = (m.mapVal f).erase k := by
  apply ext; intro x; simp only [get?_mapVal, get?_erase]; split <;> rfl

theorem mapVal_empty (f : ν → μ) : (∅ : FMap κ ν).mapVal f = ∅ := by
  apply ext; intro x; simp

theorem contains_mapVal (f : ν → μ) (m : FMap κ ν) (k : κ) : (m.mapVal f).contains k = m.contains k := by
  simp only [contains, get?_mapVal]; cases m.get? k <;> rfl

end FMap

namespace CMap
variable {K V VOp A : Type} [LinOrd K] [LinOrd A]

/-- the Orswot of keys inside a Map -/
def keysView (m : CMap K V A) : Orswot K A := ⟨m.clock, m.entries.mapVal (·.clock), m.deferred⟩

@[simp] theorem keysView_clock (m : CMap K V A) : m.keysView.clock = m.clock := rfl
@[simp] theorem keysView_deferred (m : CMap K V A) : m.keysView.deferred = m.deferred := rfl

theorem rmKey_sim (ops : ValOps V VOp A) (c : VClock A) (e : FMap K (MapEntry V A)) (k : K) :
    (rmKey ops c e k).mapVal (·.clock) = Orswot.rmMember c (e.mapVal (·.clock)) k := by
  unfold rmKey Orswot.rmMember
  simp only [FMap.get?_mapVal]
  cases e.get? k with
  | none => rfl
  | some en =>
    simp only [Option.map_some]
    split
    · exact FMap.mapVal_erase _ _ _
    · exact FMap.mapVal_insert _ _ _ _

theorem foldl_rmKey_sim (ops : ValOps V VOp A) (c : VClock A) (l : List (K × Unit)) (e : FMap K (MapEntry V A)) :
    (l.foldl (fun e p => rmKey ops c e p.1) e).mapVal (·.clock) =
      l.foldl (fun e p => Orswot.rmMember c e p.1) (e.mapVal (·.clock)) := by
  induction l generalizing e with
  | nil => rfl
  | cons hd t ih => simp only [List.foldl_cons]; rw [ih, rmKey_sim]

/-- `Map` and `Orswot` test the same thing when neither clock stores a zero -/
theorem defers_sym {clock c : VClock A} (h1 : clock.NoZero) (h2 : c.NoZero) :
    (match clock.partialCmp c with | none | some .lt => true | _ => false) = Orswot.defers c clock := by
  have hd := Orswot.defers_iff h2 h1
  rcases VClock.partialCmp_cases clock c with ⟨h, e⟩ | ⟨h, ne, l⟩ | ⟨h, ne, n, l⟩ | ⟨h, ne, n, l⟩ <;> rw [h]
  · subst e
    have : Orswot.defers clock clock = false := by
      cases hx : Orswot.defers clock clock
      · rfl
      · exact absurd (VClock.le_refl clock) ((Orswot.defers_iff h1 h1).mp hx)
    simp [this]
  · have : Orswot.defers c clock = false := by
      cases hx : Orswot.defers c clock
      · rfl
      · exact absurd l (hd.mp hx)
    simp [this]
  · simp only; exact (hd.mpr n).symm
  · simp only; exact (hd.mpr n).symm

theorem applyKeysetRm_sim (ops : ValOps V VOp A) (s : CMap K V A) (ks : FSet K) (c : VClock A)
    (h1 : s.clock.NoZero) (h2 : c.NoZero) :
    (applyKeysetRm ops s ks c).keysView = Orswot.applyRm s.keysView ks c := by
  have hd := defers_sym h1 h2
  have hdef : (applyKeysetRm ops s ks c).deferred =
      if Orswot.defers c s.clock then Orswot.deferInsert s.deferred c ks else s.deferred := by
    rw [← hd]
    unfold applyKeysetRm
    simp only
    cases s.clock.partialCmp c with
    | none => rfl
    | some o => cases o <;> rfl
  have hdef' := Orswot.deferred_applyRm s.keysView ks c
  unfold keysView at *
  simp only at hdef'
  have he : (applyKeysetRm ops s ks c).entries.mapVal (·.clock) = (Orswot.applyRm ⟨s.clock, s.entries.mapVal (·.clock), s.deferred⟩ ks c).entries := by
    simp only [applyKeysetRm, Orswot.applyRm]
    exact foldl_rmKey_sim ops c ks.l s.entries
  have hc : (applyKeysetRm ops s ks c).clock = s.clock := rfl
  rw [hc, he, hdef, ← hdef']
  rfl

end CMap
end Crdt

namespace Crdt
open LinOrd
namespace CMap
variable {K V VOp A : Type} [LinOrd K] [LinOrd A]

theorem clock_applyKeysetRm (ops : ValOps V VOp A) (s : CMap K V A) (ks : FSet K) (c : VClock A) :
    (applyKeysetRm ops s ks c).clock = s.clock := rfl

theorem foldKeysetRm_sim (ops : ValOps V VOp A) (l : List (VClock A × FSet K)) (s : CMap K V A)
    (h1 : s.clock.NoZero) (h2 : ∀ p ∈ l, p.1.NoZero) :
    (l.foldl (fun acc p => applyKeysetRm ops acc p.2 p.1) s).keysView = Orswot.foldRm l s.keysView := by
  induction l generalizing s with
  | nil => rfl
  | cons hd t ih =>
    simp only [List.foldl_cons, Orswot.foldRm]
    rw [ih (applyKeysetRm ops s hd.2 hd.1) (by rw [clock_applyKeysetRm]; exact h1)
      (fun p hp => h2 p (List.mem_cons_of_mem _ hp))]
    rw [applyKeysetRm_sim ops s hd.2 hd.1 h1 (h2 hd (by simp))]
    rfl

theorem applyDeferred_sim (ops : ValOps V VOp A) (s : CMap K V A) (h1 : s.clock.NoZero)
    (h2 : ∀ p ∈ s.deferred.l, p.1.NoZero) :
    (applyDeferred ops s).keysView = Orswot.applyDeferred s.keysView := by
  unfold applyDeferred Orswot.applyDeferred
  exact foldKeysetRm_sim ops s.deferred.l { s with deferred := ∅ } h1 h2

/-- an update is, at key level, an add of that key -/
theorem apply_up_sim (ops : ValOps V VOp A) (s : CMap K V A) (d : Dot A) (k : K) (o : VOp)
    (h1 : s.clock.NoZero) (h2 : ∀ p ∈ s.deferred.l, p.1.NoZero) :
    (apply ops s (.up d k o)).keysView = Orswot.apply s.keysView (.add d [k]) := by
  simp only [apply, Orswot.apply, keysView_clock]
  by_cases hg : s.clock.get d.actor ≥ d.counter
  · simp only [hg, if_true]
  · simp only [hg, if_false]
    have := applyDeferred_sim ops
      ({ s with entries := s.entries.insert k ⟨((s.entries.get? k).getD ⟨∅, ops.default⟩).clock.apply d,
            ops.apply ((s.entries.get? k).getD ⟨∅, ops.default⟩).val o⟩, clock := s.clock.apply d } : CMap K V A)
      (VClock.noZero_apply h1 d) h2
    rw [this]
    congr 1
    simp only [keysView, List.foldl_cons, List.foldl_nil, FMap.mapVal_insert, FMap.get?_mapVal]
    cases s.entries.get? k <;> rfl

theorem apply_rm_sim (ops : ValOps V VOp A) (s : CMap K V A) (c : VClock A) (ks : List K)
    (h1 : s.clock.NoZero) (h2 : c.NoZero) :
    (apply ops s (.rm c ks)).keysView = Orswot.apply s.keysView (.rm c ks) :=
  applyKeysetRm_sim ops s _ c h1 h2

theorem apply_sim (ops : ValOps V VOp A) (s : CMap K V A) (op : MapOp K VOp A)
    (h1 : s.clock.NoZero) (h2 : ∀ p ∈ s.deferred.l, p.1.NoZero)
    (h3 : ∀ c ks, op = .rm c ks → c.NoZero) :
    (apply ops s op).keysView = Orswot.apply s.keysView (keyOp op) := by
  cases op with
  | rm c ks => exact apply_rm_sim ops s c ks h1 (h3 c ks rfl)
  | up d k o => exact apply_up_sim ops s d k o h1 h2

/-! ### merge -/

theorem mergeKeep_sim (ops : ValOps V VOp A) (s o : CMap K V A) :
    (mergeKeep ops s o).mapVal (·.clock) = Orswot.mergeKeep s.keysView o.keysView := by
  apply FMap.ext
  intro k
  simp only [mergeKeep, Orswot.mergeKeep, keysView, FMap.get?_mapVal, FMap.get?_filterMap, FMap.contains_mapVal]
  cases s.entries.get? k with
  | none => rfl
  | some en =>
    simp only [Option.bind_some, Option.map_some]
    by_cases h1 : o.entries.contains k = true
    · simp only [h1, if_true, Option.map_some]
    · simp only [h1, if_false, Bool.false_eq_true]
      by_cases h2 : o.clock.ge en.clock = true
      · simp only [h2, if_true, Option.map_none]
      · simp only [h2, if_false, Bool.false_eq_true, Option.map_some]

theorem mergeStep_sim (ops : ValOps V VOp A) (s o : CMap K V A) (e : FMap K (MapEntry V A)) (k : K) (en : MapEntry V A) :
    (mergeStep ops s o e k en).mapVal (·.clock) =
      Orswot.mergeStep s.keysView o.keysView (e.mapVal (·.clock)) k en.clock := by
  unfold mergeStep Orswot.mergeStep
  simp only [FMap.get?_mapVal, keysView_clock]
  cases e.get? k with
  | none =>
    simp only [Option.map_none]
    by_cases h : s.clock.ge en.clock = true
    · simp only [h, if_true]
    · simp only [h, if_false, Bool.false_eq_true]; exact FMap.mapVal_insert _ _ _ _
  | some ours =>
    simp only [Option.map_some]
    by_cases h : (((VClock.intersection en.clock ours.clock).merge (en.clock.cloneWithout s.clock)).merge
        (ours.clock.cloneWithout o.clock)).isEmpty = true
    · simp only [h, if_true]; exact FMap.mapVal_erase _ _ _
    · simp only [h, if_false, Bool.false_eq_true]; exact FMap.mapVal_insert _ _ _ _

theorem mergeLoop_sim (ops : ValOps V VOp A) (s o : CMap K V A) (l : List (K × MapEntry V A)) (e : FMap K (MapEntry V A)) :
    (l.foldl (fun e p => mergeStep ops s o e p.1 p.2) e).mapVal (·.clock) =
      (l.map (fun p => (p.1, p.2.clock))).foldl (fun e p => Orswot.mergeStep s.keysView o.keysView e p.1 p.2)
        (e.mapVal (·.clock)) := by
  induction l generalizing e with
  | nil => rfl
  | cons hd t ih => simp only [List.foldl_cons, List.map_cons]; rw [ih, mergeStep_sim]

/-- `Map::merge` is, at key level, `Orswot::merge` -/
theorem merge_sim (ops : ValOps V VOp A) (s o : CMap K V A) (h1 : s.clock.NoZero)
    (h2 : ∀ p ∈ s.deferred.l, p.1.NoZero) (h3 : ∀ p ∈ o.deferred.l, p.1.NoZero) :
    (merge ops s o).keysView = Orswot.merge s.keysView o.keysView := by
  unfold merge Orswot.merge
  simp only
  -- stage 1: the two entry loops
  have e1 : (⟨s.clock, o.entries.l.foldl (fun e p => mergeStep ops s o e p.1 p.2) (mergeKeep ops s o), s.deferred⟩ : CMap K V A).keysView
      = (⟨s.clock, o.keysView.entries.l.foldl (fun e p => Orswot.mergeStep s.keysView o.keysView e p.1 p.2)
            (Orswot.mergeKeep s.keysView o.keysView), s.deferred⟩ : Orswot K A) := by
    simp only [keysView]
    congr 1
    rw [mergeLoop_sim, mergeKeep_sim, FMap.mapVal_l]
    rfl
  -- stage 2: their deferred removes
  generalize hs1 : (⟨s.clock, o.entries.l.foldl (fun e p => mergeStep ops s o e p.1 p.2) (mergeKeep ops s o), s.deferred⟩ : CMap K V A) = s1 at e1
  have hc1 : s1.clock = s.clock := by rw [← hs1]
  have hd1 : s1.deferred = s.deferred := by rw [← hs1]
  have e2 := foldKeysetRm_sim ops o.deferred.l s1 (by rw [hc1]; exact h1) h3
  generalize hs2 : o.deferred.l.foldl (fun acc p => applyKeysetRm ops acc p.2 p.1) s1 = s2 at e2
  have hc2 : s2.clock = s.clock := by
    have := congrArg Orswot.clock e2
    simp only [keysView_clock, Orswot.clock_foldRm] at this
    rw [this, hc1]
  -- deferred contexts after stage 2 are still zero-free (they come from s or o)
  have hd2 : ∀ p ∈ s2.deferred.l, p.1.NoZero := by
    intro p hp
    have hg : s2.deferred.get? p.1 = some p.2 := AL.get?_of_mem s2.deferred.sorted hp
    have := congrArg Orswot.deferred e2
    simp only [keysView_deferred] at this
    rw [this, Orswot.foldRm] at hg
    have hgen := Orswot.deferred_foldRm_gen o.deferred.l o.deferred.sorted s1.keysView p.1
    rw [Orswot.foldRm] at hgen
    rw [hgen] at hg
    cases ho : AL.get? o.deferred.l p.1 with
    | some ms => exact h3 (p.1, ms) (AL.mem_of_get? ho)
    | none =>
      rw [ho] at hg
      simp only [keysView_deferred, hd1] at hg
      exact h2 (p.1, p.2) (AL.mem_of_get? hg)
  -- stage 3: merged clock, own deferred removes re-applied
  have e3 := applyDeferred_sim ops (⟨s2.clock.merge o.clock, s2.entries, s2.deferred⟩ : CMap K V A)
    (by show (s2.clock.merge o.clock).NoZero; rw [hc2]; exact VClock.noZero_merge h1 _) hd2
  rw [e3]
  congr 1
  show (⟨s2.clock.merge o.clock, s2.entries.mapVal (·.clock), s2.deferred⟩ : Orswot K A) = _
  have e2' : (⟨s2.clock, s2.entries.mapVal (·.clock), s2.deferred⟩ : Orswot K A) = Orswot.foldRm o.deferred.l s1.keysView := e2
  rw [e1] at e2'
  have hcl := congrArg Orswot.clock e2'
  have hen := congrArg Orswot.entries e2'
  have hdf := congrArg Orswot.deferred e2'
  simp only at hcl hen hdf
  simp only [Orswot.foldRm] at hcl hen hdf
  simp only [keysView_clock, keysView_deferred]
  rw [hcl, hen, hdf]

end CMap
end Crdt
