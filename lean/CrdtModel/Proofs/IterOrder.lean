import CrdtModel.Proofs.ResetRemoveOrswot
import CrdtModel.Proofs.ResetRemoveMap
set_option linter.unusedSectionVars false
set_option linter.unusedSimpArgs false
/-! Helper lemmas for `Props/IterOrder.lean`: the model's results do not depend on the ITERATION ORDER of the
hash containers (`HashMap`/`HashSet` in the Rust code, sorted association lists iterated in key order in the model).

* generic: a left fold whose steps pairwise commute is invariant under permutation (`foldl_perm_of_comm`);
* `alter`: every loop body of the model that touches one key of a table is an `alter` at that key, and two `alter`s
  commute when the keys differ or the two updates commute (`alter_comm`);
* the commutation lemmas for `Orswot` (`rmMember`, `applyRm`, `deferInsert`, `mergeStep`, the add-loop) and for `Map`
  (`rmKey`, `applyKeysetRm`), and the order-parametrised versions of the loops. -/
namespace Crdt
open LinOrd
namespace IterOrder

/-! ### generic fold lemmas -/
section Generic
variable {α β γ : Type}

/-- **a left fold whose steps pairwise commute is invariant under permutation of the list** (the steps only have to
commute for the elements of the list) -/
theorem foldl_perm_of_comm {f : β → α → β} {l₁ l₂ : List α} (p : l₁.Perm l₂)
    (comm : ∀ x ∈ l₁, ∀ y ∈ l₁, ∀ b, f (f b x) y = f (f b y) x) (b : β) :
    l₁.foldl f b = l₂.foldl f b := by
  induction p generalizing b with
  | nil => rfl
  | cons x _ ih =>
    simp only [List.foldl_cons]
    exact ih (fun x hx y hy => comm x (List.mem_cons_of_mem _ hx) y (List.mem_cons_of_mem _ hy)) _
  | swap x y l =>
    simp only [List.foldl_cons]
    rw [comm y (by simp) x (by simp)]
  | trans p₁ _ ih₁ ih₂ =>
    rw [ih₁ comm b]
    exact ih₂ (fun x hx y hy => comm x (p₁.mem_iff.mpr hx) y (p₁.mem_iff.mpr hy)) b

/-- the unrestricted form -/
theorem foldl_perm_of_comm' {f : β → α → β} {l₁ l₂ : List α} (p : l₁.Perm l₂)
    (comm : ∀ b x y, f (f b x) y = f (f b y) x) (b : β) : l₁.foldl f b = l₂.foldl f b :=
  foldl_perm_of_comm p (fun x _ y _ b => comm b x y) b

theorem foldl_congr_mem {f g : β → α → β} {l : List α} (h : ∀ x ∈ l, ∀ b, f b x = g b x) (b : β) :
    l.foldl f b = l.foldl g b := by
  induction l generalizing b with
  | nil => rfl
  | cons x t ih =>
    simp only [List.foldl_cons]
    rw [h x (by simp) b]
    exact ih (fun y hy => h y (List.mem_cons_of_mem _ hy)) _

theorem step_foldl_comm {f : β → α → β} {g : β → β} (h : ∀ b x, g (f b x) = f (g b) x) (l : List α) (b : β) :
    g (l.foldl f b) = l.foldl f (g b) := by
  induction l generalizing b with
  | nil => rfl
  | cons x t ih => simp only [List.foldl_cons]; rw [ih, h]

/-- two folds whose steps commute with each other commute -/
theorem foldl_foldl_comm {f : β → α → β} {g : β → γ → β} (h : ∀ b x y, g (f b x) y = f (g b y) x)
    (l₁ : List α) (l₂ : List γ) (b : β) :
    l₂.foldl g (l₁.foldl f b) = l₁.foldl f (l₂.foldl g b) := by
  induction l₂ generalizing b with
  | nil => rfl
  | cons y t ih =>
    simp only [List.foldl_cons]
    rw [step_foldl_comm (g := fun b => g b y) (fun b x => h b x y), ih]

end Generic

/-! ### sorted association lists: the keys of a permutation are distinct -/
section Keys
variable {κ ν : Type} [LinOrd κ]

theorem eq_of_mem_of_fst_eq {l : List (κ × ν)} (hs : AL.Sorted l) {p q : κ × ν} (hp : p ∈ l) (hq : q ∈ l)
    (h : p.1 = q.1) : p = q := by
  obtain ⟨k, v⟩ := p
  obtain ⟨k', v'⟩ := q
  simp only at h
  subst h
  have a := AL.get?_of_mem hs hp
  have b := AL.get?_of_mem hs hq
  rw [a] at b
  cases b; rfl

end Keys

/-! ### `alter`: update one key of a table -/
section Alter
variable {κ μ : Type} [LinOrd κ]

/-- replace the binding of `k` by `g (old binding)` -/
def alter (e : FMap κ μ) (k : κ) (g : Option μ → Option μ) : FMap κ μ :=
  match g (e.get? k) with
  | some v => e.insert k v
  | none => e.erase k

theorem get?_alter (e : FMap κ μ) (k : κ) (g : Option μ → Option μ) (x : κ) :
    (alter e k g).get? x = if x = k then g (e.get? k) else e.get? x := by
  unfold alter
  cases h : g (e.get? k) with
  | none => simp only [FMap.get?_erase]
  | some v => simp only [FMap.get?_insert]

/-- two updates commute when they are at different keys, or when the two update functions commute -/
theorem alter_comm (e : FMap κ μ) (k k' : κ) (g g' : Option μ → Option μ)
    (h : k ≠ k' ∨ ∀ o, g' (g o) = g (g' o)) :
    alter (alter e k g) k' g' = alter (alter e k' g') k g := by
  apply FMap.ext
  intro x
  simp only [get?_alter]
  by_cases e1 : k' = k
  · subst e1
    rcases h with h | h
    · exact absurd rfl h
    · by_cases e2 : x = k'
      · simp [e2, h]
      · simp [e2]
  · have e1' : k ≠ k' := fun e => e1 e.symm
    by_cases e2 : x = k
    · subst e2; simp [e1, e1']
    · by_cases e3 : x = k'
      · subst e3; simp [e1, e1']
      · simp [e2, e3, e1, e1']

/-- a loop whose body updates the key of the current pair, over a list with distinct keys (a permutation of a sorted
list), does not depend on the order -/
theorem foldl_alter_perm {ν : Type} {l l' : List (κ × ν)} (hs : AL.Sorted l') (p : l.Perm l')
    (G : κ → ν → Option μ → Option μ) (e : FMap κ μ) :
    l.foldl (fun e p => alter e p.1 (G p.1 p.2)) e = l'.foldl (fun e p => alter e p.1 (G p.1 p.2)) e := by
  refine foldl_perm_of_comm p ?_ e
  intro x hx y hy b
  by_cases h : x.1 = y.1
  · have := eq_of_mem_of_fst_eq hs (p.mem_iff.mp hx) (p.mem_iff.mp hy) h
    subst this; rfl
  · exact alter_comm b x.1 y.1 _ _ (Or.inl h)

theorem get?_foldl_alter {ν : Type} (G : κ → ν → Option μ → Option μ) (l : List (κ × ν)) (hs : AL.Sorted l)
    (e0 : FMap κ μ) (k : κ) :
    (l.foldl (fun e p => alter e p.1 (G p.1 p.2)) e0).get? k =
      match AL.get? l k with
      | some v => G k v (e0.get? k)
      | none => e0.get? k := by
  have h := AL.get?_foldl_local (fun e k v => alter e k (G k v))
    (fun e k v k' ne => by rw [get?_alter]; simp [ne])
    (fun e e' k v h => by rw [get?_alter, get?_alter]; simp [h]) l hs e0 k
  rw [h]
  cases AL.get? l k with
  | none => rfl
  | some v => simp [get?_alter]

/-- `iter.filter_map(f).collect::<HashMap>()` over a list of pairs: insert the kept pairs one by one -/
def collectO {ν : Type} (f : κ → ν → Option μ) (l : List (κ × ν)) : FMap κ μ :=
  l.foldl (fun acc p => match f p.1 p.2 with | some w => acc.insert p.1 w | none => acc) ∅

def collectG {ν : Type} (f : κ → ν → Option μ) (k : κ) (v : ν) (o : Option μ) : Option μ :=
  match f k v with
  | some w => some w
  | none => o

/-- **`filter_map(..).collect()` of a map is order-free** (this is why the model writes it as `FMap.filterMap`) -/
theorem collectO_eq {ν : Type} (f : κ → ν → Option μ) (m : FMap κ ν) {l : List (κ × ν)} (h : l.Perm m.l) :
    collectO f l = m.filterMap f := by
  have step : (fun (acc : FMap κ μ) (p : κ × ν) => match f p.1 p.2 with | some w => acc.insert p.1 w | none => acc) =
      (fun acc p => alter acc p.1 (collectG f p.1 p.2)) := by
    funext acc p
    apply FMap.ext
    intro x
    rw [get?_alter]
    unfold collectG
    cases hf : f p.1 p.2 with
    | some w => simp
    | none => by_cases e : x = p.1 <;> simp [e]
  unfold collectO
  rw [step, foldl_alter_perm m.sorted h (collectG f)]
  apply FMap.ext
  intro k
  rw [get?_foldl_alter (collectG f) _ m.sorted, FMap.get?_filterMap]
  show (match m.get? k with | some v => _ | none => _) = _
  cases m.get? k with
  | none => rfl
  | some v =>
    simp only [Option.bind_some, FMap.get?_empty, collectG]
    cases f k v <;> rfl

end Alter

/-! ### vector clocks: two subtractions commute (ALL clocks, stored zeros included) -/
section VC
variable {A : Type} [LinOrd A]

/-- the raw effect of `reset_remove` on one stored counter -/
def rrOpt (sv cv : Option Nat) : Option Nat :=
  match cv with
  | some n => if n ≥ sv.getD 0 then none else sv
  | none => sv

theorem get?_rr (s c : VClock A) (a : A) :
    (s.resetRemove c).dots.get? a = rrOpt (s.dots.get? a) (c.dots.get? a) := by
  rw [VClock.get?_resetRemove]; rfl

theorem rrOpt_comm (sv c1 c2 : Option Nat) : rrOpt (rrOpt sv c1) c2 = rrOpt (rrOpt sv c2) c1 := by
  cases sv <;> cases c1 <;> cases c2 <;> simp only [rrOpt, Option.getD_none, Option.getD_some, Nat.zero_le, ge_iff_le, if_true]
  all_goals (repeat' split) <;> first | rfl | (simp_all; done) | (simp_all; omega)

theorem resetRemove_comm_raw (s c1 c2 : VClock A) :
    (s.resetRemove c1).resetRemove c2 = (s.resetRemove c2).resetRemove c1 := by
  apply VClock.eq_of_dots_eq
  apply FMap.ext
  intro a
  simp only [get?_rr, rrOpt_comm]

end VC

/-! ### Orswot: the loop bodies are `alter`s -/
section OrswotSteps
open Orswot
variable {M A : Type} [LinOrd M] [LinOrd A]

theorem rrClock_comm (c1 c2 vc : VClock A) :
    (VClock.rrClock c1 vc).bind (VClock.rrClock c2) = (VClock.rrClock c2 vc).bind (VClock.rrClock c1) := by
  unfold VClock.rrClock
  by_cases h1 : (vc.resetRemove c1).isEmpty = true
  · have e : (vc.resetRemove c2).resetRemove c1 = ∅ := by
      rw [← resetRemove_comm_raw, VClock.eq_empty_of_isEmpty h1, VClock.empty_resetRemove]
    by_cases h2 : (vc.resetRemove c2).isEmpty = true
    · simp [h1, h2]
    · simp [h1, h2, e, VClock.isEmpty_empty]
  · by_cases h2 : (vc.resetRemove c2).isEmpty = true
    · have e : (vc.resetRemove c1).resetRemove c2 = ∅ := by
        rw [resetRemove_comm_raw, VClock.eq_empty_of_isEmpty h2, VClock.empty_resetRemove]
      simp [h1, h2, e, VClock.isEmpty_empty]
    · simp [h1, h2, resetRemove_comm_raw vc c1 c2]

/-- the update of one member's clock by a remove with context `c` -/
def rmG (c : VClock A) (o : Option (VClock A)) : Option (VClock A) := o.bind (VClock.rrClock c)

theorem rmG_comm (c1 c2 : VClock A) (o : Option (VClock A)) : rmG c2 (rmG c1 o) = rmG c1 (rmG c2 o) := by
  cases o with
  | none => rfl
  | some vc => exact rrClock_comm c1 c2 vc

theorem rmMember_eq_alter (c : VClock A) (e : FMap M (VClock A)) (m : M) :
    rmMember c e m = alter e m (rmG c) := by
  apply FMap.ext
  intro x
  rw [get?_alter]
  unfold rmMember rmG VClock.rrClock
  cases h : e.get? m with
  | none => by_cases e1 : x = m <;> simp [e1, h]
  | some mc =>
    simp only [Option.bind_some]
    by_cases h1 : (mc.resetRemove c).isEmpty = true
    · simp [h1]
    · simp [h1]

/-- **two member-level removes commute** (any members, any contexts) -/
theorem rmMember_comm (c1 c2 : VClock A) (e : FMap M (VClock A)) (m1 m2 : M) :
    rmMember c2 (rmMember c1 e m1) m2 = rmMember c1 (rmMember c2 e m2) m1 := by
  simp only [rmMember_eq_alter]
  exact alter_comm e m1 m2 _ _ (Or.inr (rmG_comm c1 c2))

/-- body of the add loop src/orswot.rs:73-76 -/
def addStep (dot : Dot A) (e : FMap M (VClock A)) (m : M) : FMap M (VClock A) :=
  e.insert m (VClock.apply ((e.get? m).getD ∅) dot)

theorem addStep_eq_alter (dot : Dot A) (e : FMap M (VClock A)) (m : M) :
    addStep dot e m = alter e m (fun o => some (VClock.apply (o.getD ∅) dot)) := rfl

theorem addStep_comm (dot : Dot A) (e : FMap M (VClock A)) (m1 m2 : M) :
    addStep dot (addStep dot e m1) m2 = addStep dot (addStep dot e m2) m1 := by
  simp only [addStep_eq_alter]
  exact alter_comm e m1 m2 _ _ (Or.inr (fun _ => rfl))

/-- the update of one member's clock by the second loop of `merge` -/
def mergeG (s o : Orswot M A) (c : VClock A) : Option (VClock A) → Option (VClock A)
  | some ours =>
    let common := ((VClock.intersection c ours).merge (c.cloneWithout s.clock)).merge (ours.cloneWithout o.clock)
    if common.isEmpty then none else some common
  | none => if s.clock.ge c then none else some (c.resetRemove s.clock)

theorem mergeStep_eq_alter (s o : Orswot M A) (e : FMap M (VClock A)) (m : M) (c : VClock A) :
    mergeStep s o e m c = alter e m (mergeG s o c) := by
  apply FMap.ext
  intro x
  rw [get?_alter]
  unfold mergeStep mergeG
  cases h : e.get? m with
  | none =>
    simp only
    by_cases h1 : s.clock.ge c = true
    · by_cases e1 : x = m <;> simp [e1, h, h1]
    · simp [h1]
  | some ours =>
    simp only
    split <;> simp

/-- `mergeStep`s for different members commute -/
theorem mergeStep_comm (s o : Orswot M A) (e : FMap M (VClock A)) {m1 m2 : M} (h : m1 ≠ m2) (c1 c2 : VClock A) :
    mergeStep s o (mergeStep s o e m1 c1) m2 c2 = mergeStep s o (mergeStep s o e m2 c2) m1 c1 := by
  simp only [mergeStep_eq_alter]
  exact alter_comm e m1 m2 _ _ (Or.inl h)

end OrswotSteps

/-! ### Orswot: `apply_rm` with the member set iterated in any order -/
section OrswotRm
open Orswot
variable {M A : Type} [LinOrd M] [LinOrd A]

/-- `set.extend(iter)`: insert the elements of a list, in list order -/
def extendL (a : FSet M) (l : List (M × Unit)) : FSet M := l.foldl (fun acc p => acc.insert p.1 ()) a

theorem unionSet_eq_extendL (a b : FSet M) : unionSet a b = extendL a b.l := rfl

theorem extendL_perm {l l' : List (M × Unit)} (p : l.Perm l') (a : FSet M) : extendL a l = extendL a l' := by
  refine foldl_perm_of_comm' p ?_ a
  intro b x y
  apply FMap.ext
  intro k
  simp only [FMap.get?_insert]
  by_cases e1 : k = x.1 <;> by_cases e2 : k = y.1 <;> simp [e1, e2]

/-- `HashSet::from_iter(vec)` does not depend on the order of the vector -/
theorem setOfList_perm {l l' : List M} (p : l.Perm l') : setOfList l = setOfList l' := by
  refine foldl_perm_of_comm' p ?_ ∅
  intro b x y
  apply FMap.ext
  intro k
  simp only [FMap.get?_insert]
  by_cases e1 : k = x <;> by_cases e2 : k = y <;> simp [e1, e2]

/-- the two iterations over the member set `members: HashSet<M>` inside `apply_rm`:
`loop` = `for member in members.iter()` (src/orswot.rs:276), `ext` = `existing_deferred.extend(members)` (:288) -/
structure RmOrd (M : Type) where
  loop : List (M × Unit)
  ext : List (M × Unit)

/-- both are enumerations of the member set -/
def RmOrd.Valid (r : RmOrd M) (ms : FSet M) : Prop := r.loop.Perm ms.l ∧ r.ext.Perm ms.l

/-- the iteration orders the model uses -/
def RmOrd.sorted (ms : FSet M) : RmOrd M := ⟨ms.l, ms.l⟩
theorem RmOrd.sorted_valid (ms : FSet M) : (RmOrd.sorted ms).Valid ms := ⟨List.Perm.refl _, List.Perm.refl _⟩

/-- `Orswot.applyRm` with the member set iterated in the orders `r` -/
def applyRmO (s : Orswot M A) (members : FSet M) (r : RmOrd M) (c : VClock A) : Orswot M A :=
  let entries := r.loop.foldl (fun e p => rmMember c e p.1) s.entries
  let deferred :=
    match c.partialCmp s.clock with
    | none | some .gt =>
      match s.deferred.get? c with
      | some ex => s.deferred.insert c (extendL ex r.ext)
      | none => s.deferred.insert c members
    | _ => s.deferred
  { s with entries := entries, deferred := deferred }

theorem rmLoop_perm (c : VClock A) {l l' : List (M × Unit)} (p : l.Perm l') (e : FMap M (VClock A)) :
    l.foldl (fun e p => rmMember c e p.1) e = l'.foldl (fun e p => rmMember c e p.1) e :=
  foldl_perm_of_comm' p (fun b x y => rmMember_comm c c b x.1 y.1) e

/-- **item 1**: `apply_rm` does not depend on the order in which the member set is iterated -/
theorem applyRmO_eq (s : Orswot M A) {members : FSet M} {r : RmOrd M} (h : r.Valid members) (c : VClock A) :
    applyRmO s members r c = applyRm s members c := by
  unfold applyRmO applyRm
  simp only [rmLoop_perm c h.1, unionSet_eq_extendL, extendL_perm h.2]
  cases c.partialCmp s.clock with
  | none => rfl
  | some o => cases o <;> rfl

theorem deferInsert_comm (d : FMap (VClock A) (FSet M)) (c1 c2 : VClock A) (ms1 ms2 : FSet M) :
    deferInsert (deferInsert d c1 ms1) c2 ms2 = deferInsert (deferInsert d c2 ms2) c1 ms1 := by
  apply deferred_ext
  · intro k
    simp only [dKey_deferInsert]
    constructor
    · rintro (h | h | h)
      · exact Or.inr (Or.inl h)
      · exact Or.inl h
      · exact Or.inr (Or.inr h)
    · rintro (h | h | h)
      · exact Or.inr (Or.inl h)
      · exact Or.inl h
      · exact Or.inr (Or.inr h)
  · intro k m
    simp only [dMem_deferInsert]
    constructor
    · rintro ((h | h) | h)
      · exact Or.inl (Or.inl h)
      · exact Or.inr h
      · exact Or.inl (Or.inr h)
    · rintro ((h | h) | h)
      · exact Or.inl (Or.inl h)
      · exact Or.inr h
      · exact Or.inl (Or.inr h)

theorem entries_applyRm (s : Orswot M A) (ms : FSet M) (c : VClock A) :
    (applyRm s ms c).entries = ms.l.foldl (fun e p => rmMember c e p.1) s.entries := rfl

/-- **item 2, key fact**: two `apply_rm` commute (all states, all contexts, all member sets) -/
theorem applyRm_comm (s : Orswot M A) (ms1 ms2 : FSet M) (c1 c2 : VClock A) :
    applyRm (applyRm s ms1 c1) ms2 c2 = applyRm (applyRm s ms2 c2) ms1 c1 := by
  apply Orswot.ext
  · rfl
  · simp only [entries_applyRm]
    exact foldl_foldl_comm (fun b x y => rmMember_comm c1 c2 b x.1 y.1) ms1.l ms2.l s.entries
  · simp only [deferred_applyRm, clock_applyRm]
    by_cases h1 : defers c1 s.clock = true <;> by_cases h2 : defers c2 s.clock = true <;>
      simp only [h1, h2, if_true, if_false, Bool.false_eq_true]
    exact deferInsert_comm _ _ _ _ _

/-- **item 2**: re-running a list of pending removes in any order gives the same state -/
theorem foldRm_perm {l l' : List (VClock A × FSet M)} (p : l.Perm l') (s : Orswot M A) : foldRm l s = foldRm l' s :=
  foldl_perm_of_comm' p (fun b x y => applyRm_comm b x.2 y.2 x.1 y.1) s

/-- an iteration schedule of a deferred table `HashMap<VClock, HashSet<M>>`: the pending removes in the order in which
the map yields them, each with the orders in which its member set is iterated -/
abbrev DSched (M A : Type) [LinOrd M] [LinOrd A] := List ((VClock A × FSet M) × RmOrd M)

/-- the schedule enumerates exactly the table, and every inner order enumerates the member set -/
def DSched.Valid (sch : DSched M A) (d : FMap (VClock A) (FSet M)) : Prop :=
  (sch.map (·.1)).Perm d.l ∧ ∀ p ∈ sch, p.2.Valid p.1.2

/-- the schedule the model uses (key order everywhere) -/
def DSched.sorted (d : FMap (VClock A) (FSet M)) : DSched M A := d.l.map (fun p => (p, RmOrd.sorted p.2))
theorem DSched.sorted_valid (d : FMap (VClock A) (FSet M)) : (DSched.sorted d).Valid d := by
  refine ⟨?_, ?_⟩
  · simp only [DSched.sorted, List.map_map]
    have : ((fun x : (VClock A × FSet M) × RmOrd M => x.1) ∘ fun p => (p, RmOrd.sorted p.2)) = id := rfl
    rw [this, List.map_id]
  · intro p hp
    simp only [DSched.sorted, List.mem_map] at hp
    obtain ⟨q, _, e⟩ := hp
    subst e
    exact RmOrd.sorted_valid _

/-- `for (clock, members) in table { self.apply_rm(members, clock) }` along a schedule -/
def foldRmO (sch : DSched M A) (s : Orswot M A) : Orswot M A :=
  sch.foldl (fun acc p => applyRmO acc p.1.2 p.2 p.1.1) s

theorem foldRmO_eq {sch : DSched M A} {d : FMap (VClock A) (FSet M)} (h : sch.Valid d) (s : Orswot M A) :
    foldRmO sch s = foldRm d.l s := by
  unfold foldRmO
  rw [foldl_congr_mem (g := fun acc p => applyRm acc p.1.2 p.1.1) (fun p hp b => applyRmO_eq b (h.2 p hp) p.1.1)]
  rw [← foldRm_perm h.1]
  unfold foldRm
  rw [List.foldl_map]

/-- `Orswot.applyDeferred` along a schedule of `s.deferred` -/
def applyDeferredO (s : Orswot M A) (sch : DSched M A) : Orswot M A := foldRmO sch { s with deferred := ∅ }

theorem applyDeferred_eq_foldRm (s : Orswot M A) : applyDeferred s = foldRm s.deferred.l { s with deferred := ∅ } := rfl

/-- **item 2**: `apply_deferred` does not depend on the iteration order of the table nor of the member sets -/
theorem applyDeferredO_eq (s : Orswot M A) {sch : DSched M A} (h : sch.Valid s.deferred) :
    applyDeferredO s sch = applyDeferred s := by
  rw [applyDeferred_eq_foldRm, applyDeferredO, foldRmO_eq h]

end OrswotRm

/-! ### Orswot: `apply`, `merge`, `reset_remove` with every hash container iterated in any order -/
section OrswotOps
open Orswot
variable {M A : Type} [LinOrd M] [LinOrd A]

/-- the iteration orders used by one call of `apply` -/
structure ApplyOrd (M A : Type) [LinOrd M] [LinOrd A] where
  /-- `Add`: the order of `for member in members` (src/orswot.rs:73) -/
  members : List M
  /-- `Rm`: the orders in which `apply_rm` iterates the collected `HashSet` -/
  rm : RmOrd M
  /-- `Add`: the schedule of `apply_deferred` -/
  deferred : DSched M A

def ApplyOrd.Valid (ord : ApplyOrd M A) (s : Orswot M A) : OrswotOp M A → Prop
  | .add _ ms => ord.members.Perm ms ∧ ord.deferred.Valid s.deferred
  | .rm _ ms => ord.rm.Valid (setOfList ms)

/-- `Orswot.apply` with the iteration orders `ord` -/
def applyO (s : Orswot M A) (ord : ApplyOrd M A) : OrswotOp M A → Orswot M A
  | .add dot _ =>
    if s.clock.get dot.actor ≥ dot.counter then s
    else
      let entries := ord.members.foldl (addStep dot) s.entries
      applyDeferredO { s with entries := entries, clock := s.clock.apply dot } ord.deferred
  | .rm c members => applyRmO s (setOfList members) ord.rm c

theorem addLoop_perm (dot : Dot A) {l l' : List M} (p : l.Perm l') (e : FMap M (VClock A)) :
    l.foldl (addStep dot) e = l'.foldl (addStep dot) e :=
  foldl_perm_of_comm' p (fun b x y => addStep_comm dot b x y) e

theorem applyO_eq (s : Orswot M A) {ord : ApplyOrd M A} (op : OrswotOp M A) (h : ord.Valid s op) :
    applyO s ord op = s.apply op := by
  cases op with
  | rm c ms => exact applyRmO_eq s h c
  | add dot ms =>
    unfold applyO Orswot.apply
    simp only
    split
    · rfl
    · rw [applyDeferredO_eq _ (by exact h.2), addLoop_perm dot h.1]
      rfl

/-- the iteration orders used by one call of `merge` -/
structure MergeOrd (M A : Type) [LinOrd M] [LinOrd A] where
  /-- first loop `self.entries.into_iter().filter_map(..).collect()` (src/orswot.rs:133-156) -/
  keep : List (M × VClock A)
  /-- second loop `for (entry, clock) in other.entries` (:158-188) -/
  entries : List (M × VClock A)
  /-- `for (rm_clock, members) in other.deferred` (:191-193) -/
  deferred : DSched M A
  /-- the final `apply_deferred` (:197) -/
  final : DSched M A

/-- the state of `merge` before the final `apply_deferred` (the model's `s2` with the merged clock) -/
def mergeMid (s o : Orswot M A) : Orswot M A :=
  let e2 := o.entries.l.foldl (fun e p => mergeStep s o e p.1 p.2) (mergeKeep s o)
  let s2 := foldRm o.deferred.l { s with entries := e2 }
  { s2 with clock := s2.clock.merge o.clock }

theorem merge_eq_mid (s o : Orswot M A) : s.merge o = applyDeferred (mergeMid s o) := rfl

def MergeOrd.Valid (ord : MergeOrd M A) (s o : Orswot M A) : Prop :=
  ord.keep.Perm s.entries.l ∧ ord.entries.Perm o.entries.l ∧ ord.deferred.Valid o.deferred ∧
    ord.final.Valid (mergeMid s o).deferred

/-- the `filter_map` closure of the first loop of `merge` -/
def keepF (o : Orswot M A) (m : M) (c : VClock A) : Option (VClock A) :=
  if o.entries.contains m then some c
  else if o.clock.ge c then none
  else some (c.resetRemove o.clock)

theorem mergeKeep_eq (s o : Orswot M A) : mergeKeep s o = s.entries.filterMap (keepF o) := rfl

/-- the order-parametrised `merge` before its final `apply_deferred` -/
def mergeMidO (s o : Orswot M A) (ord : MergeOrd M A) : Orswot M A :=
  let e1 := collectO (keepF o) ord.keep
  let e2 := ord.entries.foldl (fun e p => mergeStep s o e p.1 p.2) e1
  let s2 := foldRmO ord.deferred { s with entries := e2 }
  { s2 with clock := s2.clock.merge o.clock }

/-- `Orswot.merge` with the iteration orders `ord` -/
def mergeO (s o : Orswot M A) (ord : MergeOrd M A) : Orswot M A :=
  applyDeferredO (mergeMidO s o ord) ord.final

theorem mergeLoop_perm (s o : Orswot M A) {l : List (M × VClock A)} (p : l.Perm o.entries.l) (e : FMap M (VClock A)) :
    l.foldl (fun e p => mergeStep s o e p.1 p.2) e = o.entries.l.foldl (fun e p => mergeStep s o e p.1 p.2) e := by
  have step : (fun (e : FMap M (VClock A)) (p : M × VClock A) => mergeStep s o e p.1 p.2) =
      (fun e p => alter e p.1 ((fun _ c => mergeG s o c) p.1 p.2)) := by
    funext e p; exact mergeStep_eq_alter s o e p.1 p.2
  rw [step]
  exact foldl_alter_perm o.entries.sorted p (fun _ c => mergeG s o c) e

theorem mergeMidO_eq (s o : Orswot M A) {ord : MergeOrd M A} (h1 : ord.keep.Perm s.entries.l)
    (h2 : ord.entries.Perm o.entries.l) (h3 : ord.deferred.Valid o.deferred) : mergeMidO s o ord = mergeMid s o := by
  unfold mergeMidO mergeMid
  simp only [collectO_eq (keepF o) s.entries h1, mergeLoop_perm s o h2, foldRmO_eq h3, mergeKeep_eq]

theorem mergeO_eq (s o : Orswot M A) {ord : MergeOrd M A} (h : ord.Valid s o) : mergeO s o ord = s.merge o := by
  obtain ⟨h1, h2, h3, h4⟩ := h
  rw [merge_eq_mid, ← applyDeferredO_eq _ h4, mergeO, mergeMidO_eq s o h1 h2 h3]

/-- the iteration orders used by one call of `reset_remove` -/
structure RROrd (M A : Type) [LinOrd M] [LinOrd A] where
  /-- `self.entries.into_iter().filter_map(..).collect()` (src/orswot.rs:205-216) -/
  entries : List (M × VClock A)
  /-- `for (vclock, members) in self.deferred` with, per pending remove, the order of `.extend(members)` (:221-227) -/
  deferred : List ((VClock A × FSet M) × List (M × Unit))

def RROrd.Valid (ord : RROrd M A) (s : Orswot M A) : Prop :=
  ord.entries.Perm s.entries.l ∧ (ord.deferred.map (·.1)).Perm s.deferred.l ∧ ∀ p ∈ ord.deferred, p.2.Perm p.1.2.l

/-- `deferred.entry(k).or_default().extend(members)` with `members` iterated in the order `lx` -/
def deferExtendO (d : FMap (VClock A) (FSet M)) (k : VClock A) (lx : List (M × Unit)) : FMap (VClock A) (FSet M) :=
  d.insert k (extendL ((d.get? k).getD ∅) lx)

theorem extendL_empty (ms : FSet M) : extendL ∅ ms.l = ms := by
  rw [← unionSet_eq_extendL]
  apply fset_ext
  intro m
  rw [contains_unionSet]
  simp [FMap.contains]

theorem deferExtendO_eq (d : FMap (VClock A) (FSet M)) (k : VClock A) {ms : FSet M} {lx : List (M × Unit)}
    (h : lx.Perm ms.l) : deferExtendO d k lx = deferInsert d k ms := by
  unfold deferExtendO deferInsert
  rw [extendL_perm h]
  cases d.get? k with
  | none => simp only [Option.getD_none, extendL_empty]
  | some ex => rfl

/-- `Orswot.resetRemove` with the iteration orders `ord` -/
def resetRemoveO (s : Orswot M A) (ord : RROrd M A) (c : VClock A) : Orswot M A :=
  { clock := s.clock.resetRemove c
    entries := collectO (fun _ vc => VClock.rrClock c vc) ord.entries
    deferred := ord.deferred.foldl (fun acc p =>
      let k := p.1.1.resetRemove c
      if k.isEmpty then acc else deferExtendO acc k p.2) ∅ }

theorem entries_resetRemoveO (s : Orswot M A) (ord : RROrd M A) (c : VClock A) :
    (resetRemoveO s ord c).entries = collectO (fun _ vc => VClock.rrClock c vc) ord.entries := rfl
theorem deferred_resetRemoveO (s : Orswot M A) (ord : RROrd M A) (c : VClock A) :
    (resetRemoveO s ord c).deferred = ord.deferred.foldl (fun acc p =>
      let k := p.1.1.resetRemove c
      if k.isEmpty then acc else deferExtendO acc k p.2) ∅ := rfl

/-- **item 5, key fact**: the rebuild of the deferred table (`rrFold`) in any order -/
theorem rrFold_perm (c : VClock A) {l l' : List (VClock A × FSet M)} (p : l.Perm l') (acc : FMap (VClock A) (FSet M)) :
    rrFold c l acc = rrFold c l' acc := by
  refine foldl_perm_of_comm' p ?_ acc
  intro b x y
  by_cases h1 : (x.1.resetRemove c).isEmpty = true <;> by_cases h2 : (y.1.resetRemove c).isEmpty = true <;>
    simp only [h1, h2, if_true, if_false, Bool.false_eq_true]
  exact deferInsert_comm _ _ _ _ _

theorem resetRemoveO_eq (s : Orswot M A) {ord : RROrd M A} (h : ord.Valid s) (c : VClock A) :
    resetRemoveO s ord c = s.resetRemove c := by
  obtain ⟨h1, h2, h3⟩ := h
  apply Orswot.ext
  · rfl
  · rw [entries_resetRemoveO, collectO_eq _ s.entries h1, entries_resetRemove]
  · rw [deferred_resetRemoveO, deferred_resetRemove_eq, ← rrFold_perm c h2]
    unfold rrFold
    rw [List.foldl_map]
    apply foldl_congr_mem
    intro p hp b
    simp only
    split
    · rfl
    · exact deferExtendO_eq _ _ (h3 p hp)

end OrswotOps

/-! ### Map: only `deferred` is a `HashMap` (`entries` is a `BTreeMap`, key sets are `BTreeSet`s: ordered) -/
section MapOps
open CMap
variable {K V VOp A : Type} [LinOrd K] [LinOrd A]

/-- **hypothesis on the value type**: two `reset_remove`s of a value commute.  Needed because two pending removes naming
the same key apply the value's `reset_remove` with their two contexts, in iteration order (src/map.rs:411-424). -/
def RRComm (ops : ValOps V VOp A) : Prop :=
  ∀ v c1 c2, ops.resetRemove (ops.resetRemove v c1) c2 = ops.resetRemove (ops.resetRemove v c2) c1

theorem rrEntry_comm {ops : ValOps V VOp A} (H : RRComm ops) (c1 c2 : VClock A) (en : MapEntry V A) :
    (rrEntry ops c1 en).bind (rrEntry ops c2) = (rrEntry ops c2 en).bind (rrEntry ops c1) := by
  unfold rrEntry
  simp only
  by_cases h1 : (en.clock.resetRemove c1).isEmpty = true
  · have e : (en.clock.resetRemove c2).resetRemove c1 = ∅ := by
      rw [← resetRemove_comm_raw, VClock.eq_empty_of_isEmpty h1, VClock.empty_resetRemove]
    by_cases h2 : (en.clock.resetRemove c2).isEmpty = true
    · simp [h1, h2]
    · simp [h1, h2, e, VClock.isEmpty_empty]
  · by_cases h2 : (en.clock.resetRemove c2).isEmpty = true
    · have e : (en.clock.resetRemove c1).resetRemove c2 = ∅ := by
        rw [resetRemove_comm_raw, VClock.eq_empty_of_isEmpty h2, VClock.empty_resetRemove]
      simp [h1, h2, e, VClock.isEmpty_empty]
    · simp [h1, h2, resetRemove_comm_raw en.clock c1 c2, H en.val c1 c2]

/-- the update of one key's entry by a key remove with context `c` -/
def rmKG (ops : ValOps V VOp A) (c : VClock A) (o : Option (MapEntry V A)) : Option (MapEntry V A) :=
  o.bind (rrEntry ops c)

theorem rmKG_comm {ops : ValOps V VOp A} (H : RRComm ops) (c1 c2 : VClock A) (o : Option (MapEntry V A)) :
    rmKG ops c2 (rmKG ops c1 o) = rmKG ops c1 (rmKG ops c2 o) := by
  cases o with
  | none => rfl
  | some en => exact rrEntry_comm H c1 c2 en

theorem rmKey_eq_alter (ops : ValOps V VOp A) (c : VClock A) (e : FMap K (MapEntry V A)) (k : K) :
    rmKey ops c e k = alter e k (rmKG ops c) := by
  apply FMap.ext
  intro x
  rw [get?_alter]
  unfold rmKey rmKG rrEntry
  cases h : e.get? k with
  | none => by_cases e1 : x = k <;> simp [e1, h]
  | some en =>
    simp only [Option.bind_some]
    by_cases h1 : (en.clock.resetRemove c).isEmpty = true
    · simp [h1]
    · simp [h1]

theorem rmKey_comm {ops : ValOps V VOp A} (H : RRComm ops) (c1 c2 : VClock A) (e : FMap K (MapEntry V A)) (k1 k2 : K) :
    rmKey ops c2 (rmKey ops c1 e k1) k2 = rmKey ops c1 (rmKey ops c2 e k2) k1 := by
  simp only [rmKey_eq_alter]
  exact alter_comm e k1 k2 _ _ (Or.inr (rmKG_comm H c1 c2))

/-- does `apply_keyset_rm` keep the remove around? -/
def defersK (clock c : VClock A) : Bool :=
  match clock.partialCmp c with
  | none | some .lt => true
  | _ => false

theorem deferred_applyKeysetRm (ops : ValOps V VOp A) (s : CMap K V A) (ks : FSet K) (c : VClock A) :
    (applyKeysetRm ops s ks c).deferred = if defersK s.clock c then Orswot.deferInsert s.deferred c ks else s.deferred := by
  unfold applyKeysetRm defersK
  simp only
  cases s.clock.partialCmp c with
  | none => rfl
  | some o => cases o <;> rfl

theorem entries_applyKeysetRm (ops : ValOps V VOp A) (s : CMap K V A) (ks : FSet K) (c : VClock A) :
    (applyKeysetRm ops s ks c).entries = ks.l.foldl (fun e p => rmKey ops c e p.1) s.entries := rfl

theorem clock_applyKeysetRm (ops : ValOps V VOp A) (s : CMap K V A) (ks : FSet K) (c : VClock A) :
    (applyKeysetRm ops s ks c).clock = s.clock := rfl

/-- **item 6, key fact**: two `apply_keyset_rm` commute -/
theorem applyKeysetRm_comm {ops : ValOps V VOp A} (H : RRComm ops) (s : CMap K V A) (ks1 ks2 : FSet K) (c1 c2 : VClock A) :
    applyKeysetRm ops (applyKeysetRm ops s ks1 c1) ks2 c2 = applyKeysetRm ops (applyKeysetRm ops s ks2 c2) ks1 c1 := by
  apply CMap.ext
  · rfl
  · simp only [entries_applyKeysetRm]
    exact foldl_foldl_comm (fun b x y => rmKey_comm H c1 c2 b x.1 y.1) ks1.l ks2.l s.entries
  · simp only [deferred_applyKeysetRm, clock_applyKeysetRm]
    by_cases h1 : defersK s.clock c1 = true <;> by_cases h2 : defersK s.clock c2 = true <;>
      simp only [h1, h2, if_true, if_false, Bool.false_eq_true]
    exact deferInsert_comm _ _ _ _ _

/-- `for (clock, keys) in table { self.apply_keyset_rm(keys, clock) }` over a list of pending key removes -/
def foldKRm (ops : ValOps V VOp A) (l : List (VClock A × FSet K)) (s : CMap K V A) : CMap K V A :=
  l.foldl (fun acc p => applyKeysetRm ops acc p.2 p.1) s

theorem foldKRm_perm {ops : ValOps V VOp A} (H : RRComm ops) {l l' : List (VClock A × FSet K)} (p : l.Perm l')
    (s : CMap K V A) : foldKRm ops l s = foldKRm ops l' s :=
  foldl_perm_of_comm' p (fun b x y => applyKeysetRm_comm H b x.2 y.2 x.1 y.1) s

/-- `CMap.applyDeferred` with the `deferred` table enumerated as `ld` -/
def mapApplyDeferredO (ops : ValOps V VOp A) (s : CMap K V A) (ld : List (VClock A × FSet K)) : CMap K V A :=
  foldKRm ops ld { s with deferred := ∅ }

theorem mapApplyDeferredO_eq {ops : ValOps V VOp A} (H : RRComm ops) (s : CMap K V A) {ld : List (VClock A × FSet K)}
    (h : ld.Perm s.deferred.l) : mapApplyDeferredO ops s ld = applyDeferred ops s :=
  foldKRm_perm H h _

/-- `CMap.apply` with the `deferred` table enumerated as `ld` in `apply_deferred` -/
def mapApplyO (ops : ValOps V VOp A) (s : CMap K V A) (ld : List (VClock A × FSet K)) : MapOp K VOp A → CMap K V A
  | .rm c keyset => applyKeysetRm ops s (Orswot.setOfList keyset) c
  | .up dot key op =>
    if s.clock.get dot.actor ≥ dot.counter then s
    else
      let en : MapEntry V A := (s.entries.get? key).getD ⟨∅, ops.default⟩
      let en' : MapEntry V A := ⟨en.clock.apply dot, ops.apply en.val op⟩
      mapApplyDeferredO ops { s with entries := s.entries.insert key en', clock := s.clock.apply dot } ld

theorem mapApplyO_eq {ops : ValOps V VOp A} (H : RRComm ops) (s : CMap K V A) {ld : List (VClock A × FSet K)}
    (h : ld.Perm s.deferred.l) (op : MapOp K VOp A) : mapApplyO ops s ld op = CMap.apply ops s op := by
  cases op with
  | rm c ks => rfl
  | up dot key op =>
    unfold mapApplyO CMap.apply
    simp only
    split
    · rfl
    · exact mapApplyDeferredO_eq H _ h

/-- the state of `merge` before the final `apply_deferred` -/
def mapMergeMid (ops : ValOps V VOp A) (s o : CMap K V A) : CMap K V A :=
  let e2 := o.entries.l.foldl (fun e p => mergeStep ops s o e p.1 p.2) (mergeKeep ops s o)
  let s2 := foldKRm ops o.deferred.l { s with entries := e2 }
  { s2 with clock := s2.clock.merge o.clock }

theorem map_merge_eq_mid (ops : ValOps V VOp A) (s o : CMap K V A) :
    CMap.merge ops s o = applyDeferred ops (mapMergeMid ops s o) := rfl

/-- `CMap.merge` with `other.deferred` enumerated as `ld` and the final `apply_deferred` enumerating as `lf` -/
def mapMergeO (ops : ValOps V VOp A) (s o : CMap K V A) (ld lf : List (VClock A × FSet K)) : CMap K V A :=
  let e2 := o.entries.l.foldl (fun e p => mergeStep ops s o e p.1 p.2) (mergeKeep ops s o)
  let s2 := foldKRm ops ld { s with entries := e2 }
  mapApplyDeferredO ops { s2 with clock := s2.clock.merge o.clock } lf

theorem mapMergeO_eq {ops : ValOps V VOp A} (H : RRComm ops) (s o : CMap K V A) {ld lf : List (VClock A × FSet K)}
    (h1 : ld.Perm o.deferred.l) (h2 : lf.Perm (mapMergeMid ops s o).deferred.l) :
    mapMergeO ops s o ld lf = CMap.merge ops s o := by
  rw [map_merge_eq_mid, ← mapApplyDeferredO_eq H _ h2]
  unfold mapMergeO mapMergeMid
  simp only [foldKRm_perm H h1]

/-- `CMap.resetRemove` with the `deferred` table enumerated as `ld` -/
def mapResetRemoveO (ops : ValOps V VOp A) (s : CMap K V A) (ld : List (VClock A × FSet K)) (c : VClock A) : CMap K V A :=
  { entries := s.entries.filterMap (fun _ en =>
      let ec := en.clock.resetRemove c
      if ec.isEmpty then none else some ⟨ec, ops.resetRemove en.val c⟩)
    deferred := ld.foldl (fun acc p =>
      let k := p.1.resetRemove c
      if k.isEmpty then acc else Orswot.deferInsert acc k p.2) ∅
    clock := s.clock.resetRemove c }

/-- (no hypothesis on the value type: the values are not touched by the rebuild of `deferred`) -/
theorem mapResetRemoveO_eq (ops : ValOps V VOp A) (s : CMap K V A) {ld : List (VClock A × FSet K)}
    (h : ld.Perm s.deferred.l) (c : VClock A) : mapResetRemoveO ops s ld c = CMap.resetRemove ops s c := by
  apply CMap.ext
  · rfl
  · rfl
  · exact rrFold_perm c h ∅

end MapOps

/-! ### `RRComm` holds for the value types the Map is instantiated with – for ALL value states -/
section RRCommInst
variable {K V VOp A : Type} [LinOrd K] [LinOrd A]

theorem mvreg_rrStep_comm {ν : Type} (c1 c2 : VClock A) (p : VClock A × ν) :
    (MVReg.rrStep c1 p).bind (MVReg.rrStep c2) = (MVReg.rrStep c2 p).bind (MVReg.rrStep c1) := by
  have key : ∀ c c' : VClock A, (MVReg.rrStep c p).bind (MVReg.rrStep c') =
      ((VClock.rrClock c p.1).bind (VClock.rrClock c')).map (fun k => (k, p.2)) := by
    intro c c'
    unfold MVReg.rrStep
    cases VClock.rrClock c p.1 with
    | none => rfl
    | some k => rfl
  rw [key, key, rrClock_comm]

/-- `MVReg::reset_remove` twice, in either order (all registers) -/
theorem mvreg_resetRemove_comm {ν : Type} (s : MVReg ν A) (c1 c2 : VClock A) :
    (s.resetRemove c1).resetRemove c2 = (s.resetRemove c2).resetRemove c1 := by
  apply MVReg.ext
  simp only [MVReg.resetRemove_vals, List.filterMap_filterMap]
  exact MVReg.filterMap_congr' _ (fun p _ => mvreg_rrStep_comm c1 c2 p)

theorem image_rr2 (P : VClock A → Prop) (c1 c2 k : VClock A) :
    (∃ d', (∃ d, P d ∧ d.resetRemove c1 = d' ∧ d'.isEmpty = false) ∧ d'.resetRemove c2 = k ∧ k.isEmpty = false) ↔
      (∃ d, P d ∧ (d.resetRemove c1).resetRemove c2 = k ∧ k.isEmpty = false) := by
  constructor
  · rintro ⟨d', ⟨d, hd, e1, _⟩, e2, hk⟩
    exact ⟨d, hd, by rw [e1, e2], hk⟩
  · rintro ⟨d, hd, e, hk⟩
    refine ⟨d.resetRemove c1, ⟨d, hd, rfl, ?_⟩, e, hk⟩
    cases he : (d.resetRemove c1).isEmpty with
    | false => rfl
    | true =>
      rw [VClock.eq_empty_of_isEmpty he, VClock.empty_resetRemove] at e
      rw [← e] at hk; cases hk

theorem image_rr2_comm (P : VClock A → Prop) (c1 c2 k : VClock A) :
    (∃ d', (∃ d, P d ∧ d.resetRemove c1 = d' ∧ d'.isEmpty = false) ∧ d'.resetRemove c2 = k ∧ k.isEmpty = false) ↔
    (∃ d', (∃ d, P d ∧ d.resetRemove c2 = d' ∧ d'.isEmpty = false) ∧ d'.resetRemove c1 = k ∧ k.isEmpty = false) := by
  rw [image_rr2, image_rr2]
  simp only [resetRemove_comm_raw _ c1 c2]

/-- `Orswot::reset_remove` twice, in either order (ALL states: no `StateWF` needed) -/
theorem orswot_resetRemove_comm {M : Type} [LinOrd M] (s : Orswot M A) (c1 c2 : VClock A) :
    (s.resetRemove c1).resetRemove c2 = (s.resetRemove c2).resetRemove c1 := by
  apply Orswot.ext
  · exact resetRemove_comm_raw s.clock c1 c2
  · apply FMap.ext
    intro m
    simp only [Orswot.entries_resetRemove, FMap.get?_filterMap]
    cases s.entries.get? m with
    | none => rfl
    | some vc => exact rrClock_comm c1 c2 vc
  · apply Orswot.deferred_ext
    · intro k
      simp only [Orswot.dKey_resetRemove]
      exact image_rr2_comm _ c1 c2 k
    · intro k m
      simp only [Orswot.dMem_resetRemove]
      exact image_rr2_comm _ c1 c2 k

theorem rrComm_mvreg {ν : Type} [DecidableEq ν] : RRComm (MVReg.valOps : ValOps (MVReg ν A) (MVOp ν A) A) :=
  fun v c1 c2 => mvreg_resetRemove_comm v c1 c2

theorem rrComm_orswot {M : Type} [LinOrd M] : RRComm (Orswot.valOps : ValOps (Orswot M A) (OrswotOp M A) A) :=
  fun v c1 c2 => orswot_resetRemove_comm v c1 c2

/-- `Map::reset_remove` twice, in either order, over a value type with `RRComm` -/
theorem map_resetRemove_comm {ops : ValOps V VOp A} (H : RRComm ops) (s : CMap K V A) (c1 c2 : VClock A) :
    CMap.resetRemove ops (CMap.resetRemove ops s c1) c2 = CMap.resetRemove ops (CMap.resetRemove ops s c2) c1 := by
  apply CMap.ext
  · exact resetRemove_comm_raw s.clock c1 c2
  · apply FMap.ext
    intro k
    simp only [CMap.get?_resetRemove]
    cases s.entries.get? k with
    | none => rfl
    | some en => exact rrEntry_comm H c1 c2 en
  · have h : ∀ a b, (CMap.resetRemove ops (CMap.resetRemove ops s a) b).deferred =
        ((s.keysView.resetRemove a).resetRemove b).deferred := by
      intro a b
      rw [← CMap.resetRemove_sim ops, ← CMap.resetRemove_sim ops]; rfl
    rw [h, h, orswot_resetRemove_comm]

/-- a `Map` over a value type with `RRComm` has `RRComm` again: every nesting depth -/
theorem rrComm_map {ops : ValOps V VOp A} (H : RRComm ops) (toNat : A → Nat) :
    RRComm (CMap.valOps (K := K) ops toNat) :=
  fun v c1 c2 => map_resetRemove_comm H v c1 c2

end RRCommInst

/-! ### `Orswot::validate_merge`: the VERDICT is order-free (the payload of the error is not) -/
section Validate
open Orswot
variable {M A : Type} [LinOrd M] [LinOrd A]

/-- the search of src/orswot.rs:114-130 over given enumerations of the two `entries` tables -/
def vmHit (ls lo : List (M × VClock A)) : Option (DoubleSpentDot M A) :=
  ls.findSome? (fun (m, c) =>
    lo.findSome? (fun (m', c') =>
      c.dots.l.findSome? (fun (a, n) =>
        if m' ≠ m ∧ c'.get a = n then some (DoubleSpentDot.mk ⟨a, n⟩ m m') else none)))

/-- `Orswot.validateMerge` with the two `HashMap`s enumerated as `ls`, `lo` -/
def validateMergeO (ls lo : List (M × VClock A)) : Except (DoubleSpentDot M A) Unit :=
  match vmHit ls lo with
  | some e => .error e
  | none => .ok ()

theorem validateMerge_eq (s o : Orswot M A) : s.validateMerge o = validateMergeO s.entries.l o.entries.l := rfl

theorem vmHit_none_perm {ls ls' lo lo' : List (M × VClock A)} (hs : ls.Perm ls') (ho : lo.Perm lo') :
    vmHit ls lo = none ↔ vmHit ls' lo' = none := by
  simp only [vmHit, List.findSome?_eq_none_iff, hs.mem_iff, ho.mem_iff]

theorem validateMergeO_ok_iff (ls lo : List (M × VClock A)) : validateMergeO ls lo = .ok () ↔ vmHit ls lo = none := by
  unfold validateMergeO
  cases vmHit ls lo with
  | none => simp
  | some e => simp

theorem validateMergeO_verdict {ls ls' lo lo' : List (M × VClock A)} (hs : ls.Perm ls') (ho : lo.Perm lo') :
    validateMergeO ls lo = .ok () ↔ validateMergeO ls' lo' = .ok () := by
  rw [validateMergeO_ok_iff, validateMergeO_ok_iff, vmHit_none_perm hs ho]

end Validate

end IterOrder
end Crdt
