import CrdtModel.Spec.SysMerkle
import CrdtModel.Props.C15
set_option linter.unusedSectionVars false
/-!
# The system invariant of `MerkleReg`

* `reach_mono`: `merkleSys.Reach` is monotone in the universe (there is no delivery discipline);
* `SysInv`, `sysInv_run`: every replica / saved state of every run is `Reach`-derivable over the log – NO hypothesis at all;
* `ChildrenFirst`: its consequences (closure, every node of the log visible in the log, well-foundedness of the child
  relation, existence of a maximal node) and `childrenFirst_run`: it holds for the log of every run whose log has no hash
  collision (`InjOn hash c.log` – the only assumption, needed because a replica finds the heads it lists through `hash`).
-/
namespace Crdt.SysMerkle
open Crdt LinOrd RepSys MerkleSpec Crdt.Sys
variable {H : Type} [LinOrd H] {τ A : Type} [LinOrd A] {hash : Node H τ → H}

/-! ## monotonicity of `Reach` in the universe -/

theorem reach_mono {U U' K : List (Node H τ)} {s : MerkleReg H τ} (sub : ∀ n, n ∈ U → n ∈ U')
    (h : (merkleSys hash).Reach U s K) : (merkleSys hash).Reach U' s K := by
  induction h with
  | init => exact Reach.init
  | apply _ hu _ ih => exact Reach.apply ih (sub _ hu) trivial
  | merge _ _ ih1 ih2 => exact Reach.merge ih1 ih2

/-! ## the log only grows -/

/-- a step either appends the node just written to the log or leaves the log alone -/
theorem step_log {c c' : Cfg H τ A} (st : Step hash c c') : (∃ i v, c'.log = c.written i v :: c.log) ∨ c'.log = c.log := by
  cases st with
  | write i v => exact Or.inl ⟨i, v, rfl⟩
  | deliver i nd hu => exact Or.inr rfl
  | merge i j => exact Or.inr rfl
  | snapshot i => exact Or.inr rfl
  | mergeSnap i n p hp => exact Or.inr rfl

theorem step_log_sub {c c' : Cfg H τ A} (st : Step hash c c') : ∀ n, n ∈ c.log → n ∈ c'.log := by
  intro n hn
  rcases step_log st with ⟨i, v, e⟩ | e
  · rw [e]; exact List.mem_cons_of_mem _ hn
  · rw [e]; exact hn

theorem steps_log_sub {c c' : Cfg H τ A} (st : Steps hash c c') : ∀ n, n ∈ c.log → n ∈ c'.log := by
  induction st with
  | refl => exact fun _ h => h
  | step _ s ih => exact fun n hn => step_log_sub s n (ih n hn)

/-- no collision later ⇒ no collision earlier -/
theorem injOn_of_step {c c' : Cfg H τ A} (st : Step hash c c') (inj : InjOn hash c'.log) : InjOn hash c.log :=
  inj.mono (step_log_sub st)

theorem injOn_of_steps {c c' : Cfg H τ A} (st : Steps hash c c') (inj : InjOn hash c'.log) : InjOn hash c.log :=
  inj.mono (steps_log_sub st)

/-! ## the invariant (hypothesis-free part): derivability -/

structure SysInv (hash : Node H τ → H) (c : Cfg H τ A) : Prop where
  /-- every replica state is derivable over the log with its knowledge … -/
  reach : ∀ i, (merkleSys hash).Reach c.log (c.rep i) (c.know i)
  /-- … and so is every saved state -/
  snaps : ∀ p ∈ c.snaps, (merkleSys hash).Reach c.log p.1 p.2

theorem sysInv_init : SysInv hash (Cfg.init : Cfg H τ A) where
  reach := fun _ => Reach.init
  snaps := fun _ h => by cases h

namespace SysInv
variable {c : Cfg H τ A}

theorem view (inv : SysInv hash c) {s : MerkleReg H τ} {K : List (Node H τ)} (v : c.View s K) :
    (merkleSys hash).Reach c.log s K := by
  cases v with
  | rep i => exact inv.reach i
  | snap hp => exact inv.snaps _ hp

end SysInv

theorem sysInv_gen {c : Cfg H τ A} (inv : SysInv hash c) (i : A) (nd : Node H τ) : SysInv hash (c.gen hash i nd) := by
  have sub : ∀ n, n ∈ c.log → n ∈ nd :: c.log := fun n hn => List.mem_cons_of_mem _ hn
  refine ⟨fun j => ?_, fun p hp => reach_mono sub (inv.snaps p hp)⟩
  show (merkleSys hash).Reach (nd :: c.log) (upd c.rep i _ j) (upd c.know i _ j)
  by_cases e : j = i
  · subst e
    rw [upd_same, upd_same]
    exact Reach.apply (R := merkleSys hash) (reach_mono sub (inv.reach j)) List.mem_cons_self trivial
  · rw [upd_other _ _ e, upd_other _ _ e]; exact reach_mono sub (inv.reach j)

theorem sysInv_deliver {c : Cfg H τ A} (inv : SysInv hash c) (i : A) {nd : Node H τ} (hu : nd ∈ c.log) :
    SysInv hash (c.deliver hash i nd) := by
  refine ⟨fun j => ?_, inv.snaps⟩
  show (merkleSys hash).Reach c.log (upd c.rep i _ j) (upd c.know i _ j)
  by_cases e : j = i
  · subst e; rw [upd_same, upd_same]; exact Reach.apply (R := merkleSys hash) (inv.reach j) hu trivial
  · rw [upd_other _ _ e, upd_other _ _ e]; exact inv.reach j

theorem sysInv_mergeIn {c : Cfg H τ A} (inv : SysInv hash c) (i : A) {s : MerkleReg H τ} {K : List (Node H τ)}
    (h : (merkleSys hash).Reach c.log s K) : SysInv hash (c.mergeIn hash i s K) := by
  refine ⟨fun j => ?_, inv.snaps⟩
  show (merkleSys hash).Reach c.log (upd c.rep i _ j) (upd c.know i _ j)
  by_cases e : j = i
  · subst e; rw [upd_same, upd_same]; exact Reach.merge (R := merkleSys hash) (inv.reach j) h
  · rw [upd_other _ _ e, upd_other _ _ e]; exact inv.reach j

theorem sysInv_snapshot {c : Cfg H τ A} (inv : SysInv hash c) (i : A) : SysInv hash (c.snapshot i) := by
  refine ⟨inv.reach, fun p hp => ?_⟩
  rcases List.mem_cons.mp hp with e | e
  · rw [e]; exact inv.reach i
  · exact inv.snaps p e

theorem sysInv_step {c c' : Cfg H τ A} (inv : SysInv hash c) (st : Step hash c c') : SysInv hash c' := by
  cases st with
  | write i v => exact sysInv_gen inv i _
  | deliver i nd hu => exact sysInv_deliver inv i hu
  | merge i j => exact sysInv_mergeIn inv i (inv.reach j)
  | snapshot i => exact sysInv_snapshot inv i
  | mergeSnap i n p hp => exact sysInv_mergeIn inv i (inv.snaps p (List.mem_of_getElem? hp))

theorem sysInv_steps {c c' : Cfg H τ A} (inv : SysInv hash c) (st : Steps hash c c') : SysInv hash c' := by
  induction st with
  | refl => exact inv
  | step _ s ih => exact sysInv_step ih s

/-- **every replica state and saved state of every run is `Reach`-derivable over the run's log** (no hypothesis) -/
theorem sysInv_run {c : Cfg H τ A} (r : Run hash c) : SysInv hash c := by
  induction r with
  | init => exact sysInv_init
  | step _ st ih => exact sysInv_step ih st

/-- whatever was derivable stays derivable after steps -/
theorem steps_reach_mono {c c' : Cfg H τ A} (st : Steps hash c c') {s : MerkleReg H τ} {K : List (Node H τ)}
    (h : (merkleSys hash).Reach c.log s K) : (merkleSys hash).Reach c'.log s K := reach_mono (steps_log_sub st) h

/-! ## `ChildrenFirst` and its consequences -/

namespace ChildrenFirst
variable {l : List (Node H τ)}

/-- closure: every child hash of a node of the log is the hash of a node of the log -/
theorem closed (cf : ChildrenFirst hash l) : ∀ n, n ∈ l → ∀ x, n.children.contains x = true → ∃ m, m ∈ l ∧ hash m = x := by
  induction cf with
  | nil => intro n hn; cases hn
  | cons _ hx ih =>
    intro n hn x hc
    rcases List.mem_cons.mp hn with e | hn
    · subst e
      obtain ⟨m, hm, e⟩ := hx x hc
      exact ⟨m, List.mem_cons_of_mem _ hm, e⟩
    · obtain ⟨m, hm, e⟩ := ih n hn x hc
      exact ⟨m, List.mem_cons_of_mem _ hm, e⟩

/-- every node of the log is visible to whoever has received the whole log -/
theorem all_visible (cf : ChildrenFirst hash l) : ∀ n, n ∈ l → Visible hash l n := by
  induction cf with
  | nil => intro n hn; cases hn
  | @cons x t _ hx ih =>
    have sub : ∀ n, n ∈ t → n ∈ x :: t := fun n hn => List.mem_cons_of_mem _ hn
    intro n hn
    rcases List.mem_cons.mp hn with e | hn
    · subst e
      refine MerkleSpec.visible_closed hash List.mem_cons_self (fun c hc => ?_)
      obtain ⟨m, hm, e⟩ := hx c hc
      exact ⟨m, (ih m hm).mono hash sub, e⟩
    · exact (ih n hn).mono hash sub

/-- in a collision-free log the children of a node of the tail are nodes of the tail -/
theorem child_tail {x : Node H τ} {t : List (Node H τ)} (cf : ChildrenFirst hash t) (inj : InjOn hash (x :: t))
    {m n : Node H τ} (hn : n ∈ t) (hm : m ∈ x :: t) (hc : n.children.contains (hash m) = true) : m ∈ t := by
  obtain ⟨m', hm', e⟩ := cf.closed n hn _ hc
  have : m' = m := inj m' (List.mem_cons_of_mem _ hm') m hm e
  rw [← this]; exact hm'

/-- … and so are the children of the head -/
theorem child_head {x : Node H τ} {t : List (Node H τ)}
    (hx : ∀ c, x.children.contains c = true → ∃ m, m ∈ t ∧ hash m = c) (inj : InjOn hash (x :: t))
    {m : Node H τ} (hm : m ∈ x :: t) (hc : x.children.contains (hash m) = true) : m ∈ t := by
  obtain ⟨m', hm', e⟩ := hx _ hc
  have : m' = m := inj m' (List.mem_cons_of_mem _ hm') m hm e
  rw [← this]; exact hm'

/-- **acyclicity**: in a collision-free log the child relation is well-founded (every node is accessible) -/
theorem acc (cf : ChildrenFirst hash l) (inj : InjOn hash l) : ∀ n, Acc (Child hash l) n := by
  induction cf with
  | nil => intro n; exact Acc.intro n (fun m hm => by cases hm.1)
  | @cons x t cf' hx ih =>
    have injt : InjOn hash t := inj.mono (fun n hn => List.mem_cons_of_mem _ hn)
    have step1 : ∀ n, n ∈ t → Acc (Child hash (x :: t)) n := by
      intro n hn
      have a := ih injt n
      induction a with
      | intro n _ ih2 =>
        refine Acc.intro n (fun m hm => ?_)
        have hmt : m ∈ t := child_tail cf' inj hn hm.1 hm.2.2
        exact ih2 m ⟨hmt, hn, hm.2.2⟩ hmt
    intro n
    by_cases hn : n ∈ t
    · exact step1 n hn
    · refine Acc.intro n (fun m hm => ?_)
      have e : n = x := by
        rcases List.mem_cons.mp hm.2.1 with e | e
        · exact e
        · exact absurd e hn
      subst e
      exact step1 m (child_head hx inj hm.1 hm.2.2)

theorem wf (cf : ChildrenFirst hash l) (inj : InjOn hash l) : WellFounded (Child hash l) := ⟨cf.acc inj⟩

/-- a non-empty part `S` of a collision-free log has a maximal node: one that no node of the part lists as a child -/
theorem exists_max (cf : ChildrenFirst hash l) (inj : InjOn hash l) (S : Node H τ → Prop) :
    (∃ n, n ∈ l ∧ S n) → ∃ m, m ∈ l ∧ S m ∧ ∀ p, p ∈ l → S p → p.children.contains (hash m) = false := by
  induction cf with
  | nil => rintro ⟨n, hn, _⟩; cases hn
  | @cons x t cf' hx ih =>
    have injt : InjOn hash t := inj.mono (fun n hn => List.mem_cons_of_mem _ hn)
    rintro ⟨n, hn, sn⟩
    by_cases h1 : S x ∧ x ∉ t
    · refine ⟨x, List.mem_cons_self, h1.1, fun p hp _ => ?_⟩
      cases hc : p.children.contains (hash x) with
      | false => rfl
      | true =>
        exfalso
        rcases List.mem_cons.mp hp with e | hp
        · subst e; exact h1.2 (child_head hx inj List.mem_cons_self hc)
        · exact h1.2 (child_tail cf' inj hp List.mem_cons_self hc)
    · have xt : S x → x ∈ t := fun sx => Classical.byContradiction (fun nx => h1 ⟨sx, nx⟩)
      have hnt : n ∈ t := by
        rcases List.mem_cons.mp hn with e | e
        · subst e; exact xt sn
        · exact e
      obtain ⟨m, hm, sm, mx⟩ := ih injt ⟨n, hnt, sn⟩
      refine ⟨m, List.mem_cons_of_mem _ hm, sm, fun p hp sp => ?_⟩
      rcases List.mem_cons.mp hp with e | hp
      · subst e; exact mx p (xt sp) sp
      · exact mx p hp sp

end ChildrenFirst

/-! ## what `write` lists -/

/-- the children `write(v, read().hashes())` lists are exactly the hashes of the heads of the writer's knowledge -/
theorem hashes_read_contains {U K : List (Node H τ)} {s : MerkleReg H τ} (wf : InjOn hash U)
    (h : (merkleSys hash).Reach U s K) (x : H) :
    (MerkleReg.hashes s.read).contains x = true ↔ ∃ m, hash m = x ∧ Head hash K m := by
  rw [FMap.contains_iff]
  simp only [MerkleReg.hashes, FMap.get?_filterMap]
  constructor
  · rintro ⟨u, hu⟩
    cases hr : s.read.get? x with
    | none => rw [hr] at hu; cases hu
    | some m => exact ⟨m, (C15.read_eq_heads wf h x m).mp hr⟩
  · rintro ⟨m, hm⟩
    exact ⟨(), by rw [(C15.read_eq_heads wf h x m).mpr hm]; rfl⟩

theorem written_children {c : Cfg H τ A} (inv : SysInv hash c) (inj : InjOn hash c.log) (i : A) (v : τ) (x : H) :
    (c.written i v).children.contains x = true ↔ ∃ m, hash m = x ∧ Head hash (c.know i) m :=
  hashes_read_contains inj (inv.reach i) x

/-- the children of a freshly written node are nodes of the log -/
theorem written_children_in_log {c : Cfg H τ A} (inv : SysInv hash c) (inj : InjOn hash c.log) (i : A) (v : τ) (x : H)
    (hc : (c.written i v).children.contains x = true) : ∃ m, m ∈ c.log ∧ hash m = x := by
  obtain ⟨m, e, hm⟩ := (written_children inv inj i v x).mp hc
  exact ⟨m, C15.known_subset inj (inv.reach i) m hm.1.1, e⟩

/-! ## the log of every run is `ChildrenFirst` -/

theorem childrenFirst_step {c c' : Cfg H τ A} (inv : SysInv hash c) (inj : InjOn hash c.log)
    (cf : ChildrenFirst hash c.log) (st : Step hash c c') : ChildrenFirst hash c'.log := by
  cases st with
  | write i v => exact ChildrenFirst.cons cf (written_children_in_log inv inj i v)
  | deliver i nd hu => exact cf
  | merge i j => exact cf
  | snapshot i => exact cf
  | mergeSnap i n p hp => exact cf

/-- **every node of every collision-free run was created after all its children** -/
theorem childrenFirst_run {c : Cfg H τ A} (r : Run hash c) (inj : InjOn hash c.log) : ChildrenFirst hash c.log := by
  induction r with
  | init => exact ChildrenFirst.nil
  | step r' st ih =>
    have inj' := injOn_of_step st inj
    exact childrenFirst_step (sysInv_run r') inj' (ih inj') st

/-! ## ancestors -/

theorem Anc.mem_log {l : List (Node H τ)} {m n : Node H τ} (a : Anc hash l m n) (hn : n ∈ l) : m ∈ l := by
  cases a with
  | refl => exact hn
  | step ch _ => exact ch.1

theorem Anc.trans {l : List (Node H τ)} {m k n : Node H τ} (a : Anc hash l m k) (b : Anc hash l k n) : Anc hash l m n := by
  induction a with
  | refl => exact b
  | step ch _ ih => exact Anc.step ch (ih b)

/-- a received node all of whose ancestors (in a `ChildrenFirst`, collision-free log) have been received is visible -/
theorem visible_of_ancestors {l K : List (Node H τ)} (cf : ChildrenFirst hash l) (inj : InjOn hash l) {n : Node H τ}
    (hl : n ∈ l) (hanc : ∀ m, Anc hash l m n → m ∈ K) : Visible hash K n := by
  have a := cf.acc inj n
  induction a with
  | intro n _ ih =>
    refine MerkleSpec.visible_closed hash (hanc n (Anc.refl n)) (fun x hc => ?_)
    obtain ⟨m, hm, e⟩ := cf.closed n hl x hc
    have ch : Child hash l m n := ⟨hm, hl, by rw [e]; exact hc⟩
    exact ⟨m, ih m ch hm (fun k ak => hanc k (ak.trans (Anc.step ch (Anc.refl n)))), e⟩

/-- conversely the ancestors of a visible node have all been received (and are visible) -/
theorem ancestors_of_visible {l K : List (Node H τ)} (inj : InjOn hash l) (sub : ∀ n, n ∈ K → n ∈ l) {m n : Node H τ}
    (a : Anc hash l m n) (v : Visible hash K n) : Visible hash K m := by
  induction a with
  | refl => exact v
  | @step m k n ch _ ih =>
    have vk := ih v
    obtain ⟨m', vm', e⟩ := (visH_iff hash).mp (vk.2 _ ch.2.2)
    have : m' = m := inj m' (sub m' vm'.1) m ch.1 e
    rw [← this]; exact vm'

end Crdt.SysMerkle
