import CrdtModel.Proofs.VClock
import CrdtModel.Proofs.Lattice
set_option linter.unusedSectionVars false
/-! Helper lemmas for C18: `reset_remove` on vector clocks (raw map level and pointwise), and the two
"composition shapes" (`c1` then `c2` = join; twice the same = once) packaged as `RRComp` so that the container
types (MVReg, Orswot) lift both with one proof. -/
namespace Crdt
open LinOrd
namespace VClock
variable {α : Type} [LinOrd α]

/-- raw effect of the `reset_remove` loop on the stored map (no assumption on either clock) -/
theorem get?_resetRemove_foldl (l : List (α × Nat)) (hs : AL.Sorted l) (c : VClock α) (a : α) :
    (l.foldl (fun acc p => if p.2 ≥ acc.get p.1 then (⟨acc.dots.erase p.1⟩ : VClock α) else acc) c).dots.get? a =
      match AL.get? l a with
      | some n => if n ≥ c.get a then none else c.dots.get? a
      | none => c.dots.get? a := by
  induction l generalizing c with
  | nil => simp [AL.get?]
  | cons hd t ih =>
    obtain ⟨k, v⟩ := hd
    have hs' := List.pairwise_cons.mp hs
    simp only [List.foldl_cons]
    rw [ih hs'.2]
    by_cases e : a = k
    · subst e
      have hn := AL.get?_eq_none_of_lb hs'.1 (Or.inl (rfl : a = a))
      simp only [AL.get?, if_true, hn]
      split
      · simp
      · rfl
    · have h1 : (if v ≥ c.get k then (⟨c.dots.erase k⟩ : VClock α) else c).dots.get? a = c.dots.get? a := by
        split
        · simp [e]
        · rfl
      have h2 : VClock.get (if v ≥ c.get k then (⟨c.dots.erase k⟩ : VClock α) else c) a = c.get a := by
        split
        · simp [get, e]
        · rfl
      simp only [AL.get?, e, if_false, h1, h2]

/-- **raw characterisation** (all clocks): an entry is dropped iff the argument stores a counter `≥` it -/
theorem get?_resetRemove (s c : VClock α) (a : α) :
    (s.resetRemove c).dots.get? a =
      match c.dots.get? a with
      | some n => if n ≥ s.get a then none else s.dots.get? a
      | none => s.dots.get? a :=
  get?_resetRemove_foldl c.dots.l c.dots.sorted s a

/-- under `NoZero`: the entry of `a` is kept (unchanged) iff it is strictly newer than `c`'s -/
theorem get?_resetRemove_of_noZero {s : VClock α} (hs : s.NoZero) (c : VClock α) (a : α) :
    (s.resetRemove c).dots.get? a = if s.get a > c.get a then s.dots.get? a else none := by
  rw [get?_resetRemove]
  cases hc : c.dots.get? a with
  | some n =>
    simp only [get_eq_of_get? hc]
    by_cases h : n ≥ s.get a
    · have : ¬ s.get a > n := by omega
      simp [h, this]
    · have : s.get a > n := by omega
      simp [h, this]
  | none =>
    simp only [get_eq_zero_of_none hc]
    by_cases h : s.get a > 0
    · simp [h]
    · simp only [h, if_false]
      cases hg : s.dots.get? a with
      | none => rfl
      | some m =>
        have : m = 0 := by simp [get, hg] at h; exact h
        subst this; exact absurd hg (hs a)

/-- the empty clock forgets nothing -/
theorem resetRemove_empty (s : VClock α) : s.resetRemove ∅ = s := rfl

theorem eq_of_dots_eq {a b : VClock α} (h : a.dots = b.dots) : a = b := by
  cases a; cases b; simp at h; subst h; rfl

/-- a clock's own value forgets everything (all clocks, stored zeros included) -/
theorem resetRemove_self (s : VClock α) : s.resetRemove s = ∅ := by
  apply eq_of_dots_eq
  apply FMap.ext
  intro a
  rw [get?_resetRemove]
  cases h : s.dots.get? a with
  | none => rfl
  | some n => simp [get_eq_of_get? h]; rfl

/-- anything dominated is forgotten entirely -/
theorem resetRemove_of_le {s c : VClock α} (hs : s.NoZero) (h : s.le c) : s.resetRemove c = ∅ := by
  apply ext_get (noZero_resetRemove hs c) noZero_empty
  intro a
  rw [get_resetRemove]
  have := h a
  simp only [get_empty]
  split <;> omega

theorem isEmpty_resetRemove_iff {s : VClock α} (hs : s.NoZero) (c : VClock α) :
    (s.resetRemove c).isEmpty = true ↔ s.le c := by
  rw [isEmpty_iff_get (noZero_resetRemove hs c)]
  constructor
  · intro h a
    have := h a
    rw [get_resetRemove] at this
    split at this <;> omega
  · intro h a
    rw [get_resetRemove]
    have := h a
    split <;> omega

theorem isEmpty_empty : (∅ : VClock α).isEmpty = true := rfl

theorem eq_empty_of_isEmpty {c : VClock α} (h : c.isEmpty = true) : c = ∅ := by
  apply eq_of_dots_eq
  apply FMap.ext
  intro a
  exact FMap.isEmpty_iff.mp h a

theorem resetRemove_eq_empty_iff {s : VClock α} (hs : s.NoZero) (c : VClock α) :
    s.resetRemove c = ∅ ↔ s.le c := by
  rw [← isEmpty_resetRemove_iff hs c]
  constructor
  · intro e; rw [e]; rfl
  · exact eq_empty_of_isEmpty

/-- forgetting from the empty clock leaves the empty clock -/
theorem empty_resetRemove (c : VClock α) : (∅ : VClock α).resetRemove c = ∅ :=
  resetRemove_of_le noZero_empty (fun a => by simp)

/-- "`c1` then `c2` behaves like `c3`" on every zero-free clock -/
def RRComp (c1 c2 c3 : VClock α) : Prop :=
  ∀ d : VClock α, d.NoZero → (d.resetRemove c1).resetRemove c2 = d.resetRemove c3

/-- `reset_remove(c1)` then `reset_remove(c2)` = `reset_remove(c1 ⊔ c2)` -/
theorem resetRemove_resetRemove {s : VClock α} (hs : s.NoZero) (c1 c2 : VClock α) :
    (s.resetRemove c1).resetRemove c2 = s.resetRemove (c1.merge c2) := by
  apply ext_get (noZero_resetRemove (noZero_resetRemove hs c1) c2) (noZero_resetRemove hs _)
  intro a
  simp only [get_resetRemove, get_merge]
  split <;> split <;> split <;> omega

theorem rrComp_merge (c1 c2 : VClock α) : RRComp c1 c2 (c1.merge c2) :=
  fun _ hd => resetRemove_resetRemove hd c1 c2

/-- repeating `reset_remove` with the same clock is a no-op (all clocks) -/
theorem resetRemove_idem (s c : VClock α) : (s.resetRemove c).resetRemove c = s.resetRemove c := by
  apply eq_of_dots_eq
  apply FMap.ext
  intro a
  rw [get?_resetRemove (s.resetRemove c) c a]
  cases hc : c.dots.get? a with
  | none => rfl
  | some n =>
    simp only
    have hg := get?_resetRemove s c a
    rw [hc] at hg
    simp only at hg
    by_cases h : n ≥ s.get a
    · simp only [h, if_true] at hg
      rw [hg]; simp
    · have : (s.resetRemove c).get a = s.get a := by
        rw [get_resetRemove, get_eq_of_get? hc]
        split <;> omega
      rw [this]; simp [h]

theorem rrComp_idem (c : VClock α) : RRComp c c c := fun d _ => resetRemove_idem d c

/-- only the counters of the argument matter (for a zero-free receiver) -/
theorem resetRemove_congr {s : VClock α} (hs : s.NoZero) {c c' : VClock α} (h : ∀ a, c.get a = c'.get a) :
    s.resetRemove c = s.resetRemove c' := by
  apply ext_get (noZero_resetRemove hs c) (noZero_resetRemove hs c')
  intro a
  rw [get_resetRemove, get_resetRemove, h a]

/-- order of two `reset_remove`s is irrelevant -/
theorem resetRemove_comm {s : VClock α} (hs : s.NoZero) (c1 c2 : VClock α) :
    (s.resetRemove c1).resetRemove c2 = (s.resetRemove c2).resetRemove c1 := by
  rw [resetRemove_resetRemove hs, resetRemove_resetRemove hs]
  exact resetRemove_congr hs (fun a => by rw [get_merge, get_merge]; omega)

/-- what remains is below what was there -/
theorem resetRemove_le (s c : VClock α) : (s.resetRemove c).le s := fun a => by
  rw [get_resetRemove]; split <;> omega

/-- list-level form: the stored entries are filtered, in order -/
theorem resetRemove_dots {s : VClock α} (hs : s.NoZero) (c : VClock α) :
    (s.resetRemove c).dots = s.dots.filterMap (fun a n => if n > c.get a then some n else none) := by
  apply FMap.ext
  intro a
  rw [get?_resetRemove_of_noZero hs, FMap.get?_filterMap]
  cases hg : s.dots.get? a with
  | none => simp
  | some n => simp [get_eq_of_get? hg]

end VClock

namespace AL
variable {κ : Type} [LinOrd κ]

theorem sumVals_filterMap_le (f : κ → Nat → Bool) (l : List (κ × Nat)) :
    sumVals (filterMap (fun a n => if f a n then some n else none) l) ≤ sumVals l := by
  induction l with
  | nil => simp [filterMap, sumVals]
  | cons hd t ih =>
    obtain ⟨k, v⟩ := hd
    simp only [filterMap]
    cases h : f k v
    · simp only [Bool.false_eq_true, if_false, sumVals]; omega
    · simp only [if_true, sumVals]; omega

theorem sumVals_filterMap (f : κ → Nat → Bool) (l : List (κ × Nat)) :
    sumVals (filterMap (fun a n => if f a n then some n else none) l) =
      ((l.filter (fun p => f p.1 p.2)).map (·.2)).sum := by
  induction l with
  | nil => simp [filterMap, sumVals]
  | cons hd t ih =>
    obtain ⟨k, v⟩ := hd
    simp only [filterMap]
    cases h : f k v
    · simp only [Bool.false_eq_true, if_false, List.filter_cons, h, ih]
    · simp only [if_true, sumVals, ih, List.filter_cons, h, List.map_cons, List.sum_cons]

end AL

namespace GCounter
variable {α : Type} [LinOrd α]

/-- `read` after `reset_remove(c)`: the sum of the running totals strictly above `c` -/
theorem read_resetRemove {s : GCounter α} (hs : s.inner.NoZero) (c : VClock α) :
    (s.resetRemove c).read = ((s.inner.dots.l.filter (fun p => decide (p.2 > c.get p.1))).map (·.2)).sum := by
  rw [read_eq]
  simp only [resetRemove]
  rw [VClock.resetRemove_dots hs]
  simp only [FMap.filterMap]
  have := AL.sumVals_filterMap (fun (a : α) (n : Nat) => decide (n > c.get a)) s.inner.dots.l
  simpa using this

end GCounter
end Crdt

namespace Crdt
open LinOrd
namespace VClock
variable {α : Type} [LinOrd α]

/-- the per-clock step shared by `MVReg::reset_remove` and `Orswot::reset_remove`:
subtract, and drop the holder if nothing is left -/
def rrClock (c vc : VClock α) : Option (VClock α) :=
  if (vc.resetRemove c).isEmpty then none else some (vc.resetRemove c)

theorem rrClock_comp {c1 c2 c3 : VClock α} (h : RRComp c1 c2 c3) {vc : VClock α} (hv : vc.NoZero) :
    (rrClock c1 vc).bind (rrClock c2) = rrClock c3 vc := by
  unfold rrClock
  by_cases h1 : (vc.resetRemove c1).isEmpty = true
  · have e1 : vc.resetRemove c1 = ∅ := eq_empty_of_isEmpty h1
    have e3 : vc.resetRemove c3 = ∅ := by rw [← h vc hv, e1, empty_resetRemove]
    simp [h1, e3, isEmpty_empty]
  · simp only [h1, Bool.false_eq_true, if_false, Option.bind_some, h vc hv]

theorem rrClock_empty {vc : VClock α} (hv : vc.isEmpty = false) : rrClock ∅ vc = some vc := by
  simp [rrClock, resetRemove_empty, hv]

theorem rrClock_eq_none_iff {vc : VClock α} (hv : vc.NoZero) (c : VClock α) : rrClock c vc = none ↔ vc.le c := by
  unfold rrClock
  rw [← isEmpty_resetRemove_iff hv c]
  by_cases h : (vc.resetRemove c).isEmpty = true <;> simp [h]

theorem rrClock_some {c vc k : VClock α} (h : rrClock c vc = some k) : k = vc.resetRemove c ∧ k.isEmpty = false := by
  unfold rrClock at h
  by_cases h1 : (vc.resetRemove c).isEmpty = true
  · simp [h1] at h
  · simp only [h1, Bool.false_eq_true, if_false, Option.some.injEq] at h
    subst h; exact ⟨rfl, by simpa using h1⟩

end VClock
end Crdt
