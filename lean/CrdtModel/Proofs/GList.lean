import CrdtModel.Model.GList
import CrdtModel.Proofs.Identifier
import CrdtModel.Proofs.SeqInsert
/-! Helper lemmas for C13 (GList part): where the identifier built by `insert_after` / `insert_before` lands. -/
namespace Crdt
open LinOrd Identifier

section values
variable {τ : Type} [LinOrd τ]

theorem valuesOf_cons_some {i : Identifier τ} {t : List (Identifier τ)} {vs : List τ}
    (h : valuesOf (i :: t) = some vs) : ∃ v vs', i.value = some v ∧ valuesOf t = some vs' ∧ vs = v :: vs' := by
  simp only [valuesOf] at h
  split at h
  · next v vs' hv ht => exact ⟨v, vs', hv, ht, (Option.some.inj h).symm⟩
  · cases h

/-- `read` does not panic only if no identifier is empty -/
theorem valuesOf_nonempty : ∀ {ks : List (Identifier τ)} {vs : List τ}, valuesOf ks = some vs → ∀ i ∈ ks, i.path ≠ []
  | [], _, _, _, hi => by simp at hi
  | a :: t, vs, h, i, hi => by
    obtain ⟨v, vs', hv, ht, _⟩ := valuesOf_cons_some h
    rcases List.mem_cons.mp hi with e | hi
    · subst e; exact value_isSome_iff.mp (by rw [hv]; rfl)
    · exact valuesOf_nonempty ht i hi

theorem valuesOf_length : ∀ {ks : List (Identifier τ)} {vs : List τ}, valuesOf ks = some vs → vs.length = ks.length
  | [], vs, h => by simp [valuesOf] at h; subst h; rfl
  | a :: t, vs, h => by
    obtain ⟨v, vs', _, ht, e⟩ := valuesOf_cons_some h
    subst e; simp [valuesOf_length ht]

/-- reading commutes with inserting an identifier at a position -/
theorem valuesOf_insertIdx {n : Identifier τ} {x : τ} (hn : n.value = some x) :
    ∀ {ks : List (Identifier τ)} {vs : List τ} (i : Nat), valuesOf ks = some vs →
      valuesOf (ks.insertIdx i n) = some (vs.insertIdx i x)
  | ks, vs, 0, h => by simp [List.insertIdx_zero, valuesOf, hn, h]
  | [], vs, i + 1, h => by
    simp [valuesOf] at h; subst h; simp [List.insertIdx_succ_nil, valuesOf]
  | a :: t, vs, i + 1, h => by
    obtain ⟨v, vs', hv, ht, e⟩ := valuesOf_cons_some h
    subst e
    simp [List.insertIdx_succ_cons, valuesOf, hv, valuesOf_insertIdx hn i ht]

end values

namespace GList
variable {τ : Type} [LinOrd τ]

theorem ids_sorted (g : GList τ) : g.ids.Pairwise (· < ·) := by
  unfold ids; rw [List.pairwise_map]; exact g.list.sorted

theorem len_eq (g : GList τ) : g.len = g.ids.length := by simp [len, ids, FMap.size]

theorem get_lt {g : GList τ} {k : Nat} (h : k < g.len) : ∃ p, g.ids[k]? = some p := by
  rw [len_eq] at h; exact ⟨_, List.getElem?_eq_getElem h⟩

/-- an identifier that fits between the neighbours of position `i` is inserted at position `i` (and is fresh) -/
theorem apply_insert_at (g : GList τ) (n : Identifier τ) (i : Nat) (hi : i ≤ g.ids.length)
    (hlo : ∀ j p, i = j + 1 → g.ids[j]? = some p → p < n) (hhi : ∀ p, g.ids[i]? = some p → n < p) :
    (g.apply (.insert n)).ids = g.ids.insertIdx i n := by
  have hl : g.ids.length = g.list.l.length := by simp [ids]
  have := (AL.insert_at (ν := Unit) g.list.sorted i n () (by omega)
    (fun j p e hp => hlo j p.1 e (by simp [ids, hp]))
    (fun p hp => hhi p.1 (by simp [ids, hp]))).1
  simp only [apply, ids, FMap.insert, this]
  exact map_insertIdx _ _ _ _

/-- `insert_after(Some(p))` for the member `p` at index `k`: the new identifier lands at index `k+1` -/
theorem insertAfter_at (g : GList τ) {k : Nat} {p : Identifier τ} (hk : g.ids[k]? = some p) (hp : p.path ≠ []) (x : τ) :
    (g.apply (g.insertAfter (some p) x)).ids = g.ids.insertIdx (k + 1) (g.insertAfter (some p) x).id ∧
    (g.insertAfter (some p) x).id.value = some x := by
  have hsucc : g.succ p = g.ids[k + 1]? := SortedKeys.find_succ g.ids_sorted k p hk
  have hklt : k < g.ids.length := (List.getElem?_eq_some_iff.mp hk).1
  simp only [insertAfter, Option.bind_some, GListOp.id]
  cases hq : g.succ p with
  | none =>
    have hn := Identifier.between_after hp x
    refine ⟨apply_insert_at g _ (k + 1) (by omega) ?_ ?_, between_value _ _ _ (by simp)⟩
    · intro j q e hj
      have : j = k := by omega
      subst this; rw [hk] at hj; cases hj; exact hn
    · intro q hq'; rw [← hsucc, hq] at hq'; cases hq'
  | some q =>
    have hpq : p < q := by
      have := List.find?_some (hq : g.ids.find? _ = some q); simpa using this
    have hn := Identifier.between_strict hpq x
    refine ⟨apply_insert_at g _ (k + 1) (by omega) ?_ ?_, between_value _ _ _ ?_⟩
    · intro j q' e hj
      have : j = k := by omega
      subst this; rw [hk] at hj; cases hj; exact hn.1
    · intro q' hq'; rw [← hsucc, hq] at hq'; cases hq'; exact hn.2
    · rintro a ⟨e1, e2⟩; cases e1; cases e2; exact lt_irrefl _ hpq

/-- `insert_before(Some(h))` for the member `h` at index `k`: the new identifier lands at index `k` -/
theorem insertBefore_at (g : GList τ) {k : Nat} {h : Identifier τ} (hk : g.ids[k]? = some h) (x : τ) :
    (g.apply (g.insertBefore (some h) x)).ids = g.ids.insertIdx k (g.insertBefore (some h) x).id ∧
    (g.insertBefore (some h) x).id.value = some x := by
  have hpred := SortedKeys.filter_pred g.ids_sorted k h hk
  have hklt : k < g.ids.length := (List.getElem?_eq_some_iff.mp hk).1
  simp only [insertBefore, Option.bind_some, GListOp.id]
  cases hq : g.pred h with
  | none =>
    have hn := Identifier.between_before h x
    refine ⟨apply_insert_at g _ k (by omega) ?_ ?_, between_value _ _ _ (by simp)⟩
    · intro j q e hj
      subst e
      have : g.pred h = g.ids[j]? := hpred
      rw [hq, hj] at this; cases this
    · intro q' hq'; rw [hk] at hq'; cases hq'; exact hn
  | some q =>
    have hqh : q < h := by
      have := List.mem_of_getLast? (hq : (g.ids.filter _).getLast? = some q)
      simpa using (List.mem_filter.mp this).2
    have hn := Identifier.between_strict hqh x
    refine ⟨apply_insert_at g _ k (by omega) ?_ ?_, between_value _ _ _ ?_⟩
    · intro j q' e hj
      subst e
      have : g.pred h = g.ids[j]? := hpred
      rw [hq, hj] at this; cases this; exact hn.1
    · intro q' hq'; rw [hk] at hq'; cases hq'; exact hn.2
    · rintro a ⟨e1, e2⟩; cases e1; cases e2; exact lt_irrefl _ hqh

/-- `insert(idx, x)` for `idx ≤ len`: an op is produced and its identifier lands at index `idx` -/
theorem insert_at (g : GList τ) (hne : ∀ i ∈ g.ids, i.path ≠ []) {idx : Nat} (h : idx ≤ g.len) (x : τ) :
    ∃ op, g.insert idx x = some op ∧ (g.apply op).ids = g.ids.insertIdx idx op.id ∧ op.id.value = some x := by
  simp only [insert, h, if_true]
  refine ⟨_, rfl, ?_⟩
  cases idx with
  | zero =>
    simp only
    cases h0 : g.get 0 with
    | none =>
      have hnil : g.ids = [] := by
        cases hids : g.ids with
        | nil => rfl
        | cons a t => simp [get, hids] at h0
      simp only [insertBefore, Option.bind_none, GListOp.id]
      refine ⟨apply_insert_at g _ 0 (by omega) (fun j p e _ => by omega) (fun p hp => by rw [hnil] at hp; simp at hp),
        between_value _ _ _ (by simp)⟩
    | some hd => exact insertBefore_at g h0 x
  | succ k =>
    obtain ⟨p, hp⟩ := get_lt (g := g) (k := k) (by omega)
    have hg : g.get k = some p := hp
    simp only [hg]
    have hmem : p ∈ g.ids := by
      obtain ⟨hlt, e⟩ := List.getElem?_eq_some_iff.mp hp
      rw [← e]; exact List.getElem_mem hlt
    exact insertAfter_at g hp (hne p hmem) x

/-- no stored identifier is the empty one -/
def IdsNonEmpty (g : GList τ) : Prop := ∀ i ∈ g.ids, i.path ≠ []

theorem idsNonEmpty_of_read {g : GList τ} {vs : List τ} (h : g.read = some vs) : g.IdsNonEmpty :=
  valuesOf_nonempty h

theorem idsNonEmpty_new : (new : GList τ).IdsNonEmpty := by
  intro i hi; simp [new, ids, EmptyCollection.emptyCollection, FMap.empty] at hi

theorem insertAfter_id_nonempty (g : GList τ) (low : Option (Identifier τ)) (x : τ) :
    (g.insertAfter low x).id.path ≠ [] := by
  simp only [insertAfter, GListOp.id]
  apply between_nonempty'
  rintro a ⟨e1, e2⟩
  subst e1
  have : a < a := by simpa using List.find?_some (e2 : g.ids.find? _ = some a)
  exact lt_irrefl _ this

theorem insertBefore_id_nonempty (g : GList τ) (high : Option (Identifier τ)) (x : τ) :
    (g.insertBefore high x).id.path ≠ [] := by
  simp only [insertBefore, GListOp.id]
  apply between_nonempty'
  rintro a ⟨e1, e2⟩
  subst e2
  have hm := List.mem_of_getLast? (e1 : (g.ids.filter _).getLast? = some a)
  have : a < a := by simpa using (List.mem_filter.mp hm).2
  exact lt_irrefl _ this

theorem insert_id_nonempty {g : GList τ} {idx : Nat} {x : τ} {op : GListOp τ} (h : g.insert idx x = some op) :
    op.id.path ≠ [] := by
  simp only [insert] at h
  split at h
  · simp only [Option.some.injEq] at h
    subst h
    split
    · exact insertAfter_id_nonempty _ _ _
    · exact insertBefore_id_nonempty _ _ _
  · cases h

theorem idsNonEmpty_apply {g : GList τ} (hg : g.IdsNonEmpty) {op : GListOp τ} (hop : op.id.path ≠ []) :
    (g.apply op).IdsNonEmpty := by
  cases op with | insert n =>
  intro i hi
  obtain ⟨p, hp, e⟩ := List.mem_map.mp hi
  rcases AL.mem_insert hp with e' | hp'
  · subst e'; subst e; exact hop
  · exact hg i (List.mem_map.mpr ⟨p, hp', e⟩)

theorem mem_foldl_insert {P : Identifier τ → Prop} : ∀ (l : List (Identifier τ × Unit)) (acc : FSet (Identifier τ)),
    (∀ p ∈ acc.l, P p.1) → (∀ p ∈ l, P p.1) → ∀ p ∈ (l.foldl (fun acc p => acc.insert p.1 ()) acc).l, P p.1
  | [], acc, ha, _ => ha
  | q :: t, acc, ha, hl => by
    refine mem_foldl_insert (P := P) t (acc.insert q.1 ()) ?_ ?_
    · intro p hp
      rcases AL.mem_insert hp with e | hp'
      · subst e; exact hl q (by simp)
      · exact ha p hp'
    · exact fun p hp => hl p (List.mem_cons_of_mem _ hp)

theorem idsNonEmpty_merge {g o : GList τ} (hg : g.IdsNonEmpty) (ho : o.IdsNonEmpty) : (g.merge o).IdsNonEmpty := by
  intro i hi
  obtain ⟨p, hp, e⟩ := List.mem_map.mp hi
  subst e
  exact mem_foldl_insert (P := fun i => i.path ≠ []) o.list.l g.list
    (fun p hp => hg p.1 (List.mem_map.mpr ⟨p, hp, rfl⟩)) (fun p hp => ho p.1 (List.mem_map.mpr ⟨p, hp, rfl⟩)) p hp

end GList
end Crdt
