import CrdtModel.Proofs.MapSim
import CrdtModel.Model.MapInst
import CrdtModel.Proofs.ResetRemoveOrswot
import CrdtModel.Proofs.ResetRemoveMVReg
set_option linter.unusedSectionVars false
/-! `Map::reset_remove` (src/map.rs:87-117): at key level it IS `Orswot::reset_remove` on the keys view (for every value
type); the value under a surviving key is the value type's own `reset_remove` of the old value.  The laws (`rr ∅ = id`,
composition, idempotence, preservation of well-formedness) follow for every value type whose own `reset_remove` is lawful
(`RRLawful`), and a `Map` over a lawful value type is again lawful – hence at every nesting depth. -/
namespace Crdt
open LinOrd

namespace CMap
variable {K V VOp A : Type} [LinOrd K] [LinOrd A]

/-- the entry step of `Map::reset_remove` (src/map.rs:92-103) -/
def rrEntry (ops : ValOps V VOp A) (c : VClock A) (en : MapEntry V A) : Option (MapEntry V A) :=
  let ec := en.clock.resetRemove c
  if ec.isEmpty then none else some ⟨ec, ops.resetRemove en.val c⟩

theorem entries_resetRemove (ops : ValOps V VOp A) (s : CMap K V A) (c : VClock A) :
    (resetRemove ops s c).entries = s.entries.filterMap (fun _ en => rrEntry ops c en) := rfl

@[simp] theorem clock_resetRemove (ops : ValOps V VOp A) (s : CMap K V A) (c : VClock A) :
    (resetRemove ops s c).clock = s.clock.resetRemove c := rfl

/-- **entry-wise characterisation**: a key survives iff its entry clock is not covered by `c`; the surviving entry holds
the subtracted clock and the value's own `reset_remove(c)` -/
theorem get?_resetRemove (ops : ValOps V VOp A) (s : CMap K V A) (c : VClock A) (k : K) :
    (resetRemove ops s c).entries.get? k = (s.entries.get? k).bind (rrEntry ops c) := by
  rw [entries_resetRemove, FMap.get?_filterMap]

theorem rrEntry_clock (ops : ValOps V VOp A) (c : VClock A) (en : MapEntry V A) :
    (rrEntry ops c en).map (·.clock) = VClock.rrClock c en.clock := by
  unfold rrEntry VClock.rrClock
  simp only
  split <;> rfl

/-- `Map::reset_remove` is, at key level, `Orswot::reset_remove` – for every value type -/
theorem resetRemove_sim (ops : ValOps V VOp A) (s : CMap K V A) (c : VClock A) :
    (resetRemove ops s c).keysView = Orswot.resetRemove s.keysView c := by
  apply Orswot.ext
  · rfl
  · apply FMap.ext
    intro k
    show ((resetRemove ops s c).entries.mapVal (·.clock)).get? k = _
    rw [Orswot.entries_resetRemove, FMap.get?_mapVal, get?_resetRemove, FMap.get?_filterMap]
    show _ = ((s.entries.mapVal (·.clock)).get? k).bind _
    rw [FMap.get?_mapVal]
    cases s.entries.get? k with
    | none => rfl
    | some en => exact rrEntry_clock ops c en
  · rfl

/-- what `Map` needs from the value type's `reset_remove`, on the value states satisfying `W` -/
structure RRLawful (ops : ValOps V VOp A) (W : V → Prop) : Prop where
  wf_rr : ∀ v c, W v → W (ops.resetRemove v c)
  comp : ∀ {c1 c2 c3 : VClock A}, VClock.RRComp c1 c2 c3 → ∀ v, W v →
    ops.resetRemove (ops.resetRemove v c1) c2 = ops.resetRemove v c3
  empty : ∀ v, W v → ops.resetRemove v ∅ = v

/-- structural invariant of a Map: the key level is a well-formed Orswot, every stored value satisfies `W` -/
structure MapWF (W : V → Prop) (s : CMap K V A) : Prop where
  keys : Orswot.StateWF s.keysView
  vals : ∀ k en, s.entries.get? k = some en → W en.val

theorem entry_clock_wf {W : V → Prop} {s : CMap K V A} (wf : MapWF W s) {k : K} {en : MapEntry V A}
    (h : s.entries.get? k = some en) : en.clock.NoZero ∧ en.clock.isEmpty = false := by
  have := wf.keys.ewf k en.clock (by show (s.entries.mapVal (·.clock)).get? k = _; rw [FMap.get?_mapVal, h]; rfl)
  exact this

theorem ext {a b : CMap K V A} (h1 : a.clock = b.clock) (h2 : a.entries = b.entries) (h3 : a.deferred = b.deferred) :
    a = b := by
  cases a; cases b; simp at h1 h2 h3; subst h1; subst h2; subst h3; rfl

theorem rrEntry_comp {ops : ValOps V VOp A} {W : V → Prop} (L : RRLawful ops W) {c1 c2 c3 : VClock A}
    (h : VClock.RRComp c1 c2 c3) {en : MapEntry V A} (hc : en.clock.NoZero) (hv : W en.val) :
    (rrEntry ops c1 en).bind (rrEntry ops c2) = rrEntry ops c3 en := by
  have hcl := VClock.rrClock_comp h hc
  unfold VClock.rrClock at hcl
  unfold rrEntry
  simp only at hcl ⊢
  by_cases e1 : (en.clock.resetRemove c1).isEmpty = true
  · simp only [e1, if_true, Option.bind_none] at hcl ⊢
    by_cases e3 : (en.clock.resetRemove c3).isEmpty = true
    · simp only [e3, if_true]
    · simp only [e3, if_false, Bool.false_eq_true] at hcl; cases hcl
  · simp only [e1, if_false, Bool.false_eq_true, Option.bind_some] at hcl ⊢
    rw [h en.clock hc] at hcl ⊢
    by_cases e3 : (en.clock.resetRemove c3).isEmpty = true
    · simp only [e3, if_true]
    · simp only [e3, if_false, Bool.false_eq_true, L.comp h en.val hv]

/-- composition shape lifted to whole maps -/
theorem resetRemove_comp {ops : ValOps V VOp A} {W : V → Prop} (L : RRLawful ops W) {c1 c2 c3 : VClock A}
    (h : VClock.RRComp c1 c2 c3) {s : CMap K V A} (wf : MapWF W s) :
    resetRemove ops (resetRemove ops s c1) c2 = resetRemove ops s c3 := by
  have hk := Orswot.resetRemove_comp h wf.keys
  rw [← resetRemove_sim ops s c1, ← resetRemove_sim ops _ c2, ← resetRemove_sim ops s c3] at hk
  apply ext
  · exact congrArg Orswot.clock hk
  · apply FMap.ext
    intro k
    rw [get?_resetRemove, get?_resetRemove, get?_resetRemove]
    cases hm : s.entries.get? k with
    | none => rfl
    | some en =>
      simp only [Option.bind_some]
      exact rrEntry_comp L h (entry_clock_wf wf hm).1 (wf.vals k en hm)
  · exact congrArg Orswot.deferred hk

theorem resetRemove_empty {ops : ValOps V VOp A} {W : V → Prop} (L : RRLawful ops W) {s : CMap K V A} (wf : MapWF W s) :
    resetRemove ops s ∅ = s := by
  have hk := Orswot.resetRemove_empty wf.keys
  rw [← resetRemove_sim ops s ∅] at hk
  apply ext
  · exact congrArg Orswot.clock hk
  · apply FMap.ext
    intro k
    rw [get?_resetRemove]
    cases hm : s.entries.get? k with
    | none => rfl
    | some en =>
      simp only [Option.bind_some, rrEntry]
      have hne := (entry_clock_wf wf hm).2
      rw [VClock.resetRemove_empty, hne, L.empty en.val (wf.vals k en hm)]
      rfl
  · exact congrArg Orswot.deferred hk

theorem mapWF_resetRemove {ops : ValOps V VOp A} {W : V → Prop} (L : RRLawful ops W) {s : CMap K V A} (wf : MapWF W s)
    (c : VClock A) : MapWF W (resetRemove ops s c) := by
  refine ⟨?_, ?_⟩
  · rw [resetRemove_sim]; exact Orswot.stateWF_resetRemove wf.keys c
  · intro k en' h
    rw [get?_resetRemove] at h
    cases hm : s.entries.get? k with
    | none => rw [hm] at h; cases h
    | some en =>
      rw [hm] at h
      simp only [Option.bind_some, rrEntry] at h
      split at h
      · cases h
      · cases h; exact L.wf_rr en.val c (wf.vals k en hm)

end CMap

namespace CMap
variable {K V VOp A : Type} [LinOrd K] [LinOrd A]

/-- a `Map` over a lawful value type is a lawful value type: the laws hold at every nesting depth -/
theorem rrLawful_map {ops : ValOps V VOp A} {W : V → Prop} (L : RRLawful ops W) (toNat : A → Nat) :
    RRLawful (CMap.valOps (K := K) ops toNat) (MapWF W) where
  wf_rr := fun _ c wf => mapWF_resetRemove L wf c
  comp := fun h _ wf => resetRemove_comp L h wf
  empty := fun _ wf => resetRemove_empty L wf

end CMap
end Crdt
