/-! `listMax f K`: the largest `f`-value over a finite list (0 for the empty list) – the basic
aggregate of the specifications ("largest counter learned from actor a", "largest remove context"). -/
namespace Crdt

def listMax {ω : Type} (f : ω → Nat) : List ω → Nat
  | [] => 0
  | x :: xs => max (f x) (listMax f xs)

@[simp] theorem listMax_nil {ω : Type} (f : ω → Nat) : listMax f [] = 0 := rfl
@[simp] theorem listMax_cons {ω : Type} (f : ω → Nat) (x : ω) (xs : List ω) :
    listMax f (x :: xs) = max (f x) (listMax f xs) := rfl

theorem le_listMax {ω : Type} (f : ω → Nat) {K : List ω} {x : ω} (h : x ∈ K) : f x ≤ listMax f K := by
  induction K with
  | nil => cases h
  | cons y ys ih =>
    simp only [listMax]
    rcases List.mem_cons.mp h with e | h
    · subst e; omega
    · have := ih h; omega

theorem listMax_attained {ω : Type} (f : ω → Nat) (K : List ω) (h : 0 < listMax f K) :
    ∃ x ∈ K, f x = listMax f K := by
  induction K with
  | nil => simp [listMax] at h
  | cons y ys ih =>
    simp only [listMax] at h ⊢
    by_cases c : f y ≥ listMax f ys
    · exact ⟨y, by simp, by omega⟩
    · have : 0 < listMax f ys := by omega
      obtain ⟨x, hx, e⟩ := ih this
      exact ⟨x, List.mem_cons_of_mem _ hx, by omega⟩

theorem listMax_le_of_forall {ω : Type} (f : ω → Nat) (K : List ω) (n : Nat) (h : ∀ x ∈ K, f x ≤ n) :
    listMax f K ≤ n := by
  induction K with
  | nil => simp
  | cons y ys ih =>
    simp only [listMax]
    have := h y (by simp)
    have := ih (fun x hx => h x (List.mem_cons_of_mem _ hx))
    omega

theorem listMax_append {ω : Type} (f : ω → Nat) (K K' : List ω) :
    listMax f (K ++ K') = max (listMax f K) (listMax f K') := by
  induction K with
  | nil => simp
  | cons y ys ih => simp only [List.cons_append, listMax, ih]; omega

theorem listMax_mono {ω : Type} (f : ω → Nat) {K K' : List ω} (h : ∀ x, x ∈ K → x ∈ K') :
    listMax f K ≤ listMax f K' :=
  listMax_le_of_forall f K _ (fun x hx => le_listMax f (h x hx))

/-- only membership matters -/
theorem listMax_congr {ω : Type} (f : ω → Nat) {K K' : List ω} (h : ∀ x, x ∈ K ↔ x ∈ K') :
    listMax f K = listMax f K' :=
  Nat.le_antisymm (listMax_mono f (fun x => (h x).mp)) (listMax_mono f (fun x => (h x).mpr))

theorem listMax_congr_fun {ω : Type} {f g : ω → Nat} (K : List ω) (h : ∀ x ∈ K, f x = g x) :
    listMax f K = listMax g K := by
  induction K with
  | nil => rfl
  | cons y ys ih =>
    simp only [listMax]
    rw [h y (by simp), ih (fun x hx => h x (List.mem_cons_of_mem _ hx))]

theorem listMax_eq_zero {ω : Type} (f : ω → Nat) (K : List ω) : listMax f K = 0 ↔ ∀ x ∈ K, f x = 0 := by
  constructor
  · intro h x hx; have := le_listMax f hx; omega
  · intro h; have := listMax_le_of_forall f K 0 (fun x hx => by rw [h x hx]; exact Nat.le_refl 0); omega

end Crdt
