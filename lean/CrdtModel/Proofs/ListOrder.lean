import CrdtModel.Proofs.List
set_option linter.unusedSectionVars false
/-! Helper lemmas for C12: positions in a strictly sorted key list are determined by the key order. -/
namespace Crdt
open LinOrd

/-- in a strictly increasing list, positions compare like the elements found there -/
theorem sorted_idx_lt_iff {κ : Type} [LinOrd κ] {ks : List κ} (hs : ks.Pairwise (· < ·)) {i j : Nat} {a b : κ}
    (hi : ks[i]? = some a) (hj : ks[j]? = some b) : i < j ↔ a < b := by
  obtain ⟨h1, e1⟩ := List.getElem?_eq_some_iff.mp hi
  obtain ⟨h2, e2⟩ := List.getElem?_eq_some_iff.mp hj
  have pw := List.pairwise_iff_getElem.mp hs
  constructor
  · intro h; rw [← e1, ← e2]; exact pw i j h1 h2 h
  · intro h
    rcases Nat.lt_trichotomy i j with l | l | l
    · exact l
    · subst l; rw [e1] at e2; subst e2; exact absurd h (lt_irrefl _)
    · have := pw j i h2 h1 l; rw [e1, e2] at this; exact absurd h (lt_asymm this)

/-- a strictly increasing list has no repeated element: an element sits at one position only -/
theorem sorted_idx_unique {κ : Type} [LinOrd κ] {ks : List κ} (hs : ks.Pairwise (· < ·)) {i j : Nat} {a : κ}
    (hi : ks[i]? = some a) (hj : ks[j]? = some a) : i = j := by
  rcases Nat.lt_trichotomy i j with l | l | l
  · exact absurd ((sorted_idx_lt_iff hs hi hj).mp l) (lt_irrefl _)
  · exact l
  · exact absurd ((sorted_idx_lt_iff hs hj hi).mp l) (lt_irrefl _)

theorem sorted_nodup {κ : Type} [LinOrd κ] {ks : List κ} (hs : ks.Pairwise (· < ·)) : ks.Nodup :=
  List.nodup_iff_pairwise_ne.mpr (hs.imp (fun h => ne_of_lt h))

/-- a strictly sorted association list is determined by its set of entries -/
theorem AL.ext_of_mem {κ ν : Type} [LinOrd κ] {l₁ l₂ : List (κ × ν)} (h₁ : AL.Sorted l₁) (h₂ : AL.Sorted l₂)
    (h : ∀ p, p ∈ l₁ ↔ p ∈ l₂) : l₁ = l₂ := by
  apply AL.ext h₁ h₂
  intro x
  cases e1 : AL.get? l₁ x with
  | none =>
    cases e2 : AL.get? l₂ x with
    | none => rfl
    | some v =>
      have := AL.get?_of_mem h₁ ((h (x, v)).mpr (AL.mem_of_get? e2))
      rw [e1] at this; cases this
  | some v => exact (AL.get?_of_mem h₂ ((h (x, v)).mp (AL.mem_of_get? e1))).symm

namespace ListCrdt
variable {τ α : Type} [LinOrd α]

/-- `position_entry` (src/list.rs:212-216) returns the index at which the identifier is stored -/
theorem positionEntry_eq_some_iff (s : ListCrdt τ α) (id : Identifier (OrdDot α)) (i : Nat) :
    s.positionEntry id = some i ↔ s.keys[i]? = some id := by
  simp only [positionEntry]
  constructor
  · intro h
    split at h
    · next hlt =>
      cases h
      have := List.findIdx_getElem (p := fun x => decide (x = id)) (xs := s.keys) (w := hlt)
      exact List.getElem?_eq_some_iff.mpr ⟨hlt, by simpa using this⟩
    · cases h
  · intro h
    obtain ⟨hi, e⟩ := List.getElem?_eq_some_iff.mp h
    have hlt : List.findIdx (fun x => decide (x = id)) s.keys < s.keys.length :=
      List.findIdx_lt_length_of_exists ⟨id, by rw [← e]; exact List.getElem_mem hi, by simp⟩
    have hf := List.findIdx_getElem (p := fun x => decide (x = id)) (xs := s.keys) (w := hlt)
    have hf' : s.keys[List.findIdx (fun x => decide (x = id)) s.keys]? = some id :=
      List.getElem?_eq_some_iff.mpr ⟨hlt, by simpa using hf⟩
    have := sorted_idx_unique s.keys_sorted hf' h
    simp only [this, hi, if_true]

theorem mem_keys_iff (s : ListCrdt τ α) (id : Identifier (OrdDot α)) : id ∈ s.keys ↔ ∃ v, s.seq.get? id = some v := by
  simp only [keys, List.mem_map]
  constructor
  · rintro ⟨p, hp, e⟩
    exact ⟨p.2, by rw [← e]; exact AL.get?_of_mem s.seq.sorted hp⟩
  · rintro ⟨v, hv⟩
    exact ⟨(id, v), AL.mem_of_get? hv, rfl⟩

theorem mem_entries_iff (s : ListCrdt τ α) (id : Identifier (OrdDot α)) (v : τ) :
    (id, v) ∈ s.iterEntries ↔ s.seq.get? id = some v :=
  ⟨fun h => AL.get?_of_mem s.seq.sorted h, fun h => AL.mem_of_get? h⟩

theorem entries_nodup (s : ListCrdt τ α) : s.iterEntries.Nodup := by
  have : s.iterEntries.Pairwise (fun p q => p.1 < q.1) := s.seq.sorted
  exact List.nodup_iff_pairwise_ne.mpr (this.imp (fun {a b} h (e : a = b) => ne_of_lt h (by rw [e])))

end ListCrdt
end Crdt
