import CrdtModel.Model.Identifier
/-! Helper lemmas for C14: density of `Identifier::between` (induction along the common prefix). -/
namespace Crdt
open LinOrd
namespace Identifier
variable {τ : Type} [LinOrd τ]

theorem rat_pred_lt (r : Rat) : r - 1 < r := by grind
theorem rat_lt_succ (r : Rat) : r < r + 1 := by grind
theorem rat_lt_mid {a b : Rat} (h : a < b) : a < (a + b) / 2 := by grind
theorem rat_mid_lt {a b : Rat} (h : a < b) : (a + b) / 2 < b := by grind

/-- once the low path has been cleared, whatever the loop appends is below the rest of the high path -/
theorem cleared_lt (m : τ) (hs : List (Rat × τ)) : cmpPath (betweenLoop m [] hs) hs = .lt := by
  cases hs with
  | nil => simp [betweenLoop, cmpPath]
  | cons h t =>
    obtain ⟨hr, hm⟩ := h
    simp only [betweenLoop, rationalBetween]
    exact cmpPath_cons_lt.mpr (Or.inl (Or.inl (rat_pred_lt hr)))

/-- from `(lr,lm)::ls < (hr,hm)::hs`: the rationals are ordered, or equal and … -/
theorem head_cases {lr hr : Rat} {lm hm : τ} {ls hs : List (Rat × τ)}
    (h : cmpPath ((lr, lm) :: ls) ((hr, hm) :: hs) = .lt) :
    lr < hr ∨ (lr = hr ∧ lm < hm) ∨ (lr = hr ∧ lm = hm ∧ cmpPath ls hs = .lt) := by
  rcases cmpPath_cons_lt.mp h with (h1 | ⟨e, h1⟩) | ⟨e, h1⟩
  · exact Or.inl h1
  · exact Or.inr (Or.inl ⟨e, h1⟩)
  · cases e; exact Or.inr (Or.inr ⟨rfl, rfl, h1⟩)

/-- **density**: for `lo < hi` the path built by the loop is strictly between them -/
theorem loop_between (m : τ) : ∀ (lo hi : List (Rat × τ)), cmpPath lo hi = .lt →
    cmpPath lo (betweenLoop m lo hi) = .lt ∧ cmpPath (betweenLoop m lo hi) hi = .lt
  | [], hi, h => absurd h (cmpPath_nil_ne_lt hi)
  | (lr, lm) :: ls, [], _ => by
    simp only [betweenLoop, rationalBetween]
    exact ⟨cmpPath_cons_lt.mpr (Or.inl (Or.inl (rat_lt_succ lr))), by simp [cmpPath]⟩
  | (lr, lm) :: ls, (hr, hm) :: hs, h => by
    simp only [betweenLoop]
    rcases head_cases h with hlt | ⟨e, hlt⟩ | ⟨e, em, hrec⟩
    · have ne : lr ≠ hr := by grind
      simp only [ne, if_false, rationalBetween]
      exact ⟨cmpPath_cons_lt.mpr (Or.inl (Or.inl (rat_lt_mid hlt))),
             cmpPath_cons_lt.mpr (Or.inl (Or.inl (rat_mid_lt hlt)))⟩
    · subst e
      simp only [if_true]
      by_cases mid : lm < m ∧ m < hm
      · simp only [mid, and_self, if_true]
        exact ⟨cmpPath_cons_lt.mpr (Or.inl (Or.inr ⟨rfl, mid.1⟩)),
               cmpPath_cons_lt.mpr (Or.inl (Or.inr ⟨rfl, mid.2⟩))⟩
      · have em : lm ≠ hm := ne_of_lt hlt
        simp only [mid, if_false, em]
        exact ⟨cmpPath_cons_lt.mpr (Or.inl (Or.inr ⟨rfl, hlt⟩)),
               cmpPath_cons_lt.mpr (Or.inr ⟨rfl, cleared_lt m hs⟩)⟩
    · subst e; subst em
      have mid : ¬ (lm < m ∧ m < lm) := fun ⟨a, b⟩ => lt_asymm a b
      simp only [if_true, mid, if_false]
      have ih := loop_between m ls hs hrec
      exact ⟨cmpPath_cons_lt.mpr (Or.inr ⟨rfl, ih.1⟩), cmpPath_cons_lt.mpr (Or.inr ⟨rfl, ih.2⟩)⟩

/-- the loop always ends by pushing a node carrying the marker -/
theorem loop_getLast (m : τ) : ∀ (lo hi : List (Rat × τ)), ∃ r, (betweenLoop m lo hi).getLast? = some (r, m)
  | [], [] => ⟨_, rfl⟩
  | [], (_, _) :: _ => ⟨_, rfl⟩
  | (_, _) :: _, [] => ⟨_, rfl⟩
  | (lr, lm) :: ls, (hr, hm) :: hs => by
    simp only [betweenLoop]
    split
    · split
      · exact ⟨_, rfl⟩
      · split
        · obtain ⟨r, h⟩ := loop_getLast m ls hs
          refine ⟨r, ?_⟩
          rw [List.getLast?_cons, h]; rfl
        · obtain ⟨r, h⟩ := loop_getLast m [] hs
          refine ⟨r, ?_⟩
          rw [List.getLast?_cons, h]; rfl
    · exact ⟨_, rfl⟩

theorem loop_ne_nil (m : τ) (lo hi : List (Rat × τ)) : betweenLoop m lo hi ≠ [] := by
  obtain ⟨r, h⟩ := loop_getLast m lo hi
  intro e; rw [e] at h; simp at h

theorem value_of_getLast {i : Identifier τ} {r : Rat} {m : τ} (h : i.path.getLast? = some (r, m)) :
    i.value = some m := by simp [value, h]

theorem value_isSome_iff {i : Identifier τ} : i.value.isSome ↔ i.path ≠ [] := by
  cases i with | mk p =>
  cases p with
  | nil => simp [value]
  | cons a t => simp [value, List.getLast?_cons]

theorem cmp_eq_iff {a b : Identifier τ} : cmp a b = .eq ↔ a = b :=
  ⟨fun h => ext (cmpPath_eq_iff.mp h), fun h => by subst h; exact cmpPath_refl _⟩

theorem cmp_gt_iff {a b : Identifier τ} : cmp a b = .gt ↔ b < a := cmpPath_swap _ _

/-- unfolding of the two-sided `between` for ordered arguments -/
theorem between_of_lt {lo hi : Identifier τ} (h : lo < hi) (m : τ) :
    between (some lo) (some hi) m = ⟨betweenLoop m lo.path hi.path⟩ := by
  have h' : cmp lo hi = .lt := h
  simp [between, h']

theorem between_of_gt {lo hi : Identifier τ} (h : hi < lo) (m : τ) :
    between (some lo) (some hi) m = ⟨betweenLoop m hi.path lo.path⟩ := by
  have h' : cmp lo hi = .gt := cmp_gt_iff.mpr h
  simp [between, h']

theorem between_self (a : Identifier τ) (m : τ) : between (some a) (some a) m = a := by
  have h' : cmp a a = .eq := cmp_eq_iff.mpr rfl
  simp [between, h']

theorem between_strict {lo hi : Identifier τ} (h : lo < hi) (m : τ) :
    lo < between (some lo) (some hi) m ∧ between (some lo) (some hi) m < hi := by
  rw [between_of_lt h]
  exact loop_between m lo.path hi.path h

theorem between_after {lo : Identifier τ} (h : lo.path ≠ []) (m : τ) : lo < between (some lo) none m := by
  cases lo with | mk p =>
  cases p with
  | nil => exact absurd rfl h
  | cons a t =>
    obtain ⟨r, x⟩ := a
    show cmpPath ((r, x) :: t) [(rationalBetween (some r) none, m)] = .lt
    exact cmpPath_cons_lt.mpr (Or.inl (Or.inl (rat_lt_succ r)))

theorem between_before (hi : Identifier τ) (m : τ) : between none (some hi) m < hi := by
  cases hi with | mk p =>
  cases p with
  | nil => show cmpPath [(rationalBetween none none, m)] [] = .lt; simp [cmpPath]
  | cons a t =>
    obtain ⟨r, x⟩ := a
    show cmpPath [(rationalBetween none (some r), m)] ((r, x) :: t) = .lt
    exact cmpPath_cons_lt.mpr (Or.inl (Or.inl (rat_pred_lt r)))

theorem between_value (low high : Option (Identifier τ)) (m : τ)
    (hne : ∀ a, ¬ (low = some a ∧ high = some a)) : (between low high m).value = some m := by
  match low, high with
  | none, none => rfl
  | some lo, none => rfl
  | none, some hi => rfl
  | some lo, some hi =>
    rcases LinOrd.lt_tri lo hi with h | h | h
    · rw [between_of_lt h]
      obtain ⟨r, hr⟩ := loop_getLast m lo.path hi.path
      exact value_of_getLast (i := ⟨_⟩) hr
    · exact absurd ⟨rfl, by rw [h]⟩ (hne lo)
    · rw [between_of_gt h]
      obtain ⟨r, hr⟩ := loop_getLast m hi.path lo.path
      exact value_of_getLast (i := ⟨_⟩) hr

/-- declarative reading of the order: `p < q` iff at the first position where they differ `p` still has a node and
either `q` has ended there (a proper prefix is greater) or `q`'s node is greater -/
theorem cmpPath_lt_iff : ∀ (p q : List (Rat × τ)), cmpPath p q = .lt ↔
    ∃ c x s, p = c ++ x :: s ∧ (q = c ∨ ∃ y t, q = c ++ y :: t ∧ nodeLt x y)
  | [], q => by
    constructor
    · intro h; exact absurd h (cmpPath_nil_ne_lt q)
    · rintro ⟨c, x, s, h, _⟩; cases c <;> simp at h
  | a :: as, [] => by
    constructor
    · intro _; exact ⟨[], a, as, rfl, Or.inl rfl⟩
    · intro _; simp [cmpPath]
  | a :: as, b :: bs => by
    rw [cmpPath_cons_lt, cmpPath_lt_iff as bs]
    constructor
    · rintro (h | ⟨e, c, x, s, h1, h2⟩)
      · exact ⟨[], a, as, rfl, Or.inr ⟨b, bs, rfl, h⟩⟩
      · subst e
        refine ⟨a :: c, x, s, by simp [h1], ?_⟩
        rcases h2 with h2 | ⟨y, t, h2, h3⟩
        · exact Or.inl (by simp [h2])
        · exact Or.inr ⟨y, t, by simp [h2], h3⟩
    · rintro ⟨c, x, s, h1, h2⟩
      cases c with
      | nil =>
        simp only [List.nil_append, List.cons.injEq] at h1
        obtain ⟨e1, e2⟩ := h1
        subst e1
        rcases h2 with h2 | ⟨y, t, h2, h3⟩
        · cases h2
        · simp only [List.nil_append, List.cons.injEq] at h2
          obtain ⟨e3, _⟩ := h2
          subst e3; exact Or.inl h3
      | cons c0 c' =>
        simp only [List.cons_append, List.cons.injEq] at h1
        obtain ⟨e1, e2⟩ := h1
        subst e1
        rcases h2 with h2 | ⟨y, t, h2, h3⟩
        · simp only [List.cons.injEq] at h2
          obtain ⟨e3, e4⟩ := h2
          exact Or.inr ⟨e3.symm, c', x, s, e2, Or.inl e4⟩
        · simp only [List.cons_append, List.cons.injEq] at h2
          obtain ⟨e3, e4⟩ := h2
          exact Or.inr ⟨e3.symm, c', x, s, e2, Or.inr ⟨y, t, e4, h3⟩⟩

theorem between_nonempty' (low high : Option (Identifier τ)) (m : τ)
    (hne : ∀ a, ¬ (low = some a ∧ high = some a)) : (between low high m).path ≠ [] := by
  have := between_value low high m hne
  exact value_isSome_iff.mp (by rw [this]; rfl)

end Identifier
end Crdt
