import CrdtModel.Spec.SysMap
import CrdtModel.Proofs.SysOrswot
import CrdtModel.Props.C07
import CrdtModel.Props.C05NestedOrswot
set_option linter.unusedSectionVars false
/-!
# The Map system invariant

Generic part (every value type, every allowed closure): the key-level log is well-formed, every replica state and saved state
is `CMap.Reach`-derivable over the log, own updates are known, update dots are positive, unique and contiguous.
Nested part (`Map<K, Orswot<M,A>, A>`, closures = the Orswot API): `NLogWF` of the log; in the causal op-only system every
replica state is `ReachC`-derivable.
-/
namespace Crdt.SysMap
open Crdt LinOrd OrswotSpec CMap Crdt.Sys

section generic
variable {K V VOp A : Type} [LinOrd K] [LinOrd A] {ops : ValOps V VOp A} {Allowed : (V → AddCtx A → VOp) → Prop}

/-! ## monotonicity of `CMap.Reach` in the universe -/

theorem keyLog_cons (op : MapOp K VOp A) (U : List (MapOp K VOp A)) : keyLog (op :: U) = keyOp op :: keyLog U := rfl

/-- **monotonicity of `CMap.Reach` under a fresh extension of the universe** (fresh at key level) -/
theorem reach_mono_cons {U L : List (MapOp K VOp A)} {s : CMap K V A} {op : MapOp K VOp A}
    (fr : FreshFor (keyLog U) (keyOp op)) (h : CMap.Reach ops U s L) : CMap.Reach ops (op :: U) s L := by
  induction h with
  | init => exact .init
  | apply _ hu ok ih => exact .apply ih (List.mem_cons_of_mem _ hu) (ok_mono_cons fr (List.mem_map_of_mem hu) ok)
  | merge _ _ ih1 ih2 => exact .merge ih1 ih2

/-- knowledge is part of the universe -/
theorem reach_sub {U L : List (MapOp K VOp A)} {s : CMap K V A} (h : CMap.Reach ops U s L) : ∀ x ∈ L, x ∈ U := by
  induction h with
  | init => intro x hx; cases hx
  | apply _ hu _ ih =>
    intro x hx
    rcases List.mem_cons.mp hx with e | e
    · rw [e]; exact hu
    · exact ih x e
  | merge _ _ ih1 ih2 =>
    intro x hx
    rcases List.mem_append.mp hx with e | e
    · exact ih1 x e
    · exact ih2 x e

theorem up_mem_keyLog {L : List (MapOp K VOp A)} {d : Dot A} {k : K} {o : VOp} (h : MapOp.up d k o ∈ L) :
    OrswotOp.add d [k] ∈ keyLog L := (C05.add_mem_keyLog_mpr h).1

/-! ## the invariant -/

structure SysInv (ops : ValOps V VOp A) (c : Cfg K V VOp A) : Prop where
  /-- (a) the key-level log is well-formed -/
  wf : LogWF (keyLog c.log)
  /-- (b) every replica state is derivable over the log with its knowledge … -/
  reach : ∀ i, CMap.Reach ops c.log (c.rep i) (c.know i)
  /-- … and so is every saved state -/
  snaps : ∀ p ∈ c.snaps, CMap.Reach ops c.log p.1 p.2
  /-- (c) an actor's replica knows all of that actor's updates -/
  own : ∀ i d k o, MapOp.up d k o ∈ c.log → d.actor = i → MapOp.up d k o ∈ c.know i
  /-- (d) update counters are positive, -/
  pos : ∀ d k o, MapOp.up d k o ∈ c.log → 0 < d.counter
  /-- a dot names one update (key AND nested op), -/
  dots_unique : DotsUnique c.log
  /-- and counters are contiguous per actor -/
  contig : ∀ d k o n, MapOp.up d k o ∈ c.log → 0 < n → n ≤ d.counter → ∃ k' o', MapOp.up ⟨d.actor, n⟩ k' o' ∈ c.log

theorem sysInv_init : SysInv ops (Cfg.init : Cfg K V VOp A) where
  wf := ⟨fun _ _ _ h _ => (by cases h), fun _ _ h => (by cases h)⟩
  reach := fun _ => .init
  snaps := fun _ h => (by cases h)
  own := fun _ _ _ _ h => (by cases h)
  pos := fun _ _ _ h => (by cases h)
  dots_unique := fun _ _ _ _ _ h => (by cases h)
  contig := fun _ _ _ _ h => (by cases h)

namespace SysInv
variable {c : Cfg K V VOp A}

theorem view (inv : SysInv ops c) {s : CMap K V A} {L : List (MapOp K VOp A)} (v : c.View s L) : CMap.Reach ops c.log s L := by
  cases v with
  | rep i => exact inv.reach i
  | snap hp => exact inv.snaps _ hp

theorem know_sub (inv : SysInv ops c) (i : A) : ∀ x ∈ c.know i, x ∈ c.log := reach_sub (inv.reach i)

/-- key-level form of (c) -/
theorem own_key (inv : SysInv ops c) (i : A) (d : Dot A) (ms : List K) (h : OrswotOp.add d ms ∈ keyLog c.log) (ha : d.actor = i) :
    OrswotOp.add d ms ∈ keyLog (c.know i) := by
  obtain ⟨k, o, e, hin⟩ := C05.add_mem_keyLog' h
  rw [e]; exact up_mem_keyLog (inv.own i d k o hin ha)

theorem clock (inv : SysInv ops c) {s : CMap K V A} {L : List (MapOp K VOp A)} (v : c.View s L) (a : A) :
    s.clock.get a = clk (keyLog L) a := (keys_rep inv.wf (inv.view v)).2.clock a

/-- the dot the API derives at `i` -/
theorem derived_dot (inv : SysInv ops c) (i : A) :
    ((c.rep i).readCtx.deriveAddCtx i).dot = ⟨i, clk (keyLog (c.know i)) i + 1⟩ :=
  (C07.map_derived_dot_fresh inv.wf (inv.reach i) i (fun d k o hu ha => inv.own i d k o hu ha)).1

/-- … is newer than every update of `i` in the log -/
theorem derived_fresh (inv : SysInv ops c) (i : A) (ks : List K) :
    FreshFor (keyLog c.log) (OrswotOp.add (⟨i, clk (keyLog (c.know i)) i + 1⟩ : Dot A) ks) := by
  intro d' ms' hu ha
  have ha : d'.actor = i := ha
  have := le_clk (inv.own_key i d' ms' hu ha)
  rw [ha] at this
  show d'.counter < clk (keyLog (c.know i)) i + 1
  omega

end SysInv

/-! ## generation -/

/-- what the API guarantees about a generated op: an update carries the next dot of the issuing actor, a key-remove
context stores no zero -/
def GenOk (c : Cfg K V VOp A) (i : A) : MapOp K VOp A → Prop
  | .up d _ _ => d = ⟨i, clk (keyLog (c.know i)) i + 1⟩
  | .rm cl _ => cl.NoZero

theorem genOk_fresh {c : Cfg K V VOp A} (inv : SysInv ops c) {i : A} {op : MapOp K VOp A} (g : GenOk c i op) :
    FreshFor (keyLog c.log) (keyOp op) := by
  cases op with
  | rm cl ks => trivial
  | up d k o => simp only [GenOk] at g; subst g; exact inv.derived_fresh i [k]

theorem genOk_logWF {c : Cfg K V VOp A} (inv : SysInv ops c) {i : A} {op : MapOp K VOp A} (g : GenOk c i op) :
    LogWF (keyLog (op :: c.log)) := by
  refine logWF_cons inv.wf (genOk_fresh inv g) (fun cl ms e => ?_)
  cases op with
  | rm cl' ks => simp only [keyOp, OrswotOp.rm.injEq] at e; rw [← e.1]; exact g
  | up d k o => simp [keyOp] at e

theorem genOk_ok {c : Cfg K V VOp A} (inv : SysInv ops c) {i : A} {op : MapOp K VOp A} (g : GenOk c i op) :
    OrswotSpec.Ok (keyLog (op :: c.log)) (keyLog (c.know i)) (keyOp op) := by
  cases op with
  | rm cl ks => trivial
  | up d k o =>
    have fr := genOk_fresh inv g
    simp only [GenOk] at g
    intro d' ms' hin ha hlt
    rcases List.mem_cons.mp hin with e | e
    · simp only [keyOp, OrswotOp.add.injEq] at e; rw [e.1] at hlt; omega
    · exact inv.own_key i d' ms' e (by rw [ha]; show d.actor = i; rw [g])

theorem sysInv_gen {c : Cfg K V VOp A} (inv : SysInv ops c) {i : A} {op : MapOp K VOp A} (g : GenOk c i op) :
    SysInv ops (c.gen ops i op) := by
  have fr := genOk_fresh inv g
  refine ⟨genOk_logWF inv g, fun j => ?_, fun p hp => reach_mono_cons fr (inv.snaps p hp), fun j d k o hin ha => ?_,
    fun d k o hin => ?_, fun d k o k' o' h1 h2 => ?_, fun d k o n hin hn hle => ?_⟩
  · show CMap.Reach ops (op :: c.log) (upd c.rep i _ j) (upd c.know i _ j)
    by_cases e : j = i
    · subst e
      rw [upd_same, upd_same]
      exact .apply (reach_mono_cons fr (inv.reach j)) List.mem_cons_self (genOk_ok inv g)
    · rw [upd_other _ _ e, upd_other _ _ e]; exact reach_mono_cons fr (inv.reach j)
  · show MapOp.up d k o ∈ upd c.know i (op :: c.know i) j
    rcases List.mem_cons.mp hin with e | e
    · have hj : j = i := by
        rw [← e] at g; simp only [GenOk] at g; rw [← ha, g]
      subst hj; rw [upd_same, ← e]; exact List.mem_cons_self
    · by_cases hj : j = i
      · subst hj; rw [upd_same]; exact List.mem_cons_of_mem _ (inv.own j d k o e ha)
      · rw [upd_other _ _ hj]; exact inv.own j d k o e ha
  · rcases List.mem_cons.mp hin with e | e
    · rw [← e] at g; simp only [GenOk] at g; rw [g]; exact Nat.succ_pos _
    · exact inv.pos d k o e
  · -- a dot names one update: the new dot is carried by no older op
    rcases List.mem_cons.mp h1 with e1 | e1 <;> rcases List.mem_cons.mp h2 with e2 | e2
    · rw [← e1] at e2; cases e2; exact ⟨rfl, rfl⟩
    · rw [← e1] at fr; have := fr d [k'] (up_mem_keyLog e2) rfl; omega
    · rw [← e2] at fr; have := fr d [k] (up_mem_keyLog e1) rfl; omega
    · exact inv.dots_unique d k o k' o' e1 e2
  · show ∃ k' o', MapOp.up ⟨d.actor, n⟩ k' o' ∈ op :: c.log
    rcases List.mem_cons.mp hin with e | e
    · rw [← e] at g; simp only [GenOk] at g
      by_cases hn' : n = d.counter
      · exact ⟨k, o, by rw [hn', e]; exact List.mem_cons_self⟩
      · have hd : d.actor = i := by rw [g]
        have hc : d.counter = clk (keyLog (c.know i)) i + 1 := by rw [g]
        obtain ⟨d2, ms2, hd2, ha2, hc2⟩ := clk_attained (K := keyLog (c.know i)) (a := i) (by omega)
        obtain ⟨k2, o2, _, hin2⟩ := C05.add_mem_keyLog' hd2
        obtain ⟨k', o', h'⟩ := inv.contig d2 k2 o2 n (inv.know_sub i _ hin2) hn (by omega)
        exact ⟨k', o', List.mem_cons_of_mem _ (by rw [hd, ← ha2]; exact h')⟩
    · obtain ⟨k', o', h'⟩ := inv.contig d k o n e hn hle
      exact ⟨k', o', List.mem_cons_of_mem _ h'⟩

/-! ## the contexts the API hands out -/

theorem genOk_update {c : Cfg K V VOp A} (inv : SysInv ops c) (i : A) (k : K) (f : V → AddCtx A → VOp) :
    GenOk c i (CMap.update ops (c.rep i) k ((c.rep i).readCtx.deriveAddCtx i) f) := inv.derived_dot i

/-- map clocks store no zero -/
theorem clock_nz {c : Cfg K V VOp A} (inv : SysInv ops c) {s : CMap K V A} {L : List (MapOp K VOp A)} (v : c.View s L) :
    s.clock.NoZero := (keys_rep inv.wf (inv.view v)).2.clock_nz

/-- entry clocks (the `get` remove context) store no zero; for an absent key the context is empty -/
theorem get_nz {c : Cfg K V VOp A} (inv : SysInv ops c) {s : CMap K V A} {L : List (MapOp K VOp A)} (v : c.View s L) (k : K) :
    (s.get k).deriveRmCtx.clock.NoZero := by
  show (((s.entries.get? k).map (fun en : MapEntry V A => en.clock)).getD ∅).NoZero
  cases hg : s.entries.get? k with
  | none => exact VClock.noZero_empty
  | some en =>
    have := (keys_rep inv.wf (inv.view v)).2.ewf k en.clock (by simp only [keysView, FMap.get?_mapVal, hg, Option.map_some])
    exact this.1

/-! ## every step preserves the invariant -/

theorem sysInv_deliver {c : Cfg K V VOp A} (inv : SysInv ops c) (i : A) {op : MapOp K VOp A} (hu : op ∈ c.log)
    (ok : OrswotSpec.Ok (keyLog c.log) (keyLog (c.know i)) (keyOp op)) : SysInv ops (c.deliver ops i op) := by
  refine ⟨inv.wf, fun j => ?_, inv.snaps, fun j d k o hin ha => ?_, inv.pos, inv.dots_unique, inv.contig⟩
  · show CMap.Reach ops c.log (upd c.rep i _ j) (upd c.know i _ j)
    by_cases e : j = i
    · subst e; rw [upd_same, upd_same]; exact .apply (inv.reach j) hu ok
    · rw [upd_other _ _ e, upd_other _ _ e]; exact inv.reach j
  · show MapOp.up d k o ∈ upd c.know i (op :: c.know i) j
    by_cases e : j = i
    · subst e; rw [upd_same]; exact List.mem_cons_of_mem _ (inv.own j d k o hin ha)
    · rw [upd_other _ _ e]; exact inv.own j d k o hin ha

theorem sysInv_mergeIn {c : Cfg K V VOp A} (inv : SysInv ops c) (i : A) {s : CMap K V A} {L : List (MapOp K VOp A)}
    (h : CMap.Reach ops c.log s L) : SysInv ops (c.mergeIn ops i s L) := by
  refine ⟨inv.wf, fun j => ?_, inv.snaps, fun j d k o hin ha => ?_, inv.pos, inv.dots_unique, inv.contig⟩
  · show CMap.Reach ops c.log (upd c.rep i _ j) (upd c.know i _ j)
    by_cases e : j = i
    · subst e; rw [upd_same, upd_same]; exact .merge (inv.reach j) h
    · rw [upd_other _ _ e, upd_other _ _ e]; exact inv.reach j
  · show MapOp.up d k o ∈ upd c.know i (c.know i ++ L) j
    by_cases e : j = i
    · subst e; rw [upd_same]; exact List.mem_append.mpr (Or.inl (inv.own j d k o hin ha))
    · rw [upd_other _ _ e]; exact inv.own j d k o hin ha

theorem sysInv_snapshot {c : Cfg K V VOp A} (inv : SysInv ops c) (i : A) : SysInv ops (c.snapshot i) := by
  refine ⟨inv.wf, inv.reach, fun p hp => ?_, inv.own, inv.pos, inv.dots_unique, inv.contig⟩
  rcases List.mem_cons.mp hp with e | e
  · rw [e]; exact inv.reach i
  · exact inv.snaps p e

theorem sysInv_step {c c' : Cfg K V VOp A} (inv : SysInv ops c) (st : Step ops Allowed c c') : SysInv ops c' := by
  cases st with
  | update i k f _ => exact sysInv_gen inv (genOk_update inv i k f)
  | updateGet i k k' f _ => exact sysInv_gen inv (genOk_update inv i k f)
  | rmKey i k => exact sysInv_gen inv (get_nz inv (.rep i) k)
  | rmKeyRead i k => exact sysInv_gen inv (clock_nz inv (.rep i))
  | deliver i op hu ok => exact sysInv_deliver inv i hu ok
  | merge i j => exact sysInv_mergeIn inv i (inv.reach j)
  | snapshot i => exact sysInv_snapshot inv i
  | mergeSnap i n p hp => exact sysInv_mergeIn inv i (inv.snaps p (List.mem_of_getElem? hp))

/-- **the invariant holds in every configuration the system can reach** -/
theorem sysInv_run {c : Cfg K V VOp A} (r : Run ops Allowed c) : SysInv ops c := by
  induction r with
  | init => exact sysInv_init
  | step _ st ih => exact sysInv_step ih st

end generic

/-! ## `Map<K, Orswot<M,A>, A>` with the Orswot API closures: `NLogWF` -/
section nested
variable {K M A : Type} [LinOrd K] [LinOrd M] [LinOrd A]

/-- a nested add carries the dot of its Map op -/
def SameDot (U : List (NOp K M A)) : Prop := ∀ d k d' ms, MapOp.up d k (OrswotOp.add d' ms) ∈ U → d' = d

theorem sameDot_cons {U : List (NOp K M A)} {op : NOp K M A} (h : SameDot U)
    (hop : ∀ d k d' ms, op = MapOp.up d k (OrswotOp.add d' ms) → d' = d) : SameDot (op :: U) := by
  intro d k d' ms hin
  rcases List.mem_cons.mp hin with e | e
  · exact hop d k d' ms e.symm
  · exact h d k d' ms e

/-- an update built by one of the API closures: if the nested op is an add, it has the dot of the update -/
theorem sameDot_update (s : CMap K (Orswot M A) A) (k : K) (ctx : AddCtx A) {f : Orswot M A → AddCtx A → OrswotOp M A}
    (hf : NestedGen f) :
    ∀ d k' d' ms, CMap.update Orswot.valOps s k ctx f = MapOp.up d k' (OrswotOp.add d' ms) → d' = d := by
  intro d k' d' ms e
  cases hf with
  | add m => simp only [CMap.update, Orswot.add, MapOp.up.injEq, OrswotOp.add.injEq] at e; rw [← e.1, ← e.2.2.1]
  | addAll ms' => simp only [CMap.update, Orswot.addAll, MapOp.up.injEq, OrswotOp.add.injEq] at e; rw [← e.1, ← e.2.2.1]
  | rm m => simp [CMap.update, Orswot.rm] at e
  | rmRead m => simp [CMap.update, Orswot.rm] at e
  | rmAll ms' => simp [CMap.update, Orswot.rmAll] at e

theorem sameDot_rm (k : K) (ctx : RmCtx A) :
    ∀ d k' d' ms, (CMap.rm k ctx : NOp K M A) = MapOp.up d k' (OrswotOp.add d' ms) → d' = d := by
  intro d k' d' ms e; simp [CMap.rm] at e

theorem sameDot_step {c c' : NCfg K M A} (h : SameDot c.log) (st : Step Orswot.valOps NestedGen c c') : SameDot c'.log := by
  cases st with
  | update i k f hf => exact sameDot_cons h (sameDot_update _ k _ hf)
  | updateGet i k k' f hf => exact sameDot_cons h (sameDot_update _ k _ hf)
  | rmKey i k => exact sameDot_cons h (sameDot_rm k _)
  | rmKeyRead i k => exact sameDot_cons h (sameDot_rm k _)
  | deliver i op hu ok => exact h
  | merge i j => exact h
  | snapshot i => exact h
  | mergeSnap i n p hp => exact h

theorem sameDot_run {c : NCfg K M A} (r : NRun c) : SameDot c.log := by
  induction r with
  | init => intro d k d' ms h; cases h
  | step _ st ih => exact sameDot_step ih st

/-- **the log of every run of the nested system satisfies `NLogWF`** -/
theorem nlogWF_run {c : NCfg K M A} (r : NRun c) : NLogWF c.log :=
  have inv := sysInv_run r
  ⟨inv.wf, sameDot_run r, inv.pos, inv.dots_unique⟩

/-! ## the causal, op-only system: every replica state is `ReachC`-derivable -/

theorem stepC_step {c c' : NCfg K M A} (st : StepC c c') : Step Orswot.valOps NestedGen c c' := by
  cases st with
  | update i k f hf => exact .update c i k f hf
  | rmKey i k => exact .rmKey c i k
  | rmKeyRead i k => exact .rmKeyRead c i k
  | deliver i op hu ok _ => exact .deliver c i op hu ok

theorem runC_run {c : NCfg K M A} (r : RunC c) : NRun c := by
  induction r with
  | init => exact .init
  | step _ st ih => exact .step ih (stepC_step st)

/-- **monotonicity of `ReachC` under a fresh extension of the universe** -/
theorem reachC_mono_cons {U L : List (NOp K M A)} {s : CMap K (Orswot M A) A} {op : NOp K M A}
    (fr : FreshFor (keyLog U) (keyOp op)) (h : ReachC U s L) : ReachC (op :: U) s L := by
  induction h with
  | init => exact .init
  | apply _ hu ok hctx ih =>
    exact .apply ih (List.mem_cons_of_mem _ hu) (ok_mono_cons fr (List.mem_map_of_mem hu) ok) hctx

/-- the nested value the `update` closure receives is the one `get` returns (the default if the key is absent) -/
theorem update_arg (s : CMap K (Orswot M A) A) (k : K) :
    ((s.entries.get? k).map (·.val)).getD (Orswot.valOps (M := M) (A := A)).default = ((s.get k).val).getD Orswot.init := rfl

/-- an op generated through the API at a replica of the causal region satisfies the causal premise THERE: every context the
API hands out is dominated by the replica clock -/
theorem ctxOk_update {U L : List (NOp K M A)} {s : CMap K (Orswot M A) A} (wf : NLogWF U) (h : ReachC U s L) (k : K)
    (ctx : AddCtx A) {f : Orswot M A → AddCtx A → OrswotOp M A} (hf : NestedGen f) :
    CtxOk L (CMap.update Orswot.valOps s k ctx f) := by
  have hclk : ∀ a, (((s.get k).val).getD Orswot.init).clock.get a ≤ clk (keyLog L) a := fun a => by
    rw [← h.clock wf a]; exact C05.nested_clock_le wf h k a
  cases hf with
  | add m => trivial
  | addAll ms => trivial
  | rm m =>
    show ∀ a, ((((s.get k).val).getD Orswot.init).contains m).deriveRmCtx.clock.get a ≤ clk (keyLog L) a
    intro a
    have hw := C05.nested_orswot_witnesses wf h k m a
    have e : ((((s.get k).val).getD Orswot.init).contains m).deriveRmCtx.clock.get a =
        Orswot.entryGet (((s.get k).val).getD Orswot.init).entries m a := by
      simp only [Orswot.contains, ReadCtx.deriveRmCtx, Orswot.entryGet]
      cases (((s.get k).val).getD Orswot.init).entries.get? m <;> simp
    rw [e, hw]
    have := M2_le_clk L k m a
    unfold E2; split <;> omega
  | rmRead m => exact hclk
  | rmAll ms => exact hclk

theorem ctxOk_rmKey {U L : List (NOp K M A)} {s : CMap K (Orswot M A) A} (wf : NLogWF U) (h : ReachC U s L) (k : K) :
    CtxOk L (CMap.rm k (s.get k).deriveRmCtx : NOp K M A) := by
  show ∀ a, (s.get k).rmClock.get a ≤ clk (keyLog L) a
  intro a
  have := C07.map_rm_clock_le_add_clock wf.keys h.toReach k a
  rw [← h.clock wf a]; exact this

theorem ctxOk_rmKeyRead {U L : List (NOp K M A)} {s : CMap K (Orswot M A) A} (wf : NLogWF U) (h : ReachC U s L) (k : K) :
    CtxOk L (CMap.rm k s.readCtx.deriveRmCtx : NOp K M A) := by
  show ∀ a, s.clock.get a ≤ clk (keyLog L) a
  intro a; rw [h.clock wf a]; exact Nat.le_refl _

/-- all replicas of a configuration are in the causal region -/
def AllC (c : NCfg K M A) : Prop := ∀ i, ReachC c.log (c.rep i) (c.know i)

theorem allC_gen {c : NCfg K M A} (inv : SysInv Orswot.valOps c) (hC : AllC c) {i : A} {op : NOp K M A} (g : GenOk c i op)
    (hctx : CtxOk (c.know i) op) : AllC (c.gen Orswot.valOps i op) := by
  have fr := genOk_fresh inv g
  intro j
  show ReachC (op :: c.log) (upd c.rep i _ j) (upd c.know i _ j)
  by_cases e : j = i
  · subst e
    rw [upd_same, upd_same]
    exact .apply (reachC_mono_cons fr (hC j)) List.mem_cons_self (genOk_ok inv g) hctx
  · rw [upd_other _ _ e, upd_other _ _ e]; exact reachC_mono_cons fr (hC j)

theorem allC_step {c c' : NCfg K M A} (inv : SysInv Orswot.valOps c) (wf : NLogWF c.log) (hC : AllC c) (st : StepC c c') :
    AllC c' := by
  cases st with
  | update i k f hf => exact allC_gen inv hC (genOk_update inv i k f) (ctxOk_update wf (hC i) k _ hf)
  | rmKey i k => exact allC_gen inv hC (get_nz inv (.rep i) k) (ctxOk_rmKey wf (hC i) k)
  | rmKeyRead i k => exact allC_gen inv hC (clock_nz inv (.rep i)) (ctxOk_rmKeyRead wf (hC i) k)
  | deliver i op hu ok hctx =>
    intro j
    show ReachC c.log (upd c.rep i _ j) (upd c.know i _ j)
    by_cases e : j = i
    · subst e; rw [upd_same, upd_same]; exact .apply (hC j) hu ok hctx
    · rw [upd_other _ _ e, upd_other _ _ e]; exact hC j

/-- **every replica state of every run of the causal op-only system is `ReachC`-derivable over the run's log** -/
theorem allC_run {c : NCfg K M A} (r : RunC c) : AllC c := by
  induction r with
  | init => intro i; exact .init
  | step r' st ih => exact allC_step (sysInv_run (runC_run r')) (nlogWF_run (runC_run r')) ih st

end nested

end Crdt.SysMap
