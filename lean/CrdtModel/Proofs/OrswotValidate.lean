import CrdtModel.Proofs.ResetRemoveOrswot
set_option linter.unusedSectionVars false
/-! Helper lemmas for C17: the triple loop of `Orswot::validate_merge` (src/orswot.rs:114-130) as a statement
about the two entry tables. -/
namespace Crdt
open LinOrd
namespace Orswot
variable {M A : Type} [LinOrd M] [LinOrd A]

/-- the loop finds a hit: an entry `(m, c)` of `self`, a stored dot `(a, n)` of `c`, and an entry `(m', c')` of
`other` with `m' ≠ m` and `c'.get(a) == n` -/
def Hit (s o : Orswot M A) : Prop :=
  ∃ m c m' c' a n, s.entries.get? m = some c ∧ o.entries.get? m' = some c' ∧ c.dots.get? a = some n ∧
    m' ≠ m ∧ c'.get a = n

theorem validateMerge_ok_iff (s o : Orswot M A) : s.validateMerge o = .ok () ↔ ¬ Hit s o := by
  unfold validateMerge
  simp only
  split
  · next e he =>
    simp only [reduceCtorEq, false_iff, Classical.not_not]
    obtain ⟨⟨m, c⟩, hm, h1⟩ := List.exists_of_findSome?_eq_some he
    obtain ⟨⟨m', c'⟩, hm', h2⟩ := List.exists_of_findSome?_eq_some h1
    obtain ⟨⟨a, n⟩, ha, h3⟩ := List.exists_of_findSome?_eq_some h2
    simp only at h3
    split at h3
    · next hc =>
      exact ⟨m, c, m', c', a, n, (mem_l_iff _ (m, c)).mp hm, (mem_l_iff _ (m', c')).mp hm',
        (mem_l_iff _ (a, n)).mp ha, hc.1, hc.2⟩
    · cases h3
  · next hn =>
    simp only [true_iff]
    rintro ⟨m, c, m', c', a, n, hm, hm', ha, hne, hc⟩
    have h1 := List.findSome?_eq_none_iff.mp hn (m, c) ((mem_l_iff _ (m, c)).mpr hm)
    simp only at h1
    have h2 := List.findSome?_eq_none_iff.mp h1 (m', c') ((mem_l_iff _ (m', c')).mpr hm')
    simp only at h2
    have h3 := List.findSome?_eq_none_iff.mp h2 (a, n) ((mem_l_iff _ (a, n)).mpr ha)
    simp only at h3
    rw [if_pos ⟨hne, hc⟩] at h3
    cases h3

theorem validateMerge_error_iff (s o : Orswot M A) : (∃ e, s.validateMerge o = .error e) ↔ Hit s o := by
  have := validateMerge_ok_iff s o
  cases h : s.validateMerge o with
  | ok u => cases u; rw [h] at this; simp only [true_iff] at this; simp [this]
  | error e =>
    rw [h] at this
    simp only [reduceCtorEq, false_iff, Classical.not_not] at this
    simp [this]

/-- the same in terms of witnesses: two DIFFERENT members share a live dot -/
def SharedDot (s o : Orswot M A) : Prop :=
  ∃ m m' a, m ≠ m' ∧ entryGet s.entries m a ≠ 0 ∧ entryGet o.entries m' a = entryGet s.entries m a

theorem get?_of_get_ne_zero {c : VClock A} {a : A} (h : c.get a ≠ 0) : c.dots.get? a = some (c.get a) := by
  unfold VClock.get at h ⊢
  cases hg : c.dots.get? a with
  | none => simp [hg] at h
  | some n => simp

theorem hit_of_sharedDot {s o : Orswot M A} (h : SharedDot s o) : Hit s o := by
  obtain ⟨m, m', a, hne, hz, he⟩ := h
  cases hm : s.entries.get? m with
  | none => rw [entryGet_of_none hm] at hz; exact absurd rfl hz
  | some c =>
    rw [entryGet_of_some hm] at hz he
    cases hm' : o.entries.get? m' with
    | none => rw [entryGet_of_none hm'] at he; exact absurd he.symm hz
    | some c' =>
      rw [entryGet_of_some hm'] at he
      exact ⟨m, c, m', c', a, c.get a, hm, hm', get?_of_get_ne_zero hz, fun e => hne e.symm, he⟩

theorem sharedDot_of_hit {s o : Orswot M A} (wf : EntriesWF s.entries) (h : Hit s o) : SharedDot s o := by
  obtain ⟨m, c, m', c', a, n, hm, hm', ha, hne, hc⟩ := h
  have hn : n ≠ 0 := fun e => by subst e; exact (wf m c hm).1 a ha
  have hg : c.get a = n := VClock.get_eq_of_get? ha
  exact ⟨m, m', a, fun e => hne e.symm, by rw [entryGet_of_some hm, hg]; exact hn,
    by rw [entryGet_of_some hm, entryGet_of_some hm', hg, hc]⟩

theorem sharedDot_symm {s o : Orswot M A} (h : SharedDot s o) : SharedDot o s := by
  obtain ⟨m, m', a, hne, hz, he⟩ := h
  exact ⟨m', m, a, fun e => hne e.symm, by rw [he]; exact hz, he.symm⟩

end Orswot
end Crdt
